(* time_control.rs: the GameTime record (kept apart from the floating-point model) *)
From Coq Require Import ZArith.
Open Scope Z_scope.
Record GameTime := mkGT { wtime : Z; btime : Z; winc : Z; binc : Z; movestogo : option Z }.
