(* uci.rs: make_move, play_out_position, send_best_move_to_gui text; draw_table.rs *)
From Walleye Require Export Model.Successor Model.Fen.
Open Scope Z_scope.

(* ---- draw_table.rs : HashMap<u64, u8> as an association list (lookup default 0) *)
Definition dtable := list (N * Z).

Fixpoint dt_get (t : dtable) (k : N) : option Z :=
  match t with [] => None | (k', v) :: r => if (k' =? k)%N then Some v else dt_get r k end.
Fixpoint dt_insert (t : dtable) (k : N) (v : Z) : dtable :=
  match t with
  | [] => [(k, v)]
  | (k', v') :: r => if (k' =? k)%N then (k, v) :: r else (k', v') :: dt_insert r k v
  end.
Definition dt_count (t : dtable) (k : N) : Z := match dt_get t k with Some v => v | None => 0 end.

Definition dt_add (t : dtable) (s : BoardState) : dtable :=
  dt_insert t (zobrist_key s) (dt_count t (zobrist_key s) + 1).
Definition dt_remove (t : dtable) (s : BoardState) : dtable :=
  match dt_get t (zobrist_key s) with
  | Some v => dt_insert t (zobrist_key s) (v - 1)
  | None => t
  end.
Definition is_threefold_repetition (t : dtable) (s : BoardState) : bool :=
  let n := dt_count t (zobrist_key s) in
  match REPETITION_OP with
  | 0%N => REPETITION_THRESHOLD <=? n
  | 1%N => n =? REPETITION_THRESHOLD
  | _ => REPETITION_THRESHOLD <? n
  end.

Section TextMove.
Variable zt : ztable.

Notation take_away := (take_away_castling_rights zt).
Notation move_piece := (move_piece zt).

Definition is_ascii (s : str) : bool := forallb (fun c => (c <? 128)%N) s.

Definition str_a8 : str := [97; 56]%N.
Definition str_h8 : str := [104; 56]%N.
Definition str_a1 : str := [97; 49]%N.
Definition str_h1 : str := [104; 49]%N.

Definition promo_kind_of_char (c : N) : kind :=
  if (c =? 113)%N then Queen else if (c =? 110)%N then Knight
  else if (c =? 98)%N then Bishop else if (c =? 114)%N then Rook else Queen.

Definition castle_rook_step (s : BoardState) (mv castle_str : str) (fin : point) (king : piece)
           (rook_from rook_to : point) : option BoardState :=
  if str_eqb mv castle_str && sq_is (get (board s) fin) king then Some (move_piece s rook_from rook_to) else None.

(* make_move(board, player_move, hasher); Panic sites: 30 slice [0..2]/[2..4] (length or char boundary),
   31/32 parse().unwrap(), 33 "piece that does not exist" *)
Definition make_move (s : BoardState) (mv : str) : res BoardState :=
  if negb (is_ascii mv) || (Z.of_nat (length mv) <? 4) then Panic 30
  else
    match point_from_str (firstn 2 mv), point_from_str (firstn 2 (skipn 2 mv)) with
    | None, _ => Panic 31
    | _, None => Panic 32
    | Some sp, Some ep =>
        let s := unset_pawn_double_move zt s in
        match get (board s) sp with
        | Full pc =>
            let s :=
              match pkind pc with
              | King =>
                  match pcolor pc with
                  | White => take_away (take_away (with_wk s ep) WQS) WKS
                  | Black => take_away (take_away (with_bk s ep) BQS) BKS
                  end
              | Pawn =>
                  let s :=
                    if Z.abs (fst sp - fst ep) =? 2 then
                      let target := match pcolor pc with White => (fst sp - 1, snd sp) | Black => (fst sp + 1, snd sp) end in
                      with_pdm (kx s (z_ep zt (snd target))) (Some target)
                    else s in
                  if negb (snd sp =? snd ep) && square_eqb (get (board s) ep) Empty then
                    kx (with_board s (set (board s) (fst sp, snd ep) Empty))
                       (z_piece zt (mkPiece (opposite (to_move s)) Pawn) (fst sp, snd ep))
                  else s
              | _ => s
              end in
            let s := if contains mv str_a8 then take_away s BQS else s in
            let s := if contains mv str_h8 then take_away s BKS else s in
            let s := if contains mv str_a1 then take_away s WQS else s in
            let s := if contains mv str_h1 then take_away s WKS else s in
            let s := move_piece s sp ep in
            let s :=
              if Nat.eqb (length mv) 5 then
                let k := promo_kind_of_char (nth 4 mv 0%N) in
                let pp := mkPiece (to_move s) k in
                with_board (kx s (N.lxor (z_piece zt (mkPiece (to_move s) Pawn) ep) (z_piece zt pp ep)))
                           (set (board s) ep (Full pp))
              else s in
            let s :=
              match castle_rook_step s mv WHITE_KING_SIDE_CASTLE_STRING ep (mkPiece White King)
                                     (BOARD_END - 1, BOARD_END - 1) (BOARD_END - 1, BOARD_END - 3) with
              | Some s' => s'
              | None =>
              match castle_rook_step s mv WHITE_QUEEN_SIDE_CASTLE_STRING ep (mkPiece White King)
                                     (BOARD_END - 1, BOARD_START) (BOARD_END - 1, BOARD_START + 3) with
              | Some s' => s'
              | None =>
              match castle_rook_step s mv BLACK_KING_SIDE_CASTLE_STRING ep (mkPiece Black King)
                                     (BOARD_START, BOARD_END - 1) (BOARD_START, BOARD_END - 3) with
              | Some s' => s'
              | None =>
              match castle_rook_step s mv BLACK_QUEEN_SIDE_CASTLE_STRING ep (mkPiece Black King)
                                     (BOARD_START, BOARD_START) (BOARD_START, BOARD_START + 3) with
              | Some s' => s'
              | None => s
              end end end end in
            Ok (swap_color zt s)
        | _ => Panic 33
        end
    end.

Fixpoint play_moves (s : BoardState) (t : dtable) (mvs : list str) : res (BoardState * dtable) :=
  match mvs with
  | [] => Ok (s, t)
  | mv :: r => res_bind (make_move s mv) (fun s' => play_moves s' (dt_add t s') r)
  end.

Definition str_fen : str := [102; 101; 110]%N.
Definition str_moves : str := [109; 111; 118; 101; 115]%N.

Fixpoint after_moves (cmds : list str) : option (list str) :=
  match cmds with
  | [] => None
  | c :: r => if str_eqb c str_moves then Some r else after_moves r
  end.

Fixpoint join_space (l : list str) : str :=
  match l with [] => [] | [x] => x | x :: r => x ++ 32%N :: join_space r end.

(* play_out_position(commands, hasher, draw_table) after draw_table.clear();
   Panic sites: 40 commands[1], 41 commands[7], 42 bad fen, 43 default fen unwrap *)
Definition play_out_position (cmds : list str) : res (BoardState * dtable) :=
  res_bind (nth_res cmds 1 40) (fun c1 =>
  res_bind
    (if str_eqb c1 str_fen then
       res_bind (nth_res cmds 7 41) (fun c7 =>
         let fen := flat_map (fun c => c ++ [32%N]) (firstn 5 (skipn 2 cmds)) ++ c7 in
         match from_fen zt fen with Ok b => Ok b | _ => Panic 42 end)
     else match from_fen zt DEFAULT_FEN_STRING with Ok b => Ok b | _ => Panic 43 end)
    (fun b =>
       let t := [(zobrist_key b, 1)] in
       match after_moves cmds with
       | Some mvs => play_moves b t mvs
       | None => Ok (b, t)
       end)).

(* the text printed after "bestmove " *)
Definition best_move_text (s : BoardState) : res str :=
  match last_move s with
  | None => Panic 50
  | Some (a, b) =>
      match pawn_promotion s with
      | Some pp => Ok (show_point a ++ show_point b ++ [kind_alg (pkind pp)])
      | None => Ok (show_point a ++ show_point b)
      end
  end.

End TextMove.
