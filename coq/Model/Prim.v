(* Primitive types of the Walleye model: colours, kinds, pieces, squares, points. *)
From Coq Require Export List ZArith NArith Bool Lia.
Export ListNotations.
Open Scope Z_scope.

Inductive color := White | Black.
Inductive kind := Pawn | Knight | Bishop | Rook | Queen | King.
Record piece := mkPiece { pcolor : color; pkind : kind }.
Inductive square := Empty | Full (p : piece) | Boundary.

(* Point(row, col) of the 12x12 mailbox, both in 0..11 for every square the code reads *)
Definition point := (Z * Z)%type.

Inductive castling := WKS | WQS | BKS | BQS.
Inductive mode := AllMoves | CapturesOnly.

(* Rust outcomes: a value, a reported error, or a panic at a numbered site *)
Inductive res (A : Type) := Ok (a : A) | Err (msg : N) | Panic (site : N).
Arguments Ok {A} a.
Arguments Err {A} msg.
Arguments Panic {A} site.

Definition res_bind {A B} (r : res A) (f : A -> res B) : res B :=
  match r with Ok a => f a | Err m => Err m | Panic s => Panic s end.

Definition opposite (c : color) : color := match c with White => Black | Black => White end.

Definition color_eqb (a b : color) : bool :=
  match a, b with White, White | Black, Black => true | _, _ => false end.

Definition kind_eqb (a b : kind) : bool :=
  match a, b with
  | Pawn, Pawn | Knight, Knight | Bishop, Bishop | Rook, Rook | Queen, Queen | King, King => true
  | _, _ => false
  end.

Definition piece_eqb (a b : piece) : bool :=
  color_eqb (pcolor a) (pcolor b) && kind_eqb (pkind a) (pkind b).

Definition square_eqb (a b : square) : bool :=
  match a, b with
  | Empty, Empty | Boundary, Boundary => true
  | Full p, Full q => piece_eqb p q
  | _, _ => false
  end.

Definition point_eqb (a b : point) : bool := (fst a =? fst b) && (snd a =? snd b).

Definition padd (p d : point) : point := (fst p + fst d, snd p + snd d).

Definition opt_point_eqb (a b : option point) : bool :=
  match a, b with
  | None, None => true
  | Some x, Some y => point_eqb x y
  | _, _ => false
  end.

Definition mv2 := (point * point)%type.
Definition mv2_eqb (a b : mv2) : bool := point_eqb (fst a) (fst b) && point_eqb (snd a) (snd b).
Definition opt_mv2_eqb (a b : option mv2) : bool :=
  match a, b with
  | None, None => true
  | Some x, Some y => mv2_eqb x y
  | _, _ => false
  end.

(* Square predicates of board.rs *)
Definition is_empty (s : square) : bool := match s with Empty => true | _ => false end.
Definition is_color (s : square) (c : color) : bool :=
  match s with Full p => color_eqb c (pcolor p) | _ => false end.
Definition is_empty_or_color (s : square) (c : color) : bool :=
  match s with Full p => color_eqb c (pcolor p) | Empty => true | Boundary => false end.
(* `square == piece` *)
Definition sq_is (s : square) (p : piece) : bool :=
  match s with Full q => piece_eqb q p | _ => false end.

Definition all_kinds : list kind := [Pawn; Knight; Bishop; Rook; Queen; King].
Definition all_colors : list color := [White; Black].
Definition all_pieces : list piece :=
  flat_map (fun c => map (fun k => mkPiece c k) all_kinds) all_colors.

(* ---- reflection lemmas *)
Lemma color_eqb_spec a b : reflect (a = b) (color_eqb a b).
Proof. destruct a, b; simpl; constructor; congruence. Qed.
Lemma kind_eqb_spec a b : reflect (a = b) (kind_eqb a b).
Proof. destruct a, b; simpl; constructor; congruence. Qed.
Lemma piece_eqb_spec a b : reflect (a = b) (piece_eqb a b).
Proof.
  destruct a as [ca ka], b as [cb kb]; unfold piece_eqb; simpl.
  destruct (color_eqb_spec ca cb), (kind_eqb_spec ka kb); simpl; constructor; congruence.
Qed.
Lemma square_eqb_spec a b : reflect (a = b) (square_eqb a b).
Proof.
  destruct a as [|p|], b as [|q|]; simpl; try (constructor; congruence).
  destruct (piece_eqb_spec p q); constructor; congruence.
Qed.
Lemma point_eqb_spec a b : reflect (a = b) (point_eqb a b).
Proof.
  destruct a as [a1 a2], b as [b1 b2]; unfold point_eqb; simpl.
  destruct (Z.eqb_spec a1 b1), (Z.eqb_spec a2 b2); simpl; constructor; congruence.
Qed.
Lemma color_eqb_refl a : color_eqb a a = true. Proof. destruct a; reflexivity. Qed.
Lemma kind_eqb_refl a : kind_eqb a a = true. Proof. destruct a; reflexivity. Qed.
Lemma piece_eqb_refl a : piece_eqb a a = true.
Proof. unfold piece_eqb; now rewrite color_eqb_refl, kind_eqb_refl. Qed.
Lemma point_eqb_refl a : point_eqb a a = true.
Proof. unfold point_eqb; now rewrite !Z.eqb_refl. Qed.
Lemma opposite_involutive c : opposite (opposite c) = c. Proof. destruct c; reflexivity. Qed.
Lemma opposite_neq c : opposite c <> c. Proof. destruct c; discriminate. Qed.
Lemma all_pieces_complete p : In p all_pieces.
Proof. destruct p as [[|] []]; simpl; tauto. Qed.
