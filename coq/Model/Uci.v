(* utils.rs: clean_input; uci.rs: parse_go_command, the dispatch loop and find_and_play_best_move
   as a state machine.  The two threads of a go meet in two parameters of the step: the expiry
   index k of the virtual clock.  After the search thread is joined the channel is drained, so the move played is
   the newest one the search handed over (the last send) - defect F13 repaired: before, the polling loop could leave
   holding an older send. *)
From Walleye Require Export Model.Search Model.GameTime.
Open Scope Z_scope.

(* ---- utils::clean_input *)
Fixpoint clean_chars (s : str) (prev_ws : bool) : str :=
  match s with
  | [] => []
  | c :: t =>
      if negb (is_whitespace c) then c :: clean_chars t false
      else if negb prev_ws then 32%N :: clean_chars t true
      else clean_chars t true
  end.
Fixpoint trim_start (s : str) : str :=
  match s with c :: t => if is_whitespace c then trim_start t else s | [] => [] end.
Definition trim (s : str) : str := rev (trim_start (rev (trim_start s))).
Definition clean_input (s : str) : str := trim (clean_chars s true).

(* ---- parse_go_command; Panic 70 = parse().unwrap() on a malformed value *)
Definition s_wtime : str := [119; 116; 105; 109; 101]%N.
Definition s_btime : str := [98; 116; 105; 109; 101]%N.
Definition s_winc : str := [119; 105; 110; 99]%N.
Definition s_binc : str := [98; 105; 110; 99]%N.
Definition s_movestogo : str := [109; 111; 118; 101; 115; 116; 111; 103; 111]%N.

Fixpoint parse_go_loop (fuel : nat) (cmds : list str) (gt : GameTime) : res GameTime :=
  match fuel with
  | O => Ok gt
  | S f =>
      match cmds with
      | tok :: ((v :: rest) as tail) =>
          let signed (upd : Z -> GameTime) :=
            match parse_signed 128 v with Some z => parse_go_loop f rest (upd z) | None => Panic 70 end in
          if str_eqb tok s_wtime then signed (fun z => mkGT z (btime gt) (winc gt) (binc gt) (movestogo gt))
          else if str_eqb tok s_btime then signed (fun z => mkGT (wtime gt) z (winc gt) (binc gt) (movestogo gt))
          else if str_eqb tok s_binc then signed (fun z => mkGT (wtime gt) (btime gt) (winc gt) z (movestogo gt))
          else if str_eqb tok s_winc then signed (fun z => mkGT (wtime gt) (btime gt) z (binc gt) (movestogo gt))
          else if str_eqb tok s_movestogo then
            match parse_unsigned 32 v with
            | Some z => parse_go_loop f rest (mkGT (wtime gt) (btime gt) (winc gt) (binc gt) (Some z))
            | None => Panic 70
            end
          else parse_go_loop f tail gt
      | _ => Ok gt
      end
  end.
Definition parse_go_command (cmds : list str) : res GameTime :=
  parse_go_loop (S (length cmds)) cmds (mkGT 0 0 0 0 None).

(* ---- the session *)
Definition s_uci : str := [117; 99; 105]%N.
Definition s_isready : str := [105; 115; 114; 101; 97; 100; 121]%N.
Definition s_ucinewgame : str := [117; 99; 105; 110; 101; 119; 103; 97; 109; 101]%N.
Definition s_position : str := [112; 111; 115; 105; 116; 105; 111; 110]%N.
Definition s_go : str := [103; 111]%N.
Definition s_setoption : str := [115; 101; 116; 111; 112; 116; 105; 111; 110]%N.
Definition s_quit : str := [113; 117; 105; 116]%N.
Definition s_readyok : str := [114; 101; 97; 100; 121; 111; 107]%N.
Definition s_bestmove : str := [98; 101; 115; 116; 109; 111; 118; 101; 32]%N.

Inductive phase := Running | Exited (status : Z) | Crashed (site : N).

Record session := mkSess { ss_board : BoardState; ss_table : dtable; ss_phase : phase }.

(* what the reader delivers: a line, or end of input *)
Inductive input := Line (s : str) | Eof.

(* the schedule of one go: the clock's expiry index (and the fuel of the model's recursion) *)
Record sched := mkSched { sc_k : option N; sc_fuel : nat }.

Section Session.
Variable zt : ztable.
Variable osort : N -> list BoardState -> list BoardState.

Definition sends_of (ev : list event) : list BoardState :=
  flat_map (fun e => match e with Send b => [b] | Info _ _ _ => [] end) ev.
Definition infos_of (ev : list event) : list str :=
  flat_map (fun e => match e with Info _ _ l => [l] | Send _ => [] end) ev.

(* find_and_play_best_move.  The time slice (Model/TimeControl.v) only fixes when the real clock
   expires; here expiry is the schedule's k, so the slice does not appear. *)
Definition go_step (st : session) (cmds : list str) (sc : sched) : session * list str :=
  match parse_go_command cmds with
  | Panic p => (mkSess (ss_board st) (ss_table st) (Crashed p), [])
  | Err _ => (st, [])
  | Ok gt =>
      match generate_moves zt (ss_board st) AllMoves with
      | [] => (st, [s_bestmove ++ NULL_MOVE_TEXT])
      | _ =>
          match get_best_move zt osort (sc_k sc) (sc_fuel sc) (ss_board st) (ss_table st) with
          | Ok (ev, _) =>
              let sends := sends_of ev in
              match nth_error sends (length sends - 1) with
              | Some b =>
                  match best_move_text b with
                  | Ok t => (mkSess b (ss_table st) Running, infos_of ev ++ [s_bestmove ++ t])
                  | _ => (mkSess b (ss_table st) (Crashed 50), infos_of ev)
                  end
              | None => (st, infos_of ev)     (* nothing was sent: the polling loop never leaves *)
              end
          | Err e => (mkSess (ss_board st) (ss_table st) (Crashed e), [])
          | Panic p => (mkSess (ss_board st) (ss_table st) (Crashed p), [])
          end
      end
  end.

Definition step (st : session) (inp : input) (sc : sched) : session * list str :=
  match ss_phase st with
  | Running =>
      match inp with
      | Eof => (mkSess (ss_board st) (ss_table st) (Exited 0), [])
      | Line raw =>
          let buffer := clean_input raw in
          let cmds := split_on 32 buffer in
          match cmds with
          | [] => (st, [])
          | c0 :: _ =>
              if str_eqb c0 s_isready then (st, [s_readyok])
              else if str_eqb c0 s_ucinewgame then (st, [])
              else if str_eqb c0 s_position then
                match play_out_position zt cmds with
                | Ok (b, t) => (mkSess b t Running, [])
                | Err e => (mkSess (ss_board st) [] (Crashed e), [])
                | Panic p => (mkSess (ss_board st) [] (Crashed p), [])
                end
              else if str_eqb c0 s_go then go_step st cmds sc
              else if str_eqb c0 s_setoption then (st, [])
              else if str_eqb c0 s_quit then (mkSess (ss_board st) (ss_table st) (Exited 1), [])
              else (st, [])
          end
      end
  | _ => (st, [])
  end.

Fixpoint run (st : session) (inps : list (input * sched)) : session * list str :=
  match inps with
  | [] => (st, [])
  | (i, sc) :: rest =>
      let '(st1, o1) := step st i sc in
      let '(st2, o2) := run st1 rest in
      (st2, o1 ++ o2)
  end.

End Session.
