(* time_control.rs: GameTime::calculate_time_slice on IEEE-754 binary64 (Flocq). *)
From Coq Require Import ZArith Bool.
From Flocq Require Import Core.Core IEEE754.BinarySingleNaN.
From Walleye Require Import Model.Prim Gen.Consts.
From Walleye Require Export Model.GameTime.
Open Scope Z_scope.

Definition prec := 53.
Definition emax := 1024.
Local Instance Hprec : FLX.Prec_gt_0 prec. Proof. unfold FLX.Prec_gt_0, prec; lia. Qed.
Local Instance Hemax : Prec_lt_emax prec emax. Proof. unfold Prec_lt_emax, prec, emax; lia. Qed.

Definition f64 := binary_float prec emax.

(* `i as f64` for an integer i: round to nearest, ties to even *)
Definition f64_of_Z (z : Z) : f64 := binary_normalize prec emax _ _ mode_NE z 0 false.

(* a positive normal binary64 from its bit pattern (used for the two f64 constants of the source) *)
Definition f64_of_bits (bits : Z) : f64 :=
  binary_normalize prec emax _ _ mode_NE (bits mod 2 ^ 52 + 2 ^ 52) (bits / 2 ^ 52 - 1075) false.

Definition SAFEGUARD : f64 := f64_of_bits SAFEGUARD_BITS.
Definition MAX_USAGE : f64 := f64_of_bits MAX_USAGE_BITS.
Definition zero : f64 := B754_zero false.

Definition fsub : f64 -> f64 -> f64 := Bminus mode_NE.
Definition fmul : f64 -> f64 -> f64 := Bmult mode_NE.
Definition fdiv : f64 -> f64 -> f64 := Bdiv mode_NE.
Definition fle (a b : f64) : bool := Bleb a b.
Definition flt (a b : f64) : bool := Bltb a b.
(* f64::min / f64::max on non-NaN arguments *)
Definition fmin (a b : f64) : f64 := if flt b a then b else a.
Definition fmax (a b : f64) : f64 := if flt a b then b else a.

(* f64::round (half away from zero) followed by the saturating `as u128` *)
Definition round_to_u128 (x : f64) : Z :=
  match x with
  | B754_finite false m e _ =>
      let v :=
        if 0 <=? e then Zpos m * 2 ^ e
        else
          let d := 2 ^ (- e) in
          let q := Zpos m / d in
          let r := Zpos m mod d in
          if d <=? 2 * r then q + 1 else q in
      Z.min v (2 ^ 128 - 1)
  | B754_infinity false => 2 ^ 128 - 1
  | _ => 0            (* negative, zero, NaN *)
  end.


(* movestogo 0 (sent by some GUIs for sudden death) counts as not told *)
Definition moves_to_go (gt : GameTime) : Z :=
  match movestogo gt with Some m => if 0 <? m then m else GAME_LENGTH | None => GAME_LENGTH end.

Definition calculate_time_slice (gt : GameTime) (c : color) : Z :=
  let mtg := f64_of_Z (moves_to_go gt) in
  let is_white := match c with White => true | Black => false end in
  let clock := f64_of_Z (if is_white then wtime gt else btime gt) in
  let increment := f64_of_Z (if is_white then winc gt else binc gt) in
  let base_time := fsub clock SAFEGUARD in
  if fle base_time zero then
    if flt zero increment then round_to_u128 (fmin (fmul increment MAX_USAGE) (fmax clock zero))
    else NO_TIME
  else round_to_u128 (fdiv (fmul base_time MAX_USAGE) mtg).
