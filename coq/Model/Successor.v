(* move_generation.rs: generate_moves_for_piece, promote_pawn, can_castle_*, generate_castling_moves,
   generate_moves.  Clone-and-mutate successors, in the order the code pushes them. *)
From Walleye Require Export Model.MoveGen.
Open Scope Z_scope.

Section Successor.
Variable zt : ztable.

Notation swap_color := (swap_color zt).
Notation take_away := (take_away_castling_rights zt).
Notation unset_pdm := (unset_pawn_double_move zt).
Notation move_piece := (move_piece zt).

Definition mvv_lva (victim attacker : piece) : Z :=
  nth (Z.to_nat (kind_index (pkind attacker))) (nth (Z.to_nat (kind_index (pkind victim))) MVV_LVA []) 0.

Definition set_king (s : BoardState) (c : color) (p : point) : BoardState :=
  match c with White => with_wk s p | Black => with_bk s p end.

Definition promote_pawn (s : BoardState) (c : color) (start target : point) : list BoardState :=
  map (fun k =>
         let nb := unset_pdm s in
         let pp := mkPiece c k in
         let nb := with_board nb (set (board nb) target (Full pp)) in
         let nb := with_last nb (Some (start, target)) in
         let nb := with_promo nb (Some pp) in
         let nb := with_oh nb (match k with Queen => QUEEN_PROMOTION_SCORE | _ => UNDER_PROMOTION_SCORE end) in
         kx nb (N.lxor (z_piece zt pp target) (z_piece zt (mkPiece c Pawn) target)))
      PROMOTION_KINDS.

(* castling rights lost because of the origin square (king or rook moved) *)
Definition rights_from_origin (nb : BoardState) (pc : piece) (sq : point) : BoardState :=
  match pkind pc with
  | King =>
      match pcolor pc with
      | White => take_away (take_away nb WKS) WQS
      | Black => take_away (take_away nb BKS) BQS
      end
  | _ =>
      if (fst sq =? BOARD_END - 1) && (snd sq =? BOARD_END - 1) then take_away nb WKS
      else if (fst sq =? BOARD_END - 1) && (snd sq =? BOARD_START) then take_away nb WQS
      else if (fst sq =? BOARD_START) && (snd sq =? BOARD_START) then take_away nb BQS
      else if (fst sq =? BOARD_START) && (snd sq =? BOARD_END - 1) then take_away nb BKS
      else nb
  end.

(* castling rights lost because the target square is a rook's home corner *)
Definition rights_from_target (nb : BoardState) (mov : point) : BoardState :=
  if (fst mov =? BOARD_END - 1) && (snd mov =? BOARD_END - 1) then take_away nb WKS
  else if (fst mov =? BOARD_END - 1) && (snd mov =? BOARD_START) then take_away nb WQS
  else if (fst mov =? BOARD_START) && (snd mov =? BOARD_START) then take_away nb BQS
  else if (fst mov =? BOARD_START) && (snd mov =? BOARD_END - 1) then take_away nb BKS
  else nb.

(* the clone moved and tested for self-check: None when the mover's king would be attacked *)
Definition moved_board (s : BoardState) (pc : piece) (sq mov : point) : option BoardState :=
  let c := pcolor pc in
  let nb := with_promo s None in
  let nb := swap_color nb in
  let nb := match pkind pc with King => set_king nb c mov | _ => nb end in
  let nb := with_oh nb (match get (board nb) mov with Full tp => mvv_lva tp pc | _ => 0 end) in
  let nb := move_piece nb sq mov in
  let nb := with_last nb (Some (sq, mov)) in
  if is_check nb c then None else Some nb.

Definition is_pawn_kind (k : kind) : bool := match k with Pawn => true | _ => false end.

(* castling rights and the en-passant target of the successor *)
Definition finalise (nb : BoardState) (pc : piece) (sq mov : point) : BoardState :=
  let c := pcolor pc in
  let nb := rights_from_origin nb pc sq in
  let nb := rights_from_target nb mov in
  if is_pawn_kind (pkind pc) && (Z.abs (fst sq - fst mov) =? 2) then
    let ep := match c with White => (fst mov + 1, snd mov) | Black => (fst mov - 1, snd mov) end in
    let nb := unset_pdm nb in
    kx (with_pdm nb (Some ep)) (z_ep zt (snd ep))
  else unset_pdm nb.

(* one pseudo-legal target of an ordinary move: zero, one or four successors *)
Definition successors_of_move (s : BoardState) (pc : piece) (sq mov : point) : list BoardState :=
  match moved_board s pc sq mov with
  | None => []
  | Some nb =>
      let c := pcolor pc in
      let nb := finalise nb pc sq mov in
      if (fst mov =? BOARD_START) && color_eqb c White && is_pawn_kind (pkind pc) then promote_pawn nb White sq mov
      else if (fst mov =? BOARD_END - 1) && color_eqb c Black && is_pawn_kind (pkind pc) then promote_pawn nb Black sq mov
      else [nb]
  end.

Definition en_passant_successor (s : BoardState) (pc : piece) (sq : point) : list BoardState :=
  match pawn_double_move s, pkind pc with
  | Some _, Pawn =>
      match pawn_moves_en_passant pc sq s with
      | None => []
      | Some mov =>
          let nb := with_promo s None in
          let nb := with_last nb (Some (sq, mov)) in
          let nb := swap_color nb in
          let nb := unset_pdm nb in
          let nb := move_piece nb sq mov in
          let victim_sq := match pcolor pc with White => (fst mov + 1, snd mov) | Black => (fst mov - 1, snd mov) end in
          let nb := with_board nb (set (board nb) victim_sq Empty) in
          let nb := kx nb (z_piece zt (mkPiece (opposite (pcolor pc)) Pawn) victim_sq) in
          if negb (is_check nb (to_move s)) then [nb] else []
      end
  | _, _ => []
  end.

Definition generate_moves_for_piece (pc : piece) (s : BoardState) (sq : point) (m : mode) : list BoardState :=
  flat_map (successors_of_move s pc sq) (get_moves pc sq (board s) m)
  ++ en_passant_successor s pc sq.

(* ---- castling *)
Definition e (s : BoardState) (p : point) : bool := is_empty (get (board s) p).

Definition can_castle_white_king_side (s : BoardState) : bool :=
  if negb (wks s) then false
  else if negb (e s (BOARD_END - 1, BOARD_END - 3)) || negb (e s (BOARD_END - 1, BOARD_END - 2)) then false
  else if is_check s White then false
  else if is_check_cords s White (BOARD_END - 1, BOARD_END - 3) || is_check_cords s White (BOARD_END - 1, BOARD_END - 2) then false
  else true.

Definition can_castle_white_queen_side (s : BoardState) : bool :=
  if negb (wqs s) then false
  else if negb (e s (BOARD_END - 1, BOARD_START + 1)) || negb (e s (BOARD_END - 1, BOARD_START + 2))
          || negb (e s (BOARD_END - 1, BOARD_START + 3)) then false
  else if is_check s White then false
  else if is_check_cords s White (BOARD_END - 1, BOARD_START + 3) || is_check_cords s White (BOARD_END - 1, BOARD_START + 2) then false
  else true.

Definition can_castle_black_king_side (s : BoardState) : bool :=
  if negb (bks s) then false
  else if negb (e s (BOARD_START, BOARD_END - 3)) || negb (e s (BOARD_START, BOARD_END - 2)) then false
  else if is_check s Black then false
  else if is_check_cords s Black (BOARD_START, BOARD_END - 3) || is_check_cords s Black (BOARD_START, BOARD_END - 2) then false
  else true.

Definition can_castle_black_queen_side (s : BoardState) : bool :=
  if negb (bqs s) then false
  else if negb (e s (BOARD_START, BOARD_START + 1)) || negb (e s (BOARD_START, BOARD_START + 2))
          || negb (e s (BOARD_START, BOARD_START + 3)) then false
  else if is_check s Black then false
  else if is_check_cords s Black (BOARD_START, BOARD_START + 2) || is_check_cords s Black (BOARD_START, BOARD_START + 3) then false
  else true.

Definition can_castle (s : BoardState) (c : castling) : bool :=
  match c with
  | WKS => can_castle_white_king_side s
  | WQS => can_castle_white_queen_side s
  | BKS => can_castle_black_king_side s
  | BQS => can_castle_black_queen_side s
  end.

(* the castling successor: rights, king cache, last_move, king then rook moved *)
Definition castle_successor (s : BoardState) (c : color) (r1 r2 : castling) (king_to : point)
           (alg : mv2) (rook_from rook_to : point) : BoardState :=
  let nb := with_promo s None in
  let nb := swap_color nb in
  let nb := unset_pdm nb in
  let nb := take_away nb r1 in
  let nb := take_away nb r2 in
  let nb := set_king nb c king_to in
  let nb := with_last nb (Some alg) in
  let nb := move_piece nb (king_location s c) king_to in
  move_piece nb rook_from rook_to.

Definition generate_castling_moves (s : BoardState) : list BoardState :=
  (if color_eqb (to_move s) White && can_castle s WKS then
     [castle_successor s White WKS WQS (BOARD_END - 1, BOARD_END - 2) WHITE_KING_SIDE_CASTLE_ALG
                       (BOARD_END - 1, BOARD_END - 1) (BOARD_END - 1, BOARD_END - 3)] else [])
  ++ (if color_eqb (to_move s) White && can_castle s WQS then
     [castle_successor s White WKS WQS (BOARD_END - 1, BOARD_START + 2) WHITE_QUEEN_SIDE_CASTLE_ALG
                       (BOARD_END - 1, BOARD_START) (BOARD_END - 1, BOARD_START + 3)] else [])
  ++ (if color_eqb (to_move s) Black && can_castle s BKS then
     [castle_successor s Black BKS BQS (BOARD_START, BOARD_END - 2) BLACK_KING_SIDE_CASTLE_ALG
                       (BOARD_START, BOARD_END - 1) (BOARD_START, BOARD_END - 3)] else [])
  ++ (if color_eqb (to_move s) Black && can_castle s BQS then
     [castle_successor s Black BKS BQS (BOARD_START, BOARD_START + 2) BLACK_QUEEN_SIDE_CASTLE_ALG
                       (BOARD_START, BOARD_START) (BOARD_START, BOARD_START + 3)] else []).

Definition generate_moves (s : BoardState) (m : mode) : list BoardState :=
  flat_map (fun p =>
              match get (board s) p with
              | Full pc => if color_eqb (pcolor pc) (to_move s) then generate_moves_for_piece pc s p m else []
              | _ => []
              end) inner_points
  ++ (if mode_all m then generate_castling_moves s else []).

End Successor.
