(* engine.rs / search.rs: quiesce, alpha_beta_search, get_best_move, send_search_info.
   The clock is virtual: the n-th consultation (from 0) reports expiry iff k <= n.
   sort_unstable_by_key is a parameter [osort] indexed by the number of sorts done so far. *)
From Walleye Require Export Model.TextMove Model.Eval.
Open Scope Z_scope.

Definition arr_get {A} (l : list A) (i : Z) : option A :=
  if i <? 0 then None else nth_error l (Z.to_nat i).
Definition arr_set {A} (l : list A) (i : Z) (v : A) : option (list A) :=
  if (i <? 0) || (Z.of_nat (length l) <=? i) then None else Some (set_nth (Z.to_nat i) v l).

Definition move_array := list (option mv2).

Record sstate := mkS {
  clock : N;                 (* clock consultations so far *)
  nodes : Z;                 (* nodes_searched *)
  pv_moves : move_array;     (* MAX_DEPTH entries *)
  cur_line : move_array;
  killers : list move_array; (* MAX_DEPTH x KILLER_MOVE_PLY_SIZE *)
  table : dtable;            (* the draw table (a clone owned by the search thread) *)
  sorts : N;                 (* sorts done so far: index into the ordering oracle *)
  sort_ok : bool;            (* every oracle answer so far was a sorted permutation of its input *)
  max_ply : Z
}.

Definition with_clock s v := mkS v (nodes s) (pv_moves s) (cur_line s) (killers s) (table s) (sorts s) (sort_ok s) (max_ply s).
Definition with_nodes s v := mkS (clock s) v (pv_moves s) (cur_line s) (killers s) (table s) (sorts s) (sort_ok s) (max_ply s).
Definition with_pv s v := mkS (clock s) (nodes s) v (cur_line s) (killers s) (table s) (sorts s) (sort_ok s) (max_ply s).
Definition with_cur s v := mkS (clock s) (nodes s) (pv_moves s) v (killers s) (table s) (sorts s) (sort_ok s) (max_ply s).
Definition with_killers s v := mkS (clock s) (nodes s) (pv_moves s) (cur_line s) v (table s) (sorts s) (sort_ok s) (max_ply s).
Definition with_table s v := mkS (clock s) (nodes s) (pv_moves s) (cur_line s) (killers s) v (sorts s) (sort_ok s) (max_ply s).
Definition with_sorts s n ok := mkS (clock s) (nodes s) (pv_moves s) (cur_line s) (killers s) (table s) n ok (max_ply s).
Definition with_maxply s v := mkS (clock s) (nodes s) (pv_moves s) (cur_line s) (killers s) (table s) (sorts s) (sort_ok s) v.

Definition new_search (t : dtable) : sstate :=
  mkS 0%N 0 (repeat None (Z.to_nat MAX_DEPTH)) (repeat None (Z.to_nat MAX_DEPTH))
      (repeat (repeat None (Z.to_nat KILLER_MOVE_PLY_SIZE)) (Z.to_nat MAX_DEPTH)) t 0%N true 0.

Definition node_searched (s : sstate) : sstate := with_nodes s (nodes s + 1).
Definition set_principle_variation (s : sstate) : sstate := with_pv s (cur_line s).
Definition reset_search (s : sstate) : sstate :=
  with_cur (with_nodes s 0) (repeat None (Z.to_nat MAX_DEPTH)).

(* cur_line[ply] = mov.last_move ; Panic 60 when ply is outside the array *)
Definition insert_into_cur_line (s : sstate) (ply : Z) (mov : BoardState) : res sstate :=
  match arr_set (cur_line s) ply (last_move mov) with
  | Some l => Ok (with_cur s l)
  | None => Panic 60
  end.

(* for i in 0..(SIZE-1) { k[i+1] = k[i] } ; k[0] = mv *)
Fixpoint shift_killers (n : nat) (i : nat) (k : move_array) : move_array :=
  match n with
  | O => k
  | S n' => shift_killers n' (S i) (set_nth (S i) (nth i k None) k)
  end.
Definition insert_killer_move (s : sstate) (ply : Z) (mov : BoardState) : res sstate :=
  match arr_get (killers s) ply with
  | None => Panic 61
  | Some k =>
      if existsb (fun x => opt_mv2_eqb x (last_move mov)) k then Ok s
      else
        let k' := set_nth 0 (last_move mov) (shift_killers (Z.to_nat (KILLER_MOVE_PLY_SIZE - 1)) 0 k) in
        match arr_set (killers s) ply k' with
        | Some ks => Ok (with_killers s ks)
        | None => Panic 61
        end
  end.

(* is l' a permutation of l that is sorted by decreasing order_heuristic ? (checked, not assumed) *)
Fixpoint remove_first (f : BoardState -> bool) (l : list BoardState) : option (list BoardState) :=
  match l with
  | [] => None
  | x :: t => if f x then Some t else match remove_first f t with Some t' => Some (x :: t') | None => None end
  end.
Definition same_succ (a b : BoardState) : bool :=
  opt_mv2_eqb (last_move a) (last_move b)
  && match pawn_promotion a, pawn_promotion b with
     | Some p, Some q => piece_eqb p q | None, None => true | _, _ => false end
  && (order_heuristic a =? order_heuristic b) && (zobrist_key a =? zobrist_key b)%N.
Fixpoint is_perm (l l' : list BoardState) : bool :=
  match l' with
  | [] => match l with [] => true | _ => false end
  | x :: t => match remove_first (same_succ x) l with Some r => is_perm r t | None => false end
  end.
Fixpoint sorted_desc (l : list BoardState) : bool :=
  match l with
  | a :: (b :: _) as t => (order_heuristic b <=? order_heuristic a) && sorted_desc t
  | _ => true
  end.

Inductive event :=
| Send (b : BoardState)            (* tx.send(board) *)
| Info (depth eval : Z) (line : str).   (* send_to_gui(info line) for this depth and evaluation; the line without its trailing " time T" *)

Section Search.
Variable zt : ztable.
(* the n-th sort of the search: any function; theorems state what they need of it *)
Variable osort : N -> list BoardState -> list BoardState.
(* expiry index: the clock reports expiry from the k-th consultation on; None = never *)
Variable k : option N.

Definition do_sort (l : list BoardState) (s : sstate) : list BoardState * sstate :=
  let l' := osort (sorts s) l in
  (l', with_sorts s (sorts s + 1)%N (sort_ok s && is_perm l l' && sorted_desc l')).

Definition out_of_time (s : sstate) : bool * sstate :=
  (match k with Some kk => (kk <=? clock s)%N | None => false end, with_clock s (clock s + 1)%N).

(* ---- quiesce *)
Definition q_fn := BoardState -> Z -> Z -> sstate -> res (Z * sstate).         (* board alpha beta state *)
Definition search_fn := BoardState -> Z -> Z -> Z -> Z -> bool -> sstate -> res (Z * sstate).
                                                        (* board depth ply alpha beta allow_null state *)

(* `for mov in moves` of quiesce, with the recursive call as a parameter *)
Fixpoint q_loop (qrec : q_fn) (ms : list BoardState) (alpha beta : Z) (s : sstate) : res (Z * sstate) :=
  match ms with
  | [] => Ok (alpha, s)
  | mov :: rest =>
      match qrec mov (- beta) (- alpha) s with
      | Ok (v, s) =>
          let score := - v in
          if beta <=? score then Ok (beta, s)
          else q_loop qrec rest (if alpha <? score then score else alpha) beta s
      | Err e => Err e
      | Panic p => Panic p
      end
  end.

Fixpoint quiesce (fuel : nat) (b : BoardState) (alpha beta : Z) (s : sstate) : res (Z * sstate) :=
  match fuel with
  | O => Err 99
  | S f =>
      let '(expired, s) := out_of_time s in
      if expired then Ok (NEG_INF, s)
      else
        let s := node_searched s in
        let stand_pat := get_evaluation b in
        if beta <=? stand_pat then Ok (beta, s)
        else
          let alpha := if alpha <? stand_pat then stand_pat else alpha in
          let '(moves, s) := do_sort (generate_moves zt b CapturesOnly) s in
          q_loop (quiesce f) moves alpha beta s
  end.

Definition rank_moves (s : sstate) (ply : Z) (moves : list BoardState) : res (list BoardState) :=
  match arr_get (pv_moves s) ply, arr_get (killers s) ply with
  | Some pvm, Some ks =>
      Ok (map (fun mov =>
                 if opt_mv2_eqb (last_move mov) pvm then with_oh mov POS_INF
                 else if existsb (fun x => opt_mv2_eqb (last_move mov) x) ks then with_oh mov KILLER_MOVE_SCORE
                 else mov) moves)
  | _, _ => Panic 62
  end.

(* every return after add_board_to_draw_table goes through remove_board_from_draw_table *)
Definition leave (b : BoardState) (v : Z) (s : sstate) : res (Z * sstate) :=
  Ok (v, with_table s (dt_remove (table s) b)).

(* the zero-window loop over the moves after the first, with the recursive call as a parameter *)
Fixpoint ab_loop (rec : search_fn) (b : BoardState) (depth ply beta : Z) (ms : list BoardState)
         (alpha best_score : Z) (s : sstate) : res (Z * sstate) :=
  match ms with
  | [] => leave b best_score s
  | mov :: rest =>
      match insert_into_cur_line s ply mov with
      | Err e => Err e
      | Panic p => Panic p
      | Ok s =>
      match rec mov (depth - 1) (ply + 1) (- alpha - 1) (- alpha) true s with
      | Err e => Err e
      | Panic p => Panic p
      | Ok (v1, s) =>
      let score := - v1 in
      let research : res (Z * Z * sstate) :=
        if (alpha <? score) && (score <? beta) then
          match rec mov (depth - 1) (ply + 1) (- beta) (- alpha) true s with
          | Ok (v2, s) => let score := - v2 in Ok (score, (if alpha <? score then score else alpha), s)
          | Err e => Err e
          | Panic p => Panic p
          end
        else Ok (score, alpha, s) in
      match research with
      | Err e => Err e
      | Panic p => Panic p
      | Ok (score, alpha, s) =>
          if best_score <? score then
            if beta <=? score then
              match (if order_heuristic mov =? 0 then insert_killer_move s ply mov else Ok s) with
              | Ok s => leave b score s
              | Err e => Err e
              | Panic p => Panic p
              end
            else ab_loop rec b depth ply beta rest alpha score (set_principle_variation s)
          else ab_loop rec b depth ply beta rest alpha best_score s
      end end end
  end.

(* move generation, ordering, the first child with the full window, then the zero-window loop *)
Definition ab_moves (rec : search_fn) (b : BoardState) (depth ply alpha beta : Z) (s : sstate) : res (Z * sstate) :=
  let moves := generate_moves zt b AllMoves in
  match moves with
  | [] => if is_check b (to_move b) then leave b (- (MATE_SCORE - ply)) s else leave b 0 s
  | _ =>
  match rank_moves s ply moves with
  | Err e => Err e
  | Panic p => Panic p
  | Ok moves =>
  let '(moves, s) := do_sort moves s in
  match moves with
  | [] => Panic 63                      (* moves[0] on an empty vector *)
  | m0 :: rest =>
  match insert_into_cur_line s ply m0 with
  | Err e => Err e
  | Panic p => Panic p
  | Ok s =>
  let s := if negb (order_heuristic m0 =? POS_INF) then set_principle_variation s else s in
  match rec m0 (depth - 1) (ply + 1) (- beta) (- alpha) true s with
  | Err e => Err e
  | Panic p => Panic p
  | Ok (v0, s) =>
  let best_score := - v0 in
  if (alpha <? best_score) && (beta <=? best_score) then leave b best_score s
  else
  if alpha <? best_score then ab_loop rec b depth ply beta rest best_score best_score (set_principle_variation s)
  else ab_loop rec b depth ply beta rest alpha best_score s
  end end end end end.

(* the part of alpha_beta_search after the draw-table add, with the recursive calls as parameters *)
Definition ab_body (rec : search_fn) (qrec : q_fn) (b : BoardState) (depth ply alpha beta : Z) (allow_null : bool)
           (s : sstate) : res (Z * sstate) :=
  let in_check_now := is_check b (to_move b) in
  if (depth =? 0) && negb in_check_now then
    qrec b alpha beta (with_table s (dt_remove (table s) b))
  else
  let depth := if depth =? 0 then depth + 1 else depth in
  let alpha := Z.max alpha (- MATE_SCORE + ply) in
  let beta := Z.min beta (MATE_SCORE - ply) in
  if beta <=? alpha then leave b alpha s
  else
  (* null move *)
  if allow_null && (NULL_MIN_DEPTH <=? depth) && negb in_check_now then
    match rec (with_to_move b (opposite (to_move b))) (depth - NULL_REDUCTION) (ply + NULL_PLY_OFFSET)
              (- beta) (- beta + 1) false s with
    | Ok (v, s) => if beta <=? - v then leave b beta s else ab_moves rec b depth ply alpha beta s
    | Err e => Err e
    | Panic p => Panic p
    end
  else ab_moves rec b depth ply alpha beta s.

(* ---- alpha_beta_search *)
Fixpoint alpha_beta (fuel : nat) (b : BoardState) (depth ply alpha beta : Z) (allow_null : bool) (s : sstate)
  : res (Z * sstate) :=
  match fuel with
  | O => Err 99
  | S f =>
      let '(expired, s) := out_of_time s in
      if expired then Ok (NEG_INF, s)
      else
      let s := node_searched s in
      let s := with_maxply s (Z.max (max_ply s) ply) in
      if is_threefold_repetition (table s) b then Ok (0, s)
      else
      let s := with_table s (dt_add (table s) b) in
      ab_body (alpha_beta f) (quiesce f) b depth ply alpha beta allow_null s
  end.

(* ---- send_search_info: the info line without its trailing " time T" *)
Definition s_info_pv : str := [105; 110; 102; 111; 32; 112; 118]%N.           (* "info pv" *)
Definition s_depth : str := [32; 100; 101; 112; 116; 104; 32]%N.              (* " depth " *)
Definition s_nodes : str := [32; 110; 111; 100; 101; 115; 32]%N.              (* " nodes " *)
Definition s_score_mate : str := [32; 115; 99; 111; 114; 101; 32; 109; 97; 116; 101; 32]%N.  (* " score mate " *)
Definition s_score_cp : str := [32; 115; 99; 111; 114; 101; 32; 99; 112; 32]%N.              (* " score cp " *)

Fixpoint ponder_text (pv : move_array) : str :=
  match pv with
  | Some (a, b) :: t => 32%N :: show_point a ++ show_point b ++ ponder_text t
  | _ => []
  end.

(* the number printed after "score mate", when the evaluation is inside the mate window *)
Definition mate_number (eval : Z) : option Z :=
  if MATE_SCORE - MATE_WINDOW <=? eval then Some (Z.quot (MATE_SCORE - eval + 1) 2)
  else if eval <=? - MATE_SCORE + MATE_WINDOW then Some (Z.quot (MATE_SCORE + eval) (-2))
  else None.

Definition score_text (eval : Z) : str :=
  match mate_number eval with
  | Some n => s_score_mate ++ show_Z n
  | None => s_score_cp ++ show_Z eval
  end.

Definition info_line (s : sstate) (depth eval : Z) : str :=
  s_info_pv ++ ponder_text (pv_moves s) ++ s_depth ++ show_Z depth ++ s_nodes ++ show_Z (nodes s)
  ++ score_text eval.

(* ---- get_best_move *)
Definition opt_piece_eqb (a b : option piece) : bool :=
  match a, b with Some p, Some q => piece_eqb p q | None, None => true | _, _ => false end.
(* the previous best move is recognised by its squares and its promotion piece (engine.rs, `found the pv node`) *)
Definition is_pv_of (b m : BoardState) : bool :=
  opt_mv2_eqb (last_move m) (last_move b) && opt_piece_eqb (pawn_promotion m) (pawn_promotion b).
Definition mark_pv (best : option BoardState) (moves : list BoardState) : list BoardState :=
  match best with
  | None => moves
  | Some b =>
      (fix go (ms : list BoardState) : list BoardState :=
         match ms with
         | [] => []
         | m :: t => if is_pv_of b m then with_oh m POS_INF :: t else m :: go t
         end) moves
  end.

Record root_state := mkR { r_s : sstate; r_best : option BoardState; r_events : list event (* newest first *) }.

(* one iteration of the root `for mov in &moves` loop; returns None when the search returned (timed out) *)
Fixpoint root_moves (fuel : nat) (first : BoardState) (ms : list BoardState) (cur_depth alpha : Z) (r : root_state)
  : res (option root_state * root_state) :=
  match ms with
  | [] => Ok (Some r, r)
  | mov :: rest =>
      let '(expired, s) := out_of_time (r_s r) in
      if expired then
        let ev := match r_best r with None => Send first :: r_events r | Some _ => r_events r end in
        Ok (None, mkR s (r_best r) ev)
      else
        match alpha_beta fuel mov (cur_depth - 1) 1 (- POS_INF) (- alpha) true s with
        | Err e => Err e
        | Panic p => Panic p
        | Ok (v, s) =>
            let evaluation := - v in
            match insert_into_cur_line s 0 mov with
            | Err e => Err e
            | Panic p => Panic p
            | Ok s =>
                if alpha <? evaluation then
                  let '(expired2, s) := out_of_time s in
                  if negb expired2 then
                    let s := set_principle_variation s in
                    root_moves fuel first rest cur_depth evaluation
                               (mkR s (Some mov) (Info cur_depth evaluation (info_line s cur_depth evaluation) :: Send mov :: r_events r))
                  else root_moves fuel first rest cur_depth alpha (mkR s (r_best r) (r_events r))
                else root_moves fuel first rest cur_depth alpha (mkR s (r_best r) (r_events r))
            end
        end
  end.

Fixpoint root_depths (iters : nat) (fuel : nat) (b : BoardState) (moves : list BoardState) (cur_depth : Z) (r : root_state)
  : res root_state :=
  match iters with
  | O => Ok r
  | S it =>
      if MAX_DEPTH <=? cur_depth then Ok r
      else
        let s := reset_search (r_s r) in
        let '(moves, s) := do_sort moves s in
        match moves with
        | [] => root_depths it fuel b (generate_moves zt b AllMoves) (cur_depth + 1) (mkR s (r_best r) (r_events r))
        | first :: _ =>
            match root_moves fuel first moves cur_depth NEG_INF (mkR s (r_best r) (r_events r)) with
            | Err e => Err e
            | Panic p => Panic p
            | Ok (None, r') => Ok r'
            | Ok (Some r', _) =>
                root_depths it fuel b (mark_pv (r_best r') (generate_moves zt b AllMoves)) (cur_depth + 1) r'
            end
        end
  end.

Definition get_best_move (fuel : nat) (b : BoardState) (t : dtable) : res (list event * sstate) :=
  match root_depths (Z.to_nat MAX_DEPTH) fuel b (generate_moves zt b AllMoves) 1 (mkR (new_search t) None []) with
  | Ok r => Ok (rev (r_events r), r_s r)
  | Err e => Err e
  | Panic p => Panic p
  end.

End Search.

(* stable insertion sort by decreasing order_heuristic: the ordering used when no log is supplied *)
Fixpoint insert_desc (x : BoardState) (l : list BoardState) : list BoardState :=
  match l with
  | [] => [x]
  | y :: t => if order_heuristic y <? order_heuristic x then x :: l else y :: insert_desc x t
  end.
Definition stable_sort_desc (l : list BoardState) : list BoardState := fold_right insert_desc [] l.
