(* Strings as lists of Unicode scalar values, with the few std::str operations the code uses. *)
From Walleye Require Export Model.Prim.
Open Scope N_scope.

Definition str := list N.

Definition utf8_len1 (c : N) : Z :=
  if c <? 128 then 1%Z else if c <? 2048 then 2%Z else if c <? 65536 then 3%Z else 4%Z.
Fixpoint utf8_len (s : str) : Z :=
  match s with [] => 0%Z | c :: t => (utf8_len1 c + utf8_len t)%Z end.

Fixpoint str_eqb (a b : str) : bool :=
  match a, b with
  | [], [] => true
  | x :: a', y :: b' => (x =? y) && str_eqb a' b'
  | _, _ => false
  end.

(* str::split(sep): pieces between separators, empty pieces kept *)
Fixpoint split_on_aux (sep : N) (s : str) (cur : str) : list str :=
  match s with
  | [] => [rev cur]
  | c :: t => if c =? sep then rev cur :: split_on_aux sep t [] else split_on_aux sep t (c :: cur)
  end.
Definition split_on (sep : N) (s : str) : list str := split_on_aux sep s [].

Fixpoint is_prefix (p s : str) : bool :=
  match p, s with
  | [], _ => true
  | x :: p', y :: s' => (x =? y) && is_prefix p' s'
  | _ :: _, [] => false
  end.
(* str::contains(pattern) *)
Fixpoint contains (s p : str) : bool :=
  is_prefix p s || match s with [] => false | _ :: t => contains t p end.
(* str::find(char) != None *)
Definition has_char (s : str) (c : N) : bool := existsb (fun x => x =? c) s.

Definition is_ascii_digit (c : N) : bool := (48 <=? c) && (c <=? 57).
(* char::to_digit(10) *)
Definition to_digit (c : N) : option Z := if is_ascii_digit c then Some (Z.of_N (c - 48)) else None.

(* <uN as FromStr>::from_str : optional '+', then one or more ASCII digits, value < 2^bits *)
Fixpoint digits_value (s : str) (acc : Z) : option Z :=
  match s with
  | [] => Some acc
  | c :: t => match to_digit c with Some d => digits_value t (10 * acc + d)%Z | None => None end
  end.
Definition parse_unsigned (bits : Z) (s : str) : option Z :=
  let body := match s with 43 :: t => t | _ => s end in
  match body with
  | [] => None
  | _ => match digits_value body 0%Z with
         | Some v => if (v <? 2 ^ bits)%Z then Some v else None
         | None => None
         end
  end.
(* <iN as FromStr>::from_str : optional '+' or '-', digits, value within the signed range *)
Definition parse_signed (bits : Z) (s : str) : option Z :=
  let '(neg, body) := match s with 43 :: t => (false, t) | 45 :: t => (true, t) | _ => (false, s) end in
  match body with
  | [] => None
  | _ => match digits_value body 0%Z with
         | Some v => let v' := if neg then (- v)%Z else v in
                     if ((- 2 ^ (bits - 1) <=? v') && (v' <? 2 ^ (bits - 1)))%Z then Some v' else None
         | None => None
         end
  end.

(* utils::trim_newline *)
Definition trim_newline (s : str) : str :=
  match rev s with
  | 10 :: 13 :: r => rev r
  | 10 :: r => rev r
  | _ => s
  end.

(* char::is_whitespace : the Unicode White_Space property *)
Definition is_whitespace (c : N) : bool :=
  ((9 <=? c) && (c <=? 13)) || (c =? 32) || (c =? 133) || (c =? 160) || (c =? 5760) ||
  ((8192 <=? c) && (c <=? 8202)) || (c =? 8232) || (c =? 8233) || (c =? 8239) || (c =? 8287) || (c =? 12288).

(* decimal text of an integer (format!("{}", i)) *)
Fixpoint dec_digits_z (fuel : nat) (n : Z) (acc : str) : str :=
  match fuel with
  | O => acc
  | S f => let acc' := (48 + Z.to_N (n mod 10))%N :: acc in
           if (n / 10 =? 0)%Z then acc' else dec_digits_z f (n / 10)%Z acc'
  end.
Definition show_Z (n : Z) : str :=
  if (n <? 0)%Z then 45 :: dec_digits_z 60 (- n)%Z [] else dec_digits_z 60 n [].
