(* board.rs: Point::from_str, Display for Point, BoardState::from_fen.
   Explicit Panic sites: every slice index, array index and unwrap of the Rust code is a
   numbered site here; the totality theorem (C15) shows the guards in front of them suffice. *)
From Walleye Require Export Model.Zobrist Model.Str.
Open Scope Z_scope.

Fixpoint assoc_N {A} (l : list (N * A)) (k : N) : option A :=
  match l with [] => None | (k', v) :: t => if (k' =? k)%N then Some v else assoc_N t k end.
Fixpoint assoc_Z {A} (l : list (Z * A)) (k : Z) : option A :=
  match l with [] => None | (k', v) :: t => if k' =? k then Some v else assoc_Z t k end.

(* impl FromStr for Point : Ok p | Err *)
Definition point_from_str (pair : str) : option point :=
  if negb (utf8_len pair =? 2) then None
  else match pair with
       | c :: r :: _ =>
           match assoc_N ALG_COLUMNS c with
           | None => None
           | Some col =>
               match to_digit r with
               | None => None
               | Some d =>
                   let row := BOARD_END - d in
                   if (BOARD_START <=? row) && (row <? BOARD_END) then Some (row, col + BOARD_START) else None
               end
           end
       | _ => None
       end.

(* impl Display for Point *)
Definition show_point (p : point) : str :=
  [ match assoc_Z SHOW_COL (snd p) with Some c => c | None => SHOW_COL_DEFAULT end;
    match assoc_Z SHOW_ROW (fst p) with Some c => c | None => SHOW_ROW_DEFAULT end ].

Definition piece_from_fen_char (c : N) : option piece := assoc_N FEN_PIECE_LETTERS c.

(* v[i] on a Vec/slice *)
Definition nth_res {A} (l : list A) (i : nat) (site : N) : res A :=
  match nth_error l i with Some a => Ok a | None => Panic site end.

(* board[row][col] = v on the 12x12 array *)
Definition set_res (b : cells) (p : point) (v : square) (site : N) : res cells :=
  if in_grid p then Ok (set b p v) else Panic site.

Record fen_loop := mkLoop {
  fl_board : cells; fl_row : Z; fl_col : Z; fl_key : N; fl_wk : point; fl_bk : point }.

Section Fen.
Variable zt : ztable.

Fixpoint fill_empty (n : nat) (st : fen_loop) : res fen_loop :=
  match n with
  | O => Ok st
  | S n' =>
      res_bind (set_res (fl_board st) (fl_row st, fl_col st) Empty 21)
        (fun b => fill_empty n' (mkLoop b (fl_row st) (fl_col st + 1) (fl_key st) (fl_wk st) (fl_bk st)))
  end.

(* one character of a FEN row *)
Definition fen_char (st : fen_loop) (ch : N) : res fen_loop :=
  if (BOARD_END <=? fl_row st) || (BOARD_END <=? fl_col st) then Err 6
  else if is_ascii_digit ch then
    match to_digit ch with
    | None => Panic 20                      (* square.to_digit(10).unwrap() *)
    | Some skip =>
        if skip + fl_col st >? BOARD_END then Err 7
        else fill_empty (Z.to_nat skip) st
    end
  else
    match piece_from_fen_char ch with
    | None => Err 8
    | Some pc =>
        res_bind (set_res (fl_board st) (fl_row st, fl_col st) (Full pc) 22)
          (fun b =>
             let key := N.lxor (fl_key st) (z_piece zt pc (fl_row st, fl_col st)) in
             let wk := match pkind pc, pcolor pc with King, White => (fl_row st, fl_col st) | _, _ => fl_wk st end in
             let bk := match pkind pc, pcolor pc with King, Black => (fl_row st, fl_col st) | _, _ => fl_bk st end in
             Ok (mkLoop b (fl_row st) (fl_col st + 1) key wk bk))
    end.

Fixpoint fen_row_chars (st : fen_loop) (row : str) : res fen_loop :=
  match row with
  | [] => Ok st
  | ch :: t => res_bind (fen_char st ch) (fun st' => fen_row_chars st' t)
  end.

Fixpoint fen_rows (st : fen_loop) (rows : list str) : res fen_loop :=
  match rows with
  | [] => Ok st
  | r :: t =>
      res_bind (fen_row_chars st r)
        (fun st' =>
           if negb (fl_col st' =? BOARD_END) then Err 9
           else fen_rows (mkLoop (fl_board st') (fl_row st' + 1) BOARD_START (fl_key st') (fl_wk st') (fl_bk st')) t)
  end.

Definition xor_if (c : bool) (k v : N) : N := if c then N.lxor k v else k.

Definition from_fen (fen0 : str) : res BoardState :=
  let fen := trim_newline fen0 in
  let cfg := split_on 32 fen in
  if negb (Nat.eqb (length cfg) 6) then Err 1
  else
    res_bind (nth_res cfg 1 11) (fun f1 =>
    res_bind (if str_eqb f1 [119%N] then Ok White else if str_eqb f1 [98%N] then Ok Black else Err 2) (fun stm =>
    let key0 := match stm with Black => z_black zt | White => 0%N end in
    res_bind (nth_res cfg 2 12) (fun castling_privileges =>
    res_bind (nth_res cfg 3 13) (fun en_passant =>
    res_bind (nth_res cfg 4 14) (fun f4 =>
    match parse_unsigned FEN_HALFMOVE_BITS f4 with
    | None => Err 3
    | Some _ =>
    res_bind (nth_res cfg 5 15) (fun f5 =>
    match parse_unsigned FEN_FULLMOVE_BITS f5 with
    | None => Err 4
    | Some _ =>
    res_bind (nth_res cfg 0 10) (fun f0 =>
    let rows := split_on 47 f0 in
    if negb (Nat.eqb (length rows) 8) then Err 5
    else
      res_bind (fen_rows (mkLoop all_boundary BOARD_START BOARD_START key0 (0, 0) (0, 0)) rows) (fun st =>
      res_bind
        (if negb (utf8_len en_passant =? 2) then
           (if negb (str_eqb en_passant [45%N]) then Err 10 else Ok (None, fl_key st))
         else
           match point_from_str en_passant with
           | Some pt => Ok (Some pt, N.lxor (fl_key st) (z_ep zt (snd pt)))
           | None => Ok (None, fl_key st)
           end)
        (fun epk =>
           let '(ep, key1) := epk in
           let rK := has_char castling_privileges 75 in
           let rQ := has_char castling_privileges 81 in
           let rk := has_char castling_privileges 107 in
           let rq := has_char castling_privileges 113 in
           let key2 := xor_if rq (xor_if rk (xor_if rQ (xor_if rK key1 (z_castle zt WKS)) (z_castle zt WQS)) (z_castle zt BKS)) (z_castle zt BQS) in
           Ok (mkBoard (fl_board st) stm ep (fl_wk st) (fl_bk st) rK rQ rk rq 0 None None key2))))
    end)
    end))))).

End Fen.
