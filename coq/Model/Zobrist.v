(* zobrist.rs getters as an abstract table, and the incremental helpers of board.rs *)
From Walleye Require Export Model.Board.
Open Scope Z_scope.

Record ztable := mkZ {
  z_piece : piece -> point -> N;   (* get_val_for_piece(piece, Point(r,c)) *)
  z_black : N;                     (* get_black_to_move_val *)
  z_castle : castling -> N;        (* get_val_for_castling *)
  z_ep : Z -> N                    (* get_val_for_en_passant(file), file = column 0..11 *)
}.

Section Helpers.
Variable zt : ztable.

Definition kx (s : BoardState) (v : N) : BoardState := with_key s (N.lxor (zobrist_key s) v).

Definition swap_color (s : BoardState) : BoardState :=
  kx (with_to_move s (opposite (to_move s))) (z_black zt).

Definition take_away_castling_rights (s : BoardState) (c : castling) : BoardState :=
  if right s c then kx (with_right s c false) (z_castle zt c) else s.

Definition unset_pawn_double_move (s : BoardState) : BoardState :=
  match pawn_double_move s with
  | Some t => kx (with_pdm s None) (z_ep zt (snd t))
  | None => s
  end.

Definition move_piece (s : BoardState) (start fin : point) : BoardState :=
  match get (board s) start with
  | Full cur =>
      let b1 := set (board s) start Empty in
      let k1 := match get b1 fin with
                | Full tp => N.lxor (zobrist_key s) (z_piece zt tp fin)
                | _ => zobrist_key s
                end in
      let b2 := set b1 fin (Full cur) in
      with_key (with_board s b2) (N.lxor k1 (N.lxor (z_piece zt cur start) (z_piece zt cur fin)))
  | _ => s
  end.

End Helpers.
