(* move_generation.rs: pseudo-legal targets per piece kind, in the order the code pushes them *)
From Walleye Require Export Model.Check.
Open Scope Z_scope.

Definition mode_all (m : mode) : bool := match m with AllMoves => true | CapturesOnly => false end.

Definition step_target (b : cells) (c : color) (m : mode) (q : point) : list point :=
  let s := get b q in
  if is_empty_or_color s (opposite c) then
    (if mode_all m then [q] else if negb (is_empty s) then [q] else [])
  else [].

Definition knight_moves (pc : piece) (p : point) (b : cells) (m : mode) : list point :=
  flat_map (fun d => step_target b (pcolor pc) m (padd p d)) KNIGHT_CORDS.

Definition king_offsets : list point :=
  flat_map (fun i => map (fun j => (i - 1, j - 1)) [0; 1; 2]) [0; 1; 2].

Definition king_moves (pc : piece) (p : point) (b : cells) (m : mode) : list point :=
  flat_map (fun d => step_target b (pcolor pc) m (padd p d)) king_offsets.

Definition pawn_moves (pc : piece) (p : point) (b : cells) (m : mode) : list point :=
  let '(row, col) := p in
  match pcolor pc with
  | White =>
      (if is_color (get b (row - 1, col - 1)) Black then [(row - 1, col - 1)] else [])
      ++ (if is_color (get b (row - 1, col + 1)) Black then [(row - 1, col + 1)] else [])
      ++ (if mode_all m && is_empty (get b (row - 1, col)) then
            (row - 1, col) :: (if (row =? DOUBLE_ROW_WHITE) && is_empty (get b (row - 2, col)) then [(row - 2, col)] else [])
          else [])
  | Black =>
      (if is_color (get b (row + 1, col + 1)) White then [(row + 1, col + 1)] else [])
      ++ (if is_color (get b (row + 1, col - 1)) White then [(row + 1, col - 1)] else [])
      ++ (if mode_all m && is_empty (get b (row + 1, col)) then
            (row + 1, col) :: (if (row =? DOUBLE_ROW_BLACK) && is_empty (get b (row + 2, col)) then [(row + 2, col)] else [])
          else [])
  end.

(* slider ray: empty squares (all-moves mode only) then the first enemy piece *)
Fixpoint ray (fuel : nat) (b : cells) (p d : point) (m : mode) (enemy : color) : list point :=
  match fuel with
  | O => []
  | S f =>
      let s := get b p in
      if is_empty s then (if mode_all m then [p] else []) ++ ray f b (padd p d) d m enemy
      else if is_color s enemy then [p] else []
  end.

Definition slide (dirs : list point) (pc : piece) (p : point) (b : cells) (m : mode) : list point :=
  flat_map (fun d => ray 12 b (padd p d) d m (opposite (pcolor pc))) dirs.

Definition rook_moves := slide ROOK_DIRS_GEN.
Definition bishop_moves := slide BISHOP_DIRS_GEN.
Definition queen_moves (pc : piece) (p : point) (b : cells) (m : mode) : list point :=
  rook_moves pc p b m ++ bishop_moves pc p b m.

Definition get_moves (pc : piece) (p : point) (b : cells) (m : mode) : list point :=
  match pkind pc with
  | Pawn => pawn_moves pc p b m
  | Rook => rook_moves pc p b m
  | Bishop => bishop_moves pc p b m
  | Knight => knight_moves pc p b m
  | King => king_moves pc p b m
  | Queen => queen_moves pc p b m
  end.

(* pawn_moves_en_passant *)
Definition pawn_moves_en_passant (pc : piece) (p : point) (s : BoardState) : option point :=
  match pawn_double_move s with
  | None => None
  | Some dm =>
      let '(row, col) := p in
      let caps :=
        match pcolor pc with
        | White => if row =? EP_ROW_WHITE then Some ((row - 1, col - 1), (row - 1, col + 1)) else None
        | Black => if row =? EP_ROW_BLACK then Some ((row + 1, col + 1), (row + 1, col - 1)) else None
        end in
      match caps with
      | None => None
      | Some (l, r) => if point_eqb l dm then Some l else if point_eqb r dm then Some r else None
      end
  end.
