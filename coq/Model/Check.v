(* move_generation.rs: is_check_cords, is_check (sentinel ray walk) *)
From Walleye Require Export Model.Zobrist.
Open Scope Z_scope.

(* `while square.is_empty() { step }` : the first non-empty square from p along d.
   Fuel 12 is never exhausted on a board whose outer two rings are Boundary (Proofs/Ray). *)
Fixpoint walk (fuel : nat) (b : cells) (p d : point) : option square :=
  match fuel with
  | O => None
  | S f => let s := get b p in if is_empty s then walk f b (padd p d) d else Some s
  end.

Definition ray_hits (b : cells) (sq d : point) (p1 p2 : piece) : bool :=
  match walk 12 b (padd sq d) d with
  | Some s => sq_is s p1 || sq_is s p2
  | None => false
  end.

Definition is_check_cords (s : BoardState) (c : color) (sq : point) : bool :=
  let ac := opposite c in
  let b := board s in
  existsb (fun d => ray_hits b sq d (mkPiece ac Rook) (mkPiece ac Queen)) ROOK_DIRS_CHK
  || existsb (fun d => ray_hits b sq d (mkPiece ac Bishop) (mkPiece ac Queen)) BISHOP_DIRS_CHK
  || existsb (fun d => sq_is (get b (padd sq d)) (mkPiece ac Knight)) KNIGHT_CORDS
  || (let pawn_row := match c with White => fst sq - 1 | Black => fst sq + 1 end in
      sq_is (get b (pawn_row, snd sq - 1)) (mkPiece ac Pawn) || sq_is (get b (pawn_row, snd sq + 1)) (mkPiece ac Pawn))
  || (let ak := king_location s ac in
      (Z.abs (fst ak - fst sq) <=? 1) && (Z.abs (snd ak - snd sq) <=? 1)).

Definition is_check (s : BoardState) (c : color) : bool :=
  is_check_cords s c (king_location s c).
