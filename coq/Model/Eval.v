(* evaluation.rs: get_evaluation *)
From Walleye Require Export Model.Board.
Open Scope Z_scope.

(* table[r][c]; indices are in 0..7 for every inner square *)
Definition tbl (t : list (list Z)) (r c : Z) : Z :=
  nth (Z.to_nat c) (nth (Z.to_nat r) t []) 0.

Record eacc := mkAcc { wmg : Z; bmg : Z; weg : Z; beg : Z; phase : Z }.
Definition eacc0 : eacc := mkAcc 0 0 0 0 0.

Definition eval_cell (b : cells) (a : eacc) (p : point) : eacc :=
  match get b p with
  | Full pc =>
      let k := pkind pc in
      let ph := phase a + game_phase_val k in
      match pcolor pc with
      | White =>
          mkAcc (wmg a + (tbl (mg_table k) (fst p - BOARD_START) (snd p - BOARD_START) + mg_piece_val k))
                (bmg a)
                (weg a + (tbl (eg_table k) (fst p - BOARD_START) (snd p - BOARD_START) + eg_piece_val k))
                (beg a) ph
      | Black =>
          mkAcc (wmg a)
                (bmg a + (tbl (mg_table k) (BLACK_ROW_MIRROR_MG - fst p) (snd p - BOARD_START) + mg_piece_val k))
                (weg a)
                (beg a + (tbl (eg_table k) (BLACK_ROW_MIRROR_EG - fst p) (snd p - BOARD_START) + eg_piece_val k))
                ph
      end
  | _ => a
  end.

Definition eval_of_acc (a : eacc) (stm : color) : Z :=
  let mg_score := match stm with White => wmg a - bmg a | Black => bmg a - wmg a end in
  let eg_score := match stm with White => weg a - beg a | Black => beg a - weg a end in
  let mg_phase := if phase a >? PHASE_CAP_TEST then PHASE_CAP_VALUE else phase a in
  let eg_phase := PHASE_TOTAL - mg_phase in
  Z.quot (mg_score * mg_phase + eg_score * eg_phase) PHASE_DIV.

Definition eval_cells (b : cells) (stm : color) : Z :=
  eval_of_acc (fold_left (eval_cell b) inner_points eacc0) stm.

Definition get_evaluation (s : BoardState) : Z := eval_cells (board s) (to_move s).
