(* The 12x12 mailbox board and the BoardState record of board.rs. *)
From Walleye Require Export Model.Prim Gen.Consts.
Open Scope Z_scope.

(* [[Square; 12]; 12], row-major *)
Definition cells := list square.

Definition in_grid (p : point) : bool :=
  (0 <=? fst p) && (fst p <? 12) && (0 <=? snd p) && (snd p <? 12).

Definition idx (p : point) : nat := Z.to_nat (12 * fst p + snd p).

(* board[r][c]; an index outside the array would panic in Rust, here it reads Boundary.
   Proofs/Bounds shows that on a well-formed board the generators never leave the array. *)
Definition get (b : cells) (p : point) : square :=
  if in_grid p then nth (idx p) b Boundary else Boundary.

Fixpoint set_nth {A} (n : nat) (v : A) (l : list A) : list A :=
  match l with
  | [] => []
  | x :: t => match n with O => v :: t | S n' => x :: set_nth n' v t end
  end.

Definition set (b : cells) (p : point) (v : square) : cells :=
  if in_grid p then set_nth (idx p) v b else b.

Definition all_boundary : cells := repeat Boundary 144.

Record BoardState := mkBoard {
  board : cells;
  to_move : color;
  pawn_double_move : option point;
  white_king_location : point;
  black_king_location : point;
  wks : bool; wqs : bool; bks : bool; bqs : bool;
  order_heuristic : Z;
  last_move : option mv2;
  pawn_promotion : option piece;
  zobrist_key : N
}.

Definition with_board (s : BoardState) (c : cells) : BoardState :=
  mkBoard c (to_move s) (pawn_double_move s) (white_king_location s) (black_king_location s)
          (wks s) (wqs s) (bks s) (bqs s) (order_heuristic s) (last_move s) (pawn_promotion s) (zobrist_key s).
Definition with_to_move (s : BoardState) (c : color) : BoardState :=
  mkBoard (board s) c (pawn_double_move s) (white_king_location s) (black_king_location s)
          (wks s) (wqs s) (bks s) (bqs s) (order_heuristic s) (last_move s) (pawn_promotion s) (zobrist_key s).
Definition with_pdm (s : BoardState) (p : option point) : BoardState :=
  mkBoard (board s) (to_move s) p (white_king_location s) (black_king_location s)
          (wks s) (wqs s) (bks s) (bqs s) (order_heuristic s) (last_move s) (pawn_promotion s) (zobrist_key s).
Definition with_wk (s : BoardState) (p : point) : BoardState :=
  mkBoard (board s) (to_move s) (pawn_double_move s) p (black_king_location s)
          (wks s) (wqs s) (bks s) (bqs s) (order_heuristic s) (last_move s) (pawn_promotion s) (zobrist_key s).
Definition with_bk (s : BoardState) (p : point) : BoardState :=
  mkBoard (board s) (to_move s) (pawn_double_move s) (white_king_location s) p
          (wks s) (wqs s) (bks s) (bqs s) (order_heuristic s) (last_move s) (pawn_promotion s) (zobrist_key s).
Definition with_right (s : BoardState) (c : castling) (v : bool) : BoardState :=
  mkBoard (board s) (to_move s) (pawn_double_move s) (white_king_location s) (black_king_location s)
          (match c with WKS => v | _ => wks s end) (match c with WQS => v | _ => wqs s end)
          (match c with BKS => v | _ => bks s end) (match c with BQS => v | _ => bqs s end)
          (order_heuristic s) (last_move s) (pawn_promotion s) (zobrist_key s).
Definition with_oh (s : BoardState) (v : Z) : BoardState :=
  mkBoard (board s) (to_move s) (pawn_double_move s) (white_king_location s) (black_king_location s)
          (wks s) (wqs s) (bks s) (bqs s) v (last_move s) (pawn_promotion s) (zobrist_key s).
Definition with_last (s : BoardState) (m : option mv2) : BoardState :=
  mkBoard (board s) (to_move s) (pawn_double_move s) (white_king_location s) (black_king_location s)
          (wks s) (wqs s) (bks s) (bqs s) (order_heuristic s) m (pawn_promotion s) (zobrist_key s).
Definition with_promo (s : BoardState) (p : option piece) : BoardState :=
  mkBoard (board s) (to_move s) (pawn_double_move s) (white_king_location s) (black_king_location s)
          (wks s) (wqs s) (bks s) (bqs s) (order_heuristic s) (last_move s) p (zobrist_key s).
Definition with_key (s : BoardState) (k : N) : BoardState :=
  mkBoard (board s) (to_move s) (pawn_double_move s) (white_king_location s) (black_king_location s)
          (wks s) (wqs s) (bks s) (bqs s) (order_heuristic s) (last_move s) (pawn_promotion s) k.

Definition right (s : BoardState) (c : castling) : bool :=
  match c with WKS => wks s | WQS => wqs s | BKS => bks s | BQS => bqs s end.

Definition king_location (s : BoardState) (c : color) : point :=
  match c with White => white_king_location s | Black => black_king_location s end.

(* the inner 8x8 squares, rows BOARD_START..BOARD_END *)
Definition inner_range : list Z := [2; 3; 4; 5; 6; 7; 8; 9].
Definition inner_points : list point :=
  flat_map (fun r => map (fun c => (r, c)) inner_range) inner_range.
Definition is_inner (p : point) : bool :=
  (BOARD_START <=? fst p) && (fst p <? BOARD_END) && (BOARD_START <=? snd p) && (snd p <? BOARD_END).
