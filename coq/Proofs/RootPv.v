(* C18: the first move of the PV on every info line is the move sent with it, a generated (legal) move of the
   searched position -- for every expiry index and ordering oracle that returns elements of its input. *)
From Walleye Require Import Model.Search Spec.Abs Proofs.RootProofs Proofs.RootSim Proofs.GenerateAbs Proofs.LegalMoves.
Open Scope Z_scope.

(* newest first: every info event sits directly on top of the send of the move its PV starts with *)
Inductive paired : list event -> Prop :=
| p_nil : paired []
| p_send b l : paired l -> paired (Send b :: l)
| p_info d e line mov l tl rest :
    line = s_info_pv ++ ponder_text (last_move mov :: tl) ++ rest -> paired l -> paired (Info d e line :: Send mov :: l).

Lemma paired_in evs : paired evs -> forall d e line, In (Info d e line) evs ->
  exists mov tl rest, In (Send mov) evs /\ line = s_info_pv ++ ponder_text (last_move mov :: tl) ++ rest.
Proof.
  induction 1 as [|b l Hl IH|d0 e0 line0 mov l tl rest El Hl IH]; intros d e line Hin.
  - contradiction.
  - destruct Hin as [X|Hin]; [discriminate X|]. destruct (IH _ _ _ Hin) as (mv & tl & rest & Hs & El). exists mv, tl, rest. split; [now right|exact El].
  - destruct Hin as [X|[X|Hin]]; [|discriminate X|].
    + injection X as -> -> ->. exists mov, tl, rest. split; [right; now left|exact El].
    + destruct (IH _ _ _ Hin) as (mv & tl' & rest' & Hs & El'). exists mv, tl', rest'. split; [right; now right|exact El'].
Qed.

Lemma insert0_head s m s' : insert_into_cur_line s 0 m = Ok s' -> exists tl, cur_line s' = last_move m :: tl.
Proof.
  unfold insert_into_cur_line, arr_set. cbn [Z.ltb Z.compare orb]. destruct (Z.of_nat (length (cur_line s)) <=? 0) eqn:L; [discriminate|].
  intros H. assert (s' = with_cur s (set_nth (Z.to_nat 0) (last_move m) (cur_line s))) by congruence. subst s'.
  destruct (cur_line s) as [|x t] eqn:C; [cbn in L; discriminate L|]. exists t. reflexivity.
Qed.

Section S.
Variable zt : ztable.
Variable osort : N -> list BoardState -> list BoardState.
Variable k : option N.

Lemma root_moves_paired fuel first : forall ms d alpha r o r',
  paired (r_events r) -> root_moves zt osort k fuel first ms d alpha r = Ok (o, r') -> paired (r_events r').
Proof.
  induction ms as [|mov rest IH]; intros d alpha r o r' Hr H; cbn [root_moves] in H.
  - assert (r' = r) by congruence. subst r'. exact Hr.
  - destruct (out_of_time k (r_s r)) as [expired s] eqn:E. destruct expired.
    + assert (r' = mkR s (r_best r) (match r_best r with None => Send first :: r_events r | Some _ => r_events r end)) by congruence. subst r'.
      cbn [r_events]. destruct (r_best r); [exact Hr|now constructor].
    + destruct (alpha_beta zt osort k fuel mov (d - 1) 1 (- POS_INF) (- alpha) true s) as [[v s1]| |]; try discriminate H.
      destruct (insert_into_cur_line s1 0 mov) as [s2| |] eqn:I2; try discriminate H.
      destruct (alpha <? - v).
      * destruct (out_of_time k s2) as [expired2 s3] eqn:E2. destruct expired2; cbn [negb] in H.
        -- eapply IH; [|exact H]. exact Hr.
        -- eapply IH; [|exact H]. cbn [r_events].
           destruct (insert0_head _ _ _ I2) as (tl & C).
           assert (C3 : cur_line s3 = cur_line s2) by (change s3 with (snd (false, s3)); rewrite <- E2; reflexivity).
           eapply (p_info _ _ _ mov _ tl); [|exact Hr]. unfold info_line. cbn [pv_moves set_principle_variation with_pv]. rewrite C3, C.
           reflexivity.
      * eapply IH; [|exact H]. exact Hr.
Qed.

Lemma root_depths_paired fuel b : forall iters moves d r r',
  paired (r_events r) -> root_depths zt osort k iters fuel b moves d r = Ok r' -> paired (r_events r').
Proof.
  induction iters as [|it IH]; intros moves d r r' Hr H; cbn [root_depths] in H.
  - assert (r' = r) by congruence. subst r'. exact Hr.
  - destruct (MAX_DEPTH <=? d); [assert (r' = r) by congruence; subst r'; exact Hr|].
    destruct (do_sort osort moves (reset_search (r_s r))) as [sorted s].
    destruct sorted as [|first rest].
    + eapply IH; [|exact H]. exact Hr.
    + destruct (root_moves zt osort k fuel first (first :: rest) d NEG_INF (mkR s (r_best r) (r_events r))) as [[o r3]| |] eqn:RM; try discriminate H.
      assert (H3 : paired (r_events r3)) by (eapply root_moves_paired; [|exact RM]; exact Hr).
      destruct (root_moves_grow zt osort _ _ _ _ _ _ _ _ _ RM) as [_ Ho].
      destruct o as [r''|].
      * rewrite (Ho r'' eq_refl) in H. eapply IH; [|exact H]. exact H3.
      * assert (r' = r3) by congruence. subst r'. exact H3.
Qed.

Hypothesis osort_incl : forall i l x, In x (osort i l) -> In x l.

(* every info line of a search starts its PV with the last move of a generated move of the root, which is legal *)
Theorem first_pv_move_is_legal fuel b t ev s d e line :
  pos_ok1 b -> get_best_move zt osort k fuel b t = Ok (ev, s) -> In (Info d e line) ev ->
  exists m a c mv tl rest,
    In m (generate_moves zt b AllMoves) /\ last_move m = Some (a, c) /\ desc m = Some mv /\ In mv (legal_moves (abs b)) /\
    line = s_info_pv ++ ponder_text (Some (a, c) :: tl) ++ rest.
Proof.
  intros PO H Hin. pose proof H as H0. unfold get_best_move in H.
  destruct (root_depths zt osort k (Z.to_nat MAX_DEPTH) fuel b (generate_moves zt b AllMoves) 1 (mkR (new_search t) None [])) as [r| |] eqn:RD; try discriminate H.
  assert (ev = rev (r_events r)) by congruence. subst ev.
  assert (PR : paired (r_events r)) by (eapply root_depths_paired; [|exact RD]; constructor).
  apply in_rev in Hin. destruct (paired_in _ PR _ _ _ Hin) as (mov & tl & rest & Hs & El).
  destruct (get_best_move_sends zt osort k osort_incl b fuel t _ _ H0 mov ltac:(apply in_rev; rewrite rev_involutive; exact Hs)) as (m & Hm & SM).
  destruct (generated_moves_are_legal zt b m (proj1 PO) Hm) as (mv & Hd & Hl).
  assert (LM : last_move mov = last_move m) by (apply (f_equal last_move) in SM; exact SM).
  unfold desc in Hd. destruct (last_move m) as [[a c]|] eqn:L; [|discriminate Hd].
  exists m, a, c, mv, tl, rest. split; [exact Hm|]. split; [exact L|]. split; [unfold desc; rewrite L; exact Hd|]. split; [exact Hl|].
  rewrite El, LM. reflexivity.
Qed.

End S.
