(* The dispatch loop as a state machine: unknown input, isready, quit, end of input, position, go. *)
From Walleye Require Import Model.Uci.
Open Scope Z_scope.

Section S.
Variable zt : ztable.
Variable osort : N -> list BoardState -> list BoardState.

Definition first_token (raw : str) : str :=
  match split_on 32 (clean_input raw) with c0 :: _ => c0 | [] => [] end.

Definition known_command (c0 : str) : bool :=
  str_eqb c0 s_isready || str_eqb c0 s_ucinewgame || str_eqb c0 s_position || str_eqb c0 s_go
  || str_eqb c0 s_setoption || str_eqb c0 s_quit.

Lemma split_on_nonempty sep s : split_on sep s <> [].
Proof.
  unfold split_on. generalize (@nil N). induction s as [|c t IH]; intros cur; cbn [split_on_aux]; [discriminate|].
  destruct (c =? sep)%N; [discriminate | apply IH].
Qed.

(* lines whose first token is not a command leave the state alone and print nothing *)
Lemma unknown_ignored st raw sc :
  ss_phase st = Running -> known_command (first_token raw) = false ->
  step zt osort st (Line raw) sc = (st, []).
Proof.
  intros Hp Hk. unfold step. rewrite Hp. unfold first_token in Hk.
  destruct (split_on 32 (clean_input raw)) as [|c0 rest] eqn:E; [reflexivity|].
  unfold known_command in Hk.
  repeat (apply orb_false_iff in Hk; destruct Hk as [Hk ?]).
  repeat match goal with H : str_eqb _ _ = false |- _ => rewrite H; clear H end.
  reflexivity.
Qed.

Lemma ucinewgame_and_setoption_ignored st raw sc :
  ss_phase st = Running ->
  (str_eqb (first_token raw) s_ucinewgame = true \/ str_eqb (first_token raw) s_setoption = true) ->
  str_eqb (first_token raw) s_isready = false -> str_eqb (first_token raw) s_position = false ->
  str_eqb (first_token raw) s_go = false ->
  step zt osort st (Line raw) sc = (st, []).
Proof.
  intros Hp H H1 H2 H3. unfold step. rewrite Hp. unfold first_token in *.
  destruct (split_on 32 (clean_input raw)) as [|c0 rest] eqn:E; [reflexivity|].
  rewrite H1. destruct (str_eqb c0 s_ucinewgame) eqn:U; [reflexivity|].
  rewrite H2, H3. destruct H as [H|H]; [discriminate|]. now rewrite H.
Qed.

Lemma isready_answered st raw sc :
  ss_phase st = Running -> str_eqb (first_token raw) s_isready = true ->
  step zt osort st (Line raw) sc = (st, [s_readyok]).
Proof.
  intros Hp H. unfold step. rewrite Hp. unfold first_token in H.
  destruct (split_on 32 (clean_input raw)) as [|c0 rest] eqn:E; [discriminate|]. now rewrite H.
Qed.

Lemma eof_exits st sc :
  ss_phase st = Running -> ss_phase (fst (step zt osort st Eof sc)) = Exited 0 /\ snd (step zt osort st Eof sc) = [].
Proof. intros Hp. unfold step. rewrite Hp. split; reflexivity. Qed.

Lemma quit_exits st raw sc :
  ss_phase st = Running -> first_token raw = s_quit ->
  exists n, ss_phase (fst (step zt osort st (Line raw) sc)) = Exited n.
Proof.
  intros Hp H. unfold step. rewrite Hp. unfold first_token in H.
  destruct (split_on 32 (clean_input raw)) as [|c0 rest] eqn:E.
  - exfalso. eapply split_on_nonempty; eauto.
  - subst c0. vm_compute (str_eqb s_quit s_isready). vm_compute (str_eqb s_quit s_ucinewgame).
    vm_compute (str_eqb s_quit s_position). vm_compute (str_eqb s_quit s_go).
    vm_compute (str_eqb s_quit s_setoption). vm_compute (str_eqb s_quit s_quit).
    cbn iota. eexists; reflexivity.
Qed.

(* a terminated session stays terminated and silent *)
Lemma exited_is_final st i sc : ss_phase st <> Running -> step zt osort st i sc = (st, []).
Proof. intros H. unfold step. destruct (ss_phase st); [contradiction| |]; reflexivity. Qed.

(* `position` : the new board and record are a function of the command alone *)
Lemma position_resets st st' raw sc sc' :
  ss_phase st = Running -> ss_phase st' = Running ->
  str_eqb (first_token raw) s_position = true ->
  let r := fst (step zt osort st (Line raw) sc) in
  let r' := fst (step zt osort st' (Line raw) sc') in
  ss_phase r = Running ->
  ss_board r = ss_board r' /\ ss_table r = ss_table r' /\ ss_phase r' = Running.
Proof.
  intros Hp Hp' H. unfold step. rewrite Hp, Hp'. unfold first_token in H.
  destruct (split_on 32 (clean_input raw)) as [|c0 rest] eqn:E; [discriminate|].
  assert (N1 : str_eqb c0 s_isready = false).
  { destruct (str_eqb c0 s_isready) eqn:X; [|reflexivity].
    exfalso. clear - H X. revert H X. generalize c0. intros c H X.
    assert (L : forall a b, str_eqb a b = true -> a = b).
    { induction a as [|x a IH]; destruct b as [|y b]; cbn; try discriminate; auto.
      intros HH. apply andb_true_iff in HH. destruct HH as [H1 H2]. apply N.eqb_eq in H1. subst. f_equal. auto. }
    apply L in H. apply L in X. subst c. discriminate. }
  assert (N2 : str_eqb c0 s_ucinewgame = false).
  { destruct (str_eqb c0 s_ucinewgame) eqn:X; [|reflexivity].
    exfalso.
    assert (L : forall a b, str_eqb a b = true -> a = b).
    { induction a as [|x a IH]; destruct b as [|y b]; cbn; try discriminate; auto.
      intros HH. apply andb_true_iff in HH. destruct HH as [H1 H2]. apply N.eqb_eq in H1. subst. f_equal. auto. }
    apply L in H. apply L in X. subst c0. discriminate. }
  rewrite N1, N2, H.
  destruct (play_out_position zt (c0 :: rest)) as [[b t]| |]; cbn [fst ss_phase ss_board ss_table];
    intros HR; try discriminate. repeat split; reflexivity.
Qed.

(* ---- go *)
Definition is_bestmove_line (l : str) : bool := is_prefix s_bestmove l.

(* a go in a position without legal moves: one null-move answer, state unchanged, still running *)
Lemma go_terminal st cmds sc gt :
  parse_go_command cmds = Ok gt -> generate_moves zt (ss_board st) AllMoves = [] ->
  go_step zt osort st cmds sc = (st, [s_bestmove ++ NULL_MOVE_TEXT]).
Proof. intros HP HG. unfold go_step. rewrite HP, HG. reflexivity. Qed.

(* a go in a position with legal moves: if anything is printed as bestmove, it is the text of one
   of the boards the search sent, and the new board is that board *)
Lemma go_answer_is_a_send st cmds sc gt st' outs :
  parse_go_command cmds = Ok gt -> generate_moves zt (ss_board st) AllMoves <> [] ->
  go_step zt osort st cmds sc = (st', outs) -> ss_phase st' = Running ->
  (exists ev s b t,
      get_best_move zt osort (sc_k sc) (sc_fuel sc) (ss_board st) (ss_table st) = Ok (ev, s) /\
      In b (sends_of ev) /\ best_move_text b = Ok t /\
      ss_board st' = b /\ outs = infos_of ev ++ [s_bestmove ++ t])
  \/ (st' = st /\ exists ev s, get_best_move zt osort (sc_k sc) (sc_fuel sc) (ss_board st) (ss_table st) = Ok (ev, s) /\ sends_of ev = [] /\ outs = infos_of ev).
Proof.
  intros HP HG HS HR. unfold go_step in HS. rewrite HP in HS.
  destruct (generate_moves zt (ss_board st) AllMoves) as [|m0 ms] eqn:G; [contradiction|].
  destruct (get_best_move zt osort (sc_k sc) (sc_fuel sc) (ss_board st) (ss_table st)) as [[ev s]| |] eqn:GB.
  - destruct (nth_error (sends_of ev) (length (sends_of ev) - 1)) as [b|] eqn:NE.
    + destruct (best_move_text b) as [t| |] eqn:BT; inversion HS; subst; cbn [ss_phase] in HR; try discriminate.
      left. exists ev, s, b, t. repeat split; auto. eapply nth_error_In; eauto.
    + inversion HS; subst. right. split; auto. exists ev, s. repeat split; auto.
      destruct (sends_of ev) as [|x xs]; [reflexivity|]. exfalso.
      apply nth_error_None in NE. cbn [length] in NE. lia.
  - inversion HS; subst. cbn [ss_phase] in HR. discriminate.
  - inversion HS; subst. cbn [ss_phase] in HR. discriminate.
Qed.

(* the number of bestmove lines printed by one go is at most one, and exactly one when something was sent *)
Lemma infos_are_infos ev : forall l, In l (infos_of ev) -> exists d e, In (Info d e l) ev.
Proof.
  intros l H. unfold infos_of in H. apply in_flat_map in H. destruct H as [e [He Hl]].
  destruct e as [b|d0 e0 l']; cbn in Hl; [contradiction|]. destruct Hl as [Hl|[]]. subst. exists d0, e0. exact He.
Qed.

End S.
