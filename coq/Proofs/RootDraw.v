(* C10, last clause: when the side to move has a move into a position that already occurred at least twice,
   the final score of every iteration the unlimited search completes is not below zero. *)
From Walleye Require Import Model.Search Proofs.DrawTableProofs Proofs.SearchBasics Proofs.TableRestored.
Open Scope Z_scope.

Section S.
Variable zt : ztable.
Variable osort : N -> list BoardState -> list BoardState.

(* the newest event is the report of the current bound *)
Definition reported (d alpha : Z) (r : root_state) : Prop :=
  alpha = NEG_INF \/ exists line rest, r_events r = Info d alpha line :: rest.

Definition drawing (t : dtable) (ms : list BoardState) : Prop :=
  exists m, In m ms /\ 2 <= dt_count t (zobrist_key m).

Lemma neg_inf_negative : NEG_INF < 0. Proof. reflexivity. Qed.

Lemma root_moves_draw fuel first d : forall ms alpha r r' rl,
  root_moves zt osort None (S fuel) first ms d alpha r = Ok (Some r', rl) ->
  dt_nonneg (table (r_s r)) -> reported d alpha r ->
  (0 <= alpha \/ drawing (table (r_s r)) ms) ->
  dt_equiv (table (r_s r')) (table (r_s r)) /\
  exists e line rest, r_events r' = Info d e line :: rest /\ 0 <= e.
Proof.
  induction ms as [|mov rest IH]; intros alpha r r' rl H NN Rep Hyp; cbn [root_moves] in H.
  - injection H as <- _. split; [apply dt_equiv_refl|].
    destruct Hyp as [Ha|(m & [] & _)]. destruct Rep as [->|(line & rs & E)]; [pose proof neg_inf_negative; lia|].
    exists alpha, line, rs. auto.
  - unfold out_of_time at 1 in H. cbn match in H.
    set (s0 := with_clock (r_s r) (clock (r_s r) + 1)%N) in *.
    assert (T0 : table s0 = table (r_s r)) by reflexivity.
    destruct (alpha_beta zt osort None (S fuel) mov (d - 1) 1 (- POS_INF) (- alpha) true s0) as [[v s1]| |] eqn:AB; try discriminate.
    assert (NN0 : dt_nonneg (table s0)) by (now rewrite T0).
    pose proof (alpha_beta_restores zt osort None (S fuel) _ _ _ _ _ _ _ _ _ NN0 AB) as E1. rewrite T0 in E1.
    destruct (insert_into_cur_line s1 0 mov) as [s2| |] eqn:IC; try discriminate.
    pose proof (insert_cur_table _ _ _ _ IC) as T2.
    assert (E2 : dt_equiv (table s2) (table (r_s r))) by (now rewrite T2).
    assert (NN2 : dt_nonneg (table s2)) by (apply (dt_nonneg_equiv _ _ E2 NN)).
    (* what the search of a drawing move returns *)
    assert (Vdraw : 2 <= dt_count (table (r_s r)) (zobrist_key mov) -> v = 0).
    { intros Hc. destruct (draw_at_node_entry zt osort None fuel mov (d - 1) 1 (- POS_INF) (- alpha) true s0 eq_refl) as (s' & Hs' & _).
      - now rewrite T0.
      - rewrite Hs' in AB. now injection AB as <- _. }
    assert (Rest : forall a, (0 <= a \/ drawing (table (r_s r)) rest) \/ (2 <= dt_count (table (r_s r)) (zobrist_key mov) /\ a < 0)
                      \/ True) by (intros; auto).
    destruct (alpha <? - v) eqn:Imp.
    + apply Z.ltb_lt in Imp. unfold out_of_time at 1 in H. cbn match in H. cbn [negb] in H.
      set (s3 := set_principle_variation (with_clock s2 (clock s2 + 1)%N)) in *.
      assert (T3 : table s3 = table s2) by reflexivity.
      apply IH in H.
      * destruct H as [E3 X]. split; [|exact X]. cbn [r_s] in E3. rewrite T3 in E3. eapply dt_equiv_trans; eauto.
      * cbn [r_s]. now rewrite T3.
      * right. cbn [r_events]. eauto.
      * cbn [r_s]. rewrite T3.
        destruct Hyp as [Ha|(m & [<-|Hm] & Hc)].
        -- left. lia.
        -- left. rewrite (Vdraw Hc). lia.
        -- right. exists m. split; [exact Hm|]. now rewrite E2.
    + apply Z.ltb_ge in Imp. apply IH in H.
      * destruct H as [E3 X]. split; [|exact X]. cbn [r_s] in E3. eapply dt_equiv_trans; eauto.
      * exact NN2.
      * destruct Rep as [->|(line & rs & E)]; [left; reflexivity|right; cbn [r_events]; eauto].
      * cbn [r_s]. destruct Hyp as [Ha|(m & [<-|Hm] & Hc)].
        -- left. exact Ha.
        -- left. rewrite (Vdraw Hc) in Imp. lia.
        -- right. exists m. split; [exact Hm|]. now rewrite E2.
Qed.


(* ---- the events an iteration adds *)
Definition info_depth_is (d : Z) (e : event) : Prop := match e with Info d' _ _ => d' = d | Send _ => True end.

Lemma root_moves_events fuel first d : forall ms alpha r o rl,
  root_moves zt osort None fuel first ms d alpha r = Ok (o, rl) ->
  o <> None /\ exists new, r_events (match o with Some r' => r' | None => rl end) = new ++ r_events r /\ Forall (info_depth_is d) new.
Proof.
  induction ms as [|mov rest IH]; intros alpha r o rl H; cbn [root_moves] in H.
  - injection H as <- <-. split; [discriminate|]. exists []. split; [reflexivity|constructor].
  - unfold out_of_time at 1 in H. cbn match in H.
    destruct (alpha_beta zt osort None fuel mov (d - 1) 1 (- POS_INF) (- alpha) true _) as [[v s1]| |]; try discriminate.
    destruct (insert_into_cur_line s1 0 mov) as [s2| |]; try discriminate.
    destruct (alpha <? - v).
    + unfold out_of_time at 1 in H. cbn match in H. cbn [negb] in H. apply IH in H. destruct H as [N (new & E & F)].
      split; [exact N|]. cbn [r_events] in E. exists (new ++ [Info d (- v) (info_line (set_principle_variation (with_clock s2 (clock s2 + 1)%N)) d (- v)); Send mov]).
      split; [rewrite E, <- app_assoc; reflexivity|]. apply Forall_app. split; [exact F|]. repeat constructor.
    + apply IH in H. exact H.
Qed.

(* the newest report of depth d in a newest-first event list *)
Fixpoint newest_info (d : Z) (evs : list event) : option Z :=
  match evs with
  | [] => None
  | Info d' e _ :: t => if d' =? d then Some e else newest_info d t
  | Send _ :: t => newest_info d t
  end.

Lemma newest_info_skip d d' new old : d <> d' -> Forall (info_depth_is d') new -> newest_info d (new ++ old) = newest_info d old.
Proof.
  intros Hne F. induction F as [|e l He F IH]; cbn [app]; [reflexivity|].
  destruct e as [b0|d0 e0 l0]; cbn [newest_info]; [exact IH|]. cbn in He. subst d0.
  destruct (Z.eqb_spec d' d); [congruence|exact IH].
Qed.

(* marking the previous best move keeps the keys of the list *)
Lemma mark_pv_keys best l m : In m l -> exists m', In m' (mark_pv best l) /\ zobrist_key m' = zobrist_key m.
Proof.
  unfold mark_pv. destruct best as [b0|]; [|eauto]. induction l as [|x t IH]; intros H; [destruct H|].
  destruct H as [<-|H].
  - destruct (is_pv_of b0 x); [exists (with_oh x POS_INF)|exists x]; split; try (left; reflexivity); reflexivity.
  - destruct (is_pv_of b0 x); [exists m; split; [right; exact H|reflexivity]|].
    destruct (IH H) as (m' & Hm' & K). exists m'. split; [right; exact Hm'|exact K].
Qed.

Hypothesis osort_keeps : forall n l x, In x l -> In x (osort n l).

Definition good (cur : Z) (evs : list event) : Prop :=
  forall d e, d < cur -> newest_info d evs = Some e -> 0 <= e.
Definition below (cur : Z) (evs : list event) : Prop :=
  Forall (fun ev => match ev with Info d' _ _ => d' < cur | Send _ => True end) evs.

Lemma newest_none cur evs d : below cur evs -> cur <= d -> newest_info d evs = None.
Proof.
  intros B Hd. induction B as [|ev l He B IH]; [reflexivity|]. destruct ev as [b0|d0 e0 l0]; cbn [newest_info]; [exact IH|].
  destruct (Z.eqb_spec d0 d); [lia|exact IH].
Qed.

Lemma root_depths_draw fuel b t : forall iters moves cur r r',
  root_depths zt osort None iters (S fuel) b moves cur r = Ok r' ->
  dt_nonneg t -> dt_equiv (table (r_s r)) t -> drawing t (generate_moves zt b AllMoves) ->
  (exists ms0, moves = ms0 /\ forall m, In m (generate_moves zt b AllMoves) -> exists m', In m' ms0 /\ zobrist_key m' = zobrist_key m) ->
  good cur (r_events r) -> below cur (r_events r) ->
  exists cur', good cur' (r_events r') /\ below cur' (r_events r').
Proof.
  induction iters as [|it IH]; intros moves cur r r' H NN ET DR (ms0 & -> & KM) G B0; cbn [root_depths] in H.
  - injection H as <-. eauto.
  - destruct (MAX_DEPTH <=? cur); [injection H as <-; eauto|].
    set (s0 := reset_search (r_s r)) in *.
    assert (T0 : table s0 = table (r_s r)) by reflexivity.
    destruct (do_sort osort ms0 s0) as [sorted s1] eqn:DS.
    assert (T1 : table s1 = table s0) by (change s1 with (snd (sorted, s1)); rewrite <- DS; reflexivity).
    assert (Es : sorted = osort (sorts s0) ms0) by (change sorted with (fst (sorted, s1)); rewrite <- DS; reflexivity).
    assert (NextMoves : forall best, exists ms1, mark_pv best (generate_moves zt b AllMoves) = ms1 /\
                 forall m, In m (generate_moves zt b AllMoves) -> exists m', In m' ms1 /\ zobrist_key m' = zobrist_key m).
    { intros best. eexists. split; [reflexivity|]. intros m Hm. now apply mark_pv_keys. }
    destruct sorted as [|first rest].
    + apply (IH _ _ _ _ H NN); auto.
      * cbn [r_s]. now rewrite T1, T0.
      * eexists. split; [reflexivity|]. intros m Hm. eauto.
      * intros d e Hd Hn. cbn [r_events] in Hn. destruct (Z_lt_le_dec d cur) as [L|L]; [now apply (G d e)|].
        rewrite (newest_none cur _ d B0 L) in Hn. discriminate.
      * cbn [r_events]. eapply Forall_impl; [|exact B0]. intros [b1|d1 e1 l1]; [auto|lia].
    + destruct (root_moves zt osort None (S fuel) first (first :: rest) cur NEG_INF (mkR s1 (r_best r) (r_events r))) as [[[r1|] rl]| |] eqn:RM; try discriminate.
      * destruct (root_moves_events (S fuel) first cur _ _ _ _ _ RM) as [_ (new & En & Fn)]. cbn [r_events] in En.
        assert (DRs : drawing (table s1) (first :: rest)).
        { destruct DR as (m & Hm & Hc). destruct (KM m Hm) as (m' & Hm' & K). exists m'. split.
          - rewrite Es. now apply osort_keeps.
          - rewrite T1, T0, K. now rewrite (ET (zobrist_key m)). }
        destruct (root_moves_draw fuel first cur _ _ _ _ _ RM) as [E1 (e & line & rs & Ee & He)].
        { cbn [r_s]. rewrite T1, T0. apply (dt_nonneg_equiv _ _ ET NN). }
        { left. reflexivity. }
        { right. exact DRs. }
        cbn [r_s] in E1.
        destruct (NextMoves (r_best r1)) as (ms1 & Em & KM1).
        rewrite Em in H. apply (IH _ _ _ _ H NN); auto.
        -- eapply dt_equiv_trans; [exact E1|]. now rewrite T1, T0.
        -- eauto.
        -- intros d e0 Hd Hn. destruct (Z.eq_dec d cur) as [->|Hne].
           ++ rewrite Ee in Hn. cbn [newest_info] in Hn. rewrite Z.eqb_refl in Hn. injection Hn as <-. exact He.
           ++ rewrite En, (newest_info_skip d cur new (r_events r) Hne Fn) in Hn. apply (G d e0); [lia|exact Hn].
        -- rewrite En. apply Forall_app. split.
           ++ eapply Forall_impl; [|exact Fn]. intros [b1|d1 e1 l1]; cbn; [auto|intros ->; lia].
           ++ eapply Forall_impl; [|exact B0]. intros [b1|d1 e1 l1]; [auto|lia].
      * destruct (root_moves_events (S fuel) first cur _ _ _ _ _ RM) as [N _]. now contradiction N.
Qed.


(* the last score reported for each depth of the unlimited search is not below zero *)
Theorem root_scores_nonneg fuel b t evs s :
  dt_nonneg t -> drawing t (generate_moves zt b AllMoves) ->
  get_best_move zt osort None (S fuel) b t = Ok (evs, s) ->
  forall d e, newest_info d (rev evs) = Some e -> 0 <= e.
Proof.
  intros NN DR H d e Hn. unfold get_best_move in H.
  destruct (root_depths zt osort None (Z.to_nat MAX_DEPTH) (S fuel) b (generate_moves zt b AllMoves) 1 (mkR (new_search t) None [])) as [r| |] eqn:RD; try discriminate.
  injection H as <- _. rewrite rev_involutive in Hn.
  destruct (root_depths_draw fuel b t _ _ _ _ _ RD NN) as (cur' & G & B0).
  - apply dt_equiv_refl.
  - exact DR.
  - eexists. split; [reflexivity|]. eauto.
  - intros d0 e0 _ X. discriminate.
  - constructor.
  - destruct (Z_lt_le_dec d cur') as [L|L]; [exact (G d e L Hn)|].
    rewrite (newest_none cur' _ d B0 L) in Hn. discriminate.
Qed.

End S.
