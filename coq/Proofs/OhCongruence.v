(* C12: nothing the search's plain value is built from reads the ordering field (order_heuristic) of a node:
   successors of two nodes that differ in that field only differ in that field only, so the plain negamax
   value is the same -- the ranking of moves (PV first, killers) cannot change it. *)
From Walleye Require Import Model.Search Spec.Minimax Proofs.RootProofs Proofs.AlphaBeta.
From Coq Require Import Lia.
Open Scope Z_scope.

Ltac ds s := destruct s as [bd tm pdm wkl bkl r1 r2 r3 r4 oh lm pp key].

Lemma same_move_eq a b : same_move a b -> a = with_oh b (order_heuristic a).
Proof. unfold same_move. ds a. destruct b. unfold with_oh. cbn. intros H. injection H as -> -> -> -> -> -> -> -> -> -> -> ->. reflexivity. Qed.

Lemma same_move_sym a b : same_move a b -> same_move b a. Proof. unfold same_move. congruence. Qed.
Lemma same_move_trans a b c : same_move a b -> same_move b c -> same_move a c. Proof. unfold same_move. congruence. Qed.

Section C.
Variable zt : ztable.

Lemma with_oh_oh s x y : with_oh (with_oh s x) y = with_oh s y. Proof. reflexivity. Qed.
Lemma with_promo_oh s x v : with_promo (with_oh s x) v = with_oh (with_promo s v) x. Proof. reflexivity. Qed.
Lemma with_last_oh s x v : with_last (with_oh s x) v = with_oh (with_last s v) x. Proof. reflexivity. Qed.
Lemma with_board_oh s x v : with_board (with_oh s x) v = with_oh (with_board s v) x. Proof. reflexivity. Qed.
Lemma kx_oh s x v : kx (with_oh s x) v = with_oh (kx s v) x. Proof. reflexivity. Qed.
Lemma swap_color_oh s x : swap_color zt (with_oh s x) = with_oh (swap_color zt s) x. Proof. reflexivity. Qed.
Lemma unset_pdm_oh s x : unset_pawn_double_move zt (with_oh s x) = with_oh (unset_pawn_double_move zt s) x.
Proof. unfold unset_pawn_double_move. cbn [pawn_double_move with_oh]. destruct (pawn_double_move s); reflexivity. Qed.
Lemma take_away_oh s x c : take_away_castling_rights zt (with_oh s x) c = with_oh (take_away_castling_rights zt s c) x.
Proof. unfold take_away_castling_rights. replace (right (with_oh s x) c) with (right s c) by (destruct c; reflexivity). destruct (right s c); destruct c; reflexivity. Qed.
Lemma set_king_oh s x c p : set_king (with_oh s x) c p = with_oh (set_king s c p) x. Proof. destruct c; reflexivity. Qed.
Lemma move_piece_oh s x a b : move_piece zt (with_oh s x) a b = with_oh (move_piece zt s a b) x.
Proof. unfold move_piece. cbn [board with_oh]. destruct (get (board s) a); reflexivity. Qed.
Lemma is_check_oh s x c : is_check (with_oh s x) c = is_check s c. Proof. reflexivity. Qed.
Lemma king_location_oh s x c : king_location (with_oh s x) c = king_location s c. Proof. destruct c; reflexivity. Qed.

Lemma moved_board_oh s x pc sq mov : moved_board zt (with_oh s x) pc sq mov = moved_board zt s pc sq mov.
Proof. ds s. destruct pc as [c k]. destruct k, c; reflexivity. Qed.

Lemma successors_of_move_oh s x pc sq mov : successors_of_move zt (with_oh s x) pc sq mov = successors_of_move zt s pc sq mov.
Proof. unfold successors_of_move. now rewrite moved_board_oh. Qed.

Lemma can_castle_oh s x c : can_castle (with_oh s x) c = can_castle s c.
Proof. ds s. destruct c; reflexivity. Qed.

Lemma castle_successor_oh s x col c1 c2 kt alg rf rt :
  castle_successor zt (with_oh s x) col c1 c2 kt alg rf rt = with_oh (castle_successor zt s col c1 c2 kt alg rf rt) x.
Proof.
  unfold castle_successor. cbv zeta.
  rewrite king_location_oh, with_promo_oh, swap_color_oh, unset_pdm_oh, !take_away_oh, set_king_oh, with_last_oh, !move_piece_oh. reflexivity.
Qed.

Lemma en_passant_successor_oh s x pc sq :
  en_passant_successor zt (with_oh s x) pc sq = map (fun b => with_oh b x) (en_passant_successor zt s pc sq).
Proof.
  unfold en_passant_successor. cbn [pawn_double_move with_oh]. destruct (pawn_double_move s) as [dm|] eqn:D; [|reflexivity].
  destruct (pkind pc); try reflexivity.
  assert (E : pawn_moves_en_passant pc sq (with_oh s x) = pawn_moves_en_passant pc sq s) by reflexivity. rewrite E.
  destruct (pawn_moves_en_passant pc sq s) as [mov|]; [|reflexivity]. cbv zeta.
  rewrite with_promo_oh, with_last_oh, swap_color_oh, unset_pdm_oh, move_piece_oh.
  match goal with |- context [with_board (with_oh ?y x) ?v] => rewrite (with_board_oh y x v) end.
  rewrite kx_oh, is_check_oh. cbn [to_move with_oh].
  destruct (negb _); reflexivity.
Qed.

Lemma Forall2_flat_map {A B} (R : B -> B -> Prop) (f g : A -> list B) l :
  (forall p, Forall2 R (f p) (g p)) -> Forall2 R (flat_map f l) (flat_map g l).
Proof. intros H. induction l as [|p l IH]; cbn [flat_map]; [constructor|]. apply Forall2_app; [apply H|exact IH]. Qed.

Lemma Forall2_same_refl l : Forall2 same_move l l.
Proof. induction l; constructor; [apply same_move_refl|assumption]. Qed.

Lemma Forall2_with_oh l x : Forall2 same_move (map (fun b => with_oh b x) l) l.
Proof. induction l; cbn [map]; constructor; [apply same_move_with_oh|assumption]. Qed.

Lemma generate_moves_oh s x m : Forall2 same_move (generate_moves zt (with_oh s x) m) (generate_moves zt s m).
Proof.
  unfold generate_moves. cbn [board to_move with_oh]. apply Forall2_app.
  - apply Forall2_flat_map. intros p. destruct (get (board s) p) as [| pc |] eqn:Gp; try constructor.
    destruct (color_eqb (pcolor pc) (to_move s)); [|constructor].
    unfold generate_moves_for_piece. cbn [board with_oh]. apply Forall2_app.
    + apply Forall2_flat_map. intros mov. rewrite successors_of_move_oh. apply Forall2_same_refl.
    + rewrite en_passant_successor_oh. apply Forall2_with_oh.
  - destruct (mode_all m); [|constructor]. unfold generate_castling_moves. cbn [to_move with_oh]. rewrite !can_castle_oh.
    repeat apply Forall2_app;
      match goal with |- Forall2 _ (if ?c then _ else _) _ => destruct c; [|constructor] end;
      (constructor; [|constructor]); rewrite castle_successor_oh; apply same_move_with_oh.
Qed.

Lemma generate_moves_same a b m : same_move a b -> Forall2 same_move (generate_moves zt a m) (generate_moves zt b m).
Proof. intros S. rewrite (same_move_eq a b S). apply generate_moves_oh. Qed.

(* ---- what the plain value reads of a node *)
Lemma same_key a b : same_move a b -> zobrist_key a = zobrist_key b.
Proof. intros S. rewrite (same_move_eq a b S). reflexivity. Qed.
Lemma same_eval a b : same_move a b -> get_evaluation a = get_evaluation b.
Proof. intros S. rewrite (same_move_eq a b S). reflexivity. Qed.
Lemma same_check a b : same_move a b -> is_check a (to_move a) = is_check b (to_move b).
Proof. intros S. rewrite (same_move_eq a b S). reflexivity. Qed.

Lemma max_children_same (rec : BoardState -> option Z) l l' : Forall2 same_move l l' ->
  (forall m m', same_move m m' -> rec m = rec m') -> forall i, max_children rec l i = max_children rec l' i.
Proof.
  intros HF Hr. induction HF as [|m m' l l' S _ IH]; intros i; [reflexivity|]. unfold max_children in *. cbn [fold_left].
  rewrite (Hr m m' S). apply IH.
Qed.

Lemma qvalue_same F : forall a b, same_move a b -> qvalue zt F a = qvalue zt F b.
Proof.
  induction F as [|F IH]; intros a b S; [reflexivity|]. cbn [qvalue]. rewrite (same_eval a b S).
  apply max_children_same; [now apply generate_moves_same|exact IH].
Qed.

Theorem negamax_same F : forall a b d ply t, same_move a b -> negamax zt F a d ply t = negamax zt F b d ply t.
Proof.
  induction F as [|F IH]; intros a b d ply t S; [reflexivity|]. cbn [negamax].
  assert (ET : is_threefold_repetition t a = is_threefold_repetition t b) by (unfold is_threefold_repetition; now rewrite (same_key a b S)).
  assert (EA : dt_add t a = dt_add t b) by (unfold dt_add; now rewrite (same_key a b S)).
  rewrite ET, EA, (same_check a b S), (qvalue_same F a b S).
  destruct (is_threefold_repetition t b); [reflexivity|]. cbv zeta.
  destruct ((d =? 0) && negb (is_check b (to_move b))); [reflexivity|].
  pose proof (generate_moves_same a b AllMoves S) as G.
  destruct G as [|m m' l l' Sm Sl]; [reflexivity|].
  rewrite (IH m m' _ _ _ Sm). apply max_children_same; [exact Sl|]. intros x x' Sx. now apply IH.
Qed.

End C.
