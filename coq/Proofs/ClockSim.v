(* The virtual clock: a sub-search that finishes before the clock expires is the sub-search of an
   unlimited run.  Consequences: no value of an aborted sub-search is ever accepted at the root (no taint),
   and a larger allowance only extends the sequence of reported improvements (prefix). *)
From Walleye Require Import Model.Search.
Open Scope Z_scope.

(* k1 expires no later than k2 *)
Definition le_k (k1 k2 : option N) : Prop :=
  match k1, k2 with
  | Some a, Some b => (a <= b)%N
  | Some _, None => True
  | None, None => True
  | None, Some _ => False
  end.

(* no consultation made so far has reported expiry under k: indices 0 .. clock-1 are all below k *)
Definition quiet (k : option N) (s : sstate) : Prop :=
  match k with Some kk => (clock s <= kk)%N | None => True end.

Lemma quiet_mono k s s' : (clock s <= clock s')%N -> quiet k s' -> quiet k s.
Proof. unfold quiet. destruct k; [lia|auto]. Qed.

Lemma quiet_le k1 k2 s : le_k k1 k2 -> quiet k1 s -> quiet k2 s.
Proof. unfold le_k, quiet. destruct k1, k2; try tauto; lia. Qed.

Section S.
Variable zt : ztable.
Variable osort : N -> list BoardState -> list BoardState.

Lemma insert_cur_clock s ply m s1 : insert_into_cur_line s ply m = Ok s1 -> clock s1 = clock s.
Proof. unfold insert_into_cur_line. destruct (arr_set (cur_line s) ply (last_move m)); intros H; inversion H; reflexivity. Qed.
Lemma insert_killer_clock s ply m s1 : insert_killer_move s ply m = Ok s1 -> clock s1 = clock s.
Proof.
  unfold insert_killer_move. destruct (arr_get (killers s) ply) as [kk|]; [|discriminate].
  destruct (existsb _ kk); [intros H; inversion H; reflexivity|].
  destruct (arr_set (killers s) ply _); intros H; inversion H; reflexivity.
Qed.

Variable k1 k2 : option N.
Hypothesis Hk : le_k k1 k2.

(* a pair of search functions: the second reproduces every run of the first that stayed quiet,
   and the first never turns the clock back *)
Definition sim (rec1 rec2 : search_fn) : Prop :=
  forall b d ply a be n s v s', rec1 b d ply a be n s = Ok (v, s') ->
    (clock s <= clock s')%N /\ (quiet k1 s' -> rec2 b d ply a be n s = Ok (v, s')).

(* the same for quiescence, which consults the clock at every node *)
Definition qsim (q1 q2 : q_fn) : Prop :=
  forall b a be s v s', q1 b a be s = Ok (v, s') ->
    (clock s <= clock s')%N /\ (quiet k1 s' -> q2 b a be s = Ok (v, s')).

Lemma q_loop_sim q1 q2 : qsim q1 q2 -> forall ms a be s v s',
  q_loop q1 ms a be s = Ok (v, s') ->
  (clock s <= clock s')%N /\ (quiet k1 s' -> q_loop q2 ms a be s = Ok (v, s')).
Proof.
  intros Hq. induction ms as [|m rest IH]; intros a be s v s' H; cbn [q_loop] in *.
  - inversion H; subst. split; [lia|reflexivity].
  - destruct (q1 m (- be) (- a) s) as [[v1 s1]| |] eqn:E; try discriminate.
    destruct (Hq _ _ _ _ _ _ E) as [M1 S1].
    destruct (be <=? - v1) eqn:C.
    + inversion H; subst. split; [exact M1|]. intros Q. rewrite (S1 Q). cbn iota. rewrite C. reflexivity.
    + destruct (IH _ _ _ _ _ H) as [M2 S2]. split; [lia|]. intros Q.
      assert (Q1 : quiet k1 s1) by (apply (quiet_mono k1 s1 s'); [exact M2|exact Q]).
      rewrite (S1 Q1). cbn iota. rewrite C. exact (S2 Q).
Qed.

Lemma out_of_time_quiet_false k s :
  quiet k (snd (out_of_time k s)) -> fst (out_of_time k s) = false.
Proof.
  unfold out_of_time, quiet. cbn [fst snd clock with_clock]. destruct k as [kk|]; [|reflexivity].
  intros H. apply N.leb_gt. lia.
Qed.

Lemma quiesce_sim fuel : qsim (quiesce zt osort k1 fuel) (quiesce zt osort k2 fuel).
Proof.
  induction fuel as [|f IH]; intros b a be s v s' H; cbn [quiesce] in *; [discriminate|].
  assert (Cs : clock (snd (out_of_time k1 s)) = (clock s + 1)%N) by reflexivity.
  assert (Same : snd (out_of_time k2 s) = snd (out_of_time k1 s)) by reflexivity.
  destruct (out_of_time k1 s) as [e1 s1] eqn:E1. cbn [snd] in Cs, Same.
  destruct (out_of_time k2 s) as [e2 s2] eqn:E2. cbn [snd] in Same. subst s2.
  assert (F2 : forall sx, (clock s1 <= clock sx)%N -> quiet k1 sx -> e2 = false).
  { intros sx Mx Q. assert (F : fst (out_of_time k2 s) = false).
    { apply out_of_time_quiet_false. rewrite E2. cbn [snd]. apply (quiet_le k1 k2); [exact Hk|].
      apply (quiet_mono k1 s1 sx); [exact Mx|exact Q]. }
    rewrite E2 in F. exact F. }
  destruct e1.
  - inversion H; subst. split; [lia|]. intros Q. exfalso.
    assert (F : fst (out_of_time k1 s) = false) by (apply out_of_time_quiet_false; rewrite E1; exact Q).
    rewrite E1 in F. discriminate.
  - destruct (be <=? get_evaluation b).
    + inversion H; subst. cbn [clock node_searched with_nodes]. split; [lia|].
      intros Q. rewrite (F2 (node_searched s1) ltac:(cbn; lia) Q). reflexivity.
    + destruct (do_sort osort (generate_moves zt b CapturesOnly) (node_searched s1)) as [moves s3] eqn:DS.
      assert (C3 : clock s3 = clock s1) by (change s3 with (snd (moves, s3)); rewrite <- DS; reflexivity).
      destruct (q_loop_sim _ _ IH _ _ _ _ _ _ H) as [M T]. split; [lia|].
      intros Q. rewrite (F2 s' ltac:(lia) Q). exact (T Q).
Qed.

Section Node.
Variables rec1 rec2 : search_fn.
Variables qrec1 qrec2 : q_fn.
Hypothesis Hsim : sim rec1 rec2.
Hypothesis Hq : qsim qrec1 qrec2.
Variable b : BoardState.

Lemma leave_clock v s v' s' : leave b v s = Ok (v', s') -> clock s' = clock s.
Proof. unfold leave. intros H; inversion H; reflexivity. Qed.

Lemma ab_loop_sim depth ply beta : forall ms alpha best s v s',
  ab_loop rec1 b depth ply beta ms alpha best s = Ok (v, s') ->
  (clock s <= clock s')%N /\ (quiet k1 s' -> ab_loop rec2 b depth ply beta ms alpha best s = Ok (v, s')).
Proof.
  induction ms as [|m rest IH]; intros alpha best s v s' H; cbn [ab_loop] in *.
  - rewrite (leave_clock _ _ _ _ H). split; [lia|intros _; exact H].
  - destruct (insert_into_cur_line s ply m) as [s1| |] eqn:E1; try discriminate.
    pose proof (insert_cur_clock _ _ _ _ E1) as C1.
    destruct (rec1 m (depth - 1) (ply + 1) (- alpha - 1) (- alpha) true s1) as [[v1 s2]| |] eqn:E2; try discriminate.
    destruct (Hsim _ _ _ _ _ _ _ _ _ E2) as [M2 S2].
    destruct ((alpha <? - v1) && (- v1 <? beta)) eqn:RS.
    + destruct (rec1 m (depth - 1) (ply + 1) (- beta) (- alpha) true s2) as [[v2 s3]| |] eqn:E3; try discriminate.
      destruct (Hsim _ _ _ _ _ _ _ _ _ E3) as [M3 S3].
      assert (Tail : (clock s3 <= clock s')%N /\
                     (quiet k1 s' ->
                      (if best <? - v2 then
                         if beta <=? - v2 then
                           match (if order_heuristic m =? 0 then insert_killer_move s3 ply m else Ok s3) with
                           | Ok s => leave b (- v2) s | Err e => Err e | Panic p => Panic p end
                         else ab_loop rec2 b depth ply beta rest (if alpha <? - v2 then - v2 else alpha) (- v2) (set_principle_variation s3)
                       else ab_loop rec2 b depth ply beta rest (if alpha <? - v2 then - v2 else alpha) best s3) = Ok (v, s'))).
      { destruct (best <? - v2).
        - destruct (beta <=? - v2).
          + destruct (order_heuristic m =? 0).
            * destruct (insert_killer_move s3 ply m) as [s4| |] eqn:E4; try discriminate.
              rewrite (leave_clock _ _ _ _ H), (insert_killer_clock _ _ _ _ E4). split; [lia|intros _; exact H].
            * rewrite (leave_clock _ _ _ _ H). split; [lia|intros _; exact H].
          + destruct (IH _ _ _ _ _ H) as [M T]. split; [exact M|exact T].
        - destruct (IH _ _ _ _ _ H) as [M T]. split; [exact M|exact T]. }
      destruct Tail as [MT ST]. split; [rewrite C1 in M2; lia|].
      intros Q.
      assert (Q3 : quiet k1 s3) by (apply (quiet_mono k1 s3 s'); [exact MT|exact Q]).
      assert (Q2 : quiet k1 s2) by (apply (quiet_mono k1 s2 s3); [exact M3|exact Q3]).
      rewrite (S2 Q2). cbn iota. rewrite RS. rewrite (S3 Q3). exact (ST Q).
    + assert (Tail : (clock s2 <= clock s')%N /\
                     (quiet k1 s' ->
                      (if best <? - v1 then
                         if beta <=? - v1 then
                           match (if order_heuristic m =? 0 then insert_killer_move s2 ply m else Ok s2) with
                           | Ok s => leave b (- v1) s | Err e => Err e | Panic p => Panic p end
                         else ab_loop rec2 b depth ply beta rest alpha (- v1) (set_principle_variation s2)
                       else ab_loop rec2 b depth ply beta rest alpha best s2) = Ok (v, s'))).
      { destruct (best <? - v1).
        - destruct (beta <=? - v1).
          + destruct (order_heuristic m =? 0).
            * destruct (insert_killer_move s2 ply m) as [s4| |] eqn:E4; try discriminate.
              rewrite (leave_clock _ _ _ _ H), (insert_killer_clock _ _ _ _ E4). split; [lia|intros _; exact H].
            * rewrite (leave_clock _ _ _ _ H). split; [lia|intros _; exact H].
          + destruct (IH _ _ _ _ _ H) as [M T]. split; [exact M|exact T].
        - destruct (IH _ _ _ _ _ H) as [M T]. split; [exact M|exact T]. }
      destruct Tail as [MT ST]. split; [rewrite C1 in M2; lia|].
      intros Q.
      assert (Q2 : quiet k1 s2) by (apply (quiet_mono k1 s2 s'); [exact MT|exact Q]).
      rewrite (S2 Q2). cbn iota. rewrite RS. exact (ST Q).
Qed.

Lemma ab_moves_sim depth ply alpha beta s v s' :
  ab_moves zt osort rec1 b depth ply alpha beta s = Ok (v, s') ->
  (clock s <= clock s')%N /\ (quiet k1 s' -> ab_moves zt osort rec2 b depth ply alpha beta s = Ok (v, s')).
Proof.
  intros H. unfold ab_moves in *.
  destruct (generate_moves zt b AllMoves) as [|g0 gs] eqn:G.
  { destruct (is_check b (to_move b)); rewrite (leave_clock _ _ _ _ H); (split; [lia|intros _; exact H]). }
  destruct (rank_moves s ply (g0 :: gs)) as [ranked| |]; try discriminate.
  destruct (do_sort osort ranked s) as [sorted s1] eqn:DS.
  assert (C1 : clock s1 = clock s) by (change s1 with (snd (sorted, s1)); rewrite <- DS; reflexivity).
  destruct sorted as [|m0 rest]; [discriminate|].
  destruct (insert_into_cur_line s1 ply m0) as [s2| |] eqn:E2; try discriminate.
  pose proof (insert_cur_clock _ _ _ _ E2) as C2.
  set (s3 := if negb (order_heuristic m0 =? POS_INF) then set_principle_variation s2 else s2) in *.
  assert (C3 : clock s3 = clock s2) by (unfold s3; destruct (negb _); reflexivity).
  destruct (rec1 m0 (depth - 1) (ply + 1) (- beta) (- alpha) true s3) as [[v0 s4]| |] eqn:E4; try discriminate.
  destruct (Hsim _ _ _ _ _ _ _ _ _ E4) as [M4 S4].
  assert (Tail : (clock s4 <= clock s')%N /\
                 (quiet k1 s' ->
                  (if (alpha <? - v0) && (beta <=? - v0) then leave b (- v0) s4
                   else if alpha <? - v0 then ab_loop rec2 b depth ply beta rest (- v0) (- v0) (set_principle_variation s4)
                        else ab_loop rec2 b depth ply beta rest alpha (- v0) s4) = Ok (v, s'))).
  { destruct ((alpha <? - v0) && (beta <=? - v0)).
    - rewrite (leave_clock _ _ _ _ H). split; [lia|intros _; exact H].
    - destruct (alpha <? - v0); destruct (ab_loop_sim _ _ _ _ _ _ _ _ _ H) as [M T]; (split; [exact M|exact T]). }
  destruct Tail as [MT ST]. split; [lia|].
  intros Q. assert (Q4 : quiet k1 s4) by (apply (quiet_mono k1 s4 s'); [exact MT|exact Q]).
  rewrite (S4 Q4). exact (ST Q).
Qed.

Lemma ab_body_sim depth ply alpha beta allow_null s v s' :
  ab_body zt osort rec1 qrec1 b depth ply alpha beta allow_null s = Ok (v, s') ->
  (clock s <= clock s')%N /\ (quiet k1 s' -> ab_body zt osort rec2 qrec2 b depth ply alpha beta allow_null s = Ok (v, s')).
Proof.
  intros H. unfold ab_body in *.
  destruct ((depth =? 0) && negb (is_check b (to_move b))).
  { destruct (Hq _ _ _ _ _ _ H) as [M T]. cbn [clock with_table] in M. split; [exact M|exact T]. }
  set (depth' := if depth =? 0 then depth + 1 else depth) in *.
  set (alpha' := Z.max alpha (- MATE_SCORE + ply)) in *.
  set (beta' := Z.min beta (MATE_SCORE - ply)) in *.
  destruct (beta' <=? alpha'); [rewrite (leave_clock _ _ _ _ H); split; [lia|intros _; exact H]|].
  destruct (allow_null && (NULL_MIN_DEPTH <=? depth') && negb (is_check b (to_move b))).
  - destruct (rec1 (with_to_move b (opposite (to_move b))) (depth' - NULL_REDUCTION) (ply + NULL_PLY_OFFSET)
                   (- beta') (- beta' + 1) false s) as [[vn sn]| |] eqn:EN; try discriminate.
    destruct (Hsim _ _ _ _ _ _ _ _ _ EN) as [Mn Sn].
    assert (Tail : (clock sn <= clock s')%N /\
                   (quiet k1 s' -> (if beta' <=? - vn then leave b beta' sn else ab_moves zt osort rec2 b depth' ply alpha' beta' sn) = Ok (v, s'))).
    { destruct (beta' <=? - vn).
      - rewrite (leave_clock _ _ _ _ H). split; [lia|intros _; exact H].
      - destruct (ab_moves_sim _ _ _ _ _ _ _ H) as [M T]. split; [exact M|exact T]. }
    destruct Tail as [MT ST]. split; [lia|].
    intros Q. assert (Qn : quiet k1 sn) by (apply (quiet_mono k1 sn s'); [exact MT|exact Q]).
    rewrite (Sn Qn). exact (ST Q).
  - apply ab_moves_sim. exact H.
Qed.

End Node.

(* ---- the node function itself *)

Theorem alpha_beta_sim fuel : sim (alpha_beta zt osort k1 fuel) (alpha_beta zt osort k2 fuel).
Proof.
  induction fuel as [|f IH]; intros b d ply a be n s v s' H; cbn [alpha_beta] in *; [discriminate|].
  assert (Cs : clock (snd (out_of_time k1 s)) = (clock s + 1)%N) by reflexivity.
  assert (Same : snd (out_of_time k2 s) = snd (out_of_time k1 s)) by reflexivity.
  destruct (out_of_time k1 s) as [e1 s1] eqn:E1. cbn [snd] in Cs, Same.
  destruct (out_of_time k2 s) as [e2 s2] eqn:E2. cbn [snd] in Same. subst s2.
  destruct e1.
  - (* expired under k1: the result state is not quiet *)
    inversion H; subst. split; [lia|].
    intros Q. exfalso.
    assert (F : fst (out_of_time k1 s) = false) by (apply out_of_time_quiet_false; rewrite E1; exact Q).
    rewrite E1 in F. discriminate.
  - set (s3 := with_maxply (node_searched s1) (Z.max (max_ply (node_searched s1)) ply)) in *.
    assert (C3 : clock s3 = clock s1) by reflexivity.
    destruct (is_threefold_repetition (table s3) b) eqn:R.
    + inversion H; subst. split; [rewrite C3; lia|].
      intros Q. assert (F : fst (out_of_time k2 s) = false).
      { apply out_of_time_quiet_false. rewrite E2. cbn [snd]. apply (quiet_le k1 k2); [exact Hk|].
        apply (quiet_mono k1 s1 s3); [rewrite C3; lia|exact Q]. }
      rewrite E2 in F. cbn [fst] in F. subst e2. reflexivity.
    + destruct (ab_body_sim (alpha_beta zt osort k1 f) (alpha_beta zt osort k2 f) (quiesce zt osort k1 f) (quiesce zt osort k2 f) IH (quiesce_sim f)
                            b d ply a be n _ _ _ H) as [M T].
      cbn [clock with_table] in M. split; [rewrite C3 in M; lia|].
      intros Q. assert (F : fst (out_of_time k2 s) = false).
      { apply out_of_time_quiet_false. rewrite E2. cbn [snd]. apply (quiet_le k1 k2); [exact Hk|].
        apply (quiet_mono k1 s1 s'); [rewrite C3 in M; exact M|exact Q]. }
      rewrite E2 in F. cbn [fst] in F. subst e2. exact (T Q).
Qed.

End S.
