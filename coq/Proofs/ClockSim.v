(* The virtual clock: a sub-search that finishes before the clock expires is the sub-search of an
   unlimited run.  Consequences: no value of an aborted sub-search is ever accepted at the root (no taint),
   and a larger allowance only extends the sequence of reported improvements (prefix). *)
From Walleye Require Import Model.Search.
Open Scope Z_scope.

(* k1 expires no later than k2 *)
Definition le_k (k1 k2 : option N) : Prop :=
  match k1, k2 with
  | Some a, Some b => (a <= b)%N
  | Some _, None => True
  | None, None => True
  | None, Some _ => False
  end.

(* no consultation made so far has reported expiry under k: indices 0 .. clock-1 are all below k *)
Definition quiet (k : option N) (s : sstate) : Prop :=
  match k with Some kk => (clock s <= kk)%N | None => True end.

Lemma quiet_mono k s s' : (clock s <= clock s')%N -> quiet k s' -> quiet k s.
Proof. unfold quiet. destruct k; [lia|auto]. Qed.

Lemma quiet_le k1 k2 s : le_k k1 k2 -> quiet k1 s -> quiet k2 s.
Proof. unfold le_k, quiet. destruct k1, k2; try tauto; lia. Qed.

Section S.
Variable zt : ztable.
Variable osort : N -> list BoardState -> list BoardState.

(* ---- quiescence does not consult the clock *)
Definition q_clock (qrec : q_fn) : Prop := forall b a be s v s', qrec b a be s = Ok (v, s') -> clock s' = clock s.

Lemma q_loop_clock qrec : q_clock qrec -> forall ms a be s v s', q_loop qrec ms a be s = Ok (v, s') -> clock s' = clock s.
Proof.
  intros Hq. induction ms as [|m rest IH]; intros a be s v s' H; cbn [q_loop] in H.
  - inversion H; reflexivity.
  - destruct (qrec m (- be) (- a) s) as [[v1 s1]| |] eqn:E; try discriminate.
    pose proof (Hq _ _ _ _ _ _ E) as T1.
    destruct (be <=? - v1); [inversion H; subst; exact T1|].
    rewrite (IH _ _ _ _ _ H). exact T1.
Qed.

Lemma quiesce_clock fuel : q_clock (quiesce zt osort fuel).
Proof.
  induction fuel as [|f IH]; intros b a be s v s' H; cbn [quiesce] in H; [discriminate|].
  destruct (be <=? get_evaluation b); [inversion H; reflexivity|].
  destruct (do_sort osort (generate_moves zt b CapturesOnly) (node_searched s)) as [moves s1] eqn:DS.
  assert (T1 : clock s1 = clock s) by (change s1 with (snd (moves, s1)); rewrite <- DS; reflexivity).
  rewrite (q_loop_clock _ IH _ _ _ _ _ _ H). exact T1.
Qed.

Lemma insert_cur_clock s ply m s1 : insert_into_cur_line s ply m = Ok s1 -> clock s1 = clock s.
Proof. unfold insert_into_cur_line. destruct (arr_set (cur_line s) ply (last_move m)); intros H; inversion H; reflexivity. Qed.
Lemma insert_killer_clock s ply m s1 : insert_killer_move s ply m = Ok s1 -> clock s1 = clock s.
Proof.
  unfold insert_killer_move. destruct (arr_get (killers s) ply) as [kk|]; [|discriminate].
  destruct (existsb _ kk); [intros H; inversion H; reflexivity|].
  destruct (arr_set (killers s) ply _); intros H; inversion H; reflexivity.
Qed.

Variable k1 k2 : option N.
Hypothesis Hk : le_k k1 k2.

(* a pair of search functions: the second reproduces every run of the first that stayed quiet,
   and the first never turns the clock back *)
Definition sim (rec1 rec2 : search_fn) : Prop :=
  forall b d ply a be n s v s', rec1 b d ply a be n s = Ok (v, s') ->
    (clock s <= clock s')%N /\ (quiet k1 s' -> rec2 b d ply a be n s = Ok (v, s')).

Section Node.
Variables rec1 rec2 : search_fn.
Variable qrec : q_fn.
Hypothesis Hsim : sim rec1 rec2.
Hypothesis Hq : q_clock qrec.
Variable b : BoardState.

Lemma leave_clock v s v' s' : leave b v s = Ok (v', s') -> clock s' = clock s.
Proof. unfold leave. intros H; inversion H; reflexivity. Qed.

Lemma ab_loop_sim depth ply beta : forall ms alpha best s v s',
  ab_loop rec1 b depth ply beta ms alpha best s = Ok (v, s') ->
  (clock s <= clock s')%N /\ (quiet k1 s' -> ab_loop rec2 b depth ply beta ms alpha best s = Ok (v, s')).
Proof.
  induction ms as [|m rest IH]; intros alpha best s v s' H; cbn [ab_loop] in *.
  - rewrite (leave_clock _ _ _ _ H). split; [lia|intros _; exact H].
  - destruct (insert_into_cur_line s ply m) as [s1| |] eqn:E1; try discriminate.
    pose proof (insert_cur_clock _ _ _ _ E1) as C1.
    destruct (rec1 m (depth - 1) (ply + 1) (- alpha - 1) (- alpha) true s1) as [[v1 s2]| |] eqn:E2; try discriminate.
    destruct (Hsim _ _ _ _ _ _ _ _ _ E2) as [M2 S2].
    destruct ((alpha <? - v1) && (- v1 <? beta)) eqn:RS.
    + destruct (rec1 m (depth - 1) (ply + 1) (- beta) (- alpha) true s2) as [[v2 s3]| |] eqn:E3; try discriminate.
      destruct (Hsim _ _ _ _ _ _ _ _ _ E3) as [M3 S3].
      assert (Tail : (clock s3 <= clock s')%N /\
                     (quiet k1 s' ->
                      (if best <? - v2 then
                         if beta <=? - v2 then
                           match (if order_heuristic m =? 0 then insert_killer_move s3 ply m else Ok s3) with
                           | Ok s => leave b (- v2) s | Err e => Err e | Panic p => Panic p end
                         else ab_loop rec2 b depth ply beta rest (if alpha <? - v2 then - v2 else alpha) (- v2) (set_principle_variation s3)
                       else ab_loop rec2 b depth ply beta rest (if alpha <? - v2 then - v2 else alpha) best s3) = Ok (v, s'))).
      { destruct (best <? - v2).
        - destruct (beta <=? - v2).
          + destruct (order_heuristic m =? 0).
            * destruct (insert_killer_move s3 ply m) as [s4| |] eqn:E4; try discriminate.
              rewrite (leave_clock _ _ _ _ H), (insert_killer_clock _ _ _ _ E4). split; [lia|intros _; exact H].
            * rewrite (leave_clock _ _ _ _ H). split; [lia|intros _; exact H].
          + destruct (IH _ _ _ _ _ H) as [M T]. split; [exact M|exact T].
        - destruct (IH _ _ _ _ _ H) as [M T]. split; [exact M|exact T]. }
      destruct Tail as [MT ST]. split; [rewrite <- C1 in M2; lia|].
      intros Q. rewrite (S2 (quiet_mono _ _ _ ltac:(lia) Q)).
      cbn iota. rewrite RS. rewrite (S3 (quiet_mono _ _ _ MT Q)). exact (ST Q).
    + assert (Tail : (clock s2 <= clock s')%N /\
                     (quiet k1 s' ->
                      (if best <? - v1 then
                         if beta <=? - v1 then
                           match (if order_heuristic m =? 0 then insert_killer_move s2 ply m else Ok s2) with
                           | Ok s => leave b (- v1) s | Err e => Err e | Panic p => Panic p end
                         else ab_loop rec2 b depth ply beta rest alpha (- v1) (set_principle_variation s2)
                       else ab_loop rec2 b depth ply beta rest alpha best s2) = Ok (v, s'))).
      { destruct (best <? - v1).
        - destruct (beta <=? - v1).
          + destruct (order_heuristic m =? 0).
            * destruct (insert_killer_move s2 ply m) as [s4| |] eqn:E4; try discriminate.
              rewrite (leave_clock _ _ _ _ H), (insert_killer_clock _ _ _ _ E4). split; [lia|intros _; exact H].
            * rewrite (leave_clock _ _ _ _ H). split; [lia|intros _; exact H].
          + destruct (IH _ _ _ _ _ H) as [M T]. split; [exact M|exact T].
        - destruct (IH _ _ _ _ _ H) as [M T]. split; [exact M|exact T]. }
      destruct Tail as [MT ST]. split; [rewrite <- C1 in M2; lia|].
      intros Q. rewrite (S2 (quiet_mono _ _ _ MT Q)). cbn iota. rewrite RS. exact (ST Q).
Qed.

End Node.
End S.
