(* C04, step 3: make_move on the text of a generated move builds the generator's position
   (same board, side to move, en-passant target, king squares and castling rights). *)
From Walleye Require Import Model.TextMove Spec.Abs Proofs.Cells Proofs.Ray Proofs.HashProofs Proofs.AttackGeom Proofs.AbsSet
  Proofs.KeyInvariant Proofs.CheckProofs Proofs.MoveGenProofs Proofs.GenShape Proofs.SuccessorAbs Proofs.GenerateAbs
  Proofs.SuccessorWf Proofs.Legality Proofs.PseudoLegal Proofs.LegalMoves Proofs.NoDupMoves Proofs.LegalPosition Proofs.Preservation
  Proofs.TextMoveProofs Proofs.MakeMove.
Open Scope Z_scope.

(* everything of a BoardState but the bookkeeping of the search (ordering hint, descriptor) and the key *)
Definition same_pos (x y : BoardState) : Prop :=
  board x = board y /\ to_move x = to_move y /\ pawn_double_move x = pawn_double_move y /\
  (forall col, king_location x col = king_location y col) /\ (forall r, right x r = right y r).

Lemma same_pos_abs x y : same_pos x y -> abs x = abs y.
Proof.
  intros (B & T & P & K & R). unfold abs. rewrite B, T, P.
  change (wks x) with (right x WKS). change (wqs x) with (right x WQS). change (bks x) with (right x BKS). change (bqs x) with (right x BQS).
  rewrite !R. reflexivity.
Qed.

Lemma set_nth_comm {A} (l : list A) n m u v : n <> m -> set_nth n u (set_nth m v l) = set_nth m v (set_nth n u l).
Proof.
  revert n m. induction l as [|x t IH]; intros [|n] [|m] H; cbn [set_nth]; try reflexivity; try congruence.
  f_equal. apply IH. congruence.
Qed.

Lemma set_comm b p q u v : in_grid p = true -> in_grid q = true -> p <> q -> set (set b q v) p u = set (set b p u) q v.
Proof.
  intros Gp Gq Hne. unfold set. rewrite Gp, Gq. apply set_nth_comm. intros E. apply Hne. now apply idx_inj.
Qed.

Lemma same_pos_pos_ok1 x y : same_pos y x -> pos_ok1 x -> pos_ok1 y.
Proof.
  intros (B & T & P & K & R) [(OK & KO & RH & EP & NK) ER]. split; [split; [|split; [|split; [|split]]]|].
  - now rewrite B.
  - intros col. rewrite B, K. exact (KO col).
  - unfold rights_home in *. change (wks y) with (right y WKS). change (wqs y) with (right y WQS).
    change (bks y) with (right y BKS). change (bqs y) with (right y BQS). rewrite !R, B. exact RH.
  - intros t D. rewrite P in D. rewrite B, T. exact (EP t D).
  - intros p pc t Hp G PC Ht col. rewrite B in *. rewrite T in PC. exact (NK p pc t Hp G PC Ht col).
  - intros t D. rewrite P in D. rewrite T. exact (ER t D).
Qed.

Section S.
Variable zt : ztable.
Notation take_away := (take_away_castling_rights zt).

(* ---- the stages of make_move_pts *)
Definition stage_piece (s : BoardState) (pc : piece) (sp ep : point) : BoardState :=
  match pkind pc with
  | King =>
      match pcolor pc with
      | White => take_away (take_away (with_wk s ep) WQS) WKS
      | Black => take_away (take_away (with_bk s ep) BQS) BKS
      end
  | Pawn =>
      let s :=
        if Z.abs (fst sp - fst ep) =? 2 then
          let target := match pcolor pc with White => (fst sp - 1, snd sp) | Black => (fst sp + 1, snd sp) end in
          with_pdm (kx s (z_ep zt (snd target))) (Some target)
        else s in
      if negb (snd sp =? snd ep) && square_eqb (get (board s) ep) Empty then
        kx (with_board s (set (board s) (fst sp, snd ep) Empty))
           (z_piece zt (mkPiece (opposite (to_move s)) Pawn) (fst sp, snd ep))
      else s
  | _ => s
  end.

Definition stage_corners (s : BoardState) (sp ep : point) : BoardState :=
  let s := if point_eqb sp (2, 2) || point_eqb ep (2, 2) then take_away s BQS else s in
  let s := if point_eqb sp (2, 9) || point_eqb ep (2, 9) then take_away s BKS else s in
  let s := if point_eqb sp (9, 2) || point_eqb ep (9, 2) then take_away s WQS else s in
  if point_eqb sp (9, 9) || point_eqb ep (9, 9) then take_away s WKS else s.

Definition stage_promo (s : BoardState) (ep : point) (pr : option kind) : BoardState :=
  match pr with
  | Some k =>
      let pp := mkPiece (to_move s) k in
      with_board (kx s (N.lxor (z_piece zt (mkPiece (to_move s) Pawn) ep) (z_piece zt pp ep))) (set (board s) ep (Full pp))
  | None => s
  end.

Definition stage_castle (s : BoardState) (sp ep : point) (pr : option kind) : BoardState :=
  match castle_rook_pts zt s sp ep pr WHITE_KING_SIDE_CASTLE_ALG (mkPiece White King) (BOARD_END - 1, BOARD_END - 1) (BOARD_END - 1, BOARD_END - 3) with
  | Some s' => s'
  | None =>
  match castle_rook_pts zt s sp ep pr WHITE_QUEEN_SIDE_CASTLE_ALG (mkPiece White King) (BOARD_END - 1, BOARD_START) (BOARD_END - 1, BOARD_START + 3) with
  | Some s' => s'
  | None =>
  match castle_rook_pts zt s sp ep pr BLACK_KING_SIDE_CASTLE_ALG (mkPiece Black King) (BOARD_START, BOARD_END - 1) (BOARD_START, BOARD_END - 3) with
  | Some s' => s'
  | None =>
  match castle_rook_pts zt s sp ep pr BLACK_QUEEN_SIDE_CASTLE_ALG (mkPiece Black King) (BOARD_START, BOARD_START) (BOARD_START, BOARD_START + 3) with
  | Some s' => s'
  | None => s
  end end end end.

Lemma make_move_pts_stages s sp ep pr pc :
  get (board s) sp = Full pc ->
  make_move_pts zt s sp ep pr =
  Ok (swap_color zt (stage_castle (stage_promo (move_piece zt (stage_corners (stage_piece (unset_pawn_double_move zt s) pc sp ep) sp ep) sp ep) ep pr) sp ep pr)).
Proof. intros G. unfold make_move_pts. rewrite unset_pdm_board, G. reflexivity. Qed.

(* ---- fields of the helpers *)
Lemma pdm_take_away s c : pawn_double_move (take_away s c) = pawn_double_move s.
Proof. unfold take_away_castling_rights. destruct (right s c); reflexivity. Qed.
Lemma tm_take_away s c : to_move (take_away s c) = to_move s.
Proof. unfold take_away_castling_rights. destruct (right s c); reflexivity. Qed.
Lemma tm_unset s : to_move (unset_pawn_double_move zt s) = to_move s.
Proof. unfold unset_pawn_double_move. destruct (pawn_double_move s); reflexivity. Qed.
Lemma pdm_move_piece s a b : pawn_double_move (move_piece zt s a b) = pawn_double_move s.
Proof. unfold move_piece. destruct (get (board s) a); reflexivity. Qed.
Lemma tm_move_piece s a b : to_move (move_piece zt s a b) = to_move s.
Proof. unfold move_piece. destruct (get (board s) a); reflexivity. Qed.
Lemma kl_move_piece s a b col : king_location (move_piece zt s a b) col = king_location s col.
Proof. unfold move_piece. destruct (get (board s) a); destruct col; reflexivity. Qed.
Lemma board_move_piece s a b pc : get (board s) a = Full pc -> board (move_piece zt s a b) = set (set (board s) a Empty) b (Full pc).
Proof. intros G. unfold move_piece. rewrite G. reflexivity. Qed.

(* ---- the corner stage *)
Definition corner_hit (sp ep : point) (r : castling) : bool := point_eqb sp (rook_home r) || point_eqb ep (rook_home r).

Lemma corners_board s sp ep : board (stage_corners s sp ep) = board s.
Proof. unfold stage_corners. repeat match goal with |- context [if ?c then _ else _] => destruct c end; rewrite ?take_away_board; reflexivity. Qed.
Lemma corners_tm s sp ep : to_move (stage_corners s sp ep) = to_move s.
Proof. unfold stage_corners. repeat match goal with |- context [if ?c then _ else _] => destruct c end; rewrite ?tm_take_away; reflexivity. Qed.
Lemma corners_pdm s sp ep : pawn_double_move (stage_corners s sp ep) = pawn_double_move s.
Proof. unfold stage_corners. repeat match goal with |- context [if ?c then _ else _] => destruct c end; rewrite ?pdm_take_away; reflexivity. Qed.
Lemma corners_kl s sp ep col : king_location (stage_corners s sp ep) col = king_location s col.
Proof. unfold stage_corners. repeat match goal with |- context [if ?c then _ else _] => destruct c end; rewrite ?kl_take_away; reflexivity. Qed.
Lemma corners_right s sp ep r : right (stage_corners s sp ep) r = right s r && negb (corner_hit sp ep r).
Proof.
  unfold stage_corners, corner_hit.
  destruct (point_eqb sp (2, 2) || point_eqb ep (2, 2)) eqn:A, (point_eqb sp (2, 9) || point_eqb ep (2, 9)) eqn:B0,
    (point_eqb sp (9, 2) || point_eqb ep (9, 2)) eqn:C, (point_eqb sp (9, 9) || point_eqb ep (9, 9)) eqn:D;
    rewrite ?right_take_away; destruct r; cbn [rook_home castling_eqb negb]; rewrite ?A, ?B0, ?C, ?D; cbn [negb];
    rewrite ?andb_true_r, ?andb_false_r; reflexivity.
Qed.

(* ---- the castle stage and the promotion stage touch the board only *)
Lemma castle_fields s sp ep pr :
  to_move (stage_castle s sp ep pr) = to_move s /\ pawn_double_move (stage_castle s sp ep pr) = pawn_double_move s /\
  (forall col, king_location (stage_castle s sp ep pr) col = king_location s col) /\
  (forall r, right (stage_castle s sp ep pr) r = right s r).
Proof.
  unfold stage_castle, castle_rook_pts.
  repeat match goal with |- context [if ?c then _ else _] => destruct c end;
    repeat split; intros; rewrite ?tm_move_piece, ?pdm_move_piece, ?kl_move_piece, ?right_move_piece; reflexivity.
Qed.

Lemma promo_fields s ep pr :
  to_move (stage_promo s ep pr) = to_move s /\ pawn_double_move (stage_promo s ep pr) = pawn_double_move s /\
  (forall col, king_location (stage_promo s ep pr) col = king_location s col) /\
  (forall r, right (stage_promo s ep pr) r = right s r).
Proof. unfold stage_promo. destruct pr; repeat split; intros; try destruct col; try destruct r; reflexivity. Qed.

(* ---- the piece stage *)
Definition king_hit (pc : piece) (r : castling) : bool := kind_eqb (pkind pc) King && color_eqb (pcolor pc) (right_color r).
Definition ep_removal (s : BoardState) (pc : piece) (sp ep : point) : bool :=
  kind_eqb (pkind pc) Pawn && negb (snd sp =? snd ep) && square_eqb (get (board s) ep) Empty.

Lemma piece_tm s pc sp ep : to_move (stage_piece s pc sp ep) = to_move s.
Proof.
  unfold stage_piece. destruct (pkind pc); try reflexivity.
  - destruct (Z.abs (fst sp - fst ep) =? 2); cbn zeta; match goal with |- context [if ?c then _ else _] => destruct c end; reflexivity.
  - destruct (pcolor pc); rewrite !tm_take_away; reflexivity.
Qed.

Lemma piece_right s pc sp ep r : right (stage_piece s pc sp ep) r = right s r && negb (king_hit pc r).
Proof.
  unfold stage_piece, king_hit. destruct (pkind pc); cbn [kind_eqb andb negb]; rewrite ?andb_true_r; try reflexivity.
  - destruct (Z.abs (fst sp - fst ep) =? 2); cbn zeta; match goal with |- context [if ?c then _ else _] => destruct c end;
      rewrite ?right_kx, ?right_with_board, ?right_with_pdm, ?right_kx; reflexivity.
  - destruct (pcolor pc); rewrite !right_take_away; destruct r; cbn [right_color color_eqb castling_eqb negb right with_wk with_bk wks wqs bks bqs];
      rewrite ?andb_true_r, ?andb_false_r; reflexivity.
Qed.

Lemma piece_kl s pc sp ep col :
  king_location (stage_piece s pc sp ep) col = if kind_eqb (pkind pc) King && color_eqb (pcolor pc) col then ep else king_location s col.
Proof.
  unfold stage_piece. destruct (pkind pc); cbn [kind_eqb andb]; try reflexivity.
  - destruct (Z.abs (fst sp - fst ep) =? 2); cbn zeta; match goal with |- context [if ?c then _ else _] => destruct c end; destruct col; reflexivity.
  - destruct (pcolor pc); rewrite !kl_take_away; destruct col; reflexivity.
Qed.

Lemma piece_pdm s pc sp ep :
  pawn_double_move (stage_piece s pc sp ep) =
  if kind_eqb (pkind pc) Pawn && (Z.abs (fst sp - fst ep) =? 2)
  then Some (match pcolor pc with White => (fst sp - 1, snd sp) | Black => (fst sp + 1, snd sp) end)
  else pawn_double_move s.
Proof.
  unfold stage_piece. destruct (pkind pc); cbn [kind_eqb andb]; try reflexivity.
  - destruct (Z.abs (fst sp - fst ep) =? 2); cbn zeta; match goal with |- context [if ?c then _ else _] => destruct c end; reflexivity.
  - destruct (pcolor pc); rewrite !pdm_take_away; reflexivity.
Qed.

Lemma piece_board s pc sp ep :
  board (stage_piece s pc sp ep) = if ep_removal s pc sp ep then set (board s) (fst sp, snd ep) Empty else board s.
Proof.
  unfold stage_piece, ep_removal. destruct (pkind pc); cbn [kind_eqb andb]; try reflexivity.
  - destruct (Z.abs (fst sp - fst ep) =? 2); cbn zeta; cbn [board kx with_key with_pdm];
      match goal with |- context [if ?c then _ else _] => destruct c end; reflexivity.
  - destruct (pcolor pc); rewrite !take_away_board; reflexivity.
Qed.

(* ---- the two ways of clearing castling rights agree *)
Lemma rights_agree s pc sp ep r :
  rights_home s -> kings_ok s -> get (board s) sp = Full pc ->
  (forall col, get (board s) ep <> Full (mkPiece col King)) ->
  right s r && negb (king_hit pc r) && negb (corner_hit sp ep r) =
  right s r && negb (clears_origin pc sp r) && negb (clears_target ep r).
Proof.
  intros RH KO G NK. destruct (right s r) eqn:R; [|reflexivity]. cbn [andb].
  rewrite <- !negb_orb. f_equal. rewrite (clears_iff_touches s pc sp ep r RH KO R G NK).
  destruct (rights_home_r s r RH R) as [GK GR]. destruct (KO (right_color r)) as [_ UK].
  assert (E2 : point_eqb ep (king_home r) = false).
  { destruct (point_eqb_spec ep (king_home r)) as [E|]; [|reflexivity]. exfalso. apply (NK (right_color r)). now rewrite E. }
  rewrite E2, orb_false_r. unfold corner_hit. rewrite <- !orb_assoc. f_equal.
  unfold king_hit. destruct (point_eqb_spec sp (king_home r)) as [E|NE].
  - rewrite E, GK in G. injection G as <-. cbn [pkind pcolor kind_eqb andb]. apply color_eqb_refl.
  - destruct (kind_eqb_spec (pkind pc) King) as [PK|]; [|reflexivity]. cbn [andb].
    destruct (color_eqb_spec (pcolor pc) (right_color r)) as [PC|]; [|reflexivity]. exfalso. apply NE.
    assert (Epc : pc = mkPiece (right_color r) King) by (rewrite (piece_eta pc), PK, PC; reflexivity).
    rewrite (UK sp ltac:(now rewrite G, Epc)). symmetry. apply UK. exact GK.
Qed.

Lemma tm_swap s : to_move (swap_color zt s) = opposite (to_move s). Proof. reflexivity. Qed.
Lemma board_swap s : board (swap_color zt s) = board s. Proof. reflexivity. Qed.
Lemma pdm_swap s : pawn_double_move (swap_color zt s) = pawn_double_move s. Proof. reflexivity. Qed.
Lemma kl_swap s col : king_location (swap_color zt s) col = king_location s col. Proof. destruct col; reflexivity. Qed.

(* castling texts are king moves of two files: nothing else triggers the rook step *)
Lemma no_castle_step s sp ep pr :
  (forall col, get (board s) ep = Full (mkPiece col King) -> Z.abs (snd sp - snd ep) <= 1) ->
  stage_castle s sp ep pr = s.
Proof.
  intros H. unfold stage_castle, castle_rook_pts.
  assert (F : forall alg col, Z.abs (snd (fst alg) - snd (snd alg)) = 2 ->
                mv2_eqb (sp, ep) alg && is_none pr && sq_is (get (board s) ep) (mkPiece col King) = false).
  { intros alg col Ha. destruct (mv2_eqb (sp, ep) alg) eqn:E; [|reflexivity]. cbn [andb].
    destruct (is_none pr); [|reflexivity]. cbn [andb].
    destruct (sq_is (get (board s) ep) (mkPiece col King)) eqn:Q; [|reflexivity]. exfalso.
    apply sq_is_true in Q. specialize (H col Q).
    unfold mv2_eqb in E. apply andb_true_iff in E. destruct E as [E1 E2]. cbn [fst snd] in E1, E2.
    apply (reflect_iff _ _ (point_eqb_spec _ _)) in E1, E2.
    assert (T : Z.abs (snd sp - snd ep) = 2) by (rewrite E1, E2; exact Ha). lia. }
  rewrite !F by (vm_compute; reflexivity). reflexivity.
Qed.

(* ---- the key through the stages *)
Notation key_ok := (HashProofs.key_ok zt).

Lemma corners_key_ok s sp ep : key_ok s -> key_ok (stage_corners s sp ep).
Proof.
  intros H. unfold stage_corners.
  repeat match goal with |- context [if ?c then _ else _] => destruct c end; repeat apply take_away_key_ok; exact H.
Qed.

Lemma piece_key_ok s pc sp ep :
  key_ok s -> pawn_double_move s = None -> ep_removal s pc sp ep = false -> key_ok (stage_piece s pc sp ep).
Proof.
  intros H P NR. unfold stage_piece, ep_removal in *. destruct (pkind pc) eqn:PK; cbn [kind_eqb andb] in NR; try exact H.
  - destruct (Z.abs (fst sp - fst ep) =? 2); cbn zeta.
    + change (board (with_pdm (kx s (z_ep zt (snd (match pcolor pc with White => (fst sp - 1, snd sp) | Black => (fst sp + 1, snd sp) end)))) _)) with (board s).
      rewrite NR. exact (set_pdm_key_ok zt s _ H P).
    + rewrite NR. exact H.
  - destruct (pcolor pc); apply take2_key_ok; exact H.
Qed.

Lemma piece_key_ok_ep s pc sp ep :
  key_ok s -> length (board s) = 144%nat -> is_inner (fst sp, snd ep) = true ->
  pkind pc = Pawn -> Z.abs (fst sp - fst ep) <> 2 -> ep_removal s pc sp ep = true ->
  get (board s) (fst sp, snd ep) = Full (mkPiece (opposite (to_move s)) Pawn) ->
  key_ok (stage_piece s pc sp ep).
Proof.
  intros H L Hv PK D2 R Gv. unfold stage_piece, ep_removal in *. rewrite PK in *. cbn [kind_eqb andb] in R.
  destruct (Z.eqb_spec (Z.abs (fst sp - fst ep)) 2); [contradiction|]. cbn zeta. rewrite R.
  pose proof (key_ok_set zt s (fst sp, snd ep) Empty H L Hv) as K. rewrite Gv in K. cbn [zterm] in K.
  eapply key_ok_same_key; [exact K| |reflexivity].
  unfold kx. cbn [zobrist_key with_key with_board]. now rewrite N.lxor_0_r.
Qed.

Lemma promo_key_ok s ep pr :
  key_ok s -> length (board s) = 144%nat -> is_inner ep = true ->
  (pr <> None -> get (board s) ep = Full (mkPiece (to_move s) Pawn)) -> key_ok (stage_promo s ep pr).
Proof.
  intros H L He G. unfold stage_promo. destruct pr as [k|]; [|exact H].
  pose proof (key_ok_set zt s ep (Full (mkPiece (to_move s) k)) H L He) as K. rewrite (G ltac:(discriminate)) in K. cbn [zterm] in K.
  eapply key_ok_same_key; [exact K| |reflexivity].
  unfold kx. cbn [zobrist_key with_key with_board]. now rewrite N.lxor_assoc.
Qed.

Lemma castle_key_ok s sp ep pr : key_ok s -> length (board s) = 144%nat -> key_ok (stage_castle s sp ep pr).
Proof.
  intros H L. unfold stage_castle, castle_rook_pts.
  repeat match goal with |- context [if ?c then _ else _] => destruct c end; try exact H;
    apply (move_piece_key_ok zt _ _ _ H L); reflexivity.
Qed.

(* ---- ordinary moves and promotions *)
Lemma mm_ordinary s pc sp ep pr :
  ordinary_hyps s pc sp ep ->
  (pr = None \/ pkind pc = Pawn) -> (forall k, pr = Some k -> k <> King) ->
  exists y, make_move_pts zt s sp ep pr = Ok y /\
    board y = (match pr with
               | Some k => set (set (set (board s) sp Empty) ep (Full pc)) ep (Full (mkPiece (to_move s) k))
               | None => set (set (board s) sp Empty) ep (Full pc) end) /\
    to_move y = opposite (to_move s) /\
    pawn_double_move y = pawn_double_move (finalise zt (moved_pre zt s pc sp ep) pc sp ep) /\
    (forall col, king_location y col = king_location (finalise zt (moved_pre zt s pc sp ep) pc sp ep) col) /\
    (forall r, right y r = right (finalise zt (moved_pre zt s pc sp ep) pc sp ep) r).
Proof.
  intros (OK & KO & RH & G & Hs & Hm & Hne & NK & PD & PCap & KS) Hpr Hk.
  assert (OK' := OK). destruct OK' as (L & Ring & Inner).
  rewrite (make_move_pts_stages s sp ep pr pc G). eexists. split; [reflexivity|].
  set (s1 := unset_pawn_double_move zt s).
  assert (B1 : board s1 = board s) by apply unset_pdm_board.
  assert (NoRem : ep_removal s1 pc sp ep = false).
  { unfold ep_removal. rewrite B1. destruct (kind_eqb_spec (pkind pc) Pawn) as [PK|]; [|reflexivity]. cbn [andb].
    destruct (Z.eqb_spec (snd sp) (snd ep)) as [|NE]; [reflexivity|]. cbn [negb andb].
    specialize (PCap PK NE). destruct (get (board s) ep); [contradiction|reflexivity|reflexivity]. }
  set (s2 := stage_piece s1 pc sp ep). set (s3 := stage_corners s2 sp ep). set (s4 := move_piece zt s3 sp ep).
  assert (B3 : board s3 = board s) by (unfold s3, s2; rewrite corners_board, piece_board, NoRem; exact B1).
  assert (B4 : board s4 = set (set (board s) sp Empty) ep (Full pc)).
  { unfold s4. rewrite (board_move_piece s3 sp ep pc) by (now rewrite B3). now rewrite B3. }
  assert (T4 : to_move s4 = to_move s).
  { unfold s4, s3, s2. rewrite tm_move_piece, corners_tm, piece_tm. apply tm_unset. }
  set (s5 := stage_promo s4 ep pr).
  destruct (promo_fields s4 ep pr) as (T5 & P5 & K5 & R5). fold s5 in T5, P5, K5, R5.
  assert (B5 : board s5 = match pr with Some k => set (board s4) ep (Full (mkPiece (to_move s) k)) | None => board s4 end).
  { unfold s5, stage_promo. destruct pr; [|reflexivity]. cbn [board with_board]. now rewrite T4. }
  (* no rook step: the piece now on the target is the mover, and a king steps one file at most *)
  assert (NC : stage_castle s5 sp ep pr = s5).
  { apply no_castle_step. intros col Q. rewrite B5 in Q.
    assert (Pc : pkind pc = King).
    { destruct pr as [k|].
      - destruct Hpr as [|PK]; [discriminate|]. rewrite B4 in Q. rewrite get_set_same in Q by (try (now apply is_inner_in_grid); now rewrite !set_length).
        exfalso. apply (Hk k eq_refl). congruence.
      - rewrite B4, get_set_same in Q by (try (now apply is_inner_in_grid); now rewrite set_length). injection Q as ->. reflexivity. }
    exact (KS Pc). }
  rewrite NC.
  split; [rewrite board_swap, B5, B4; destruct pr; reflexivity|].
  split; [rewrite tm_swap, T5; now rewrite T4|].
  split.
  { rewrite pdm_swap, P5. unfold s4, s3, s2. rewrite pdm_move_piece, corners_pdm, piece_pdm, pdm_finalise.
    assert (KE : is_pawn_kind (pkind pc) = kind_eqb (pkind pc) Pawn) by (destruct (pkind pc); reflexivity). rewrite KE.
    destruct (kind_eqb_spec (pkind pc) Pawn) as [PK|]; cbn [andb]; [|apply unset_pdm_none].
    destruct (Z.eqb_spec (Z.abs (fst sp - fst ep)) 2) as [D2|]; [|apply unset_pdm_none].
    destruct (PD PK D2) as (SF & HW & HB). f_equal. destruct (pcolor pc); [specialize (HW eq_refl)|specialize (HB eq_refl)]; f_equal; lia. }
  split.
  { intros col. rewrite kl_swap, K5. unfold s4, s3, s2. rewrite kl_move_piece, corners_kl, piece_kl, king_location_finalise, king_location_moved_pre.
    unfold s1. now rewrite kl_unset_pdm. }
  intros r. rewrite right_swap_color, R5. unfold s4, s3, s2. rewrite right_move_piece, corners_right, piece_right, right_finalise, right_moved_pre.
  unfold s1. rewrite right_unset_pdm. apply rights_agree; auto.
Qed.

(* ---- en passant *)
Lemma mm_en_passant s pc row col dm :
  cells_ok (board s) -> ep_ok_model s -> get (board s) (row, col) = Full pc -> is_inner (row, col) = true ->
  pcolor pc = to_move s -> pkind pc = Pawn -> pawn_double_move s = Some dm ->
  pawn_moves_en_passant pc (row, col) s = Some dm ->
  exists y, make_move_pts zt s (row, col) dm None = Ok y /\ same_pos y (ep_pre zt s pc (row, col) dm).
Proof.
  intros OK EP G Hs PC PK D E. assert (OK' := OK). destruct OK' as (L & Ring & Inner).
  destruct (EP dm D) as (Hm & Gt & Hv & Gv). rewrite <- PC in Hv, Gv.
  apply ep_geometry in E. destruct E as (_ & Rw & Tg).
  set (v := match pcolor pc with White => (fst dm + 1, snd dm) | Black => (fst dm - 1, snd dm) end) in *.
  assert (Ev : v = (row, snd dm)).
  { unfold v. destruct Tg as [-> | ->]; destruct (pcolor pc); cbn [fst snd mfw]; f_equal; lia. }
  assert (Ncol : snd dm <> col) by (destruct Tg as [-> | ->]; cbn [snd]; lia).
  assert (Nrow : fst dm <> row) by (destruct Tg as [-> | ->]; destruct (pcolor pc); cbn [fst mfw]; lia).
  rewrite (make_move_pts_stages s (row, col) dm None pc G). eexists. split; [reflexivity|].
  set (s1 := unset_pawn_double_move zt s).
  assert (B1 : board s1 = board s) by apply unset_pdm_board.
  assert (Rem : ep_removal s1 pc (row, col) dm = true).
  { unfold ep_removal. rewrite B1, PK, Gt. cbn [kind_eqb andb fst snd square_eqb].
    destruct (Z.eqb_spec col (snd dm)); [lia|reflexivity]. }
  set (s2 := stage_piece s1 pc (row, col) dm). set (s3 := stage_corners s2 (row, col) dm). set (s4 := move_piece zt s3 (row, col) dm).
  assert (B3 : board s3 = set (board s) v Empty).
  { unfold s3, s2. rewrite corners_board, piece_board, Rem, B1. cbn [fst snd]. now rewrite Ev. }
  assert (Gs3 : get (board s3) (row, col) = Full pc).
  { rewrite B3, get_set_other; [exact G|]. rewrite Ev. intros X. inversion X. lia. }
  assert (B4 : board s4 = set (set (set (board s) v Empty) (row, col) Empty) dm (Full pc)).
  { unfold s4. rewrite (board_move_piece s3 (row, col) dm pc Gs3). now rewrite B3. }
  assert (NC : stage_castle (stage_promo s4 dm None) (row, col) dm None = s4).
  { cbn [stage_promo]. apply no_castle_step. intros c0 Q. rewrite B4, get_set_same in Q by (try (now apply is_inner_in_grid); now rewrite !set_length).
    injection Q as Q. rewrite Q in PK. discriminate. }
  rewrite NC.
  pose proof (is_inner_in_grid _ Hs) as Gs. pose proof (is_inner_in_grid _ Hm) as Gm. pose proof (is_inner_in_grid _ Hv) as Gvv.
  split.
  { rewrite board_swap, B4, (ep_pre_cells zt s pc (row, col) dm G). fold v.
    (* the same three squares are written, in another order *)
    assert (N1 : v <> (row, col)) by (rewrite Ev; intros X; inversion X; lia).
    assert (N2 : v <> dm) by (rewrite Ev; intros X; apply Nrow; rewrite <- X; reflexivity).
    rewrite (set_comm (board s) (row, col) v Empty Empty) by auto.
    rewrite (set_comm (set (board s) (row, col) Empty) dm v (Full pc) Empty) by auto. reflexivity. }
  split; [rewrite tm_swap; unfold s4, s3, s2; rewrite tm_move_piece, corners_tm, piece_tm, to_move_ep_pre; apply f_equal, tm_unset|].
  split.
  { rewrite pdm_swap. unfold s4, s3, s2. rewrite pdm_move_piece, corners_pdm, piece_pdm, pdm_ep_pre, PK. cbn [kind_eqb andb fst].
    destruct (Z.eqb_spec (Z.abs (row - fst dm)) 2) as [D2|]; [|apply unset_pdm_none].
    exfalso. destruct Tg as [-> | ->]; destruct (pcolor pc); cbn [fst mfw] in D2; lia. }
  split.
  { intros c0. rewrite kl_swap. unfold s4, s3, s2. rewrite kl_move_piece, corners_kl, piece_kl, king_location_ep_pre, PK. cbn [kind_eqb andb].
    apply kl_unset_pdm. }
  intros r. rewrite right_swap_color. unfold s4, s3, s2. rewrite right_move_piece, corners_right, piece_right, right_ep_pre.
  unfold s1. rewrite right_unset_pdm. unfold king_hit. rewrite PK. cbn [kind_eqb andb negb]. rewrite andb_true_r.
  assert (CH : corner_hit (row, col) dm r = false).
  { unfold corner_hit. apply orb_false_iff. split.
    - destruct (point_eqb_spec (row, col) (rook_home r)) as [X|]; [|reflexivity]. exfalso.
      destruct r; cbn [rook_home] in X; inversion X; destruct (pcolor pc); cbn [ep_row] in Rw; unfold EP_ROW_WHITE, EP_ROW_BLACK in Rw; lia.
    - destruct (point_eqb_spec dm (rook_home r)) as [X|]; [|reflexivity]. exfalso.
      rewrite X in Nrow, Tg. destruct Tg as [T|T]; destruct r; cbn [rook_home] in T; inversion T;
        destruct (pcolor pc); cbn [ep_row mfw] in *; unfold EP_ROW_WHITE, EP_ROW_BLACK in Rw; lia. }
  rewrite CH. cbn [negb]. now rewrite andb_true_r.
Qed.

(* ---- castling *)
Lemma mm_castling s c r1 r2 kc rf rt :
  cells_ok (board s) ->
  let r0 := match c with White => 9 | Black => 2 end in
  king_location s c = (r0, 6) ->
  get (board s) (r0, 6) = Full (mkPiece c King) -> get (board s) (r0, rf) = Full (mkPiece c Rook) ->
  castle_side kc rf rt ->
  (match c with White => r1 = WKS /\ r2 = WQS | Black => r1 = BKS /\ r2 = BQS end) ->
  forall alg,
  exists y, make_move_pts zt s (r0, 6) (r0, kc) None = Ok y /\
            same_pos y (castle_successor zt s c r1 r2 (r0, kc) alg (r0, rf) (r0, rt)).
Proof.
  intros OK r0 KL GK GR Side Rts alg. assert (OK' := OK). destruct OK' as (L & Ring & Inner).
  assert (Ir : r0 = 9 \/ r0 = 2) by (unfold r0; destruct c; auto).
  destruct (castle_successor_cells zt s c r1 r2 kc rf rt alg KL GK GR ltac:(unfold castle_side in Side; lia) ltac:(unfold castle_side in Side; lia)) as (Bx & K1 & K2).
  fold r0 in Bx, K1, K2.
  rewrite (make_move_pts_stages s (r0, 6) (r0, kc) None (mkPiece c King) GK). eexists. split; [reflexivity|].
  set (s1 := unset_pawn_double_move zt s).
  assert (B1 : board s1 = board s) by apply unset_pdm_board.
  set (s2 := stage_piece s1 (mkPiece c King) (r0, 6) (r0, kc)). set (s3 := stage_corners s2 (r0, 6) (r0, kc)).
  set (s4 := move_piece zt s3 (r0, 6) (r0, kc)).
  assert (B3 : board s3 = board s).
  { unfold s3, s2. rewrite corners_board, piece_board. unfold ep_removal. cbn [pkind kind_eqb andb]. exact B1. }
  assert (B4 : board s4 = set (set (board s) (r0, 6) Empty) (r0, kc) (Full (mkPiece c King))).
  { unfold s4. rewrite (board_move_piece s3 (r0, 6) (r0, kc) (mkPiece c King)) by (now rewrite B3). now rewrite B3. }
  assert (I2 : in_grid (r0, kc) = true) by (apply is_inner_in_grid, is_inner_spec; cbn [fst snd]; unfold castle_side in Side; lia).
  assert (G4k : get (board s4) (r0, kc) = Full (mkPiece c King)) by (rewrite B4; apply get_set_same; [exact I2|now rewrite set_length]).
  assert (G4r : get (board s4) (r0, rf) = Full (mkPiece c Rook)).
  { rewrite B4, !get_set_other; [exact GR| |]; intros X; inversion X; unfold castle_side in Side; lia. }
  (* the rook step that fires is the one of this colour and wing *)
  assert (SC : stage_castle (stage_promo s4 (r0, kc) None) (r0, 6) (r0, kc) None = move_piece zt s4 (r0, rf) (r0, rt)).
  { cbn [stage_promo]. unfold stage_castle, castle_rook_pts. unfold r0 in *. unfold castle_side in Side.
    destruct c; destruct Side as [(-> & -> & ->)|(-> & -> & ->)]; rewrite G4k; reflexivity. }
  rewrite SC.
  split.
  { rewrite board_swap, (board_move_piece s4 (r0, rf) (r0, rt) (mkPiece c Rook) G4r), B4, Bx. reflexivity. }
  split.
  { rewrite tm_swap, tm_move_piece. unfold s4, s3, s2. rewrite tm_move_piece, corners_tm, piece_tm, to_move_castle_successor. apply f_equal, tm_unset. }
  split.
  { rewrite pdm_swap, pdm_move_piece. unfold s4, s3, s2. rewrite pdm_move_piece, corners_pdm, piece_pdm, pdm_castle_successor.
    cbn [pkind kind_eqb andb]. apply unset_pdm_none. }
  split.
  { intros c0. rewrite kl_swap, kl_move_piece. unfold s4, s3, s2. rewrite kl_move_piece, corners_kl, piece_kl. cbn [pkind pcolor kind_eqb andb].
    destruct (color_eqb_spec c c0) as [<-|NE]; [now rewrite K1|].
    assert (c0 = opposite c) by (destruct c, c0; try reflexivity; congruence). subst c0. rewrite K2. apply kl_unset_pdm. }
  intros r. rewrite right_swap_color, right_move_piece. unfold s4, s3, s2.
  rewrite right_move_piece, corners_right, piece_right, right_castle_successor. unfold s1. rewrite right_unset_pdm.
  assert (CH : corner_hit (r0, 6) (r0, kc) r = false).
  { unfold corner_hit. apply orb_false_iff. unfold castle_side in Side.
    split; match goal with |- point_eqb ?a ?b = false => destruct (point_eqb_spec a b) as [X|]; [|reflexivity] end;
      exfalso; destruct r; cbn [rook_home] in X; inversion X; lia. }
  rewrite CH. cbn [negb]. rewrite andb_true_r. unfold king_hit. cbn [pkind pcolor kind_eqb andb].
  destruct c; destruct Rts as [-> ->]; destruct r; cbn [right_color color_eqb castling_eqb negb]; rewrite ?andb_true_r, ?andb_false_r; reflexivity.
Qed.

(* ---- the key after make_move *)
Lemma pts_key_ok s sp ep pr pc y :
  key_ok s -> length (board s) = 144%nat -> is_inner sp = true -> is_inner ep = true -> get (board s) sp = Full pc ->
  (ep_removal (unset_pawn_double_move zt s) pc sp ep = false \/
   (ep_removal (unset_pawn_double_move zt s) pc sp ep = true /\ pkind pc = Pawn /\ Z.abs (fst sp - fst ep) <> 2 /\
    is_inner (fst sp, snd ep) = true /\ get (board s) (fst sp, snd ep) = Full (mkPiece (opposite (to_move s)) Pawn))) ->
  (pr <> None -> pc = mkPiece (to_move s) Pawn) ->
  make_move_pts zt s sp ep pr = Ok y -> key_ok y.
Proof.
  intros H L Hs He G Hrem Hpr Hy. rewrite (make_move_pts_stages s sp ep pr pc G) in Hy. injection Hy as <-.
  set (s1 := unset_pawn_double_move zt s) in *.
  assert (K1 : key_ok s1) by (apply unset_pdm_key_ok; exact H).
  assert (P1 : pawn_double_move s1 = None) by apply unset_pdm_none.
  assert (B1 : board s1 = board s) by apply unset_pdm_board.
  assert (T1 : to_move s1 = to_move s) by apply tm_unset.
  set (s2 := stage_piece s1 pc sp ep).
  assert (K2 : key_ok s2).
  { destruct Hrem as [NR|(R & PK & D2 & Hv & Gv)].
    - now apply piece_key_ok.
    - apply piece_key_ok_ep; auto; [now rewrite B1|now rewrite B1, T1]. }
  assert (G2 : get (board s2) sp = Full pc /\ length (board s2) = 144%nat).
  { unfold s2. rewrite piece_board. destruct (ep_removal s1 pc sp ep) eqn:R; rewrite B1; [|auto].
    split; [|now rewrite set_length]. rewrite get_set_other; [exact G|].
    unfold ep_removal in R. apply andb_true_iff in R. destruct R as [R _]. apply andb_true_iff in R. destruct R as [_ R].
    apply negb_true_iff, Z.eqb_neq in R. intros X. apply R. destruct sp as [a b0]. cbn [fst snd] in *. congruence. }
  destruct G2 as [G2 L2].
  set (s3 := stage_corners s2 sp ep).
  assert (K3 : key_ok s3) by (now apply corners_key_ok).
  assert (B3 : board s3 = board s2) by apply corners_board.
  destruct (move_piece_key_ok zt s3 sp ep K3 ltac:(now rewrite B3) Hs He) as [K4 L4].
  set (s4 := move_piece zt s3 sp ep) in *.
  assert (B4 : board s4 = set (set (board s2) sp Empty) ep (Full pc)).
  { unfold s4. rewrite (board_move_piece s3 sp ep pc) by (now rewrite B3). now rewrite B3. }
  assert (T4 : to_move s4 = to_move s).
  { unfold s4, s3, s2. rewrite tm_move_piece, corners_tm, piece_tm. exact T1. }
  assert (K5 : key_ok (stage_promo s4 ep pr)).
  { apply promo_key_ok; auto. intros NP. rewrite B4, get_set_same; [|now apply is_inner_in_grid|now rewrite set_length].
    now rewrite T4, <- (Hpr NP). }
  assert (L5 : length (board (stage_promo s4 ep pr)) = 144%nat).
  { unfold stage_promo. destruct pr; [cbn [board with_board]; now rewrite set_length|exact L4]. }
  apply swap_color_key_ok. now apply castle_key_ok.
Qed.

(* ---- the theorem: replaying the printed text of any generated move builds the generator's position *)
Lemma in_promos k : In k PROMOTION_KINDS -> In (Some k) promos.
Proof. unfold PROMOTION_KINDS, promos. cbn. intuition (subst; auto). Qed.

Lemma promote_pawn_view2 nb c a b0 x :
  In x (promote_pawn zt nb c a b0) ->
  exists k, In k PROMOTION_KINDS /\ board x = set (board nb) b0 (Full (mkPiece c k)) /\
            (forall col, king_location x col = king_location nb col) /\ (forall r, right x r = right nb r) /\
            pawn_double_move x = None /\ to_move x = to_move nb /\
            last_move x = Some (a, b0) /\ pawn_promotion x = Some (mkPiece c k).
Proof.
  unfold promote_pawn. intros H. apply in_map_iff in H. destruct H as [k [<- Hk]]. exists k. split; [exact Hk|].
  cbn [kx with_key with_oh with_promo with_last with_board board pawn_double_move to_move last_move pawn_promotion].
  rewrite unset_pdm_board. split; [reflexivity|]. split.
  - intros col. rewrite <- (kl_unset_pdm zt nb col). destruct col; reflexivity.
  - split; [intros r; rewrite <- (right_unset_pdm zt nb r); destruct r; reflexivity|].
    split; [apply unset_pdm_none|]. split; [|split; reflexivity].
    unfold unset_pawn_double_move. destruct (pawn_double_move nb); reflexivity.
Qed.

Theorem replay_builds_generated_position s x :
  pos_ok1 s -> In x (generate_moves zt s AllMoves) ->
  exists txt y, best_move_text x = Ok txt /\ make_move zt s txt = Ok y /\ same_pos y x.
Proof.
  intros PO1 Hx. assert (PO := proj1 PO1). assert (PO' := PO). destruct PO' as (OK & KO & RH & EP & NK).
  assert (OK' := OK). destruct OK' as (L & Ring & Inner).
  destruct (generate_moves_view zt s x KO RH Hx) as [V|[V|V]].
  - destruct V as (p & pc & mov & Hp & G & PC & Hmov & Chk & Shape).
    destruct (ordinary_hyps_of_pos_ok s AllMoves pc p mov PO Hp G PC Hmov) as [OH Prow].
    assert (OH' := OH). destruct OH' as (_ & _ & _ & _ & _ & Hm & _ & _ & _ & _ & _).
    pose proof (inner_in_points p Hp) as Ip. pose proof (inner_in_points mov Hm) as Im.
    assert (MB : moved_board zt s pc p mov = Some (moved_pre zt s pc p mov)) by (apply moved_board_some; auto).
    destruct (moved_board_fields zt _ _ _ _ _ MB) as [ML MP].
    set (fin := finalise zt (moved_pre zt s pc p mov) pc p mov) in *.
    destruct (finalise_fields zt (moved_pre zt s pc p mov) pc p mov) as [FL FP]. fold fin in FL, FP. rewrite ML in FL. rewrite MP in FP.
    assert (Bf : board fin = set (set (board s) p Empty) mov (Full pc)).
    { unfold fin. rewrite finalise_board. apply (moved_pre_cells zt s pc p mov G). }
    assert (Tf : to_move fin = opposite (to_move s)) by (unfold fin; rewrite to_move_finalise; apply to_move_moved_pre).
    destruct Shape as [->|(PK & Last & Hin)].
    + (* the plain successor *)
      destruct (mm_ordinary s pc p mov None OH (or_introl eq_refl) ltac:(intros; discriminate)) as (y & Hy & By & Ty & Py & Ky & Ry).
      exists (move_text p mov None), y. split; [unfold best_move_text, move_text, promo_text; rewrite FL, FP, app_nil_r; reflexivity|].
      split; [rewrite make_move_text; auto; left; reflexivity|].
      split; [now rewrite By, Bf|]. split; [now rewrite Ty, Tf|]. auto.
    + (* a promotion *)
      destruct (promote_pawn_view2 fin (pcolor pc) p mov x Hin) as (k & Hk & Bx & Kx & Rx & Px & Tx & Lx & PPx).
      assert (NKk : k <> King) by (intros ->; revert Hk; vm_compute; intuition discriminate).
      destruct (mm_ordinary s pc p mov (Some k) OH (or_intror PK) ltac:(intros k0 E; injection E as <-; exact NKk)) as (y & Hy & By & Ty & Py & Ky & Ry).
      exists (move_text p mov (Some k)), y.
      split; [unfold best_move_text, move_text, promo_text; rewrite Lx, PPx; reflexivity|].
      split; [rewrite make_move_text; auto; now apply in_promos|].
      split; [rewrite By, Bx, Bf, PC; reflexivity|]. split; [now rewrite Ty, Tx, Tf|].
      split.
      { rewrite Py, Px. unfold fin. rewrite pdm_finalise.
        destruct (Z.eqb_spec (Z.abs (fst p - fst mov)) 2) as [D2|]; [exfalso; now apply (Prow PK Last)|]. now rewrite andb_false_r. }
      split; [intros col; now rewrite Ky, Kx|intros r; now rewrite Ry, Rx].
  - destruct V as (p & pc & dm & Hp & G & PC & PK & D & E & ->).
    destruct (EP dm D) as (Hm & _).
    destruct (ep_pre_abs zt s pc p dm dm OK EP G Hp PC D PK E) as (_ & HL & HP & _).
    destruct p as [row col].
    destruct (mm_en_passant s pc row col dm OK EP G Hp PC PK D E) as (y & Hy & SP).
    exists (move_text (row, col) dm None), y.
    split; [unfold best_move_text, move_text, promo_text; rewrite HL, HP, app_nil_r; reflexivity|].
    split; [rewrite make_move_text; auto using inner_in_points; left; reflexivity|exact SP].
  - destruct V as (c & r1 & r2 & kc & rf & rt & alg & V). cbv zeta in V.
    destruct V as (TM & Side & Rts & KL & GK & GR & EK & ER & Ealg & ->).
    set (r0 := match c with White => 9 | Black => 2 end) in *.
    assert (Ir : r0 = 9 \/ r0 = 2) by (unfold r0; destruct c; auto).
    assert (I1 : is_inner (r0, 6) = true) by (apply is_inner_spec; cbn [fst snd]; lia).
    assert (I2 : is_inner (r0, kc) = true) by (apply is_inner_spec; cbn [fst snd]; unfold castle_side in Side; lia).
    destruct (mm_castling s c r1 r2 kc rf rt OK KL GK GR Side Rts alg) as (y & Hy & SP). fold r0 in Hy, SP.
    destruct (castle_successor_desc zt s c r1 r2 (r0, kc) alg (r0, rf) (r0, rt)) as [HL HP].
    exists (move_text (r0, 6) (r0, kc) None), y.
    split; [unfold best_move_text, move_text, promo_text; rewrite HL, HP, Ealg, app_nil_r; reflexivity|].
    split; [rewrite make_move_text; auto using inner_in_points; left; reflexivity|exact SP].
Qed.

(* the same replay keeps key = from-scratch hash (C05 for the text-move applier, on legal moves) *)
Theorem replay_key_ok s x txt y :
  pos_ok1 s -> key_ok s -> In x (generate_moves zt s AllMoves) ->
  best_move_text x = Ok txt -> make_move zt s txt = Ok y -> key_ok y.
Proof.
  intros PO1 KS Hx Ht Hy. assert (PO := proj1 PO1). assert (PO' := PO). destruct PO' as (OK & KO & RH & EP & NK).
  assert (OK' := OK). destruct OK' as (L & Ring & Inner).
  destruct (generate_moves_view zt s x KO RH Hx) as [V|[V|V]].
  - destruct V as (p & pc & mov & Hp & G & PC & Hmov & Chk & Shape).
    destruct (ordinary_hyps_of_pos_ok s AllMoves pc p mov PO Hp G PC Hmov) as [OH Prow].
    destruct OH as (_ & _ & _ & _ & _ & Hm & _ & _ & _ & PCap & _).
    pose proof (inner_in_points p Hp) as Ip. pose proof (inner_in_points mov Hm) as Im.
    assert (NoRem : ep_removal (unset_pawn_double_move zt s) pc p mov = false).
    { unfold ep_removal. rewrite unset_pdm_board. destruct (kind_eqb_spec (pkind pc) Pawn) as [PK|]; [|reflexivity]. cbn [andb].
      destruct (Z.eqb_spec (snd p) (snd mov)) as [|NE]; [reflexivity|]. cbn [negb andb].
      specialize (PCap PK NE). destruct (get (board s) mov); [contradiction|reflexivity|reflexivity]. }
    assert (MB : moved_board zt s pc p mov = Some (moved_pre zt s pc p mov)) by (apply moved_board_some; auto).
    destruct (moved_board_fields zt _ _ _ _ _ MB) as [ML MP].
    destruct (finalise_fields zt (moved_pre zt s pc p mov) pc p mov) as [FL FP]. rewrite ML in FL. rewrite MP in FP.
    destruct Shape as [->|(PK & Last & Hin)].
    + assert (Et : txt = move_text p mov None).
      { unfold best_move_text in Ht. rewrite FL, FP in Ht. injection Ht as <-. unfold move_text, promo_text. now rewrite app_nil_r. }
      subst txt. rewrite make_move_text in Hy by (auto; left; reflexivity).
      apply (pts_key_ok s p mov None pc y KS L Hp Hm G (or_introl NoRem)); [intros X; now contradiction X|exact Hy].
    + destruct (promote_pawn_view2 _ (pcolor pc) p mov x Hin) as (k & Hk & _ & _ & _ & _ & _ & Lx & PPx).
      assert (Et : txt = move_text p mov (Some k)).
      { unfold best_move_text in Ht. rewrite Lx, PPx in Ht. injection Ht as <-. reflexivity. }
      subst txt. rewrite make_move_text in Hy by (auto; now apply in_promos).
      apply (pts_key_ok s p mov (Some k) pc y KS L Hp Hm G (or_introl NoRem)); [|exact Hy].
      intros _. rewrite (piece_eta pc), PK, PC. reflexivity.
  - destruct V as (p & pc & dm & Hp & G & PC & PK & D & E & ->).
    destruct (EP dm D) as (Hm & Gt & Hv & Gv).
    destruct (ep_pre_abs zt s pc p dm dm OK EP G Hp PC D PK E) as (_ & HL & HP & _).
    assert (Et : txt = move_text p dm None).
    { unfold best_move_text in Ht. rewrite HL, HP in Ht. injection Ht as <-. unfold move_text, promo_text. now rewrite app_nil_r. }
    subst txt. rewrite make_move_text in Hy by (auto using inner_in_points; left; reflexivity).
    destruct p as [row col]. apply ep_geometry in E. destruct E as (_ & Rw & Tg).
    assert (Ev : (match to_move s with White => (fst dm + 1, snd dm) | Black => (fst dm - 1, snd dm) end) = (row, snd dm)).
    { rewrite <- PC. destruct Tg as [-> | ->]; destruct (pcolor pc); cbn [fst snd mfw]; f_equal; lia. }
    rewrite Ev in Hv, Gv.
    apply (pts_key_ok s (row, col) dm None pc y KS L Hp Hm G); [|intros X; now contradiction X|exact Hy].
    right. cbn [fst snd]. split.
    { unfold ep_removal. rewrite unset_pdm_board, PK, Gt. cbn [kind_eqb andb fst snd square_eqb].
      destruct (Z.eqb_spec col (snd dm)) as [X|]; [|reflexivity]. exfalso. destruct Tg as [T|T]; rewrite T in X; cbn [snd] in X; lia. }
    split; [exact PK|]. split; [destruct Tg as [-> | ->]; destruct (pcolor pc); cbn [fst mfw]; lia|]. split; [exact Hv|exact Gv].
  - destruct V as (c & r1 & r2 & kc & rf & rt & alg & V). cbv zeta in V.
    destruct V as (TM & Side & Rts & KL & GK & GR & EK & ER & Ealg & ->).
    set (r0 := match c with White => 9 | Black => 2 end) in *.
    assert (Ir : r0 = 9 \/ r0 = 2) by (unfold r0; destruct c; auto).
    assert (I1 : is_inner (r0, 6) = true) by (apply is_inner_spec; cbn [fst snd]; lia).
    assert (I2 : is_inner (r0, kc) = true) by (apply is_inner_spec; cbn [fst snd]; unfold castle_side in Side; lia).
    destruct (castle_successor_desc zt s c r1 r2 (r0, kc) alg (r0, rf) (r0, rt)) as [HL HP].
    assert (Et : txt = move_text (r0, 6) (r0, kc) None).
    { unfold best_move_text in Ht. rewrite HL, HP, Ealg in Ht. injection Ht as <-. unfold move_text, promo_text. now rewrite app_nil_r. }
    subst txt. rewrite make_move_text in Hy by (auto using inner_in_points; left; reflexivity).
    apply (pts_key_ok s (r0, 6) (r0, kc) None (mkPiece c King) y KS L I1 I2 GK); [left; reflexivity|intros X; now contradiction X|exact Hy].
Qed.


(* ---- the UCI text of a rules-level move, and whole move lists *)
Definition text_of_move (mv : move) : str := move_text (pt_of_sq (mfrom mv)) (pt_of_sq (mto mv)) (mpromo mv).

Lemma best_move_text_of_desc x mv txt : desc x = Some mv -> best_move_text x = Ok txt -> txt = text_of_move mv.
Proof.
  unfold desc, best_move_text, text_of_move, move_text, promo_text. destruct (last_move x) as [[a b]|]; [|discriminate].
  intros D T. injection D as <-. cbn [mfrom mto mpromo]. rewrite !pt_sq.
  destruct (pawn_promotion x) as [pp|]; injection T as <-; [reflexivity|now rewrite app_nil_r].
Qed.

Theorem replay_legal_move s mv :
  pos_ok1 s -> In mv (legal_moves (abs s)) ->
  exists y, make_move zt s (text_of_move mv) = Ok y /\ abs y = apply (abs s) mv /\ pos_ok1 y /\ (key_ok s -> key_ok y).
Proof.
  intros PO Hl. destruct (legal_moves_are_generated zt s mv PO Hl) as (x & Hx & Hd).
  destruct (replay_builds_generated_position s x PO Hx) as (txt & y & Ht & Hy & SP).
  pose proof (best_move_text_of_desc x mv txt Hd Ht) as ->.
  exists y. split; [exact Hy|].
  destruct (generate_moves_abs zt s AllMoves x (proj1 PO) Hx) as (mv' & Hd' & HA). assert (mv' = mv) by congruence. subst mv'.
  split; [rewrite (same_pos_abs y x SP); exact HA|].
  split; [apply (same_pos_pos_ok1 x y SP); exact (generator_preserves_pos_ok1 zt s x PO Hx)|].
  intros KS. exact (replay_key_ok s x _ y PO KS Hx Ht Hy).
Qed.

(* a list of moves, each legal in the position the previous ones lead to *)
Fixpoint legal_chain (p : position) (mvs : list move) : Prop :=
  match mvs with [] => True | m :: r => In m (legal_moves p) /\ legal_chain (apply p m) r end.

Theorem position_moves_chain mvs : forall s t,
  pos_ok1 s -> legal_chain (abs s) mvs ->
  exists s' t', play_moves zt s t (map text_of_move mvs) = Ok (s', t') /\
                abs s' = fold_left apply mvs (abs s) /\ pos_ok1 s' /\ (key_ok s -> key_ok s').
Proof.
  induction mvs as [|m r IH]; intros s t PO LC; cbn [map play_moves fold_left].
  - exists s, t. auto.
  - destruct LC as [Hl LC]. destruct (replay_legal_move s m PO Hl) as (y & Hy & HA & POy & Ky).
    rewrite Hy. cbn [res_bind]. rewrite <- HA in LC.
    destruct (IH y (dt_add t y) POy LC) as (s' & t' & Hp & HA' & PO' & K'). exists s', t'.
    split; [exact Hp|]. split; [now rewrite HA', HA|]. split; [exact PO'|]. intros KS. exact (K' (Ky KS)).
Qed.

End S.
