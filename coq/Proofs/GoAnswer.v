(* C03, end to end on the model: the move printed after "bestmove" is the UCI text of a legal move of the current
   position, and the session continues from the position the rules give for it - so chains of go commands stay legal. *)
From Walleye Require Import Model.Uci Spec.Abs Proofs.RootProofs Proofs.SessionProofs Proofs.GenerateAbs Proofs.LegalMoves
  Proofs.Preservation Proofs.MakeMove Proofs.MakeMoveSame.
Open Scope Z_scope.

Lemma same_move_same_pos a b : same_move a b -> same_pos a b /\ desc a = desc b /\ best_move_text a = best_move_text b.
Proof.
  unfold same_move. intros H.
  assert (F : forall (T : Type) (f : BoardState -> T), (forall x, f (with_oh x 0) = f x) -> f a = f b) by (intros T f Hf; rewrite <- (Hf a), <- (Hf b), H; reflexivity).
  split; [|split].
  - unfold same_pos. split; [apply (F _ board); reflexivity|]. split; [apply (F _ to_move); reflexivity|].
    split; [apply (F _ pawn_double_move); reflexivity|]. split.
    + intros col. apply (F _ (fun x => king_location x col)). intros x; destruct col; reflexivity.
    + intros r. apply (F _ (fun x => right x r)). intros x; destruct r; reflexivity.
  - apply (F _ desc). reflexivity.
  - apply (F _ best_move_text). reflexivity.
Qed.

Lemma in_sends_of b ev : In b (sends_of ev) -> In (Send b) ev.
Proof.
  unfold sends_of. intros H. apply in_flat_map in H. destruct H as [e [He Hb]]. destruct e as [b0|d e0 l]; [|destruct Hb].
  destruct Hb as [<-|[]]. exact He.
Qed.

Section S.
Variable zt : ztable.
Variable osort : N -> list BoardState -> list BoardState.
Hypothesis osort_sub : forall i l x, In x (osort i l) -> In x l.

Theorem go_answer_cases st cmds sc gt st' outs :
  pos_ok1 (ss_board st) ->
  parse_go_command cmds = Ok gt -> generate_moves zt (ss_board st) AllMoves <> [] ->
  go_step zt osort st cmds sc = (st', outs) -> ss_phase st' = Running ->
  (st' = st /\ exists ev s, get_best_move zt osort (sc_k sc) (sc_fuel sc) (ss_board st) (ss_table st) = Ok (ev, s) /\ sends_of ev = [] /\ outs = infos_of ev) \/
  exists mv infos,
    In mv (legal_moves (abs (ss_board st))) /\
    outs = infos ++ [s_bestmove ++ text_of_move mv] /\
    abs (ss_board st') = apply (abs (ss_board st)) mv /\ pos_ok1 (ss_board st').
Proof.
  intros PO PG NE GS RU.
  destruct (go_answer_is_a_send zt osort st cmds sc gt st' outs PG NE GS RU) as [(ev & s & b & t & GB & Hb & Ht & Eb & Eo)|N]; [right|left; exact N].
  apply in_sends_of in Hb.
  destruct (get_best_move_sends zt osort (sc_k sc) osort_sub (ss_board st) (sc_fuel sc) (ss_table st) ev s GB b Hb) as (m & Hm & SM).
  destruct (same_move_same_pos b m SM) as (SP & Ed & Et).
  destruct (generated_moves_are_legal zt (ss_board st) m (proj1 PO) Hm) as (mv & Hd & Hl).
  destruct (generate_moves_abs zt (ss_board st) AllMoves m (proj1 PO) Hm) as (mv' & Hd' & HA). assert (mv' = mv) by congruence. subst mv'.
  exists mv, (infos_of ev). split; [exact Hl|]. split.
  - rewrite Eo. f_equal. f_equal. f_equal. rewrite Et in Ht. exact (best_move_text_of_desc m mv t Hd Ht).
  - rewrite Eb. split; [rewrite (same_pos_abs b m SP); exact HA|].
    apply (same_pos_pos_ok1 m b SP). exact (generator_preserves_pos_ok1 zt (ss_board st) m PO Hm).
Qed.

Theorem go_answer_is_legal st cmds sc gt st' outs :
  pos_ok1 (ss_board st) ->
  parse_go_command cmds = Ok gt -> generate_moves zt (ss_board st) AllMoves <> [] ->
  go_step zt osort st cmds sc = (st', outs) -> ss_phase st' = Running -> st' <> st ->
  exists mv infos,
    In mv (legal_moves (abs (ss_board st))) /\
    outs = infos ++ [s_bestmove ++ text_of_move mv] /\
    abs (ss_board st') = apply (abs (ss_board st)) mv /\ pos_ok1 (ss_board st').
Proof.
  intros PO PG NE GS RU Ch. destruct (go_answer_cases st cmds sc gt st' outs PO PG NE GS RU) as [(E & _)|H]; [contradiction|exact H].
Qed.

End S.
