(* C05/C15/C01: every string the FEN loader accepts is loaded as the state of some rules-level position:
   the accepted state is determined by that position, and its key is that position's hash. *)
From Walleye Require Import Model.Fen Spec.FenPrint Spec.Abs Proofs.Cells Proofs.FenText Proofs.FenRows Proofs.FenRoundTrip
  Proofs.HashProofs Proofs.CheckProofs.
From Coq Require Import Lia.
Open Scope Z_scope.

Section A.
Variable zt : ztable.

(* ---- the loop writes cells, whatever the characters are *)
Lemma to_digit_range c d : to_digit c = Some d -> 0 <= d <= 9.
Proof.
  unfold to_digit, is_ascii_digit. destruct ((48 <=? c)%N && (c <=? 57)%N) eqn:E; [|discriminate]. intros H. injection H as <-.
  apply andb_true_iff in E. destruct E as [A B]. apply N.leb_le in A, B. lia.
Qed.

Lemma fen_char_shape st ch st' : fen_char zt st ch = Ok st' -> 0 <= fl_row st -> 0 <= fl_col st ->
  exists l, st' = write_cells zt st l /\ fl_row st < 10 /\ fl_col st + Z.of_nat (length l) <= 10.
Proof.
  unfold fen_char, BOARD_END. intros H Hr Hc.
  destruct (Z.leb_spec 10 (fl_row st)); [discriminate H|]. destruct (Z.leb_spec 10 (fl_col st)); [discriminate H|]. cbn [orb] in H.
  destruct (is_ascii_digit ch).
  - destruct (to_digit ch) as [d|] eqn:D; [|discriminate H]. pose proof (to_digit_range _ _ D) as Rd.
    destruct (Z.gtb_spec (d + fl_col st) 10); [discriminate H|].
    rewrite (fill_empty_write zt) in H by lia. injection H as <-. exists (repeat None (Z.to_nat d)).
    split; [reflexivity|]. rewrite repeat_length. lia.
  - destruct (piece_from_fen_char ch) as [pc|]; [|discriminate H]. unfold set_res in H. rewrite in_grid_of in H by lia.
    cbn [res_bind] in H. injection H as <-. exists [Some pc]. split; [reflexivity|]. cbn [length]. lia.
Qed.

Lemma fen_row_chars_shape row : forall st st', fen_row_chars zt st row = Ok st' -> 0 <= fl_row st < 10 -> 0 <= fl_col st <= 10 ->
  exists l, st' = write_cells zt st l /\ fl_col st + Z.of_nat (length l) <= 10.
Proof.
  induction row as [|ch t IH]; intros st st' H Hr Hc; cbn [fen_row_chars] in H.
  - injection H as <-. exists []. split; [reflexivity|]. cbn [length]. lia.
  - destruct (fen_char zt st ch) as [st1| |] eqn:E; cbn [res_bind] in H; try discriminate H.
    destruct (fen_char_shape _ _ _ E ltac:(lia) ltac:(lia)) as (l1 & -> & R1 & C1).
    destruct (IH _ _ H) as (l2 & -> & C2); rewrite ?write_cells_row, ?write_cells_col; try lia.
    exists (l1 ++ l2). split; [now rewrite write_cells_app|]. rewrite write_cells_col in C2. rewrite app_length. lia.
Qed.

Lemma fen_rows_shape rows : forall st st', fen_rows zt st rows = Ok st' -> fl_col st = 2 -> 0 <= fl_row st ->
  fl_row st + Z.of_nat (length rows) <= 10 ->
  exists cls, length cls = length rows /\ Forall len8 cls /\ st' = write_rows zt st cls.
Proof.
  induction rows as [|r t IH]; intros st st' H Hc Hr Hn; cbn [fen_rows length] in *.
  - injection H as <-. exists []. repeat split. constructor.
  - destruct (fen_row_chars zt st r) as [st1| |] eqn:E; cbn [res_bind] in H; try discriminate H.
    destruct (fen_row_chars_shape _ _ _ E ltac:(lia) ltac:(lia)) as (l & -> & C1).
    rewrite write_cells_col in H. unfold BOARD_END in H.
    destruct (Z.eqb_spec (fl_col st + Z.of_nat (length l)) 10) as [E10|]; cbn [negb] in H; [|discriminate H].
    fold (next_row (write_cells zt st l)) in H.
    destruct (IH _ _ H) as (cls & Lc & F8 & ->); cbn [next_row fl_row fl_col]; rewrite ?write_cells_row; try reflexivity; try lia.
    exists (l :: cls). split; [cbn [length]; now rewrite Lc|]. split; [|reflexivity].
    constructor; [unfold len8; lia|exact F8].
Qed.

(* eight rows of eight cells are the ranks of a placement *)
Lemma rows_are_ranks cls : length cls = 8%nat -> Forall len8 cls -> exists pl, length pl = 64%nat /\ ranks pl = cls.
Proof.
  intros L F. do 8 (destruct cls as [|? cls]; [discriminate L|]). destruct cls; [|discriminate L].
  repeat match goal with H : Forall len8 (_ :: _) |- _ => inversion H; clear H; subst end.
  exists (l6 ++ l5 ++ l4 ++ l3 ++ l2 ++ l1 ++ l0 ++ l).
  unfold len8 in *. split; [rewrite !app_length; lia|].
  repeat match goal with H : length ?c = 8%nat |- _ =>
    do 8 (destruct c as [|? c]; [discriminate H|]); destruct c; [clear H|discriminate H] end.
  reflexivity.
Qed.

Lemma alg_column_range c v : assoc_N ALG_COLUMNS c = Some v -> 0 <= v < 8.
Proof.
  unfold ALG_COLUMNS. cbn [assoc_N]. intros H.
  repeat match type of H with (if ?b then _ else _) = _ => destruct b; [injection H as H; lia|] end. discriminate H.
Qed.

Lemma point_from_str_inner t pt : point_from_str t = Some pt -> is_inner pt = true.
Proof.
  unfold point_from_str. destruct (negb (utf8_len t =? 2)); [discriminate|]. destruct t as [|c [|r t]]; try discriminate.
  destruct (assoc_N ALG_COLUMNS c) as [v|] eqn:A; [|discriminate]. destruct (to_digit r) as [d|]; [|discriminate].
  unfold BOARD_START, BOARD_END. destruct ((2 <=? 10 - d) && (10 - d <? 10)) eqn:E; [|discriminate].
  intros H. assert (Ept : pt = (10 - d, v + 2)) by congruence. subst pt. clear H.
  apply andb_true_iff in E. destruct E as [E1 E2]. apply Z.leb_le in E1. apply Z.ltb_lt in E2.
  pose proof (alg_column_range _ _ A). apply is_inner_spec. unfold fst, snd. lia.
Qed.

Lemma inner_round pt : is_inner pt = true -> pt_of_sq (sq_of_pt pt) = pt /\ ep_wf (Some (sq_of_pt pt)).
Proof.
  intros I. apply is_inner_spec in I. destruct pt as [r c]. unfold pt_of_sq, sq_of_pt, ep_wf, BOARD_START, BOARD_END. cbn [fst snd] in *.
  split; [f_equal; lia|lia].
Qed.

(* ---- the loader factors through rules-level positions *)
Theorem accepted_is_loaded s st : from_fen zt s = Ok st ->
  exists p, st = loaded_state zt p /\ length (pos_pl p) = 64%nat /\ ep_wf (pos_ep p).
Proof.
  unfold from_fen. set (cfg := split_on 32 (trim_newline s)). intros H.
  destruct (Nat.eqb (length cfg) 6) eqn:L6; cbn [negb] in H; [|discriminate H]. apply Nat.eqb_eq in L6.
  destruct cfg as [|f0 cfg]; [discriminate L6|]. destruct cfg as [|f1 cfg]; [discriminate L6|]. destruct cfg as [|f2 cfg]; [discriminate L6|].
  destruct cfg as [|f3 cfg]; [discriminate L6|]. destruct cfg as [|f4 cfg]; [discriminate L6|]. destruct cfg as [|f5 cfg]; [discriminate L6|].
  destruct cfg; [|discriminate L6]. clear L6.
  cbn [nth_res nth_error res_bind] in H.
  match type of H with res_bind ?X _ = _ => destruct X as [stm| |] eqn:S end; cbn [res_bind] in H; try discriminate H.
  destruct (parse_unsigned FEN_HALFMOVE_BITS f4); [|discriminate H].
  destruct (parse_unsigned FEN_FULLMOVE_BITS f5); [|discriminate H]. cbn [res_bind] in H.
  destruct (Nat.eqb (length (split_on 47 f0)) 8) eqn:L8; cbn [negb] in H; [|discriminate H]. apply Nat.eqb_eq in L8.
  match type of H with res_bind ?X _ = _ => destruct X as [F| |] eqn:FR end; cbn [res_bind] in H; try discriminate H.
  destruct (fen_rows_shape _ _ _ FR eq_refl ltac:(cbn [fl_row]; unfold BOARD_START; lia)
              ltac:(cbn [fl_row]; unfold BOARD_START; lia)) as (cls & Lc & F8 & EF).
  rewrite L8 in Lc. destruct (rows_are_ranks cls Lc F8) as (pl & Lpl & Rk). subst cls.
  match type of H with res_bind ?X _ = _ => destruct X as [[ep k1]| |] eqn:EP end; cbn [res_bind] in H; try discriminate H.
  injection H as <-.
  assert (EFl : F = loaded zt (stm_key zt stm) pl) by (rewrite EF; destruct stm; reflexivity).
  exists (mkPos pl stm (has_char f2 75) (has_char f2 81) (has_char f2 107) (has_char f2 113) (option_map sq_of_pt ep)).
  cbn [pos_pl pos_ep]. split; [|split; [exact Lpl|]].
  - unfold loaded_state. cbn [pos_pl pos_stm pos_wk pos_wq pos_bk pos_bq pos_ep]. rewrite <- EFl.
    destruct (negb (utf8_len f3 =? 2)).
    + destruct (negb (str_eqb f3 [45%N])); [discriminate EP|]. injection EP as <- <-. reflexivity.
    + destruct (point_from_str f3) as [pt|] eqn:P; injection EP as <- <-; [|reflexivity].
      cbn [option_map]. destruct (inner_round pt (point_from_str_inner _ _ P)) as [-> _]. reflexivity.
  - destruct (negb (utf8_len f3 =? 2)).
    + destruct (negb (str_eqb f3 [45%N])); [discriminate EP|]. injection EP as <- <-. exact I.
    + destruct (point_from_str f3) as [pt|] eqn:P; injection EP as <- <-; [|exact I].
      cbn [option_map]. apply (inner_round pt (point_from_str_inner _ _ P)).
Qed.

(* so, for every accepted string: the state denotes a position, its key is that position's hash,
   and the board is coherent (sentinel ring, no sentinel inside) *)
Theorem accepted_key_ok s st : from_fen zt s = Ok st -> key_ok zt st.
Proof. intros H. destruct (accepted_is_loaded s st H) as (p & -> & L & E). now apply loaded_state_key. Qed.

Theorem accepted_cells_ok s st : from_fen zt s = Ok st -> cells_ok (board st).
Proof. intros H. destruct (accepted_is_loaded s st H) as (p & -> & L & E). apply loaded_state_cells. Qed.

Theorem accepted_fresh s st : from_fen zt s = Ok st -> order_heuristic st = 0 /\ last_move st = None /\ pawn_promotion st = None.
Proof. intros H. destruct (accepted_is_loaded s st H) as (p & -> & L & E). repeat split. Qed.

(* an accepted string that denotes a legal position yields a state meeting the hypotheses of C01/C02/C04/C05 *)
End A.
