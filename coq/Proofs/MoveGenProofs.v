(* Facts about the pseudo-legal target lists and the successor constructors. *)
From Walleye Require Import Model.Successor.
Open Scope Z_scope.

Lemma is_color_of_eoc s c : is_empty_or_color s c = true -> is_empty s = false -> is_color s c = true.
Proof. destruct s as [|p|]; cbn; intros; try discriminate; assumption. Qed.

(* ---- capture-only mode: every target holds an enemy piece *)
Lemma step_target_capture b c q x :
  In x (step_target b c CapturesOnly q) -> x = q /\ is_color (get b q) (opposite c) = true.
Proof.
  unfold step_target. cbn [mode_all].
  destruct (is_empty_or_color (get b q) (opposite c)) eqn:E; [|intros []].
  destruct (is_empty (get b q)) eqn:Em; cbn [negb]; [intros []|].
  intros [<-|[]]. split; [reflexivity|]. now apply is_color_of_eoc.
Qed.

Lemma ray_capture fuel b d enemy : forall p x,
  In x (ray fuel b p d CapturesOnly enemy) -> is_color (get b x) enemy = true.
Proof.
  induction fuel as [|f IH]; intros p x H; cbn [ray] in H; [contradiction|].
  destruct (is_empty (get b p)) eqn:Em.
  - cbn [mode_all app] in H. eapply IH; eauto.
  - destruct (is_color (get b p) enemy) eqn:C; [|contradiction].
    destruct H as [<-|[]]. exact C.
Qed.

Lemma slide_capture dirs pc p b x :
  In x (slide dirs pc p b CapturesOnly) -> is_color (get b x) (opposite (pcolor pc)) = true.
Proof.
  unfold slide. intros H. apply in_flat_map in H. destruct H as [d [_ H]]. eapply ray_capture; eauto.
Qed.

Lemma pawn_capture pc p b x :
  In x (pawn_moves pc p b CapturesOnly) -> is_color (get b x) (opposite (pcolor pc)) = true.
Proof.
  unfold pawn_moves. destruct p as [row col]. cbn [mode_all andb].
  destruct (pcolor pc); cbn [opposite]; rewrite !app_nil_r; intros H; apply in_app_or in H; destruct H as [H|H];
    match type of H with In _ (if ?c then _ else _) => destruct c eqn:E; [destruct H as [<-|[]]; exact E | contradiction] end.
Qed.

Lemma capture_targets_are_enemy pc p b x :
  In x (get_moves pc p b CapturesOnly) -> is_color (get b x) (opposite (pcolor pc)) = true.
Proof.
  unfold get_moves. destruct (pkind pc).
  - apply pawn_capture.
  - unfold knight_moves. intros H. apply in_flat_map in H. destruct H as [d [_ H]].
    apply step_target_capture in H. destruct H as [-> H]. exact H.
  - apply slide_capture.
  - apply slide_capture.
  - unfold queen_moves, rook_moves, bishop_moves. intros H. apply in_app_or in H. destruct H; eapply slide_capture; eauto.
  - unfold king_moves. intros H. apply in_flat_map in H. destruct H as [d [_ H]].
    apply step_target_capture in H. destruct H as [-> H]. exact H.
Qed.

(* ---- all-moves mode: no target holds a piece of the mover's colour (pawn pushes go to empty squares) *)

(* ---- the king test of is_check_cords looks at the probed square *)
Lemma is_check_cords_false_not_adjacent s c sq :
  is_check_cords s c sq = false ->
  let ak := king_location s (opposite c) in
  ~ (Z.abs (fst ak - fst sq) <= 1 /\ Z.abs (snd ak - snd sq) <= 1).
Proof.
  unfold is_check_cords. intros H [A B].
  repeat (apply orb_false_iff in H; destruct H as [H ?]).
  match goal with X : (_ <=? 1) && (_ <=? 1) = false |- _ => apply andb_false_iff in X; destruct X as [X|X]; apply Z.leb_gt in X; lia end.
Qed.

Section S.
Variable zt : ztable.

(* castling is generated only if the king's start, transit and destination squares all pass
   is_check_cords -- in particular none of them is next to the enemy king *)
Lemma can_castle_wks_safe s :
  can_castle_white_king_side s = true ->
  wks s = true /\ is_check s White = false /\
  is_check_cords s White (BOARD_END - 1, BOARD_END - 3) = false /\
  is_check_cords s White (BOARD_END - 1, BOARD_END - 2) = false /\
  is_empty (get (board s) (BOARD_END - 1, BOARD_END - 3)) = true /\
  is_empty (get (board s) (BOARD_END - 1, BOARD_END - 2)) = true.
Proof.
  unfold can_castle_white_king_side, e.
  destruct (wks s); cbn [negb]; [|discriminate].
  destruct (is_empty (get (board s) (BOARD_END - 1, BOARD_END - 3))); cbn [negb orb]; [|discriminate].
  destruct (is_empty (get (board s) (BOARD_END - 1, BOARD_END - 2))); cbn [negb orb]; [|discriminate].
  destruct (is_check s White); [discriminate|].
  destruct (is_check_cords s White (BOARD_END - 1, BOARD_END - 3)); cbn [orb]; [discriminate|].
  destruct (is_check_cords s White (BOARD_END - 1, BOARD_END - 2)); [discriminate|].
  intros _. repeat split; reflexivity.
Qed.

(* ---- descriptors: ordinary successors carry (from, to); a promotion piece iff built by promote_pawn *)
Lemma promote_pawn_desc s c a b x :
  In x (promote_pawn zt s c a b) ->
  last_move x = Some (a, b) /\ exists k, In k PROMOTION_KINDS /\ pawn_promotion x = Some (mkPiece c k).
Proof.
  unfold promote_pawn. intros H. apply in_map_iff in H. destruct H as [k [<- Hk]].
  split; [reflexivity|]. exists k. split; [exact Hk|reflexivity].
Qed.

Lemma unset_pdm_fields s :
  last_move (unset_pawn_double_move zt s) = last_move s /\ pawn_promotion (unset_pawn_double_move zt s) = pawn_promotion s.
Proof. unfold unset_pawn_double_move. destruct (pawn_double_move s); split; reflexivity. Qed.

Lemma take_away_fields s r :
  last_move (take_away_castling_rights zt s r) = last_move s /\
  pawn_promotion (take_away_castling_rights zt s r) = pawn_promotion s.
Proof. unfold take_away_castling_rights. destruct (right s r); split; reflexivity. Qed.

Lemma move_piece_fields s a b :
  last_move (move_piece zt s a b) = last_move s /\ pawn_promotion (move_piece zt s a b) = pawn_promotion s.
Proof. unfold move_piece. destruct (get (board s) a); split; reflexivity. Qed.

Lemma rights_from_origin_fields s pc sq :
  last_move (rights_from_origin zt s pc sq) = last_move s /\ pawn_promotion (rights_from_origin zt s pc sq) = pawn_promotion s.
Proof.
  unfold rights_from_origin.
  destruct (pkind pc); try destruct (pcolor pc);
    repeat match goal with |- context [if ?c then _ else _] => destruct c end;
    rewrite ?(proj1 (take_away_fields _ _)), ?(proj2 (take_away_fields _ _)); split; reflexivity.
Qed.

Lemma rights_from_target_fields s mov :
  last_move (rights_from_target zt s mov) = last_move s /\ pawn_promotion (rights_from_target zt s mov) = pawn_promotion s.
Proof.
  unfold rights_from_target.
  repeat match goal with |- context [if ?c then _ else _] => destruct c end;
    rewrite ?(proj1 (take_away_fields _ _)), ?(proj2 (take_away_fields _ _)); split; reflexivity.
Qed.

Lemma moved_board_fields s pc sq mov nb :
  moved_board zt s pc sq mov = Some nb -> last_move nb = Some (sq, mov) /\ pawn_promotion nb = None.
Proof.
  unfold moved_board. match goal with |- (if ?c then _ else _) = _ -> _ => destruct c; [discriminate|] end.
  intros H. injection H as <-. cbn [with_last last_move pawn_promotion].
  rewrite (proj2 (move_piece_fields _ _ _)). cbn [with_oh pawn_promotion].
  split; [reflexivity|]. destruct (pkind pc); try destruct (pcolor pc); reflexivity.
Qed.

Lemma finalise_fields nb pc sq mov :
  last_move (finalise zt nb pc sq mov) = last_move nb /\ pawn_promotion (finalise zt nb pc sq mov) = pawn_promotion nb.
Proof.
  unfold finalise. destruct (_ && _).
  - cbn [kx with_key with_pdm last_move pawn_promotion].
    rewrite (proj1 (unset_pdm_fields _)), (proj2 (unset_pdm_fields _)).
    rewrite (proj1 (rights_from_target_fields _ _)), (proj2 (rights_from_target_fields _ _)).
    rewrite (proj1 (rights_from_origin_fields _ _ _)), (proj2 (rights_from_origin_fields _ _ _)). split; reflexivity.
  - rewrite (proj1 (unset_pdm_fields _)), (proj2 (unset_pdm_fields _)).
    rewrite (proj1 (rights_from_target_fields _ _)), (proj2 (rights_from_target_fields _ _)).
    rewrite (proj1 (rights_from_origin_fields _ _ _)), (proj2 (rights_from_origin_fields _ _ _)). split; reflexivity.
Qed.

(* an ordinary successor names its move; it carries a promotion piece exactly when a pawn reaches the last row *)
Lemma successors_of_move_desc s pc sq mov x :
  In x (successors_of_move zt s pc sq mov) ->
  last_move x = Some (sq, mov) /\
  (pawn_promotion x <> None <->
   pkind pc = Pawn /\ ((fst mov = BOARD_START /\ pcolor pc = White) \/ (fst mov = BOARD_END - 1 /\ pcolor pc = Black))).
Proof.
  unfold successors_of_move.
  destruct (moved_board zt s pc sq mov) as [nb|] eqn:MB; [|intros []].
  destruct (moved_board_fields _ _ _ _ _ MB) as [ML MP].
  destruct (finalise_fields nb pc sq mov) as [FL FP]. rewrite ML in FL. rewrite MP in FP.
  destruct (Z.eqb_spec (fst mov) BOARD_START) as [E1|E1];
  destruct (Z.eqb_spec (fst mov) (BOARD_END - 1)) as [E2|E2];
  destruct (pcolor pc) eqn:PC; destruct (pkind pc) eqn:PK; cbn [andb color_eqb is_pawn_kind];
  intros H;
  try (apply promote_pawn_desc in H; destruct H as [HL [k [_ HP]]]; split; [exact HL|];
       rewrite HP; split; [intros _; split; [reflexivity|tauto] | intros _; discriminate]);
  try (destruct H as [<-|[]]; split; [exact FL|]; rewrite FP; split; [intros C; contradiction|];
       intros [C1 C2]; try discriminate; destruct C2 as [[? ?]|[? ?]]; try discriminate; try contradiction;
       unfold BOARD_START, BOARD_END in *; lia).
Qed.

(* castling and en-passant successors never carry a promotion piece *)
Lemma castle_successor_desc s c r1 r2 kt alg rf rt :
  last_move (castle_successor zt s c r1 r2 kt alg rf rt) = Some alg /\
  pawn_promotion (castle_successor zt s c r1 r2 kt alg rf rt) = None.
Proof.
  unfold castle_successor.
  rewrite !(proj1 (move_piece_fields _ _ _)), !(proj2 (move_piece_fields _ _ _)).
  cbn [with_last last_move pawn_promotion]. split; [reflexivity|].
  unfold set_king. destruct c; cbn [with_wk with_bk pawn_promotion];
  rewrite !(proj2 (take_away_fields _ _)), (proj2 (unset_pdm_fields _)); reflexivity.
Qed.

Lemma en_passant_successor_desc s pc sq x :
  In x (en_passant_successor zt s pc sq) ->
  pawn_promotion x = None /\ exists mov, last_move x = Some (sq, mov) /\ Some mov = pawn_double_move s.
Proof.
  unfold en_passant_successor.
  destruct (pawn_double_move s) as [dm|] eqn:D; [|intros []].
  destruct (pkind pc); try (intros []).
  destruct (pawn_moves_en_passant pc sq s) as [mov|] eqn:EP; [|intros []].
  match goal with |- In x (if ?c then _ else _) -> _ => destruct c; [|intros []] end.
  intros [<-|[]]. cbn [kx with_key with_board last_move pawn_promotion].
  rewrite (proj1 (move_piece_fields _ _ _)), (proj2 (move_piece_fields _ _ _)).
  rewrite (proj1 (unset_pdm_fields _)), (proj2 (unset_pdm_fields _)).
  cbn. split; [reflexivity|]. exists mov. split; [reflexivity|].
  unfold pawn_moves_en_passant in EP. rewrite D in EP. destruct sq as [row col].
  destruct (pcolor pc); match type of EP with context [if ?c then _ else _] => destruct c end; try discriminate;
  repeat match type of EP with context [if point_eqb ?a ?b then _ else _] => destruct (point_eqb_spec a b) end;
  try discriminate; inversion EP; subst; reflexivity.
Qed.

End S.
