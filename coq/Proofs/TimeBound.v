(* C09: the planned time never exceeds the mover's clock -- on the IEEE-754 binary64 model, for every clock and
   increment of magnitude below 2^53 ms and every movestogo. *)
From Coq Require Import ZArith Reals Lia Lra.
From Coq Require Import Floats.SpecFloat.
From Flocq Require Import Core.Core IEEE754.BinarySingleNaN.
From Flocq Require Import Relative.
From Walleye Require Import Model.Prim Gen.Consts Model.TimeControl.
Open Scope R_scope.

Local Existing Instance Hprec.
Local Existing Instance Hemax.

Local Notation fexp := (SpecFloat.fexp prec emax).
Local Notation rnd := (round radix2 fexp ZnearestE).

Lemma F2R_int z : F2R (Float radix2 z 0) = IZR z.
Proof. unfold F2R. simpl. ring. Qed.

Lemma fmt_int z : (Z.abs z < 2 ^ 53)%Z -> generic_format radix2 fexp (IZR z).
Proof.
  intros H. change fexp with (FLT_exp (3 - emax - prec) prec). apply generic_format_FLT. exists (Float radix2 z 0); [now rewrite F2R_int|exact H|unfold emax, prec; simpl; lia].
Qed.

Lemma rnd_int z : (Z.abs z < 2 ^ 53)%Z -> rnd (IZR z) = IZR z.
Proof. intros H. apply round_generic; [apply valid_rnd_N|now apply fmt_int]. Qed.

Lemma fmt_pow60 : generic_format radix2 fexp (bpow radix2 60).
Proof. apply generic_format_bpow. vm_compute. discriminate. Qed.

Lemma no_overflow x : Rabs x <= bpow radix2 60 -> Rlt_bool (Rabs (rnd x)) (bpow radix2 emax) = true.
Proof.
  intros H. apply Rlt_bool_true. apply Rle_lt_trans with (bpow radix2 60).
  - apply abs_round_le_generic; [change fexp with (FLT_exp (3 - emax - prec) prec); apply FLT_exp_valid; exact Hprec|apply valid_rnd_N|apply fmt_pow60|exact H].
  - apply bpow_lt. unfold emax. lia.
Qed.

Lemma pow53_60 : IZR (2 ^ 53) <= bpow radix2 60.
Proof. change (bpow radix2 60) with (IZR (2 ^ 60)). apply IZR_le. lia. Qed.

Lemma abs_int_le z : (Z.abs z < 2 ^ 53)%Z -> Rabs (IZR z) <= bpow radix2 60.
Proof. intros H. rewrite <- abs_IZR. apply Rle_trans with (IZR (2 ^ 53)); [apply IZR_le; lia|apply pow53_60]. Qed.

(* i as f64 is exact below 2^53 *)
Lemma f64_of_Z_ok z : (Z.abs z < 2 ^ 53)%Z -> B2R (f64_of_Z z) = IZR z /\ is_finite (f64_of_Z z) = true.
Proof.
  intros H. unfold f64_of_Z. pose proof (binary_normalize_correct prec emax _ _ mode_NE z 0 false) as C. cbv zeta in C.
  rewrite F2R_int in C. change (round_mode mode_NE) with ZnearestE in C. rewrite rnd_int in C by exact H.
  rewrite Rlt_bool_true in C.
  - destruct C as (A & B0 & _). split; assumption.
  - apply Rle_lt_trans with (bpow radix2 60); [now apply abs_int_le|apply bpow_lt; unfold emax; lia].
Qed.

(* the two constants *)
Lemma safeguard_val : B2R SAFEGUARD = 100 /\ is_finite SAFEGUARD = true.
Proof.
  split; [|vm_compute; reflexivity].
  rewrite <- SF2R_B2SF. assert (E : B2SF SAFEGUARD = S754_finite false 7036874417766400 (-46)) by (vm_compute; reflexivity).
  rewrite E. unfold SF2R, F2R. simpl Fnum. simpl Fexp. change (bpow radix2 (-46)) with (/ IZR (2 ^ 46)).
  replace (IZR 7036874417766400) with (100 * IZR (2 ^ 46)) by (rewrite <- mult_IZR; f_equal).
  field. apply not_0_IZR. lia.
Qed.

Lemma max_usage_val : B2R MAX_USAGE = IZR 7205759403792794 * bpow radix2 (-53) /\ is_finite MAX_USAGE = true.
Proof.
  split; [|vm_compute; reflexivity].
  rewrite <- SF2R_B2SF. assert (E : B2SF MAX_USAGE = S754_finite false 7205759403792794 (-53)) by (vm_compute; reflexivity).
  rewrite E. reflexivity.
Qed.

Lemma max_usage_range : 0 < B2R MAX_USAGE < 1.
Proof.
  rewrite (proj1 max_usage_val). change (bpow radix2 (-53)) with (/ IZR (2 ^ 53)).
  assert (P : 0 < IZR (2 ^ 53)) by (apply IZR_lt; lia).
  split.
  - apply Rmult_lt_0_compat; [apply IZR_lt; lia|now apply Rinv_0_lt_compat].
  - apply Rmult_lt_reg_r with (IZR (2 ^ 53)); [exact P|]. rewrite Rmult_assoc, Rinv_l, Rmult_1_r, Rmult_1_l by lra. apply IZR_lt. lia.
Qed.

(* f64::round then `as u128` is monotone against integers *)
Lemma rt_le (x : f64) n : is_finite x = true -> (0 <= n)%Z -> B2R x <= IZR n -> (round_to_u128 x <= n)%Z.
Proof.
  intros F Hn H. destruct x as [s|s| |s m e Hb]; try discriminate F; try (cbn [round_to_u128]; exact Hn).
  destruct s; [cbn [round_to_u128]; exact Hn|].
  cbn [B2R] in H. unfold F2R in H. cbn [Fnum Fexp cond_Zopp] in H. cbn [round_to_u128].
  destruct (Z.leb_spec 0 e) as [He|He].
  - apply Z.le_trans with (Z.pos m * 2 ^ e)%Z; [apply Z.le_min_l|]. apply le_IZR. rewrite mult_IZR. rewrite <- (IZR_Zpower radix2 e He) in H. exact H.
  - set (d := (2 ^ (- e))%Z). assert (Hd : (0 < d)%Z) by (unfold d; apply Z.pow_pos_nonneg; lia).
    assert (Hm : (Z.pos m <= n * d)%Z).
    { apply le_IZR. rewrite mult_IZR. unfold d. change (IZR (2 ^ - e)) with (IZR (radix2 ^ - e)). rewrite (IZR_Zpower radix2 (- e)) by lia. rewrite bpow_opp.
      apply Rmult_le_reg_r with (bpow radix2 e); [apply bpow_gt_0|]. rewrite Rmult_assoc, Rinv_l, Rmult_1_r; [exact H|].
      apply Rgt_not_eq, bpow_gt_0. }
    pose proof (Z.div_mod (Z.pos m) d ltac:(lia)) as DM. pose proof (Z.mod_pos_bound (Z.pos m) d Hd) as MB.
    set (q := (Z.pos m / d)%Z) in *. set (r := (Z.pos m mod d)%Z) in *.
    apply Z.le_trans with (if (d <=? 2 * r)%Z then (q + 1)%Z else q); [apply Z.le_min_l|].
    destruct (Z.leb_spec d (2 * r)); nia.
Qed.

Local Instance fexp_valid : Valid_exp fexp. Proof. change fexp with (FLT_exp (3 - emax - prec) prec). apply FLT_exp_valid. exact Hprec. Qed.

Lemma rnd_le x y : x <= y -> rnd x <= rnd y.
Proof. apply round_le; [exact fexp_valid|apply valid_rnd_N]. Qed.
Lemma rnd_0 : rnd 0 = 0.
Proof. apply round_0. apply valid_rnd_N. Qed.
Lemma rnd_fmt (x : f64) : rnd (B2R x) = B2R x.
Proof. apply round_generic; [apply valid_rnd_N|apply generic_format_B2R]. Qed.

(* the computation on the three numbers it reads *)
Definition slice_core (clock inc mtg : Z) : Z :=
  let mtgf := f64_of_Z mtg in
  let cf := f64_of_Z clock in
  let incf := f64_of_Z inc in
  let base := fsub cf SAFEGUARD in
  if fle base zero then
    if flt zero incf then round_to_u128 (fmin (fmul incf MAX_USAGE) (fmax cf zero)) else NO_TIME
  else round_to_u128 (fdiv (fmul base MAX_USAGE) mtgf).

Lemma calc_core gt c :
  calculate_time_slice gt c =
  slice_core (match c with White => wtime gt | Black => btime gt end) (match c with White => winc gt | Black => binc gt end) (moves_to_go gt).
Proof. destruct c; reflexivity. Qed.

Lemma zero_val : B2R zero = 0 /\ is_finite zero = true. Proof. split; reflexivity. Qed.

Lemma mul_usage (x : f64) n : is_finite x = true -> B2R x = IZR n -> (Z.abs n < 2 ^ 53)%Z ->
  B2R (fmul x MAX_USAGE) = rnd (IZR n * B2R MAX_USAGE) /\ is_finite (fmul x MAX_USAGE) = true.
Proof.
  intros F E Hn. destruct max_usage_val as [_ FU]. pose proof max_usage_range as [U0 U1].
  pose proof (Bmult_correct prec emax _ _ mode_NE x MAX_USAGE) as C. change (round_mode mode_NE) with ZnearestE in C.
  rewrite E in C. rewrite no_overflow in C.
  - destruct C as (A & B0 & _). split; [exact A|]. unfold fmul. rewrite B0, F, FU. reflexivity.
  - rewrite Rabs_mult, (Rabs_pos_eq (B2R MAX_USAGE)) by lra. apply Rle_trans with (Rabs (IZR n) * 1).
    + apply Rmult_le_compat_l; [apply Rabs_pos|lra].
    + rewrite Rmult_1_r. now apply abs_int_le.
Qed.

Theorem slice_core_bound clock inc mtg :
  (Z.abs clock < 2 ^ 53)%Z -> (Z.abs inc < 2 ^ 53)%Z -> (1 <= mtg < 2 ^ 53)%Z ->
  (slice_core clock inc mtg <= Z.max clock 0)%Z /\
  (100 < clock -> slice_core clock inc mtg <= clock - 100)%Z /\
  (clock <= 100 -> inc <= 0 -> slice_core clock inc mtg = 0)%Z.
Proof.
  intros Hc Hi Hm. unfold slice_core.
  destruct (f64_of_Z_ok clock Hc) as [Ec Fc]. destruct (f64_of_Z_ok inc Hi) as [Ei Fi]. destruct (f64_of_Z_ok mtg ltac:(lia)) as [Em Fm].
  destruct safeguard_val as [Es Fs]. destruct zero_val as [Ez Fz]. pose proof max_usage_range as [U0 U1].
  (* base *)
  pose proof (Bminus_correct prec emax _ _ mode_NE (f64_of_Z clock) SAFEGUARD Fc Fs) as CB. change (round_mode mode_NE) with ZnearestE in CB.
  rewrite Ec, Es in CB. rewrite no_overflow in CB.
  2:{ replace (IZR clock - 100) with (IZR (clock - 100)) by (rewrite minus_IZR; reflexivity). rewrite <- abs_IZR.
      apply Rle_trans with (IZR (2 ^ 54)); [apply IZR_le; lia|]. change (bpow radix2 60) with (IZR (2 ^ 60)). apply IZR_le. lia. }
  destruct CB as (Eb & Fb & _). fold (fsub (f64_of_Z clock) SAFEGUARD) in Eb, Fb.
  set (base := fsub (f64_of_Z clock) SAFEGUARD) in *.
  unfold fle. rewrite (Bleb_correct prec emax base zero Fb Fz), Eb, Ez.
  destruct (Z_le_gt_dec clock 100) as [L|G].
  - (* inside the margin *)
    assert (B0 : rnd (IZR clock - 100) <= 0).
    { rewrite <- rnd_0. apply rnd_le. apply IZR_le in L. lra. }
    rewrite (Rle_bool_true _ _ B0).
    unfold flt. rewrite (Bltb_correct prec emax zero (f64_of_Z inc) Fz Fi), Ez, Ei.
    destruct (Rlt_bool_spec 0 (IZR inc)) as [Ip|In].
    + (* increment only: the smaller of 80% of the increment and the clock *)
      apply lt_IZR in Ip.
      destruct (mul_usage (f64_of_Z inc) inc Fi Ei Hi) as [Ep Fp]. set (p := fmul (f64_of_Z inc) MAX_USAGE) in *.
      assert (MX : B2R (fmax (f64_of_Z clock) zero) = IZR (Z.max clock 0) /\ is_finite (fmax (f64_of_Z clock) zero) = true).
      { unfold fmax, flt. rewrite (Bltb_correct prec emax _ _ Fc Fz), Ec, Ez.
        destruct (Rlt_bool_spec (IZR clock) 0) as [N|N].
        - apply lt_IZR in N. rewrite Z.max_r by lia. split; [exact Ez|exact Fz].
        - apply le_IZR in N. rewrite Z.max_l by lia. split; [exact Ec|exact Fc]. }
      destruct MX as [Ex Fx]. set (mx := fmax (f64_of_Z clock) zero) in *.
      assert (R : (round_to_u128 (fmin p mx) <= Z.max clock 0)%Z).
      { unfold fmin, flt. rewrite (Bltb_correct prec emax mx p Fx Fp).
        destruct (Rlt_bool_spec (B2R mx) (B2R p)) as [N|N].
        - apply rt_le; [exact Fx|lia|rewrite Ex; apply Rle_refl].
        - apply rt_le; [exact Fp|lia|rewrite <- Ex; exact N]. }
      split; [exact R|]. split; [intros; lia|intros _ X; lia].
    + apply le_IZR in In. unfold NO_TIME. split; [lia|]. split; [intros; lia|reflexivity].
  - (* more than the margin left *)
    assert (Hn : (Z.abs (clock - 100) < 2 ^ 53)%Z) by lia.
    assert (En : rnd (IZR clock - 100) = IZR (clock - 100)) by (rewrite <- minus_IZR; now apply rnd_int).
    rewrite En in Eb |- *.
    assert (Pn : 0 < IZR (clock - 100)) by (apply IZR_lt; lia).
    rewrite Rle_bool_false by exact Pn.
    destruct (mul_usage base (clock - 100) Fb Eb Hn) as [E1 F1]. set (t1 := fmul base MAX_USAGE) in *.
    assert (T1u : B2R t1 <= IZR (clock - 100)).
    { rewrite E1. rewrite <- (rnd_int (clock - 100) Hn) at 2. apply rnd_le. nra. }
    assert (T1l : 0 <= B2R t1) by (rewrite E1, <- rnd_0; apply rnd_le; nra).
    assert (Pm : 1 <= IZR mtg) by (apply IZR_le; lia).
    assert (Q : B2R t1 / IZR mtg <= B2R t1).
    { apply Rmult_le_reg_r with (IZR mtg); [lra|]. unfold Rdiv. rewrite Rmult_assoc, Rinv_l, Rmult_1_r by lra. nra. }
    assert (Q0 : 0 <= B2R t1 / IZR mtg) by (apply Rmult_le_pos; [exact T1l|apply Rlt_le, Rinv_0_lt_compat; lra]).
    pose proof (Bdiv_correct prec emax _ _ mode_NE t1 (f64_of_Z mtg) ltac:(rewrite Em; lra)) as CD. change (round_mode mode_NE) with ZnearestE in CD.
    rewrite Em in CD. rewrite no_overflow in CD.
    2:{ rewrite Rabs_pos_eq by exact Q0. apply Rle_trans with (IZR (clock - 100)); [lra|]. rewrite <- (Rabs_pos_eq (IZR (clock - 100))) by lra. now apply abs_int_le. }
    destruct CD as (E2 & F2 & _). fold (fdiv t1 (f64_of_Z mtg)) in E2, F2. rewrite F1 in F2.
    assert (R : (round_to_u128 (fdiv t1 (f64_of_Z mtg)) <= clock - 100)%Z).
    { apply rt_le; [exact F2|lia|]. rewrite E2. apply Rle_trans with (B2R t1); [|exact T1u]. rewrite <- (rnd_fmt t1) at 2. now apply rnd_le. }
    split; [lia|]. split; [intros; exact R|intros; lia].
Qed.

(* on the record: the mover's clock and increment below 2^53 ms in magnitude (285 000 years), any movestogo a u32 holds *)
Theorem slice_within_clock gt c :
  let clock := match c with White => wtime gt | Black => btime gt end in
  let inc := match c with White => winc gt | Black => binc gt end in
  (Z.abs clock < 2 ^ 53)%Z -> (Z.abs inc < 2 ^ 53)%Z ->
  (match movestogo gt with Some m => (0 <= m < 2 ^ 32)%Z | None => True end) ->
  (calculate_time_slice gt c <= Z.max clock 0)%Z /\
  (100 < clock -> calculate_time_slice gt c <= clock - 100)%Z /\
  (clock <= 100 -> inc <= 0 -> calculate_time_slice gt c = 0)%Z.
Proof.
  intros clock inc Hc Hi Hm. rewrite calc_core. apply slice_core_bound; [exact Hc|exact Hi|].
  unfold moves_to_go, GAME_LENGTH. destruct (movestogo gt) as [m|]; [|lia]. destruct (Z.ltb_spec 0 m); lia.
Qed.

(* ---- the proportional clause: with more than the margin left the plan is 80% of (clock - margin) / movestogo,
   up to three binary64 roundings (relative 2^-51 in all) and the rounding to whole milliseconds *)
Definition E : R := / 2 * bpow radix2 (-52).

Lemma E_small : 0 < E <= / 8.
Proof.
  unfold E. change (bpow radix2 (-52)) with (/ IZR (2 ^ 52)).
  assert (P : 0 < / IZR (2 ^ 52)) by (apply Rinv_0_lt_compat, IZR_lt; lia).
  assert (Q : / IZR (2 ^ 52) <= / 4).
  { apply Rinv_le; [lra|]. change 4 with (IZR 4). apply IZR_le. lia. }
  lra.
Qed.

Lemma rnd_up x : bpow radix2 (-1022) <= x -> rnd x <= x * (1 + E).
Proof.
  intros H. assert (P : 0 < x) by (eapply Rlt_le_trans; [apply (bpow_gt_0 radix2 (-1022))|exact H]).
  pose proof (relative_error_N_FLT radix2 (3 - emax - prec) prec Hprec (fun z => negb (Z.even z)) x) as R.
  rewrite Rabs_pos_eq in R by lra. specialize (R H).
  change (round radix2 (FLT_exp (3 - emax - prec) prec) (Znearest (fun z => negb (Z.even z))) x) with (rnd x) in R.
  change (/ 2 * bpow radix2 (- prec + 1)) with E in R.
  pose proof (Rle_abs (rnd x - x)). lra.
Qed.

Lemma rt_half (x : f64) : is_finite x = true -> 0 <= B2R x -> IZR (round_to_u128 x) <= B2R x + / 2.
Proof.
  intros F H. destruct x as [s|s| |s m e Hb]; try discriminate F; try (cbn [round_to_u128 B2R]; lra).
  destruct s; [cbn [round_to_u128]; lra|].
  cbn [B2R]. unfold F2R. cbn [Fnum Fexp cond_Zopp round_to_u128].
  destruct (Z.leb_spec 0 e) as [He|He].
  - apply Rle_trans with (IZR (Z.pos m * 2 ^ e)); [apply IZR_le, Z.le_min_l|]. rewrite mult_IZR. change (IZR (2 ^ e)) with (IZR (radix2 ^ e)).
    rewrite (IZR_Zpower radix2 e He). lra.
  - set (d := (2 ^ (- e))%Z). assert (Hd : (0 < d)%Z) by (unfold d; apply Z.pow_pos_nonneg; lia).
    pose proof (Z.div_mod (Z.pos m) d ltac:(lia)) as DM. pose proof (Z.mod_pos_bound (Z.pos m) d Hd) as MB.
    set (q := (Z.pos m / d)%Z) in *. set (r := (Z.pos m mod d)%Z) in *.
    set (v := if (d <=? 2 * r)%Z then (q + 1)%Z else q).
    assert (Hv : (2 * d * v <= 2 * Z.pos m + d)%Z) by (unfold v; destruct (Z.leb_spec d (2 * r)); nia).
    apply Rle_trans with (IZR v); [apply IZR_le, Z.le_min_l|].
    assert (Eb : bpow radix2 e = / IZR d).
    { unfold d. change (IZR (2 ^ - e)) with (IZR (radix2 ^ - e)). rewrite (IZR_Zpower radix2 (- e)) by lia. rewrite bpow_opp, Rinv_inv. reflexivity. }
    rewrite Eb. assert (PD : 0 < IZR d) by (apply IZR_lt; exact Hd).
    apply IZR_le in Hv. rewrite plus_IZR, !mult_IZR in Hv.
    apply Rmult_le_reg_r with (2 * IZR d); [lra|].
    replace ((IZR (Z.pos m) * / IZR d + / 2) * (2 * IZR d)) with (2 * IZR (Z.pos m) + IZR d) by (field; lra).
    lra.
Qed.

Lemma usage_le : B2R MAX_USAGE <= 8 / 10 * (1 + E).
Proof.
  rewrite (proj1 max_usage_val). unfold E. change (bpow radix2 (-53)) with (/ IZR (2 ^ 53)). change (bpow radix2 (-52)) with (/ IZR (2 ^ 52)).
  assert (P53 : IZR (2 ^ 53) = 2 * IZR (2 ^ 52)) by (rewrite <- mult_IZR; f_equal).
  assert (P : 0 < IZR (2 ^ 52)) by (apply IZR_lt; lia). rewrite P53.
  apply Rmult_le_reg_r with (2 * IZR (2 ^ 52)); [lra|].
  replace (IZR 7205759403792794 * / (2 * IZR (2 ^ 52)) * (2 * IZR (2 ^ 52))) with (IZR 7205759403792794) by (field; lra).
  replace (8 / 10 * (1 + / 2 * / IZR (2 ^ 52)) * (2 * IZR (2 ^ 52))) with (8 / 10 * (2 * IZR (2 ^ 52) + 1)) by (field; lra).
  assert (Q : IZR 7205759403792794 * 10 <= 8 * (2 * IZR (2 ^ 52) + 1)).
  { change 10 with (IZR 10). change 8 with (IZR 8). change 2 with (IZR 2). change 1 with (IZR 1). rewrite <- !mult_IZR, <- plus_IZR, <- mult_IZR. apply IZR_le. vm_compute. discriminate. }
  lra.
Qed.

Theorem slice_core_proportional clock inc mtg :
  (Z.abs clock < 2 ^ 53)%Z -> (Z.abs inc < 2 ^ 53)%Z -> (1 <= mtg < 2 ^ 53)%Z -> (100 < clock)%Z ->
  IZR (slice_core clock inc mtg) <= 8 / 10 * IZR (clock - 100) / IZR mtg * (1 + 4 * E) + / 2.
Proof.
  intros Hc Hi Hm G. unfold slice_core.
  destruct (f64_of_Z_ok clock Hc) as [Ec Fc]. destruct (f64_of_Z_ok mtg ltac:(lia)) as [Em Fm].
  destruct safeguard_val as [Es Fs]. destruct zero_val as [Ez Fz]. pose proof max_usage_range as [U0 U1]. pose proof E_small as [E0 E8].
  pose proof (Bminus_correct prec emax _ _ mode_NE (f64_of_Z clock) SAFEGUARD Fc Fs) as CB. change (round_mode mode_NE) with ZnearestE in CB.
  rewrite Ec, Es in CB. rewrite no_overflow in CB.
  2:{ replace (IZR clock - 100) with (IZR (clock - 100)) by (rewrite minus_IZR; reflexivity). rewrite <- abs_IZR.
      apply Rle_trans with (IZR (2 ^ 54)); [apply IZR_le; lia|]. change (bpow radix2 60) with (IZR (2 ^ 60)). apply IZR_le. lia. }
  destruct CB as (Eb & Fb & _). fold (fsub (f64_of_Z clock) SAFEGUARD) in Eb, Fb.
  set (base := fsub (f64_of_Z clock) SAFEGUARD) in *.
  unfold fle. rewrite (Bleb_correct prec emax base zero Fb Fz), Eb, Ez.
  assert (Hn : (Z.abs (clock - 100) < 2 ^ 53)%Z) by lia.
  assert (En : rnd (IZR clock - 100) = IZR (clock - 100)) by (rewrite <- minus_IZR; now apply rnd_int).
  rewrite En in Eb |- *.
  assert (Pn : 1 <= IZR (clock - 100)) by (apply IZR_le; lia).
  rewrite Rle_bool_false by lra.
  destruct (mul_usage base (clock - 100) Fb Eb Hn) as [E1 F1]. set (t1 := fmul base MAX_USAGE) in *.
  set (n := IZR (clock - 100)) in *. set (u := B2R MAX_USAGE) in *.
  assert (Pm : 1 <= IZR mtg) by (apply IZR_le; lia).
  assert (Mlt : IZR mtg <= bpow radix2 53) by (change (bpow radix2 53) with (IZR (2 ^ 53)); apply IZR_le; lia).
  assert (Uge : / 2 <= u) by (unfold u; rewrite (proj1 max_usage_val); change (bpow radix2 (-53)) with (/ IZR (2 ^ 53));
    apply Rmult_le_reg_r with (IZR (2 ^ 53)); [apply IZR_lt; lia|]; rewrite Rmult_assoc, Rinv_l, Rmult_1_r by (apply not_0_IZR; lia);
    replace (/ 2 * IZR (2 ^ 53)) with (IZR (2 ^ 52)) by (replace (IZR (2 ^ 53)) with (2 * IZR (2 ^ 52)) by (rewrite <- mult_IZR; f_equal); field); apply IZR_le; lia).
  assert (NU : / 2 <= n * u) by nra.
  assert (Half : rnd (/ 2) = / 2).
  { apply round_generic; [apply valid_rnd_N|]. change (/ 2) with (bpow radix2 (-1)). apply generic_format_bpow. vm_compute. discriminate. }
  assert (T1l : / 2 <= B2R t1) by (rewrite E1, <- Half; now apply rnd_le).
  assert (Small : bpow radix2 (-1022) <= / 2) by (change (/ 2) with (bpow radix2 (-1)); apply bpow_le; lia).
  assert (T1u : B2R t1 <= n * u * (1 + E)) by (rewrite E1; apply rnd_up; lra).
  pose proof (Bdiv_correct prec emax _ _ mode_NE t1 (f64_of_Z mtg) ltac:(rewrite Em; lra)) as CD. change (round_mode mode_NE) with ZnearestE in CD.
  rewrite Em in CD.
  assert (Q0 : 0 < B2R t1 / IZR mtg) by (apply Rmult_lt_0_compat; [lra|apply Rinv_0_lt_compat; lra]).
  assert (Q : B2R t1 / IZR mtg <= B2R t1).
  { apply Rmult_le_reg_r with (IZR mtg); [lra|]. unfold Rdiv. rewrite Rmult_assoc, Rinv_l, Rmult_1_r by lra. nra. }
  assert (T1n : B2R t1 <= n) by (rewrite E1; unfold n; rewrite <- (rnd_int (clock - 100) Hn) at 2; apply rnd_le; fold n; nra).
  rewrite no_overflow in CD.
  2:{ rewrite Rabs_pos_eq by lra. apply Rle_trans with n; [lra|]. unfold n. rewrite <- (Rabs_pos_eq (IZR (clock - 100))) by (fold n; lra). now apply abs_int_le. }
  destruct CD as (E2 & F2 & _). fold (fdiv t1 (f64_of_Z mtg)) in E2, F2. rewrite F1 in F2.
  set (t2 := fdiv t1 (f64_of_Z mtg)) in *.
  assert (QL : bpow radix2 (-1022) <= B2R t1 / IZR mtg).
  { apply Rle_trans with (/ 2 * / bpow radix2 53).
    - rewrite <- bpow_opp. change (/ 2) with (bpow radix2 (-1)). rewrite <- bpow_plus. apply bpow_le. lia.
    - unfold Rdiv. apply Rmult_le_compat; [lra|apply Rlt_le, Rinv_0_lt_compat, bpow_gt_0|exact T1l|apply Rinv_le; lra]. }
  assert (T2u : B2R t2 <= B2R t1 / IZR mtg * (1 + E)) by (rewrite E2; now apply rnd_up).
  assert (T2l : 0 <= B2R t2) by (rewrite E2, <- rnd_0; apply rnd_le; lra).
  pose proof (rt_half t2 F2 T2l) as RH.
  pose proof usage_le as UL. fold u in UL.
  (* assemble *)
  assert (IM : / IZR mtg > 0) by (apply Rinv_0_lt_compat; lra).
  assert (A1 : B2R t1 / IZR mtg <= n * u * (1 + E) / IZR mtg) by (unfold Rdiv; apply Rmult_le_compat_r; lra).
  assert (A2 : n * u * (1 + E) / IZR mtg <= n * (8 / 10 * (1 + E)) * (1 + E) / IZR mtg).
  { unfold Rdiv. apply Rmult_le_compat_r; [lra|]. apply Rmult_le_compat_r; [lra|]. apply Rmult_le_compat_l; lra. }
  assert (A3 : B2R t2 <= n * (8 / 10 * (1 + E)) * (1 + E) / IZR mtg * (1 + E)).
  { eapply Rle_trans; [exact T2u|]. apply Rmult_le_compat_r; lra. }
  assert (Cube : (1 + E) * (1 + E) * (1 + E) <= 1 + 4 * E) by nra.
  assert (B : n * (8 / 10 * (1 + E)) * (1 + E) / IZR mtg * (1 + E) = 8 / 10 * n / IZR mtg * ((1 + E) * (1 + E) * (1 + E))) by (field; lra).
  assert (NM : 0 <= 8 / 10 * n / IZR mtg) by (unfold Rdiv; apply Rmult_le_pos; [lra|lra]).
  rewrite B in A3. assert (A4 : 8 / 10 * n / IZR mtg * ((1 + E) * (1 + E) * (1 + E)) <= 8 / 10 * n / IZR mtg * (1 + 4 * E)) by (apply Rmult_le_compat_l; lra).
  lra.
Qed.
