(* C12: the engine's search (principal-variation search with zero-window re-search, first move with the full
   window, killer and PV ordering, mate-distance window clamp, fail-hard quiescence) returns, at depths where the
   null move does not apply, a value that satisfies the window contract of the plain negamax value -- for every
   ordering oracle that returns permutations, every search state, every window. *)
From Walleye Require Import Model.Search Spec.Minimax Proofs.DrawTableProofs Proofs.TableRestored Proofs.AlphaBeta
  Proofs.EvalProofs Proofs.ValueRange Proofs.RootProofs.
From Coq Require Import Lia Permutation.
Open Scope Z_scope.

Local Notation M := MATE_SCORE.

Lemma some_inj {A} (a b : A) : Some a = Some b -> a = b. Proof. congruence. Qed.
Lemma ok_inj {A} (a b : A) : Ok a = Ok b -> a = b. Proof. congruence. Qed.

(* ---- maxima *)
Lemma fold_max_ge l : forall i, i <= fold_left Z.max l i.
Proof. induction l as [|x l IH]; intros i; cbn [fold_left]; [lia|]. specialize (IH (Z.max i x)). lia. Qed.

Lemma fold_max_in l : forall i x, In x l -> x <= fold_left Z.max l i.
Proof.
  induction l as [|y l IH]; intros i x H; [destruct H|]. destruct H as [<-|H]; cbn [fold_left].
  - pose proof (fold_max_ge l (Z.max i y)). lia.
  - now apply IH.
Qed.

Lemma fold_max_cases l : forall i, fold_left Z.max l i = i \/ In (fold_left Z.max l i) l.
Proof.
  induction l as [|y l IH]; intros i; cbn [fold_left]; [now left|].
  destruct (IH (Z.max i y)) as [E|E]; [|right; right; exact E].
  rewrite E. destruct (Z.max_spec i y) as [[_ ->]|[_ ->]]; [right; left; reflexivity|now left].
Qed.

(* the loop's running maximum over a permutation of the child values is the maximum *)
Lemma fold_max_is_max w i l l' a : is_max w (i :: l) -> Permutation l l' -> fold_left Z.max l' (Z.max a i) = Z.max a w.
Proof.
  intros [Hle Hin] P.
  assert (U : fold_left Z.max l' (Z.max a i) <= Z.max a w).
  { destruct (fold_max_cases l' (Z.max a i)) as [->|E].
    - assert (i <= w) by (apply Hle; now left). lia.
    - assert (fold_left Z.max l' (Z.max a i) <= w) by (apply Hle; right; apply (Permutation_in _ (Permutation_sym P) E)). lia. }
  assert (L : Z.max a w <= fold_left Z.max l' (Z.max a i)).
  { pose proof (fold_max_ge l' (Z.max a i)). destruct Hin as [<-|Hin]; [lia|].
    pose proof (fold_max_in l' (Z.max a i) w (Permutation_in _ P Hin)). lia. }
  lia.
Qed.

Lemma is_max_fold w x l l' : is_max w (x :: l) -> Permutation (x :: l) l' ->
  match l' with y :: r => fold_left Z.max r y = w | [] => False end.
Proof.
  intros [Hle Hin] P. destruct l' as [|y r]; [apply Permutation_sym, Permutation_nil in P; discriminate|].
  assert (U : fold_left Z.max r y <= w).
  { destruct (fold_max_cases r y) as [->|E]; apply Hle; apply (Permutation_in _ (Permutation_sym P)); [now left|now right]. }
  assert (L : w <= fold_left Z.max r y).
  { apply (Permutation_in _ P) in Hin. destruct Hin as [<-|Hin]; [apply fold_max_ge|now apply fold_max_in]. }
  lia.
Qed.

Lemma ab_ok_refl v a b : ab_ok v v a b. Proof. unfold ab_ok. lia. Qed.
Lemma ab_ok_clamp w a b : a < b -> ab_ok (Z.min b (Z.max a w)) w a b. Proof. unfold ab_ok. lia. Qed.

Lemma max_children_ext (rec rec' : BoardState -> option Z) ms : forall i,
  (forall m, In m ms -> rec m = rec' m) -> max_children rec ms i = max_children rec' ms i.
Proof.
  induction ms as [|m ms IH]; intros i H; [reflexivity|]. unfold max_children in *. cbn [fold_left].
  rewrite (H m (or_introl eq_refl)). apply IH. intros m' Hm'. apply H. now right.
Qed.

Section Spec.
Variable zt : ztable.

(* ---- the plain value depends on the repetition record only as a lookup function *)
Lemma negamax_equiv F : forall b d ply t t', dt_equiv t t' -> negamax zt F b d ply t = negamax zt F b d ply t'.
Proof.
  induction F as [|F IH]; intros b d ply t t' E; [reflexivity|]. cbn [negamax].
  rewrite (threefold_equiv t t' b E). destruct (is_threefold_repetition t' b); [reflexivity|]. cbv zeta.
  destruct ((d =? 0) && negb (is_check b (to_move b))); [reflexivity|].
  destruct (generate_moves zt b AllMoves) as [|m0 rest]; [reflexivity|].
  pose proof (dt_add_equiv t t' b E) as E'.
  rewrite (IH m0 _ _ _ _ E'). apply max_children_ext. intros m _. apply IH. exact E'.
Qed.

(* ---- the range of the plain value: quiescence values are static evaluations; main-search values stay inside
   the mate magnitude of their ply as long as the tree is at most 100 plies high *)
Lemma qvalue_range F : forall b w, qvalue zt F b = Some w -> Z.abs w <= eval_bound.
Proof.
  induction F as [|F IH]; intros b w H; [discriminate|]. cbn [qvalue] in H.
  apply max_children_spec in H. destruct H as (i & ws & Hi & HF & [_ Hin]). injection Hi as <-.
  destruct Hin as [<-|Hin]; [apply eval_bounded|].
  apply in_map_iff in Hin. destruct Hin as (x & <- & Hx).
  assert (exists m, qvalue zt F m = Some x) as (m & Hm).
  { clear - HF Hx. induction HF as [|m y ms ys Hmy _ IH']; [contradiction|]. destruct Hx as [<-|Hx]; [eauto|auto]. }
  specialize (IH m x Hm). revert IH. generalize eval_bound. intros E IH. lia.
Qed.

Lemma negamax_range F : forall b d ply t w, 0 <= ply -> ply + Z.of_nat F <= 100 ->
  negamax zt F b d ply t = Some w -> - (M - ply) <= w <= M - ply.
Proof.
  destruct eval_bound_below_mate as [EB _]. unfold MATE_SCORE in *.
  assert (QR : forall G b w, qvalue zt G b = Some w -> Z.abs w < 100000 - 100).
  { intros G b w H. apply qvalue_range in H. revert H EB. generalize eval_bound. intros E H EB. lia. }
  clear EB.
  induction F as [|F IH]; intros b d ply t w Hp HF H; [discriminate|]. cbn [negamax] in H.
  destruct (is_threefold_repetition t b); [apply some_inj in H; subst w; lia|]. cbv zeta in H.
  destruct ((d =? 0) && negb (is_check b (to_move b))).
  { apply QR in H. lia. }
  destruct (generate_moves zt b AllMoves) as [|m0 rest].
  { destruct (is_check b (to_move b)); apply some_inj in H; subst w; unfold MATE_SCORE; lia. }
  apply max_children_spec in H. destruct H as (i & ws & Hi & HF2 & [_ Hin]).
  destruct (negamax zt F m0 _ (ply + 1) (dt_add t b)) as [w0|] eqn:E0; [|discriminate Hi]. apply some_inj in Hi. subst i.
  assert (P1 : 0 <= ply + 1) by lia. assert (P2 : ply + 1 + Z.of_nat F <= 100) by lia.
  destruct Hin as [<-|Hin].
  - specialize (IH m0 _ (ply + 1) _ w0 P1 P2 E0). lia.
  - apply in_map_iff in Hin. destruct Hin as (x & <- & Hx).
    assert (exists m, negamax zt F m ((if d =? 0 then 1 else d) - 1) (ply + 1) (dt_add t b) = Some x) as (m & Hm).
    { clear - HF2 Hx. induction HF2 as [|m y ms ys Hmy _ IH']; [contradiction|]. destruct Hx as [<-|Hx]; [eauto|auto]. }
    specialize (IH m _ (ply + 1) _ x P1 P2 Hm). lia.
Qed.

End Spec.

Section S.
Variable zt : ztable.
Variable osort : N -> list BoardState -> list BoardState.
Hypothesis osort_perm : forall i l, Permutation l (osort i l).

(* ---- quiescence: fail-hard, the clamp of the plain value *)
Definition q_exact (F : nat) (qrec : q_fn) : Prop :=
  forall b a be s v s' w, a < be -> qrec b a be s = Ok (v, s') -> qvalue zt F b = Some w -> v = Z.min be (Z.max a w).

Lemma q_loop_exact F qrec : q_exact F qrec -> forall ms ws a be s v s', a < be ->
  Forall2 (fun m x => qvalue zt F m = Some x) ms ws -> q_loop qrec ms a be s = Ok (v, s') ->
  v = Z.min be (fold_left Z.max (map Z.opp ws) a).
Proof.
  intros Hq. induction ms as [|m rest IH]; intros ws a be s v s' Hab HF H; inversion HF as [|m' x ms' xs Hx HF']; subst; cbn [q_loop] in H.
  - assert (v = a) by congruence. subst v. cbn [map fold_left]. lia.
  - destruct (qrec m (- be) (- a) s) as [[v1 s1]| |] eqn:E; try discriminate H.
    pose proof (Hq m (- be) (- a) s v1 s1 x ltac:(lia) E Hx) as E1.
    cbn [map fold_left]. destruct (Z.leb_spec be (- v1)) as [C|C].
    + assert (v = be) by congruence. subst v. pose proof (fold_max_ge (map Z.opp xs) (Z.max a (- x))). lia.
    + apply (IH xs) in H; [|destruct (a <? - v1); lia|exact HF'].
      replace (Z.max a (- x)) with (if a <? - v1 then - v1 else a); [exact H|]. destruct (Z.ltb_spec a (- v1)); lia.
Qed.

Lemma do_sort_perm l s : Permutation l (fst (do_sort osort l s)).
Proof. unfold do_sort. cbn [fst]. apply osort_perm. Qed.

Lemma quiesce_exact f : forall F, q_exact F (quiesce zt osort None f).
Proof.
  induction f as [|f IH]; intros F b a be s v s' w Hab H Hw; [discriminate H|]. destruct F as [|F]; [discriminate Hw|].
  cbn [quiesce] in H. unfold out_of_time in H. cbn match in H. cbn [qvalue] in Hw.
  apply max_children_spec in Hw. destruct Hw as (i & ws & Hi & HF & Hm). apply some_inj in Hi. subst i.
  destruct (Z.leb_spec be (get_evaluation b)) as [C|C].
  - assert (v = be) by congruence. subst v. assert (get_evaluation b <= w) by (apply (proj1 Hm); now left). lia.
  - set (s0 := node_searched (with_clock s (clock s + 1)%N)) in *.
    pose proof (do_sort_perm (generate_moves zt b CapturesOnly) s0) as P.
    destruct (do_sort osort (generate_moves zt b CapturesOnly) s0) as [moves s1]. cbn [fst] in P.
    destruct (Forall2_perm_values _ _ _ _ P HF) as (ws' & Pw & HF').
    apply (q_loop_exact F _ (IH F) moves ws') in H; [|destruct (a <? get_evaluation b); lia|exact HF'].
    rewrite H. f_equal.
    replace (if a <? get_evaluation b then get_evaluation b else a) with (Z.max a (get_evaluation b)) by (destruct (Z.ltb_spec a (get_evaluation b)); lia).
    apply (fold_max_is_max w (get_evaluation b) (map Z.opp ws) (map Z.opp ws') a Hm). now apply Permutation_map.
Qed.


(* ---- the main search *)
(* the plain value does not depend on the ordering field of the node (discharged in Proofs/OhCongruence.v) *)
Hypothesis negamax_oh : forall F a b d ply t, same_move a b -> negamax zt F a d ply t = negamax zt F b d ply t.

Definition ab_exact (F : nat) (rec : search_fn) : Prop :=
  forall b d ply a be n s v s' w t, 0 <= d <= 2 -> 0 <= ply -> ply + Z.of_nat F <= 100 -> a < be ->
    dt_nonneg t -> dt_equiv (table s) t ->
    rec b d ply a be n s = Ok (v, s') -> negamax zt F b d ply t = Some w -> ab_ok v w a be.

Lemma rank_moves_same s ply l r : rank_moves s ply l = Ok r -> Forall2 same_move r l.
Proof.
  unfold rank_moves. destruct (arr_get (pv_moves s) ply) as [pvm|]; [|discriminate]. destruct (arr_get (killers s) ply) as [ks|]; [|discriminate].
  intros H. apply ok_inj in H. subst r. induction l as [|m l IH]; cbn [map]; constructor; [|exact IH].
  destruct (opt_mv2_eqb (last_move m) pvm); [apply same_move_with_oh|]. destruct (existsb _ ks); [apply same_move_with_oh|apply same_move_refl].
Qed.

Section Node.
Variable F : nat.
Variable rec : search_fn.
Hypothesis Hrec : ab_exact F rec.
Hypothesis Hpres : ab_pres rec.
Variable b : BoardState.
Variable t0 : dtable.
Hypothesis N0 : dt_nonneg t0.
Variables depth ply : Z.
Hypothesis Hd : 1 <= depth <= 2.
Hypothesis Hp : 0 <= ply.
Hypothesis HF : ply + 1 + Z.of_nat F <= 100.

Definition cval (m : BoardState) (x : Z) : Prop := negamax zt F m (depth - 1) (ply + 1) (dt_add t0 b) = Some x.

Lemma child_ok s m x a' b' n v s1 : Inv b t0 s -> cval m x -> a' < b' ->
  rec m (depth - 1) (ply + 1) a' b' n s = Ok (v, s1) -> ab_ok v x a' b' /\ Inv b t0 s1.
Proof.
  intros I Hx Hab E. split.
  - apply (Hrec m (depth - 1) (ply + 1) a' b' n s v s1 x (dt_add t0 b)); try assumption; try lia. now apply dt_nonneg_add.
  - unfold Inv. eapply dt_equiv_trans; [|exact I]. eapply Hpres; [|exact E]. eapply dt_nonneg_equiv; [exact I|]. now apply dt_nonneg_add.
Qed.

Lemma Inv_table s s1 : Inv b t0 s -> table s1 = table s -> Inv b t0 s1.
Proof. unfold Inv. intros I E. now rewrite E. Qed.

Lemma ab_loop_exact a be : forall ms ws alpha best D s v s',
  Inv b t0 s -> Forall2 cval ms ws -> alpha = Z.max a best -> alpha < be -> D <= best -> (a < best -> D = best) ->
  ab_loop rec b depth ply be ms alpha best s = Ok (v, s') ->
  ab_ok v (fold_left Z.max (map Z.opp ws) D) a be.
Proof.
  induction ms as [|m rest IH]; intros ws alpha best D s v s' I HFv Ha Hab HD1 HD2 H;
    inversion HFv as [|m' x ms' xs Hx HF']; subst; cbn [ab_loop] in H.
  - unfold leave in H. assert (v = best) by congruence. subst v. cbn [map fold_left]. unfold ab_ok. lia.
  - destruct (insert_into_cur_line s ply m) as [s1| |] eqn:E1; try discriminate H.
    assert (I1 : Inv b t0 s1) by (eapply Inv_table; [exact I|eapply insert_cur_table; eauto]).
    destruct (rec m (depth - 1) (ply + 1) (- Z.max a best - 1) (- Z.max a best) true s1) as [[v1 s2]| |] eqn:E2; try discriminate H.
    destruct (child_ok s1 m x (- Z.max a best - 1) (- Z.max a best) true v1 s2 I1 Hx ltac:(lia) E2) as [K1 I2].
    cbn [map fold_left]. set (W := fold_left Z.max (map Z.opp xs) (Z.max D (- x))).
    assert (WX : - x <= W) by (pose proof (fold_max_ge (map Z.opp xs) (Z.max D (- x))); unfold W; lia).
    unfold ab_ok in K1.
    destruct ((Z.max a best <? - v1) && (- v1 <? be)) eqn:RS.
    + apply andb_true_iff in RS. destruct RS as [R1 R2]. apply Z.ltb_lt in R1, R2.
      destruct (rec m (depth - 1) (ply + 1) (- be) (- Z.max a best) true s2) as [[v2 s3]| |] eqn:E3; try discriminate H.
      destruct (child_ok s2 m x (- be) (- Z.max a best) true v2 s3 I2 Hx ltac:(lia) E3) as [K2 I3]. unfold ab_ok in K2.
      destruct (Z.ltb_spec best (- v2)) as [B|B]; [|exfalso; lia].
      destruct (Z.leb_spec be (- v2)) as [C|C].
      * assert (v = - v2).
        { destruct (order_heuristic m =? 0); [destruct (insert_killer_move s3 ply m); try discriminate H|]; unfold leave in H; congruence. }
        subst v. unfold ab_ok. lia.
      * apply (IH xs _ _ (Z.max D (- x)) _ v s') in H; [exact H| | | | | |].
        -- eapply Inv_table; [exact I3|reflexivity].
        -- exact HF'.
        -- destruct (Z.ltb_spec (Z.max a best) (- v2)); lia.
        -- destruct (Z.ltb_spec (Z.max a best) (- v2)); lia.
        -- lia.
        -- lia.
    + apply andb_false_iff in RS. rewrite Z.ltb_ge, Z.ltb_ge in RS.
      destruct (Z.ltb_spec best (- v1)) as [B|B].
      * destruct (Z.leb_spec be (- v1)) as [C|C].
        -- assert (v = - v1).
           { destruct (order_heuristic m =? 0); [destruct (insert_killer_move s2 ply m); try discriminate H|]; unfold leave in H; congruence. }
           subst v. unfold ab_ok. lia.
        -- apply (IH xs _ _ (Z.max D (- x)) _ v s') in H; [exact H| | | | | |].
           ++ eapply Inv_table; [exact I2|reflexivity].
           ++ exact HF'.
           ++ lia.
           ++ lia.
           ++ lia.
           ++ lia.
      * apply (IH xs _ _ (Z.max D (- x)) _ v s') in H; [exact H|exact I2|exact HF'|reflexivity|lia|lia|lia].
Qed.

(* the node's plain value, as negamax computes it after the repetition test and the depth extension *)
Definition node_value : option Z :=
  match generate_moves zt b AllMoves with
  | [] => if is_check b (to_move b) then Some (- (MATE_SCORE - ply)) else Some 0
  | m0 :: rest =>
      max_children (fun mov => negamax zt F mov (depth - 1) (ply + 1) (dt_add t0 b)) rest
                   (match negamax zt F m0 (depth - 1) (ply + 1) (dt_add t0 b) with Some v => Some (- v) | None => None end)
  end.

Lemma cval_same m m' x : same_move m' m -> cval m x -> cval m' x.
Proof. unfold cval. intros S H. now rewrite (negamax_oh F m' m _ _ _ S). Qed.

Lemma ab_moves_exact a be s v s' w : Inv b t0 s -> a < be ->
  ab_moves zt osort rec b depth ply a be s = Ok (v, s') -> node_value = Some w -> ab_ok v w a be.
Proof.
  intros I Hab H Hw. unfold ab_moves in H. unfold node_value in Hw.
  destruct (generate_moves zt b AllMoves) as [|g0 gs] eqn:G.
  { destruct (is_check b (to_move b)); unfold leave in H; assert (v = w) by congruence; subst; apply ab_ok_refl. }
  apply max_children_spec in Hw. destruct Hw as (i & ws & Hi & HF2 & Hm).
  destruct (negamax zt F g0 (depth - 1) (ply + 1) (dt_add t0 b)) as [w0|] eqn:E0; [|discriminate Hi]. apply some_inj in Hi. subst i.
  assert (HFg : Forall2 cval (g0 :: gs) (w0 :: ws)) by (constructor; assumption).
  destruct (rank_moves s ply (g0 :: gs)) as [ranked| |] eqn:RK; try discriminate H.
  assert (HFr : Forall2 cval ranked (w0 :: ws)).
  { pose proof (rank_moves_same _ _ _ _ RK) as SM. clear - SM HFg negamax_oh. revert HFg. generalize (w0 :: ws).
    induction SM as [|r g rs gs' Srg _ IH]; intros l HFg; inversion HFg; subst; constructor; [eapply cval_same; eauto|auto]. }
  pose proof (do_sort_perm ranked s) as P.
  destruct (do_sort osort ranked s) as [sorted s1] eqn:DS. cbn [fst] in P.
  assert (I1 : Inv b t0 s1).
  { eapply Inv_table; [exact I|]. change s1 with (snd (sorted, s1)). rewrite <- DS. reflexivity. }
  destruct (Forall2_perm_values _ _ _ _ P HFr) as (ws' & Pw & HFs).
  destruct sorted as [|m0 rest]; [discriminate H|]. inversion HFs as [|m' x0 ms' xs Hx0 HFrest]; subst.
  assert (FM : fold_left Z.max (map Z.opp xs) (- x0) = w).
  { assert (Hm' : is_max w (- w0 :: map Z.opp ws)) by exact Hm.
    apply (is_max_fold w (- w0) (map Z.opp ws) (map Z.opp (x0 :: xs)) Hm'). change (- w0 :: map Z.opp ws) with (map Z.opp (w0 :: ws)).
    now apply Permutation_map. }
  destruct (insert_into_cur_line s1 ply m0) as [s2| |] eqn:E2; try discriminate H.
  assert (I2 : Inv b t0 s2) by (eapply Inv_table; [exact I1|eapply insert_cur_table; eauto]).
  set (s3 := if negb (order_heuristic m0 =? POS_INF) then set_principle_variation s2 else s2) in *.
  assert (I3 : Inv b t0 s3) by (unfold s3; destruct (negb _); [eapply Inv_table; [exact I2|reflexivity]|exact I2]).
  destruct (rec m0 (depth - 1) (ply + 1) (- be) (- a) true s3) as [[v0 s4]| |] eqn:E4; try discriminate H.
  destruct (child_ok s3 m0 x0 (- be) (- a) true v0 s4 I3 Hx0 ltac:(lia) E4) as [K0 I4]. unfold ab_ok in K0.
  assert (WX : - x0 <= w) by (rewrite <- FM; apply fold_max_ge).
  destruct (Z.ltb_spec a (- v0)) as [A|A]; cbn [andb] in H.
  - destruct (Z.leb_spec be (- v0)) as [C|C].
    + unfold leave in H. assert (v = - v0) by congruence. subst v. unfold ab_ok. lia.
    + rewrite <- FM. apply (ab_loop_exact a be rest xs (- v0) (- v0) (- x0) (set_principle_variation s4) v s'); [eapply Inv_table; [exact I4|reflexivity]|exact HFrest|lia|lia|lia|lia|exact H].
  - rewrite <- FM. apply (ab_loop_exact a be rest xs a (- v0) (- x0) s4 v s'); [exact I4|exact HFrest|lia|lia|lia|lia|exact H].
Qed.

End Node.

Lemma clamp_window v w a be ply : - (M - ply) <= w <= M - ply -> a < be ->
  (Z.min be (M - ply) <= Z.max a (- M + ply) -> ab_ok (Z.max a (- M + ply)) w a be) /\
  (Z.max a (- M + ply) < Z.min be (M - ply) -> ab_ok v w (Z.max a (- M + ply)) (Z.min be (M - ply)) -> ab_ok v w a be).
Proof. unfold ab_ok. lia. Qed.

Lemma ab_body_exact F rec qrec b t0 d ply a be n s v s' w :
  ab_exact F rec -> ab_pres rec -> q_exact F qrec -> dt_nonneg t0 ->
  0 <= d <= 2 -> 0 <= ply -> ply + 1 + Z.of_nat F <= 100 -> a < be -> Inv b t0 s ->
  - (M - ply) <= w <= M - ply ->
  ab_body zt osort rec qrec b d ply a be n s = Ok (v, s') ->
  (if (d =? 0) && negb (is_check b (to_move b)) then qvalue zt F b
   else node_value F b t0 ((if d =? 0 then 1 else d)) ply) = Some w ->
  ab_ok v w a be.
Proof.
  intros Hrec Hpres Hq N0 Hd Hp HF Hab I Rw H Hw. unfold ab_body in H.
  destruct ((d =? 0) && negb (is_check b (to_move b))) eqn:Q.
  { rewrite (Hq _ _ _ _ _ _ w Hab H Hw). now apply ab_ok_clamp. }
  set (depth' := if d =? 0 then d + 1 else d) in *.
  assert (Ed : depth' = if d =? 0 then 1 else d) by (unfold depth'; destruct (Z.eqb_spec d 0); lia).
  assert (Hd' : 1 <= depth' <= 2) by (unfold depth'; destruct (Z.eqb_spec d 0); lia).
  rewrite <- Ed in Hw.
  destruct (clamp_window v w a be ply Rw Hab) as [CW1 CW2].
  destruct (Z.leb_spec (Z.min be (M - ply)) (Z.max a (- M + ply))) as [C|C].
  { unfold leave in H. assert (v = Z.max a (- M + ply)) by congruence. subst v. now apply CW1. }
  assert (NN : n && (NULL_MIN_DEPTH <=? depth') && negb (is_check b (to_move b)) = false).
  { assert (E : (NULL_MIN_DEPTH <=? depth') = false) by (apply Z.leb_gt; unfold NULL_MIN_DEPTH; lia). rewrite E. now rewrite andb_false_r. }
  rewrite NN in H. apply (CW2 C).
  exact (ab_moves_exact F rec Hrec Hpres b t0 N0 depth' ply Hd' Hp HF _ _ s v s' w I C H Hw).
Qed.

Theorem alpha_beta_exact f : forall F, ab_exact F (alpha_beta zt osort None f).
Proof.
  induction f as [|f IH]; intros F b d ply a be n s v s' w t Hd Hp HF Hab NN E H Hw; [discriminate H|].
  destruct F as [|F]; [discriminate Hw|].
  pose proof (negamax_range zt (S F) b d ply t w Hp HF Hw) as Rw.
  cbn [alpha_beta] in H. unfold out_of_time in H. cbn match in H. cbn [negamax] in Hw.
  set (s2 := with_maxply (node_searched (with_clock s (clock s + 1)%N))
                         (Z.max (max_ply (node_searched (with_clock s (clock s + 1)%N))) ply)) in *.
  assert (T2 : table s2 = table s) by reflexivity.
  rewrite T2, (threefold_equiv (table s) t b E) in H.
  destruct (is_threefold_repetition t b).
  { assert (v = 0) by congruence. apply some_inj in Hw. subst. apply ab_ok_refl. }
  cbv zeta in Hw.
  apply (ab_body_exact F (alpha_beta zt osort None f) (quiesce zt osort None f) b t d ply a be n (with_table s2 (dt_add (table s2) b)) v s' w
           (IH F) (alpha_beta_restores zt osort None f) (quiesce_exact f F) NN Hd Hp ltac:(lia) Hab); [|exact Rw|exact H|].
  - unfold Inv. cbn [table with_table]. now apply dt_add_equiv.
  - destruct ((d =? 0) && negb (is_check b (to_move b))); [exact Hw|]. exact Hw.
Qed.

End S.
