(* Root level consequences of the clock simulation:
   - no taint: an evaluation the root accepts was computed by a sub-search during which the clock never
     expired, hence it is the value an unlimited search computes from the same state;
   - prefix: a larger allowance only extends the sequence of reported improvements. *)
From Walleye Require Import Model.Search Proofs.ClockSim.
Open Scope Z_scope.

Definition ev_infos (l : list event) : list str :=
  flat_map (fun e => match e with Info _ _ x => [x] | Send _ => [] end) l.

Lemma ev_infos_app a b : ev_infos (a ++ b) = ev_infos a ++ ev_infos b.
Proof. unfold ev_infos. apply flat_map_app. Qed.

Section S.
Variable zt : ztable.
Variable osort : N -> list BoardState -> list BoardState.

(* ---- no taint *)
Theorem accepted_value_is_untainted k fuel mov d ply a be n s v s1 s2 :
  alpha_beta zt osort k fuel mov d ply a be n s = Ok (v, s1) ->
  clock s2 = clock s1 ->
  fst (out_of_time k s2) = false ->
  alpha_beta zt osort None fuel mov d ply a be n s = Ok (v, s1).
Proof.
  intros H C F.
  destruct k as [kk|]; [|exact H].
  assert (Q : quiet (Some kk) s1).
  { unfold quiet. unfold out_of_time in F. cbn [fst] in F. apply N.leb_gt in F. lia. }
  destruct (alpha_beta_sim zt osort (Some kk) None Logic.I fuel _ _ _ _ _ _ _ _ _ H) as [_ T]. exact (T Q).
Qed.

(* ---- events only grow *)
Lemma root_moves_grow k fuel first : forall ms d alpha r o r',
  root_moves zt osort k fuel first ms d alpha r = Ok (o, r') ->
  (exists more, r_events r' = more ++ r_events r) /\ (forall r'', o = Some r'' -> r'' = r').
Proof.
  induction ms as [|mov rest IH]; intros d alpha r o r' H; cbn [root_moves] in H.
  - inversion H; subst. split; [exists []; reflexivity|intros r'' E; inversion E; reflexivity].
  - destruct (out_of_time k (r_s r)) as [expired s] eqn:E.
    destruct expired.
    + inversion H; subst. cbn [r_events]. split; [|intros r'' E'; discriminate].
      destruct (r_best r); [exists []; reflexivity|exists [Send first]; reflexivity].
    + destruct (alpha_beta zt osort k fuel mov (d - 1) 1 (- POS_INF) (- alpha) true s) as [[v s1]| |]; try discriminate.
      destruct (insert_into_cur_line s1 0 mov) as [s2| |]; try discriminate.
      destruct (alpha <? - v).
      * destruct (out_of_time k s2) as [expired2 s3].
        destruct expired2; cbn [negb] in H.
        -- destruct (IH _ _ _ _ _ H) as [[more Hm] Ho]. cbn [r_events] in Hm. split; [exists more; exact Hm|exact Ho].
        -- destruct (IH _ _ _ _ _ H) as [[more Hm] Ho]. cbn [r_events] in Hm. split; [|exact Ho].
           exists (more ++ [Info d (- v) (info_line (set_principle_variation s3) d (- v)); Send mov]).
           rewrite Hm, <- app_assoc. reflexivity.
      * destruct (IH _ _ _ _ _ H) as [[more Hm] Ho]. cbn [r_events] in Hm. split; [exists more; exact Hm|exact Ho].
Qed.

Lemma root_depths_grow k fuel b : forall iters moves d r r',
  root_depths zt osort k iters fuel b moves d r = Ok r' -> exists more, r_events r' = more ++ r_events r.
Proof.
  induction iters as [|it IH]; intros moves d r r' H; cbn [root_depths] in H.
  - inversion H; subst. exists []; reflexivity.
  - destruct (MAX_DEPTH <=? d); [inversion H; subst; exists []; reflexivity|].
    destruct (do_sort osort moves (reset_search (r_s r))) as [sorted s].
    destruct sorted as [|first rest].
    + destruct (IH _ _ _ _ H) as [more Hm]. exists more. exact Hm.
    + destruct (root_moves zt osort k fuel first (first :: rest) d NEG_INF (mkR s (r_best r) (r_events r))) as [[o r3]| |] eqn:RM; try discriminate.
      destruct (root_moves_grow _ _ _ _ _ _ _ _ _ RM) as [[m1 Hm1] Ho]. cbn [r_events] in Hm1.
      destruct o as [r''|].
      * rewrite (Ho r'' eq_refl) in H. destruct (IH _ _ _ _ H) as [m2 Hm2].
        exists (m2 ++ m1). rewrite Hm2, Hm1, app_assoc. reflexivity.
      * inversion H; subst. exists m1. exact Hm1.
Qed.

(* ---- once the clock has expired, nothing more is reported *)
Section Dead.
Variable kk : N.
Notation k1 := (Some kk).

Definition dead (s : sstate) : Prop := (kk < clock s)%N.

Lemma root_moves_dead fuel first : forall ms d alpha r o r',
  dead (r_s r) -> root_moves zt osort k1 fuel first ms d alpha r = Ok (o, r') ->
  ev_infos (r_events r') = ev_infos (r_events r) /\ dead (r_s r').
Proof.
  intros ms d alpha r o r' D H. destruct ms as [|mov rest]; cbn [root_moves] in H.
  - inversion H; subst. split; [reflexivity|exact D].
  - unfold out_of_time in H. cbn match in H.
    assert (E : (kk <=? clock (r_s r))%N = true) by (apply N.leb_le; unfold dead in D; lia).
    rewrite E in H. inversion H; subst. cbn [r_events r_s]. split.
    + destruct (r_best r); reflexivity.
    + unfold dead in *. cbn [clock with_clock]. lia.
Qed.

Lemma root_depths_dead fuel b : forall iters moves d r r',
  dead (r_s r) -> root_depths zt osort k1 iters fuel b moves d r = Ok r' ->
  ev_infos (r_events r') = ev_infos (r_events r).
Proof.
  induction iters as [|it IH]; intros moves d r r' D H; cbn [root_depths] in H.
  - inversion H; reflexivity.
  - destruct (MAX_DEPTH <=? d); [inversion H; reflexivity|].
    destruct (do_sort osort moves (reset_search (r_s r))) as [sorted s] eqn:DS.
    assert (Ds : dead s).
    { unfold dead in *. change s with (snd (sorted, s)). rewrite <- DS. exact D. }
    destruct sorted as [|first rest].
    + assert (HH := fun D0 => IH _ _ _ _ D0 H). rewrite (HH Ds). reflexivity.
    + destruct (root_moves zt osort k1 fuel first (first :: rest) d NEG_INF (mkR s (r_best r) (r_events r))) as [[o r3]| |] eqn:RM; try discriminate.
      assert (HD := fun D0 => root_moves_dead fuel first _ _ _ _ _ _ D0 RM). destruct (HD Ds) as [I3 D3]. cbn [r_events] in I3.
      destruct (root_moves_grow _ _ _ _ _ _ _ _ _ RM) as [_ Ho].
      destruct o as [r''|].
      * rewrite (Ho r'' eq_refl) in H. rewrite (IH _ _ _ _ D3 H). exact I3.
      * inversion H; subst. exact I3.
Qed.

End Dead.

(* ---- prefix *)
Section Prefix.
Variable kk : N.
Variable k2 : option N.
Hypothesis Hk : le_k (Some kk) k2.
Notation k1 := (Some kk).

(* either the two runs coincide so far and the first is still within its allowance,
   or the first has expired and the second has reported at least as much *)
Definition rel (r1 r2 : root_state) : Prop :=
  (r1 = r2 /\ quiet k1 (r_s r1)) \/
  (dead kk (r_s r1) /\ exists more, ev_infos (r_events r2) = more ++ ev_infos (r_events r1)).

Lemma quiet_or_dead s : quiet k1 s \/ dead kk s.
Proof. unfold quiet, dead. lia. Qed.

Lemma out_of_time_k2_false s : quiet k1 (snd (out_of_time k1 s)) -> fst (out_of_time k2 s) = false.
Proof.
  intros Q. apply out_of_time_quiet_false. apply (quiet_le k1 k2 _ Hk). exact Q.
Qed.

Lemma root_moves_prefix fuel first : forall ms d alpha r o1 r1 o2 r2,
  quiet k1 (r_s r) ->
  root_moves zt osort k1 fuel first ms d alpha r = Ok (o1, r1) ->
  root_moves zt osort k2 fuel first ms d alpha r = Ok (o2, r2) ->
  (r1 = r2 /\ o1 = o2 /\ quiet k1 (r_s r1)) \/
  (dead kk (r_s r1) /\ exists more, ev_infos (r_events r2) = more ++ ev_infos (r_events r1)).
Proof.
  induction ms as [|mov rest IH]; intros d alpha r o1 r1 o2 r2 Q H1 H2.
  - cbn [root_moves] in H1, H2. inversion H1; inversion H2; subst. left. repeat split; auto.
  - (* whatever happens, the second run's events extend r's *)
    destruct (root_moves_grow _ _ _ _ _ _ _ _ _ H2) as [[more2 G2] _].
    assert (Ext : forall rr, ev_infos (r_events rr) = ev_infos (r_events r) -> dead kk (r_s rr) ->
                             dead kk (r_s rr) /\ exists more, ev_infos (r_events r2) = more ++ ev_infos (r_events rr)).
    { intros rr Er Dr. split; [exact Dr|]. exists (ev_infos more2). rewrite G2, ev_infos_app, Er. reflexivity. }
    cbn [root_moves] in H1, H2.
    assert (SameS : snd (out_of_time k2 (r_s r)) = snd (out_of_time k1 (r_s r))) by reflexivity.
    destruct (out_of_time k1 (r_s r)) as [e1 s] eqn:E1.
    destruct (out_of_time k2 (r_s r)) as [e2 s'] eqn:E2. cbn [snd] in SameS. subst s'.
    destruct e1.
    + (* the first run stops here *)
      inversion H1; subst. right. apply Ext.
      * cbn [r_events]. destruct (r_best r); reflexivity.
      * cbn [r_s]. unfold out_of_time in E1. inversion E1; subst. unfold dead. cbn [clock with_clock].
        apply N.leb_le in H0. lia.
    + assert (Qs : quiet k1 s).
      { unfold out_of_time in E1. inversion E1; subst. unfold quiet. cbn [clock with_clock]. apply N.leb_gt in H0. lia. }
      assert (e2 = false).
      { pose proof (out_of_time_k2_false (r_s r)) as F. rewrite E1, E2 in F. cbn [fst snd] in F. now apply F. }
      subst e2.
      destruct (alpha_beta zt osort k1 fuel mov (d - 1) 1 (- POS_INF) (- alpha) true s) as [[v s1]| |] eqn:AB1; try discriminate.
      destruct (alpha_beta_sim zt osort k1 k2 Hk fuel _ _ _ _ _ _ _ _ _ AB1) as [M1 T1].
      destruct (quiet_or_dead s1) as [Q1|D1].
      * (* the sub-search finished within the allowance: the second run computes the same *)
        rewrite (T1 Q1) in H2.
        destruct (insert_into_cur_line s1 0 mov) as [s2| |] eqn:I2; try discriminate.
        pose proof (insert_cur_clock _ _ _ _ I2) as C2.
        destruct (alpha <? - v).
        -- assert (SameS3 : snd (out_of_time k2 s2) = snd (out_of_time k1 s2)) by reflexivity.
           destruct (out_of_time k1 s2) as [x1 s3] eqn:X1.
           destruct (out_of_time k2 s2) as [x2 s3'] eqn:X2. cbn [snd] in SameS3. subst s3'.
           destruct x1; cbn [negb] in H1.
           ++ (* the clock expired exactly at the acceptance test: the first run reports nothing more *)
              assert (D3 : dead kk s3).
              { unfold out_of_time in X1. inversion X1; subst. unfold dead. cbn [clock with_clock]. apply N.leb_le in H0. lia. }
              assert (HD := fun D0 => root_moves_dead kk fuel first _ _ _ _ _ _ D0 H1). destruct (HD D3) as [I1 Dr1]. cbn [r_events r_s] in I1.
              right. apply Ext; assumption.
           ++ assert (Q3 : quiet k1 s3).
              { unfold out_of_time in X1. inversion X1; subst. unfold quiet. cbn [clock with_clock]. apply N.leb_gt in H0. lia. }
              assert (x2 = false).
              { pose proof (out_of_time_k2_false s2) as F. rewrite X1, X2 in F. cbn [fst snd] in F. now apply F. }
              subst x2. cbn [negb] in H2.
              assert (HI := fun Q0 => IH _ _ _ _ _ _ _ Q0 H1 H2). exact (HI Q3).
        -- assert (Q2 : quiet k1 s2) by (unfold quiet in *; rewrite C2; exact Q1).
           assert (HI := fun Q0 => IH _ _ _ _ _ _ _ Q0 H1 H2). exact (HI Q2).
      * (* the clock expired inside the sub-search: nothing more is reported by the first run *)
        destruct (insert_into_cur_line s1 0 mov) as [s2| |] eqn:I2; try discriminate.
        pose proof (insert_cur_clock _ _ _ _ I2) as C2.
        assert (D2 : dead kk s2) by (unfold dead in *; rewrite C2; exact D1).
        destruct (alpha <? - v).
        -- unfold out_of_time in H1. cbn match in H1.
           assert (E : (kk <=? clock s2)%N = true) by (apply N.leb_le; unfold dead in D2; lia).
           rewrite E in H1. cbn [negb] in H1.
           assert (D3 : dead kk (with_clock s2 (clock s2 + 1)%N)) by (unfold dead in *; cbn [clock with_clock]; lia).
           assert (HD := fun D0 => root_moves_dead kk fuel first _ _ _ _ _ _ D0 H1). destruct (HD D3) as [I1 Dr1]. cbn [r_events r_s] in I1.
           right. apply Ext; assumption.
        -- assert (HD := fun D0 => root_moves_dead kk fuel first _ _ _ _ _ _ D0 H1). destruct (HD D2) as [I1 Dr1]. cbn [r_events r_s] in I1.
           right. apply Ext; assumption.
Qed.

Lemma root_depths_prefix fuel b : forall iters moves d r r1 r2,
  quiet k1 (r_s r) ->
  root_depths zt osort k1 iters fuel b moves d r = Ok r1 ->
  root_depths zt osort k2 iters fuel b moves d r = Ok r2 ->
  exists more, ev_infos (r_events r2) = more ++ ev_infos (r_events r1).
Proof.
  induction iters as [|it IH]; intros moves d r r1 r2 Q H1 H2; cbn [root_depths] in H1, H2.
  - inversion H1; inversion H2; subst. exists []; reflexivity.
  - destruct (MAX_DEPTH <=? d); [inversion H1; inversion H2; subst; exists []; reflexivity|].
    destruct (do_sort osort moves (reset_search (r_s r))) as [sorted s] eqn:DS.
    assert (Qs : quiet k1 s).
    { unfold quiet in *. change s with (snd (sorted, s)). rewrite <- DS. exact Q. }
    destruct sorted as [|first rest].
    + assert (HI := fun Q0 => IH _ _ _ _ _ Q0 H1 H2). exact (HI Qs).
    + destruct (root_moves zt osort k1 fuel first (first :: rest) d NEG_INF (mkR s (r_best r) (r_events r))) as [[o1 ra]| |] eqn:RM1; try discriminate.
      destruct (root_moves zt osort k2 fuel first (first :: rest) d NEG_INF (mkR s (r_best r) (r_events r))) as [[o2 rb]| |] eqn:RM2; try discriminate.
      destruct (root_moves_grow _ _ _ _ _ _ _ _ _ RM1) as [_ Ho1].
      destruct (root_moves_grow _ _ _ _ _ _ _ _ _ RM2) as [_ Ho2].
      assert (HP := fun Q0 => root_moves_prefix fuel first _ _ _ _ _ _ _ _ Q0 RM1 RM2).
      destruct (HP Qs) as [[Er [Eo Qa]]|[Da [more Hm]]].
      * subst rb o2. destruct o1 as [r''|].
        -- rewrite (Ho1 r'' eq_refl) in H1, H2. apply (IH _ _ _ _ _ Qa H1 H2).
        -- inversion H1; inversion H2; subst. exists []; reflexivity.
      * (* the first run is dead: its reports stay what they are; the second only grows *)
        assert (I1 : ev_infos (r_events r1) = ev_infos (r_events ra)).
        { destruct o1 as [r''|].
          - rewrite (Ho1 r'' eq_refl) in H1. apply (root_depths_dead kk fuel b _ _ _ _ _ Da H1).
          - inversion H1; subst; reflexivity. }
        assert (G2 : exists m2, r_events r2 = m2 ++ r_events rb).
        { destruct o2 as [r''|].
          - rewrite (Ho2 r'' eq_refl) in H2. apply (root_depths_grow _ _ _ _ _ _ _ _ H2).
          - inversion H2; subst. exists []; reflexivity. }
        destruct G2 as [m2 G2]. exists (ev_infos m2 ++ more).
        rewrite G2, ev_infos_app, Hm, I1, app_assoc. reflexivity.
Qed.

End Prefix.

(* the theorem in chronological order: the improvements reported under the smaller allowance are a
   prefix of those reported under the larger one *)
Theorem reports_prefix k1 k2 fuel b t ev1 s1 ev2 s2 :
  le_k k1 k2 ->
  get_best_move zt osort k1 fuel b t = Ok (ev1, s1) ->
  get_best_move zt osort k2 fuel b t = Ok (ev2, s2) ->
  exists more, ev_infos ev2 = ev_infos ev1 ++ more.
Proof.
  intros Hk H1 H2. unfold get_best_move in H1, H2.
  destruct (root_depths zt osort k1 (Z.to_nat MAX_DEPTH) fuel b (generate_moves zt b AllMoves) 1 (mkR (new_search t) None [])) as [r1| |] eqn:R1; try discriminate.
  destruct (root_depths zt osort k2 (Z.to_nat MAX_DEPTH) fuel b (generate_moves zt b AllMoves) 1 (mkR (new_search t) None [])) as [r2| |] eqn:R2; try discriminate.
  inversion H1; inversion H2; subst.
  assert (Rev : forall l, ev_infos (rev l) = rev (ev_infos l)).
  { induction l as [|e l IHl]; [reflexivity|]. cbn [rev]. rewrite ev_infos_app, IHl. destruct e; cbn; [rewrite app_nil_r; reflexivity|reflexivity]. }
  destruct k1 as [kk|].
  - assert (Q0 : quiet (Some kk) (r_s (mkR (new_search t) None []))) by (unfold quiet; cbn; lia).
    destruct (root_depths_prefix kk k2 Hk fuel b _ _ _ _ _ _ Q0 R1 R2) as [more Hm].
    exists (rev more). rewrite !Rev, Hm, rev_app_distr. reflexivity.
  - destruct k2; [contradiction|]. rewrite R1 in R2. inversion R2; subst. exists []. now rewrite app_nil_r.
Qed.

End S.
