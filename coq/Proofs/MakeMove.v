(* C04: replaying the text of a generated move with make_move gives the position the generator built.
   Step 1: everything make_move reads off the text, for every UCI text of a board move. *)
From Walleye Require Import Model.TextMove Proofs.TextMoveProofs.
Open Scope Z_scope.

Definition promo_text (pr : option kind) : str := match pr with None => [] | Some k => [kind_alg k] end.
Definition move_text (a b : point) (pr : option kind) : str := show_point a ++ show_point b ++ promo_text pr.

Definition promos : list (option kind) := [None; Some Queen; Some Rook; Some Bishop; Some Knight].

Definition opt_point_is (o : option point) (p : point) : bool := match o with Some q => point_eqb q p | None => false end.
Definition is_none {A} (o : option A) : bool := match o with None => true | Some _ => false end.

(* the tests of make_move on the text, against what they mean for (from, to, promotion) *)
Definition text_facts_ok (a b : point) (pr : option kind) : bool :=
  let mv := move_text a b pr in
  negb (negb (is_ascii mv) || (Z.of_nat (length mv) <? 4))
  && opt_point_is (point_from_str (firstn 2 mv)) a
  && opt_point_is (point_from_str (firstn 2 (skipn 2 mv))) b
  && Bool.eqb (contains mv str_a8) (point_eqb a (2, 2) || point_eqb b (2, 2))
  && Bool.eqb (contains mv str_h8) (point_eqb a (2, 9) || point_eqb b (2, 9))
  && Bool.eqb (contains mv str_a1) (point_eqb a (9, 2) || point_eqb b (9, 2))
  && Bool.eqb (contains mv str_h1) (point_eqb a (9, 9) || point_eqb b (9, 9))
  && Bool.eqb (Nat.eqb (length mv) 5) (negb (is_none pr))
  && match pr with Some k => kind_eqb (promo_kind_of_char (nth 4 mv 0%N)) k | None => true end
  && Bool.eqb (str_eqb mv WHITE_KING_SIDE_CASTLE_STRING) (mv2_eqb (a, b) WHITE_KING_SIDE_CASTLE_ALG && is_none pr)
  && Bool.eqb (str_eqb mv WHITE_QUEEN_SIDE_CASTLE_STRING) (mv2_eqb (a, b) WHITE_QUEEN_SIDE_CASTLE_ALG && is_none pr)
  && Bool.eqb (str_eqb mv BLACK_KING_SIDE_CASTLE_STRING) (mv2_eqb (a, b) BLACK_KING_SIDE_CASTLE_ALG && is_none pr)
  && Bool.eqb (str_eqb mv BLACK_QUEEN_SIDE_CASTLE_STRING) (mv2_eqb (a, b) BLACK_QUEEN_SIDE_CASTLE_ALG && is_none pr).

Lemma text_facts_sweep :
  forallb (fun a => forallb (fun b => forallb (text_facts_ok a b) promos) inner_points) inner_points = true.
Proof. vm_compute. reflexivity. Qed.

Lemma text_facts a b pr : In a inner_points -> In b inner_points -> In pr promos -> text_facts_ok a b pr = true.
Proof.
  intros Ha Hb Hp. pose proof text_facts_sweep as H. rewrite forallb_forall in H. specialize (H a Ha).
  rewrite forallb_forall in H. specialize (H b Hb). rewrite forallb_forall in H. exact (H pr Hp).
Qed.

(* ---- Step 2: make_move as a function of (from, to, promotion) *)
Section M.
Variable zt : ztable.
Notation take_away := (take_away_castling_rights zt).

Definition castle_rook_pts (s : BoardState) (sp ep : point) (pr : option kind) (alg : mv2) (king : piece)
           (rook_from rook_to : point) : option BoardState :=
  if (mv2_eqb (sp, ep) alg && is_none pr) && sq_is (get (board s) ep) king then Some (move_piece zt s rook_from rook_to) else None.

Definition make_move_pts (s : BoardState) (sp ep : point) (pr : option kind) : res BoardState :=
  let s := unset_pawn_double_move zt s in
  match get (board s) sp with
  | Full pc =>
      let s :=
        match pkind pc with
        | King =>
            match pcolor pc with
            | White => take_away (take_away (with_wk s ep) WQS) WKS
            | Black => take_away (take_away (with_bk s ep) BQS) BKS
            end
        | Pawn =>
            let s :=
              if Z.abs (fst sp - fst ep) =? 2 then
                let target := match pcolor pc with White => (fst sp - 1, snd sp) | Black => (fst sp + 1, snd sp) end in
                with_pdm (kx s (z_ep zt (snd target))) (Some target)
              else s in
            if negb (snd sp =? snd ep) && square_eqb (get (board s) ep) Empty then
              kx (with_board s (set (board s) (fst sp, snd ep) Empty))
                 (z_piece zt (mkPiece (opposite (to_move s)) Pawn) (fst sp, snd ep))
            else s
        | _ => s
        end in
      let s := if point_eqb sp (2, 2) || point_eqb ep (2, 2) then take_away s BQS else s in
      let s := if point_eqb sp (2, 9) || point_eqb ep (2, 9) then take_away s BKS else s in
      let s := if point_eqb sp (9, 2) || point_eqb ep (9, 2) then take_away s WQS else s in
      let s := if point_eqb sp (9, 9) || point_eqb ep (9, 9) then take_away s WKS else s in
      let s := move_piece zt s sp ep in
      let s :=
        match pr with
        | Some k =>
            let pp := mkPiece (to_move s) k in
            with_board (kx s (N.lxor (z_piece zt (mkPiece (to_move s) Pawn) ep) (z_piece zt pp ep)))
                       (set (board s) ep (Full pp))
        | None => s
        end in
      let s :=
        match castle_rook_pts s sp ep pr WHITE_KING_SIDE_CASTLE_ALG (mkPiece White King)
                              (BOARD_END - 1, BOARD_END - 1) (BOARD_END - 1, BOARD_END - 3) with
        | Some s' => s'
        | None =>
        match castle_rook_pts s sp ep pr WHITE_QUEEN_SIDE_CASTLE_ALG (mkPiece White King)
                              (BOARD_END - 1, BOARD_START) (BOARD_END - 1, BOARD_START + 3) with
        | Some s' => s'
        | None =>
        match castle_rook_pts s sp ep pr BLACK_KING_SIDE_CASTLE_ALG (mkPiece Black King)
                              (BOARD_START, BOARD_END - 1) (BOARD_START, BOARD_END - 3) with
        | Some s' => s'
        | None =>
        match castle_rook_pts s sp ep pr BLACK_QUEEN_SIDE_CASTLE_ALG (mkPiece Black King)
                              (BOARD_START, BOARD_START) (BOARD_START, BOARD_START + 3) with
        | Some s' => s'
        | None => s
        end end end end in
      Ok (swap_color zt s)
  | _ => Panic 33
  end.

Lemma eqb_true_eq a b : Bool.eqb a b = true -> a = b. Proof. apply Bool.eqb_prop. Qed.

Lemma make_move_text s a b pr :
  In a inner_points -> In b inner_points -> In pr promos ->
  make_move zt s (move_text a b pr) = make_move_pts s a b pr.
Proof.
  intros Ha Hb Hp. pose proof (text_facts a b pr Ha Hb Hp) as F. unfold text_facts_ok in F. cbv zeta in F.
  set (mv := move_text a b pr) in *. clearbody mv.
  repeat match type of F with _ && _ = true => apply andb_true_iff in F; let X := fresh "F" in destruct F as [F X] end.
  apply negb_true_iff in F.
  repeat match goal with H : Bool.eqb _ _ = true |- _ => apply eqb_true_eq in H end.
  unfold make_move, make_move_pts. rewrite F.
  destruct (point_from_str (firstn 2 mv)) as [a'|] eqn:Pa; [|discriminate].
  destruct (point_from_str (firstn 2 (skipn 2 mv))) as [b'|] eqn:Pb; [|discriminate].
  cbn [opt_point_is] in *.
  destruct (point_eqb_spec a' a) as [->|]; [|discriminate]. destruct (point_eqb_spec b' b) as [->|]; [|discriminate].
  unfold castle_rook_step, castle_rook_pts.
  repeat match goal with H : contains _ _ = _ |- _ => rewrite H; clear H end.
  repeat match goal with H : str_eqb _ _ = _ |- _ => rewrite H; clear H end.
  match goal with H : Nat.eqb _ 5 = _ |- _ => rewrite H; clear H end.
  destruct (get (board (unset_pawn_double_move zt s)) a) as [|pc|]; try reflexivity.
  destruct pr as [k|]; cbn [is_none negb].
  - match goal with H : kind_eqb _ k = true |- _ => destruct (kind_eqb_spec (promo_kind_of_char (nth 4 mv 0%N)) k) as [->|]; [|discriminate] end.
    reflexivity.
  - reflexivity.
Qed.

End M.
