(* C15/C05/C01: what the FEN loader's row loop does to the printed placement field:
   the cells written, the key accumulated and the king caches, for every placement. *)
From Walleye Require Import Model.Fen Spec.FenPrint Spec.Abs Proofs.Cells Proofs.FenText Proofs.HashProofs.
From Coq Require Import Lia.
Open Scope Z_scope.

Section R.
Variable zt : ztable.

Definition cell_sq (c : option piece) : square := match c with Some pc => Full pc | None => Empty end.

(* one cell of the loop, as a function *)
Definition write1 (st : fen_loop) (c : option piece) : fen_loop :=
  let here := (fl_row st, fl_col st) in
  match c with
  | None => mkLoop (set (fl_board st) here Empty) (fl_row st) (fl_col st + 1) (fl_key st) (fl_wk st) (fl_bk st)
  | Some pc => mkLoop (set (fl_board st) here (Full pc)) (fl_row st) (fl_col st + 1)
                 (N.lxor (fl_key st) (z_piece zt pc here))
                 (match pkind pc, pcolor pc with King, White => here | _, _ => fl_wk st end)
                 (match pkind pc, pcolor pc with King, Black => here | _, _ => fl_bk st end)
  end.
Fixpoint write_cells (st : fen_loop) (l : list (option piece)) : fen_loop :=
  match l with [] => st | c :: t => write_cells (write1 st c) t end.

Lemma write1_board st c : fl_board (write1 st c) = set (fl_board st) (fl_row st, fl_col st) (cell_sq c).
Proof. destruct c; reflexivity. Qed.
Lemma write1_row st c : fl_row (write1 st c) = fl_row st. Proof. destruct c; reflexivity. Qed.
Lemma write1_col st c : fl_col (write1 st c) = fl_col st + 1. Proof. destruct c; reflexivity. Qed.

Lemma write_cells_app a : forall st b, write_cells st (a ++ b) = write_cells (write_cells st a) b.
Proof. induction a as [|c a IH]; intros st b; cbn [app write_cells]; [reflexivity|apply IH]. Qed.
Lemma write_cells_row l : forall st, fl_row (write_cells st l) = fl_row st.
Proof. induction l as [|c l IH]; intros st; cbn [write_cells]; [reflexivity|]. now rewrite IH, write1_row. Qed.
Lemma write_cells_col l : forall st, fl_col (write_cells st l) = fl_col st + Z.of_nat (length l).
Proof. induction l as [|c l IH]; intros st; cbn [write_cells length]; [lia|]. rewrite IH, write1_col. lia. Qed.
Lemma write_cells_length l : forall st, length (fl_board (write_cells st l)) = length (fl_board st).
Proof. induction l as [|c l IH]; intros st; cbn [write_cells]; [reflexivity|]. now rewrite IH, write1_board, set_length. Qed.

Lemma in_grid_of r c : 0 <= r < 12 -> 0 <= c < 12 -> in_grid (r, c) = true.
Proof. intros. apply in_grid_spec. cbn [fst snd]. lia. Qed.

(* ---- the loader's pieces are these functions *)
Lemma fill_empty_write n : forall st, 0 <= fl_row st < 12 -> 0 <= fl_col st -> fl_col st + Z.of_nat n <= 12 ->
  fill_empty n st = Ok (write_cells st (repeat None n)).
Proof.
  induction n as [|n IH]; intros st Hr Hc Hn; cbn [fill_empty repeat write_cells]; [reflexivity|].
  unfold set_res. rewrite in_grid_of by lia. cbn [res_bind].
  change (mkLoop (set (fl_board st) (fl_row st, fl_col st) Empty) (fl_row st) (fl_col st + 1) (fl_key st) (fl_wk st) (fl_bk st)) with (write1 st None).
  apply IH; rewrite ?write1_row, ?write1_col; lia.
Qed.

Lemma letter_not_digit pc : is_ascii_digit (piece_letter pc) = false.
Proof. destruct pc as [c k]; destruct c, k; reflexivity. Qed.
Lemma letter_back pc : piece_from_fen_char (piece_letter pc) = Some pc.
Proof. destruct pc as [c k]; destruct c, k; reflexivity. Qed.

Lemma fen_char_letter st pc : 0 <= fl_row st < 10 -> 0 <= fl_col st < 10 ->
  fen_char zt st (piece_letter pc) = Ok (write1 st (Some pc)).
Proof.
  intros Hr Hc. unfold fen_char, BOARD_END.
  destruct (Z.leb_spec 10 (fl_row st)); [lia|]. destruct (Z.leb_spec 10 (fl_col st)); [lia|]. cbn [orb].
  rewrite letter_not_digit, letter_back. unfold set_res. rewrite in_grid_of by lia. reflexivity.
Qed.

Definition run_str (run : N) : str := if (run =? 0)%N then [] else [(48 + run)%N].

Lemma fen_row_chars_app a : forall st b,
  fen_row_chars zt st (a ++ b) = res_bind (fen_row_chars zt st a) (fun st' => fen_row_chars zt st' b).
Proof.
  induction a as [|c a IH]; intros st b; cbn [app fen_row_chars res_bind]; [reflexivity|].
  destruct (fen_char zt st c) as [st'| |]; cbn [res_bind]; [apply IH|reflexivity|reflexivity].
Qed.

Lemma run_str_write st run : 0 <= fl_row st < 10 -> 2 <= fl_col st -> fl_col st + Z.of_N run <= 10 ->
  fen_row_chars zt st (run_str run) = Ok (write_cells st (repeat None (N.to_nat run))).
Proof.
  intros Hr Hc Hn. unfold run_str. destruct (N.eqb_spec run 0) as [->|Nz]; [reflexivity|].
  cbn [fen_row_chars]. unfold fen_char, BOARD_END.
  destruct (Z.leb_spec 10 (fl_row st)); [lia|]. destruct (Z.leb_spec 10 (fl_col st)); [lia|]. cbn [orb].
  assert (E : (48 + run)%N = digit_char (Z.of_N run)) by (unfold digit_char; now rewrite N2Z.id).
  rewrite E. pose proof (digit_is_digit (Z.of_N run) ltac:(lia)) as D. inversion D as [|x l Hd _]; subst x l. rewrite Hd.
  rewrite to_digit_char by lia. destruct (Z.gtb_spec (Z.of_N run + fl_col st) 10); [lia|].
  replace (Z.to_nat (Z.of_N run)) with (N.to_nat run) by lia. now rewrite fill_empty_write by lia.
Qed.

Lemma repeat_snoc {A} (a : A) n l : repeat a (S n) ++ l = repeat a n ++ a :: l.
Proof. induction n as [|n IH]; [reflexivity|]. cbn [repeat app] in *. now rewrite IH. Qed.

(* a printed rank, read back, writes exactly the cells of the rank *)
Lemma fen_rank_write cells : forall run st, 0 <= fl_row st < 10 -> 2 <= fl_col st ->
  fl_col st + Z.of_N run + Z.of_nat (length cells) <= 10 ->
  fen_row_chars zt st (fen_rank cells run) = Ok (write_cells st (repeat None (N.to_nat run) ++ cells)).
Proof.
  induction cells as [|c t IH]; intros run st Hr Hc Hn; cbn [fen_rank length] in *.
  - rewrite app_nil_r. apply run_str_write; lia.
  - destruct c as [pc|].
    + change (if (run =? 0)%N then [] else [(48 + run)%N]) with (run_str run). rewrite fen_row_chars_app, run_str_write by lia. cbn [res_bind fen_row_chars].
      set (st1 := write_cells st (repeat None (N.to_nat run))).
      assert (R1 : fl_row st1 = fl_row st) by apply write_cells_row.
      assert (C1 : fl_col st1 = fl_col st + Z.of_N run) by (unfold st1; rewrite write_cells_col, repeat_length; lia).
      rewrite fen_char_letter by lia. cbn [res_bind].
      rewrite (IH 0%N) by (rewrite ?write1_row, ?write1_col; lia). cbn [N.to_nat repeat app].
      now rewrite write_cells_app.
    + rewrite (IH (run + 1)%N) by lia. replace (N.to_nat (run + 1)) with (S (N.to_nat run)) by lia. now rewrite repeat_snoc.
Qed.

(* ---- rows *)
Definition next_row (st : fen_loop) : fen_loop :=
  mkLoop (fl_board st) (fl_row st + 1) BOARD_START (fl_key st) (fl_wk st) (fl_bk st).
Fixpoint write_rows (st : fen_loop) (cls : list (list (option piece))) : fen_loop :=
  match cls with [] => st | c :: t => write_rows (next_row (write_cells st c)) t end.

Lemma fen_rows_write cls : forall st, Forall (fun c => length c = 8%nat) cls -> fl_col st = 2 -> 0 <= fl_row st ->
  fl_row st + Z.of_nat (length cls) <= 10 ->
  fen_rows zt st (map (fun c => fen_rank c 0%N) cls) = Ok (write_rows st cls).
Proof.
  induction cls as [|c t IH]; intros st HL Hc Hr Hn; cbn [map fen_rows write_rows length] in *; [reflexivity|].
  inversion HL as [|x l Lc Lt]; subst x l.
  rewrite fen_rank_write by (rewrite ?Lc; lia). cbn [N.to_nat repeat app res_bind].
  rewrite write_cells_col, Lc, Hc. change (2 + Z.of_nat 8 =? BOARD_END) with true. cbn [negb].
  fold (next_row (write_cells st c)). apply IH; [exact Lt|reflexivity|cbn [next_row fl_row]; rewrite write_cells_row; lia|].
  cbn [next_row fl_row]. rewrite write_cells_row. lia.
Qed.

(* ---- what the cells hold afterwards *)
Lemma write_cells_untouched l : forall st p,
  (fst p <> fl_row st \/ snd p < fl_col st \/ fl_col st + Z.of_nat (length l) <= snd p) ->
  get (fl_board (write_cells st l)) p = get (fl_board st) p.
Proof.
  induction l as [|c l IH]; intros st p H; cbn [write_cells length] in *; [reflexivity|].
  rewrite IH by (rewrite write1_row, write1_col; lia). rewrite write1_board. apply get_set_other.
  intros E. subst p. cbn [fst snd] in H. lia.
Qed.

Lemma write_cells_written l : forall st j, length (fl_board st) = 144%nat -> 0 <= fl_row st < 12 -> 0 <= fl_col st ->
  fl_col st + Z.of_nat (length l) <= 12 -> 0 <= j < Z.of_nat (length l) ->
  get (fl_board (write_cells st l)) (fl_row st, fl_col st + j) = cell_sq (nth (Z.to_nat j) l None).
Proof.
  induction l as [|c l IH]; intros st j L Hr Hc Hn Hj; cbn [write_cells length] in *; [lia|].
  destruct (Z.eq_dec j 0) as [->|Nz].
  - rewrite write_cells_untouched by (rewrite write1_row, write1_col; cbn [fst snd]; lia).
    rewrite write1_board, Z.add_0_r. cbn [Z.to_nat nth]. apply get_set_same; [apply in_grid_of; lia|exact L].
  - replace (Z.to_nat j) with (S (Z.to_nat (j - 1))) by lia. cbn [nth].
    specialize (IH (write1 st c) (j - 1)). rewrite write1_row, write1_col in IH.
    replace (fl_col st + 1 + (j - 1)) with (fl_col st + j) in IH by lia. apply IH; try lia.
    now rewrite write1_board, set_length.
Qed.

Definition len8 (c : list (option piece)) : Prop := length c = 8%nat.

Lemma write_rows_length cls : forall st, length (fl_board (write_rows st cls)) = length (fl_board st).
Proof. induction cls as [|c t IH]; intros st; cbn [write_rows]; [reflexivity|]. rewrite IH. cbn [next_row fl_board]. apply write_cells_length. Qed.

Lemma write_rows_untouched cls : forall st p, fl_col st = 2 -> Forall len8 cls ->
  (fst p < fl_row st \/ fl_row st + Z.of_nat (length cls) <= fst p \/ snd p < 2 \/ 10 <= snd p) ->
  get (fl_board (write_rows st cls)) p = get (fl_board st) p.
Proof.
  induction cls as [|c t IH]; intros st p Hc HL H; cbn [write_rows length] in *; [reflexivity|].
  inversion HL as [|x l Lc Lt]; subst x l. unfold len8 in Lc.
  rewrite IH; [|reflexivity|exact Lt|cbn [next_row fl_row]; rewrite write_cells_row; lia].
  cbn [next_row fl_board]. apply write_cells_untouched. rewrite Lc, Hc. lia.
Qed.

Lemma write_rows_written cls : forall st i j, length (fl_board st) = 144%nat -> fl_col st = 2 -> 0 <= fl_row st ->
  fl_row st + Z.of_nat (length cls) <= 12 -> Forall len8 cls -> 0 <= i < Z.of_nat (length cls) -> 0 <= j < 8 ->
  get (fl_board (write_rows st cls)) (fl_row st + i, 2 + j) = cell_sq (nth (Z.to_nat j) (nth (Z.to_nat i) cls []) None).
Proof.
  induction cls as [|c t IH]; intros st i j L Hc Hr Hn HL Hi Hj; cbn [write_rows length] in *; [lia|].
  inversion HL as [|x l Lc Lt]; subst x l. unfold len8 in Lc.
  destruct (Z.eq_dec i 0) as [->|Nz].
  - rewrite write_rows_untouched; [|reflexivity|exact Lt|cbn [next_row fl_row fst]; rewrite write_cells_row; lia].
    cbn [next_row fl_board Z.to_nat nth]. rewrite Z.add_0_r, <- Hc. apply write_cells_written; try lia; rewrite Lc; lia.
  - replace (Z.to_nat i) with (S (Z.to_nat (i - 1))) by lia. cbn [nth].
    specialize (IH (next_row (write_cells st c)) (i - 1) j). cbn [next_row fl_row fl_col fl_board] in IH.
    rewrite write_cells_row, write_cells_length in IH.
    replace (fl_row st + 1 + (i - 1)) with (fl_row st + i) in IH by lia. apply IH; try lia; auto.
Qed.

(* ---- the key accumulated and the king caches *)
Definition blank (s : square) : Prop := forall pc, s <> Full pc.
Definition cache (col : color) (st : fen_loop) : point := match col with White => fl_wk st | Black => fl_bk st end.
Definition kinv (col : color) (st : fen_loop) : Prop :=
  (forall p, get (fl_board st) p <> Full (mkPiece col King)) \/ get (fl_board st) (cache col st) = Full (mkPiece col King).
Definition linv (k0 : N) (st : fen_loop) : Prop :=
  fl_key st = N.lxor k0 (hash_placement zt (abs_placement (fl_board st))) /\ kinv White st /\ kinv Black st.

Lemma zterm_blank s p : blank s -> zterm zt s p = 0%N.
Proof. intros B. destruct s; try reflexivity. exfalso. eapply B. reflexivity. Qed.

Lemma write1_kinv col st c : kinv col st -> length (fl_board st) = 144%nat -> in_grid (fl_row st, fl_col st) = true ->
  blank (get (fl_board st) (fl_row st, fl_col st)) -> kinv col (write1 st c).
Proof.
  intros H L G B. unfold kinv. rewrite write1_board.
  destruct (square_eqb_spec (cell_sq c) (Full (mkPiece col King))) as [E|NE].
  - right. assert (Ec : cache col (write1 st c) = (fl_row st, fl_col st)).
    { destruct c as [pc|]; [|discriminate E]. cbn [cell_sq] in E. injection E as ->. destruct col; reflexivity. }
    rewrite Ec, get_set_same by assumption. exact E.
  - assert (Ec : cache col (write1 st c) = cache col st).
    { destruct c as [[pcol k]|]; [|destruct col; reflexivity]. destruct pcol, k, col; try reflexivity; exfalso; apply NE; reflexivity. }
    rewrite Ec. destruct H as [No|Yes].
    + left. intros p. rewrite get_set by assumption. destruct (point_eqb (fl_row st, fl_col st) p); [exact NE|apply No].
    + right. rewrite get_set_other; [exact Yes|]. intros E. rewrite <- E in Yes. rewrite Yes in B. now apply (B (mkPiece col King)).
Qed.

Lemma write1_linv k0 st c : linv k0 st -> length (fl_board st) = 144%nat -> is_inner (fl_row st, fl_col st) = true ->
  blank (get (fl_board st) (fl_row st, fl_col st)) -> linv k0 (write1 st c).
Proof.
  intros (K & KW & KB) L I B. pose proof (is_inner_in_grid _ I) as G.
  split; [|split; apply write1_kinv; assumption].
  rewrite write1_board, hash_placement_set, (zterm_blank _ _ B), N.lxor_0_r by assumption.
  destruct c as [pc|]; cbn [write1 fl_key cell_sq zterm]; rewrite K.
  - now rewrite N.lxor_assoc.
  - now rewrite N.lxor_0_r.
Qed.

Lemma write_cells_linv k0 l : forall st, linv k0 st -> length (fl_board st) = 144%nat -> 2 <= fl_row st < 10 -> 2 <= fl_col st ->
  fl_col st + Z.of_nat (length l) <= 10 ->
  (forall j, fl_col st <= j < fl_col st + Z.of_nat (length l) -> blank (get (fl_board st) (fl_row st, j))) ->
  linv k0 (write_cells st l).
Proof.
  induction l as [|c l IH]; intros st H L Hr Hc Hn HB; cbn [write_cells length] in *; [exact H|].
  apply IH; rewrite ?write1_row, ?write1_col, ?write1_board, ?set_length; try lia.
  - apply write1_linv; [exact H|exact L|apply is_inner_spec; cbn [fst snd]; lia|apply HB; lia].
  - intros j Hj. rewrite get_set_other; [apply HB; lia|]. intros E. injection E as E. lia.
Qed.

Lemma write_rows_linv k0 cls : forall st, linv k0 st -> length (fl_board st) = 144%nat -> fl_col st = 2 -> 2 <= fl_row st ->
  fl_row st + Z.of_nat (length cls) <= 10 -> Forall len8 cls ->
  (forall r c, fl_row st <= r -> blank (get (fl_board st) (r, c))) ->
  linv k0 (write_rows st cls).
Proof.
  induction cls as [|c t IH]; intros st H L Hc Hr Hn HL HB; cbn [write_rows length] in *; [exact H|].
  inversion HL as [|x l Lc Lt]; subst x l. unfold len8 in Lc.
  assert (H1 : linv k0 (write_cells st c)).
  { apply (write_cells_linv k0 c st H L); [lia|lia|rewrite Lc; lia|]. intros j _. apply HB. lia. }
  apply IH; cbn [next_row fl_row fl_col fl_board]; rewrite ?write_cells_row, ?write_cells_length; try lia; auto.
  intros r c' Hr'. rewrite write_cells_untouched by (cbn [fst]; lia). apply HB. lia.
Qed.

Lemma get_all_boundary p : get all_boundary p = Boundary.
Proof. unfold get, all_boundary. destruct (in_grid p); [apply nth_repeat|reflexivity]. Qed.

End R.
