(* C02, assembled: every successor the generator produces -- ordinary move, promotion, en passant,
   castling, in both modes -- is the position the rules give for the move its descriptor names. *)
From Walleye Require Import Model.Successor Spec.Abs Proofs.Cells Proofs.HashProofs Proofs.AttackGeom Proofs.AbsSet
  Proofs.KeyInvariant Proofs.CheckProofs Proofs.MoveGenProofs Proofs.GenShape Proofs.SuccessorAbs.
Open Scope Z_scope.

(* the representation invariants a position must satisfy (all hold of every position loaded from the FEN of
   a legal position and are kept by the generator; the last one says the side not to move is not in check,
   in the form the generator needs it: no pseudo-legal target holds a king) *)
Definition pos_ok (s : BoardState) (m : mode) : Prop :=
  cells_ok (board s) /\ kings_ok s /\ rights_home s /\ ep_ok_model s /\
  (forall p pc x, is_inner p = true -> get (board s) p = Full pc -> pcolor pc = to_move s ->
                  In x (get_moves pc p (board s) m) -> forall col, get (board s) x <> Full (mkPiece col King)).

Section G.
Variable zt : ztable.

Lemma desc_of x a b : last_move x = Some (a, b) -> pawn_promotion x = None -> desc x = Some (mkMove (sq_of_pt a) (sq_of_pt b) None).
Proof. intros L P. unfold desc. now rewrite L, P. Qed.

Lemma successors_of_move_abs s m pc sq mov x :
  pos_ok s m -> is_inner sq = true -> get (board s) sq = Full pc -> pcolor pc = to_move s ->
  In mov (get_moves pc sq (board s) m) -> In x (successors_of_move zt s pc sq mov) ->
  exists mv, desc x = Some mv /\ abs x = apply (abs s) mv.
Proof.
  intros (OK & KO & RH & EP & NK) Hs G PC Hmov Hx.
  assert (OK' := OK). destruct OK' as [L [Ring Inner]].
  assert (Hm : is_inner mov = true).
  { apply (not_boundary_inner _ _ Ring). exact (get_moves_not_boundary pc sq (board s) m mov Hmov). }
  assert (Hne : sq <> mov) by exact (target_not_origin pc sq (board s) m mov G Hmov).
  assert (NKm : forall col, get (board s) mov <> Full (mkPiece col King)) by exact (NK sq pc mov Hs G PC Hmov).
  (* shape facts for pawns and kings *)
  assert (PD : pkind pc = Pawn -> Z.abs (fst sq - fst mov) = 2 ->
               snd sq = snd mov /\ (pcolor pc = White -> fst sq = fst mov + 2) /\ (pcolor pc = Black -> fst mov = fst sq + 2)).
  { intros PK D. unfold get_moves in Hmov. rewrite PK in Hmov. destruct sq as [row col].
    apply pawn_moves_shape in Hmov. cbn zeta in Hmov. cbn [fst snd] in *.
    destruct (pcolor pc); destruct Hmov as [(A & _ & [B|[B _]])|(_ & B & _)]; repeat split; intros; try discriminate; lia. }
  assert (PCap : pkind pc = Pawn -> snd sq <> snd mov -> get (board s) mov <> Empty).
  { intros PK D. unfold get_moves in Hmov. rewrite PK in Hmov. destruct sq as [row col].
    apply pawn_moves_shape in Hmov. cbn zeta in Hmov. cbn [fst snd] in *.
    destruct Hmov as [(A & _ & _)|(_ & _ & C)]; [lia|]. intros E. rewrite E in C. discriminate. }
  assert (KS : pkind pc = King -> Z.abs (snd sq - snd mov) <= 1).
  { intros PK. unfold get_moves in Hmov. rewrite PK in Hmov. apply king_moves_shape in Hmov. lia. }
  assert (Prow : pkind pc = Pawn -> (fst mov = BOARD_START \/ fst mov = BOARD_END - 1) -> Z.abs (fst sq - fst mov) <> 2).
  { intros PK Last. unfold get_moves in Hmov. rewrite PK in Hmov. destruct sq as [row col].
    apply pawn_moves_shape in Hmov. cbn zeta in Hmov. cbn [fst snd] in *.
    unfold BOARD_START, BOARD_END, DOUBLE_ROW_WHITE, DOUBLE_ROW_BLACK in *.
    destruct (pcolor pc); destruct Hmov as [(A & _ & [B|[B R]])|(_ & B & _)]; lia. }
  unfold successors_of_move in Hx.
  destruct (moved_board zt s pc sq mov) as [nb|] eqn:MB; [|contradiction].
  destruct (moved_board_fields zt _ _ _ _ _ MB) as [ML MP].
  destruct (finalise_fields zt nb pc sq mov) as [FL FP]. rewrite ML in FL. rewrite MP in FP.
  destruct ((fst mov =? BOARD_START) && color_eqb (pcolor pc) White && is_pawn_kind (pkind pc)) eqn:P1.
  - apply andb_true_iff in P1. destruct P1 as [P1 PKb]. apply andb_true_iff in P1. destruct P1 as [R1 C1].
    apply Z.eqb_eq in R1. destruct (color_eqb_spec (pcolor pc) White) as [CW|]; [|discriminate].
    assert (PK : pkind pc = Pawn) by (destruct (pkind pc); try discriminate; reflexivity).
    rewrite <- CW in Hx.
    destruct (promotion_successor_abs zt s pc sq mov nb x OK KO RH G Hs Hm Hne NKm PK (Prow PK (or_introl R1)) (PCap PK) MB Hx)
      as [k [Hk [HP HA]]].
    exists (mkMove (sq_of_pt sq) (sq_of_pt mov) (Some k)). split; [|exact HA].
    destruct (promote_pawn_desc zt _ _ _ _ _ Hx) as [HL _]. unfold desc. rewrite HL, HP. reflexivity.
  - destruct ((fst mov =? BOARD_END - 1) && color_eqb (pcolor pc) Black && is_pawn_kind (pkind pc)) eqn:P2.
    + apply andb_true_iff in P2. destruct P2 as [P2 PKb]. apply andb_true_iff in P2. destruct P2 as [R1 C1].
      apply Z.eqb_eq in R1. destruct (color_eqb_spec (pcolor pc) Black) as [CB|]; [|discriminate].
      assert (PK : pkind pc = Pawn) by (destruct (pkind pc); try discriminate; reflexivity).
      rewrite <- CB in Hx.
      destruct (promotion_successor_abs zt s pc sq mov nb x OK KO RH G Hs Hm Hne NKm PK (Prow PK (or_intror R1)) (PCap PK) MB Hx)
        as [k [Hk [HP HA]]].
      exists (mkMove (sq_of_pt sq) (sq_of_pt mov) (Some k)). split; [|exact HA].
      destruct (promote_pawn_desc zt _ _ _ _ _ Hx) as [HL _]. unfold desc. rewrite HL, HP. reflexivity.
    + destruct Hx as [<-|[]].
      exists (mkMove (sq_of_pt sq) (sq_of_pt mov) None). split; [now apply desc_of|].
      apply ordinary_successor_abs; auto.
Qed.

Lemma king_at_home s r : kings_ok s -> rights_home s -> right s r = true -> king_location s (right_color r) = king_home r.
Proof.
  intros KO RH R. destruct (rights_home_r s r RH R) as [GK _]. destruct (KO (right_color r)) as [_ U]. symmetry. apply U. exact GK.
Qed.

Theorem generate_moves_abs s m x :
  pos_ok s m -> In x (generate_moves zt s m) -> exists mv, desc x = Some mv /\ abs x = apply (abs s) mv.
Proof.
  intros PO Hx. assert (PO' := PO). destruct PO' as (OK & KO & RH & EP & NK).
  unfold generate_moves in Hx. apply in_app_or in Hx. destruct Hx as [Hx|Hx].
  - apply in_flat_map in Hx. destruct Hx as [p [Hp Hx]].
    assert (Hin : is_inner p = true).
    { clear - Hp. unfold inner_points in Hp. apply in_flat_map in Hp. destruct Hp as [r [Hr Hp]].
      apply in_map_iff in Hp. destruct Hp as [c [<- Hc]]. apply is_inner_spec. cbn [fst snd].
      unfold inner_range in *. cbn in Hr, Hc. lia. }
    destruct (get (board s) p) as [|pc|] eqn:G; try contradiction.
    destruct (color_eqb_spec (pcolor pc) (to_move s)) as [PC|]; [|contradiction].
    unfold generate_moves_for_piece in Hx. apply in_app_or in Hx. destruct Hx as [Hx|Hx].
    + apply in_flat_map in Hx. destruct Hx as [mov [Hmov Hx]]. eapply successors_of_move_abs; eauto.
    + destruct (en_passant_successor_abs zt s pc p x OK EP G Hin PC Hx) as [mov [D [HL [HP HA]]]].
      exists (mkMove (sq_of_pt p) (sq_of_pt mov) None). split; [now apply desc_of|exact HA].
  - destruct (mode_all m); [|contradiction]. unfold generate_castling_moves in Hx.
    repeat (apply in_app_or in Hx; destruct Hx as [Hx|Hx]);
      match type of Hx with In x (if ?c then _ else _) => destruct c eqn:Cond; [|contradiction] end;
      destruct Hx as [<-|[]]; apply andb_true_iff in Cond; destruct Cond as [_ CC];
      unfold can_castle, can_castle_white_king_side, can_castle_white_queen_side, can_castle_black_king_side, can_castle_black_queen_side in CC.
    + destruct (wks s) eqn:R; [|discriminate].
      destruct (rights_home_r s WKS RH R) as [GK GR]. pose proof (king_at_home s WKS KO RH R) as KL. cbn [right_color king_home rook_home] in *.
      exists (mkMove (sq_of_pt (9, 6)) (sq_of_pt (9, 8)) None). split.
      * apply desc_of; apply (castle_successor_desc zt).
      * apply (castle_successor_abs zt s White WKS WQS 8 9 7 _ OK KL GK GR); [left; auto|split; reflexivity].
    + destruct (wqs s) eqn:R; [|discriminate].
      destruct (rights_home_r s WQS RH R) as [GK GR]. pose proof (king_at_home s WQS KO RH R) as KL. cbn [right_color king_home rook_home] in *.
      exists (mkMove (sq_of_pt (9, 6)) (sq_of_pt (9, 4)) None). split.
      * apply desc_of; apply (castle_successor_desc zt).
      * apply (castle_successor_abs zt s White WKS WQS 4 2 5 _ OK KL GK GR); [right; auto|split; reflexivity].
    + destruct (bks s) eqn:R; [|discriminate].
      destruct (rights_home_r s BKS RH R) as [GK GR]. pose proof (king_at_home s BKS KO RH R) as KL. cbn [right_color king_home rook_home] in *.
      exists (mkMove (sq_of_pt (2, 6)) (sq_of_pt (2, 8)) None). split.
      * apply desc_of; apply (castle_successor_desc zt).
      * apply (castle_successor_abs zt s Black BKS BQS 8 9 7 _ OK KL GK GR); [left; auto|split; reflexivity].
    + destruct (bqs s) eqn:R; [|discriminate].
      destruct (rights_home_r s BQS RH R) as [GK GR]. pose proof (king_at_home s BQS KO RH R) as KL. cbn [right_color king_home rook_home] in *.
      exists (mkMove (sq_of_pt (2, 6)) (sq_of_pt (2, 4)) None). split.
      * apply desc_of; apply (castle_successor_desc zt).
      * apply (castle_successor_abs zt s Black BKS BQS 4 2 5 _ OK KL GK GR); [right; auto|split; reflexivity].
Qed.

End G.

(* ---- an executable test of pos_ok, for concrete positions *)
Definition rights_homeb (s : BoardState) : bool :=
  implb (wks s) (square_eqb (get (board s) (9, 6)) (Full (mkPiece White King)) && square_eqb (get (board s) (9, 9)) (Full (mkPiece White Rook))) &&
  implb (wqs s) (square_eqb (get (board s) (9, 6)) (Full (mkPiece White King)) && square_eqb (get (board s) (9, 2)) (Full (mkPiece White Rook))) &&
  implb (bks s) (square_eqb (get (board s) (2, 6)) (Full (mkPiece Black King)) && square_eqb (get (board s) (2, 9)) (Full (mkPiece Black Rook))) &&
  implb (bqs s) (square_eqb (get (board s) (2, 6)) (Full (mkPiece Black King)) && square_eqb (get (board s) (2, 2)) (Full (mkPiece Black Rook))).

Lemma sq_eqb_true a b : square_eqb a b = true -> a = b.
Proof. intros H. destruct (square_eqb_spec a b); [assumption|discriminate]. Qed.

Lemma implb_and a x y : implb a (square_eqb x (Full y) && square_eqb x (Full y)) = true -> True. Proof. trivial. Qed.

Lemma impl_two a u v p q : implb a (square_eqb u (Full p) && square_eqb v (Full q)) = true -> a = true -> u = Full p /\ v = Full q.
Proof.
  intros H R. rewrite R in H. cbn [implb] in H. apply andb_true_iff in H. destruct H as [A B].
  split; apply sq_eqb_true; assumption.
Qed.

Lemma rights_homeb_ok s : rights_homeb s = true -> rights_home s.
Proof.
  unfold rights_homeb, rights_home. intros H.
  apply andb_true_iff in H. destruct H as [H H4]. apply andb_true_iff in H. destruct H as [H H3]. apply andb_true_iff in H. destruct H as [H1 H2].
  split; [exact (impl_two _ _ _ _ _ H1)|]. split; [exact (impl_two _ _ _ _ _ H2)|]. split; [exact (impl_two _ _ _ _ _ H3)|exact (impl_two _ _ _ _ _ H4)].
Qed.

Definition ep_okb (s : BoardState) : bool :=
  match pawn_double_move s with
  | None => true
  | Some t =>
      let v := match to_move s with White => (fst t + 1, snd t) | Black => (fst t - 1, snd t) end in
      is_inner t && square_eqb (get (board s) t) Empty && is_inner v
      && square_eqb (get (board s) v) (Full (mkPiece (opposite (to_move s)) Pawn))
  end.
Lemma ep_okb_ok s : ep_okb s = true -> ep_ok_model s.
Proof.
  unfold ep_okb, ep_ok_model. intros H t E. rewrite E in H.
  apply andb_true_iff in H. destruct H as [H H4]. apply andb_true_iff in H. destruct H as [H H3]. apply andb_true_iff in H. destruct H as [H1 H2].
  apply sq_eqb_true in H2, H4. repeat split; assumption.
Qed.

Definition no_king_targetb (s : BoardState) (m : mode) : bool :=
  forallb (fun p => match get (board s) p with
                    | Full pc => if color_eqb (pcolor pc) (to_move s)
                                 then forallb (fun x => match get (board s) x with
                                                        | Full q => negb (kind_eqb (pkind q) King) | _ => true end)
                                              (get_moves pc p (board s) m)
                                 else true
                    | _ => true end) inner_points.

Lemma inner_in_points p : is_inner p = true -> In p inner_points.
Proof.
  intros H. apply is_inner_spec in H. destruct p as [r c]. cbn [fst snd] in H.
  unfold inner_points. apply in_flat_map. exists r. split; [cbn; lia|]. apply in_map. cbn. lia.
Qed.

Definition pos_okb (s : BoardState) (m : mode) : bool :=
  wf_cells (board s) && kings_okb s && rights_homeb s && ep_okb s && no_king_targetb s m.

Lemma pos_okb_ok s m : pos_okb s m = true -> pos_ok s m.
Proof.
  unfold pos_okb. intros H.
  apply andb_true_iff in H. destruct H as [H H5]. apply andb_true_iff in H. destruct H as [H H4].
  apply andb_true_iff in H. destruct H as [H H3]. apply andb_true_iff in H. destruct H as [H1 H2].
  split; [now apply wf_cells_ok|]. split; [now apply kings_okb_ok|]. split; [now apply rights_homeb_ok|]. split; [now apply ep_okb_ok|].
  intros p pc x Hp G PC Hx col E.
  unfold no_king_targetb in H5. rewrite forallb_forall in H5. specialize (H5 p (inner_in_points p Hp)).
  rewrite G, PC, color_eqb_refl in H5. rewrite forallb_forall in H5. specialize (H5 x Hx). rewrite E in H5. discriminate.
Qed.
