(* C06: is_check_cords agrees with the rules' `attacked` relation (sliders stopped by the first piece,
   pawns diagonally forward, knights, an adjacent king) for every board with the sentinel ring. *)
From Walleye Require Import Model.Check Spec.Abs Proofs.Cells Proofs.Ray Proofs.HashProofs Proofs.AttackGeom.
Open Scope Z_scope.

(* inner cells hold a piece or are empty, ring cells are Boundary *)
Definition cells_ok (b : cells) : Prop :=
  length b = 144%nat /\ ring_ok b /\ (forall p, is_inner p = true -> get b p <> Boundary).

Definition neg (d : point) : point := (- fst d, - snd d).
Definition dmodel (d' : sq) : point := (snd d', - fst d').      (* the model direction with dsp (neg d) = d' *)

Lemma dsp_neg_dmodel d' : dsp (neg (dmodel d')) = d'.
Proof. unfold dsp, neg, dmodel. destruct d'; cbn [fst snd]. f_equal; lia. Qed.
Lemma dmodel_dsp_neg d : dmodel (dsp (neg d)) = d.
Proof. unfold dsp, neg, dmodel. destruct d; cbn [fst snd]. f_equal; lia. Qed.

Lemma padd_pmul_neg p d k : padd (padd p (pmul k d)) (pmul k (neg d)) = p.
Proof. unfold padd, pmul, neg. destruct p, d; cbn [fst snd]. f_equal; ring. Qed.

Lemma at_dist_padd p d k : at_dist (padd p d) d k = padd p (pmul (k + 1) d).
Proof. unfold at_dist, padd, pmul. destruct p, d; cbn [fst snd]. f_equal; ring. Qed.

(* direction tables correspond *)
Lemma existsb_In_sq l x : existsb (sq_eqb x) l = true -> In x l.
Proof. intros H. apply existsb_exists in H. destruct H as [y [Hy E]]. destruct (sq_eqb_spec x y); [subst; exact Hy|discriminate]. Qed.
Lemma existsb_In_pt l x : existsb (point_eqb x) l = true -> In x l.
Proof. intros H. apply existsb_exists in H. destruct H as [y [Hy E]]. destruct (point_eqb_spec x y); [subst; exact Hy|discriminate]. Qed.

Lemma rook_dir_to_spec d : In d ROOK_DIRS_CHK -> In (dsp (neg d)) rook_dirs.
Proof.
  assert (C : forallb (fun d => existsb (sq_eqb (dsp (neg d))) rook_dirs) ROOK_DIRS_CHK = true) by (vm_compute; reflexivity).
  intros H. rewrite forallb_forall in C. apply existsb_In_sq. now apply C.
Qed.
Lemma bishop_dir_to_spec d : In d BISHOP_DIRS_CHK -> In (dsp (neg d)) bishop_dirs.
Proof.
  assert (C : forallb (fun d => existsb (sq_eqb (dsp (neg d))) bishop_dirs) BISHOP_DIRS_CHK = true) by (vm_compute; reflexivity).
  intros H. rewrite forallb_forall in C. apply existsb_In_sq. now apply C.
Qed.
Lemma rook_dir_to_model d' : In d' rook_dirs -> In (dmodel d') ROOK_DIRS_CHK.
Proof.
  assert (C : forallb (fun d' => existsb (point_eqb (dmodel d')) ROOK_DIRS_CHK) rook_dirs = true) by (vm_compute; reflexivity).
  intros H. rewrite forallb_forall in C. apply existsb_In_pt. now apply C.
Qed.
Lemma bishop_dir_to_model d' : In d' bishop_dirs -> In (dmodel d') BISHOP_DIRS_CHK.
Proof.
  assert (C : forallb (fun d' => existsb (point_eqb (dmodel d')) BISHOP_DIRS_CHK) bishop_dirs = true) by (vm_compute; reflexivity).
  intros H. rewrite forallb_forall in C. apply existsb_In_pt. now apply C.
Qed.

Lemma sq_is_true s p : sq_is s p = true <-> s = Full p.
Proof.
  unfold sq_is. destruct s as [|q|].
  - split; discriminate.
  - destruct (piece_eqb_spec q p) as [E|E]; split; intros H.
    + subst; reflexivity.
    + reflexivity.
    + discriminate.
    + inversion H; congruence.
  - split; discriminate.
Qed.

Section B.
Variable b : cells.
Hypothesis OK : cells_ok b.

Lemma full_inner p pc : get b p = Full pc -> is_inner p = true.
Proof.
  intros H. destruct OK as [_ [R _]]. destruct (is_inner p) eqn:E; [reflexivity|]. rewrite (R p E) in H. discriminate.
Qed.
Lemma empty_inner p : get b p = Empty -> is_inner p = true.
Proof.
  intros H. destruct OK as [_ [R _]]. destruct (is_inner p) eqn:E; [reflexivity|]. rewrite (R p E) in H. discriminate.
Qed.

(* the model's slider clause, as a statement about the line from the probed square *)
Lemma ray_hits_iff sq d p1 p2 :
  unit_dir d -> is_inner sq = true ->
  (ray_hits b sq d p1 p2 = true <->
   exists k, 1 <= k <= 7 /\ (get b (padd sq (pmul k d)) = Full p1 \/ get b (padd sq (pmul k d)) = Full p2) /\
             forall j, 1 <= j < k -> get b (padd sq (pmul j d)) = Empty).
Proof.
  intros Hd Hs. unfold ray_hits. split.
  - destruct (walk 12 b (padd sq d) d) as [s|] eqn:W; [|discriminate].
    intros H. apply orb_true_iff in H.
    destruct (walk_sound 12 b d _ _ W) as [k0 [Hk [Es [Hne Hall]]]].
    rewrite at_dist_padd in Es.
    assert (Hfull : get b (padd sq (pmul (k0 + 1) d)) = Full p1 \/ get b (padd sq (pmul (k0 + 1) d)) = Full p2).
    { rewrite <- Es. destruct H as [H|H]; apply sq_is_true in H; auto. }
    exists (k0 + 1). split; [|split; [exact Hfull|]].
    + assert (Hin : is_inner (padd sq (pmul (k0 + 1) d)) = true) by (destruct Hfull as [F|F]; eapply full_inner; eauto).
      pose proof (inner_line_short sq d (k0 + 1) Hd Hs Hin ltac:(lia)). lia.
    + intros j Hj. specialize (Hall (j - 1) ltac:(lia)). rewrite at_dist_padd in Hall.
      replace (j - 1 + 1) with j in Hall by ring. destruct (get b (padd sq (pmul j d))); try discriminate. reflexivity.
  - intros [k [Hk [Hfull Hclear]]].
    rewrite (walk_complete 12 b d (padd sq d) (k - 1)).
    + rewrite at_dist_padd. replace (k - 1 + 1) with k by ring.
      apply orb_true_iff. destruct Hfull as [F|F]; rewrite F; [left|right]; apply sq_is_true; reflexivity.
    + change (Z.of_nat 12) with 12. lia.
    + rewrite at_dist_padd. replace (k - 1 + 1) with k by ring. destruct Hfull as [F|F]; rewrite F; reflexivity.
    + intros j Hj. rewrite at_dist_padd. rewrite (Hclear (j + 1)) by lia. reflexivity.
Qed.

Notation pl := (abs_placement b).

Lemma occupied_abs q : on8 q = true -> occupied pl q = false <-> get b (pt_of_sq q) = Empty.
Proof.
  intros H. unfold occupied. rewrite (pget_abs_on b q H).
  destruct OK as [_ [_ I]]. pose proof (proj1 (on8_inner q) H) as Hin. specialize (I _ Hin).
  destruct (get b (pt_of_sq q)); cbn; split; intros; try discriminate; try reflexivity; try congruence.
Qed.

(* the rules' slider clause for an attacker standing k steps from the probed square along d *)
Lemma reaches_from_attacker sq d k :
  is_inner sq = true -> 1 <= k <= 8 ->
  is_inner (padd sq (pmul k d)) = true ->
  (forall j, 1 <= j < k -> get b (padd sq (pmul j d)) = Empty) ->
  reaches 8 pl (sadd (sq_of_pt (padd sq (pmul k d))) (dsp (neg d))) (dsp (neg d)) (sq_of_pt sq) = true.
Proof.
  intros Hs Hk Ha Hclear. apply reaches_iff. exists (k - 1).
  set (q := sq_of_pt (padd sq (pmul k d))).
  assert (Step : forall j, sadd (sadd q (dsp (neg d))) (smul j (dsp (neg d))) = sq_of_pt (padd sq (pmul (k - (j + 1)) d))).
  { intros j. rewrite sadd_smul_S. unfold q. rewrite <- sq_of_pt_move. f_equal.
    unfold padd, pmul, neg. destruct sq, d; cbn [fst snd]. f_equal; ring. }
  split; [change (Z.of_nat 8) with 8; lia|]. split; [|split].
  - rewrite Step. replace (k - (k - 1 + 1)) with 0 by ring. f_equal.
    unfold padd, pmul. destruct sq, d; cbn [fst snd]. f_equal; ring.
  - intros j Hj. rewrite Step. apply inner_on8.
    destruct (Z.eq_dec (k - (j + 1)) 0) as [E|E].
    + rewrite E. replace (padd sq (pmul 0 d)) with sq; [exact Hs|]. unfold padd, pmul. destruct sq, d; cbn [fst snd]. f_equal; ring.
    + apply empty_inner. apply Hclear. lia.
  - intros j Hj. rewrite Step. apply occupied_abs.
    + apply inner_on8. apply empty_inner. apply Hclear. lia.
    + rewrite pt_sq. apply Hclear. lia.
Qed.

(* and conversely: a square the rules' slider reaches along d' from q sees q along dmodel d' *)
Lemma attacker_from_reaches q d' t :
  on8 q = true -> on8 t = true -> q <> t ->
  reaches 8 pl (sadd q d') d' t = true ->
  exists k, 1 <= k /\ pt_of_sq q = padd (pt_of_sq t) (pmul k (dmodel d')) /\
            forall j, 1 <= j < k -> get b (padd (pt_of_sq t) (pmul j (dmodel d'))) = Empty.
Proof.
  intros Hq Ht Hne R. apply reaches_iff in R. destruct R as [m [Hm [Et [Hon Hocc]]]].
  exists (m + 1). split; [lia|].
  assert (Move : forall j, pt_of_sq (sadd (sadd q d') (smul j d')) = padd (pt_of_sq q) (pmul (j + 1) (neg (dmodel d')))).
  { intros j. rewrite sadd_smul_S. rewrite <- (dsp_neg_dmodel d') at 1. apply pt_of_sq_move. }
  assert (Pt : pt_of_sq t = padd (pt_of_sq q) (pmul (m + 1) (neg (dmodel d')))) by (rewrite <- Et; apply Move).
  split.
  - rewrite Pt. unfold padd, pmul, neg. destruct (pt_of_sq q), (dmodel d'); cbn [fst snd]. f_equal; ring.
  - intros j Hj. specialize (Hocc (m - j) ltac:(lia)).
    assert (On : on8 (sadd (sadd q d') (smul (m - j) d')) = true) by (apply Hon; lia).
    apply (occupied_abs _ On) in Hocc. rewrite Move in Hocc.
    replace (padd (pt_of_sq t) (pmul j (dmodel d'))) with (padd (pt_of_sq q) (pmul (m - j + 1) (neg (dmodel d')))); [exact Hocc|].
    rewrite Pt. unfold padd, pmul, neg. destruct (pt_of_sq q), (dmodel d'); cbn [fst snd]. f_equal; ring.
Qed.

End B.

(* ---- knight and king offsets correspond *)
Lemma knight_to_spec d : In d KNIGHT_CORDS -> In (dsp (neg d)) knight_offsets.
Proof.
  assert (C : forallb (fun d => existsb (sq_eqb (dsp (neg d))) knight_offsets) KNIGHT_CORDS = true) by (vm_compute; reflexivity).
  intros H. rewrite forallb_forall in C. apply existsb_In_sq. now apply C.
Qed.
Lemma knight_to_model d' : In d' knight_offsets -> In (dmodel d') KNIGHT_CORDS.
Proof.
  assert (C : forallb (fun d' => existsb (point_eqb (dmodel d')) KNIGHT_CORDS) knight_offsets = true) by (vm_compute; reflexivity).
  intros H. rewrite forallb_forall in C. apply existsb_In_pt. now apply C.
Qed.

Lemma king_offsets_iff d' : In d' king_step_offsets <-> (Z.abs (fst d') <= 1 /\ Z.abs (snd d') <= 1 /\ d' <> (0, 0)).
Proof.
  destruct d' as [x y]. cbn [fst snd]. split.
  - intros H.
    assert (C : forallb (fun d => (Z.abs (fst d) <=? 1) && (Z.abs (snd d) <=? 1) && negb (sq_eqb d (0, 0))) king_step_offsets = true)
      by (vm_compute; reflexivity).
    rewrite forallb_forall in C. specialize (C _ H). cbn [fst snd] in C.
    apply andb_true_iff in C. destruct C as [C C3]. apply andb_true_iff in C. destruct C as [C1 C2].
    apply Z.leb_le in C1, C2. split; [exact C1|]. split; [exact C2|].
    intros E. rewrite E in C3. discriminate.
  - intros [Hx [Hy Hne]].
    assert (Ex : x = -1 \/ x = 0 \/ x = 1) by lia. assert (Ey : y = -1 \/ y = 0 \/ y = 1) by lia.
    destruct Ex as [-> | [-> | ->]]; destruct Ey as [-> | [-> | ->]]; cbn; try tauto.
Qed.

Lemma one_step p d : padd p (pmul 1 d) = padd p d.
Proof. unfold padd, pmul. destruct p, d; cbn [fst snd]. f_equal; ring. Qed.
Lemma sone_step q d : sadd q (smul 1 d) = sadd q d.
Proof. unfold sadd, smul. destruct q, d; cbn [fst snd]. f_equal; ring. Qed.

Section Main.
Variable s : BoardState.
Variable c : color.
Variable sq : point.
Notation b := (board s).
Notation ac := (opposite c).
Notation ak := (king_location s (opposite c)).
Notation pl := (abs_placement (board s)).
Notation t := (sq_of_pt sq).

Hypothesis OK : cells_ok b.
Hypothesis Hs : is_inner sq = true.
(* the cached square of the attacking side's king is where that king stands, and it is not the probed square *)
Hypothesis HK2 : get b ak = Full (mkPiece ac King).
Hypothesis HK3 : forall p, get b p = Full (mkPiece ac King) -> p = ak.
Hypothesis HK4 : ak <> sq.

Lemma t_on8 : on8 t = true. Proof. now apply inner_on8. Qed.

(* a piece standing on a model point is seen by the abstraction *)
Lemma piece_seen a pc : get b a = Full pc -> on8 (sq_of_pt a) = true /\ pget pl (sq_of_pt a) = Some pc.
Proof.
  intros G. pose proof (full_inner b OK a pc G) as Hin. pose proof (proj1 (inner_on8 a) Hin) as On.
  split; [exact On|]. rewrite (pget_abs_on _ _ On), pt_sq, G. reflexivity.
Qed.

Lemma attacked_intro a pc :
  get b a = Full pc -> pcolor pc = ac -> attacks pl (sq_of_pt a) t = true -> attacked pl ac t = true.
Proof.
  intros G C A. destruct (piece_seen a pc G) as [On P].
  unfold attacked. apply existsb_exists. exists (sq_of_pt a). split; [now apply on8_in_all_sq|].
  apply andb_true_iff. split; [|exact A]. unfold has_color. rewrite P, C. apply color_eqb_refl.
Qed.

Lemma slider_attacks a pc d k dirs :
  get b a = Full pc -> a = padd sq (pmul k d) -> 1 <= k <= 7 ->
  (forall j, 1 <= j < k -> get b (padd sq (pmul j d)) = Empty) ->
  In (dsp (neg d)) dirs ->
  existsb (fun d' => reaches 8 pl (sadd (sq_of_pt a) d') d' t) dirs = true.
Proof.
  intros G Ea Hk Hclear Hin. apply existsb_exists. exists (dsp (neg d)). split; [exact Hin|].
  subst a. apply (reaches_from_attacker b OK sq d k Hs ltac:(lia)); [eapply full_inner; eauto|exact Hclear].
Qed.

Theorem is_check_cords_sound : is_check_cords s c sq = true -> attacked pl ac t = true.
Proof.
  unfold is_check_cords. intros H.
  apply orb_true_iff in H. destruct H as [H|HKing].
  2:{ revert HKing. intros H. (* king *)
    apply andb_true_iff in H. destruct H as [H1 H2]. apply Z.leb_le in H1, H2.
    eapply attacked_intro; [exact HK2|reflexivity|].
    unfold attacks. rewrite (proj2 (piece_seen _ _ HK2)). cbn [pkind].
    apply existsb_exists. exists (fst t - fst (sq_of_pt ak), snd t - snd (sq_of_pt ak)). split.
    + apply king_offsets_iff. unfold sq_of_pt, BOARD_START, BOARD_END. cbn [fst snd].
      split; [lia|]. split; [lia|]. intros E. apply HK4.
      assert (E1 := f_equal fst E). assert (E2 := f_equal snd E). cbn [fst snd] in E1, E2.
      destruct (king_location s (opposite c)), sq; cbn [fst snd] in *. f_equal; lia.
    + destruct (sq_eqb_spec (sadd (sq_of_pt ak) (fst t - fst (sq_of_pt ak), snd t - snd (sq_of_pt ak))) t) as [|Ne]; [reflexivity|].
      exfalso. apply Ne. unfold sadd. destruct (sq_of_pt ak), (sq_of_pt sq); cbn [fst snd]. f_equal; lia. }
  apply orb_true_iff in H. destruct H as [H|HPawn].
  2:{ revert HPawn. intros H. (* pawn *)
    apply orb_true_iff in H. destruct H as [F|F]; apply sq_is_true in F;
      (eapply attacked_intro; [exact F|reflexivity|]);
      unfold attacks; rewrite (proj2 (piece_seen _ _ F)); cbn [pkind pcolor];
      unfold sq_of_pt, forward, BOARD_START, BOARD_END; destruct c, sq as [r cc]; cbn [fst snd opposite];
      apply andb_true_iff; split; try (apply Z.eqb_eq; lia); apply orb_true_iff;
      try (left; apply Z.eqb_eq; lia); try (right; apply Z.eqb_eq; lia). }
  apply orb_true_iff in H. destruct H as [H|HKnight].
  2:{ revert HKnight. intros H. (* knight *)
    apply existsb_exists in H. destruct H as [d [Hd F]]. apply sq_is_true in F.
    eapply attacked_intro; [exact F|reflexivity|].
    unfold attacks. rewrite (proj2 (piece_seen _ _ F)). cbn [pkind].
    apply existsb_exists. exists (dsp (neg d)). split; [now apply knight_to_spec|].
    rewrite <- (sone_step _ (dsp (neg d))), <- sq_of_pt_move, one_step.
    replace (padd (padd sq d) (neg d)) with sq; [destruct (sq_eqb_spec t t); [reflexivity|contradiction]|].
    unfold padd, neg. destruct sq, d; cbn [fst snd]. f_equal; ring. }
  apply orb_true_iff in H. destruct H as [H|H].
  - (* rook or queen on a line *)
    apply existsb_exists in H. destruct H as [d [Hd R]].
    pose proof dirs_are_unit as [U _]. rewrite Forall_forall in U.
    apply (ray_hits_iff b OK sq d _ _ (U d Hd) Hs) in R. destruct R as [k [Hk [Hfull Hclear]]].
    destruct Hfull as [F|F]; eapply attacked_intro; try exact F; try reflexivity;
      unfold attacks; rewrite (proj2 (piece_seen _ _ F)); cbn [pkind slider_dirs].
    + eapply slider_attacks; eauto. now apply rook_dir_to_spec.
    + eapply slider_attacks; eauto. apply in_or_app. left. now apply rook_dir_to_spec.
  - (* bishop or queen on a diagonal *)
    apply existsb_exists in H. destruct H as [d [Hd R]].
    pose proof dirs_are_unit as [_ [U _]]. rewrite Forall_forall in U.
    apply (ray_hits_iff b OK sq d _ _ (U d Hd) Hs) in R. destruct R as [k [Hk [Hfull Hclear]]].
    destruct Hfull as [F|F]; eapply attacked_intro; try exact F; try reflexivity;
      unfold attacks; rewrite (proj2 (piece_seen _ _ F)); cbn [pkind slider_dirs].
    + eapply slider_attacks; eauto. now apply bishop_dir_to_spec.
    + eapply slider_attacks; eauto. apply in_or_app. right. now apply bishop_dir_to_spec.
Qed.

(* ---- completeness: every attack the rules see is seen by the model *)
Lemma get_of_pget q pc : on8 q = true -> pget pl q = Some pc -> get b (pt_of_sq q) = Full pc.
Proof.
  intros On P. rewrite (pget_abs_on _ _ On) in P. destruct (get b (pt_of_sq q)); cbn in P; try discriminate. congruence.
Qed.

Lemma slider_seen q pc d' (p1 p2 : piece) (dirs : list point) :
  on8 q = true -> pget pl q = Some pc -> (pc = p1 \/ pc = p2) -> q <> t ->
  reaches 8 pl (sadd q d') d' t = true -> In (dmodel d') dirs -> Forall unit_dir dirs ->
  existsb (fun d => ray_hits b sq d p1 p2) dirs = true.
Proof.
  intros On P Hpc Hne R Hin U. rewrite Forall_forall in U.
  destruct (attacker_from_reaches b OK q d' t On t_on8 Hne R) as [k [Hk [Ea Hclear]]].
  rewrite pt_sq in Ea, Hclear.
  pose proof (get_of_pget q pc On P) as G.
  apply existsb_exists. exists (dmodel d'). split; [exact Hin|].
  apply (ray_hits_iff b OK sq (dmodel d') p1 p2 (U _ Hin) Hs). exists k.
  assert (Hin_a : is_inner (padd sq (pmul k (dmodel d'))) = true) by (rewrite <- Ea; now apply on8_inner).
  pose proof (inner_line_short sq (dmodel d') k (U _ Hin) Hs Hin_a ltac:(lia)) as K7.
  split; [lia|]. split; [|exact Hclear].
  rewrite <- Ea, G. destruct Hpc as [->| ->]; auto.
Qed.

Theorem is_check_cords_complete : attacked pl ac t = true -> is_check_cords s c sq = true.
Proof.
  unfold attacked. intros H. apply existsb_exists in H. destruct H as [q [Hq H]].
  apply andb_true_iff in H. destruct H as [HC A].
  pose proof (in_all_sq_on8 q Hq) as On.
  unfold has_color in HC. destruct (pget pl q) as [pc|] eqn:P; [|discriminate].
  destruct (color_eqb_spec (pcolor pc) ac) as [PC|]; [|discriminate].
  pose proof (get_of_pget q pc On P) as G.
  unfold attacks in A. rewrite P in A.
  pose proof dirs_are_unit as [UR [UB _]].
  unfold is_check_cords.
  destruct pc as [pcol kind]. cbn [pcolor pkind] in *. subst pcol.
  destruct kind.
  - (* pawn *)
    apply andb_true_iff in A. destruct A as [A1 A2]. apply Z.eqb_eq in A1.
    apply orb_true_iff. left. apply orb_true_iff. right.
    assert (Eq : pt_of_sq q = ((match c with White => fst sq - 1 | Black => fst sq + 1 end), snd sq - 1)
                 \/ pt_of_sq q = ((match c with White => fst sq - 1 | Black => fst sq + 1 end), snd sq + 1)).
    { apply orb_true_iff in A2. unfold pt_of_sq, sq_of_pt, forward, BOARD_START, BOARD_END in *.
      destruct q as [qf qr], sq as [r cc]. cbn [fst snd] in *.
      destruct A2 as [A2|A2]; apply Z.eqb_eq in A2; [left|right]; destruct c; cbn [opposite] in A1; f_equal; lia. }
    apply orb_true_iff. destruct Eq as [E|E]; [left|right]; rewrite <- E; apply sq_is_true; exact G.
  - (* knight *)
    apply existsb_exists in A. destruct A as [d' [Hd' E]]. destruct (sq_eqb_spec (sadd q d') t) as [E'|]; [|discriminate].
    apply orb_true_iff. left. apply orb_true_iff. left. apply orb_true_iff. right.
    apply existsb_exists. exists (dmodel d'). split; [now apply knight_to_model|].
    apply sq_is_true. rewrite <- G. f_equal.
    (* pt q = sq + dmodel d' *)
    assert (M1 : pt_of_sq (sadd q (smul 1 (dsp (neg (dmodel d'))))) = padd (pt_of_sq q) (pmul 1 (neg (dmodel d')))) by apply pt_of_sq_move.
    rewrite dsp_neg_dmodel, sone_step, E', pt_sq, one_step in M1.
    rewrite M1. unfold padd, neg. destruct (pt_of_sq q), (dmodel d'); cbn [fst snd]. f_equal; ring.
  - (* bishop *)
    assert (Hne : q <> t).
    { intros ->. apply existsb_exists in A. destruct A as [d' [Hd' R]]. apply reaches_iff in R.
      destruct R as [m [Hm [Et _]]]. rewrite sadd_smul_S in Et.
      assert (In d' bishop_dirs) by exact Hd'. clear - Et Hm H. unfold sadd, smul in Et. destruct (sq_of_pt sq) as [tf tr], d' as [x y]. cbn [fst snd] in *.
      assert (E1 := f_equal fst Et). assert (E2 := f_equal snd Et). cbn [fst snd] in E1, E2.
      cbn in H. repeat (destruct H as [H|H]; [inversion H; subst; nia|]). contradiction. }
    apply existsb_exists in A. destruct A as [d' [Hd' R]]. cbn [slider_dirs] in Hd'.
    apply orb_true_iff. left. apply orb_true_iff. left. apply orb_true_iff. left. apply orb_true_iff. right.
    eapply (slider_seen q _ d'); eauto. now apply bishop_dir_to_model.
  - (* rook *)
    assert (Hne : q <> t).
    { intros ->. apply existsb_exists in A. destruct A as [d' [Hd' R]]. apply reaches_iff in R.
      destruct R as [m [Hm [Et _]]]. rewrite sadd_smul_S in Et.
      assert (In d' rook_dirs) by exact Hd'. clear - Et Hm H. unfold sadd, smul in Et. destruct (sq_of_pt sq) as [tf tr], d' as [x y]. cbn [fst snd] in *.
      assert (E1 := f_equal fst Et). assert (E2 := f_equal snd Et). cbn [fst snd] in E1, E2.
      cbn in H. repeat (destruct H as [H|H]; [inversion H; subst; nia|]). contradiction. }
    apply existsb_exists in A. destruct A as [d' [Hd' R]]. cbn [slider_dirs] in Hd'.
    apply orb_true_iff. left. apply orb_true_iff. left. apply orb_true_iff. left. apply orb_true_iff. left.
    eapply (slider_seen q _ d'); eauto. now apply rook_dir_to_model.
  - (* queen *)
    assert (Hne : q <> t).
    { intros ->. apply existsb_exists in A. destruct A as [d' [Hd' R]]. apply reaches_iff in R.
      destruct R as [m [Hm [Et _]]]. rewrite sadd_smul_S in Et.
      assert (In d' (rook_dirs ++ bishop_dirs)) by exact Hd'. clear - Et Hm H. unfold sadd, smul in Et. destruct (sq_of_pt sq) as [tf tr], d' as [x y]. cbn [fst snd] in *.
      assert (E1 := f_equal fst Et). assert (E2 := f_equal snd Et). cbn [fst snd] in E1, E2.
      cbn in H. repeat (destruct H as [H|H]; [inversion H; subst; nia|]). contradiction. }
    apply existsb_exists in A. destruct A as [d' [Hd' R]]. cbn [slider_dirs] in Hd'. apply in_app_or in Hd'.
    destruct Hd' as [Hd'|Hd'].
    + apply orb_true_iff. left. apply orb_true_iff. left. apply orb_true_iff. left. apply orb_true_iff. left.
      eapply (slider_seen q _ d'); eauto. now apply rook_dir_to_model.
    + apply orb_true_iff. left. apply orb_true_iff. left. apply orb_true_iff. left. apply orb_true_iff. right.
      eapply (slider_seen q _ d'); eauto. now apply bishop_dir_to_model.
  - (* king *)
    apply existsb_exists in A. destruct A as [d' [Hd' E]]. destruct (sq_eqb_spec (sadd q d') t) as [E'|]; [|discriminate].
    apply orb_true_iff. right.
    pose proof (HK3 _ G) as Eak. apply king_offsets_iff in Hd'. destruct Hd' as [D1 [D2 _]].
    rewrite <- Eak. unfold pt_of_sq, sq_of_pt, sadd, BOARD_START, BOARD_END in *.
    destruct q as [qf qr], sq as [r cc], d' as [x y]. cbn [fst snd] in *.
    assert (E1 := f_equal fst E'). assert (E2 := f_equal snd E'). cbn [fst snd] in E1, E2.
    apply andb_true_iff. split; apply Z.leb_le; lia.
Qed.

Theorem is_check_cords_correct : is_check_cords s c sq = attacked pl ac t.
Proof.
  destruct (is_check_cords s c sq) eqn:E1, (attacked pl ac t) eqn:E2; try reflexivity.
  - rewrite (is_check_cords_sound E1) in E2. discriminate.
  - rewrite (is_check_cords_complete E2) in E1. discriminate.
Qed.

End Main.

(* ---- is_check: the probed square is the side's own cached king square *)
Definition kings_ok (s : BoardState) : Prop :=
  forall col, get (board s) (king_location s col) = Full (mkPiece col King) /\
              forall p, get (board s) p = Full (mkPiece col King) -> p = king_location s col.

Lemma king_sq_abs s col :
  cells_ok (board s) -> kings_ok s -> king_sq (abs_placement (board s)) col = sq_of_pt (king_location s col).
Proof.
  intros OK K. destruct (K col) as [G U].
  unfold king_sq, king_squares.
  pose proof (full_inner _ OK _ _ G) as Hin. pose proof (proj1 (inner_on8 _) Hin) as On.
  assert (All : forall q, In q (filter (fun q => is_king_of col (pget (abs_placement (board s)) q)) all_sq) -> q = sq_of_pt (king_location s col)).
  { intros q Hq. apply filter_In in Hq. destruct Hq as [Hq Hk].
    pose proof (in_all_sq_on8 q Hq) as Onq.
    rewrite (pget_abs_on _ _ Onq) in Hk.
    destruct (get (board s) (pt_of_sq q)) as [|pc|] eqn:Gq; cbn in Hk; try discriminate.
    apply andb_true_iff in Hk. destruct Hk as [H1 H2].
    destruct (color_eqb_spec (pcolor pc) col); [|discriminate]. destruct (kind_eqb_spec (pkind pc) King); [|discriminate].
    assert (pc = mkPiece col King) by (destruct pc; cbn in *; congruence). subst pc.
    rewrite <- (U _ Gq). now rewrite sq_pt. }
  assert (NE : In (sq_of_pt (king_location s col)) (filter (fun q => is_king_of col (pget (abs_placement (board s)) q)) all_sq)).
  { apply filter_In. split; [now apply on8_in_all_sq|].
    rewrite (pget_abs_on _ _ On), pt_sq, G. cbn. now rewrite color_eqb_refl. }
  destruct (filter _ all_sq) as [|q0 rest]; [contradiction|]. apply All. now left.
Qed.

Theorem is_check_correct s c :
  cells_ok (board s) -> kings_ok s -> is_check s c = in_check (abs_placement (board s)) c.
Proof.
  intros OK K. unfold is_check, in_check. rewrite (king_sq_abs s c OK K).
  destruct (K c) as [Gc Uc]. destruct (K (opposite c)) as [Go Uo].
  apply is_check_cords_correct; auto.
  - eapply full_inner; eauto.
  - intros E. rewrite E in Go. rewrite Gc in Go. inversion Go. destruct c; discriminate.
Qed.

(* ---- executable versions of the hypotheses, for concrete boards *)
Definition grid_points : list point :=
  flat_map (fun r => map (fun c => (r, c)) [0; 1; 2; 3; 4; 5; 6; 7; 8; 9; 10; 11]) [0; 1; 2; 3; 4; 5; 6; 7; 8; 9; 10; 11].

Lemma in_grid_points p : in_grid p = true -> In p grid_points.
Proof.
  intros G. apply in_grid_spec in G. destruct p as [r c]. cbn [fst snd] in G.
  unfold grid_points. apply in_flat_map. exists r. split; [cbn; lia|]. apply in_map. cbn. lia.
Qed.

Lemma wf_cells_ok b : wf_cells b = true -> cells_ok b.
Proof.
  unfold wf_cells. intros H. apply andb_true_iff in H. destruct H as [HL HF].
  apply Nat.eqb_eq in HL. rewrite forallb_forall in HF.
  assert (Cell : forall r c, In r [0;1;2;3;4;5;6;7;8;9;10;11] -> In c [0;1;2;3;4;5;6;7;8;9;10;11] ->
                 (if is_inner (r, c) then negb (square_eqb (get b (r, c)) Boundary) else square_eqb (get b (r, c)) Boundary) = true).
  { intros r c Hr Hc. specialize (HF r Hr). rewrite forallb_forall in HF. exact (HF c Hc). }
  split; [exact HL|]. split.
  - intros p Hp. destruct (in_grid p) eqn:G; [|now apply get_out_of_grid].
    apply in_grid_spec in G. destruct p as [r c]. cbn [fst snd] in G.
    specialize (Cell r c ltac:(cbn; lia) ltac:(cbn; lia)). rewrite Hp in Cell.
    destruct (square_eqb_spec (get b (r, c)) Boundary); [assumption|discriminate].
  - intros p Hp B. pose proof (is_inner_in_grid p Hp) as G. apply in_grid_spec in G. destruct p as [r c]. cbn [fst snd] in G.
    specialize (Cell r c ltac:(cbn; lia) ltac:(cbn; lia)). rewrite Hp, B in Cell. discriminate.
Qed.

Definition kings_okb (s : BoardState) : bool :=
  forallb (fun col =>
    square_eqb (get (board s) (king_location s col)) (Full (mkPiece col King))
    && forallb (fun p => negb (square_eqb (get (board s) p) (Full (mkPiece col King))) || point_eqb p (king_location s col)) grid_points)
  all_colors.

Lemma kings_okb_ok s : kings_okb s = true -> kings_ok s.
Proof.
  unfold kings_okb. intros H col. rewrite forallb_forall in H.
  specialize (H col ltac:(destruct col; cbn; tauto)). apply andb_true_iff in H. destruct H as [H1 H2].
  split; [destruct (square_eqb_spec (get (board s) (king_location s col)) (Full (mkPiece col King))); [assumption|discriminate]|].
  intros p G. destruct (in_grid p) eqn:IG.
  - rewrite forallb_forall in H2. specialize (H2 p (in_grid_points p IG)). rewrite G in H2.
    apply orb_true_iff in H2. destruct H2 as [H2|H2].
    + destruct (square_eqb_spec (Full (mkPiece col King)) (Full (mkPiece col King))) as [_|N]; [discriminate|exfalso; apply N; reflexivity].
    + now destruct (point_eqb_spec p (king_location s col)).
  - rewrite (get_out_of_grid _ _ IG) in G. discriminate.
Qed.
