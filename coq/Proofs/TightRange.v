(* C18/C11: the values of an unlimited search, relative to the window and the ply: never below the smaller of the
   upper window bound and "mated at this ply", never above the larger of the lower window bound and "mate delivered
   at the next ply".  Consequence at the root: every reported evaluation lies in [-(MATE - 2), MATE - 1], so the
   number printed after `score mate` is never 0 - for every depth, every expiry index, every ordering oracle. *)
From Walleye Require Import Model.Search Proofs.EvalProofs Proofs.ValueRange Proofs.ClockSim Proofs.RootSim Proofs.MateText.
From Coq Require Import Lia.
Open Scope Z_scope.

Local Notation M := MATE_SCORE.

Definition PLYMAX : Z := 30000.
Lemma eval_room : eval_bound + PLYMAX + 1 <= M.
Proof. vm_compute. discriminate. Qed.

Definition tight (ply a be v : Z) : Prop := Z.min be (- (M - ply)) <= v <= Z.max a (M - ply - 1).

Lemma eval_abs0 b : - eval_bound <= get_evaluation b <= eval_bound.
Proof. pose proof (eval_bounded (board b) (to_move b)) as H. unfold get_evaluation. revert H. generalize eval_bound. intros. lia. Qed.

Section S.
Variable zt : ztable.
Variable osort : N -> list BoardState -> list BoardState.
(* the evaluation bound, kept abstract (it is a large computed constant) *)
Variable EB : Z.
Hypothesis eval_abs : forall b, - EB <= get_evaluation b <= EB.
Hypothesis EB_room : EB + PLYMAX + 1 <= M.
Definition qtight (a be v : Z) : Prop := Z.min be (- EB) <= v <= Z.max a EB.

Definition q_tight (qrec : q_fn) : Prop := forall b a be s v s', a < be -> qrec b a be s = Ok (v, s') -> qtight a be v.

Lemma q_loop_tight qrec : q_tight qrec -> forall ms a be s v s', a < be ->
  q_loop qrec ms a be s = Ok (v, s') -> a <= v <= Z.max a EB.
Proof.
  intros Hq. induction ms as [|m rest IH]; intros a be s v s' Hab H; cbn [q_loop] in H.
  - assert (v = a) by congruence. lia.
  - destruct (qrec m (- be) (- a) s) as [[v1 s1]| |] eqn:E; try discriminate H.
    pose proof (fun X => Hq _ _ _ _ _ _ X E) as T. specialize (T ltac:(lia)). unfold qtight in T.
    destruct (Z.leb_spec be (- v1)); [assert (v = be) by congruence; lia|].
    destruct (Z.ltb_spec a (- v1)).
    + assert (Hn : - v1 < be) by lia. pose proof (IH _ _ _ _ _ Hn H). lia.
    + exact (IH _ _ _ _ _ Hab H).
Qed.

Lemma quiesce_tight fuel : q_tight (quiesce zt osort None fuel).
Proof.
  induction fuel as [|f IH]; intros b a be s v s' Hab H; cbn [quiesce] in H; [discriminate H|].
  unfold out_of_time in H. cbn match in H. pose proof (eval_abs b) as E. unfold qtight.
  destruct (Z.leb_spec be (get_evaluation b)); [assert (v = be) by congruence; lia|].
  destruct (do_sort osort (generate_moves zt b CapturesOnly) (node_searched (with_clock s (clock s + 1)%N))) as [moves s1].
  destruct (Z.ltb_spec a (get_evaluation b)) as [L|L].
  - assert (Hn : get_evaluation b < be) by lia. pose proof (q_loop_tight _ IH _ _ _ _ _ _ Hn H). lia.
  - pose proof (q_loop_tight _ IH _ _ _ _ _ _ Hab H). lia.
Qed.

Definition ab_tight (L : Z) (rec : search_fn) : Prop :=
  forall b d ply a be n s v s', 0 <= ply <= L -> a < be -> rec b d ply a be n s = Ok (v, s') -> tight ply a be v.

Section Node.
Variable L : Z.
Hypothesis HL : L + NULL_PLY_OFFSET <= PLYMAX.
Variable rec : search_fn.
Variable qrec : q_fn.
Hypothesis Hrec : ab_tight (L + NULL_PLY_OFFSET) rec.
Hypothesis Hq : q_tight qrec.
Variable b : BoardState.
Variable ply : Z.
Hypothesis Hp : 0 <= ply <= L.

Let lo := - (M - ply).
Let hi := M - ply - 1.

Lemma child_tight m d a' b' n s v s1 : a' < b' -> rec m d (ply + 1) a' b' n s = Ok (v, s1) ->
  Z.min b' (- (M - ply - 1)) <= v <= Z.max a' (M - ply - 2).
Proof.
  intros Hab E. pose proof (Hrec m d (ply + 1) a' b' n s v s1 ltac:(unfold NULL_PLY_OFFSET; lia) Hab E) as T. unfold tight in T. lia.
Qed.

(* the loop: alpha within [lo, be) and below the larger of a and hi, best below alpha *)
Lemma ab_loop_tight depth a be : forall ms alpha best s v s',
  a <= alpha < be -> lo <= alpha <= Z.max a hi -> lo <= best <= alpha ->
  ab_loop rec b depth ply be ms alpha best s = Ok (v, s') -> lo <= v <= Z.max a hi.
Proof.
  induction ms as [|m rest IH]; intros alpha best s v s' Ha Hlo Hb H; cbn [ab_loop] in H.
  - rewrite (leave_value b _ _ _ _ H). lia.
  - destruct (insert_into_cur_line s ply m) as [s1| |]; try discriminate H.
    destruct (rec m (depth - 1) (ply + 1) (- alpha - 1) (- alpha) true s1) as [[v1 s2]| |] eqn:E2; try discriminate H.
    pose proof (fun X => child_tight _ _ _ _ _ _ _ _ X E2) as T1. specialize (T1 ltac:(lia)).
    destruct ((alpha <? - v1) && (- v1 <? be)) eqn:RS.
    + apply andb_true_iff in RS. destruct RS as [R1 R2]. apply Z.ltb_lt in R1, R2.
      destruct (rec m (depth - 1) (ply + 1) (- be) (- alpha) true s2) as [[v2 s3]| |] eqn:E3; try discriminate H.
      pose proof (fun X => child_tight _ _ _ _ _ _ _ _ X E3) as T2. specialize (T2 ltac:(lia)).
      assert (B2 : lo <= - v2 <= Z.max a hi) by (unfold lo, hi in *; lia).
      destruct (Z.ltb_spec best (- v2)).
      * destruct (Z.leb_spec be (- v2)).
        -- assert (v = - v2).
           { destruct (order_heuristic m =? 0); [destruct (insert_killer_move s3 ply m); try discriminate H|]; unfold leave in H; congruence. }
           subst v. exact B2.
        -- destruct (Z.ltb_spec alpha (- v2)).
           ++ eapply (IH (- v2) (- v2)); [| | |exact H]; lia.
           ++ eapply (IH alpha (- v2)); [| | |exact H]; lia.
      * destruct (Z.ltb_spec alpha (- v2)); [exfalso; lia|].
        eapply (IH alpha best); [| | |exact H]; lia.
    + apply andb_false_iff in RS. rewrite Z.ltb_ge, Z.ltb_ge in RS.
      assert (B1 : lo <= - v1) by (unfold lo, hi in *; lia).
      destruct (Z.ltb_spec best (- v1)).
      * destruct (Z.leb_spec be (- v1)).
        -- assert (v = - v1).
           { destruct (order_heuristic m =? 0); [destruct (insert_killer_move s2 ply m); try discriminate H|]; unfold leave in H; congruence. }
           subst v. unfold lo, hi in *. lia.
        -- eapply (IH alpha (- v1)); [| | |exact H]; lia.
      * eapply (IH alpha best); [| | |exact H]; lia.
Qed.

Lemma ab_moves_tight depth a be s v s' : a < be -> lo <= a ->
  ab_moves zt osort rec b depth ply a be s = Ok (v, s') -> lo <= v <= Z.max a hi.
Proof.
  intros Hab Hlo H. unfold ab_moves in H.
  assert (R : lo <= 0 <= hi) by (unfold lo, hi, PLYMAX, NULL_PLY_OFFSET, MATE_SCORE in *; lia).
  destruct (generate_moves zt b AllMoves) as [|g0 gs].
  { destruct (is_check b (to_move b)); rewrite (leave_value b _ _ _ _ H); unfold lo, hi in *; lia. }
  destruct (rank_moves s ply (g0 :: gs)) as [ranked| |]; try discriminate H.
  destruct (do_sort osort ranked s) as [sorted s1].
  destruct sorted as [|m0 rest]; [discriminate H|].
  destruct (insert_into_cur_line s1 ply m0) as [s2| |]; try discriminate H.
  set (s3 := if negb (order_heuristic m0 =? POS_INF) then set_principle_variation s2 else s2) in *.
  destruct (rec m0 (depth - 1) (ply + 1) (- be) (- a) true s3) as [[v0 s4]| |] eqn:E4; try discriminate H.
  pose proof (fun X => child_tight _ _ _ _ _ _ _ _ X E4) as T0. specialize (T0 ltac:(lia)).
  destruct (Z.ltb_spec a (- v0)); cbn [andb] in H.
  - destruct (Z.leb_spec be (- v0)).
    + rewrite (leave_value b _ _ _ _ H). unfold lo, hi in *. lia.
    + assert (G3 : lo <= - v0 <= Z.max a hi) by (unfold lo, hi in *; lia).
      eapply (ab_loop_tight depth a be rest (- v0) (- v0)); [| | |exact H]; lia.
  - assert (G3 : lo <= - v0) by (unfold lo, hi in *; lia). eapply (ab_loop_tight depth a be rest a (- v0)); [| | |exact H]; lia.
Qed.

Lemma ab_body_tight depth a be allow_null s v s' : a < be ->
  ab_body zt osort rec qrec b depth ply a be allow_null s = Ok (v, s') -> tight ply a be v.
Proof.
  intros Hab H. unfold ab_body in H. unfold tight. fold lo. pose proof EB_room as ER.
  assert (R : lo <= - EB /\ EB <= hi) by (unfold lo, hi, PLYMAX, NULL_PLY_OFFSET in *; lia).
  destruct ((depth =? 0) && negb (is_check b (to_move b))).
  { pose proof (Hq _ _ _ _ _ _ Hab H) as T. unfold qtight in T. unfold hi in *. lia. }
  set (depth' := if depth =? 0 then depth + 1 else depth) in *.
  set (alpha' := Z.max a (- MATE_SCORE + ply)) in *.
  set (beta' := Z.min be (MATE_SCORE - ply)) in *.
  assert (A' : lo <= alpha' /\ a <= alpha') by (unfold alpha', lo; lia).
  assert (LH : lo <= hi) by (unfold lo, hi, PLYMAX, NULL_PLY_OFFSET, MATE_SCORE in *; lia).
  destruct (Z.leb_spec beta' alpha'); [rewrite (leave_value b _ _ _ _ H); unfold alpha', beta' in *; fold lo; fold hi; lia|].
  assert (MV : forall x, lo <= x <= Z.max alpha' hi -> Z.min be lo <= x <= Z.max a (M - ply - 1)) by (intros x; unfold alpha', lo, hi; lia).
  destruct (allow_null && (NULL_MIN_DEPTH <=? depth') && negb (is_check b (to_move b))).
  - destruct (rec (with_to_move b (opposite (to_move b))) (depth' - NULL_REDUCTION) (ply + NULL_PLY_OFFSET)
                  (- beta') (- beta' + 1) false s) as [[vn sn]| |] eqn:EN; try discriminate H.
    pose proof (fun X Y => Hrec _ _ _ _ _ _ _ _ _ X Y EN) as Tn. specialize (Tn ltac:(unfold NULL_PLY_OFFSET; lia) ltac:(lia)). unfold tight in Tn.
    destruct (Z.leb_spec beta' (- vn)).
    + rewrite (leave_value b _ _ _ _ H). unfold beta', NULL_PLY_OFFSET, lo, hi in *. lia.
    + apply MV. apply (ab_moves_tight depth' alpha' beta' sn v s'); [lia|lia|exact H].
  - apply MV. apply (ab_moves_tight depth' alpha' beta' s v s'); [lia|lia|exact H].
Qed.

End Node.

Theorem alpha_beta_tight fuel :
  ab_tight (PLYMAX - NULL_PLY_OFFSET * Z.of_nat fuel) (alpha_beta zt osort None fuel).
Proof.
  induction fuel as [|f IH]; intros b d ply a be n s v s' Hp Hab H; cbn [alpha_beta] in H; [discriminate H|].
  unfold out_of_time in H. cbn match in H.
  set (s2 := with_maxply (node_searched (with_clock s (clock s + 1)%N))
                         (Z.max (max_ply (node_searched (with_clock s (clock s + 1)%N))) ply)) in *.
  destruct (is_threefold_repetition (table s2) b).
  - assert (v = 0) by congruence. subst. unfold tight, PLYMAX, NULL_PLY_OFFSET, MATE_SCORE in *. lia.
  - eapply (ab_body_tight (PLYMAX - NULL_PLY_OFFSET * Z.of_nat (S f)) ltac:(unfold NULL_PLY_OFFSET; lia)
                          (alpha_beta zt osort None f) (quiesce zt osort None f)); [|apply quiesce_tight|exact Hp|exact Hab|exact H].
    replace (PLYMAX - NULL_PLY_OFFSET * Z.of_nat (S f) + NULL_PLY_OFFSET) with (PLYMAX - NULL_PLY_OFFSET * Z.of_nat f)
      by (unfold NULL_PLY_OFFSET; lia). exact IH.
Qed.

End S.

(* ---- at the root: what is reported *)
Definition info_tight (e : event) : Prop :=
  match e with
  | Info d ev line => - (M - 2) <= ev <= M - 1
  | Send _ => True
  end.

Section R.
Variable zt : ztable.
Variable osort : N -> list BoardState -> list BoardState.
Variable k : option N.
Variable fuel : nat.
Hypothesis Hfuel : 1 <= PLYMAX - NULL_PLY_OFFSET * Z.of_nat fuel.

Lemma root_moves_tight first : forall ms d alpha r o r',
  (alpha = NEG_INF \/ - (M - 2) <= alpha <= M - 1) -> Forall info_tight (r_events r) ->
  root_moves zt osort k fuel first ms d alpha r = Ok (o, r') -> Forall info_tight (r_events r').
Proof.
  induction ms as [|mov rest IH]; intros d alpha r o r' Ha Hr H; cbn [root_moves] in H.
  - assert (r' = r) by congruence. subst. exact Hr.
  - destruct (out_of_time k (r_s r)) as [expired s] eqn:E. destruct expired.
    + assert (r' = mkR s (r_best r) (match r_best r with None => Send first :: r_events r | Some _ => r_events r end)) by congruence. subst r'.
      cbn [r_events]. destruct (r_best r); [exact Hr|]. constructor; [exact I|exact Hr].
    + destruct (alpha_beta zt osort k fuel mov (d - 1) 1 (- POS_INF) (- alpha) true s) as [[v s1]| |] eqn:AB; try discriminate H.
      destruct (insert_into_cur_line s1 0 mov) as [s2| |] eqn:I2; try discriminate H.
      pose proof (insert_cur_clock _ _ _ _ I2) as C2.
      destruct (alpha <? - v) eqn:Lt.
      * destruct (out_of_time k s2) as [expired2 s3] eqn:E2. destruct expired2; cbn [negb] in H.
        -- eapply IH; [exact Ha| |exact H]. exact Hr.
        -- assert (F : fst (out_of_time k s2) = false) by (rewrite E2; reflexivity).
           pose proof (accepted_value_is_untainted zt osort k fuel mov (d - 1) 1 (- POS_INF) (- alpha) true s v s1 s2 AB C2 F) as U.
           apply Z.ltb_lt in Lt.
           assert (W : - POS_INF < - alpha) by (unfold NEG_INF, POS_INF, MATE_SCORE in *; lia).
           pose proof (alpha_beta_tight zt osort eval_bound eval_abs0 eval_room fuel mov (d - 1) 1 (- POS_INF) (- alpha) true s v s1 ltac:(lia) W U) as T.
           unfold tight in T.
           assert (R : - (M - 2) <= - v <= M - 1) by (unfold NEG_INF, POS_INF, MATE_SCORE in *; lia).
           eapply IH; [right; exact R| |exact H]. cbn [r_events]. constructor; [exact R|]. constructor; [exact I|exact Hr].
      * eapply IH; [exact Ha| |exact H]. exact Hr.
Qed.

Lemma root_depths_tight b : forall iters moves d r r',
  Forall info_tight (r_events r) -> root_depths zt osort k iters fuel b moves d r = Ok r' -> Forall info_tight (r_events r').
Proof.
  induction iters as [|it IH]; intros moves d r r' Hr H; cbn [root_depths] in H.
  - assert (r' = r) by congruence. subst. exact Hr.
  - destruct (MAX_DEPTH <=? d); [assert (r' = r) by congruence; subst; exact Hr|].
    destruct (do_sort osort moves (reset_search (r_s r))) as [sorted s].
    destruct sorted as [|first rest].
    + eapply IH; [|exact H]. exact Hr.
    + destruct (root_moves zt osort k fuel first (first :: rest) d NEG_INF (mkR s (r_best r) (r_events r))) as [[o r3]| |] eqn:RM; try discriminate H.
      assert (H3 : Forall info_tight (r_events r3)) by (eapply root_moves_tight; [left; reflexivity| |exact RM]; exact Hr).
      destruct (root_moves_grow zt osort _ _ _ _ _ _ _ _ _ RM) as [_ Ho].
      destruct o as [r''|].
      * rewrite (Ho r'' eq_refl) in H. eapply IH; [|exact H]. exact H3.
      * assert (r' = r3) by congruence. subst. exact H3.
Qed.

(* every evaluation a search reports lies in [-(MATE - 2), MATE - 1]; so the number after `score mate` is never 0 *)
Theorem reported_scores_tight b t ev s :
  get_best_move zt osort k fuel b t = Ok (ev, s) -> Forall info_tight ev.
Proof.
  unfold get_best_move. intros H.
  destruct (root_depths zt osort k (Z.to_nat MAX_DEPTH) fuel b (generate_moves zt b AllMoves) 1 (mkR (new_search t) None [])) as [r| |] eqn:RD; try discriminate H.
  assert (ev = rev (r_events r)) by congruence. subst ev. apply Forall_rev.
  eapply root_depths_tight; [|exact RD]. constructor.
Qed.

Theorem reported_mate_number_nonzero b t ev s d e line n :
  get_best_move zt osort k fuel b t = Ok (ev, s) -> In (Info d e line) ev -> mate_number e = Some n -> n <> 0.
Proof.
  intros H Hin Hn. pose proof (reported_scores_tight b t ev s H) as F. rewrite Forall_forall in F. specialize (F _ Hin). cbn [info_tight] in F.
  exact (mate_number_nonzero e n F Hn).
Qed.

End R.
