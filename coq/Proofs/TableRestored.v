(* C07 (d): the search leaves the repetition record exactly as it was given, as a lookup function,
   on every exit path -- timed out or not, for every ordering oracle, window, depth and expiry index. *)
From Walleye Require Import Model.Search Proofs.DrawTableProofs.
Open Scope Z_scope.

Definition dt_nonneg (t : dtable) : Prop := forall k, 0 <= dt_count t k.

Lemma dt_nonneg_equiv t t' : dt_equiv t t' -> dt_nonneg t' -> dt_nonneg t.
Proof. intros E N k. rewrite E. apply N. Qed.
Lemma dt_nonneg_add t s : dt_nonneg t -> dt_nonneg (dt_add t s).
Proof. intros N k. rewrite dt_count_add. specialize (N k). destruct (k =? zobrist_key s)%N; lia. Qed.
Lemma dt_equiv_sym a b : dt_equiv a b -> dt_equiv b a.
Proof. intros H k. symmetry. apply H. Qed.

(* removing the node's own entry from anything equivalent to "t0 plus the node" gives back t0 *)
Lemma remove_after_add_equiv t t0 b :
  dt_nonneg t0 -> dt_equiv t (dt_add t0 b) -> dt_equiv (dt_remove t b) t0.
Proof.
  intros N E. apply dt_equiv_trans with (dt_remove (dt_add t0 b) b).
  - apply dt_remove_equiv; [exact E|]. rewrite E, dt_count_add, N.eqb_refl. specialize (N (zobrist_key b)). lia.
  - apply dt_remove_add_equiv.
Qed.

Section S.
Variable zt : ztable.
Variable osort : N -> list BoardState -> list BoardState.
Variable k : option N.

(* ---- bookkeeping operations do not touch the record *)
Lemma out_of_time_table s : table (snd (out_of_time k s)) = table s.
Proof. reflexivity. Qed.
Lemma do_sort_table l s : table (snd (do_sort osort l s)) = table s.
Proof. reflexivity. Qed.
Lemma insert_cur_table s ply m s1 : insert_into_cur_line s ply m = Ok s1 -> table s1 = table s.
Proof. unfold insert_into_cur_line. destruct (arr_set (cur_line s) ply (last_move m)); intros H; inversion H; reflexivity. Qed.
Lemma insert_killer_table s ply m s1 : insert_killer_move s ply m = Ok s1 -> table s1 = table s.
Proof.
  unfold insert_killer_move. destruct (arr_get (killers s) ply) as [kk|]; [|discriminate].
  destruct (existsb _ kk); [intros H; inversion H; reflexivity|].
  destruct (arr_set (killers s) ply _); intros H; inversion H; reflexivity.
Qed.

(* ---- quiescence never touches it *)
Definition q_pres (qrec : q_fn) : Prop := forall b a be s v s', qrec b a be s = Ok (v, s') -> table s' = table s.

Lemma q_loop_pres qrec : q_pres qrec -> forall ms a be s v s',
  q_loop qrec ms a be s = Ok (v, s') -> table s' = table s.
Proof.
  intros Hq. induction ms as [|m rest IH]; intros a be s v s' H; cbn [q_loop] in H.
  - inversion H; reflexivity.
  - destruct (qrec m (- be) (- a) s) as [[v1 s1]| |] eqn:E; try discriminate.
    pose proof (Hq _ _ _ _ _ _ E) as T1.
    destruct (be <=? - v1); [inversion H; subst; exact T1|].
    rewrite (IH _ _ _ _ _ H). exact T1.
Qed.

Lemma quiesce_pres fuel : q_pres (quiesce zt osort k fuel).
Proof.
  induction fuel as [|f IH]; intros b a be s v s' H; cbn [quiesce] in H; [discriminate|].
  destruct (out_of_time k s) as [e s0] eqn:OT.
  assert (T0 : table s0 = table s) by (change s0 with (snd (e, s0)); rewrite <- OT; reflexivity).
  destruct e; [inversion H; subst; exact T0|].
  destruct (be <=? get_evaluation b); [inversion H; subst; exact T0|].
  destruct (do_sort osort (generate_moves zt b CapturesOnly) (node_searched s0)) as [moves s1] eqn:DS.
  assert (T1 : table s1 = table s0).
  { change s1 with (snd (moves, s1)). rewrite <- DS. reflexivity. }
  rewrite (q_loop_pres _ IH _ _ _ _ _ _ H). congruence.
Qed.

(* ---- the main search *)
Definition ab_pres (rec : search_fn) : Prop :=
  forall b d ply a be n s v s', dt_nonneg (table s) -> rec b d ply a be n s = Ok (v, s') -> dt_equiv (table s') (table s).

Lemma leave_table b v s v' s' : leave b v s = Ok (v', s') -> table s' = dt_remove (table s) b.
Proof. unfold leave. intros H; inversion H; reflexivity. Qed.

Section Node.
Variable rec : search_fn.
Variable qrec : q_fn.
Hypothesis Hrec : ab_pres rec.
Hypothesis Hq : q_pres qrec.
Variable b : BoardState.
Variable t0 : dtable.
Hypothesis N0 : dt_nonneg t0.

(* the node's invariant between add and remove: the record is t0 plus the node itself *)
Definition Inv (s : sstate) : Prop := dt_equiv (table s) (dt_add t0 b).

Lemma Inv_nonneg s : Inv s -> dt_nonneg (table s).
Proof. intros I. eapply dt_nonneg_equiv; [exact I|]. now apply dt_nonneg_add. Qed.

Lemma Inv_rec s b' d ply a be n v s1 : Inv s -> rec b' d ply a be n s = Ok (v, s1) -> Inv s1.
Proof.
  intros I H. unfold Inv. eapply dt_equiv_trans; [|exact I]. eapply Hrec; [|exact H]. now apply Inv_nonneg.
Qed.

Lemma Inv_same s s1 : Inv s -> table s1 = table s -> Inv s1.
Proof. unfold Inv. intros I E. now rewrite E. Qed.

Lemma leave_restores v s v' s' : Inv s -> leave b v s = Ok (v', s') -> dt_equiv (table s') t0.
Proof. intros I H. rewrite (leave_table _ _ _ _ _ H). now apply remove_after_add_equiv. Qed.

Lemma ab_loop_restores depth ply beta : forall ms alpha best s v s',
  Inv s -> ab_loop rec b depth ply beta ms alpha best s = Ok (v, s') -> dt_equiv (table s') t0.
Proof.
  induction ms as [|m rest IH]; intros alpha best s v s' I H; cbn [ab_loop] in H.
  - eapply leave_restores; eauto.
  - destruct (insert_into_cur_line s ply m) as [s1| |] eqn:E1; try discriminate.
    assert (I1 : Inv s1) by (eapply Inv_same; [exact I|eapply insert_cur_table; eauto]).
    destruct (rec m (depth - 1) (ply + 1) (- alpha - 1) (- alpha) true s1) as [[v1 s2]| |] eqn:E2; try discriminate.
    assert (I2 : Inv s2) by (eapply Inv_rec; eauto).
    destruct ((alpha <? - v1) && (- v1 <? beta)).
    + destruct (rec m (depth - 1) (ply + 1) (- beta) (- alpha) true s2) as [[v2 s3]| |] eqn:E3; try discriminate.
      assert (I3 : Inv s3) by (eapply Inv_rec; eauto).
      destruct (best <? - v2).
      * destruct (beta <=? - v2).
        -- destruct (order_heuristic m =? 0).
           ++ destruct (insert_killer_move s3 ply m) as [s4| |] eqn:E4; try discriminate.
              eapply leave_restores; [|exact H]. eapply Inv_same; [exact I3|eapply insert_killer_table; eauto].
           ++ eapply leave_restores; eauto.
        -- eapply IH; [|exact H]. eapply Inv_same; [exact I3|reflexivity].
      * eapply IH; eauto.
    + destruct (best <? - v1).
      * destruct (beta <=? - v1).
        -- destruct (order_heuristic m =? 0).
           ++ destruct (insert_killer_move s2 ply m) as [s4| |] eqn:E4; try discriminate.
              eapply leave_restores; [|exact H]. eapply Inv_same; [exact I2|eapply insert_killer_table; eauto].
           ++ eapply leave_restores; eauto.
        -- eapply IH; [|exact H]. eapply Inv_same; [exact I2|reflexivity].
      * eapply IH; eauto.
Qed.

Lemma ab_moves_restores depth ply alpha beta s v s' :
  Inv s -> ab_moves zt osort rec b depth ply alpha beta s = Ok (v, s') -> dt_equiv (table s') t0.
Proof.
  intros I H. unfold ab_moves in H.
  destruct (generate_moves zt b AllMoves) as [|g0 gs] eqn:G.
  { destruct (is_check b (to_move b)); eapply leave_restores; eauto. }
  destruct (rank_moves s ply (g0 :: gs)) as [ranked| |]; try discriminate.
  destruct (do_sort osort ranked s) as [sorted s1] eqn:DS.
  assert (I1 : Inv s1).
  { eapply Inv_same; [exact I|]. change s1 with (snd (sorted, s1)). rewrite <- DS. reflexivity. }
  destruct sorted as [|m0 rest]; [discriminate|].
  destruct (insert_into_cur_line s1 ply m0) as [s2| |] eqn:E2; try discriminate.
  assert (I2 : Inv s2) by (eapply Inv_same; [exact I1|eapply insert_cur_table; eauto]).
  set (s3 := if negb (order_heuristic m0 =? POS_INF) then set_principle_variation s2 else s2) in *.
  assert (I3 : Inv s3) by (unfold s3; destruct (negb _); [eapply Inv_same; [exact I2|reflexivity]|exact I2]).
  destruct (rec m0 (depth - 1) (ply + 1) (- beta) (- alpha) true s3) as [[v0 s4]| |] eqn:E4; try discriminate.
  assert (I4 : Inv s4) by (eapply Inv_rec; eauto).
  destruct ((alpha <? - v0) && (beta <=? - v0)); [eapply leave_restores; eauto|].
  destruct (alpha <? - v0).
  - eapply ab_loop_restores; [|exact H]. eapply Inv_same; [exact I4|reflexivity].
  - eapply ab_loop_restores; eauto.
Qed.

Lemma ab_body_restores depth ply alpha beta allow_null s v s' :
  Inv s -> ab_body zt osort rec qrec b depth ply alpha beta allow_null s = Ok (v, s') -> dt_equiv (table s') t0.
Proof.
  intros I H. unfold ab_body in H.
  destruct ((depth =? 0) && negb (is_check b (to_move b))).
  { (* straight to quiescence: the entry is removed first *)
    rewrite (Hq _ _ _ _ _ _ H). cbn [table with_table]. now apply remove_after_add_equiv. }
  set (depth' := if depth =? 0 then depth + 1 else depth) in *.
  set (alpha' := Z.max alpha (- MATE_SCORE + ply)) in *.
  set (beta' := Z.min beta (MATE_SCORE - ply)) in *.
  destruct (beta' <=? alpha'); [eapply leave_restores; eauto|].
  destruct (allow_null && (NULL_MIN_DEPTH <=? depth') && negb (is_check b (to_move b))).
  - destruct (rec (with_to_move b (opposite (to_move b))) (depth' - NULL_REDUCTION) (ply + NULL_PLY_OFFSET)
                  (- beta') (- beta' + 1) false s) as [[vn sn]| |] eqn:EN; try discriminate.
    assert (In_ : Inv sn) by (eapply Inv_rec; eauto).
    destruct (beta' <=? - vn); [eapply leave_restores; eauto|].
    eapply ab_moves_restores; eauto.
  - eapply ab_moves_restores; eauto.
Qed.

End Node.

Theorem alpha_beta_restores fuel : ab_pres (alpha_beta zt osort k fuel).
Proof.
  induction fuel as [|f IH]; intros b d ply a be n s v s' NN H; cbn [alpha_beta] in H; [discriminate|].
  destruct (out_of_time k s) as [expired s1] eqn:E.
  assert (T1 : table s1 = table s) by (change s1 with (snd (expired, s1)); rewrite <- E; reflexivity).
  destruct expired; [inversion H; subst; rewrite T1; apply dt_equiv_refl|].
  set (s2 := with_maxply (node_searched s1) (Z.max (max_ply (node_searched s1)) ply)) in *.
  assert (T2 : table s2 = table s) by (unfold s2; cbn [table with_maxply node_searched with_nodes]; exact T1).
  destruct (is_threefold_repetition (table s2) b); [inversion H; subst; rewrite T2; apply dt_equiv_refl|].
  eapply (ab_body_restores (alpha_beta zt osort k f) (quiesce zt osort k f) IH (quiesce_pres f) b (table s)); [exact NN| |exact H].
  unfold Inv. cbn [table with_table]. rewrite T2. apply dt_equiv_refl.
Qed.

(* ---- the root: get_best_move as a whole *)
Lemma root_moves_restores fuel first : forall ms cur_depth alpha r o r2 t0,
  dt_nonneg t0 -> dt_equiv (table (r_s r)) t0 ->
  root_moves zt osort k fuel first ms cur_depth alpha r = Ok (o, r2) ->
  dt_equiv (table (r_s r2)) t0 /\ match o with Some r' => dt_equiv (table (r_s r')) t0 | None => True end.
Proof.
  induction ms as [|mov rest IH]; intros cur_depth alpha r o r2 t0 N0 I H; cbn [root_moves] in H.
  - inversion H; subst. split; assumption.
  - destruct (out_of_time k (r_s r)) as [expired s] eqn:E.
    assert (T : table s = table (r_s r)) by (change s with (snd (expired, s)); rewrite <- E; reflexivity).
    destruct expired.
    + inversion H; subst. cbn [r_s]. rewrite T. split; [exact I|exact Logic.I].
    + destruct (alpha_beta zt osort k fuel mov (cur_depth - 1) 1 (- POS_INF) (- alpha) true s) as [[v s1]| |] eqn:AB; try discriminate.
      assert (NNs : dt_nonneg (table s)) by (rewrite T; eapply dt_nonneg_equiv; eauto).
      pose proof (alpha_beta_restores fuel _ _ _ _ _ _ _ _ _ NNs AB) as R.
      assert (I1 : dt_equiv (table s1) t0) by (eapply dt_equiv_trans; [exact R|rewrite T; exact I]).
      destruct (insert_into_cur_line s1 0 mov) as [s2| |] eqn:E2; try discriminate.
      assert (I2 : dt_equiv (table s2) t0) by (rewrite (insert_cur_table _ _ _ _ E2); exact I1).
      destruct (alpha <? - v).
      * destruct (out_of_time k s2) as [expired2 s3] eqn:E3.
        assert (T3 : table s3 = table s2) by (change s3 with (snd (expired2, s3)); rewrite <- E3; reflexivity).
        destruct expired2; cbn [negb] in H; (eapply IH; [exact N0| |exact H]); cbn [r_s table set_principle_variation with_pv]; rewrite T3; exact I2.
      * eapply IH; [exact N0| |exact H]. exact I2.
Qed.

Lemma root_depths_restores fuel b : forall iters moves cur_depth r r2 t0,
  dt_nonneg t0 -> dt_equiv (table (r_s r)) t0 ->
  root_depths zt osort k iters fuel b moves cur_depth r = Ok r2 -> dt_equiv (table (r_s r2)) t0.
Proof.
  induction iters as [|it IH]; intros moves cur_depth r r2 t0 N0 I H; cbn [root_depths] in H.
  - inversion H; subst; exact I.
  - destruct (MAX_DEPTH <=? cur_depth); [inversion H; subst; exact I|].
    destruct (do_sort osort moves (reset_search (r_s r))) as [sorted s] eqn:DS.
    assert (T : table s = table (r_s r)).
    { change s with (snd (sorted, s)). rewrite <- DS. reflexivity. }
    destruct sorted as [|first rest].
    + eapply IH; [exact N0| |exact H]. cbn [r_s]. rewrite T. exact I.
    + destruct (root_moves zt osort k fuel first (first :: rest) cur_depth NEG_INF (mkR s (r_best r) (r_events r)))
        as [[o r3]| |] eqn:RM; try discriminate.
      assert (I0 : dt_equiv (table (r_s (mkR s (r_best r) (r_events r)))) t0) by (cbn [r_s]; rewrite T; exact I).
      destruct (root_moves_restores fuel first _ _ _ _ _ _ t0 N0 I0 RM) as [I3 Io].
      destruct o as [r'|]; [eapply IH; [exact N0|exact Io|exact H] | inversion H; subst; exact I3].
Qed.

(* the repetition record after get_best_move equals, as a lookup function, the one it was given --
   for every position, ordering oracle and expiry index *)
Theorem get_best_move_restores fuel b t ev s :
  dt_nonneg t -> get_best_move zt osort k fuel b t = Ok (ev, s) -> dt_equiv (table s) t.
Proof.
  intros N0 H. unfold get_best_move in H.
  destruct (root_depths zt osort k (Z.to_nat MAX_DEPTH) fuel b (generate_moves zt b AllMoves) 1 (mkR (new_search t) None []))
    as [r| |] eqn:RD; try discriminate.
  inversion H; subst. eapply root_depths_restores; [exact N0| |exact RD]. cbn [r_s new_search table]. apply dt_equiv_refl.
Qed.

End S.
