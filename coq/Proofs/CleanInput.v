(* C17: what the dispatcher sees of a line is exactly its words - the maximal runs of non-blank characters -
   whatever blanks (any Unicode white space, in any number) surround and separate them. *)
From Walleye Require Import Model.Uci.
Open Scope N_scope.

Definition all_ws (s : str) : Prop := Forall (fun c => is_whitespace c = true) s.
Definition no_ws (s : str) : Prop := Forall (fun c => is_whitespace c = false) s.

(* a line: leading blanks, then words each followed by blanks *)
Definition assemble (b0 : str) (l : list (str * str)) : str := b0 ++ flat_map (fun wb => fst wb ++ snd wb) l.

(* every word is non-empty and blank-free, every gap is blank, and only the last gap may be empty *)
Fixpoint well_formed (l : list (str * str)) : Prop :=
  match l with
  | [] => True
  | (w, b) :: t => w <> [] /\ no_ws w /\ all_ws b /\ (t <> [] -> b <> []) /\ well_formed t
  end.

Lemma cc_word w : no_ws w -> forall r p, clean_chars (w ++ r) p = w ++ clean_chars r (match w with [] => p | _ => false end).
Proof.
  induction 1 as [|c w Hc Hw IH]; intros r p; cbn [app clean_chars]; [reflexivity|].
  rewrite Hc. cbn [negb]. rewrite IH. destruct w; reflexivity.
Qed.

Lemma cc_blank_true b : all_ws b -> forall r, clean_chars (b ++ r) true = clean_chars r true.
Proof. induction 1 as [|c b Hc Hb IH]; intros r; cbn [app clean_chars]; [reflexivity|]. rewrite Hc. cbn [negb]. apply IH. Qed.

Lemma cc_blank_false b : all_ws b -> b <> [] -> forall r, clean_chars (b ++ r) false = 32 :: clean_chars r true.
Proof.
  intros H Hne r. destruct H as [|c b Hc Hb]; [contradiction|]. cbn [app clean_chars]. rewrite Hc. cbn [negb].
  f_equal. now apply cc_blank_true.
Qed.

(* the cleaned characters: the words separated by single spaces, with one trailing space if the line ends in blanks *)
Fixpoint cleaned (l : list (str * str)) : str :=
  match l with
  | [] => []
  | (w, b) :: t => w ++ (match b with [] => [] | _ => 32 :: cleaned t end)
  end.

Lemma clean_chars_body l : well_formed l -> clean_chars (flat_map (fun wb => fst wb ++ snd wb) l) true = cleaned l.
Proof.
  induction l as [|[w b] t IH]; intros WF; cbn [flat_map cleaned fst snd]; [reflexivity|].
  destruct WF as (Hw & Nw & Ab & Hb & WFt). rewrite <- app_assoc, (cc_word w Nw).
  destruct w as [|c w]; [contradiction|]. f_equal.
  destruct b as [|cb b].
  - cbn [app]. destruct t as [|x t]; [reflexivity|]. exfalso. apply (Hb ltac:(discriminate)). reflexivity.
  - rewrite (cc_blank_false (cb :: b) Ab ltac:(discriminate)). now rewrite IH.
Qed.

Lemma clean_chars_line b0 l : all_ws b0 -> well_formed l -> clean_chars (assemble b0 l) true = cleaned l.
Proof. intros Hb WF. unfold assemble. rewrite (cc_blank_true b0 Hb). now apply clean_chars_body. Qed.

(* ---- trimming *)
Definition trail (l : list (str * str)) : str :=
  match last l ([], []) with (_, []) => [] | (_, _ :: _) => [32] end.

Lemma cleaned_join l : well_formed l -> cleaned l = join_space (map fst l) ++ trail l.
Proof.
  induction l as [|[w b] t IH]; intros WF; [reflexivity|]. destruct WF as (Hw & Nw & Ab & Hb & WFt).
  destruct t as [|[w' b'] t'].
  - cbn [cleaned map join_space fst]. unfold trail. cbn [last]. destruct b; [now rewrite app_nil_r|reflexivity].
  - specialize (IH WFt). destruct b as [|cb b]; [exfalso; apply (Hb ltac:(discriminate)); reflexivity|].
    cbn [cleaned] in *. cbn [map fst join_space]. cbn [map fst] in IH. rewrite IH. unfold trail. cbn [last].
    rewrite <- app_assoc. reflexivity.
Qed.

Lemma trim_start_nonblank c s : is_whitespace c = false -> trim_start (c :: s) = c :: s.
Proof. intros H. cbn [trim_start]. now rewrite H. Qed.

Lemma join_space_first ws w rest : ws = w :: rest -> exists tl, join_space ws = w ++ tl.
Proof. intros ->. destruct rest; cbn [join_space]; [exists []; now rewrite app_nil_r|eexists; reflexivity]. Qed.

Lemma join_space_last ws : ws <> [] -> exists pre, join_space ws = pre ++ last ws [].
Proof.
  induction ws as [|w t IH]; intros H; [contradiction|]. destruct t as [|w' t'].
  - exists []. reflexivity.
  - destruct (IH ltac:(discriminate)) as [pre E]. exists (w ++ 32 :: pre). cbn [join_space last] in *. rewrite E, <- app_assoc. reflexivity.
Qed.

Definition first_nonblank (s : str) : Prop := match s with [] => True | c :: _ => is_whitespace c = false end.

Lemma trim_start_id s : first_nonblank s -> trim_start s = s.
Proof. destruct s as [|c t]; [reflexivity|]. cbn [first_nonblank trim_start]. now intros ->. Qed.

Lemma trim_id s : first_nonblank s -> first_nonblank (rev s) -> trim s = s.
Proof. intros H1 H2. unfold trim. rewrite (trim_start_id s H1), (trim_start_id _ H2). apply rev_involutive. Qed.

Lemma trim_trailing_space s : first_nonblank s -> first_nonblank (rev s) -> s <> [] -> trim (s ++ [32]) = s.
Proof.
  intros H1 H2 Hne. unfold trim.
  assert (F : first_nonblank (s ++ [32])) by (destruct s; [contradiction|exact H1]).
  rewrite (trim_start_id _ F), rev_app_distr. cbn [rev app trim_start].
  change (is_whitespace 32) with true. cbn iota. rewrite (trim_start_id _ H2). apply rev_involutive.
Qed.

Lemma no_ws_first w : w <> [] -> no_ws w -> first_nonblank w /\ first_nonblank (rev w).
Proof.
  intros Hne N. split.
  - destruct w; [contradiction|]. inversion N; assumption.
  - assert (N' : no_ws (rev w)) by (apply Forall_rev; exact N).
    destruct (rev w) eqn:E; [exact I|]. inversion N'; assumption.
Qed.

Lemma first_nonblank_app a b : a <> [] -> first_nonblank a -> first_nonblank (a ++ b).
Proof. destruct a; [contradiction|]. auto. Qed.

Lemma joined_nonblank ws :
  Forall (fun w => w <> [] /\ no_ws w) ws -> first_nonblank (join_space ws) /\ first_nonblank (rev (join_space ws)).
Proof.
  intros HW. destruct ws as [|w rest]; [split; exact I|]. split.
  - destruct (join_space_first (w :: rest) w rest eq_refl) as [tl ->].
    inversion HW as [|x l [Hw Nw] HR]; subst. apply first_nonblank_app; [exact Hw|]. now apply no_ws_first.
  - destruct (join_space_last (w :: rest)) as [pre ->]; [discriminate|]. rewrite rev_app_distr.
    assert (HL : last (w :: rest) [] <> [] /\ no_ws (last (w :: rest) [])).
    { rewrite Forall_forall in HW. apply HW. destruct (@exists_last _ (w :: rest)) as (l' & a & E); [discriminate|].
      rewrite E, last_last. apply in_or_app. right. left. reflexivity. }
    destruct HL as [Hl Nl]. apply first_nonblank_app; [|now apply no_ws_first].
    intros E. apply Hl. apply (f_equal (@rev N)) in E. now rewrite rev_involutive in E.
Qed.

Lemma trim_joined ws tr :
  Forall (fun w => w <> [] /\ no_ws w) ws -> (tr = [] \/ (tr = [32] /\ ws <> [])) -> trim (join_space ws ++ tr) = join_space ws.
Proof.
  intros HW Htr. destruct (joined_nonblank ws HW) as [F1 F2]. destruct Htr as [->|[-> Hne]].
  - rewrite app_nil_r. now apply trim_id.
  - apply trim_trailing_space; auto. destruct ws as [|w rest]; [contradiction|].
    destruct (join_space_first (w :: rest) w rest eq_refl) as [tl ->]. inversion HW as [|x l [Hw Nw] HR]; subst.
    destruct w; [contradiction|discriminate].
Qed.

(* ---- splitting the cleaned line at spaces gives the words back *)
Lemma split_aux_word w : no_ws w -> forall r cur, split_on_aux 32 (w ++ r) cur = split_on_aux 32 r (rev w ++ cur).
Proof.
  induction 1 as [|c w Hc Hw IH]; intros r cur; cbn [app split_on_aux rev]; [reflexivity|].
  destruct (N.eqb_spec c 32) as [->|]; [discriminate Hc|]. rewrite IH, <- app_assoc. reflexivity.
Qed.

Lemma split_joined ws : ws <> [] -> Forall no_ws ws -> split_on 32 (join_space ws) = ws.
Proof.
  unfold split_on. induction ws as [|w t IH]; intros Hne HW; [contradiction|]. inversion HW as [|x l Nw HR]; subst.
  destruct t as [|w' t'].
  - cbn [join_space]. rewrite <- (app_nil_r w) at 1. rewrite (split_aux_word w Nw). cbn [split_on_aux]. now rewrite app_nil_r, rev_involutive.
  - cbn [join_space]. rewrite (split_aux_word w Nw). cbn [split_on_aux]. rewrite N.eqb_refl, app_nil_r, rev_involutive. f_equal.
    apply IH; [discriminate|exact HR].
Qed.

(* ---- the theorem *)
Theorem clean_input_words b0 l :
  all_ws b0 -> well_formed l ->
  split_on 32 (clean_input (assemble b0 l)) = match l with [] => [[]] | _ => map fst l end.
Proof.
  intros Hb WF. unfold clean_input. rewrite (clean_chars_line b0 l Hb WF), (cleaned_join l WF).
  assert (HW : Forall (fun w => w <> [] /\ no_ws w) (map fst l)).
  { clear Hb. induction l as [|[w b] t IH]; [constructor|]. destruct WF as (Hw & Nw & _ & _ & WFt). constructor; auto. }
  rewrite trim_joined; [| exact HW |].
  - destruct l as [|x t]; [reflexivity|]. apply split_joined; [discriminate|].
    eapply Forall_impl; [|exact HW]. intros w [_ N]. exact N.
  - unfold trail. destruct (last l ([], [])) as [w0 [|c0 b1]] eqn:E; [left; reflexivity|right]. split; [reflexivity|].
    destruct l; [discriminate E|discriminate].
Qed.

(* every line has such a reading *)
Lemma decompose s : exists b0 l, all_ws b0 /\ well_formed l /\ s = assemble b0 l.
Proof.
  induction s as [|c t (b0 & l & Hb & WF & E)].
  - exists [], []. repeat split; constructor.
  - destruct (is_whitespace c) eqn:W.
    + exists (c :: b0), l. split; [constructor; assumption|]. split; [exact WF|]. rewrite E. reflexivity.
    + destruct b0 as [|cb b0].
      * destruct l as [|[w b] l'].
        -- exists [], [([c], [])]. split; [constructor|]. split.
           ++ cbn [well_formed]. repeat split; try constructor; auto; try discriminate.
           ++ rewrite E. reflexivity.
        -- exists [], ((c :: w, b) :: l'). split; [constructor|]. destruct WF as (Hw & Nw & Ab & Hbb & WFt). split.
           ++ cbn [well_formed]. repeat split; auto; [discriminate|constructor; assumption].
           ++ rewrite E. reflexivity.
      * exists [], (([c], cb :: b0) :: l). split; [constructor|]. split.
        -- cbn [well_formed]. repeat split; auto; try discriminate. constructor; [exact W|constructor].
        -- rewrite E. unfold assemble. cbn [flat_map fst snd app]. reflexivity.
Qed.

Theorem line_is_its_words s :
  exists b0 l, all_ws b0 /\ well_formed l /\ s = assemble b0 l /\
               split_on 32 (clean_input s) = match l with [] => [[]] | _ => map fst l end.
Proof.
  destruct (decompose s) as (b0 & l & Hb & WF & E). exists b0, l. repeat split; auto. rewrite E. now apply clean_input_words.
Qed.
