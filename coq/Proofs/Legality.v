(* C01, second layer: the self-check test the generator applies to a clone is the rules' legality test
   "the mover's king is not attacked in the position after the move". *)
From Walleye Require Import Model.Successor Spec.Abs Proofs.Cells Proofs.Ray Proofs.HashProofs Proofs.AttackGeom Proofs.AbsSet
  Proofs.KeyInvariant Proofs.CheckProofs Proofs.MoveGenProofs Proofs.GenShape Proofs.SuccessorAbs Proofs.SuccessorWf
  Proofs.AttackExt.
Open Scope Z_scope.

Section L.
Variable zt : ztable.

(* the hypotheses under which an ordinary move was shown to be the rules' move *)
Definition ordinary_hyps (s : BoardState) (pc : piece) (sq mov : point) : Prop :=
  cells_ok (board s) /\ kings_ok s /\ rights_home s /\
  get (board s) sq = Full pc /\ is_inner sq = true /\ is_inner mov = true /\ sq <> mov /\
  (forall col, get (board s) mov <> Full (mkPiece col King)) /\
  (pkind pc = Pawn -> Z.abs (fst sq - fst mov) = 2 ->
     snd sq = snd mov /\ (pcolor pc = White -> fst sq = fst mov + 2) /\ (pcolor pc = Black -> fst mov = fst sq + 2)) /\
  (pkind pc = Pawn -> snd sq <> snd mov -> get (board s) mov <> Empty) /\
  (pkind pc = King -> Z.abs (snd sq - snd mov) <= 1).

Lemma ordinary_check_agrees s pc sq mov :
  ordinary_hyps s pc sq mov ->
  in_check (pos_pl (apply (abs s) (mkMove (sq_of_pt sq) (sq_of_pt mov) None))) (pcolor pc) =
  is_check (moved_pre zt s pc sq mov) (pcolor pc).
Proof.
  intros (OK & KO & RH & G & Hs & Hm & Hne & NK & PD & PC & KS).
  rewrite <- (ordinary_pre_abs zt s pc sq mov OK KO RH G Hs Hm Hne NK PD PC KS).
  cbn [abs pos_pl]. rewrite finalise_board. symmetry. apply is_check_correct.
  - now apply moved_pre_cells_ok.
  - now apply moved_pre_kings_ok.
Qed.

Lemma promotion_check_agrees s pc sq mov k :
  ordinary_hyps s pc sq mov -> pkind pc = Pawn -> Z.abs (fst sq - fst mov) <> 2 -> In k PROMOTION_KINDS ->
  in_check (pos_pl (apply (abs s) (mkMove (sq_of_pt sq) (sq_of_pt mov) (Some k)))) (pcolor pc) =
  is_check (moved_pre zt s pc sq mov) (pcolor pc).
Proof.
  intros (OK & KO & RH & G & Hs & Hm & Hne & NK & PD & PC & KS) PK D2 Hk.
  set (fin := finalise zt (moved_pre zt s pc sq mov) pc sq mov).
  assert (Hx : exists x, In x (promote_pawn zt fin (pcolor pc) sq mov) /\ pawn_promotion x = Some (mkPiece (pcolor pc) k) /\
                         board x = set (board fin) mov (Full (mkPiece (pcolor pc) k))).
  { eexists. split; [unfold promote_pawn; apply in_map; exact Hk|]. split; [reflexivity|].
    cbn [kx with_key with_oh with_promo with_last with_board board]. now rewrite unset_pdm_board. }
  destruct Hx as (x & Hin & HP & HB).
  destruct (promotion_pre_abs zt s pc sq mov x OK KO RH G Hs Hm Hne NK PK D2 (PC PK) Hin) as (k' & _ & HP' & HA).
  assert (k' = k) by congruence. subst k'. rewrite <- HA. cbn [abs pos_pl]. rewrite HB. unfold fin. rewrite finalise_board.
  pose proof (moved_pre_cells_ok zt s pc sq mov OK G Hs Hm) as OK'.
  pose proof (moved_pre_kings_ok zt s pc sq mov OK KO G Hs Hm Hne NK) as KO'.
  rewrite abs_placement_set by (auto; apply OK'). cbn [opt_of_square].
  rewrite (is_check_correct _ (pcolor pc) OK' KO').
  apply (in_check_own_piece_kind _ _ (pcolor pc) Pawn k).
  - apply abs_placement_length.
  - now apply inner_on8.
  - rewrite pget_abs_on by (now apply inner_on8). rewrite pt_sq, (moved_pre_cells zt s pc sq mov G).
    rewrite get_set_same; [|now apply is_inner_in_grid|rewrite set_length; apply OK]. cbn [opt_of_square]. f_equal.
    rewrite (piece_eta pc), PK. reflexivity.
  - discriminate.
  - intros ->. revert Hk. vm_compute. intuition discriminate.
Qed.

Lemma ep_check_agrees s pc sq dm mov :
  cells_ok (board s) -> kings_ok s -> ep_ok_model s ->
  get (board s) sq = Full pc -> is_inner sq = true -> pcolor pc = to_move s ->
  pawn_double_move s = Some dm -> pkind pc = Pawn -> pawn_moves_en_passant pc sq s = Some mov ->
  in_check (pos_pl (apply (abs s) (mkMove (sq_of_pt sq) (sq_of_pt mov) None))) (to_move s) =
  is_check (ep_pre zt s pc sq mov) (to_move s).
Proof.
  intros OK KO EP G Hs PC D PK E.
  destruct (ep_pre_abs zt s pc sq dm mov OK EP G Hs PC D PK E) as (-> & _ & _ & HA).
  rewrite <- HA. cbn [abs pos_pl].
  destruct (ep_pre_wf zt s pc sq dm OK KO EP G Hs PC PK D) as [OK' KO'].
  symmetry. now apply is_check_correct.
Qed.

(* castling: the destination square passed the probe before the move, so the king is safe after it *)
Lemma castle_after_safe s c r1 r2 kc rf rt (alg : mv2) :
  cells_ok (board s) -> kings_ok s ->
  let r0 := match c with White => 9 | Black => 2 end in
  king_location s c = (r0, 6) ->
  get (board s) (r0, 6) = Full (mkPiece c King) -> get (board s) (r0, rf) = Full (mkPiece c Rook) ->
  get (board s) (r0, kc) = Empty -> get (board s) (r0, rt) = Empty -> (kc = 4 -> get (board s) (r0, 3) = Empty) ->
  castle_side kc rf rt ->
  (match c with White => r1 = WKS /\ r2 = WQS | Black => r1 = BKS /\ r2 = BQS end) ->
  is_check_cords s c (r0, kc) = false ->
  in_check (pos_pl (apply (abs s) (mkMove (sq_of_pt (r0, 6)) (sq_of_pt (r0, kc)) None))) c = false.
Proof.
  intros OK KO r0 KL GK GR EK ER EB Side Rts Probe.
  assert (Ir : r0 = 9 \/ r0 = 2) by (unfold r0; destruct c; auto).
  pose proof (castle_successor_abs zt s c r1 r2 kc rf rt alg OK KL GK GR Side Rts) as HA. cbv zeta in HA. fold r0 in HA. rewrite <- HA. clear HA.
  set (x := castle_successor zt s c r1 r2 (r0, kc) alg (r0, rf) (r0, rt)).
  destruct (castle_successor_view zt s c r1 r2 kc rf rt alg OK KL GK GR Side) as (COK & V1 & V2 & V3 & V4 & V0 & K1 & K2).
  destruct (castle_successor_wf zt s c r1 r2 kc rf rt alg OK KO KL GK GR EK ER Side) as [_ KOx].
  fold r0 in V1, V2, V3, V4, V0, K1, K2, KOx. fold x in COK, V1, V2, V3, V4, V0, K1, K2, KOx.
  cbn [abs pos_pl]. unfold in_check. rewrite (king_sq_abs x c COK KOx), K1.
  assert (I2 : is_inner (r0, kc) = true) by (apply is_inner_spec; cbn [fst snd]; unfold castle_side in Side; lia).
  (* before the move the destination is not attacked *)
  destruct (KO (opposite c)) as [GKo UKo].
  assert (Before : attacked (abs_placement (board s)) (opposite c) (sq_of_pt (r0, kc)) = false).
  { rewrite <- Probe. symmetry. apply is_check_cords_correct; auto. intros E. rewrite E, EK in GKo. discriminate. }
  destruct (attacked (abs_placement (board x)) (opposite c) (sq_of_pt (r0, kc))) eqn:After; [|reflexivity].
  rewrite <- Before. symmetry.
  assert (Esq : sq_of_pt (r0, kc) = (kc - 2, 9 - r0)) by (unfold sq_of_pt, BOARD_START, BOARD_END; cbn [fst snd]; f_equal; lia).
  rewrite Esq in *.
  (* a square of the abstraction, read on the model board *)
  assert (PG : forall b0 q, on8 q = true -> pget (abs_placement b0) q = opt_of_square (get b0 (pt_of_sq q))) by (intros; now apply pget_abs_on).
  assert (Same : forall q, on8 q = true -> pt_of_sq q <> (r0, 6) -> pt_of_sq q <> (r0, kc) -> pt_of_sq q <> (r0, rf) -> pt_of_sq q <> (r0, rt) ->
                           pget (abs_placement (board s)) q = pget (abs_placement (board x)) q).
  { intros q On N1 N2 N3 N4. rewrite !PG by exact On. now rewrite V0. }
  assert (Pt : forall f, pt_of_sq (f, 9 - r0) = (r0, f + 2)) by (intros f; unfold pt_of_sq, BOARD_START, BOARD_END; cbn [fst snd]; f_equal; lia).
  apply (attacked_after_castle (abs_placement (board s)) (abs_placement (board x)) c (9 - r0) (kc - 2)); [| | |exact After].
  - (* enemy pieces stand where they stood *)
    intros q Hc. destruct (on8 q) eqn:On; [|now rewrite !pget_off].
    unfold has_color in Hc. rewrite PG in Hc by exact On.
    apply Same; [exact On| | | |]; intros E; rewrite E in Hc;
      [rewrite V1 in Hc|rewrite V2 in Hc|rewrite V3 in Hc|rewrite V4 in Hc]; cbn in Hc; try discriminate; destruct c; discriminate.
  - (* other ranks are untouched *)
    intros q Hr. destruct (on8 q) eqn:On; [|now rewrite !pget_off].
    apply Same; [exact On| | | |]; intros E; apply (f_equal fst) in E; unfold pt_of_sq, BOARD_END in E; cbn [fst snd] in E; lia.
  - (* along the home rank an own piece stands between any enemy piece and the king *)
    intros f Hc. assert (On : on8 (f, 9 - r0) = true).
    { destruct (on8 (f, 9 - r0)) eqn:On; [reflexivity|]. unfold has_color in Hc. now rewrite pget_off in Hc. }
    apply on8_spec in On. cbn [fst snd] in On.
    unfold has_color in Hc. rewrite PG, Pt in Hc by (apply on8_spec; cbn [fst snd]; lia).
    assert (Enemy : forall col0, get (board x) (r0, f + 2) <> Empty /\ get (board x) (r0, f + 2) <> Full (mkPiece c col0)).
    { intros k0. split; intros E; rewrite E in Hc; cbn in Hc; try discriminate. destruct c; discriminate. }
    assert (Occ : forall g, 0 <= g < 8 -> get (board x) (r0, g + 2) <> Empty -> occupied (abs_placement (board x)) (g, 9 - r0) = true).
    { intros g Hg Hne. unfold occupied. rewrite PG, Pt by (apply on8_spec; cbn [fst snd]; lia).
      destruct COK as (_ & _ & Ix). specialize (Ix (r0, g + 2) ltac:(apply is_inner_spec; cbn [fst snd]; lia)).
      destruct (get (board x) (r0, g + 2)) eqn:E; [exfalso; now apply Hne|reflexivity|exfalso; now apply Ix]. }
    unfold castle_side in Side. destruct Side as [(-> & -> & ->)|(-> & -> & ->)].
    + (* king side: the rook on f stands between *)
      exists 5. split; [|apply Occ; [lia|]; change (5 + 2) with 7; rewrite V4; discriminate].
      assert (f <> 4) by (intros ->; destruct (Enemy King) as [E _]; now apply E).
      assert (f <> 5) by (intros ->; destruct (Enemy Rook) as [_ E]; now apply E).
      assert (f <> 6) by (intros ->; destruct (Enemy King) as [_ E]; now apply E).
      assert (f <> 7) by (intros ->; destruct (Enemy King) as [E _]; now apply E).
      lia.
    + (* queen side: the rook on d stands between *)
      exists 3. split; [|apply Occ; [lia|]; change (3 + 2) with 5; rewrite V4; discriminate].
      assert (f <> 0) by (intros ->; destruct (Enemy King) as [E _]; now apply E).
      assert (f <> 1).
      { intros ->. destruct (Enemy King) as [E _]. apply E. change (1 + 2) with 3. rewrite V0; [now apply EB| | | |]; intros X; inversion X. }
      assert (f <> 2) by (intros ->; destruct (Enemy King) as [_ E]; now apply E).
      assert (f <> 3) by (intros ->; destruct (Enemy Rook) as [_ E]; now apply E).
      assert (f <> 4) by (intros ->; destruct (Enemy King) as [E _]; now apply E).
      lia.
Qed.

End L.
