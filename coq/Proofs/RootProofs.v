(* Every board the search hands back (every Send) is one of the root's generated moves,
   up to the ordering hint -- for every ordering oracle that returns elements of its input,
   every expiry index, every depth reached. *)
From Walleye Require Import Model.Search.
Open Scope Z_scope.

Definition same_move (a b : BoardState) : Prop := with_oh a 0 = with_oh b 0.

Lemma same_move_refl a : same_move a a. Proof. reflexivity. Qed.
Lemma same_move_with_oh a v : same_move (with_oh a v) a.
Proof. unfold same_move. destruct a; reflexivity. Qed.
Lemma same_move_trans a b c : same_move a b -> same_move b c -> same_move a c.
Proof. unfold same_move; congruence. Qed.
Lemma same_move_fields a b : same_move a b ->
  board a = board b /\ to_move a = to_move b /\ last_move a = last_move b /\ pawn_promotion a = pawn_promotion b
  /\ zobrist_key a = zobrist_key b /\ pawn_double_move a = pawn_double_move b.
Proof. unfold same_move. destruct a, b; cbn. intros H; inversion H; subst; repeat split; reflexivity. Qed.

Section S.
Variable zt : ztable.
Variable osort : N -> list BoardState -> list BoardState.
Variable k : option N.
Hypothesis osort_incl : forall i l x, In x (osort i l) -> In x l.

Variable root : BoardState.
Definition P (x : BoardState) : Prop := exists m, In m (generate_moves zt root AllMoves) /\ same_move x m.

Definition sends_ok (ev : list event) : Prop := forall b0, In (Send b0) ev -> P b0.

Lemma do_sort_incl l s : forall x, In x (fst (do_sort osort l s)) -> In x l.
Proof. intros x H. unfold do_sort in H. cbn [fst] in H. eapply osort_incl; eauto. Qed.

Lemma mark_pv_P best l : (forall x, In x l -> P x) -> forall x, In x (mark_pv best l) -> P x.
Proof.
  intros H. unfold mark_pv. destruct best as [b|]; [|exact H].
  induction l as [|m t IH]; intros x Hx; [contradiction|].
  cbn in Hx. destruct (is_pv_of b m).
  - destruct Hx as [Hx|Hx].
    + subst x. destruct (H m (or_introl eq_refl)) as [m' [Hin Hs]].
      exists m'. split; [exact Hin|]. eapply same_move_trans; [apply same_move_with_oh|exact Hs].
    + apply H. now right.
  - destruct Hx as [Hx|Hx]; [subst x; apply H; now left|].
    apply IH; [|exact Hx]. intros y Hy; apply H; now right.
Qed.

Lemma root_moves_sends fuel first : forall ms cur_depth alpha r o r2,
  P first -> (forall x, In x ms -> P x) -> sends_ok (r_events r) ->
  root_moves zt osort k fuel first ms cur_depth alpha r = Ok (o, r2) ->
  sends_ok (r_events r2) /\ match o with Some r' => sends_ok (r_events r') | None => True end.
Proof.
  induction ms as [|mov rest IH]; intros cur_depth alpha r o r2 Hf Hms Hr HR; cbn [root_moves] in HR.
  - inversion HR; subst. split; assumption.
  - destruct (out_of_time k (r_s r)) as [expired s] eqn:E.
    destruct expired.
    + inversion HR; subst. cbn [r_events]. split; [|exact I].
      destruct (r_best r); [exact Hr|].
      intros b0 [Hb|Hb]; [inversion Hb; subst; exact Hf | apply Hr; exact Hb].
    + destruct (alpha_beta zt osort k fuel mov (cur_depth - 1) 1 (- POS_INF) (- alpha) true s) as [[v s1]| |]; try discriminate.
      destruct (insert_into_cur_line s1 0 mov) as [s2| |]; try discriminate.
      assert (Hrest : forall x, In x rest -> P x) by (intros x Hx; apply Hms; now right).
      destruct (alpha <? - v).
      * destruct (out_of_time k s2) as [expired2 s3] eqn:E2.
        destruct expired2; cbn [negb] in HR.
        -- eapply (IH _ _ _ _ _ Hf Hrest); [|exact HR]. exact Hr.
        -- eapply (IH _ _ _ _ _ Hf Hrest); [|exact HR]. cbn [r_events].
           intros b0 [Hb|[Hb|Hb]]; [discriminate | inversion Hb; subst; apply Hms; now left | apply Hr; exact Hb].
      * eapply (IH _ _ _ _ _ Hf Hrest); [|exact HR]. exact Hr.
Qed.

Lemma root_depths_sends fuel : forall iters moves cur_depth r r2,
  (forall x, In x moves -> P x) -> sends_ok (r_events r) ->
  root_depths zt osort k iters fuel root moves cur_depth r = Ok r2 ->
  sends_ok (r_events r2).
Proof.
  induction iters as [|it IH]; intros moves cur_depth r r2 Hm Hr HR; cbn [root_depths] in HR.
  - inversion HR; subst; exact Hr.
  - destruct (MAX_DEPTH <=? cur_depth); [inversion HR; subst; exact Hr|].
    destruct (do_sort osort moves (reset_search (r_s r))) as [sorted s] eqn:DS.
    assert (Hs : forall x, In x sorted -> P x).
    { intros x Hx. apply Hm. apply (do_sort_incl moves (reset_search (r_s r))). rewrite DS. exact Hx. }
    assert (Hgen : forall x, In x (generate_moves zt root AllMoves) -> P x).
    { intros x Hx. exists x. split; [exact Hx|apply same_move_refl]. }
    destruct sorted as [|first rest].
    + eapply IH; [| |exact HR]; [exact Hgen|exact Hr].
    + destruct (root_moves zt osort k fuel first (first :: rest) cur_depth NEG_INF (mkR s (r_best r) (r_events r)))
        as [[o r3]| |] eqn:RM; try discriminate.
      assert (H3o : sends_ok (r_events r3) /\ match o with Some r' => sends_ok (r_events r') | None => True end).
      { eapply root_moves_sends; [exact (Hs first (or_introl eq_refl)) | exact Hs | | exact RM]. exact Hr. }
      destruct H3o as [H3 Ho].
      destruct o as [r'|].
      * eapply IH; [| |exact HR]; [|exact Ho]. apply mark_pv_P. exact Hgen.
      * inversion HR; subst. exact H3.
Qed.

(* the theorem: whatever get_best_move sends is a generated move of the root *)
Lemma get_best_move_sends fuel t ev s :
  get_best_move zt osort k fuel root t = Ok (ev, s) ->
  forall b0, In (Send b0) ev -> P b0.
Proof.
  unfold get_best_move. intros H b0 Hb.
  destruct (root_depths zt osort k (Z.to_nat MAX_DEPTH) fuel root (generate_moves zt root AllMoves) 1
                        (mkR (new_search t) None [])) as [r| |] eqn:RD; try discriminate.
  inversion H; subst. apply in_rev in Hb.
  eapply (root_depths_sends fuel); [| |exact RD|exact Hb].
  - intros x Hx. exists x. split; [exact Hx|apply same_move_refl].
  - intros b1 [].
Qed.

End S.
