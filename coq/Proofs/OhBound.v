(* every generated move carries an ordering value below POS_INF (the value reserved for the PV mark),
   provided the position it was generated from does: captures get an MVV_LVA entry, quiet moves 0, promotions their
   two constants; castling and en-passant successors inherit the parent's value (move_generation.rs never sets it there) *)
From Walleye Require Import Model.Search.
From Coq Require Import Lia.
Open Scope Z_scope.

Section S.
Variable zt : ztable.

Ltac oh_same := intros; repeat match goal with s : BoardState |- _ => destruct s end; reflexivity.

Lemma oh_swap_color s : order_heuristic (swap_color zt s) = order_heuristic s. Proof. oh_same. Qed.
Lemma oh_kx s v : order_heuristic (kx s v) = order_heuristic s. Proof. oh_same. Qed.
Lemma oh_take_away s r : order_heuristic (take_away_castling_rights zt s r) = order_heuristic s.
Proof. unfold take_away_castling_rights. destruct (right s r); [|reflexivity]. rewrite oh_kx. destruct s, r; reflexivity. Qed.
Lemma oh_unset_pdm s : order_heuristic (unset_pawn_double_move zt s) = order_heuristic s.
Proof. unfold unset_pawn_double_move. destruct (pawn_double_move s); [|reflexivity]. rewrite oh_kx. destruct s; reflexivity. Qed.
Lemma oh_move_piece s a b : order_heuristic (move_piece zt s a b) = order_heuristic s.
Proof. unfold move_piece. repeat match goal with |- context [match ?x with _ => _ end] => destruct x end; rewrite ?oh_kx; try reflexivity; destruct s; reflexivity. Qed.
Lemma oh_set_king s c p : order_heuristic (set_king s c p) = order_heuristic s. Proof. destruct c, s; reflexivity. Qed.
Lemma oh_with_last s m : order_heuristic (with_last s m) = order_heuristic s. Proof. oh_same. Qed.
Lemma oh_with_promo s m : order_heuristic (with_promo s m) = order_heuristic s. Proof. oh_same. Qed.
Lemma oh_with_board s m : order_heuristic (with_board s m) = order_heuristic s. Proof. oh_same. Qed.
Lemma oh_with_pdm s m : order_heuristic (with_pdm s m) = order_heuristic s. Proof. oh_same. Qed.
Lemma oh_with_oh s v : order_heuristic (with_oh s v) = v. Proof. oh_same. Qed.

Lemma mvv_lva_small a b : 0 <= mvv_lva a b < POS_INF.
Proof. destruct a as [ca ka], b as [cb kb]; destruct ka, kb; vm_compute; split; congruence. Qed.

Lemma oh_finalise nb pc sq mov : order_heuristic (finalise zt nb pc sq mov) = order_heuristic nb.
Proof.
  unfold finalise, rights_from_origin, rights_from_target.
  repeat match goal with |- context [if ?c then _ else _] => destruct c | |- context [match ?x with _ => _ end] => destruct x end;
    rewrite ?oh_kx, ?oh_with_pdm, ?oh_unset_pdm, ?oh_take_away; reflexivity.
Qed.

Lemma oh_moved_board s pc sq mov nb : moved_board zt s pc sq mov = Some nb -> 0 <= order_heuristic nb < POS_INF.
Proof.
  unfold moved_board. cbv zeta. destruct (is_check _ _); [discriminate|]. intros H. injection H as <-.
  rewrite oh_with_last, oh_move_piece, oh_with_oh. destruct (get _ mov); try (unfold POS_INF; lia). apply mvv_lva_small.
Qed.

Lemma oh_promote nb c sq mov x : In x (promote_pawn zt nb c sq mov) -> order_heuristic x < POS_INF.
Proof.
  unfold promote_pawn. intros H. apply in_map_iff in H. destruct H as (k & <- & _). rewrite oh_kx, oh_with_oh.
  destruct k; vm_compute; reflexivity.
Qed.

Lemma oh_successors s pc sq mov x : In x (successors_of_move zt s pc sq mov) -> order_heuristic x < POS_INF.
Proof.
  unfold successors_of_move. destruct (moved_board zt s pc sq mov) as [nb|] eqn:MB; [|contradiction].
  pose proof (oh_moved_board _ _ _ _ _ MB) as B.
  destruct (_ && _ && _); [apply oh_promote|]. destruct (_ && _ && _); [apply oh_promote|].
  intros [<-|[]]. rewrite oh_finalise. lia.
Qed.

Lemma oh_en_passant s pc sq x : order_heuristic s < POS_INF -> In x (en_passant_successor zt s pc sq) -> order_heuristic x < POS_INF.
Proof.
  intros B. unfold en_passant_successor. destruct (pawn_double_move s); [|contradiction]. destruct (pkind pc); try contradiction.
  destruct (pawn_moves_en_passant pc sq s) as [mov|]; [|contradiction]. cbv zeta. destruct (negb _); [|contradiction].
  intros [<-|[]]. rewrite oh_kx, oh_with_board, oh_move_piece, oh_unset_pdm, oh_swap_color, oh_with_last, oh_with_promo. exact B.
Qed.

Lemma oh_castle s c r1 r2 kt alg rf rt : order_heuristic (castle_successor zt s c r1 r2 kt alg rf rt) = order_heuristic s.
Proof.
  unfold castle_successor. cbv zeta.
  rewrite !oh_move_piece, oh_with_last, oh_set_king, !oh_take_away, oh_unset_pdm, oh_swap_color, oh_with_promo. reflexivity.
Qed.

Theorem generated_oh_below_mark s m x :
  order_heuristic s < POS_INF -> In x (generate_moves zt s m) -> order_heuristic x < POS_INF.
Proof.
  intros B H. unfold generate_moves in H. apply in_app_or in H. destruct H as [H|H].
  - apply in_flat_map in H. destruct H as (p & _ & H). destruct (get (board s) p) as [|pc|]; try contradiction.
    destruct (color_eqb _ _); [|contradiction]. unfold generate_moves_for_piece in H. apply in_app_or in H. destruct H as [H|H].
    + apply in_flat_map in H. destruct H as (mov & _ & H). eapply oh_successors; exact H.
    + eapply oh_en_passant; eauto.
  - destruct (mode_all m); [|contradiction]. unfold generate_castling_moves in H.
    repeat (apply in_app_or in H; destruct H as [H|H]);
      (destruct (_ && _); [|contradiction]; destruct H as [<-|[]]; rewrite oh_castle; exact B).
Qed.

End S.
