(* C03/C08 on the model: a search over a position with at least one move always hands a move back - for every
   expiry index, ordering oracle (non-empty lists stay non-empty) and record: either an evaluation is accepted (and
   its move sent), or the clock has expired and the next consultation sends the first move of the ordering. *)
From Walleye Require Import Model.Search Model.Uci Proofs.ClockSim Proofs.RootSim Proofs.ValueRange Proofs.RootProofs Proofs.SessionProofs.
From Coq Require Import Lia.
Open Scope Z_scope.

Local Notation M := MATE_SCORE.

Definition has_send (evs : list event) : Prop := exists b, In (Send b) evs.

Lemma has_send_app more evs : has_send evs -> has_send (more ++ evs).
Proof. intros [b H]. exists b. apply in_or_app. now right. Qed.

Section S.
Variable zt : ztable.
Variable osort : N -> list BoardState -> list BoardState.
Hypothesis osort_nonempty : forall i l, l <> [] -> osort i l <> [].
Variable k : option N.
Variable fuel : nat.
Hypothesis Hfuel : NULL_PLY_OFFSET * Z.of_nat fuel + 1 <= 2 * M.

(* the next consultation of the clock reports expiry *)
Definition expd (s : sstate) : Prop := fst (out_of_time k s) = true.

Lemma expd_mono s s' : expd s -> (clock s <= clock s')%N -> expd s'.
Proof.
  unfold expd, out_of_time. cbn [fst]. destruct k as [kk|]; [|discriminate]. intros H L. apply N.leb_le in H. apply N.leb_le. lia.
Qed.

(* a best move is recorded only together with its send *)
Definition J (r : root_state) : Prop := r_best r <> None -> has_send (r_events r).

Lemma root_moves_expired first : forall ms d alpha r o r2,
  expd (r_s r) -> J r -> ms <> [] -> root_moves zt osort k fuel first ms d alpha r = Ok (o, r2) -> has_send (r_events r2).
Proof.
  intros ms d alpha r o r2 Ex Jr NE H. destruct ms as [|mov rest]; [contradiction|]. cbn [root_moves] in H.
  destruct (out_of_time k (r_s r)) as [e s] eqn:OT. unfold expd in Ex. rewrite OT in Ex. cbn [fst] in Ex. subst e.
  assert (r2 = mkR s (r_best r) (match r_best r with None => Send first :: r_events r | Some _ => r_events r end)) by congruence. subst r2.
  cbn [r_events]. destruct (r_best r) eqn:B; [apply Jr; rewrite B; discriminate|]. exists first. now left.
Qed.

Lemma root_moves_progress first : forall ms d alpha r o r2,
  J r -> (alpha = NEG_INF \/ has_send (r_events r)) -> ms <> [] ->
  root_moves zt osort k fuel first ms d alpha r = Ok (o, r2) ->
  has_send (r_events r2) \/ (expd (r_s r2) /\ J r2 /\ o = Some r2).
Proof.
  intros ms d alpha r o r2 Jr Ha NE H. destruct ms as [|mov rest]; [contradiction|]. cbn [root_moves] in H.
  destruct (out_of_time k (r_s r)) as [e s] eqn:OT. destruct e.
  { left. assert (r2 = mkR s (r_best r) (match r_best r with None => Send first :: r_events r | Some _ => r_events r end)) by congruence. subst r2.
    cbn [r_events]. destruct (r_best r) eqn:B; [apply Jr; rewrite B; discriminate|]. exists first. now left. }
  destruct (alpha_beta zt osort k fuel mov (d - 1) 1 (- POS_INF) (- alpha) true s) as [[v s1]| |] eqn:AB; try discriminate H.
  destruct (insert_into_cur_line s1 0 mov) as [s2| |] eqn:I2; try discriminate H.
  pose proof (insert_cur_clock _ _ _ _ I2) as C2.
  (* what happens to the rest of the list once the clock has expired *)
  assert (Rest : forall s3 a3, expd s3 -> root_moves zt osort k fuel first rest d a3 (mkR s3 (r_best r) (r_events r)) = Ok (o, r2) ->
                 has_send (r_events r2) \/ (expd (r_s r2) /\ J r2 /\ o = Some r2)).
  { intros s3 a3 E3 H3. destruct rest as [|m2 rest2].
    - cbn [root_moves] in H3. assert (Eo : o = Some (mkR s3 (r_best r) (r_events r))) by congruence. assert (E2 : r2 = mkR s3 (r_best r) (r_events r)) by congruence. subst o r2.
      right. split; [exact E3|]. split; [exact Jr|reflexivity].
    - left. refine (root_moves_expired first (m2 :: rest2) d a3 (mkR s3 (r_best r) (r_events r)) o r2 E3 Jr _ H3). discriminate. }
  destruct (alpha <? - v) eqn:Lt.
  - destruct (out_of_time k s2) as [e2 s3] eqn:OT2. destruct e2; cbn [negb] in H.
    + apply (Rest s3 alpha); [|exact H]. apply (expd_mono s2); [unfold expd; rewrite OT2; reflexivity|].
      change s3 with (snd (true, s3)). rewrite <- OT2. cbn [out_of_time snd clock with_clock]. lia.
    + left. destruct (root_moves_grow zt osort _ _ _ _ _ _ _ _ _ H) as [[more G] _]. rewrite G. apply has_send_app. cbn [r_events]. exists mov. right. now left.
  - destruct Ha as [->|Hs].
    + (* nothing accepted although the bound was the sentinel: the value is tainted, so the clock has expired *)
      apply (Rest s2 NEG_INF); [|exact H]. unfold expd. destruct (fst (out_of_time k s2)) eqn:F; [reflexivity|exfalso].
      pose proof (accepted_value_is_untainted zt osort k fuel mov (d - 1) 1 (- POS_INF) (- NEG_INF) true s v s1 s2 AB C2 F) as U.
      assert (R : - M <= v <= M).
      { eapply (alpha_beta_range zt osort fuel); [| | |exact U]; unfold NULL_PLY_OFFSET, NEG_INF, POS_INF, MATE_SCORE in *; lia. }
      apply Z.ltb_ge in Lt. unfold NEG_INF, POS_INF, MATE_SCORE in *. lia.
    + left. destruct (root_moves_grow zt osort _ _ _ _ _ _ _ _ _ H) as [[more G] _]. rewrite G. now apply has_send_app.
Qed.

Lemma mark_pv_nonempty best l : l <> [] -> mark_pv best l <> [].
Proof. unfold mark_pv. destruct best as [b|]; [|auto]. destruct l as [|m t]; [contradiction|]. intros _. destruct (is_pv_of b m); discriminate. Qed.

Lemma do_sort_nonempty l s : l <> [] -> fst (do_sort osort l s) <> [].
Proof. intros H. unfold do_sort. cbn [fst]. now apply osort_nonempty. Qed.

Lemma root_depths_keeps b : forall iters moves d r r',
  has_send (r_events r) -> root_depths zt osort k iters fuel b moves d r = Ok r' -> has_send (r_events r').
Proof. intros iters moves d r r' Hs H. destruct (root_depths_grow zt osort _ _ _ _ _ _ _ _ H) as [more G]. rewrite G. now apply has_send_app. Qed.

Lemma root_depths_expired b : forall iters moves d r r',
  expd (r_s r) -> J r -> moves <> [] -> (1 <= iters)%nat -> d < MAX_DEPTH ->
  root_depths zt osort k iters fuel b moves d r = Ok r' -> has_send (r_events r').
Proof.
  intros iters moves d r r' Ex Jr NE Hi Hd H. destruct iters as [|it]; [lia|]. cbn [root_depths] in H.
  destruct (Z.leb_spec MAX_DEPTH d); [lia|].
  pose proof (do_sort_nonempty moves (reset_search (r_s r)) NE) as NS.
  destruct (do_sort osort moves (reset_search (r_s r))) as [sorted s] eqn:DS. cbn [fst] in NS.
  assert (Es : expd s).
  { apply (expd_mono (r_s r)); [exact Ex|]. change s with (snd (sorted, s)). rewrite <- DS. cbn. lia. }
  destruct sorted as [|first rest]; [contradiction|].
  destruct (root_moves zt osort k fuel first (first :: rest) d NEG_INF (mkR s (r_best r) (r_events r))) as [[o r3]| |] eqn:RM; try discriminate H.
  assert (H3 : has_send (r_events r3)) by (refine (root_moves_expired first (first :: rest) d NEG_INF (mkR s (r_best r) (r_events r)) o r3 Es Jr _ RM); discriminate).
  destruct (root_moves_grow zt osort _ _ _ _ _ _ _ _ _ RM) as [_ Ho].
  destruct o as [r''|].
  - rewrite (Ho r'' eq_refl) in H. eapply root_depths_keeps; [exact H3|exact H].
  - assert (r' = r3) by congruence. subst r'. exact H3.
Qed.

Lemma root_depths_sends_something b : forall iters moves d r r',
  J r -> moves <> [] -> generate_moves zt b AllMoves <> [] -> (2 <= iters)%nat -> d + 1 < MAX_DEPTH ->
  root_depths zt osort k iters fuel b moves d r = Ok r' -> has_send (r_events r').
Proof.
  intros iters moves d r r' Jr NE NG Hi Hd H. destruct iters as [|it]; [lia|]. cbn [root_depths] in H.
  destruct (Z.leb_spec MAX_DEPTH d); [lia|].
  pose proof (do_sort_nonempty moves (reset_search (r_s r)) NE) as NS.
  destruct (do_sort osort moves (reset_search (r_s r))) as [sorted s] eqn:DS. cbn [fst] in NS.
  destruct sorted as [|first rest]; [contradiction|].
  destruct (root_moves zt osort k fuel first (first :: rest) d NEG_INF (mkR s (r_best r) (r_events r))) as [[o r3]| |] eqn:RM; try discriminate H.
  destruct (root_moves_grow zt osort _ _ _ _ _ _ _ _ _ RM) as [_ Ho].
  assert (NEs : first :: rest <> []) by discriminate.
  destruct (root_moves_progress first (first :: rest) d NEG_INF (mkR s (r_best r) (r_events r)) o r3 Jr (or_introl eq_refl) NEs RM) as [H3|(E3 & J3 & Eo)].
  - destruct o as [r''|].
    + rewrite (Ho r'' eq_refl) in H. eapply root_depths_keeps; [exact H3|exact H].
    + assert (r' = r3) by congruence. subst r'. exact H3.
  - subst o. eapply (root_depths_expired b it); [exact E3|exact J3| | | |exact H]; [now apply mark_pv_nonempty|lia|lia].
Qed.

(* whatever the expiry index: a search that returns has sent at least one move *)
Theorem search_sends_a_move b t ev s :
  generate_moves zt b AllMoves <> [] -> get_best_move zt osort k fuel b t = Ok (ev, s) -> has_send ev.
Proof.
  intros NG H. unfold get_best_move in H.
  destruct (root_depths zt osort k (Z.to_nat MAX_DEPTH) fuel b (generate_moves zt b AllMoves) 1 (mkR (new_search t) None [])) as [r| |] eqn:RD; try discriminate H.
  assert (ev = rev (r_events r)) by congruence. subst ev.
  assert (J0 : J (mkR (new_search t) None [])) by (intros X; now contradiction X).
  assert (I2 : (2 <= Z.to_nat MAX_DEPTH)%nat) by (vm_compute; lia).
  assert (D2 : 1 + 1 < MAX_DEPTH) by reflexivity.
  destruct (root_depths_sends_something b (Z.to_nat MAX_DEPTH) (generate_moves zt b AllMoves) 1 (mkR (new_search t) None []) r J0 NG NG I2 D2 RD) as [b0 Hb].
  exists b0. now apply -> in_rev.
Qed.

End S.

(* ---- the session: a go in a position with a move always prints exactly its info lines and then one bestmove *)
Section G.
Variable zt : ztable.
Variable osort : N -> list BoardState -> list BoardState.
Hypothesis osort_nonempty : forall i l, l <> [] -> osort i l <> [].

Lemma send_in_sends_of b ev : In (Send b) ev -> In b (sends_of ev).
Proof. intros H. unfold sends_of. apply in_flat_map. exists (Send b). split; [exact H|now left]. Qed.

Theorem go_is_answered st cmds sc gt st' outs :
  NULL_PLY_OFFSET * Z.of_nat (sc_fuel sc) + 1 <= 2 * M ->
  parse_go_command cmds = Ok gt -> generate_moves zt (ss_board st) AllMoves <> [] ->
  go_step zt osort st cmds sc = (st', outs) -> ss_phase st' = Running ->
  exists ev s b t,
    get_best_move zt osort (sc_k sc) (sc_fuel sc) (ss_board st) (ss_table st) = Ok (ev, s) /\
    In b (sends_of ev) /\ best_move_text b = Ok t /\ ss_board st' = b /\ outs = infos_of ev ++ [s_bestmove ++ t].
Proof.
  intros HF PG NE GS RU.
  destruct (go_answer_is_a_send zt osort st cmds sc gt st' outs PG NE GS RU) as [H|(_ & ev & s & GB & SE & _)]; [exact H|].
  exfalso. destruct (search_sends_a_move zt osort osort_nonempty (sc_k sc) (sc_fuel sc) HF (ss_board st) (ss_table st) ev s NE GB) as [b Hb].
  apply send_in_sends_of in Hb. rewrite SE in Hb. contradiction.
Qed.

(* the move played is the newest one the search handed over (after the search thread is joined the channel is drained) *)
Theorem go_plays_the_newest_send st cmds sc gt st' outs :
  NULL_PLY_OFFSET * Z.of_nat (sc_fuel sc) + 1 <= 2 * M ->
  parse_go_command cmds = Ok gt -> generate_moves zt (ss_board st) AllMoves <> [] ->
  go_step zt osort st cmds sc = (st', outs) -> ss_phase st' = Running ->
  exists ev s b t more,
    get_best_move zt osort (sc_k sc) (sc_fuel sc) (ss_board st) (ss_table st) = Ok (ev, s) /\
    sends_of ev = more ++ [b] /\ best_move_text b = Ok t /\ ss_board st' = b /\ outs = infos_of ev ++ [s_bestmove ++ t].
Proof.
  intros HF PG NE GS RU. unfold go_step in GS. rewrite PG in GS.
  destruct (generate_moves zt (ss_board st) AllMoves) as [|m0 ms] eqn:G; [contradiction|].
  destruct (get_best_move zt osort (sc_k sc) (sc_fuel sc) (ss_board st) (ss_table st)) as [[ev s]|ee|pp] eqn:GB.
  - assert (NG : generate_moves zt (ss_board st) AllMoves <> []) by (rewrite G; discriminate).
    destruct (search_sends_a_move zt osort osort_nonempty (sc_k sc) (sc_fuel sc) HF (ss_board st) (ss_table st) ev s NG GB) as [b0 Hb0].
    apply send_in_sends_of in Hb0.
    destruct (exists_last (l := sends_of ev)) as (more & b & E); [intros X; rewrite X in Hb0; contradiction|].
    rewrite E in GS. rewrite app_length in GS. cbn [length] in GS.
    replace (length more + 1 - 1)%nat with (length more) in GS by lia.
    rewrite nth_error_app2 in GS by lia. rewrite Nat.sub_diag in GS. cbn [nth_error] in GS.
    destruct (best_move_text b) as [t| |] eqn:BT.
    + exists ev, s, b, t, more. assert (st' = mkSess b (ss_table st) Running) by congruence. assert (outs = infos_of ev ++ [s_bestmove ++ t]) by congruence. subst. repeat split; auto.
    + assert (st' = mkSess b (ss_table st) (Crashed 50)) by congruence. subst. discriminate RU.
    + assert (st' = mkSess b (ss_table st) (Crashed 50)) by congruence. subst. discriminate RU.
  - assert (st' = mkSess (ss_board st) (ss_table st) (Crashed ee)) by congruence. subst. discriminate RU.
  - assert (st' = mkSess (ss_board st) (ss_table st) (Crashed pp)) by congruence. subst. discriminate RU.
Qed.

End G.
