(* Every value an unlimited (never expiring) search returns lies within the mate magnitude, for every
   window that is not already outside it.  With C07_no_taint this bounds every evaluation the root accepts
   and hence every score printed on an info line: never the infinity sentinel, never beyond MATE_SCORE. *)
From Walleye Require Import Model.Search Proofs.EvalProofs.
Open Scope Z_scope.

Local Notation M := MATE_SCORE.

Lemma eval_in_range b : - M <= get_evaluation b <= M.
Proof.
  pose proof (eval_bounded (board b) (to_move b)) as H. unfold get_evaluation.
  destruct eval_bound_below_mate as [H1 _]. unfold MATE_SCORE in *. lia.
Qed.

Section S.
Variable zt : ztable.
Variable osort : N -> list BoardState -> list BoardState.

Definition q_range (qrec : q_fn) : Prop :=
  forall b a be s v s', a <= M -> - M <= be -> qrec b a be s = Ok (v, s') -> - M <= v <= M.

Lemma q_loop_range qrec : q_range qrec -> forall ms a be s v s',
  - M <= a <= M -> - M <= be -> q_loop qrec ms a be s = Ok (v, s') -> - M <= v <= M.
Proof.
  intros Hq. induction ms as [|m rest IH]; intros a be s v s' Ha Hb H; cbn [q_loop] in H.
  - inversion H; subst. exact Ha.
  - destruct (qrec m (- be) (- a) s) as [[v1 s1]| |] eqn:E; try discriminate.
    assert (R1 : - M <= v1 <= M) by (eapply Hq; [| |exact E]; lia).
    destruct (be <=? - v1) eqn:C.
    + inversion H; subst. apply Z.leb_le in C. lia.
    + eapply IH; [| |exact H]; [|exact Hb]. destruct (a <? - v1); lia.
Qed.

Lemma quiesce_range fuel : q_range (quiesce zt osort None fuel).
Proof.
  induction fuel as [|f IH]; intros b a be s v s' Ha Hb H; cbn [quiesce] in H; [discriminate|].
  unfold out_of_time in H. cbn match in H.
  pose proof (eval_in_range b) as E.
  destruct (be <=? get_evaluation b) eqn:C.
  - inversion H; subst. apply Z.leb_le in C. lia.
  - destruct (do_sort osort (generate_moves zt b CapturesOnly) (node_searched (with_clock s (clock s + 1)%N))) as [moves s1].
    eapply (q_loop_range _ IH); [| |exact H]; [|exact Hb]. destruct (a <? get_evaluation b) eqn:L; [lia|].
    apply Z.ltb_ge in L. lia.
Qed.

(* [L] bounds the ply: mate scores -(M - ply) stay within [-M, M] as long as 0 <= ply <= 2M *)
Definition ab_range (L : Z) (rec : search_fn) : Prop :=
  forall b d ply a be n s v s', 0 <= ply <= L -> a <= M -> - M <= be ->
    rec b d ply a be n s = Ok (v, s') -> - M <= v <= M.

Section Node.
Variable L : Z.
Hypothesis HL : L + NULL_PLY_OFFSET <= 2 * M.
Variable rec : search_fn.
Variable qrec : q_fn.
Hypothesis Hrec : ab_range (L + NULL_PLY_OFFSET) rec.
Hypothesis Hq : q_range qrec.
Variable b : BoardState.

Lemma leave_value v s v' s' : leave b v s = Ok (v', s') -> v' = v.
Proof. unfold leave. intros H; inversion H; reflexivity. Qed.

(* loop invariant: alpha and best within range, beta not below it *)
Lemma ab_loop_range depth ply beta : 0 <= ply <= L -> forall ms alpha best s v s',
  - M <= alpha <= M -> - M <= beta -> - M <= best <= M ->
  ab_loop rec b depth ply beta ms alpha best s = Ok (v, s') -> - M <= v <= M.
Proof.
  intros Hp. induction ms as [|m rest IH]; intros alpha best s v s' Ha Hb Hbest H; cbn [ab_loop] in H.
  - rewrite (leave_value _ _ _ _ H). exact Hbest.
  - destruct (insert_into_cur_line s ply m) as [s1| |]; try discriminate.
    destruct (rec m (depth - 1) (ply + 1) (- alpha - 1) (- alpha) true s1) as [[v1 s2]| |] eqn:E2; try discriminate.
    assert (R1 : - M <= v1 <= M) by (eapply Hrec; [| | |exact E2]; unfold NULL_PLY_OFFSET; lia).
    destruct ((alpha <? - v1) && (- v1 <? beta)).
    + destruct (rec m (depth - 1) (ply + 1) (- beta) (- alpha) true s2) as [[v2 s3]| |] eqn:E3; try discriminate.
      assert (R2 : - M <= v2 <= M) by (eapply Hrec; [| | |exact E3]; unfold NULL_PLY_OFFSET; lia).
      assert (A2 : - M <= (if alpha <? - v2 then - v2 else alpha) <= M) by (destruct (alpha <? - v2); lia).
      destruct (best <? - v2).
      * destruct (beta <=? - v2).
        -- destruct (order_heuristic m =? 0).
           ++ destruct (insert_killer_move s3 ply m) as [s4| |]; try discriminate.
              rewrite (leave_value _ _ _ _ H). lia.
           ++ rewrite (leave_value _ _ _ _ H). lia.
        -- eapply IH; [exact A2|exact Hb| |exact H]. lia.
      * eapply IH; [exact A2|exact Hb|exact Hbest|exact H].
    + destruct (best <? - v1).
      * destruct (beta <=? - v1).
        -- destruct (order_heuristic m =? 0).
           ++ destruct (insert_killer_move s2 ply m) as [s4| |]; try discriminate.
              rewrite (leave_value _ _ _ _ H). lia.
           ++ rewrite (leave_value _ _ _ _ H). lia.
        -- eapply IH; [exact Ha|exact Hb| |exact H]. lia.
      * eapply IH; [exact Ha|exact Hb|exact Hbest|exact H].
Qed.

Lemma ab_moves_range depth ply alpha beta s v s' :
  0 <= ply <= L -> - M <= alpha <= M -> - M <= beta ->
  ab_moves zt osort rec b depth ply alpha beta s = Ok (v, s') -> - M <= v <= M.
Proof.
  intros Hp Ha Hb H. unfold ab_moves in H.
  destruct (generate_moves zt b AllMoves) as [|g0 gs].
  { unfold NULL_PLY_OFFSET in HL. destruct (is_check b (to_move b)); rewrite (leave_value _ _ _ _ H); lia. }
  destruct (rank_moves s ply (g0 :: gs)) as [ranked| |]; try discriminate.
  destruct (do_sort osort ranked s) as [sorted s1].
  destruct sorted as [|m0 rest]; [discriminate|].
  destruct (insert_into_cur_line s1 ply m0) as [s2| |]; try discriminate.
  set (s3 := if negb (order_heuristic m0 =? POS_INF) then set_principle_variation s2 else s2) in *.
  destruct (rec m0 (depth - 1) (ply + 1) (- beta) (- alpha) true s3) as [[v0 s4]| |] eqn:E4; try discriminate.
  assert (R0 : - M <= v0 <= M) by (eapply Hrec; [| | |exact E4]; unfold NULL_PLY_OFFSET; lia).
  destruct ((alpha <? - v0) && (beta <=? - v0)); [rewrite (leave_value _ _ _ _ H); lia|].
  destruct (alpha <? - v0); (eapply ab_loop_range; [exact Hp| | | |exact H]); lia.
Qed.

Lemma ab_body_range depth ply alpha beta allow_null s v s' :
  0 <= ply <= L -> alpha <= M -> - M <= beta ->
  ab_body zt osort rec qrec b depth ply alpha beta allow_null s = Ok (v, s') -> - M <= v <= M.
Proof.
  intros Hp Ha Hb H. unfold ab_body in H.
  destruct ((depth =? 0) && negb (is_check b (to_move b))).
  { eapply Hq; [| |exact H]; assumption. }
  set (depth' := if depth =? 0 then depth + 1 else depth) in *.
  set (alpha' := Z.max alpha (- MATE_SCORE + ply)) in *.
  set (beta' := Z.min beta (MATE_SCORE - ply)) in *.
  assert (HL' : ply <= 2 * M) by (unfold NULL_PLY_OFFSET in HL; lia).
  assert (Ha' : - M <= alpha' <= M) by (unfold alpha'; lia).
  assert (Hb' : - M <= beta') by (unfold beta'; lia).
  destruct (beta' <=? alpha'); [rewrite (leave_value _ _ _ _ H); exact Ha'|].
  destruct (allow_null && (NULL_MIN_DEPTH <=? depth') && negb (is_check b (to_move b))).
  - destruct (rec (with_to_move b (opposite (to_move b))) (depth' - NULL_REDUCTION) (ply + NULL_PLY_OFFSET)
                  (- beta') (- beta' + 1) false s) as [[vn sn]| |] eqn:EN; try discriminate.
    assert (Rn : - M <= vn <= M).
    { assert (B1 : beta' <= M) by (unfold beta'; lia).
      eapply Hrec; [| | |exact EN]; unfold NULL_PLY_OFFSET in *; lia. }
    destruct (beta' <=? - vn) eqn:C.
    + rewrite (leave_value _ _ _ _ H). apply Z.leb_le in C. lia.
    + eapply ab_moves_range; [exact Hp|exact Ha'|exact Hb'|exact H].
  - eapply ab_moves_range; [exact Hp|exact Ha'|exact Hb'|exact H].
Qed.

End Node.

(* the unlimited search never returns a value beyond the mate magnitude *)
Theorem alpha_beta_range fuel :
  ab_range (2 * M - NULL_PLY_OFFSET * Z.of_nat fuel) (alpha_beta zt osort None fuel).
Proof.
  induction fuel as [|f IH]; intros b d ply a be n s v s' Hp Ha Hb H; cbn [alpha_beta] in H; [discriminate|].
  unfold out_of_time in H. cbn match in H.
  set (s2 := with_maxply (node_searched (with_clock s (clock s + 1)%N))
                         (Z.max (max_ply (node_searched (with_clock s (clock s + 1)%N))) ply)) in *.
  destruct (is_threefold_repetition (table s2) b).
  - inversion H; subst. unfold MATE_SCORE. lia.
  - eapply (ab_body_range (2 * M - NULL_PLY_OFFSET * Z.of_nat (S f)) ltac:(unfold NULL_PLY_OFFSET; lia)
                          (alpha_beta zt osort None f) (quiesce zt osort None f));
      [|apply quiesce_range| | | |exact H]; try assumption.
    replace (2 * M - NULL_PLY_OFFSET * Z.of_nat (S f) + NULL_PLY_OFFSET) with (2 * M - NULL_PLY_OFFSET * Z.of_nat f)
      by (unfold NULL_PLY_OFFSET; lia). exact IH.
Qed.

End S.
