(* Fail-soft alpha-beta (the executable oracle of C12) computes the plain negamax value. *)
From Walleye Require Import Spec.Minimax.
From Walleye Require Import Proofs.SortProofs.
From Coq Require Import Lia Permutation.
Open Scope Z_scope.

(* ---- what max_children computes *)
Definition is_max (v : Z) (l : list Z) : Prop := (forall x, In x l -> x <= v) /\ In v l.

Lemma max_children_spec : forall rec ms init v,
  max_children rec ms init = Some v ->
  exists i ws, init = Some i /\ Forall2 (fun m w => rec m = Some w) ms ws /\ is_max v (i :: map Z.opp ws).
Proof.
  intros rec ms. induction ms as [|m ms IH]; intros init v H; cbn [max_children fold_left] in H.
  - exists v, []. split; [exact H|]. split; [constructor|]. split; [|left; reflexivity].
    intros x [<-|[]]. lia.
  - fold (max_children rec ms) in H. apply IH in H. destruct H as (i & ws & Hi & Hf & Hm).
    destruct init as [a|]; [|discriminate]. destruct (rec m) as [w|] eqn:Hw; [|discriminate].
    exists a, (w :: ws). split; [reflexivity|]. split; [constructor; assumption|].
    injection Hi as <-. destruct Hm as [Hle Hin]. split.
    + intros x Hx. cbn [map] in Hx. destruct Hx as [<-|[<-|Hx]].
      * assert (Z.max a (- w) <= v) by (apply Hle; left; reflexivity). lia.
      * assert (Z.max a (- w) <= v) by (apply Hle; left; reflexivity). lia.
      * apply Hle. right. exact Hx.
    + cbn [map]. destruct Hin as [Hin|Hin].
      * destruct (Z.max_spec a (- w)) as [[_ E]|[_ E]]; rewrite E in Hin; [right; left|left]; exact Hin.
      * right. right. exact Hin.
Qed.

Lemma max_children_some : forall rec ms i,
  (forall m, In m ms -> exists w, rec m = Some w) -> exists v, max_children rec ms (Some i) = Some v.
Proof.
  intros rec ms. induction ms as [|m ms IH]; intros i H; cbn [max_children fold_left].
  - eauto.
  - fold (max_children rec ms). destruct (H m (or_introl eq_refl)) as [w ->]. apply IH.
    intros m' Hm'. apply H. right. exact Hm'.
Qed.

(* ---- the window contract of a child, and the loop *)
Definition ab_ok (r w a b : Z) : Prop :=
  (r <= a -> w <= r) /\ (a < r < b -> w = r) /\ (b <= r -> r <= w).

Section Loop.
Variable rec_ab : BoardState -> Z -> Z -> option Z.
Variable rec : BoardState -> option Z.
Variable dom : BoardState -> Prop.
Hypothesis child_ok : forall m a b r w, dom m -> a < b -> rec_ab m a b = Some r -> rec m = Some w -> ab_ok r w a b.

Lemma ab_children_spec : forall beta ms ws alpha best R,
  (forall m, In m ms -> dom m) ->
  Forall2 (fun m w => rec m = Some w) ms ws ->
  alpha < beta -> (forall B, best = Some B -> B <= alpha) ->
  ab_children rec_ab beta ms alpha best = Some R ->
  (forall B, best = Some B -> B <= R) /\
  (beta <= R -> exists w, In w ws /\ R <= - w) /\
  (R < beta -> (forall w, In w ws -> - w <= R) /\ (alpha < R -> exists w, In w ws /\ - w = R)).
Proof.
  intros beta ms. induction ms as [|m ms IH]; intros ws alpha best R Hdom HF Hab Hb H.
  - inversion HF; subst. cbn [ab_children] in H. subst best. pose proof (Hb R eq_refl) as HB.
    split; [intros B E; injection E as <-; lia|]. split; [intros; lia|].
    intros _. split; [intros w []|intros; lia].
  - inversion HF as [|m' w ms' ws' Hw HF']; subst. cbn [ab_children] in H.
    destruct (rec_ab m (- beta) (- alpha)) as [r|] eqn:Hr; [|discriminate].
    assert (Hc : ab_ok r w (- beta) (- alpha)).
    { apply (child_ok m); [apply Hdom; left; reflexivity|lia|exact Hr|exact Hw]. }
    destruct Hc as (C1 & C2 & C3).
    set (best' := match best with Some x => Z.max x (- r) | None => - r end) in *.
    assert (Hb' : best' <= Z.max alpha (- r)).
    { unfold best'. destruct best as [x|]; [specialize (Hb x eq_refl)|]; lia. }
    assert (Hge : forall B, best = Some B -> B <= best').
    { intros B E. unfold best'. rewrite E. lia. }
    assert (Hs : - r <= best').
    { unfold best'. destruct best; lia. }
    destruct (beta <=? - r) eqn:Hcut.
    + apply Z.leb_le in Hcut. injection H as <-.
      assert (E : best' = - r).
      { unfold best'. destruct best as [x|]; [specialize (Hb x eq_refl)|]; lia. }
      split; [intros B HB; specialize (Hge B HB); lia|]. split; [|intros; lia].
      intros _. exists w. split; [left; reflexivity|]. lia.
    + apply Z.leb_gt in Hcut.
      apply (IH ws' (Z.max alpha (- r)) (Some best') R) in H;
        [|intros x Hx; apply Hdom; right; exact Hx|exact HF'|lia|intros B E; injection E as <-; exact Hb'].
      destruct H as (H1 & H2 & H3). specialize (H1 best' eq_refl).
      split; [intros B HB; specialize (Hge B HB); lia|]. split.
      * intros Hc. destruct (H2 Hc) as (x & Hx & Hxr). exists x. split; [right; exact Hx|exact Hxr].
      * intros Hlt. destruct (H3 Hlt) as [H4 H5]. split.
        -- intros x [<-|Hx]; [|apply H4; exact Hx].
           destruct (Z_le_gt_dec (- r) alpha) as [L|G].
           ++ assert (r <= w) by (apply C3; lia). lia.
           ++ assert (w = r) by (apply C2; lia). lia.
        -- intros Ha. destruct (Z_lt_le_dec (Z.max alpha (- r)) R) as [L|G].
           ++ destruct (H5 L) as (x & Hx & E). exists x. split; [right; exact Hx|exact E].
           ++ exists w. split; [left; reflexivity|].
              assert (alpha < - r) by lia. assert (w = r) by (apply C2; lia). lia.
Qed.
End Loop.

Lemma Forall2_perm_values : forall (P : BoardState -> Z -> Prop) ms ms' ws,
  Permutation ms ms' -> Forall2 P ms ws -> exists ws', Permutation ws ws' /\ Forall2 P ms' ws'.
Proof. intros P ms ms' ws Hp HF. exact (Permutation_Forall2 Hp HF). Qed.

Lemma ab_ok_of_loop : forall (a be R w i : Z) (ws ws' : list Z),
  a < be -> Permutation ws ws' -> is_max w (i :: map Z.opp ws) ->
  (* i is either a stand-pat value handled by the caller or one of the children *)
  (i <= R) -> (be <= R -> (exists x, In x ws' /\ R <= - x) \/ R <= i) ->
  (R < be -> (forall x, In x ws' -> - x <= R) /\ (a < R -> (exists x, In x ws' /\ - x = R) \/ R = i)) ->
  ab_ok R w a be.
Proof.
  intros a be R w i ws ws' Hab Hp [Hle Hin] Hi Hhi Hlo.
  assert (Hin' : forall x, In x ws' -> - x <= w).
  { intros x Hx. apply Hle. right. apply in_map. apply (Permutation_in x (Permutation_sym Hp) Hx). }
  assert (Hiw : i <= w) by (apply Hle; left; reflexivity).
  assert (Hup : R < be -> w <= R).
  { intros Hlt. destruct (Hlo Hlt) as [Hall _]. destruct Hin as [<-|Hin]; [exact Hi|].
    apply in_map_iff in Hin. destruct Hin as (x & <- & Hx). apply Hall. apply (Permutation_in x Hp Hx). }
  unfold ab_ok. split; [intros; apply Hup; lia|]. split.
  - intros [Ha Hb]. specialize (Hup Hb). destruct (Hlo Hb) as [_ Hex].
    destruct (Hex Ha) as [(x & Hx & E)|E]; [specialize (Hin' x Hx)|]; lia.
  - intros Hc. destruct (Hhi Hc) as [(x & Hx & E)|E]; [specialize (Hin' x Hx)|]; lia.
Qed.

Section Correct.
Variable zt : ztable.

Lemma qvalue_ab_ok : forall f b a be r w,
  a < be -> qvalue_ab zt f b a be = Some r -> qvalue zt f b = Some w -> ab_ok r w a be.
Proof.
  induction f as [|f IH]; intros b a be r w Hab Hr Hw; [discriminate|].
  cbn [qvalue_ab qvalue] in Hr, Hw.
  apply max_children_spec in Hw. destruct Hw as (i & ws & Hi & HF & Hm). injection Hi as <-.
  set (sp := get_evaluation b) in *.
  destruct (be <=? sp) eqn:Hcut.
  - apply Z.leb_le in Hcut. injection Hr as <-. destruct Hm as [Hle _].
    assert (sp <= w) by (apply Hle; left; reflexivity). unfold ab_ok. lia.
  - apply Z.leb_gt in Hcut.
    destruct (Forall2_perm_values _ _ _ _ (stable_sort_desc_perm (generate_moves zt b CapturesOnly)) HF)
      as (ws' & Hp & HF').
    apply (ab_children_spec (qvalue_ab zt f) (qvalue zt f) (fun _ => True)) with (ws := ws') in Hr;
      [|intros m x y r0 w0 _ Hxy H1 H2; exact (IH m x y r0 w0 Hxy H1 H2)|intros; exact I|exact HF'|lia
       |intros B E; injection E as <-; lia].
    destruct Hr as (H1 & H2 & H3). specialize (H1 sp eq_refl).
    apply (ab_ok_of_loop a be r w sp ws ws' Hab Hp Hm H1).
    + intros Hc. left. exact (H2 Hc).
    + intros Hlt. destruct (H3 Hlt) as [H4 H5]. split; [exact H4|].
      intros Ha. destruct (Z_lt_le_dec (Z.max a sp) r) as [L|G]; [left; exact (H5 L)|right; lia].
Qed.

Lemma negamax_ab_ok : forall f b d ply a be t r w,
  a < be -> negamax_ab zt f b d ply a be t = Some r -> negamax zt f b d ply t = Some w -> ab_ok r w a be.
Proof.
  induction f as [|f IH]; intros b d ply a be t r w Hab Hr Hw; [discriminate|].
  cbn [negamax_ab negamax] in Hr, Hw.
  destruct (is_threefold_repetition t b).
  { injection Hr as <-. injection Hw as <-. unfold ab_ok. lia. }
  cbv zeta in Hr, Hw.
  destruct ((d =? 0) && negb (is_check b (to_move b))).
  { exact (qvalue_ab_ok f b a be r w Hab Hr Hw). }
  destruct (generate_moves zt b AllMoves) as [|m0 rest] eqn:Hg.
  { destruct (is_check b (to_move b)); injection Hr as <-; injection Hw as <-; unfold ab_ok; lia. }
  set (d' := (if d =? 0 then 1 else d) - 1) in *.
  apply max_children_spec in Hw. destruct Hw as (i & ws & Hi & HF & Hm).
  destruct (negamax zt f m0 d' (ply + 1) (dt_add t b)) as [w0|] eqn:Hw0; [|discriminate].
  injection Hi as <-.
  assert (HF0 : Forall2 (fun m x => negamax zt f m d' (ply + 1) (dt_add t b) = Some x) (m0 :: rest) (w0 :: ws))
    by (constructor; assumption).
  destruct (Forall2_perm_values _ _ _ _ (stable_sort_desc_perm (m0 :: rest)) HF0) as (ws' & Hp & HF').
  apply (ab_children_spec (fun mov x y => negamax_ab zt f mov d' (ply + 1) x y (dt_add t b))
                          (fun mov => negamax zt f mov d' (ply + 1) (dt_add t b)) (fun _ => True))
    with (ws := ws') in Hr;
    [|intros m x y r0 w0' _ Hxy H1 H2; exact (IH m d' (ply + 1) x y (dt_add t b) r0 w0' Hxy H1 H2)
     |intros; exact I|exact HF'|exact Hab|intros B E; discriminate].
  destruct Hr as (_ & H2 & H3).
  assert (Hm' : is_max w (map Z.opp (w0 :: ws))) by exact Hm.
  assert (Hin' : forall x, In x ws' -> - x <= w).
  { intros x Hx. apply (proj1 Hm'). apply in_map. apply (Permutation_in x (Permutation_sym Hp) Hx). }
  assert (Hup : r < be -> w <= r).
  { intros Hlt. destruct (H3 Hlt) as [Hall _]. destruct Hm' as [_ Hin].
    apply in_map_iff in Hin. destruct Hin as (x & <- & Hx). apply Hall. apply (Permutation_in x Hp Hx). }
  unfold ab_ok. split; [intros; apply Hup; lia|]. split.
  - intros [Ha Hb]. specialize (Hup Hb). destruct (H3 Hb) as [_ Hex].
    destruct (Hex Ha) as (x & Hx & E). specialize (Hin' x Hx). lia.
  - intros Hc. destruct (H2 Hc) as (x & Hx & E). specialize (Hin' x Hx). lia.
Qed.

End Correct.

(* ---- the oracle answers whenever the plain value exists *)
Lemma ab_children_some : forall rec_ab beta ms alpha best,
  (forall m a b, In m ms -> exists r, rec_ab m a b = Some r) ->
  (best <> None \/ ms <> []) -> exists R, ab_children rec_ab beta ms alpha best = Some R.
Proof.
  intros rec_ab beta ms. induction ms as [|m ms IH]; intros alpha best Hall Hne; cbn [ab_children].
  - destruct best as [x|]; [eauto|]. destruct Hne as [H|H]; congruence.
  - destruct (Hall m (- beta) (- alpha) (or_introl eq_refl)) as [r ->].
    destruct (beta <=? - r); [eauto|]. apply IH; [|left; discriminate].
    intros m' a b Hm'. apply Hall. right. exact Hm'.
Qed.

Lemma Forall2_in_l : forall (P : BoardState -> Z -> Prop) ms ws m, Forall2 P ms ws -> In m ms -> exists w, P m w.
Proof.
  intros P ms ws m HF. induction HF as [|x y l l' Hxy HF IH]; intros Hin; [destruct Hin|].
  destruct Hin as [<-|Hin]; [eauto|auto].
Qed.

Section Exists.
Variable zt : ztable.

Lemma qvalue_ab_some : forall f b w, qvalue zt f b = Some w -> forall a be, exists r, qvalue_ab zt f b a be = Some r.
Proof.
  induction f as [|f IH]; intros b w Hw a be; [discriminate|].
  cbn [qvalue qvalue_ab] in *. apply max_children_spec in Hw. destruct Hw as (i & ws & _ & HF & _).
  destruct (be <=? get_evaluation b); [eauto|].
  apply ab_children_some; [|left; discriminate].
  intros m x y Hm. apply stable_sort_desc_incl in Hm.
  destruct (Forall2_in_l _ _ _ m HF Hm) as [w' Hw']. exact (IH m w' Hw' x y).
Qed.

Lemma negamax_ab_some : forall f b d ply t w,
  negamax zt f b d ply t = Some w -> forall a be, exists r, negamax_ab zt f b d ply a be t = Some r.
Proof.
  induction f as [|f IH]; intros b d ply t w Hw a be; [discriminate|].
  cbn [negamax negamax_ab] in *.
  destruct (is_threefold_repetition t b); [eauto|]. cbv zeta in *.
  destruct ((d =? 0) && negb (is_check b (to_move b))); [exact (qvalue_ab_some f b w Hw a be)|].
  destruct (generate_moves zt b AllMoves) as [|m0 rest] eqn:Hg.
  { destruct (is_check b (to_move b)); eauto. }
  set (d' := (if d =? 0 then 1 else d) - 1) in *.
  apply max_children_spec in Hw. destruct Hw as (i & ws & Hi & HF & _).
  destruct (negamax zt f m0 d' (ply + 1) (dt_add t b)) as [w0|] eqn:Hw0; [|discriminate].
  apply ab_children_some.
  - intros m x y Hm. apply stable_sort_desc_incl in Hm. destruct Hm as [<-|Hm].
    + exact (IH m0 d' (ply + 1) (dt_add t b) w0 Hw0 x y).
    + destruct (Forall2_in_l _ _ _ m HF Hm) as [w' Hw']. exact (IH m d' (ply + 1) (dt_add t b) w' Hw' x y).
  - right. intros E. pose proof (stable_sort_desc_perm (m0 :: rest)) as Hp. rewrite E in Hp.
    apply Permutation_sym, Permutation_nil in Hp. discriminate.
Qed.
End Exists.

(* ---- more fuel never changes an answer *)
Lemma max_children_mono : forall (rec1 rec2 : BoardState -> option Z) ms init v,
  (forall m x, rec1 m = Some x -> rec2 m = Some x) ->
  max_children rec1 ms init = Some v -> max_children rec2 ms init = Some v.
Proof.
  intros rec1 rec2 ms. induction ms as [|m ms IH]; intros init v Hm H; cbn [max_children fold_left] in *; [exact H|].
  fold (max_children rec1 ms) in H. fold (max_children rec2 ms).
  destruct init as [a|].
  - destruct (rec1 m) as [x|] eqn:E.
    + rewrite (Hm m x E). apply IH; assumption.
    + exfalso. clear -H. induction ms as [|m' ms' IH']; cbn [max_children fold_left] in H; [discriminate|auto].
  - exfalso. clear -H. induction ms as [|m' ms' IH']; cbn [max_children fold_left] in H; [discriminate|auto].
Qed.

Lemma ab_children_mono : forall (rec1 rec2 : BoardState -> Z -> Z -> option Z) beta ms alpha best R,
  (forall m a b x, rec1 m a b = Some x -> rec2 m a b = Some x) ->
  ab_children rec1 beta ms alpha best = Some R -> ab_children rec2 beta ms alpha best = Some R.
Proof.
  intros rec1 rec2 beta ms. induction ms as [|m ms IH]; intros alpha best R Hm H; cbn [ab_children] in *; [exact H|].
  destruct (rec1 m (- beta) (- alpha)) as [x|] eqn:E; [|discriminate]. rewrite (Hm _ _ _ _ E).
  destruct (beta <=? - x); [exact H|]. apply IH; assumption.
Qed.

Section Fuel.
Variable zt : ztable.

Lemma qvalue_fuel_S : forall f b v, qvalue zt f b = Some v -> qvalue zt (S f) b = Some v.
Proof.
  induction f as [|f IH]; intros b v H; [discriminate|].
  cbn [qvalue] in *. revert H. apply max_children_mono. intros m x Hx. apply IH. exact Hx.
Qed.

Lemma qvalue_ab_fuel_S : forall f b a be v, qvalue_ab zt f b a be = Some v -> qvalue_ab zt (S f) b a be = Some v.
Proof.
  induction f as [|f IH]; intros b a be v H; [discriminate|].
  cbn [qvalue_ab] in *. destruct (be <=? get_evaluation b); [exact H|].
  revert H. apply ab_children_mono. intros m x y r Hr. apply IH. exact Hr.
Qed.

Lemma negamax_fuel_S : forall f b d ply t v, negamax zt f b d ply t = Some v -> negamax zt (S f) b d ply t = Some v.
Proof.
  induction f as [|f IH]; intros b d ply t v H; [discriminate|].
  cbn [negamax] in *. destruct (is_threefold_repetition t b); [exact H|]. cbv zeta in *.
  destruct ((d =? 0) && negb (is_check b (to_move b))); [apply qvalue_fuel_S; exact H|].
  destruct (generate_moves zt b AllMoves) as [|m0 rest]; [exact H|].
  set (d' := (if d =? 0 then 1 else d) - 1) in *.
  destruct (negamax zt f m0 d' (ply + 1) (dt_add t b)) as [w0|] eqn:E.
  - rewrite (IH _ _ _ _ _ E). revert H. apply max_children_mono. intros m x Hx. apply IH. exact Hx.
  - exfalso. clear -H. induction rest as [|m' ms' IH']; cbn [max_children fold_left] in H; [discriminate|auto].
Qed.

Lemma negamax_ab_fuel_S : forall f b d ply a be t v,
  negamax_ab zt f b d ply a be t = Some v -> negamax_ab zt (S f) b d ply a be t = Some v.
Proof.
  induction f as [|f IH]; intros b d ply a be t v H; [discriminate|].
  cbn [negamax_ab] in *. destruct (is_threefold_repetition t b); [exact H|]. cbv zeta in *.
  destruct ((d =? 0) && negb (is_check b (to_move b))); [apply qvalue_ab_fuel_S; exact H|].
  destruct (generate_moves zt b AllMoves) as [|m0 rest]; [exact H|].
  revert H. apply ab_children_mono. intros m x y r Hr. apply IH. exact Hr.
Qed.

Lemma negamax_fuel_le : forall f f' b d ply t v, (f <= f')%nat -> negamax zt f b d ply t = Some v -> negamax zt f' b d ply t = Some v.
Proof. intros f f' b d ply t v Hle H. induction Hle as [|f' Hle IH]; [exact H|apply negamax_fuel_S; exact IH]. Qed.

Lemma negamax_ab_fuel_le : forall f f' b d ply a be t v, (f <= f')%nat ->
  negamax_ab zt f b d ply a be t = Some v -> negamax_ab zt f' b d ply a be t = Some v.
Proof. intros f f' b d ply a be t v Hle H. induction Hle as [|f' Hle IH]; [exact H|apply negamax_ab_fuel_S; exact IH]. Qed.

(* the oracle's answer in a window it falls strictly inside is the plain negamax value, whatever fuel either ran with *)
Theorem negamax_ab_exact : forall f f' b d ply a be t r w,
  negamax_ab zt f b d ply a be t = Some r -> a < r < be ->
  negamax zt f' b d ply t = Some w -> w = r.
Proof.
  intros f f' b d ply a be t r w Hr Hin Hw.
  apply (negamax_ab_fuel_le f (Nat.max f f')) in Hr; [|apply Nat.le_max_l].
  apply (negamax_fuel_le f' (Nat.max f f')) in Hw; [|apply Nat.le_max_r].
  assert (Hab : a < be) by lia.
  destruct (negamax_ab_ok zt _ _ _ _ _ _ _ _ _ Hab Hr Hw) as (_ & H & _). apply H. exact Hin.
Qed.

End Fuel.
