(* The concrete Zobrist table of the running engine (dumped through its getters on every run):
   every word the key can be built from is non-zero and they are pairwise distinct, so changing any
   single component of a position changes the key. *)
From Walleye Require Import Model.Zobrist Gen.ZobristTable.
Open Scope N_scope.

Definition ep_files : list Z := [2; 3; 4; 5; 6; 7; 8; 9]%Z.
Definition all_castlings : list castling := [WKS; WQS; BKS; BQS].

Definition all_words : list N :=
  flat_map (fun pc => map (fun p => z_piece zt_concrete pc p) inner_points) all_pieces
  ++ [z_black zt_concrete] ++ map (z_castle zt_concrete) all_castlings ++ map (z_ep zt_concrete) ep_files.

Fixpoint distinct (l : list N) : bool :=
  match l with [] => true | x :: t => negb (existsb (N.eqb x) t) && distinct t end.

Lemma words_ok : forallb (fun w => negb (w =? 0)) all_words && distinct all_words = true.
Proof. vm_compute. reflexivity. Qed.

Lemma distinct_nth l : distinct l = true -> forall i j, (i < length l)%nat -> (j < length l)%nat -> i <> j -> nth i l 0 <> nth j l 0.
Proof.
  induction l as [|x t IH]; intros H i j Hi Hj Hne; cbn [length] in *; [lia|].
  cbn [distinct] in H. apply andb_true_iff in H. destruct H as [Hx Ht].
  apply negb_true_iff in Hx.
  assert (Hnot : forall k, (k < length t)%nat -> x <> nth k t 0).
  { intros k Hk E. assert (existsb (N.eqb x) t = true); [|congruence].
    apply existsb_exists. exists (nth k t 0). split; [apply nth_In; exact Hk|now apply N.eqb_eq]. }
  destruct i as [|i], j as [|j]; cbn [nth]; try lia.
  - apply Hnot. lia.
  - intros E. symmetry in E. revert E. apply Hnot. lia.
  - apply IH; auto; lia.
Qed.

Lemma all_words_nonzero w : In w all_words -> w <> 0.
Proof.
  intros H. pose proof words_ok as W. apply andb_true_iff in W. destruct W as [W _].
  rewrite forallb_forall in W. specialize (W w H). apply negb_true_iff in W. now apply N.eqb_neq.
Qed.

(* ---- what the statement of C05 needs, as direct finite sweeps lifted to all pieces and squares *)
Lemma piece_words_sweep :
  forallb (fun pc => forallb (fun p =>
     negb (z_piece zt_concrete pc p =? 0)
     && forallb (fun pc' => piece_eqb pc pc' || negb (z_piece zt_concrete pc p =? z_piece zt_concrete pc' p)) all_pieces
     && forallb (fun p' => point_eqb p p' || negb (z_piece zt_concrete pc p =? z_piece zt_concrete pc p')) inner_points)
     inner_points) all_pieces = true.
Proof. vm_compute. reflexivity. Qed.

Lemma piece_word_facts pc p :
  In p inner_points ->
  z_piece zt_concrete pc p <> 0 /\
  (forall pc', pc' <> pc -> z_piece zt_concrete pc p <> z_piece zt_concrete pc' p) /\
  (forall p', In p' inner_points -> p' <> p -> z_piece zt_concrete pc p <> z_piece zt_concrete pc p').
Proof.
  intros Hp. pose proof piece_words_sweep as S. rewrite forallb_forall in S.
  specialize (S pc (all_pieces_complete pc)). rewrite forallb_forall in S. specialize (S p Hp).
  apply andb_true_iff in S. destruct S as [S S3]. apply andb_true_iff in S. destruct S as [S1 S2].
  split; [|split].
  - apply negb_true_iff in S1. now apply N.eqb_neq.
  - intros pc' Hne. rewrite forallb_forall in S2. specialize (S2 pc' (all_pieces_complete pc')).
    apply orb_true_iff in S2. destruct S2 as [S2|S2].
    + destruct (piece_eqb_spec pc pc'); [congruence|discriminate].
    + apply negb_true_iff in S2. now apply N.eqb_neq.
  - intros p' Hp' Hne. rewrite forallb_forall in S3. specialize (S3 p' Hp').
    apply orb_true_iff in S3. destruct S3 as [S3|S3].
    + destruct (point_eqb_spec p p'); [congruence|discriminate].
    + apply negb_true_iff in S3. now apply N.eqb_neq.
Qed.

Lemma other_word_facts :
  z_black zt_concrete <> 0 /\
  (forall c, z_castle zt_concrete c <> 0) /\
  (forall f, In f ep_files -> z_ep zt_concrete f <> 0) /\
  (forall f f', In f ep_files -> In f' ep_files -> f <> f' -> z_ep zt_concrete f <> z_ep zt_concrete f').
Proof.
  split; [|split; [|split]].
  - apply all_words_nonzero. unfold all_words. apply in_or_app. right. apply in_or_app. left. now left.
  - intros c. apply all_words_nonzero. unfold all_words. apply in_or_app. right. apply in_or_app. right.
    apply in_or_app. left. apply in_map. destruct c; cbn; tauto.
  - intros f Hf. apply all_words_nonzero. unfold all_words. do 3 (apply in_or_app; right). now apply in_map.
  - assert (S : forallb (fun f => forallb (fun f' => (f =? f')%Z || negb (z_ep zt_concrete f =? z_ep zt_concrete f')) ep_files) ep_files = true)
      by (vm_compute; reflexivity).
    intros f f' Hf Hf' Hne. rewrite forallb_forall in S. specialize (S f Hf). rewrite forallb_forall in S. specialize (S f' Hf').
    apply orb_true_iff in S. destruct S as [S|S]; [apply Z.eqb_eq in S; contradiction|].
    apply negb_true_iff in S. now apply N.eqb_neq.
Qed.
