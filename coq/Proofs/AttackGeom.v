(* Geometry shared by the check-detection proof: the 8x8 squares and the inner mailbox points are the
   same 64 objects, directions correspond, and the rules' `reaches` is "every square before t is empty". *)
From Walleye Require Import Model.Check Spec.Abs Proofs.Cells Proofs.Ray Proofs.HashProofs.
Open Scope Z_scope.

Lemma on8_spec q : on8 q = true <-> 0 <= fst q < 8 /\ 0 <= snd q < 8.
Proof. unfold on8. rewrite !andb_true_iff, !Z.leb_le, !Z.ltb_lt. tauto. Qed.

Lemma pt_sq p : pt_of_sq (sq_of_pt p) = p.
Proof. unfold pt_of_sq, sq_of_pt, BOARD_START, BOARD_END. destruct p; cbn [fst snd]. f_equal; lia. Qed.
Lemma sq_pt q : sq_of_pt (pt_of_sq q) = q.
Proof. unfold pt_of_sq, sq_of_pt, BOARD_START, BOARD_END. destruct q; cbn [fst snd]. f_equal; lia. Qed.

Lemma on8_inner q : on8 q = true <-> is_inner (pt_of_sq q) = true.
Proof.
  rewrite on8_spec, is_inner_spec. unfold pt_of_sq, BOARD_START, BOARD_END. destruct q; cbn [fst snd]. lia.
Qed.
Lemma inner_on8 p : is_inner p = true <-> on8 (sq_of_pt p) = true.
Proof. rewrite on8_inner, pt_sq. tauto. Qed.

Lemma on8_in_all_sq q : on8 q = true -> In q all_sq.
Proof.
  intros H. apply on8_inner in H. destruct (inner_sq_in_all_sq _ H) as [Hin _]. now rewrite sq_pt in Hin.
Qed.
Lemma in_all_sq_on8 q : In q all_sq -> on8 q = true.
Proof.
  intros H. pose proof all_sq_index_ok as A. rewrite forallb_forall in A. specialize (A q H).
  apply andb_true_iff in A. tauto.
Qed.

(* reading the abstraction on and off the board *)
Lemma pget_abs_on b q : on8 q = true -> pget (abs_placement b) q = opt_of_square (get b (pt_of_sq q)).
Proof. intros H. apply pget_abs. now apply on8_in_all_sq. Qed.
Lemma pget_off pl q : on8 q = false -> pget pl q = None.
Proof. intros H. unfold pget. now rewrite H. Qed.

(* the same geometric direction in the two coordinate systems: (drow, dcol) <-> (dfile, drank) *)
Definition dsp (d : point) : sq := (snd d, - fst d).
Definition smul (k : Z) (d : sq) : sq := (k * fst d, k * snd d).

Lemma pt_of_sq_move q d j : pt_of_sq (sadd q (smul j (dsp d))) = padd (pt_of_sq q) (pmul j d).
Proof.
  unfold pt_of_sq, sadd, smul, dsp, padd, pmul, BOARD_START, BOARD_END. destruct q, d; cbn [fst snd]. f_equal; ring.
Qed.
Lemma sq_of_pt_move p d j : sq_of_pt (padd p (pmul j d)) = sadd (sq_of_pt p) (smul j (dsp d)).
Proof. apply pt_of_sq_inj. rewrite pt_sq, pt_of_sq_move, pt_sq. reflexivity. Qed.

Lemma sadd_smul_S q d j : sadd (sadd q d) (smul j d) = sadd q (smul (j + 1) d).
Proof. unfold sadd, smul. destruct q, d; cbn [fst snd]. f_equal; ring. Qed.
Lemma sadd_smul_0 q d : sadd q (smul 0 d) = q.
Proof. unfold sadd, smul. destruct q, d; cbn [fst snd]. f_equal; ring. Qed.

(* ---- the rules' slider test *)
Lemma sq_eqb_spec a b : reflect (a = b) (sq_eqb a b).
Proof.
  unfold sq_eqb. destruct a as [a1 a2], b as [b1 b2]; cbn [fst snd].
  destruct (Z.eqb_spec a1 b1), (Z.eqb_spec a2 b2); cbn; constructor; congruence.
Qed.

Lemma reaches_iff fuel pl d t : forall cur,
  reaches fuel pl cur d t = true <->
  exists m, 0 <= m < Z.of_nat fuel /\ sadd cur (smul m d) = t /\
            (forall j, 0 <= j <= m -> on8 (sadd cur (smul j d)) = true) /\
            (forall j, 0 <= j < m -> occupied pl (sadd cur (smul j d)) = false).
Proof.
  induction fuel as [|f IH]; intros cur; cbn [reaches].
  - split; [discriminate|]. intros [m [Hm _]]. lia.
  - destruct (on8 cur) eqn:On; cbn [negb].
    + destruct (sq_eqb_spec cur t) as [->|Hne].
      * split; [intros _|reflexivity]. exists 0. rewrite sadd_smul_0.
        split; [lia|]. split; [reflexivity|]. split.
        -- intros j Hj. assert (j = 0) by lia. subst j. now rewrite sadd_smul_0.
        -- intros j Hj. lia.
      * destruct (occupied pl cur) eqn:Oc.
        -- split; [discriminate|]. intros [m [Hm [Ht [_ Hocc]]]].
           destruct (Z.eq_dec m 0) as [->|Hm0]; [rewrite sadd_smul_0 in Ht; contradiction|].
           specialize (Hocc 0 ltac:(lia)). rewrite sadd_smul_0 in Hocc. congruence.
        -- rewrite IH. split.
           ++ intros [m [Hm [Ht [Hon Hocc]]]]. exists (m + 1). rewrite <- sadd_smul_S.
              split; [lia|]. split; [exact Ht|]. split.
              ** intros j Hj. destruct (Z.eq_dec j 0) as [->|]; [now rewrite sadd_smul_0|].
                 replace j with ((j - 1) + 1) by ring. rewrite <- sadd_smul_S. apply Hon. lia.
              ** intros j Hj. destruct (Z.eq_dec j 0) as [->|]; [now rewrite sadd_smul_0|].
                 replace j with ((j - 1) + 1) by ring. rewrite <- sadd_smul_S. apply Hocc. lia.
           ++ intros [m [Hm [Ht [Hon Hocc]]]].
              destruct (Z.eq_dec m 0) as [->|Hm0]; [rewrite sadd_smul_0 in Ht; contradiction|].
              exists (m - 1). split; [lia|]. split; [|split].
              ** rewrite sadd_smul_S. now replace (m - 1 + 1) with m by ring.
              ** intros j Hj. rewrite sadd_smul_S. apply Hon. lia.
              ** intros j Hj. rewrite sadd_smul_S. apply Hocc. lia.
    + split; [discriminate|]. intros [m [Hm [_ [Hon _]]]].
      specialize (Hon 0 ltac:(lia)). rewrite sadd_smul_0 in Hon. congruence.
Qed.

(* two inner points on one unit-direction line are at most 7 steps apart *)
Lemma inner_line_short p d k : unit_dir d -> is_inner p = true -> is_inner (padd p (pmul k d)) = true -> 0 <= k -> k <= 7.
Proof.
  intros [Hf [Hs Hd]] Hp Hq Hk. apply is_inner_spec in Hp, Hq.
  destruct p as [r c], d as [dr dc]. unfold padd, pmul in Hq. cbn [fst snd] in *.
  assert (dr <> 0 \/ dc <> 0).
  { destruct (Z.eq_dec dr 0), (Z.eq_dec dc 0); auto. subst. exfalso. apply Hd. reflexivity. }
  nia.
Qed.
