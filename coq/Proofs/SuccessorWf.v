(* Well-formedness of the boards the generator builds: the sentinel ring and the king caches survive
   every kind of move (C01/C02 preservation along chains, and the hypothesis of C06 on the tested clone). *)
From Walleye Require Import Model.Successor Spec.Abs Proofs.Cells Proofs.Ray Proofs.HashProofs Proofs.AttackGeom Proofs.AbsSet
  Proofs.KeyInvariant Proofs.CheckProofs Proofs.MoveGenProofs Proofs.GenShape Proofs.SuccessorAbs.
Open Scope Z_scope.

Lemma cells_ok_set b p v : cells_ok b -> is_inner p = true -> v <> Boundary -> cells_ok (set b p v).
Proof.
  intros (L & R & I) Hp Hv. pose proof (is_inner_in_grid p Hp) as Gp.
  split; [now rewrite set_length|]. split.
  - intros q Hq. rewrite get_set_other; [apply R; exact Hq|]. intros ->. congruence.
  - intros q Hq. destruct (point_eqb_spec p q) as [->|Hne].
    + now rewrite get_set_same.
    + rewrite get_set_other by exact Hne. apply I. exact Hq.
Qed.

Lemma piece_eta pc : pc = mkPiece (pcolor pc) (pkind pc). Proof. destruct pc; reflexivity. Qed.

Section W.
Variable zt : ztable.

Lemma kl_take_away s r col : king_location (take_away_castling_rights zt s r) col = king_location s col.
Proof. unfold take_away_castling_rights. destruct (right s r); [|reflexivity]. destruct r, col; reflexivity. Qed.
Lemma kl_unset_pdm s col : king_location (unset_pawn_double_move zt s) col = king_location s col.
Proof. unfold unset_pawn_double_move. destruct (pawn_double_move s); destruct col; reflexivity. Qed.
Lemma kl_rights_from_origin s pc sq col : king_location (rights_from_origin zt s pc sq) col = king_location s col.
Proof.
  unfold rights_from_origin. destruct (pkind pc); try (destruct (pcolor pc); now rewrite !kl_take_away);
    repeat match goal with |- context [if ?c then _ else _] => destruct c end; rewrite ?kl_take_away; reflexivity.
Qed.
Lemma kl_rights_from_target s mov col : king_location (rights_from_target zt s mov) col = king_location s col.
Proof.
  unfold rights_from_target. repeat match goal with |- context [if ?c then _ else _] => destruct c end; rewrite ?kl_take_away; reflexivity.
Qed.

Lemma king_location_finalise nb pc sq mov col : king_location (finalise zt nb pc sq mov) col = king_location nb col.
Proof.
  unfold finalise. destruct (is_pawn_kind (pkind pc) && (Z.abs (fst sq - fst mov) =? 2)).
  - transitivity (king_location (unset_pawn_double_move zt (rights_from_target zt (rights_from_origin zt nb pc sq) mov)) col).
    + destruct col; reflexivity.
    + now rewrite kl_unset_pdm, kl_rights_from_target, kl_rights_from_origin.
  - now rewrite kl_unset_pdm, kl_rights_from_target, kl_rights_from_origin.
Qed.

Lemma king_location_moved_pre s pc sq mov col :
  king_location (moved_pre zt s pc sq mov) col =
  if kind_eqb (pkind pc) King && color_eqb (pcolor pc) col then mov else king_location s col.
Proof.
  unfold moved_pre. unfold move_piece.
  match goal with |- context [match get ?b sq with _ => _ end] => destruct (get b sq) end;
    destruct (pkind pc), (pcolor pc), col; reflexivity.
Qed.

(* the board after an ordinary move *)
Lemma moved_pre_cells s pc sq mov :
  get (board s) sq = Full pc -> board (moved_pre zt s pc sq mov) = set (set (board s) sq Empty) mov (Full pc).
Proof. intros G. rewrite moved_pre_board. unfold move_piece. rewrite G. reflexivity. Qed.

Lemma moved_pre_cells_ok s pc sq mov :
  cells_ok (board s) -> get (board s) sq = Full pc -> is_inner sq = true -> is_inner mov = true ->
  cells_ok (board (moved_pre zt s pc sq mov)).
Proof.
  intros OK G Hs Hm. rewrite (moved_pre_cells s pc sq mov G).
  apply cells_ok_set; [apply cells_ok_set|exact Hm|]; auto; discriminate.
Qed.

Lemma moved_pre_kings_ok s pc sq mov :
  cells_ok (board s) -> kings_ok s -> get (board s) sq = Full pc -> is_inner sq = true -> is_inner mov = true -> sq <> mov ->
  (forall col, get (board s) mov <> Full (mkPiece col King)) ->
  kings_ok (moved_pre zt s pc sq mov).
Proof.
  intros OK KO G Hs Hm Hne NK col. destruct OK as (L & R & I).
  pose proof (is_inner_in_grid _ Hs) as Gs. pose proof (is_inner_in_grid _ Hm) as Gm.
  rewrite (moved_pre_cells s pc sq mov G), king_location_moved_pre.
  assert (L1 : length (set (board s) sq Empty) = 144%nat) by now rewrite set_length.
  destruct (KO col) as [GK UK].
  destruct (kind_eqb_spec (pkind pc) King) as [PK|PK]; [destruct (color_eqb_spec (pcolor pc) col) as [PC|PC]|]; cbn [andb].
  - (* the king of this colour moves *)
    assert (Epc : pc = mkPiece col King) by (rewrite (piece_eta pc), PK, PC; reflexivity).
    split; [rewrite get_set_same by assumption; now rewrite Epc|].
    intros p Hp. destruct (point_eqb_spec mov p) as [E|E]; [now symmetry|]. rewrite get_set_other in Hp by exact E.
    destruct (point_eqb_spec sq p) as [E'|E']; [subst p; rewrite get_set_same in Hp by assumption; discriminate|].
    rewrite get_set_other in Hp by exact E'. exfalso. apply E'. rewrite (UK p Hp). apply UK. now rewrite G, Epc.
  - (* a king of the other colour moves *)
    assert (Hk1 : king_location s col <> sq).
    { intros E. rewrite E, G in GK. injection GK as ->. cbn in PC. congruence. }
    assert (Hk2 : king_location s col <> mov) by (intros E; apply (NK col); now rewrite <- E).
    split; [rewrite !get_set_other by congruence; exact GK|].
    intros p Hp. destruct (point_eqb_spec mov p) as [E|E].
    + subst p. rewrite get_set_same in Hp by assumption. injection Hp as ->. cbn in PC. congruence.
    + rewrite get_set_other in Hp by exact E.
      destruct (point_eqb_spec sq p) as [E'|E']; [subst p; rewrite get_set_same in Hp by assumption; discriminate|].
      rewrite get_set_other in Hp by exact E'. now apply UK.
  - assert (Hk1 : king_location s col <> sq).
    { intros E. rewrite E, G in GK. injection GK as ->. cbn in PK. congruence. }
    assert (Hk2 : king_location s col <> mov) by (intros E; apply (NK col); now rewrite <- E).
    split; [rewrite !get_set_other by congruence; exact GK|].
    intros p Hp. destruct (point_eqb_spec mov p) as [E|E].
    + subst p. rewrite get_set_same in Hp by assumption. injection Hp as ->. cbn in PK. congruence.
    + rewrite get_set_other in Hp by exact E.
      destruct (point_eqb_spec sq p) as [E'|E']; [subst p; rewrite get_set_same in Hp by assumption; discriminate|].
      rewrite get_set_other in Hp by exact E'. now apply UK.
Qed.

(* ---- a state whose board differs from a well-formed one only on squares without kings *)
Lemma kings_ok_update s s' :
  kings_ok s -> (forall col, king_location s' col = king_location s col) ->
  (forall p, get (board s') p = get (board s) p \/
             ((forall col, get (board s') p <> Full (mkPiece col King)) /\ (forall col, get (board s) p <> Full (mkPiece col King)))) ->
  kings_ok s'.
Proof.
  intros KO KL H col. destruct (KO col) as [GK UK]. rewrite KL. split.
  - destruct (H (king_location s col)) as [E|[_ N]]; [now rewrite E|]. exfalso. now apply (N col).
  - intros p Hp. destruct (H p) as [E|[N _]]; [apply UK; now rewrite <- E|]. exfalso. now apply (N col).
Qed.

(* ---- en passant *)
Lemma ep_pre_cells s pc sq mov :
  get (board s) sq = Full pc ->
  board (ep_pre zt s pc sq mov) =
  set (set (set (board s) sq Empty) mov (Full pc))
      (match pcolor pc with White => (fst mov + 1, snd mov) | Black => (fst mov - 1, snd mov) end) Empty.
Proof.
  intros G. unfold ep_pre. cbn [kx with_key with_board board]. unfold move_piece.
  rewrite unset_pdm_board. cbn [swap_color kx with_key with_to_move with_last with_promo board]. rewrite G. reflexivity.
Qed.

Lemma king_location_ep_pre s pc sq mov col : king_location (ep_pre zt s pc sq mov) col = king_location s col.
Proof.
  unfold ep_pre, move_piece, unset_pawn_double_move.
  repeat match goal with |- context [match ?x with _ => _ end] => destruct x end; destruct col; reflexivity.
Qed.

Lemma ep_pre_wf s pc sq mov :
  cells_ok (board s) -> kings_ok s -> ep_ok_model s -> get (board s) sq = Full pc -> is_inner sq = true ->
  pcolor pc = to_move s -> pkind pc = Pawn -> pawn_double_move s = Some mov ->
  cells_ok (board (ep_pre zt s pc sq mov)) /\ kings_ok (ep_pre zt s pc sq mov).
Proof.
  intros OK KO EP G Hs PC PK D. destruct (EP mov D) as (Hm & Gt & Hv & Gv). rewrite <- PC in Hv, Gv.
  set (v := match pcolor pc with White => (fst mov + 1, snd mov) | Black => (fst mov - 1, snd mov) end) in *.
  rewrite (ep_pre_cells s pc sq mov G). fold v. split.
  - repeat apply cells_ok_set; auto; discriminate.
  - assert (OK' := OK). destruct OK' as (L & R & I).
    pose proof (is_inner_in_grid _ Hs) as Gs. pose proof (is_inner_in_grid _ Hm) as Gm. pose proof (is_inner_in_grid _ Hv) as Gvv.
    apply (kings_ok_update s); [exact KO|apply king_location_ep_pre|].
    intros p. rewrite (ep_pre_cells s pc sq mov G). fold v.
    destruct (point_eqb_spec v p) as [<-|Nv].
    { right. rewrite get_set_same by (auto; now rewrite !set_length). rewrite Gv. split; intros col; discriminate. }
    rewrite get_set_other by exact Nv.
    destruct (point_eqb_spec mov p) as [<-|Nm].
    { right. rewrite get_set_same by (auto; now rewrite !set_length). rewrite Gt. split; intros col; [|discriminate].
      rewrite (piece_eta pc), PK. discriminate. }
    rewrite get_set_other by exact Nm.
    destruct (point_eqb_spec sq p) as [<-|Ns].
    { right. rewrite get_set_same by auto. rewrite G. split; intros col; [discriminate|]. rewrite (piece_eta pc), PK. discriminate. }
    left. now rewrite get_set_other.
Qed.

(* ---- castling *)
Lemma castle_successor_cells s c r1 r2 kc rf rt (alg : mv2) :
  let r0 := match c with White => 9 | Black => 2 end in
  king_location s c = (r0, 6) ->
  get (board s) (r0, 6) = Full (mkPiece c King) -> get (board s) (r0, rf) = Full (mkPiece c Rook) ->
  rf <> 6 -> rf <> kc ->
  let x := castle_successor zt s c r1 r2 (r0, kc) alg (r0, rf) (r0, rt) in
  board x = set (set (set (set (board s) (r0, 6) Empty) (r0, kc) (Full (mkPiece c King))) (r0, rf) Empty) (r0, rt) (Full (mkPiece c Rook)) /\
  king_location x c = (r0, kc) /\ king_location x (opposite c) = king_location s (opposite c).
Proof.
  intros r0 KL GK GR N1 N2 x. unfold x, castle_successor. rewrite KL.
  set (s1 := with_last (set_king (take_away_castling_rights zt (take_away_castling_rights zt
               (unset_pawn_double_move zt (swap_color zt (with_promo s None))) r1) r2) c (r0, kc)) (Some alg)).
  assert (B1 : board s1 = board s).
  { unfold s1. cbn [board with_last]. unfold set_king. destruct c; cbn [board with_wk with_bk]; rewrite !take_away_board, unset_pdm_board; reflexivity. }
  assert (MP1 : board (move_piece zt s1 (r0, 6) (r0, kc)) = set (set (board s) (r0, 6) Empty) (r0, kc) (Full (mkPiece c King))).
  { unfold move_piece. rewrite B1, GK. reflexivity. }
  assert (GR1 : get (board (move_piece zt s1 (r0, 6) (r0, kc))) (r0, rf) = Full (mkPiece c Rook)).
  { rewrite MP1, !get_set_other; [exact GR| |]; intros E; inversion E; lia. }
  assert (KLm : forall X a b0 col, king_location (move_piece zt X a b0) col = king_location X col).
  { intros X a b0 col. unfold move_piece. destruct (get (board X) a); destruct col; reflexivity. }
  split; [|split].
  - set (s2 := move_piece zt s1 (r0, 6) (r0, kc)) in *. unfold move_piece. rewrite GR1, MP1. reflexivity.
  - rewrite !KLm. unfold s1, set_king, take_away_castling_rights, unset_pawn_double_move.
    destruct c; repeat match goal with |- context [if ?x then _ else _] => destruct x end;
      repeat match goal with |- context [match ?x with _ => _ end] => destruct x end; reflexivity.
  - rewrite !KLm. unfold s1, set_king, take_away_castling_rights, unset_pawn_double_move.
    destruct c; repeat match goal with |- context [if ?x then _ else _] => destruct x end;
      repeat match goal with |- context [match ?x with _ => _ end] => destruct x end; reflexivity.
Qed.

Definition castle_side (kc rf rt : Z) : Prop := (kc = 8 /\ rf = 9 /\ rt = 7) \/ (kc = 4 /\ rf = 2 /\ rt = 5).

(* what the board of a castling successor holds, square by square *)
Lemma castle_successor_view s c r1 r2 kc rf rt (alg : mv2) :
  cells_ok (board s) ->
  let r0 := match c with White => 9 | Black => 2 end in
  king_location s c = (r0, 6) ->
  get (board s) (r0, 6) = Full (mkPiece c King) -> get (board s) (r0, rf) = Full (mkPiece c Rook) ->
  castle_side kc rf rt ->
  let x := castle_successor zt s c r1 r2 (r0, kc) alg (r0, rf) (r0, rt) in
  cells_ok (board x) /\
  get (board x) (r0, 6) = Empty /\ get (board x) (r0, kc) = Full (mkPiece c King) /\
  get (board x) (r0, rf) = Empty /\ get (board x) (r0, rt) = Full (mkPiece c Rook) /\
  (forall p, p <> (r0, 6) -> p <> (r0, kc) -> p <> (r0, rf) -> p <> (r0, rt) -> get (board x) p = get (board s) p) /\
  king_location x c = (r0, kc) /\ king_location x (opposite c) = king_location s (opposite c).
Proof.
  intros OK r0 KL GK GR Side x.
  assert (Ir : r0 = 9 \/ r0 = 2) by (unfold r0; destruct c; auto).
  assert (I1 : is_inner (r0, 6) = true) by (apply is_inner_spec; cbn [fst snd]; unfold castle_side in Side; lia).
  assert (I2 : is_inner (r0, kc) = true) by (apply is_inner_spec; cbn [fst snd]; unfold castle_side in Side; lia).
  assert (I3 : is_inner (r0, rf) = true) by (apply is_inner_spec; cbn [fst snd]; unfold castle_side in Side; lia).
  assert (I4 : is_inner (r0, rt) = true) by (apply is_inner_spec; cbn [fst snd]; unfold castle_side in Side; lia).
  destruct (castle_successor_cells s c r1 r2 kc rf rt alg KL GK GR ltac:(unfold castle_side in Side; lia) ltac:(unfold castle_side in Side; lia)) as (B & K1 & K2).
  fold r0 in B, K1, K2. fold x in B, K1, K2.
  assert (COK : cells_ok (board x)) by (rewrite B; repeat apply cells_ok_set; auto; discriminate).
  split; [exact COK|].
  assert (OK' := OK). destruct OK' as (L & R & I).
  pose proof (is_inner_in_grid _ I1) as G1. pose proof (is_inner_in_grid _ I2) as G2.
  pose proof (is_inner_in_grid _ I3) as G3. pose proof (is_inner_in_grid _ I4) as G4.
  unfold castle_side in Side.
  repeat split; try assumption.
  - rewrite B, !get_set_other by (intros E; inversion E; lia). apply get_set_same; auto.
  - rewrite B, !get_set_other by (intros E; inversion E; lia). apply get_set_same; auto; now rewrite !set_length.
  - rewrite B, get_set_other by (intros E; inversion E; lia). apply get_set_same; auto; now rewrite !set_length.
  - rewrite B; apply get_set_same; auto; now rewrite !set_length.
  - intros p N1 N2 N3 N4. rewrite B, !get_set_other by congruence. reflexivity.
Qed.

Lemma castle_successor_wf s c r1 r2 kc rf rt (alg : mv2) :
  cells_ok (board s) -> kings_ok s ->
  let r0 := match c with White => 9 | Black => 2 end in
  king_location s c = (r0, 6) ->
  get (board s) (r0, 6) = Full (mkPiece c King) -> get (board s) (r0, rf) = Full (mkPiece c Rook) ->
  get (board s) (r0, kc) = Empty -> get (board s) (r0, rt) = Empty ->
  castle_side kc rf rt ->
  let x := castle_successor zt s c r1 r2 (r0, kc) alg (r0, rf) (r0, rt) in
  cells_ok (board x) /\ kings_ok x.
Proof.
  intros OK KO r0 KL GK GR EK ER Side x.
  destruct (castle_successor_view s c r1 r2 kc rf rt alg OK KL GK GR Side) as (COK & V1 & V2 & V3 & V4 & V0 & K1 & K2).
  fold r0 in V1, V2, V3, V4, V0, K1, K2. fold x in COK, V1, V2, V3, V4, V0, K1, K2.
  split; [exact COK|].
  intros col. destruct (KO col) as [GKc UKc].
  destruct (color_eqb_spec col c) as [->|NC].
  - rewrite K1. split; [exact V2|]. intros p Hp.
    destruct (point_eqb_spec p (r0, kc)) as [E|N2]; [exact E|]. exfalso.
    destruct (point_eqb_spec p (r0, 6)) as [->|N1]; [congruence|].
    destruct (point_eqb_spec p (r0, rf)) as [->|N3]; [congruence|].
    destruct (point_eqb_spec p (r0, rt)) as [->|N4]; [congruence|].
    rewrite V0 in Hp by assumption. apply N1. rewrite (UKc p Hp). exact KL.
  - assert (col = opposite c) by (destruct col, c; try reflexivity; congruence). subst col. rewrite K2.
    assert (NK : forall p, get (board s) p = Full (mkPiece (opposite c) King) ->
                           p <> (r0, 6) /\ p <> (r0, kc) /\ p <> (r0, rf) /\ p <> (r0, rt)).
    { intros p Hp. repeat split; intros ->; rewrite Hp in *; try discriminate; destruct c; discriminate. }
    split.
    + destruct (NK _ GKc) as (N1 & N2 & N3 & N4). now rewrite V0.
    + intros p Hp.
      destruct (point_eqb_spec p (r0, kc)) as [->|N2]; [rewrite V2 in Hp; destruct c; discriminate|].
      destruct (point_eqb_spec p (r0, 6)) as [->|N1]; [congruence|].
      destruct (point_eqb_spec p (r0, rf)) as [->|N3]; [congruence|].
      destruct (point_eqb_spec p (r0, rt)) as [->|N4]; [rewrite V4 in Hp; destruct c; discriminate|].
      rewrite V0 in Hp by assumption. now apply UKc.
Qed.

End W.
