(* The hypothesis of the move-generation theorems is an invariant of the generator: every successor of a
   well-formed position is well-formed.  By induction every position reached from a well-formed root through
   any chain of generated moves satisfies pos_ok1, so C01, C02 and C06 hold along every line the search walks. *)
From Walleye Require Import Model.Successor Spec.Abs Proofs.Cells Proofs.Ray Proofs.HashProofs Proofs.AttackGeom Proofs.AbsSet
  Proofs.KeyInvariant Proofs.CheckProofs Proofs.MoveGenProofs Proofs.GenShape Proofs.SuccessorAbs Proofs.GenerateAbs
  Proofs.SuccessorWf Proofs.AttackExt Proofs.Legality Proofs.PseudoLegal Proofs.LegalMoves Proofs.LegalPosition.
Open Scope Z_scope.

Lemma rights_home_intro x :
  (forall r, right x r = true ->
             get (board x) (king_home r) = Full (mkPiece (right_color r) King) /\
             get (board x) (rook_home r) = Full (mkPiece (right_color r) Rook)) -> rights_home x.
Proof.
  intros H. unfold rights_home. split; [|split; [|split]]; intros R.
  - exact (H WKS R).
  - exact (H WQS R).
  - exact (H BKS R).
  - exact (H BQS R).
Qed.

Section P.
Variable zt : ztable.

(* ---- castling rights stay consistent with the board *)
Lemma rights_home_after s pc sq mov x :
  rights_home s -> kings_ok s -> get (board s) sq = Full pc ->
  (forall col, get (board s) mov <> Full (mkPiece col King)) ->
  (forall p, p <> sq -> p <> mov -> get (board x) p = get (board s) p) ->
  (forall r, right x r = right s r && negb (clears_origin pc sq r) && negb (clears_target mov r)) ->
  rights_home x.
Proof.
  intros RH KO G NK Same RX. apply rights_home_intro. intros r R. rewrite RX in R.
  apply andb_true_iff in R. destruct R as [R C2]. apply andb_true_iff in R. destruct R as [R C1].
  pose proof (clears_iff_touches s pc sq mov r RH KO R G NK) as T.
  apply negb_true_iff in C1, C2. rewrite C1, C2 in T. cbn [orb] in T. symmetry in T.
  apply orb_false_iff in T. destruct T as [T T4]. apply orb_false_iff in T. destruct T as [T T3].
  apply orb_false_iff in T. destruct T as [T1 T2].
  assert (N : forall a b0, point_eqb a b0 = false -> b0 <> a).
  { intros a b0 E <-. rewrite point_eqb_refl in E. discriminate. }
  destruct (rights_home_r s r RH R) as [GK GR].
  rewrite !Same; auto.
Qed.

(* ---- the shapes a generated successor can have *)
Definition is_ordinary (s : BoardState) (x : BoardState) : Prop :=
  exists p pc mov, is_inner p = true /\ get (board s) p = Full pc /\ pcolor pc = to_move s /\
    In mov (get_moves pc p (board s) AllMoves) /\ is_check (moved_pre zt s pc p mov) (pcolor pc) = false /\
    (x = finalise zt (moved_pre zt s pc p mov) pc p mov \/
     (pkind pc = Pawn /\ (fst mov = BOARD_START \/ fst mov = BOARD_END - 1) /\
      In x (promote_pawn zt (finalise zt (moved_pre zt s pc p mov) pc p mov) (pcolor pc) p mov))).

Definition is_en_passant (s : BoardState) (x : BoardState) : Prop :=
  exists p pc dm, is_inner p = true /\ get (board s) p = Full pc /\ pcolor pc = to_move s /\ pkind pc = Pawn /\
    pawn_double_move s = Some dm /\ pawn_moves_en_passant pc p s = Some dm /\ x = ep_pre zt s pc p dm.

Definition is_castling (s : BoardState) (x : BoardState) : Prop :=
  exists c r1 r2 kc rf rt alg,
    let r0 := match c with White => 9 | Black => 2 end in
    to_move s = c /\ castle_side kc rf rt /\
    (match c with White => r1 = WKS /\ r2 = WQS | Black => r1 = BKS /\ r2 = BQS end) /\
    king_location s c = (r0, 6) /\ get (board s) (r0, 6) = Full (mkPiece c King) /\ get (board s) (r0, rf) = Full (mkPiece c Rook) /\
    get (board s) (r0, kc) = Empty /\ get (board s) (r0, rt) = Empty /\ alg = ((r0, 6), (r0, kc)) /\
    x = castle_successor zt s c r1 r2 (r0, kc) alg (r0, rf) (r0, rt).

Lemma generate_moves_view s x :
  kings_ok s -> rights_home s -> In x (generate_moves zt s AllMoves) -> is_ordinary s x \/ is_en_passant s x \/ is_castling s x.
Proof.
  intros KO RH Hx. unfold generate_moves in Hx. apply in_app_or in Hx. destruct Hx as [Hx|Hx].
  - apply in_flat_map in Hx. destruct Hx as [p [Hp Hx]]. apply in_inner_points in Hp.
    destruct (get (board s) p) as [|pc|] eqn:G; try contradiction.
    destruct (color_eqb_spec (pcolor pc) (to_move s)) as [PC|]; [|contradiction].
    unfold generate_moves_for_piece in Hx. apply in_app_or in Hx. destruct Hx as [Hx|Hx].
    + left. apply in_flat_map in Hx. destruct Hx as [mov [Hmov Hx]]. unfold successors_of_move in Hx.
      destruct (moved_board zt s pc p mov) as [nb|] eqn:MB; [|contradiction].
      apply moved_board_some in MB. destruct MB as [-> Chk].
      exists p, pc, mov. repeat (split; [assumption|]).
      destruct ((fst mov =? BOARD_START) && color_eqb (pcolor pc) White && is_pawn_kind (pkind pc)) eqn:P1.
      * apply andb_true_iff in P1. destruct P1 as [P1 PKb]. apply andb_true_iff in P1. destruct P1 as [R1 C1].
        apply Z.eqb_eq in R1. destruct (color_eqb_spec (pcolor pc) White) as [CW|]; [|discriminate].
        assert (PK : pkind pc = Pawn) by (destruct (pkind pc); try discriminate; reflexivity).
        right. rewrite CW. auto.
      * destruct ((fst mov =? BOARD_END - 1) && color_eqb (pcolor pc) Black && is_pawn_kind (pkind pc)) eqn:P2.
        -- apply andb_true_iff in P2. destruct P2 as [P2 PKb]. apply andb_true_iff in P2. destruct P2 as [R1 C1].
           apply Z.eqb_eq in R1. destruct (color_eqb_spec (pcolor pc) Black) as [CB|]; [|discriminate].
           assert (PK : pkind pc = Pawn) by (destruct (pkind pc); try discriminate; reflexivity).
           right. rewrite CB. auto.
        -- destruct Hx as [<-|[]]. left. reflexivity.
    + right. left. rewrite en_passant_successor_pre in Hx.
      destruct (pawn_double_move s) as [dm|] eqn:D; [|contradiction].
      destruct (pkind pc) eqn:PK; try contradiction.
      destruct (pawn_moves_en_passant pc p s) as [mov|] eqn:E; [|contradiction].
      destruct (negb (is_check (ep_pre zt s pc p mov) (to_move s))); [|contradiction].
      destruct Hx as [<-|[]].
      assert (mov = dm). { destruct p as [row col]. apply ep_geometry in E. destruct E as [E _]. congruence. }
      subst mov. exists p, pc, dm. auto 10.
  - right. right. cbn [mode_all] in Hx. unfold generate_castling_moves in Hx.
    repeat (apply in_app_or in Hx; destruct Hx as [Hx|Hx]);
      match type of Hx with In x (if ?c then _ else _) => destruct c eqn:Cond; [|contradiction] end;
      destruct Hx as [<-|[]]; apply andb_true_iff in Cond; destruct Cond as [TM CC];
      assert (TM' := proj2 (reflect_iff _ _ (color_eqb_spec _ _)) TM);
      unfold can_castle, can_castle_white_king_side, can_castle_white_queen_side, can_castle_black_king_side, can_castle_black_queen_side, e in CC;
      unfold BOARD_START, BOARD_END in *;
      change (10 - 1) with 9 in *; change (10 - 2) with 8 in *; change (10 - 3) with 7 in *;
      change (2 + 1) with 3 in *; change (2 + 2) with 4 in *; change (2 + 3) with 5 in *.
    + destruct (wks s) eqn:R; cbn [negb] in CC; cbv iota in CC; [|discriminate].
      destruct (get (board s) (9, 7)) eqn:E1; cbn [is_empty negb orb] in CC; cbv iota in CC; try discriminate.
      destruct (get (board s) (9, 8)) eqn:E2; cbn [is_empty negb orb] in CC; cbv iota in CC; try discriminate.
      destruct (rights_home_r s WKS RH R) as [GK GR]. pose proof (king_at_home s WKS KO RH R) as KL. cbn [right_color king_home rook_home] in *.
      exists White, WKS, WQS, 8, 9, 7, WHITE_KING_SIDE_CASTLE_ALG. cbv zeta. unfold castle_side. auto 12.
    + destruct (wqs s) eqn:R; cbn [negb] in CC; cbv iota in CC; [|discriminate].
      destruct (get (board s) (9, 3)) eqn:E3; cbn [is_empty negb orb] in CC; cbv iota in CC; try discriminate.
      destruct (get (board s) (9, 4)) eqn:E1; cbn [is_empty negb orb] in CC; cbv iota in CC; try discriminate.
      destruct (get (board s) (9, 5)) eqn:E2; cbn [is_empty negb orb] in CC; cbv iota in CC; try discriminate.
      destruct (rights_home_r s WQS RH R) as [GK GR]. pose proof (king_at_home s WQS KO RH R) as KL. cbn [right_color king_home rook_home] in *.
      exists White, WKS, WQS, 4, 2, 5, WHITE_QUEEN_SIDE_CASTLE_ALG. cbv zeta. unfold castle_side. auto 12.
    + destruct (bks s) eqn:R; cbn [negb] in CC; cbv iota in CC; [|discriminate].
      destruct (get (board s) (2, 7)) eqn:E1; cbn [is_empty negb orb] in CC; cbv iota in CC; try discriminate.
      destruct (get (board s) (2, 8)) eqn:E2; cbn [is_empty negb orb] in CC; cbv iota in CC; try discriminate.
      destruct (rights_home_r s BKS RH R) as [GK GR]. pose proof (king_at_home s BKS KO RH R) as KL. cbn [right_color king_home rook_home] in *.
      exists Black, BKS, BQS, 8, 9, 7, BLACK_KING_SIDE_CASTLE_ALG. cbv zeta. unfold castle_side. auto 12.
    + destruct (bqs s) eqn:R; cbn [negb] in CC; cbv iota in CC; [|discriminate].
      destruct (get (board s) (2, 3)) eqn:E3; cbn [is_empty negb orb] in CC; cbv iota in CC; try discriminate.
      destruct (get (board s) (2, 4)) eqn:E1; cbn [is_empty negb orb] in CC; cbv iota in CC; try discriminate.
      destruct (get (board s) (2, 5)) eqn:E2; cbn [is_empty negb orb] in CC; cbv iota in CC; try discriminate.
      destruct (rights_home_r s BQS RH R) as [GK GR]. pose proof (king_at_home s BQS KO RH R) as KL. cbn [right_color king_home rook_home] in *.
      exists Black, BKS, BQS, 4, 2, 5, BLACK_QUEEN_SIDE_CASTLE_ALG. cbv zeta. unfold castle_side. auto 12.
Qed.

(* ---- small facts about the constructors *)
Lemma kings_ok_ext x y :
  board x = board y -> (forall col, king_location x col = king_location y col) -> kings_ok y -> kings_ok x.
Proof. intros B K H col. rewrite B, K. exact (H col). Qed.

Lemma promote_pawn_view nb c a b0 x :
  In x (promote_pawn zt nb c a b0) ->
  exists k, In k PROMOTION_KINDS /\ board x = set (board nb) b0 (Full (mkPiece c k)) /\
            (forall col, king_location x col = king_location nb col) /\ (forall r, right x r = right nb r) /\
            pawn_double_move x = None /\ to_move x = to_move nb.
Proof.
  unfold promote_pawn. intros H. apply in_map_iff in H. destruct H as [k [<- Hk]]. exists k. split; [exact Hk|].
  cbn [kx with_key with_oh with_promo with_last with_board board pawn_double_move to_move].
  rewrite unset_pdm_board. split; [reflexivity|]. split.
  - intros col. rewrite <- (kl_unset_pdm zt nb col). destruct col; reflexivity.
  - split; [intros r; rewrite <- (right_unset_pdm zt nb r); destruct r; reflexivity|].
    split; [apply unset_pdm_none|]. unfold unset_pawn_double_move. destruct (pawn_double_move nb); reflexivity.
Qed.

Lemma to_move_ep_pre s pc sq mov : to_move (ep_pre zt s pc sq mov) = opposite (to_move s).
Proof.
  unfold ep_pre, move_piece, unset_pawn_double_move.
  repeat match goal with |- context [match ?x with _ => _ end] => destruct x end; reflexivity.
Qed.
Lemma right_ep_pre s pc sq mov r : right (ep_pre zt s pc sq mov) r = right s r.
Proof.
  unfold ep_pre. rewrite right_kx, right_with_board, right_move_piece, right_unset_pdm, right_swap_color, right_with_last, right_with_promo.
  reflexivity.
Qed.
Lemma pdm_ep_pre s pc sq mov : pawn_double_move (ep_pre zt s pc sq mov) = None.
Proof.
  unfold ep_pre. cbn [kx with_key with_board pawn_double_move]. unfold move_piece.
  match goal with |- context [match get ?b0 sq with _ => _ end] => destruct (get b0 sq) end;
    cbn [with_key with_board pawn_double_move]; apply unset_pdm_none.
Qed.

Lemma right_castle_successor s c r1 r2 kt alg rf rt r :
  right (castle_successor zt s c r1 r2 kt alg rf rt) r = right s r && negb (castling_eqb r r1) && negb (castling_eqb r r2).
Proof.
  unfold castle_successor. rewrite !right_move_piece, right_with_last, right_set_king, !right_take_away, right_unset_pdm, right_swap_color, right_with_promo.
  reflexivity.
Qed.
Lemma pdm_castle_successor s c r1 r2 kt alg rf rt : pawn_double_move (castle_successor zt s c r1 r2 kt alg rf rt) = None.
Proof.
  unfold castle_successor.
  assert (K : forall X a b0, pawn_double_move (move_piece zt X a b0) = pawn_double_move X).
  { intros X a b0. unfold move_piece. destruct (get (board X) a); reflexivity. }
  rewrite !K. cbn [with_last pawn_double_move].
  assert (P0 : pawn_double_move (unset_pawn_double_move zt (swap_color zt (with_promo s None))) = None) by apply unset_pdm_none.
  unfold set_king, take_away_castling_rights.
  destruct c; repeat match goal with |- context [if ?x then _ else _] => destruct x end; cbn [pawn_double_move with_wk with_bk kx with_key with_right]; exact P0.
Qed.
Lemma to_move_castle_successor s c r1 r2 kt alg rf rt : to_move (castle_successor zt s c r1 r2 kt alg rf rt) = opposite (to_move s).
Proof.
  unfold castle_successor.
  assert (K : forall X a b0, to_move (move_piece zt X a b0) = to_move X).
  { intros X a b0. unfold move_piece. destruct (get (board X) a); reflexivity. }
  rewrite !K. cbn [with_last to_move]. unfold set_king, take_away_castling_rights, unset_pawn_double_move.
  destruct c; repeat match goal with |- context [if ?x then _ else _] => destruct x end;
    repeat match goal with |- context [match ?x with _ => _ end] => destruct x end; reflexivity.
Qed.

Definition wf5 (x : BoardState) : Prop :=
  cells_ok (board x) /\ kings_ok x /\ rights_home x /\ ep_ok_model x /\ ep_row_ok x.

(* ---- ordinary moves and promotions *)
Lemma double_step_facts s pc row col mov :
  pkind pc = Pawn -> In mov (get_moves pc (row, col) (board s) AllMoves) -> Z.abs (row - fst mov) = 2 ->
  mov = (row + 2 * mfw (pcolor pc), col) /\ row = double_row (pcolor pc) /\ get (board s) (row + mfw (pcolor pc), col) = Empty.
Proof.
  intros PK Hmov D. unfold get_moves in Hmov. rewrite PK in Hmov. apply pawn_moves_in in Hmov. cbv zeta in Hmov.
  destruct Hmov as [[E _]|[[E _]|[[E _]|[E [R [E1 _]]]]]]; try (subst mov; cbn [fst] in D; destruct (pcolor pc); cbn [mfw] in D; lia).
  repeat split; assumption.
Qed.

Lemma ordinary_wf s x : pos_ok s AllMoves -> is_ordinary s x -> wf5 x.
Proof.
  intros PO (p & pc & mov & Hp & G & PC & Hmov & Chk & Shape).
  destruct (ordinary_hyps_of_pos_ok s AllMoves pc p mov PO Hp G PC Hmov) as [OH Prow].
  destruct OH as (OK & KO & RH & _ & _ & Hm & Hne & NKm & PD & PCap & KS).
  destruct PO as (_ & _ & _ & EP & _).
  set (pre := moved_pre zt s pc p mov) in *. set (fin := finalise zt pre pc p mov) in *.
  assert (OK' := OK). destruct OK' as (L & Ring & Inner).
  pose proof (is_inner_in_grid _ Hp) as Gp. pose proof (is_inner_in_grid _ Hm) as Gm.
  assert (Bf : board fin = set (set (board s) p Empty) mov (Full pc)).
  { unfold fin. rewrite finalise_board. apply (moved_pre_cells zt s pc p mov G). }
  assert (Cf : cells_ok (board fin)).
  { unfold fin. rewrite finalise_board. now apply moved_pre_cells_ok. }
  assert (Kf : kings_ok fin).
  { apply (kings_ok_ext fin pre); [apply finalise_board|intros col; apply king_location_finalise|].
    now apply moved_pre_kings_ok. }
  assert (Same : forall q, q <> p -> q <> mov -> get (board fin) q = get (board s) q).
  { intros q N1 N2. rewrite Bf, !get_set_other by congruence. reflexivity. }
  assert (RX : forall r, right fin r = right s r && negb (clears_origin pc p r) && negb (clears_target mov r)).
  { intros r. unfold fin. rewrite right_finalise. unfold pre. now rewrite right_moved_pre. }
  assert (Rf : rights_home fin) by (apply (rights_home_after s pc p mov fin RH KO G NKm Same RX)).
  assert (Tf : to_move fin = opposite (to_move s)).
  { unfold fin. rewrite to_move_finalise. apply to_move_moved_pre. }
  assert (Pf : pawn_double_move fin =
               if is_pawn_kind (pkind pc) && (Z.abs (fst p - fst mov) =? 2)
               then Some (match pcolor pc with White => (fst mov + 1, snd mov) | Black => (fst mov - 1, snd mov) end) else None)
    by apply pdm_finalise.
  destruct Shape as [->|(PK & Last & Hx)].
  - (* the plain successor *)
    split; [exact Cf|]. split; [exact Kf|]. split; [exact Rf|].
    assert (EPF : forall t, pawn_double_move fin = Some t ->
              is_inner t = true /\ get (board fin) t = Empty /\
              fst t = (match to_move fin with White => 4 | Black => 7 end) /\
              let v := match to_move fin with White => (fst t + 1, snd t) | Black => (fst t - 1, snd t) end in
              is_inner v = true /\ get (board fin) v = Full (mkPiece (opposite (to_move fin)) Pawn)).
    { intros t D. rewrite Pf in D.
      destruct (is_pawn_kind (pkind pc)) eqn:PKb; cbn [andb] in D; [|discriminate].
      assert (PK : pkind pc = Pawn) by (destruct (pkind pc); try discriminate; reflexivity).
      destruct (Z.eqb_spec (Z.abs (fst p - fst mov)) 2) as [D2|]; [|discriminate].
      destruct p as [row col]. cbn [fst] in D2.
      destruct (double_step_facts s pc row col mov PK Hmov D2) as (Em & Rw & E1).
      rewrite Tf, <- PC.
      assert (Epc : pc = mkPiece (pcolor pc) Pawn) by (rewrite (piece_eta pc), PK; reflexivity).
      assert (Et : t = (row + mfw (pcolor pc), col)).
      { rewrite Em in D. cbn [fst snd] in D. destruct (pcolor pc); cbn [mfw] in *; injection D as <-; f_equal; ring. }
      subst t. cbn [fst snd].
      assert (It : is_inner (row + mfw (pcolor pc), col) = true) by exact (empty_inner (board s) OK _ E1).
      split; [exact It|].
      split.
      { rewrite Same; [exact E1| |]; intros X; [inversion X as [[X1]]|rewrite Em in X; inversion X as [[X1]]];
          destruct (pcolor pc); cbn [mfw] in X1; lia. }
      split.
      { destruct (pcolor pc); cbn [mfw double_row opposite] in *; unfold DOUBLE_ROW_WHITE, DOUBLE_ROW_BLACK in Rw; lia. }
      cbv zeta.
      assert (Ev : (match opposite (pcolor pc) with White => (row + mfw (pcolor pc) + 1, col) | Black => (row + mfw (pcolor pc) - 1, col) end) = mov).
      { rewrite Em. destruct (pcolor pc); cbn [mfw opposite]; f_equal; ring. }
      rewrite Ev. split; [exact Hm|].
      rewrite Bf, get_set_same by (auto; now rewrite set_length). rewrite opposite_involutive. now rewrite Epc at 1. }
    split.
    + intros t D. destruct (EPF t D) as (A & B0 & _ & C). auto.
    + intros t D. apply (EPF t D).
  - (* a promotion *)
    destruct (promote_pawn_view fin (pcolor pc) p mov x Hx) as (k & Hk & Bx & Kx & Rx & Px & Tx).
    assert (NKk : k <> King) by (intros ->; revert Hk; vm_compute; intuition discriminate).
    split; [rewrite Bx; apply cells_ok_set; auto; discriminate|].
    split.
    { apply (kings_ok_update fin x Kf Kx). intros q. rewrite Bx.
      destruct (point_eqb_spec mov q) as [<-|Nq]; [|left; now rewrite get_set_other].
      right. rewrite get_set_same by (auto; apply Cf). rewrite Bf, get_set_same by (auto; now rewrite set_length).
      split; intros col E; [injection E as _ E; congruence|]. rewrite (piece_eta pc), PK in E. discriminate. }
    split.
    { apply (rights_home_after s pc p mov x RH KO G NKm).
      - intros q N1 N2. rewrite Bx, get_set_other by congruence. now apply Same.
      - intros r. rewrite Rx. apply RX. }
    split; [intros t D; congruence|intros t D; congruence].
Qed.

(* ---- en passant *)
Lemma en_passant_wf s x : pos_ok1 s -> is_en_passant s x -> wf5 x.
Proof.
  intros [(OK & KO & RH & EP & NK) ER] (p & pc & dm & Hp & G & PC & PK & D & E & ->).
  destruct (ep_pre_wf zt s pc p dm OK KO EP G Hp PC PK D) as [Cx Kx].
  split; [exact Cx|]. split; [exact Kx|]. split.
  - (* no home square is touched by a capture from the fifth to the sixth rank *)
    apply rights_home_intro. intros r R. rewrite right_ep_pre in R. destruct (rights_home_r s r RH R) as [GK GR].
    destruct p as [row col]. apply ep_geometry in E. destruct E as (_ & Rw & Tg).
    pose proof (ER dm D) as Rd.
    assert (Touched : forall q, (fst q = 9 \/ fst q = 2) -> get (board (ep_pre zt s pc (row, col) dm)) q = get (board s) q).
    { intros q Hq. rewrite (ep_pre_cells zt s pc (row, col) dm G). rewrite <- PC in Rd.
      rewrite !get_set_other; [reflexivity| | |]; intros X; rewrite <- X in Hq; cbn [fst] in Hq;
        destruct (pcolor pc); cbn [ep_row] in *; unfold EP_ROW_WHITE, EP_ROW_BLACK in *; cbn [fst] in Hq; lia. }
    rewrite !Touched; [auto| |]; destruct r; cbn [king_home rook_home fst]; auto.
  - split; intros t Dt; rewrite pdm_ep_pre in Dt; discriminate.
Qed.

(* ---- castling *)
Lemma castling_wf s x : pos_ok s AllMoves -> is_castling s x -> wf5 x.
Proof.
  intros (OK & KO & RH & EP & NK) (c & r1 & r2 & kc & rf & rt & alg & H). cbv zeta in H.
  destruct H as (TM & Side & Rts & KL & GK & GR & EK & ER & _ & ->).
  destruct (castle_successor_wf zt s c r1 r2 kc rf rt alg OK KO KL GK GR EK ER Side) as [Cx Kx].
  destruct (castle_successor_view zt s c r1 r2 kc rf rt alg OK KL GK GR Side) as (_ & _ & _ & _ & _ & V0 & _ & _).
  split; [exact Cx|]. split; [exact Kx|]. split.
  - apply rights_home_intro. intros r R. rewrite right_castle_successor in R.
    apply andb_true_iff in R. destruct R as [R N2]. apply andb_true_iff in R. destruct R as [R N1].
    destruct (rights_home_r s r RH R) as [HK HR].
    (* the right that survives belongs to the other colour, whose home row is untouched *)
    assert (Other : fst (king_home r) <> (match c with White => 9 | Black => 2 end) /\
                    fst (rook_home r) <> (match c with White => 9 | Black => 2 end)).
    { destruct c; destruct Rts as [-> ->]; destruct r; cbn [castling_eqb negb] in N1, N2; try discriminate;
        cbn [king_home rook_home fst]; split; lia. }
    destruct Other as [O1 O2].
    rewrite !V0; [auto| | | | | | | |]; intros X; rewrite X in *; cbn [fst] in *; congruence.
  - split; intros t Dt; rewrite pdm_castle_successor in Dt; discriminate.
Qed.

(* ---- the invariant *)
Lemma pos_ok1_intro x :
  wf5 x -> in_check (abs_placement (board x)) (opposite (to_move x)) = false -> pos_ok1 x.
Proof.
  intros (Cx & Kx & Rx & Ex & Wx) NC. split; [|exact Wx].
  split; [exact Cx|]. split; [exact Kx|]. split; [exact Rx|]. split; [exact Ex|]. now apply no_king_target.
Qed.

Theorem generator_preserves_pos_ok1 s x :
  pos_ok1 s -> In x (generate_moves zt s AllMoves) -> pos_ok1 x.
Proof.
  intros PO1 Hx. assert (PO := proj1 PO1). assert (PO' := PO). destruct PO' as (OK & KO & RH & EP & NK).
  apply pos_ok1_intro.
  - destruct (generate_moves_view s x KO RH Hx) as [V|[V|V]].
    + now apply (ordinary_wf s x).
    + now apply (en_passant_wf s x).
    + now apply (castling_wf s x).
  - (* the mover did not leave his own king attacked: that is the legality test the successor passed *)
    destruct (generated_moves_are_legal zt s x PO Hx) as (mv & Hd & Hl).
    destruct (generate_moves_abs zt s AllMoves x PO Hx) as (mv' & Hd' & HA).
    assert (mv' = mv) by congruence. subst mv'.
    apply legal_moves_in in Hl. destruct Hl as [_ Chk].
    rewrite <- HA in Chk. cbn [abs pos_pl] in Chk.
    assert (T : to_move x = opposite (to_move s)).
    { change (to_move x) with (pos_stm (abs x)). rewrite HA. reflexivity. }
    rewrite T, opposite_involutive. exact Chk.
Qed.

(* every position reached through a chain of generated moves *)
Inductive reachable (s : BoardState) : BoardState -> Prop :=
| reach_refl : reachable s s
| reach_step : forall y x, reachable s y -> In x (generate_moves zt y AllMoves) -> reachable s x.

Theorem reachable_pos_ok1 s x : pos_ok1 s -> reachable s x -> pos_ok1 x.
Proof. intros PO R. induction R as [|y x R IH Hx]; [exact PO|]. exact (generator_preserves_pos_ok1 y x IH Hx). Qed.

End P.

(* ---- an executable test of the hypothesis, for the positions the checks explore *)
Definition ep_row_okb (s : BoardState) : bool :=
  match pawn_double_move s with
  | None => true
  | Some t => fst t =? (match to_move s with White => 4 | Black => 7 end)
  end.

Definition pos_ok1b (s : BoardState) : bool := pos_okb s AllMoves && ep_row_okb s.

Lemma pos_ok1b_ok s : pos_ok1b s = true -> pos_ok1 s.
Proof.
  unfold pos_ok1b. intros H. apply andb_true_iff in H. destruct H as [H1 H2]. split; [now apply pos_okb_ok|].
  intros t D. unfold ep_row_okb in H2. rewrite D in H2. now apply Z.eqb_eq.
Qed.

(* the other route: coherent representation of a legal position *)
Definition rep_legalb (s : BoardState) : bool := wf_cells (board s) && kings_okb s && legal_position (abs s).

Lemma rep_legalb_ok s : rep_legalb s = true -> pos_ok1 s.
Proof.
  unfold rep_legalb. intros H. apply andb_true_iff in H. destruct H as [H H3]. apply andb_true_iff in H. destruct H as [H1 H2].
  apply legal_position_pos_ok1; [now apply wf_cells_ok|now apply kings_okb_ok|exact H3].
Qed.
