(* C15 (with C05 and C01): a printed position is read back as that position, with the key of the
   rules-level hash, a coherent board, and - when each side has one king - coherent king caches. *)
From Walleye Require Import Model.Fen Spec.FenPrint Spec.Abs Proofs.Cells Proofs.FenText Proofs.FenRows
  Proofs.HashProofs Proofs.Ray Proofs.CheckProofs Proofs.AttackGeom.
From Coq Require Import Lia.
Open Scope Z_scope.

(* ---- the characters of the printed fields *)
Definition hi (c : N) : Prop := (32 < c)%N.
Definition hi47 (c : N) : Prop := (47 < c)%N.

Lemma letter_hi pc : hi47 (piece_letter pc).
Proof. destruct pc as [c k]; destruct c, k; unfold hi47; cbn; lia. Qed.

Lemma fen_rank_hi cells : forall run, Forall hi47 (fen_rank cells run).
Proof.
  induction cells as [|c t IH]; intros run; cbn [fen_rank].
  - destruct (N.eqb_spec run 0); [constructor|]. constructor; [unfold hi47; lia|constructor].
  - destruct c as [pc|]; [|apply IH]. apply Forall_app. split.
    + destruct (N.eqb_spec run 0); [constructor|]. constructor; [unfold hi47; lia|constructor].
    + constructor; [apply letter_hi|apply IH].
Qed.

Lemma join_forall (P : N -> Prop) sep l : P sep -> Forall (Forall P) l -> Forall P (join_with sep l).
Proof.
  intros Hs. induction 1 as [|x t Hx Ht IH]; [constructor|]. destruct t as [|y t']; [exact Hx|].
  cbn [join_with]. apply Forall_app. split; [exact Hx|]. constructor; [exact Hs|exact IH].
Qed.

Lemma forall_impl_N (P Q : N -> Prop) l : (forall c, P c -> Q c) -> Forall P l -> Forall Q l.
Proof. intros H. apply Forall_impl. exact H. Qed.

Lemma trim_keep s : Forall (fun c => c <> 10%N) s -> trim_newline s = s.
Proof.
  intros H. unfold trim_newline. destruct (rev s) as [|c r] eqn:E; [reflexivity|].
  assert (Nc : c <> 10%N).
  { rewrite Forall_forall in H. apply H. apply in_rev. rewrite E. now left. }
  destruct c as [|q]; [reflexivity|]. do 4 (try (destruct q as [q|q|]; try reflexivity)). now exfalso.
Qed.

Lemma show_nat_digits n : 0 <= n < 10 ^ 40 -> Forall (fun c => is_ascii_digit c = true) (show_nat n).
Proof.
  intros H. unfold show_nat.
  destruct (dec_digits_spec 40 n [] ltac:(change (Z.of_nat 40) with 40; lia) ltac:(lia)) as (ds & E & _ & Hd & _).
  now rewrite E, app_nil_r.
Qed.

Lemma digit_hi c : is_ascii_digit c = true -> hi c.
Proof. unfold is_ascii_digit, hi. intros H. apply andb_true_iff in H. destruct H as [H _]. apply N.leb_le in H. lia. Qed.

(* ---- the en-passant field *)
Lemma ep_text f r : 0 <= f < 8 -> 0 <= r < 8 ->
  utf8_len [(97 + Z.to_N f)%N; (49 + Z.to_N r)%N] = 2 /\
  point_from_str [(97 + Z.to_N f)%N; (49 + Z.to_N r)%N] = Some (pt_of_sq (f, r)).
Proof.
  intros Hf Hr.
  assert (Ef : In f [0;1;2;3;4;5;6;7]) by (cbn; lia). assert (Er : In r [0;1;2;3;4;5;6;7]) by (cbn; lia).
  cbn [In] in Ef, Er.
  repeat (destruct Ef as [<-|Ef]; [repeat (destruct Er as [<-|Er]; [split; reflexivity|]); contradiction|]). contradiction.
Qed.

(* ---- counting one king *)
Lemma filter_one {A} (f : A -> bool) (l : list A) : length (filter f l) = 1%nat ->
  exists x, In x l /\ f x = true /\ forall y, In y l -> f y = true -> In y [x] \/ False.
Proof. Abort.

Lemma filter_nil_none {A} (f : A -> bool) l : filter f l = [] -> forall y, In y l -> f y = false.
Proof.
  intros E y Hy. destruct (f y) eqn:F; [|reflexivity]. assert (In y (filter f l)) by (apply filter_In; auto). rewrite E in H. contradiction.
Qed.

Lemma filter_single {A} (f : A -> bool) (l : list A) : NoDup l -> length (filter f l) = 1%nat ->
  exists x, In x l /\ f x = true /\ forall y, In y l -> f y = true -> y = x.
Proof.
  induction 1 as [|a t Na Nt IH]; cbn [filter]; [discriminate|].
  destruct (f a) eqn:Fa; cbn [length]; intros H.
  - exists a. split; [now left|]. split; [exact Fa|]. intros y [<-|Hy] Fy; [reflexivity|].
    assert (E : filter f t = []) by (destruct (filter f t); [reflexivity|discriminate]).
    rewrite (filter_nil_none f t E y Hy) in Fy. discriminate.
  - destruct (IH H) as (x & Hx & Fx & U). exists x. split; [now right|]. split; [exact Fx|].
    intros y [<-|Hy] Fy; [congruence|now apply U].
Qed.

(* ---- a placement is its 64 squares *)
Lemma placement_squares (pl : placement) : length pl = 64%nat -> map (pget pl) all_sq = pl.
Proof.
  intros L. do 64 (destruct pl as [|? pl]; [discriminate|]). destruct pl; [|discriminate]. reflexivity.
Qed.

Lemma opt_cell c : opt_of_square (cell_sq c) = c. Proof. destruct c; reflexivity. Qed.

Section F.
Variable zt : ztable.

Definition ranks (pl : placement) : list (list (option piece)) := map (rank_cells pl) [7; 6; 5; 4; 3; 2; 1; 0].
Definition start_loop (k0 : N) : fen_loop := mkLoop all_boundary BOARD_START BOARD_START k0 (0, 0) (0, 0).
Definition loaded (k0 : N) (pl : placement) : fen_loop := write_rows zt (start_loop k0) (ranks pl).

Lemma ranks_len8 pl : Forall len8 (ranks pl).
Proof. unfold ranks. repeat constructor. Qed.

Lemma loaded_length k0 pl : length (fl_board (loaded k0 pl)) = 144%nat.
Proof. unfold loaded. rewrite write_rows_length. reflexivity. Qed.

Lemma loaded_get k0 pl f r : on8 (f, r) = true -> get (fl_board (loaded k0 pl)) (pt_of_sq (f, r)) = cell_sq (pget pl (f, r)).
Proof.
  intros On. unfold on8 in On. cbn [fst snd] in On. rewrite !andb_true_iff, !Z.leb_le, !Z.ltb_lt in On.
  unfold pt_of_sq, BOARD_END, BOARD_START. cbn [fst snd].
  assert (Hr0 : 0 <= fl_row (start_loop k0)) by (cbn [start_loop fl_row]; unfold BOARD_START; lia).
  assert (Hn0 : fl_row (start_loop k0) + Z.of_nat (length (ranks pl)) <= 12) by (cbn [start_loop fl_row ranks map length]; unfold BOARD_START; lia).
  assert (Hi0 : 0 <= 7 - r < Z.of_nat (length (ranks pl))) by (cbn [ranks map length]; lia).
  pose proof (write_rows_written zt (ranks pl) (start_loop k0) (7 - r) f eq_refl eq_refl Hr0 Hn0 (ranks_len8 pl) Hi0 ltac:(lia)) as W.
  cbn [start_loop fl_row BOARD_START] in W. unfold BOARD_START in W.
  replace (10 - 1 - r) with (2 + (7 - r)) by lia. replace (f + 2) with (2 + f) by lia. unfold loaded. rewrite W. f_equal.
  assert (Ef : In f [0;1;2;3;4;5;6;7]) by (cbn; lia). assert (Er : In r [0;1;2;3;4;5;6;7]) by (cbn; lia).
  cbn [In] in Ef, Er.
  repeat (destruct Ef as [<-|Ef]; [repeat (destruct Er as [<-|Er]; [reflexivity|]); contradiction|]). contradiction.
Qed.

Lemma loaded_ring k0 pl p : is_inner p = false -> get (fl_board (loaded k0 pl)) p = Boundary.
Proof.
  intros I. assert (N : ~ (2 <= fst p < 10 /\ 2 <= snd p < 10)) by (rewrite <- is_inner_spec; congruence).
  unfold loaded. rewrite write_rows_untouched; [apply get_all_boundary|reflexivity|apply ranks_len8|].
  cbn [start_loop fl_row ranks map length]. unfold BOARD_START. lia.
Qed.

Lemma inner_is_sq p : is_inner p = true -> exists q, on8 q = true /\ p = pt_of_sq q.
Proof.
  intros I. destruct (inner_sq_in_all_sq p I) as [Hq E]. exists (sq_of_pt p). split; [now apply in_all_sq_on8|now rewrite E].
Qed.

Lemma loaded_cells_ok k0 pl : cells_ok (fl_board (loaded k0 pl)).
Proof.
  split; [apply loaded_length|]. split; [intros p; apply loaded_ring|].
  intros p I. destruct (inner_is_sq p I) as ([f r] & On & ->). rewrite loaded_get by exact On. destruct (pget pl (f, r)); discriminate.
Qed.

Lemma loaded_abs k0 pl : length pl = 64%nat -> abs_placement (fl_board (loaded k0 pl)) = pl.
Proof.
  intros L. rewrite <- (placement_squares pl L) at 2. unfold abs_placement. apply map_ext_in.
  intros [f r] Hq. rewrite loaded_get by now apply in_all_sq_on8. apply opt_cell.
Qed.

Lemma empty_hash : hash_placement zt (abs_placement all_boundary) = 0%N.
Proof. assert (E : abs_placement all_boundary = repeat None 64) by (vm_compute; reflexivity). rewrite E. reflexivity. Qed.

Lemma loaded_linv k0 pl : linv zt k0 (loaded k0 pl).
Proof.
  unfold loaded. apply write_rows_linv; try reflexivity; try apply ranks_len8; cbn [start_loop fl_row fl_col fl_board ranks map length]; unfold BOARD_START; try lia.
  - split; [cbn [start_loop fl_key fl_board]; now rewrite empty_hash, N.lxor_0_r|].
    split; left; intros p; cbn [start_loop fl_board]; rewrite get_all_boundary; discriminate.
  - intros r c _ pc. rewrite get_all_boundary. discriminate.
Qed.

Lemma loaded_key k0 pl : length pl = 64%nat -> fl_key (loaded k0 pl) = N.lxor k0 (hash_placement zt pl).
Proof. intros L. destruct (loaded_linv k0 pl) as [K _]. now rewrite K, loaded_abs. Qed.

(* one king of a colour on the placement: the cache points at it, and nothing else is that king *)
Lemma loaded_king k0 pl col : length pl = 64%nat -> count_piece pl (mkPiece col King) = 1%nat ->
  get (fl_board (loaded k0 pl)) (cache col (loaded k0 pl)) = Full (mkPiece col King) /\
  forall p, get (fl_board (loaded k0 pl)) p = Full (mkPiece col King) -> p = cache col (loaded k0 pl).
Proof.
  intros L C. unfold count_piece in C. apply (filter_single _ _ all_sq_nodup) in C. destruct C as ([xf xr] & Hx & Fx & U).
  assert (G : forall q, on8 q = true -> get (fl_board (loaded k0 pl)) (pt_of_sq q) = Full (mkPiece col King) -> q = (xf, xr)).
  { intros [f r] On Gq. apply U; [now apply on8_in_all_sq|]. rewrite loaded_get in Gq by exact On.
    destruct (pget pl (f, r)) as [x|]; [|discriminate Gq]. cbn [cell_sq] in Gq. assert (x = mkPiece col King) by congruence. subst x. apply piece_eqb_refl. }
  assert (X : get (fl_board (loaded k0 pl)) (pt_of_sq (xf, xr)) = Full (mkPiece col King)).
  { rewrite loaded_get by now apply in_all_sq_on8. destruct (pget pl (xf, xr)) as [x|]; [|discriminate Fx].
    cbv beta iota in Fx. destruct (piece_eqb_spec x (mkPiece col King)) as [E|NE]; [subst x; reflexivity|discriminate Fx]. }
  assert (P : forall p, get (fl_board (loaded k0 pl)) p = Full (mkPiece col King) -> p = pt_of_sq (xf, xr)).
  { intros p Gp. destruct (is_inner p) eqn:I; [|rewrite loaded_ring in Gp by exact I; discriminate Gp].
    destruct (inner_is_sq p I) as (q & On & ->). now rewrite (G q On Gp). }
  assert (K : get (fl_board (loaded k0 pl)) (cache col (loaded k0 pl)) = Full (mkPiece col King)).
  { destruct (loaded_linv k0 pl) as (_ & KW & KB). assert (KI : kinv col (loaded k0 pl)) by (destruct col; assumption).
    destruct KI as [No|Yes]; [exfalso; now apply (No _ X)|exact Yes]. }
  split; [exact K|]. intros p Gp. now rewrite (P p Gp), (P _ K).
Qed.

(* ---- the fields of the printed string *)
Definition stm_char (c : color) : N := match c with White => 119%N | Black => 98%N end.
Definition rights_chars (wk wq bk bq : bool) : str :=
  (if wk then [75%N] else []) ++ (if wq then [81%N] else []) ++ (if bk then [107%N] else []) ++ (if bq then [113%N] else []).
Definition rights_field (wk wq bk bq : bool) : str :=
  match rights_chars wk wq bk bq with [] => [45%N] | _ => rights_chars wk wq bk bq end.
Definition ep_field (e : option sq) : str :=
  match e with Some (f, r) => [(97 + Z.to_N f)%N; (49 + Z.to_N r)%N] | None => [45%N] end.
Definition rows_of (pl : placement) : list str := map (fun c => fen_rank c 0%N) (ranks pl).

Lemma print_fen_fields p h f :
  print_fen p h f = join_with 32%N [join_with 47%N (rows_of (pos_pl p)); [stm_char (pos_stm p)];
                                    rights_field (pos_wk p) (pos_wq p) (pos_bk p) (pos_bq p); ep_field (pos_ep p);
                                    show_nat h; show_nat f].
Proof. reflexivity. Qed.

Lemma stm_read c : (if str_eqb [stm_char c] [119%N] then Ok White else if str_eqb [stm_char c] [98%N] then Ok Black else Err 2) = Ok c.
Proof. destruct c; reflexivity. Qed.

Lemma rights_read wk wq bk bq :
  has_char (rights_field wk wq bk bq) 75 = wk /\ has_char (rights_field wk wq bk bq) 81 = wq /\
  has_char (rights_field wk wq bk bq) 107 = bk /\ has_char (rights_field wk wq bk bq) 113 = bq.
Proof. destruct wk, wq, bk, bq; repeat split; reflexivity. Qed.

Lemma rights_hi wk wq bk bq : Forall hi (rights_field wk wq bk bq).
Proof. destruct wk, wq, bk, bq; cbn; repeat constructor. Qed.

Lemma rows_hi pl : Forall (Forall hi47) (rows_of pl).
Proof. unfold rows_of. apply Forall_forall. intros r Hr. apply in_map_iff in Hr. destruct Hr as (c & <- & _). apply fen_rank_hi. Qed.

Lemma rows_split pl : split_on 47 (join_with 47%N (rows_of pl)) = rows_of pl.
Proof.
  apply split_join; [discriminate|]. apply (Forall_impl _ (P := Forall hi47)); [|apply rows_hi].
  intros r. apply Forall_impl. unfold hi47. intros c H E. subst c. lia.
Qed.

Definition ep_wf (e : option sq) : Prop := match e with Some (f, r) => 0 <= f < 8 /\ 0 <= r < 8 | None => True end.

Lemma fields_hi p h f : ep_wf (pos_ep p) -> 0 <= h < 10 ^ 40 -> 0 <= f < 10 ^ 40 ->
  Forall (Forall hi) [join_with 47%N (rows_of (pos_pl p)); [stm_char (pos_stm p)];
                      rights_field (pos_wk p) (pos_wq p) (pos_bk p) (pos_bq p); ep_field (pos_ep p); show_nat h; show_nat f].
Proof.
  intros He Hh Hf. repeat constructor.
  - apply join_forall; [unfold hi; lia|]. apply (Forall_impl _ (P := Forall hi47)); [|apply rows_hi].
    intros r. apply Forall_impl. unfold hi, hi47. lia.
  - unfold hi. destruct (pos_stm p); cbn; lia.
  - apply rights_hi.
  - destruct (pos_ep p) as [[ef er]|]; cbn [ep_field]; repeat constructor; unfold hi; lia.
  - apply (Forall_impl _ digit_hi). now apply show_nat_digits.
  - apply (Forall_impl _ digit_hi). now apply show_nat_digits.
Qed.

Definition stm_key (c : color) : N := match c with Black => z_black zt | White => 0%N end.

(* the state the loader builds from the printed position *)
Definition loaded_state (p : position) : BoardState :=
  let F := loaded (stm_key (pos_stm p)) (pos_pl p) in
  let k1 := match pos_ep p with Some e => N.lxor (fl_key F) (z_ep zt (snd (pt_of_sq e))) | None => fl_key F end in
  mkBoard (fl_board F) (pos_stm p) (option_map pt_of_sq (pos_ep p)) (fl_wk F) (fl_bk F)
          (pos_wk p) (pos_wq p) (pos_bk p) (pos_bq p) 0 None None
          (xor_if (pos_bq p) (xor_if (pos_bk p) (xor_if (pos_wq p) (xor_if (pos_wk p) k1 (z_castle zt WKS)) (z_castle zt WQS)) (z_castle zt BKS)) (z_castle zt BQS)).

Lemma bits_small : 2 ^ FEN_HALFMOVE_BITS < 10 ^ 40 /\ 2 ^ FEN_FULLMOVE_BITS < 10 ^ 40.
Proof. split; reflexivity. Qed.

Theorem from_fen_print p h f :
  ep_wf (pos_ep p) -> 0 <= h < 2 ^ FEN_HALFMOVE_BITS -> 0 <= f < 2 ^ FEN_FULLMOVE_BITS ->
  from_fen zt (print_fen p h f) = Ok (loaded_state p).
Proof.
  intros He Hh Hf. destruct bits_small as [B1 B2].
  pose proof (fields_hi p h f He ltac:(lia) ltac:(lia)) as HI.
  rewrite print_fen_fields. unfold from_fen.
  rewrite trim_keep.
  2:{ apply join_forall; [discriminate|]. revert HI. apply Forall_impl. intros r. apply Forall_impl. unfold hi. intros c H E. subst c. lia. }
  rewrite split_join.
  2:{ discriminate. }
  2:{ revert HI. apply Forall_impl. intros r. apply Forall_impl. unfold hi. intros c H E. subst c. lia. }
  cbn [length Nat.eqb negb nth_res nth_error res_bind].
  rewrite stm_read. cbn [res_bind].
  rewrite (show_nat_parse FEN_HALFMOVE_BITS h) by lia. rewrite (show_nat_parse FEN_FULLMOVE_BITS f) by lia.
  rewrite rows_split. change (length (rows_of (pos_pl p))) with 8%nat. cbn [Nat.eqb negb].
  unfold rows_of. rewrite fen_rows_write; [|apply ranks_len8|reflexivity|unfold BOARD_START; cbn [fl_row]; lia|unfold BOARD_START; cbn [fl_row ranks map length]; lia].
  cbn [res_bind].
  change (write_rows zt (mkLoop all_boundary BOARD_START BOARD_START
            match pos_stm p with White => 0%N | Black => z_black zt end (0, 0) (0, 0)) (ranks (pos_pl p)))
    with (loaded (stm_key (pos_stm p)) (pos_pl p)).
  destruct (rights_read (pos_wk p) (pos_wq p) (pos_bk p) (pos_bq p)) as (R1 & R2 & R3 & R4).
  unfold loaded_state.
  destruct (pos_ep p) as [[ef er]|]; cbn [ep_field ep_wf option_map] in *.
  - destruct (ep_text ef er ltac:(lia) ltac:(lia)) as [U P]. rewrite U, P. cbn [Z.eqb Pos.eqb negb res_bind]. rewrite R1, R2, R3, R4. reflexivity.
  - change (utf8_len [45%N]) with 1. change (str_eqb [45%N] [45%N]) with true. cbn [Z.eqb negb res_bind]. rewrite R1, R2, R3, R4. reflexivity.
Qed.

Theorem loaded_state_abs p : length (pos_pl p) = 64%nat -> ep_wf (pos_ep p) -> abs (loaded_state p) = p.
Proof.
  intros L He. destruct p as [pl stm wk wq bk bq ep]. cbn [pos_pl pos_ep] in *. unfold abs, loaded_state.
  cbn [board to_move wks wqs bks bqs pawn_double_move pos_pl pos_stm pos_wk pos_wq pos_bk pos_bq pos_ep].
  rewrite loaded_abs by exact L. f_equal. destruct ep as [[ef er]|]; cbn [option_map]; [|reflexivity].
  f_equal. unfold sq_of_pt, pt_of_sq, BOARD_START, BOARD_END. cbn [fst snd]. f_equal; lia.
Qed.

Theorem loaded_state_key p : length (pos_pl p) = 64%nat -> ep_wf (pos_ep p) -> key_ok zt (loaded_state p).
Proof.
  intros L He. unfold key_ok. rewrite (loaded_state_abs p L He), hash_flat.
  unfold loaded_state. cbn [zobrist_key]. rewrite loaded_key by exact L.
  unfold stm_key, stm_term, right_term, ep_term, xor_if.
  destruct (pos_stm p), (pos_wk p), (pos_wq p), (pos_bk p), (pos_bq p), (pos_ep p) as [[ef er]|];
    unfold pt_of_sq; cbn [fst snd]; xor_solve.
Qed.

Theorem loaded_state_cells p : cells_ok (board (loaded_state p)).
Proof. apply loaded_cells_ok. Qed.

Theorem loaded_state_kings p : length (pos_pl p) = 64%nat ->
  count_piece (pos_pl p) (mkPiece White King) = 1%nat -> count_piece (pos_pl p) (mkPiece Black King) = 1%nat ->
  kings_ok (loaded_state p).
Proof.
  intros L CW CB col. unfold loaded_state, king_location. cbn [board white_king_location black_king_location].
  destruct col; [apply (loaded_king _ _ White L CW)|apply (loaded_king _ _ Black L CB)].
Qed.

End F.
