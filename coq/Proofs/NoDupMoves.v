(* C01, last clause: no move appears twice in the generated list. *)
From Walleye Require Import Model.Successor Spec.Abs Proofs.Cells Proofs.Ray Proofs.HashProofs Proofs.AttackGeom Proofs.AbsSet
  Proofs.KeyInvariant Proofs.CheckProofs Proofs.MoveGenProofs Proofs.GenShape Proofs.SuccessorAbs Proofs.GenerateAbs
  Proofs.SuccessorWf Proofs.PseudoLegal Proofs.LegalMoves.
Open Scope Z_scope.

(* ---- lists *)
Lemma NoDup_app_intro {A} (l l' : list A) :
  NoDup l -> NoDup l' -> (forall x, In x l -> In x l' -> False) -> NoDup (l ++ l').
Proof.
  induction l as [|a l IH]; intros H1 H2 D; cbn [app]; [exact H2|].
  inversion H1 as [|a0 l0 Na Nl]; subst. constructor.
  - intros Hin. apply in_app_or in Hin. destruct Hin as [Hin|Hin]; [contradiction|]. apply (D a); [left; reflexivity|exact Hin].
  - apply IH; auto. intros x Hx Hx'. apply (D x); [right; exact Hx|exact Hx'].
Qed.

Lemma NoDup_flat_map_disjoint {A B} (f : A -> list B) (l : list A) :
  NoDup l -> (forall a, In a l -> NoDup (f a)) ->
  (forall a a' x, In a l -> In a' l -> a <> a' -> In x (f a) -> In x (f a') -> False) ->
  NoDup (flat_map f l).
Proof.
  induction l as [|a l IH]; intros Hl Hf D; cbn [flat_map]; [constructor|].
  inversion Hl as [|a0 l0 Na Nl]; subst. apply NoDup_app_intro.
  - apply Hf. left. reflexivity.
  - apply IH; auto.
    + intros a' Ha'. apply Hf. right. exact Ha'.
    + intros a1 a2 x H1 H2. apply D; right; assumption.
  - intros x Hx Hx'. apply in_flat_map in Hx'. destruct Hx' as [a' [Ha' Hx']].
    apply (D a a' x); auto; [left; reflexivity|right; exact Ha'|]. intros ->. contradiction.
Qed.

Lemma map_flat_map {A B C} (g : B -> C) (f : A -> list B) l : map g (flat_map f l) = flat_map (fun a => map g (f a)) l.
Proof. induction l as [|a l IH]; cbn [flat_map map]; [reflexivity|]. now rewrite map_app, IH. Qed.

(* a boolean duplicate test for concrete direction tables *)
Fixpoint nodupb (l : list point) : bool :=
  match l with [] => true | x :: t => negb (existsb (point_eqb x) t) && nodupb t end.
Lemma nodupb_sound l : nodupb l = true -> NoDup l.
Proof.
  induction l as [|x t IH]; intros H; [constructor|]. cbn [nodupb] in H. apply andb_true_iff in H. destruct H as [H1 H2].
  constructor; [|now apply IH]. intros Hin. apply negb_true_iff in H1.
  assert (existsb (point_eqb x) t = true) by (apply existsb_exists; exists x; split; [exact Hin|apply point_eqb_refl]). congruence.
Qed.

Lemma tables_nodup :
  NoDup KNIGHT_CORDS /\ NoDup king_offsets /\ NoDup ROOK_DIRS_GEN /\ NoDup BISHOP_DIRS_GEN /\ NoDup (ROOK_DIRS_GEN ++ BISHOP_DIRS_GEN).
Proof. repeat split; apply nodupb_sound; vm_compute; reflexivity. Qed.

Lemma padd_inj p d d' : padd p d = padd p d' -> d = d'.
Proof. unfold padd. destruct p, d, d'; cbn [fst snd]. intros H. inversion H. f_equal; lia. Qed.

(* ---- targets of one piece are pairwise distinct *)
Section T.
Variable b : cells.

Lemma steps_NoDup (L : list point) c p : NoDup L -> NoDup (flat_map (fun d => step_target b c AllMoves (padd p d)) L).
Proof.
  intros HL. apply NoDup_flat_map_disjoint; [exact HL| |].
  - intros d _. unfold step_target. destruct (is_empty_or_color _ _); cbn [mode_all]; repeat constructor; intros [].
  - intros d d' x _ _ Hne H1 H2. apply step_target_in in H1, H2. destruct H1 as [-> _]. destruct H2 as [E _].
    apply Hne. now apply padd_inj in E.
Qed.

Lemma at_dist_ne p d k : d <> (0, 0) -> 0 <= k -> at_dist (padd p d) d k <> p.
Proof.
  intros Hd Hk E. rewrite at_dist_padd in E. unfold padd, pmul in E. destruct p as [r c], d as [d1 d2]. cbn [fst snd] in E.
  inversion E as [[E1 E2]]. assert (Z1 : (k + 1) * d1 = 0) by lia. assert (Z2 : (k + 1) * d2 = 0) by lia.
  apply Z.mul_eq_0 in Z1, Z2. apply Hd. f_equal; lia.
Qed.

Lemma ray_NoDup fuel d enemy : d <> (0, 0) -> forall p, NoDup (ray fuel b p d AllMoves enemy).
Proof.
  intros Hd. induction fuel as [|f IH]; intros p; cbn [ray]; [constructor|].
  cbn [mode_all]. destruct (is_empty (get b p)).
  - cbn [app]. constructor; [|apply IH]. intros Hin. apply ray_in in Hin. destruct Hin as [k [Hk [E _]]].
    symmetry in E. revert E. apply at_dist_ne; [exact Hd|lia].
  - destruct (is_color (get b p) enemy); repeat constructor. intros [].
Qed.

Lemma unit_dir_cases d : unit_dir d ->
  (fst d = 0 \/ fst d = 1 \/ fst d = -1) /\ (snd d = 0 \/ snd d = 1 \/ snd d = -1) /\ d <> (0, 0).
Proof. intros H. exact H. Qed.

Lemma rays_disjoint p d d' k k' : unit_dir d -> unit_dir d' -> d <> d' -> 0 <= k -> 0 <= k' ->
  at_dist (padd p d) d k = at_dist (padd p d') d' k' -> False.
Proof.
  intros (F & S & N) (F' & S' & N') Hne Hk Hk' E. rewrite !at_dist_padd in E. unfold padd, pmul in E.
  destruct p as [r c], d as [d1 d2], d' as [e1 e2]. cbn [fst snd] in *. inversion E as [[E1 E2]].
  apply Hne.
  destruct F as [->|[->| ->]], S as [->|[->| ->]], F' as [->|[->| ->]], S' as [->|[->| ->]];
    try (exfalso; apply N; reflexivity); try (exfalso; apply N'; reflexivity); try reflexivity; exfalso; lia.
Qed.

Lemma slide_NoDup (dirs : list point) pc p : NoDup dirs -> Forall unit_dir dirs -> NoDup (slide dirs pc p b AllMoves).
Proof.
  intros HL HU. rewrite Forall_forall in HU. unfold slide. apply NoDup_flat_map_disjoint; [exact HL| |].
  - intros d Hd. apply ray_NoDup. apply (HU d Hd).
  - intros d d' x Hd Hd' Hne H1 H2. apply ray_in in H1, H2.
    destruct H1 as [k [Hk [-> _]]]. destruct H2 as [k' [Hk' [E _]]].
    apply (rays_disjoint p d d' k k' (HU d Hd) (HU d' Hd') Hne); [lia|lia|exact E].
Qed.

Lemma pawn_moves_NoDup pc row col : NoDup (pawn_moves pc (row, col) b AllMoves).
Proof.
  assert (D : forall (x1 x2 x3 x4 : point) (c1 c2 c3 c4 : bool),
             x1 <> x2 -> x1 <> x3 -> x1 <> x4 -> x2 <> x3 -> x2 <> x4 -> x3 <> x4 ->
             NoDup ((if c1 then [x1] else []) ++ (if c2 then [x2] else []) ++ (if c3 then x3 :: (if c4 then [x4] else []) else []))).
  { intros x1 x2 x3 x4 c1 c2 c3 c4 N12 N13 N14 N23 N24 N34.
    destruct c1, c2, c3, c4; cbn [app]; repeat (constructor; [cbn [In]; intuition congruence|]); constructor. }
  unfold pawn_moves. destruct (pcolor pc); cbn [mode_all andb]; apply D; intros E; inversion E; lia.
Qed.

Lemma get_moves_NoDup pc p : NoDup (get_moves pc p b AllMoves).
Proof.
  destruct tables_nodup as (NK & NG & NR & NB & NQ). destruct dirs_are_unit as (_ & _ & UR & UB).
  unfold get_moves. destruct (pkind pc).
  - destruct p as [row col]. apply pawn_moves_NoDup.
  - now apply steps_NoDup.
  - now apply slide_NoDup.
  - now apply slide_NoDup.
  - unfold queen_moves, rook_moves, bishop_moves, slide. rewrite <- flat_map_app.
    apply (slide_NoDup (ROOK_DIRS_GEN ++ BISHOP_DIRS_GEN) pc p NQ). apply Forall_app. split; assumption.
  - now apply steps_NoDup.
Qed.

End T.

(* ---- descriptors *)
Lemma sq_of_pt_inj p p' : sq_of_pt p = sq_of_pt p' -> p = p'.
Proof. intros H. rewrite <- (pt_sq p), <- (pt_sq p'). now rewrite H. Qed.

Lemma inner_points_NoDup : NoDup inner_points.
Proof. apply nodupb_sound. vm_compute. reflexivity. Qed.

Section D.
Variable zt : ztable.

Lemma desc_successors s pc sq mov x :
  In x (successors_of_move zt s pc sq mov) -> exists pr, desc x = Some (mkMove (sq_of_pt sq) (sq_of_pt mov) pr).
Proof.
  intros H. destruct (successors_of_move_desc zt s pc sq mov x H) as [HL _]. unfold desc. rewrite HL. eexists. reflexivity.
Qed.

Lemma promote_pawn_descs nb c a b0 :
  map desc (promote_pawn zt nb c a b0) = map (fun k => Some (mkMove (sq_of_pt a) (sq_of_pt b0) (Some k))) PROMOTION_KINDS.
Proof. unfold promote_pawn. rewrite map_map. apply map_ext. intros k. reflexivity. Qed.

Lemma NoDup_desc_successors s pc sq mov : NoDup (map desc (successors_of_move zt s pc sq mov)).
Proof.
  assert (P : forall nb c, NoDup (map desc (promote_pawn zt nb c sq mov))).
  { intros nb c. rewrite promote_pawn_descs. unfold PROMOTION_KINDS. cbn [map].
    repeat (constructor; [cbn [In]; intuition discriminate|]). constructor. }
  unfold successors_of_move. destruct (moved_board zt s pc sq mov) as [nb|]; [|constructor].
  destruct (_ && _ && _); [apply P|]. destruct (_ && _ && _); [apply P|]. cbn [map]. repeat constructor. intros [].
Qed.

Lemma desc_ep s pc sq x :
  In x (en_passant_successor zt s pc sq) ->
  exists dm, pawn_double_move s = Some dm /\ pkind pc = Pawn /\ pawn_moves_en_passant pc sq s = Some dm /\
             desc x = Some (mkMove (sq_of_pt sq) (sq_of_pt dm) None).
Proof.
  intros H. destruct (en_passant_successor_desc zt s pc sq x H) as [HP [mov [HL HD]]].
  rewrite en_passant_successor_pre in H.
  destruct (pawn_double_move s) as [dm|] eqn:D; [|contradiction]. injection HD as ->.
  destruct (pkind pc) eqn:PK; try contradiction.
  destruct (pawn_moves_en_passant pc sq s) as [mov|] eqn:E; [|contradiction].
  assert (mov = dm). { destruct sq as [row col]. apply ep_geometry in E. destruct E as [E _]. congruence. }
  subst mov. exists dm. repeat split; auto. now apply desc_of.
Qed.

Lemma NoDup_desc_ep s pc sq : NoDup (map desc (en_passant_successor zt s pc sq)).
Proof.
  rewrite en_passant_successor_pre. destruct (pawn_double_move s); [|constructor]. destruct (pkind pc); try constructor.
  destruct (pawn_moves_en_passant pc sq s); [|constructor]. destruct (negb _); cbn [map]; repeat constructor. intros [].
Qed.

Lemma NoDup_desc_piece s pc p :
  ep_ok_model s -> get (board s) p = Full pc ->
  NoDup (map desc (generate_moves_for_piece zt pc s p AllMoves)).
Proof.
  intros EP G. unfold generate_moves_for_piece. rewrite map_app, map_flat_map. apply NoDup_app_intro.
  - apply NoDup_flat_map_disjoint; [apply get_moves_NoDup|intros; apply NoDup_desc_successors|].
    intros mov mov' y _ _ Hne H1 H2. apply in_map_iff in H1, H2.
    destruct H1 as [x [<- Hx]]. destruct H2 as [x' [E Hx']].
    destruct (desc_successors s pc p mov x Hx) as [pr Hd]. destruct (desc_successors s pc p mov' x' Hx') as [pr' Hd'].
    rewrite Hd, Hd' in E. apply Hne. apply sq_of_pt_inj. congruence.
  - apply NoDup_desc_ep.
  - intros y H1 H2. apply in_flat_map in H1. destruct H1 as [mov [Hmov H1]]. apply in_map_iff in H1, H2.
    destruct H1 as [x [<- Hx]]. destruct H2 as [x' [E Hx']].
    destruct (desc_successors s pc p mov x Hx) as [pr Hd].
    destruct (desc_ep s pc p x' Hx') as (dm & D & PK & Eg & Hd').
    rewrite Hd, Hd' in E. assert (mov = dm) by (apply sq_of_pt_inj; congruence). subst mov.
    destruct (EP dm D) as (_ & Gt & _).
    destruct p as [row col]. apply ep_geometry in Eg. destruct Eg as (_ & _ & Tg).
    unfold get_moves in Hmov. rewrite PK in Hmov. apply pawn_moves_in in Hmov. cbv zeta in Hmov.
    destruct Hmov as [[_ C]|[[_ C]|[[E' _]|[E' _]]]].
    + rewrite Gt in C. discriminate.
    + rewrite Gt in C. discriminate.
    + rewrite E' in Tg. destruct Tg as [T|T]; inversion T; lia.
    + rewrite E' in Tg. destruct Tg as [T|T]; inversion T; destruct (pcolor pc); cbn [mfw] in *; lia.
Qed.

Lemma desc_from_piece s pc p x :
  In x (generate_moves_for_piece zt pc s p AllMoves) -> exists mv, desc x = Some mv /\ mfrom mv = sq_of_pt p.
Proof.
  intros H. unfold generate_moves_for_piece in H. apply in_app_or in H. destruct H as [H|H].
  - apply in_flat_map in H. destruct H as [mov [_ H]]. destruct (desc_successors s pc p mov x H) as [pr Hd]. eexists. split; [exact Hd|reflexivity].
  - destruct (desc_ep s pc p x H) as (dm & _ & _ & _ & Hd). eexists. split; [exact Hd|reflexivity].
Qed.

(* ---- castling descriptors *)
Lemma castle_desc_val s c r1 r2 kt (alg : mv2) rf rt :
  desc (castle_successor zt s c r1 r2 kt alg rf rt) = Some (mkMove (sq_of_pt (fst alg)) (sq_of_pt (snd alg)) None).
Proof. destruct alg as [a b0]. apply desc_of; apply (castle_successor_desc zt). Qed.

Lemma NoDup_desc_castles s : NoDup (map desc (generate_castling_moves zt s)).
Proof.
  unfold generate_castling_moves.
  repeat match goal with |- context [if ?c then _ else _] => destruct c end;
    cbn [app map]; rewrite ?castle_desc_val; vm_compute;
    repeat (constructor; [cbn [In]; intuition discriminate|]); constructor.
Qed.

(* a castling move starts on the king's home square, where the mover's king stands, and goes two files *)
Lemma castle_desc_shape s x :
  rights_home s -> In x (generate_castling_moves zt s) ->
  exists r0 kc c, desc x = Some (mkMove (sq_of_pt (r0, 6)) (sq_of_pt (r0, kc)) None) /\ (kc = 8 \/ kc = 4) /\
                  get (board s) (r0, 6) = Full (mkPiece c King).
Proof.
  intros RH H. unfold generate_castling_moves in H.
  repeat (apply in_app_or in H; destruct H as [H|H]);
    match type of H with In x (if ?c then _ else _) => destruct c eqn:Cond; [|contradiction] end;
    destruct H as [<-|[]]; apply andb_true_iff in Cond; destruct Cond as [_ CC];
    unfold can_castle, can_castle_white_king_side, can_castle_white_queen_side, can_castle_black_king_side, can_castle_black_queen_side in CC.
  - destruct (wks s) eqn:R; [|discriminate]. destruct (rights_home_r s WKS RH R) as [GK _]. cbn [king_home right_color] in GK.
    exists 9, 8, White. split; [apply castle_desc_val|auto].
  - destruct (wqs s) eqn:R; [|discriminate]. destruct (rights_home_r s WQS RH R) as [GK _]. cbn [king_home right_color] in GK.
    exists 9, 4, White. split; [apply castle_desc_val|auto].
  - destruct (bks s) eqn:R; [|discriminate]. destruct (rights_home_r s BKS RH R) as [GK _]. cbn [king_home right_color] in GK.
    exists 2, 8, Black. split; [apply castle_desc_val|auto].
  - destruct (bqs s) eqn:R; [|discriminate]. destruct (rights_home_r s BQS RH R) as [GK _]. cbn [king_home right_color] in GK.
    exists 2, 4, Black. split; [apply castle_desc_val|auto].
Qed.

(* no move appears twice *)
Theorem generated_moves_NoDup s : pos_ok s AllMoves -> NoDup (map desc (generate_moves zt s AllMoves)).
Proof.
  intros (OK & KO & RH & EP & NK). unfold generate_moves. cbn [mode_all]. rewrite map_app, map_flat_map. apply NoDup_app_intro.
  - apply NoDup_flat_map_disjoint; [apply inner_points_NoDup| |].
    + intros p _. destruct (get (board s) p) as [|pc|] eqn:G; try constructor.
      destruct (color_eqb (pcolor pc) (to_move s)); [|constructor]. now apply NoDup_desc_piece.
    + intros p p' y _ _ Hne H1 H2. apply in_map_iff in H1, H2. destruct H1 as [x [<- Hx]]. destruct H2 as [x' [E Hx']].
      destruct (get (board s) p) as [|pc|]; try contradiction. destruct (color_eqb (pcolor pc) (to_move s)); [|contradiction].
      destruct (get (board s) p') as [|pc'|]; try contradiction. destruct (color_eqb (pcolor pc') (to_move s)); [|contradiction].
      destruct (desc_from_piece s pc p x Hx) as (mv & Hd & Hf). destruct (desc_from_piece s pc' p' x' Hx') as (mv' & Hd' & Hf').
      apply Hne. apply sq_of_pt_inj. rewrite <- Hf, <- Hf'. congruence.
  - apply NoDup_desc_castles.
  - intros y H1 H2. apply in_flat_map in H1. destruct H1 as [p [Hp H1]]. apply in_map_iff in H1, H2.
    destruct H1 as [x [<- Hx]]. destruct H2 as [x' [E Hx']].
    destruct (castle_desc_shape s x' RH Hx') as (r0 & kc & c & Hd' & Hkc & GK).
    destruct (get (board s) p) as [|pc|] eqn:G; try contradiction. destruct (color_eqb (pcolor pc) (to_move s)); [|contradiction].
    unfold generate_moves_for_piece in Hx. apply in_app_or in Hx. destruct Hx as [Hx|Hx].
    + apply in_flat_map in Hx. destruct Hx as [mov [Hmov Hx]]. destruct (desc_successors s pc p mov x Hx) as [pr Hd].
      rewrite Hd, Hd' in E.
      assert (p = (r0, 6)) by (apply sq_of_pt_inj; congruence). assert (mov = (r0, kc)) by (apply sq_of_pt_inj; congruence). subst p mov.
      rewrite GK in G. injection G as <-. unfold get_moves in Hmov. cbn [pkind] in Hmov. apply king_moves_shape in Hmov.
      cbn [fst snd] in Hmov. lia.
    + destruct (desc_ep s pc p x Hx) as (dm & _ & PK & _ & Hd). rewrite Hd, Hd' in E.
      assert (p = (r0, 6)) by (apply sq_of_pt_inj; congruence). subst p. rewrite GK in G. injection G as <-. discriminate.
Qed.

End D.
