(* C02: the successor the generator computes is the position the rules give (Spec.apply), field by field.
   Part 1: bookkeeping of castling rights as boolean formulas. *)
From Walleye Require Import Model.Successor Spec.Abs Proofs.Cells Proofs.HashProofs Proofs.AttackGeom Proofs.AbsSet Proofs.KeyInvariant Proofs.CheckProofs.
Open Scope Z_scope.

Definition castling_eqb (a b : castling) : bool :=
  match a, b with WKS, WKS | WQS, WQS | BKS, BKS | BQS, BQS => true | _, _ => false end.

Section R.
Variable zt : ztable.

Lemma right_take_away s c r :
  right (take_away_castling_rights zt s c) r = right s r && negb (castling_eqb r c).
Proof.
  unfold take_away_castling_rights. destruct (right s c) eqn:E.
  - destruct c, r; cbn [right kx with_key with_right wks wqs bks bqs castling_eqb negb]; rewrite ?andb_true_r, ?andb_false_r; reflexivity.
  - destruct c, r; cbn [right castling_eqb negb] in *; rewrite ?andb_true_r, ?andb_false_r; try reflexivity; exact E.
Qed.

(* which rights a move clears because of its origin square / its target square *)
Definition corner_right (p : point) : option castling :=
  if (fst p =? BOARD_END - 1) && (snd p =? BOARD_END - 1) then Some WKS
  else if (fst p =? BOARD_END - 1) && (snd p =? BOARD_START) then Some WQS
  else if (fst p =? BOARD_START) && (snd p =? BOARD_START) then Some BQS
  else if (fst p =? BOARD_START) && (snd p =? BOARD_END - 1) then Some BKS
  else None.

Definition clears_origin (pc : piece) (sq : point) (r : castling) : bool :=
  match pkind pc with
  | King => match pcolor pc, r with
            | White, WKS | White, WQS | Black, BKS | Black, BQS => true
            | _, _ => false end
  | _ => match corner_right sq with Some c => castling_eqb r c | None => false end
  end.
Definition clears_target (mov : point) (r : castling) : bool :=
  match corner_right mov with Some c => castling_eqb r c | None => false end.

Lemma right_rights_from_origin s pc sq r :
  right (rights_from_origin zt s pc sq) r = right s r && negb (clears_origin pc sq r).
Proof.
  unfold rights_from_origin, clears_origin, corner_right.
  destruct (pkind pc); try destruct (pcolor pc);
    repeat match goal with |- context [if ?c then _ else _] => destruct c end;
    rewrite ?right_take_away; destruct r; cbn [castling_eqb negb]; rewrite ?andb_true_r, ?andb_false_r; reflexivity.
Qed.

Lemma right_rights_from_target s mov r :
  right (rights_from_target zt s mov) r = right s r && negb (clears_target mov r).
Proof.
  unfold rights_from_target, clears_target, corner_right.
  repeat match goal with |- context [if ?c then _ else _] => destruct c end;
    rewrite ?right_take_away; destruct r; cbn [castling_eqb negb]; rewrite ?andb_true_r, ?andb_false_r; reflexivity.
Qed.

Lemma right_unset_pdm s r : right (unset_pawn_double_move zt s) r = right s r.
Proof. unfold unset_pawn_double_move. destruct (pawn_double_move s); destruct r; reflexivity. Qed.

Lemma right_kx s v r : right (kx s v) r = right s r. Proof. destruct r; reflexivity. Qed.
Lemma right_with_pdm s p r : right (with_pdm s p) r = right s r. Proof. destruct r; reflexivity. Qed.
Lemma right_with_last s m r : right (with_last s m) r = right s r. Proof. destruct r; reflexivity. Qed.
Lemma right_with_oh s v r : right (with_oh s v) r = right s r. Proof. destruct r; reflexivity. Qed.
Lemma right_with_promo s v r : right (with_promo s v) r = right s r. Proof. destruct r; reflexivity. Qed.
Lemma right_with_board s v r : right (with_board s v) r = right s r. Proof. destruct r; reflexivity. Qed.
Lemma right_swap_color s r : right (swap_color zt s) r = right s r. Proof. destruct r; reflexivity. Qed.
Lemma right_set_king s c p r : right (set_king s c p) r = right s r. Proof. destruct c, r; reflexivity. Qed.

Lemma right_finalise nb pc sq mov r :
  right (finalise zt nb pc sq mov) r = right nb r && negb (clears_origin pc sq r) && negb (clears_target mov r).
Proof.
  unfold finalise. destruct (_ && _).
  - rewrite right_kx, right_with_pdm, right_unset_pdm, right_rights_from_target, right_rights_from_origin. reflexivity.
  - rewrite right_unset_pdm, right_rights_from_target, right_rights_from_origin. reflexivity.
Qed.

Lemma right_move_piece s a b r : right (move_piece zt s a b) r = right s r.
Proof. unfold move_piece. destruct (get (board s) a); destruct r; reflexivity. Qed.

(* the clone as it stands when the generator tests it for self-check *)
Definition moved_pre (s : BoardState) (pc : piece) (sq mov : point) : BoardState :=
  let c := pcolor pc in
  let nb := with_promo s None in
  let nb := swap_color zt nb in
  let nb := match pkind pc with King => set_king nb c mov | _ => nb end in
  let nb := with_oh nb (match get (board nb) mov with Full tp => mvv_lva tp pc | _ => 0 end) in
  let nb := move_piece zt nb sq mov in
  with_last nb (Some (sq, mov)).

Lemma moved_board_pre s pc sq mov :
  moved_board zt s pc sq mov = if is_check (moved_pre s pc sq mov) (pcolor pc) then None else Some (moved_pre s pc sq mov).
Proof. reflexivity. Qed.

Lemma moved_board_some s pc sq mov nb :
  moved_board zt s pc sq mov = Some nb <-> nb = moved_pre s pc sq mov /\ is_check (moved_pre s pc sq mov) (pcolor pc) = false.
Proof.
  rewrite moved_board_pre. destruct (is_check (moved_pre s pc sq mov) (pcolor pc)); split.
  - discriminate.
  - intros [_ H]. discriminate.
  - intros H. injection H as <-. auto.
  - intros [-> _]. reflexivity.
Qed.

Lemma right_moved_pre s pc sq mov r : right (moved_pre s pc sq mov) r = right s r.
Proof.
  unfold moved_pre. rewrite right_with_last, right_move_piece, right_with_oh.
  destruct (pkind pc); rewrite ?right_set_king, right_swap_color, right_with_promo; reflexivity.
Qed.

Lemma right_moved_board s pc sq mov nb r : moved_board zt s pc sq mov = Some nb -> right nb r = right s r.
Proof. intros H. apply moved_board_some in H. destruct H as [-> _]. apply right_moved_pre. Qed.

End R.

(* ---- Part 2: an ordinary (non-promoting, non-castling, non-en-passant) successor is Spec.apply *)
Definition rights_home (s : BoardState) : Prop :=
  (wks s = true -> get (board s) (9, 6) = Full (mkPiece White King) /\ get (board s) (9, 9) = Full (mkPiece White Rook)) /\
  (wqs s = true -> get (board s) (9, 6) = Full (mkPiece White King) /\ get (board s) (9, 2) = Full (mkPiece White Rook)) /\
  (bks s = true -> get (board s) (2, 6) = Full (mkPiece Black King) /\ get (board s) (2, 9) = Full (mkPiece Black Rook)) /\
  (bqs s = true -> get (board s) (2, 6) = Full (mkPiece Black King) /\ get (board s) (2, 2) = Full (mkPiece Black Rook)).

Definition king_home (r : castling) : point := match r with WKS | WQS => (9, 6) | BKS | BQS => (2, 6) end.
Definition rook_home (r : castling) : point := match r with WKS => (9, 9) | WQS => (9, 2) | BKS => (2, 9) | BQS => (2, 2) end.
Definition right_color (r : castling) : color := match r with WKS | WQS => White | BKS | BQS => Black end.

Lemma rights_home_r s r : rights_home s -> right s r = true ->
  get (board s) (king_home r) = Full (mkPiece (right_color r) King) /\ get (board s) (rook_home r) = Full (mkPiece (right_color r) Rook).
Proof. intros (H1 & H2 & H3 & H4) R. destruct r; cbn [right king_home rook_home right_color] in *; auto. Qed.

Lemma corner_right_spec p r : corner_right p = Some r <-> p = rook_home r.
Proof.
  unfold corner_right, BOARD_START, BOARD_END. destruct p as [x y]. cbn [fst snd].
  destruct (Z.eqb_spec x (10 - 1)), (Z.eqb_spec y (10 - 1)), (Z.eqb_spec y 2), (Z.eqb_spec x 2); cbn [andb];
    destruct r; cbn [rook_home]; split; intros H; try discriminate; try reflexivity; try (inversion H; lia); try (f_equal; lia);
    try (exfalso; inversion H; lia).
Qed.

Section A.
Variable zt : ztable.

(* the rights a move clears in the model are the rights the rules clear, when rights imply home squares,
   kings are unique and no king is captured *)
Lemma clears_iff_touches s pc sq mov r :
  rights_home s -> kings_ok s -> right s r = true ->
  get (board s) sq = Full pc -> (forall col, get (board s) mov <> Full (mkPiece col King)) ->
  clears_origin pc sq r || clears_target mov r =
  point_eqb sq (king_home r) || point_eqb mov (king_home r) || point_eqb sq (rook_home r) || point_eqb mov (rook_home r).
Proof.
  intros RH KO R G NK. destruct (rights_home_r s r RH R) as [GK GR].
  assert (M1 : point_eqb mov (king_home r) = false).
  { destruct (point_eqb_spec mov (king_home r)) as [E|]; [|reflexivity]. exfalso. apply (NK (right_color r)). now rewrite E. }
  rewrite M1, orb_false_r.
  assert (CT : clears_target mov r = point_eqb mov (rook_home r)).
  { unfold clears_target. destruct (corner_right mov) as [c0|] eqn:CR.
    - apply corner_right_spec in CR. destruct (point_eqb_spec mov (rook_home r)) as [E|Ne].
      + assert (c0 = r) by (destruct c0, r; cbn [rook_home] in *; congruence). subst. destruct r; reflexivity.
      + destruct c0, r; cbn [castling_eqb]; try reflexivity; exfalso; apply Ne; exact CR.
    - destruct (point_eqb_spec mov (rook_home r)) as [E|Ne]; [|reflexivity].
      apply corner_right_spec in E. congruence. }
  rewrite CT.
  assert (CO : clears_origin pc sq r = point_eqb sq (king_home r) || point_eqb sq (rook_home r)).
  { unfold clears_origin.
    destruct (point_eqb_spec sq (king_home r)) as [E1|N1].
    - (* the mover stands on the king's home square: it is that king *)
      subst sq. rewrite GK in G. injection G as <-. cbn [pkind pcolor orb]. destruct r; reflexivity.
    - cbn [orb]. destruct (point_eqb_spec sq (rook_home r)) as [E2|N2].
      + subst sq. rewrite GR in G. injection G as <-. cbn [pkind].
        assert (CR : corner_right (rook_home r) = Some r) by (apply corner_right_spec; reflexivity).
        rewrite CR. destruct r; reflexivity.
      + destruct (pkind pc) eqn:PK.
        all: try (destruct (corner_right sq) as [c0|] eqn:CR; [apply corner_right_spec in CR; destruct c0, r; cbn [castling_eqb]; try reflexivity; exfalso; apply N2; exact CR | reflexivity]).
        (* a king that is not on its home square is not the king of this right's colour *)
        destruct (pcolor pc) eqn:PC; destruct r; try reflexivity; exfalso; apply N1;
          destruct (KO (right_color WKS)) as [_ U1]; destruct (KO (right_color BKS)) as [_ U2];
          cbn [right_color king_home] in *;
          assert (Hpc : pc = mkPiece (pcolor pc) (pkind pc)) by (destruct pc; reflexivity); rewrite PC, PK in Hpc; subst pc.
        * rewrite (U1 _ G). symmetry. apply U1. exact GK.
        * rewrite (U1 _ G). symmetry. apply U1. exact GK.
        * rewrite (U2 _ G). symmetry. apply U2. exact GK.
        * rewrite (U2 _ G). symmetry. apply U2. exact GK. }
  rewrite CO. destruct (point_eqb sq (king_home r)), (point_eqb sq (rook_home r)), (point_eqb mov (rook_home r)); reflexivity.
Qed.

End A.

Section Ord.
Variable zt : ztable.

Lemma sq_eqb_pt p q : sq_eqb (sq_of_pt p) q = point_eqb p (pt_of_sq q).
Proof.
  destruct (sq_eqb_spec (sq_of_pt p) q) as [E|N], (point_eqb_spec p (pt_of_sq q)) as [E'|N']; try reflexivity.
  - exfalso. apply N'. rewrite <- E. symmetry. apply pt_sq.
  - exfalso. apply N. rewrite E'. apply sq_pt.
Qed.

Lemma to_move_finalise nb pc sq mov : to_move (finalise zt nb pc sq mov) = to_move nb.
Proof.
  unfold finalise, rights_from_target, rights_from_origin, unset_pawn_double_move, take_away_castling_rights.
  repeat match goal with |- context [if ?c then _ else _] => destruct c end;
  repeat match goal with |- context [match ?x with _ => _ end] => destruct x end; reflexivity.
Qed.

Lemma to_move_moved_pre s pc sq mov : to_move (moved_pre zt s pc sq mov) = opposite (to_move s).
Proof.
  unfold moved_pre. cbn [with_last to_move]. unfold move_piece.
  match goal with |- context [match ?x with _ => _ end] => destruct x end;
    cbn [to_move with_key with_board with_oh]; destruct (pkind pc); try destruct (pcolor pc); reflexivity.
Qed.

Lemma to_move_moved_board s pc sq mov nb : moved_board zt s pc sq mov = Some nb -> to_move nb = opposite (to_move s).
Proof. intros H. apply moved_board_some in H. destruct H as [-> _]. apply to_move_moved_pre. Qed.

Lemma moved_pre_board s pc sq mov : board (moved_pre zt s pc sq mov) = board (move_piece zt s sq mov).
Proof.
  unfold moved_pre. cbn [with_last board]. unfold move_piece.
  assert (B : forall X, board (with_oh (match pkind pc with King => set_king (swap_color zt (with_promo s None)) (pcolor pc) mov
                                        | _ => swap_color zt (with_promo s None) end) X) = board s).
  { intros X. destruct (pkind pc); try destruct (pcolor pc); reflexivity. }
  rewrite !B. destruct (get (board s) sq); cbn [board with_key with_board]; rewrite ?B; reflexivity.
Qed.

Lemma moved_board_board s pc sq mov nb : moved_board zt s pc sq mov = Some nb -> board nb = board (move_piece zt s sq mov).
Proof. intros H. apply moved_board_some in H. destruct H as [-> _]. apply moved_pre_board. Qed.

Lemma pdm_rights s pc sq mov :
  pawn_double_move (rights_from_target zt (rights_from_origin zt s pc sq) mov) = pawn_double_move s.
Proof.
  unfold rights_from_target, rights_from_origin, take_away_castling_rights.
  repeat match goal with |- context [if ?c then _ else _] => destruct c end;
  repeat match goal with |- context [match ?x with _ => _ end] => destruct x end; reflexivity.
Qed.

Lemma pdm_finalise nb pc sq mov :
  pawn_double_move (finalise zt nb pc sq mov) =
  if is_pawn_kind (pkind pc) && (Z.abs (fst sq - fst mov) =? 2)
  then Some (match pcolor pc with White => (fst mov + 1, snd mov) | Black => (fst mov - 1, snd mov) end)
  else None.
Proof.
  unfold finalise. destruct (is_pawn_kind (pkind pc) && (Z.abs (fst sq - fst mov) =? 2)); [reflexivity|].
  apply unset_pdm_none.
Qed.

(* the theorem for ordinary moves *)
Theorem ordinary_pre_abs s pc sq mov :
  cells_ok (board s) -> kings_ok s -> rights_home s ->
  get (board s) sq = Full pc -> is_inner sq = true -> is_inner mov = true -> sq <> mov ->
  (forall col, get (board s) mov <> Full (mkPiece col King)) ->
  (* a pawn's double step stays on its file and goes forward *)
  (pkind pc = Pawn -> Z.abs (fst sq - fst mov) = 2 ->
     snd sq = snd mov /\ (pcolor pc = White -> fst sq = fst mov + 2) /\ (pcolor pc = Black -> fst mov = fst sq + 2)) ->
  (* a pawn that changes file captures something (en passant is a separate constructor) *)
  (pkind pc = Pawn -> snd sq <> snd mov -> get (board s) mov <> Empty) ->
  (* a king steps at most one file (castling is a separate constructor) *)
  (pkind pc = King -> Z.abs (snd sq - snd mov) <= 1) ->
  abs (finalise zt (moved_pre zt s pc sq mov) pc sq mov) = apply (abs s) (mkMove (sq_of_pt sq) (sq_of_pt mov) None).
Proof.
  intros OK KO RH G Hs Hm Hne NK PD PC KS.
  destruct OK as [L [Ring Inner]].
  pose proof (proj1 (inner_on8 sq) Hs) as OnS. pose proof (proj1 (inner_on8 mov) Hm) as OnM.
  assert (Mover : pget (abs_placement (board s)) (sq_of_pt sq) = Some pc).
  { rewrite (pget_abs_on _ _ OnS), pt_sq, G. reflexivity. }
  assert (NotEp : is_ep_capture (abs s) (mkMove (sq_of_pt sq) (sq_of_pt mov) None) = false).
  { unfold is_ep_capture. cbn [abs pos_pl mfrom mto]. rewrite Mover. cbn [is_pawn].
    destruct (kind_eqb_spec (pkind pc) Pawn) as [PK|]; [|reflexivity]. cbn [andb].
    unfold sq_of_pt at 1 2. cbn [fst snd].
    destruct (Z.eqb_spec (snd sq - BOARD_START) (snd mov - BOARD_START)) as [E|NE]; [reflexivity|]. cbn [negb andb].
    assert (Occ : occupied (abs_placement (board s)) (sq_of_pt mov) = true).
    { unfold occupied. rewrite (pget_abs_on _ _ OnM), pt_sq.
      assert (GM : get (board s) mov <> Empty) by (apply PC; [exact PK|lia]).
      pose proof (Inner mov Hm). destruct (get (board s) mov); [contradiction|reflexivity|contradiction]. }
    rewrite Occ. cbn [negb]. rewrite andb_false_r. reflexivity. }
  assert (NotCastle : is_castle_move (abs s) (mkMove (sq_of_pt sq) (sq_of_pt mov) None) = false).
  { unfold is_castle_move. cbn [abs pos_pl mfrom mto]. rewrite Mover. cbn [is_king].
    destruct (kind_eqb_spec (pkind pc) King) as [PK|]; [|reflexivity]. cbn [andb].
    unfold sq_of_pt. cbn [fst snd]. specialize (KS PK). apply Z.eqb_neq. lia. }
  unfold abs at 1. unfold apply. rewrite NotEp, NotCastle. cbn [mfrom mto mpromo abs pos_pl pos_stm pos_wk pos_wq pos_bk pos_bq pos_ep].
  rewrite Mover.
  f_equal.
  - (* placement *)
    rewrite finalise_board, (moved_pre_board s pc sq mov). unfold move_piece. rewrite G. cbn [board with_key with_board].
    rewrite abs_placement_set by (auto; now rewrite set_length).
    rewrite abs_placement_set by auto. reflexivity.
  - rewrite to_move_finalise. apply to_move_moved_pre.
  - (* K *)
    change (wks (finalise zt (moved_pre zt s pc sq mov) pc sq mov)) with (right (finalise zt (moved_pre zt s pc sq mov) pc sq mov) WKS).
    rewrite right_finalise, (right_moved_pre zt s pc sq mov WKS). cbn [right].
    destruct (wks s) eqn:R; [|reflexivity]. cbn [andb].
    rewrite <- negb_orb, (clears_iff_touches s pc sq mov WKS RH KO R G NK).
    unfold touches. cbn [mfrom mto king_home rook_home]. rewrite !sq_eqb_pt.
    change (pt_of_sq (4, 0)) with (9, 6). change (pt_of_sq (7, 0)) with (9, 9).
    destruct (point_eqb sq (9, 6)), (point_eqb mov (9, 6)), (point_eqb sq (9, 9)), (point_eqb mov (9, 9)); reflexivity.
  - (* Q *)
    change (wqs (finalise zt (moved_pre zt s pc sq mov) pc sq mov)) with (right (finalise zt (moved_pre zt s pc sq mov) pc sq mov) WQS).
    rewrite right_finalise, (right_moved_pre zt s pc sq mov WQS). cbn [right].
    destruct (wqs s) eqn:R; [|reflexivity]. cbn [andb].
    rewrite <- negb_orb, (clears_iff_touches s pc sq mov WQS RH KO R G NK).
    unfold touches. cbn [mfrom mto king_home rook_home]. rewrite !sq_eqb_pt.
    change (pt_of_sq (4, 0)) with (9, 6). change (pt_of_sq (0, 0)) with (9, 2).
    destruct (point_eqb sq (9, 6)), (point_eqb mov (9, 6)), (point_eqb sq (9, 2)), (point_eqb mov (9, 2)); reflexivity.
  - (* k *)
    change (bks (finalise zt (moved_pre zt s pc sq mov) pc sq mov)) with (right (finalise zt (moved_pre zt s pc sq mov) pc sq mov) BKS).
    rewrite right_finalise, (right_moved_pre zt s pc sq mov BKS). cbn [right].
    destruct (bks s) eqn:R; [|reflexivity]. cbn [andb].
    rewrite <- negb_orb, (clears_iff_touches s pc sq mov BKS RH KO R G NK).
    unfold touches. cbn [mfrom mto king_home rook_home]. rewrite !sq_eqb_pt.
    change (pt_of_sq (4, 7)) with (2, 6). change (pt_of_sq (7, 7)) with (2, 9).
    destruct (point_eqb sq (2, 6)), (point_eqb mov (2, 6)), (point_eqb sq (2, 9)), (point_eqb mov (2, 9)); reflexivity.
  - (* q *)
    change (bqs (finalise zt (moved_pre zt s pc sq mov) pc sq mov)) with (right (finalise zt (moved_pre zt s pc sq mov) pc sq mov) BQS).
    rewrite right_finalise, (right_moved_pre zt s pc sq mov BQS). cbn [right].
    destruct (bqs s) eqn:R; [|reflexivity]. cbn [andb].
    rewrite <- negb_orb, (clears_iff_touches s pc sq mov BQS RH KO R G NK).
    unfold touches. cbn [mfrom mto king_home rook_home]. rewrite !sq_eqb_pt.
    change (pt_of_sq (4, 7)) with (2, 6). change (pt_of_sq (0, 7)) with (2, 2).
    destruct (point_eqb sq (2, 6)), (point_eqb mov (2, 6)), (point_eqb sq (2, 2)), (point_eqb mov (2, 2)); reflexivity.
  - (* en-passant target *)
    rewrite pdm_finalise. cbn [is_pawn].
    assert (KE : is_pawn_kind (pkind pc) = kind_eqb (pkind pc) Pawn) by (destruct (pkind pc); reflexivity).
    rewrite KE.
    assert (DE : (Z.abs (snd (sq_of_pt mov) - snd (sq_of_pt sq)) =? 2) = (Z.abs (fst sq - fst mov) =? 2)).
    { unfold sq_of_pt. cbn [fst snd]. destruct (Z.eqb_spec (Z.abs (fst sq - fst mov)) 2), (Z.eqb_spec (Z.abs (BOARD_END - 1 - fst mov - (BOARD_END - 1 - fst sq))) 2); try reflexivity; lia. }
    rewrite DE.
    destruct (kind_eqb_spec (pkind pc) Pawn) as [PK|]; [|reflexivity]. cbn [andb].
    destruct (Z.eqb_spec (Z.abs (fst sq - fst mov)) 2) as [D2|]; [|reflexivity].
    destruct (PD PK D2) as [SameFile [HW HB]].
    f_equal. unfold sq_of_pt, BOARD_START, BOARD_END. cbn [fst snd].
    destruct (pcolor pc) eqn:Col; cbn [fst snd]; f_equal; try lia.
    + specialize (HW eq_refl). replace (10 - 1 - fst sq + (10 - 1 - fst mov)) with (2 * (10 - 1 - (fst mov + 1))) by lia.
      rewrite Z.mul_comm, Z.div_mul by lia. reflexivity.
    + specialize (HB eq_refl). replace (10 - 1 - fst sq + (10 - 1 - fst mov)) with (2 * (10 - 1 - (fst mov - 1))) by lia.
      rewrite Z.mul_comm, Z.div_mul by lia. reflexivity.
Qed.


Theorem ordinary_successor_abs s pc sq mov nb :
  cells_ok (board s) -> kings_ok s -> rights_home s ->
  get (board s) sq = Full pc -> is_inner sq = true -> is_inner mov = true -> sq <> mov ->
  (forall col, get (board s) mov <> Full (mkPiece col King)) ->
  (pkind pc = Pawn -> Z.abs (fst sq - fst mov) = 2 ->
     snd sq = snd mov /\ (pcolor pc = White -> fst sq = fst mov + 2) /\ (pcolor pc = Black -> fst mov = fst sq + 2)) ->
  (pkind pc = Pawn -> snd sq <> snd mov -> get (board s) mov <> Empty) ->
  (pkind pc = King -> Z.abs (snd sq - snd mov) <= 1) ->
  moved_board zt s pc sq mov = Some nb ->
  abs (finalise zt nb pc sq mov) = apply (abs s) (mkMove (sq_of_pt sq) (sq_of_pt mov) None).
Proof.
  intros OK KO RH G Hs Hm Hne NK PD PC KS MB. apply moved_board_some in MB. destruct MB as [-> _].
  now apply ordinary_pre_abs.
Qed.

End Ord.

(* ---- Part 3: promotions *)
Section Promo.
Variable zt : ztable.

Lemma pset_pset_same pl q a b0 : pset (pset pl q a) q b0 = pset pl q b0.
Proof.
  unfold pset. destruct (on8 q); [|reflexivity].
  generalize (pidx q). intros n. revert n. induction pl as [|x t IH]; intros [|n]; cbn; auto. f_equal. apply IH.
Qed.

(* the rules' promotion differs from the same move without promotion only by the piece placed *)
Lemma apply_promotion p from to k pc :
  pget (pos_pl p) from = Some pc ->
  is_ep_capture p (mkMove from to None) = false -> is_castle_move p (mkMove from to None) = false ->
  apply p (mkMove from to (Some k)) =
  let q := apply p (mkMove from to None) in
  mkPos (pset (pos_pl q) to (Some (mkPiece (pcolor pc) k))) (pos_stm q) (pos_wk q) (pos_wq q) (pos_bk q) (pos_bq q) (pos_ep q).
Proof.
  intros M E C. unfold apply.
  assert (E' : is_ep_capture p (mkMove from to (Some k)) = false) by exact E.
  assert (C' : is_castle_move p (mkMove from to (Some k)) = false) by exact C.
  rewrite E, C, E', C'. cbn [mfrom mto mpromo pos_pl pos_stm pos_wk pos_wq pos_bk pos_bq pos_ep]. rewrite M.
  rewrite pset_pset_same. reflexivity.
Qed.

Lemma abs_promoted fin c start target k :
  length (board fin) = 144%nat -> is_inner target = true ->
  let x := (let nb := unset_pawn_double_move zt fin in
            let pp := mkPiece c k in
            let nb := with_board nb (set (board nb) target (Full pp)) in
            let nb := with_last nb (Some (start, target)) in
            let nb := with_promo nb (Some pp) in
            let nb := with_oh nb (match k with Queen => QUEEN_PROMOTION_SCORE | _ => UNDER_PROMOTION_SCORE end) in
            kx nb (N.lxor (z_piece zt pp target) (z_piece zt (mkPiece c Pawn) target))) in
  pawn_double_move fin = None ->
  abs x = mkPos (pset (pos_pl (abs fin)) (sq_of_pt target) (Some (mkPiece c k)))
                (pos_stm (abs fin)) (pos_wk (abs fin)) (pos_wq (abs fin)) (pos_bk (abs fin)) (pos_bq (abs fin)) (pos_ep (abs fin)).
Proof.
  intros L Ht x P. unfold x, abs, unset_pawn_double_move. rewrite P.
  cbn [kx with_key with_oh with_promo with_last with_board board to_move wks wqs bks bqs pawn_double_move pos_pl pos_stm pos_wk pos_wq pos_bk pos_bq pos_ep].
  rewrite P. rewrite abs_placement_set by auto. reflexivity.
Qed.

End Promo.

Section More.
Variable zt : ztable.

Theorem promotion_pre_abs s pc sq mov x :
  cells_ok (board s) -> kings_ok s -> rights_home s ->
  get (board s) sq = Full pc -> is_inner sq = true -> is_inner mov = true -> sq <> mov ->
  (forall col, get (board s) mov <> Full (mkPiece col King)) ->
  pkind pc = Pawn -> Z.abs (fst sq - fst mov) <> 2 ->
  (snd sq <> snd mov -> get (board s) mov <> Empty) ->
  In x (promote_pawn zt (finalise zt (moved_pre zt s pc sq mov) pc sq mov) (pcolor pc) sq mov) ->
  exists k, In k PROMOTION_KINDS /\ pawn_promotion x = Some (mkPiece (pcolor pc) k) /\
            abs x = apply (abs s) (mkMove (sq_of_pt sq) (sq_of_pt mov) (Some k)).
Proof.
  intros OK KO RH G Hs Hm Hne NK PK D2 PC Hx.
  unfold promote_pawn in Hx. apply in_map_iff in Hx. destruct Hx as [k [<- Hk]].
  exists k. split; [exact Hk|]. split; [reflexivity|].
  assert (Ord : abs (finalise zt (moved_pre zt s pc sq mov) pc sq mov) = apply (abs s) (mkMove (sq_of_pt sq) (sq_of_pt mov) None)).
  { apply (ordinary_pre_abs zt s pc sq mov OK KO RH G Hs Hm Hne NK).
    - intros _ D. contradiction.
    - intros _ Hc. apply PC. exact Hc.
    - intros K. rewrite PK in K. discriminate. }
  destruct OK as [L [Ring Inner]].
  pose proof (proj1 (inner_on8 sq) Hs) as OnS. pose proof (proj1 (inner_on8 mov) Hm) as OnM.
  assert (Mover : pget (pos_pl (abs s)) (sq_of_pt sq) = Some pc).
  { cbn [abs pos_pl]. rewrite (pget_abs_on _ _ OnS), pt_sq, G. reflexivity. }
  assert (NotEp : is_ep_capture (abs s) (mkMove (sq_of_pt sq) (sq_of_pt mov) None) = false).
  { unfold is_ep_capture. cbn [mfrom mto]. rewrite Mover. cbn [is_pawn]. rewrite PK. cbn [kind_eqb andb].
    unfold sq_of_pt at 1 2. cbn [fst snd].
    destruct (Z.eqb_spec (snd sq - BOARD_START) (snd mov - BOARD_START)) as [E|NE]; [reflexivity|]. cbn [negb andb].
    assert (Occ : occupied (abs_placement (board s)) (sq_of_pt mov) = true).
    { unfold occupied. rewrite (pget_abs_on _ _ OnM), pt_sq.
      assert (GM : get (board s) mov <> Empty) by (apply PC; lia).
      pose proof (Inner mov Hm). destruct (get (board s) mov); [contradiction|reflexivity|contradiction]. }
    cbn [abs pos_pl]. rewrite Occ. cbn [negb]. rewrite andb_false_r. reflexivity. }
  assert (NotCastle : is_castle_move (abs s) (mkMove (sq_of_pt sq) (sq_of_pt mov) None) = false).
  { unfold is_castle_move. cbn [mfrom mto]. rewrite Mover. cbn [is_king]. rewrite PK. reflexivity. }
  rewrite (apply_promotion (abs s) _ _ k pc Mover NotEp NotCastle). cbn zeta. rewrite <- Ord.
  apply abs_promoted.
  - rewrite finalise_board, (moved_pre_board zt s pc sq mov). unfold move_piece. rewrite G.
    cbn [board with_key with_board]. now rewrite !set_length.
  - exact Hm.
  - rewrite pdm_finalise. destruct (Z.eqb_spec (Z.abs (fst sq - fst mov)) 2); [contradiction|]. now rewrite andb_false_r.
Qed.

Theorem promotion_successor_abs s pc sq mov nb x :
  cells_ok (board s) -> kings_ok s -> rights_home s ->
  get (board s) sq = Full pc -> is_inner sq = true -> is_inner mov = true -> sq <> mov ->
  (forall col, get (board s) mov <> Full (mkPiece col King)) ->
  pkind pc = Pawn -> Z.abs (fst sq - fst mov) <> 2 ->
  (snd sq <> snd mov -> get (board s) mov <> Empty) ->
  moved_board zt s pc sq mov = Some nb ->
  In x (promote_pawn zt (finalise zt nb pc sq mov) (pcolor pc) sq mov) ->
  exists k, In k PROMOTION_KINDS /\ pawn_promotion x = Some (mkPiece (pcolor pc) k) /\
            abs x = apply (abs s) (mkMove (sq_of_pt sq) (sq_of_pt mov) (Some k)).
Proof.
  intros OK KO RH G Hs Hm Hne NK PK D2 PC MB Hx. apply moved_board_some in MB. destruct MB as [-> _].
  now apply (promotion_pre_abs s pc sq mov x).
Qed.

(* ---- en passant *)
Definition ep_ok_model (s : BoardState) : Prop :=
  forall t, pawn_double_move s = Some t ->
    is_inner t = true /\ get (board s) t = Empty /\
    let v := match to_move s with White => (fst t + 1, snd t) | Black => (fst t - 1, snd t) end in
    is_inner v = true /\ get (board s) v = Full (mkPiece (opposite (to_move s)) Pawn).

Lemma touches_mid q a b : snd a <> snd q -> snd b <> snd q -> touches (mkMove a b None) q = false.
Proof.
  intros H1 H2. unfold touches, sq_eqb. cbn [mfrom mto].
  destruct (Z.eqb_spec (snd a) (snd q)); [contradiction|]. destruct (Z.eqb_spec (snd b) (snd q)); [contradiction|].
  now rewrite !andb_false_r.
Qed.

Definition ep_pre (s : BoardState) (pc : piece) (sq mov : point) : BoardState :=
  let nb := with_promo s None in
  let nb := with_last nb (Some (sq, mov)) in
  let nb := swap_color zt nb in
  let nb := unset_pawn_double_move zt nb in
  let nb := move_piece zt nb sq mov in
  let victim_sq := match pcolor pc with White => (fst mov + 1, snd mov) | Black => (fst mov - 1, snd mov) end in
  let nb := with_board nb (set (board nb) victim_sq Empty) in
  kx nb (z_piece zt (mkPiece (opposite (pcolor pc)) Pawn) victim_sq).

Lemma en_passant_successor_pre s pc sq :
  en_passant_successor zt s pc sq =
  match pawn_double_move s, pkind pc with
  | Some _, Pawn =>
      match pawn_moves_en_passant pc sq s with
      | None => []
      | Some mov => if negb (is_check (ep_pre s pc sq mov) (to_move s)) then [ep_pre s pc sq mov] else []
      end
  | _, _ => []
  end.
Proof. reflexivity. Qed.

Theorem ep_pre_abs s pc sq dm mov :
  cells_ok (board s) -> ep_ok_model s ->
  get (board s) sq = Full pc -> is_inner sq = true -> pcolor pc = to_move s ->
  pawn_double_move s = Some dm -> pkind pc = Pawn -> pawn_moves_en_passant pc sq s = Some mov ->
  mov = dm /\ last_move (ep_pre s pc sq mov) = Some (sq, mov) /\ pawn_promotion (ep_pre s pc sq mov) = None /\
  abs (ep_pre s pc sq mov) = apply (abs s) (mkMove (sq_of_pt sq) (sq_of_pt mov) None).
Proof.
  intros OK EP G Hs PC D PK E.
  (* geometry of the capture *)
  assert (Geo : mov = dm /\ (snd mov = snd sq + 1 \/ snd mov = snd sq - 1) /\
                match pcolor pc with White => fst sq = EP_ROW_WHITE /\ fst mov = fst sq - 1
                                   | Black => fst sq = EP_ROW_BLACK /\ fst mov = fst sq + 1 end).
  { unfold pawn_moves_en_passant in E. rewrite D in E. destruct sq as [row col].
    destruct (pcolor pc); match type of E with context [if ?c then _ else _] => destruct c eqn:RowE end; try discriminate;
    apply Z.eqb_eq in RowE;
    repeat match type of E with context [if point_eqb ?a ?b then _ else _] => destruct (point_eqb_spec a b) end;
    try discriminate; inversion E; subst; cbn [fst snd]; repeat split; auto; lia. }
  destruct Geo as [-> [Col Row]].
  destruct (EP dm D) as [Hm [Gt [Hv Gv]]].
  split; [reflexivity|]. unfold ep_pre.
  assert (B0 : board (unset_pawn_double_move zt (swap_color zt (with_last (with_promo s None) (Some (sq, dm))))) = board s)
    by (rewrite unset_pdm_board; reflexivity).
  split.
  { cbn [kx with_key with_board last_move]. unfold move_piece. rewrite B0, G. cbn [with_key with_board last_move].
    unfold unset_pawn_double_move. cbn [swap_color kx with_key with_to_move with_last with_promo pawn_double_move]. rewrite D. reflexivity. }
  split.
  { cbn [kx with_key with_board pawn_promotion]. unfold move_piece. rewrite B0, G. cbn [with_key with_board pawn_promotion].
    unfold unset_pawn_double_move. cbn [swap_color kx with_key with_to_move with_last with_promo pawn_double_move]. rewrite D. reflexivity. }
  destruct OK as [L [Ring Inner]].
  pose proof (proj1 (inner_on8 sq) Hs) as OnS. pose proof (proj1 (inner_on8 dm) Hm) as OnM.
  assert (Mover : pget (abs_placement (board s)) (sq_of_pt sq) = Some pc).
  { rewrite (pget_abs_on _ _ OnS), pt_sq, G. reflexivity. }
  set (m := mkMove (sq_of_pt sq) (sq_of_pt dm) None).
  assert (IsEp : is_ep_capture (abs s) m = true).
  { unfold is_ep_capture, m. cbn [abs pos_pl pos_ep mfrom mto]. rewrite Mover, D. cbn [is_pawn]. rewrite PK. cbn [kind_eqb andb].
    destruct (sq_eqb_spec (sq_of_pt dm) (sq_of_pt dm)); [|contradiction].
    unfold occupied. rewrite (pget_abs_on _ _ OnM), pt_sq, Gt. cbn [opt_of_square negb]. rewrite !andb_true_r.
    unfold sq_of_pt. cbn [fst snd]. apply negb_true_iff. apply Z.eqb_neq. lia. }
  assert (NotCastle : is_castle_move (abs s) m = false).
  { unfold is_castle_move, m. cbn [abs pos_pl mfrom mto]. rewrite Mover. cbn [is_king]. rewrite PK. reflexivity. }
  unfold apply. rewrite IsEp, NotCastle. cbn [mfrom mto mpromo m abs pos_pl pos_stm pos_wk pos_wq pos_bk pos_bq pos_ep]. rewrite Mover.
  (* the victim stands beside the capturing pawn: (file of the target, rank of the capturer) *)
  set (v := match pcolor pc with White => (fst dm + 1, snd dm) | Black => (fst dm - 1, snd dm) end).
  assert (Ev : v = match to_move s with White => (fst dm + 1, snd dm) | Black => (fst dm - 1, snd dm) end) by (unfold v; now rewrite PC).
  rewrite <- Ev in Hv, Gv.
  assert (Vsq : sq_of_pt v = (fst (sq_of_pt dm), snd (sq_of_pt sq))).
  { unfold v, sq_of_pt, BOARD_START, BOARD_END, EP_ROW_WHITE, EP_ROW_BLACK in *. destruct (pcolor pc); cbn [fst snd]; destruct Row as [R1 R2]; f_equal; lia. }
  unfold abs at 1.
  cbn [kx with_key with_board board to_move wks wqs bks bqs pawn_double_move].
  (* fields other than the placement *)
  assert (F : forall X v0 k0, let y := kx (with_board X v0) k0 in
              to_move y = to_move X /\ wks y = wks X /\ wqs y = wqs X /\ bks y = bks X /\ bqs y = bqs X /\ pawn_double_move y = pawn_double_move X)
    by (intros; repeat split; reflexivity).
  set (s1 := unset_pawn_double_move zt (swap_color zt (with_last (with_promo s None) (Some (sq, dm))))).
  assert (B1 : board s1 = board s) by (unfold s1; rewrite unset_pdm_board; reflexivity).
  assert (MP : board (move_piece zt s1 sq dm) = set (set (board s) sq Empty) dm (Full pc)).
  { unfold move_piece. rewrite B1, G. reflexivity. }
  assert (Flds : to_move (move_piece zt s1 sq dm) = opposite (to_move s) /\ wks (move_piece zt s1 sq dm) = wks s /\
                 wqs (move_piece zt s1 sq dm) = wqs s /\ bks (move_piece zt s1 sq dm) = bks s /\ bqs (move_piece zt s1 sq dm) = bqs s /\
                 pawn_double_move (move_piece zt s1 sq dm) = None).
  { unfold move_piece. rewrite B1, G. unfold s1, unset_pawn_double_move. cbn [swap_color kx with_key with_to_move with_last with_promo pawn_double_move].
    rewrite D. repeat split; reflexivity. }
  destruct Flds as (F1 & F2 & F3 & F4 & F5 & F6).
  fold s1. fold v. rewrite F1, F2, F3, F4, F5, F6, MP.
  (* rights: a capture from the fifth to the sixth rank touches no home square *)
  assert (T : forall q, snd q = 0 \/ snd q = 7 -> touches m q = false).
  { intros q Hq. apply touches_mid; unfold sq_of_pt, BOARD_END, EP_ROW_WHITE, EP_ROW_BLACK in *; cbn [fst snd];
      destruct (pcolor pc); destruct Row as [R1 R2]; lia. }
  rewrite !T by (cbn; lia). cbn [negb]. rewrite !andb_true_r.
  assert (NoDouble : (Z.abs (snd (sq_of_pt dm) - snd (sq_of_pt sq)) =? 2) = false).
  { unfold sq_of_pt. cbn [fst snd]. apply Z.eqb_neq. destruct (pcolor pc); destruct Row as [R1 R2]; lia. }
  rewrite NoDouble, andb_false_r.
  f_equal.
  rewrite abs_placement_set; [|exact Hv|now rewrite !set_length].
  rewrite abs_placement_set by (auto; now rewrite set_length).
  rewrite abs_placement_set by auto.
  rewrite Vsq. reflexivity.
Qed.


Theorem en_passant_successor_abs s pc sq x :
  cells_ok (board s) -> ep_ok_model s ->
  get (board s) sq = Full pc -> is_inner sq = true -> pcolor pc = to_move s ->
  In x (en_passant_successor zt s pc sq) ->
  exists mov, pawn_double_move s = Some mov /\ last_move x = Some (sq, mov) /\ pawn_promotion x = None /\
              abs x = apply (abs s) (mkMove (sq_of_pt sq) (sq_of_pt mov) None).
Proof.
  intros OK EP G Hs PC Hx. rewrite en_passant_successor_pre in Hx.
  destruct (pawn_double_move s) as [dm|] eqn:D; [|contradiction].
  destruct (pkind pc) eqn:PK; try contradiction.
  destruct (pawn_moves_en_passant pc sq s) as [mov|] eqn:E; [|contradiction].
  destruct (negb (is_check (ep_pre s pc sq mov) (to_move s))); [|contradiction].
  destruct Hx as [<-|[]].
  destruct (ep_pre_abs s pc sq dm mov OK EP G Hs PC D PK E) as (-> & HL & HP & HA).
  exists dm. auto.
Qed.

End More.

(* ---- castling *)
Section Castle.
Variable zt : ztable.

(* the generic computation: king from (r0,6) to (r0,kc), rook from (r0,rf) to (r0,rt) *)
Lemma castle_placement b r0 kc rf rt (kp rp : piece) :
  length b = 144%nat -> is_inner (r0, 6) = true -> is_inner (r0, kc) = true -> is_inner (r0, rf) = true -> is_inner (r0, rt) = true ->
  get b (r0, 6) = Full kp -> get b (r0, rf) = Full rp -> rf <> 6 -> rf <> kc ->
  let b1 := set (set b (r0, 6) Empty) (r0, kc) (Full kp) in
  let b2 := set (set b1 (r0, rf) Empty) (r0, rt) (Full rp) in
  get b1 (r0, rf) = Full rp /\
  abs_placement b2 =
  pset (pset (pset (pset (abs_placement b) (sq_of_pt (r0, 6)) None) (sq_of_pt (r0, kc)) (Some kp)) (sq_of_pt (r0, rf)) None)
       (sq_of_pt (r0, rt)) (Some rp).
Proof.
  intros L I1 I2 I3 I4 GK GR N1 N2 b1 b2. split.
  - unfold b1. rewrite !get_set_other; [exact GR| |]; intros E; inversion E; lia.
  - unfold b2, b1. rewrite !abs_placement_set; auto; rewrite ?set_length; auto.
Qed.

Theorem castle_successor_abs s c r1 r2 kc rf rt (alg : mv2) :
  cells_ok (board s) ->
  let r0 := match c with White => 9 | Black => 2 end in
  king_location s c = (r0, 6) ->
  get (board s) (r0, 6) = Full (mkPiece c King) -> get (board s) (r0, rf) = Full (mkPiece c Rook) ->
  ((kc = 8 /\ rf = 9 /\ rt = 7) \/ (kc = 4 /\ rf = 2 /\ rt = 5)) ->
  (match c with White => r1 = WKS /\ r2 = WQS | Black => r1 = BKS /\ r2 = BQS end) ->
  abs (castle_successor zt s c r1 r2 (r0, kc) alg (r0, rf) (r0, rt)) =
  apply (abs s) (mkMove (sq_of_pt (r0, 6)) (sq_of_pt (r0, kc)) None).
Proof.
  intros OK r0 KL GK GR Side Rts. destruct OK as [L [Ring Inner]].
  assert (Ir : r0 = 9 \/ r0 = 2) by (unfold r0; destruct c; auto).
  assert (I1 : is_inner (r0, 6) = true) by (apply is_inner_spec; cbn [fst snd]; lia).
  assert (I2 : is_inner (r0, kc) = true) by (apply is_inner_spec; cbn [fst snd]; lia).
  assert (I3 : is_inner (r0, rf) = true) by (apply is_inner_spec; cbn [fst snd]; lia).
  assert (I4 : is_inner (r0, rt) = true) by (apply is_inner_spec; cbn [fst snd]; lia).
  destruct (castle_placement (board s) r0 kc rf rt _ _ L I1 I2 I3 I4 GK GR ltac:(lia) ltac:(lia)) as [GR1 PL].
  (* the model's successor, computed *)
  unfold castle_successor. rewrite KL.
  set (s1 := with_last (set_king (take_away_castling_rights zt (take_away_castling_rights zt
               (unset_pawn_double_move zt (swap_color zt (with_promo s None))) r1) r2) c (r0, kc)) (Some alg)).
  assert (B1 : board s1 = board s).
  { unfold s1. cbn [board with_last]. unfold set_king. destruct c; cbn [board with_wk with_bk]; rewrite !take_away_board, unset_pdm_board; reflexivity. }
  assert (MP1 : board (move_piece zt s1 (r0, 6) (r0, kc)) = set (set (board s) (r0, 6) Empty) (r0, kc) (Full (mkPiece c King))).
  { unfold move_piece. rewrite B1, GK. reflexivity. }
  assert (MP2 : board (move_piece zt (move_piece zt s1 (r0, 6) (r0, kc)) (r0, rf) (r0, rt)) =
                set (set (set (set (board s) (r0, 6) Empty) (r0, kc) (Full (mkPiece c King))) (r0, rf) Empty) (r0, rt) (Full (mkPiece c Rook))).
  { set (s2 := move_piece zt s1 (r0, 6) (r0, kc)) in *. unfold move_piece. rewrite MP1, GR1. reflexivity. }
  (* fields untouched by move_piece *)
  assert (Keep : forall X a b0, to_move (move_piece zt X a b0) = to_move X /\ wks (move_piece zt X a b0) = wks X /\ wqs (move_piece zt X a b0) = wqs X
                               /\ bks (move_piece zt X a b0) = bks X /\ bqs (move_piece zt X a b0) = bqs X
                               /\ pawn_double_move (move_piece zt X a b0) = pawn_double_move X).
  { intros X a b0. unfold move_piece. destruct (get (board X) a); repeat split; reflexivity. }
  unfold abs at 1. rewrite MP2.
  destruct (Keep (move_piece zt s1 (r0, 6) (r0, kc)) (r0, rf) (r0, rt)) as (K1 & K2 & K3 & K4 & K5 & K6).
  destruct (Keep s1 (r0, 6) (r0, kc)) as (J1 & J2 & J3 & J4 & J5 & J6).
  rewrite K1, K2, K3, K4, K5, K6, J1, J2, J3, J4, J5, J6.
  (* the rules' side *)
  pose proof (proj1 (inner_on8 _) I1) as On1.
  assert (Mover : pget (abs_placement (board s)) (sq_of_pt (r0, 6)) = Some (mkPiece c King)).
  { rewrite (pget_abs_on _ _ On1), pt_sq, GK. reflexivity. }
  set (m := mkMove (sq_of_pt (r0, 6)) (sq_of_pt (r0, kc)) None).
  assert (NotEp : is_ep_capture (abs s) m = false).
  { unfold is_ep_capture, m. cbn [abs pos_pl mfrom mto]. rewrite Mover. reflexivity. }
  assert (IsCastle : is_castle_move (abs s) m = true).
  { unfold is_castle_move, m. cbn [abs pos_pl mfrom mto]. rewrite Mover. cbn [is_king pkind kind_eqb andb].
    unfold sq_of_pt, BOARD_START. cbn [fst snd]. apply Z.eqb_eq. lia. }
  unfold apply. rewrite NotEp, IsCastle. cbn [m mfrom mto mpromo abs pos_pl pos_stm pos_wk pos_wq pos_bk pos_bq pos_ep]. rewrite Mover.
  (* rights, side to move and en-passant target of the model's successor *)
  assert (S1 : to_move s1 = opposite (to_move s) /\ pawn_double_move s1 = None /\
               (forall r, right s1 r = right s r && negb (castling_eqb r r1) && negb (castling_eqb r r2))).
  { unfold s1. split; [|split].
    - cbn [with_last to_move]. unfold set_king, take_away_castling_rights, unset_pawn_double_move.
      destruct c; repeat match goal with |- context [if ?x then _ else _] => destruct x end;
        repeat match goal with |- context [match ?x with _ => _ end] => destruct x end; reflexivity.
    - cbn [with_last pawn_double_move].
      assert (P0 : pawn_double_move (unset_pawn_double_move zt (swap_color zt (with_promo s None))) = None) by apply unset_pdm_none.
      unfold set_king, take_away_castling_rights. 
      destruct c; repeat match goal with |- context [if ?x then _ else _] => destruct x end; cbn [pawn_double_move with_wk with_bk kx with_key with_right]; exact P0.
    - intros r. rewrite right_with_last, right_set_king, !right_take_away, right_unset_pdm, right_swap_color, right_with_promo. reflexivity. }
  destruct S1 as (T1 & T2 & T3).
  rewrite T1, T2.
  change (wks s1) with (right s1 WKS). change (wqs s1) with (right s1 WQS). change (bks s1) with (right s1 BKS). change (bqs s1) with (right s1 BQS).
  rewrite !T3. cbn [right].
  assert (KingSide : (fst (sq_of_pt (r0, kc)) >? fst (sq_of_pt (r0, 6))) = (kc =? 8)).
  { unfold sq_of_pt, BOARD_START. cbn [fst snd]. destruct Side as [(-> & _ & _)|(-> & _ & _)]; reflexivity. }
  rewrite KingSide.
  assert (Rank : snd (sq_of_pt (r0, 6)) = 9 - r0) by (unfold sq_of_pt, BOARD_END; cbn [fst snd]; lia).
  rewrite Rank.
  unfold touches. cbn [mfrom mto]. unfold sq_of_pt, sq_eqb, BOARD_START, BOARD_END. cbn [fst snd].
  unfold sq_of_pt, BOARD_START, BOARD_END in PL. cbn [fst snd] in PL.
  destruct c; destruct Rts as [-> ->]; unfold r0 in *; destruct Side as [(-> & -> & ->)|(-> & -> & ->)];
    cbn [castling_eqb negb andb Z.eqb Z.sub Z.add Z.opp Z.pos_sub Pos.pred_double Z.succ_double Z.pred_double Z.double Pos.eqb Z.gtb Z.compare Pos.compare Pos.compare_cont];
    rewrite ?andb_true_r, ?andb_false_r; f_equal; try reflexivity; rewrite PL; cbn [fst snd Z.sub Z.add Z.opp Z.pos_sub Pos.pred_double Z.succ_double Z.pred_double Z.double];
    repeat f_equal.
  all: rewrite !pget_pset_other by discriminate.
  all: match goal with |- _ = pget _ ?q => rewrite (pget_abs_on _ q eq_refl) end.
  all: match goal with |- context [pt_of_sq ?q] => let p := eval vm_compute in (pt_of_sq q) in change (pt_of_sq q) with p end.
  all: rewrite GR; reflexivity.
Qed.

End Castle.
