(* from_fen is total: for every string and every table it returns a board or an error, never a panic.
   Each slice index, array write and unwrap of the Rust code is an explicit Panic site of the model;
   the guards in front of them are shown to suffice. *)
From Walleye Require Import Model.Fen Proofs.Cells.
Open Scope Z_scope.

Definition np {A} (r : res A) : Prop := forall n, r <> Panic n.

Lemma np_ok {A} (a : A) : np (Ok a). Proof. intros n; discriminate. Qed.
Lemma np_err {A} e : np (@Err A e). Proof. intros n; discriminate. Qed.
Lemma np_bind {A B} (r : res A) (f : A -> res B) :
  np r -> (forall a, r = Ok a -> np (f a)) -> np (res_bind r f).
Proof.
  intros Hr Hf. destruct r as [a|e|p]; cbn [res_bind].
  - apply Hf; reflexivity.
  - apply np_err.
  - exfalso. exact (Hr p eq_refl).
Qed.

Lemma nth_res_ok {A} (l : list A) i site : (i < length l)%nat -> exists a, nth_res l i site = Ok a.
Proof.
  intros H. unfold nth_res. destruct (nth_error l i) eqn:E; [eauto|].
  apply nth_error_None in E. lia.
Qed.

Section F.
Variable zt : ztable.

Lemma fill_empty_ok n : forall st,
  0 <= fl_row st < 12 -> 0 <= fl_col st -> fl_col st + Z.of_nat n <= 12 ->
  exists st', fill_empty n st = Ok st' /\ fl_row st' = fl_row st /\ fl_col st' = fl_col st + Z.of_nat n.
Proof.
  induction n as [|n IH]; intros st Hr Hc Hn; cbn [fill_empty].
  - exists st. repeat split; lia.
  - unfold set_res. assert (G : in_grid (fl_row st, fl_col st) = true) by (apply in_grid_spec; cbn [fst snd]; lia).
    rewrite G. cbn [res_bind].
    destruct (IH (mkLoop (set (fl_board st) (fl_row st, fl_col st) Empty) (fl_row st) (fl_col st + 1) (fl_key st) (fl_wk st) (fl_bk st)))
      as [st' [E [R C]]]; cbn [fl_row fl_col]; try lia.
    exists st'. cbn [fl_row fl_col] in *. repeat split; try assumption; lia.
Qed.

(* one character: an error, or a new state with the same row and a column that did not decrease *)
Lemma fen_char_ok st ch :
  0 <= fl_row st -> 0 <= fl_col st ->
  (exists e, fen_char zt st ch = Err e) \/
  (exists st', fen_char zt st ch = Ok st' /\ fl_row st' = fl_row st /\ fl_col st <= fl_col st').
Proof.
  intros Hr Hc. unfold fen_char.
  destruct ((BOARD_END <=? fl_row st) || (BOARD_END <=? fl_col st)) eqn:G; [left; eauto|].
  apply orb_false_iff in G. destruct G as [G1 G2]. apply Z.leb_gt in G1, G2. unfold BOARD_END in *.
  destruct (is_ascii_digit ch) eqn:D.
  - unfold to_digit. rewrite D.
    destruct (Z.of_N (ch - 48) + fl_col st >? 10) eqn:S; [left; eauto|].
    rewrite Z.gtb_ltb in S. apply Z.ltb_ge in S.
    destruct (fill_empty_ok (Z.to_nat (Z.of_N (ch - 48))) st) as [st' [E [R C]]]; try lia.
    right. exists st'. repeat split; try assumption; lia.
  - destruct (piece_from_fen_char ch) as [pc|]; [|left; eauto].
    unfold set_res. assert (IG : in_grid (fl_row st, fl_col st) = true) by (apply in_grid_spec; cbn [fst snd]; lia).
    rewrite IG. cbn [res_bind]. right. eexists. split; [reflexivity|]. cbn [fl_row fl_col]. split; lia.
Qed.

Lemma fen_row_chars_ok row : forall st,
  0 <= fl_row st -> 0 <= fl_col st ->
  (exists e, fen_row_chars zt st row = Err e) \/
  (exists st', fen_row_chars zt st row = Ok st' /\ fl_row st' = fl_row st /\ fl_col st <= fl_col st').
Proof.
  induction row as [|ch t IH]; intros st Hr Hc; cbn [fen_row_chars].
  - right. exists st. repeat split; lia.
  - destruct (fen_char_ok st ch Hr Hc) as [[e E]|[st1 [E [R C]]]]; rewrite E; cbn [res_bind].
    + left; eauto.
    + destruct (IH st1 ltac:(lia) ltac:(lia)) as [[e E2]|[st2 [E2 [R2 C2]]]]; [left; eauto|].
      right. exists st2. repeat split; try assumption; lia.
Qed.

Lemma fen_rows_np rows : forall st, 0 <= fl_row st -> 0 <= fl_col st -> np (fen_rows zt st rows).
Proof.
  induction rows as [|r t IH]; intros st Hr Hc; cbn [fen_rows]; [apply np_ok|].
  destruct (fen_row_chars_ok r st Hr Hc) as [[e E]|[st1 [E [R C]]]]; rewrite E; cbn [res_bind]; [apply np_err|].
  destruct (negb (fl_col st1 =? BOARD_END)); [apply np_err|].
  apply IH; cbn [fl_row fl_col]; unfold BOARD_START; lia.
Qed.

Theorem from_fen_total s : np (from_fen zt s).
Proof.
  unfold from_fen.
  set (cfg := split_on 32 (trim_newline s)).
  destruct (negb (Nat.eqb (length cfg) 6)) eqn:L; [apply np_err|].
  apply negb_false_iff in L. apply Nat.eqb_eq in L.
  destruct (nth_res_ok cfg 1 11 ltac:(lia)) as [f1 E1]. rewrite E1; cbn [res_bind].
  apply np_bind.
  { destruct (str_eqb f1 [119%N]); [apply np_ok|]. destruct (str_eqb f1 [98%N]); [apply np_ok|apply np_err]. }
  intros stm _.
  destruct (nth_res_ok cfg 2 12 ltac:(lia)) as [f2 E2]. rewrite E2; cbn [res_bind].
  destruct (nth_res_ok cfg 3 13 ltac:(lia)) as [f3 E3]. rewrite E3; cbn [res_bind].
  destruct (nth_res_ok cfg 4 14 ltac:(lia)) as [f4 E4]. rewrite E4; cbn [res_bind].
  destruct (parse_unsigned FEN_HALFMOVE_BITS f4); [|apply np_err].
  destruct (nth_res_ok cfg 5 15 ltac:(lia)) as [f5 E5]. rewrite E5; cbn [res_bind].
  destruct (parse_unsigned FEN_FULLMOVE_BITS f5); [|apply np_err].
  destruct (nth_res_ok cfg 0 10 ltac:(lia)) as [f0 E0]. rewrite E0; cbn [res_bind].
  destruct (negb (Nat.eqb (length (split_on 47 f0)) 8)); [apply np_err|].
  apply np_bind.
  { apply fen_rows_np; cbn [fl_row fl_col]; unfold BOARD_START; lia. }
  intros st _.
  apply np_bind.
  { destruct (negb (utf8_len f3 =? 2)).
    - destruct (negb (str_eqb f3 [45%N])); [apply np_err|apply np_ok].
    - destruct (point_from_str f3); apply np_ok. }
  intros [ep key1] _. apply np_ok.
Qed.

End F.
