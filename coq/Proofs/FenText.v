(* C15, text level: splitting what was joined, and reading back the decimal numbers that were printed. *)
From Walleye Require Import Model.Str Model.Fen Spec.FenPrint.
From Coq Require Import Lia.
Open Scope Z_scope.

(* ---- split_on after join_with *)
Definition sep_free (sep : N) (s : str) : Prop := Forall (fun c => c <> sep) s.

Lemma split_aux_free sep w : sep_free sep w -> forall r cur, split_on_aux sep (w ++ r) cur = split_on_aux sep r (rev w ++ cur).
Proof.
  induction 1 as [|c w Hc Hw IH]; intros r cur; cbn [app split_on_aux rev]; [reflexivity|].
  destruct (N.eqb_spec c sep) as [E|_]; [contradiction|]. rewrite IH, <- app_assoc. reflexivity.
Qed.

Lemma split_join sep ws : ws <> [] -> Forall (sep_free sep) ws -> split_on sep (join_with sep ws) = ws.
Proof.
  unfold split_on. induction ws as [|w t IH]; intros Hne HW; [contradiction|]. inversion HW as [|x l Nw HR]; subst.
  destruct t as [|w' t'].
  - cbn [join_with]. rewrite <- (app_nil_r w) at 1. rewrite (split_aux_free sep w Nw). cbn [split_on_aux]. now rewrite app_nil_r, rev_involutive.
  - cbn [join_with]. rewrite (split_aux_free sep w Nw). cbn [split_on_aux]. rewrite N.eqb_refl, app_nil_r, rev_involutive. f_equal.
    apply IH; [discriminate|exact HR].
Qed.

(* ---- decimal numbers *)
Definition digit_char (d : Z) : N := (48 + Z.to_N d)%N.

Lemma to_digit_char d : 0 <= d <= 9 -> to_digit (digit_char d) = Some d.
Proof.
  intros H. unfold to_digit, digit_char, is_ascii_digit.
  assert (E : (48 + Z.to_N d - 48)%N = Z.to_N d) by lia. rewrite E, Z2N.id by lia.
  assert (A : (48 <=? 48 + Z.to_N d)%N = true) by (apply N.leb_le; lia).
  assert (B : (48 + Z.to_N d <=? 57)%N = true) by (apply N.leb_le; lia).
  now rewrite A, B.
Qed.

Lemma digit_is_digit d : 0 <= d <= 9 -> Forall (fun c => is_ascii_digit c = true) [digit_char d].
Proof.
  intros H. constructor; [|constructor]. unfold is_ascii_digit, digit_char.
  apply andb_true_iff. split; apply N.leb_le; lia.
Qed.

(* reading digits after an accumulated value *)
Lemma digits_value_app a b acc : digits_value (a ++ b) acc = match digits_value a acc with Some v => digits_value b v | None => None end.
Proof. revert acc. induction a as [|c a IH]; intros acc; cbn [app digits_value]; [reflexivity|]. destruct (to_digit c); [apply IH|reflexivity]. Qed.

(* the printer emits the digits of n in front of acc; reading them back multiplies the accumulator through *)
Lemma dec_digits_spec fuel : forall n acc, 0 <= n < 10 ^ Z.of_nat fuel -> (0 < fuel)%nat ->
  exists ds, dec_digits fuel n acc = ds ++ acc /\ ds <> [] /\ Forall (fun c => is_ascii_digit c = true) ds /\
             forall a, 0 <= a -> digits_value ds a = Some (a * 10 ^ Z.of_nat (length ds) + n) /\ n < 10 ^ Z.of_nat (length ds).
Proof.
  induction fuel as [|f IH]; intros n acc Hn Hf; [lia|]. cbn [dec_digits]. fold (digit_char (n mod 10)).
  assert (Hd : 0 <= n mod 10 <= 9) by (pose proof (Z.mod_pos_bound n 10); lia).
  destruct (Z.eqb_spec (n / 10) 0) as [E|NE].
  - assert (n = n mod 10) by (rewrite (Z.div_mod n 10) at 1 by lia; rewrite E; lia).
    exists [digit_char (n mod 10)]. split; [reflexivity|]. split; [discriminate|]. split; [now apply digit_is_digit|].
    intros a Ha. cbn [digits_value length]. rewrite (to_digit_char _ Hd). change (Z.of_nat 1) with 1. split; [f_equal; lia|lia].
  - assert (Hq : 0 <= n / 10 < 10 ^ Z.of_nat f).
    { split; [apply Z.div_pos; lia|]. apply Z.div_lt_upper_bound; [lia|]. rewrite Nat2Z.inj_succ, Z.pow_succ_r in Hn by lia. lia. }
    assert (Hf' : (0 < f)%nat).
    { destruct f; [|lia]. exfalso. change (10 ^ Z.of_nat 0) with 1 in Hq. lia. }
    destruct (IH (n / 10) (digit_char (n mod 10) :: acc) Hq Hf') as (ds & E & Hne & Hdig & Hv).
    exists (ds ++ [digit_char (n mod 10)]). split; [rewrite E, <- app_assoc; reflexivity|].
    split; [destruct ds; discriminate|]. split; [apply Forall_app; split; [exact Hdig|now apply digit_is_digit]|].
    intros a Ha. rewrite digits_value_app. destruct (Hv a Ha) as [-> Hlt]. cbn [digits_value]. rewrite (to_digit_char _ Hd).
    rewrite app_length. cbn [length]. rewrite Nat2Z.inj_add. change (Z.of_nat 1) with 1. rewrite Z.pow_add_r, Z.pow_1_r by lia.
    split; [f_equal; rewrite (Z.div_mod n 10) at 3 by lia; lia|].
    rewrite (Z.div_mod n 10) by lia. lia.
Qed.

Lemma show_nat_parse bits n : 0 <= n -> n < 2 ^ bits -> n < 10 ^ 40 -> parse_unsigned bits (show_nat n) = Some n.
Proof.
  intros H0 Hb H40. unfold show_nat.
  destruct (dec_digits_spec 40 n [] ltac:(change (Z.of_nat 40) with 40; lia) ltac:(lia)) as (ds & E & Hne & Hdig & Hv).
  rewrite E, app_nil_r. destruct ds as [|c t]; [contradiction|]. destruct (Hv 0 ltac:(lia)) as [Hval _].
  inversion Hdig as [|x l Hc _]; subst x l.
  assert (P : parse_unsigned bits (c :: t) = match digits_value (c :: t) 0 with Some v => if v <? 2 ^ bits then Some v else None | None => None end).
  { unfold parse_unsigned. destruct c as [|p]; [reflexivity|]. do 6 (try (destruct p as [p|p|]; try reflexivity)). discriminate Hc. }
  rewrite P, Hval.
  replace (0 * 10 ^ Z.of_nat (length (c :: t)) + n) with n by lia.
  destruct (Z.ltb_spec n (2 ^ bits)); [reflexivity|lia].
Qed.
