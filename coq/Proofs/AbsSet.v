(* The abstraction commutes with writing a square: abs_placement (set b p v) = pset (abs_placement b) (sq_of_pt p) v. *)
From Walleye Require Import Model.Zobrist Spec.Abs Proofs.Cells Proofs.HashProofs Proofs.AttackGeom.
Open Scope Z_scope.

Lemma upd_nth_length {A} (l : list A) n v : length (upd_nth n v l) = length l.
Proof. revert n; induction l as [|x t IH]; intros [|n]; cbn; auto. Qed.
Lemma nth_upd_nth_same {A} (l : list A) n v d : (n < length l)%nat -> nth n (upd_nth n v l) d = v.
Proof. revert n; induction l as [|x t IH]; intros [|n] H; cbn in *; try lia; auto. apply IH. lia. Qed.
Lemma nth_upd_nth_other {A} (l : list A) n m v d : n <> m -> nth m (upd_nth n v l) d = nth m l d.
Proof. revert n m; induction l as [|x t IH]; intros [|n] [|m] H; cbn; auto; try congruence. Qed.

Lemma abs_placement_length b : length (abs_placement b) = 64%nat.
Proof. unfold abs_placement. rewrite map_length. reflexivity. Qed.

Lemma pidx_lt q : on8 q = true -> (pidx q < 64)%nat.
Proof. rewrite on8_spec. unfold pidx. lia. Qed.
Lemma pidx_inj q q' : on8 q = true -> on8 q' = true -> pidx q = pidx q' -> q = q'.
Proof.
  rewrite !on8_spec. unfold pidx. destruct q as [f r], q' as [f' r']; cbn [fst snd]. intros H1 H2 H.
  assert (8 * r + f = 8 * r' + f') by lia. f_equal; lia.
Qed.

Lemma pget_pset_same pl q v : on8 q = true -> length pl = 64%nat -> pget (pset pl q v) q = v.
Proof. intros On L. unfold pget, pset. rewrite On. apply nth_upd_nth_same. rewrite L. now apply pidx_lt. Qed.
Lemma pget_pset_other pl q q' v : q <> q' -> pget (pset pl q v) q' = pget pl q'.
Proof.
  intros Hne. unfold pget, pset. destruct (on8 q') eqn:On'; [|reflexivity].
  destruct (on8 q) eqn:On; [|reflexivity]. apply nth_upd_nth_other. intros E. apply Hne. now apply pidx_inj.
Qed.
Lemma pset_length pl q v : length (pset pl q v) = length pl.
Proof. unfold pset. destruct (on8 q); [apply upd_nth_length|reflexivity]. Qed.

(* two placements of 64 squares that agree on every board square are equal *)
Lemma placement_ext pl pl' :
  length pl = 64%nat -> length pl' = 64%nat -> (forall q, on8 q = true -> pget pl q = pget pl' q) -> pl = pl'.
Proof.
  intros L L' H. apply (nth_ext pl pl' None None); [congruence|].
  intros n Hn. rewrite L in Hn.
  set (q := (Z.of_nat n mod 8, Z.of_nat n / 8)).
  assert (On : on8 q = true).
  { apply on8_spec. unfold q. cbn [fst snd]. split; [apply Z.mod_pos_bound; lia|].
    split; [apply Z.div_pos; lia|]. apply Z.div_lt_upper_bound; lia. }
  assert (Ix : pidx q = n).
  { unfold pidx, q. cbn [fst snd]. rewrite <- Z.div_mod by lia. apply Nat2Z.id. }
  specialize (H q On). unfold pget in H. rewrite On, Ix in H. exact H.
Qed.

Lemma abs_placement_set b p v :
  is_inner p = true -> length b = 144%nat ->
  abs_placement (set b p v) = pset (abs_placement b) (sq_of_pt p) (opt_of_square v).
Proof.
  intros Hp L. apply placement_ext.
  - apply abs_placement_length.
  - rewrite pset_length. apply abs_placement_length.
  - intros q On. rewrite (pget_abs_on _ _ On).
    destruct (sq_eqb_spec (sq_of_pt p) q) as [E|Ne].
    + subst q. rewrite pt_sq, get_set_same by (auto using is_inner_in_grid).
      rewrite pget_pset_same; [reflexivity|now apply inner_on8|apply abs_placement_length].
    + rewrite pget_pset_other by exact Ne. rewrite (pget_abs_on _ _ On).
      rewrite get_set_other; [reflexivity|]. intros E. apply Ne. rewrite E. apply sq_pt.
Qed.
