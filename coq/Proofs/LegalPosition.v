(* The hypothesis of the C01/C02 theorems, read off the rules: a state whose representation is coherent
   (sentinel ring, king caches) and whose abstraction is a legal position in the sense of C01 satisfies pos_ok1. *)
From Walleye Require Import Model.Successor Spec.Abs Proofs.Cells Proofs.Ray Proofs.HashProofs Proofs.AttackGeom Proofs.AbsSet
  Proofs.KeyInvariant Proofs.CheckProofs Proofs.MoveGenProofs Proofs.GenShape Proofs.SuccessorAbs Proofs.GenerateAbs
  Proofs.PseudoLegal Proofs.LegalMoves.
Open Scope Z_scope.

Section B.
Variable b : cells.
Hypothesis OK : cells_ok b.
Notation pl := (abs_placement b).

(* a pseudo-legal move onto an occupied square is an attack on that square *)
Lemma spec_move_attacks (P : position) q pc m :
  pos_pl P = pl -> pget pl q = Some pc -> In m (piece_moves_spec P q) -> occupied pl (mto m) = true ->
  attacks pl q (mto m) = true.
Proof.
  intros HP G Hm Occ. unfold attacks. rewrite G.
  unfold piece_moves_spec in Hm. rewrite HP, G in Hm.
  destruct (negb (color_eqb (pcolor pc) (pos_stm P))); [destruct Hm|].
  assert (ST : forall L, In m (step_moves_spec pl q (pcolor pc) L) -> existsb (fun d => sq_eqb (sadd q d) (mto m)) L = true).
  { intros L H. apply steps_spec_in in H. destruct H as [d' [Hd [-> _]]]. apply existsb_exists. exists d'. split; [exact Hd|].
    cbn [mto]. now destruct (sq_eqb_spec (sadd q d') (sadd q d')). }
  assert (SL : forall L, In m (flat_map (fun d => slide_spec 8 pl q (sadd q d) d (pcolor pc)) L) ->
                         existsb (fun d => reaches 8 pl (sadd q d) d (mto m)) L = true).
  { intros L H. apply in_flat_map in H. destruct H as [d [Hd H]]. apply slide_spec_in in H.
    destruct H as [k [Hk [-> [Hall [On _]]]]]. apply existsb_exists. exists d. split; [exact Hd|]. cbn [mto].
    apply reaches_iff. exists k. split; [exact Hk|]. split; [reflexivity|]. split.
    - intros j Hj. destruct (Z.eq_dec j k) as [->|Hn]; [exact On|]. apply Hall. lia.
    - intros j Hj. destruct (Hall j Hj) as [_ N]. unfold occupied. now rewrite N. }
  destruct (pkind pc) eqn:K.
  - (* pawn *)
    apply (pawn_spec_in b P q (pcolor pc) m HP) in Hm. cbv zeta in Hm.
    destruct Hm as [(_ & Oc & pr & -> & _)|[(_ & _ & _ & _ & Oc & ->)|[(df & Hdf & _ & _ & pr & -> & _)|(df & _ & _ & _ & _ & Oc & ->)]]];
      cbn [mto] in *; try congruence.
    cbn [fst snd]. rewrite Z.eqb_refl. cbn [andb]. destruct Hdf as [-> | ->].
    + replace (fst q + -1) with (fst q - 1) by ring. rewrite Z.eqb_refl. apply orb_true_r.
    + rewrite Z.eqb_refl. reflexivity.
  - now apply ST.
  - now apply SL.
  - now apply SL.
  - now apply SL.
  - now apply ST.
Qed.

End B.

Lemma piece_at_get s q pc : on8 q = true -> piece_at (abs_placement (board s)) q pc = true -> get (board s) (pt_of_sq q) = Full pc.
Proof.
  intros On H. unfold piece_at in H. destruct (pget (abs_placement (board s)) q) as [x|] eqn:G; [|discriminate].
  destruct (piece_eqb_spec x pc) as [->|]; [|discriminate]. now apply get_of_pget_abs.
Qed.

Lemma piece_at_on8 pl q pc : piece_at pl q pc = true -> on8 q = true.
Proof. unfold piece_at. destruct (on8 q) eqn:On; [reflexivity|]. now rewrite pget_off. Qed.

(* the side not to move is not in check: no pseudo-legal target of the mover holds a king *)
Lemma no_king_target s :
  cells_ok (board s) -> kings_ok s -> in_check (abs_placement (board s)) (opposite (to_move s)) = false ->
  forall p pc x, is_inner p = true -> get (board s) p = Full pc -> pcolor pc = to_move s ->
                 In x (get_moves pc p (board s) AllMoves) -> forall col, get (board s) x <> Full (mkPiece col King).
Proof.
  intros OK KO NC p pc x Hp G PC Hx col E.
  assert (OK' := OK). destruct OK' as (L & Ring & Inner).
  assert (Hxin : is_inner x = true) by (eapply full_inner; eauto).
  pose proof (proj1 (inner_on8 p) Hp) as OnP. pose proof (proj1 (inner_on8 x) Hxin) as OnX.
  (* the king is an enemy king *)
  destruct (get_moves_target_kind pc p (board s) AllMoves x Hx) as [Em|Col]; [rewrite E in Em; discriminate|].
  rewrite E in Col. cbn [is_color pcolor] in Col.
  assert (Ecol : col = opposite (pcolor pc)) by (revert Col; destruct col, (pcolor pc); cbn; congruence). subst col.
  destruct (KO (opposite (pcolor pc))) as [GK UK]. pose proof (UK x E) as Ex.
  (* it would be in check *)
  assert (Mover : pget (abs_placement (board s)) (sq_of_pt p) = Some pc) by (rewrite pget_abs_on, pt_sq, G; auto).
  assert (Occ : occupied (abs_placement (board s)) (sq_of_pt x) = true).
  { unfold occupied. rewrite pget_abs_on, pt_sq, E; auto. }
  assert (Mv : exists m, In m (piece_moves_spec (abs s) (sq_of_pt p)) /\ mto m = sq_of_pt x).
  { destruct (kind_eqb_spec (pkind pc) Pawn) as [PK|NPK].
    - assert (Stm : pcolor pc = pos_stm (abs s)) by exact PC.
      rewrite (piece_moves_spec_pawn (abs s) _ pc Mover Stm PK).
      destruct p as [row col]. unfold get_moves in Hx. rewrite PK in Hx.
      destruct (Z.eqb_spec (snd (sq_of_pt x)) (last_rank (pcolor pc))) as [LR|NLR].
      + exists (mkMove (sq_of_pt (row, col)) (sq_of_pt x) (Some Queen)). split; [|reflexivity].
        apply (pawn_sound (board s) OK (abs s) pc row col eq_refl x (Some Queen) Hx).
        unfold promo_ok. rewrite LR, Z.eqb_refl. exists Queen. split; [reflexivity|left; reflexivity].
      + exists (mkMove (sq_of_pt (row, col)) (sq_of_pt x) None). split; [|reflexivity].
        apply (pawn_sound (board s) OK (abs s) pc row col eq_refl x None Hx).
        unfold promo_ok. destruct (Z.eqb_spec (snd (sq_of_pt x)) (last_rank (pcolor pc))); [contradiction|reflexivity].
    - exists (mkMove (sq_of_pt p) (sq_of_pt x) None). split; [|reflexivity].
      apply (nonpawn_agree (board s) OK (abs s) pc p x eq_refl); auto. }
  destruct Mv as (m & Hm & Hto).
  pose proof (spec_move_attacks (board s) (abs s) (sq_of_pt p) pc m eq_refl Mover Hm ltac:(now rewrite Hto)) as Att.
  rewrite Hto in Att.
  unfold in_check in NC. rewrite <- PC, opposite_involutive in NC.
  rewrite (king_sq_abs s (opposite (pcolor pc)) OK KO), <- Ex in NC.
  assert (T : attacked (abs_placement (board s)) (pcolor pc) (sq_of_pt x) = true).
  { unfold attacked. apply existsb_exists. exists (sq_of_pt p). split; [now apply on8_in_all_sq|].
    apply andb_true_iff. split; [|exact Att]. unfold has_color. rewrite Mover. apply color_eqb_refl. }
  congruence.
Qed.

(* the clauses of legal_position, one by one *)
Lemma legal_position_parts p :
  legal_position p = true ->
  in_check (pos_pl p) (opposite (pos_stm p)) = false /\
  implb (pos_wk p) (piece_at (pos_pl p) (4, 0) (mkPiece White King) && piece_at (pos_pl p) (7, 0) (mkPiece White Rook)) = true /\
  implb (pos_wq p) (piece_at (pos_pl p) (4, 0) (mkPiece White King) && piece_at (pos_pl p) (0, 0) (mkPiece White Rook)) = true /\
  implb (pos_bk p) (piece_at (pos_pl p) (4, 7) (mkPiece Black King) && piece_at (pos_pl p) (7, 7) (mkPiece Black Rook)) = true /\
  implb (pos_bq p) (piece_at (pos_pl p) (4, 7) (mkPiece Black King) && piece_at (pos_pl p) (0, 7) (mkPiece Black Rook)) = true /\
  ep_ok p = true.
Proof.
  unfold legal_position. intros LP.
  apply andb_true_iff in LP. destruct LP as [LP EPs]. apply andb_true_iff in LP. destruct LP as [LP Rbq].
  apply andb_true_iff in LP. destruct LP as [LP Rbk]. apply andb_true_iff in LP. destruct LP as [LP Rwq].
  apply andb_true_iff in LP. destruct LP as [LP Rwk]. apply andb_true_iff in LP. destruct LP as [LP _].
  apply andb_true_iff in LP. destruct LP as [_ NC]. apply negb_true_iff in NC. auto 10.
Qed.

Lemma rights_home_of_legal s :
  implb (wks s) (piece_at (abs_placement (board s)) (4, 0) (mkPiece White King) && piece_at (abs_placement (board s)) (7, 0) (mkPiece White Rook)) = true ->
  implb (wqs s) (piece_at (abs_placement (board s)) (4, 0) (mkPiece White King) && piece_at (abs_placement (board s)) (0, 0) (mkPiece White Rook)) = true ->
  implb (bks s) (piece_at (abs_placement (board s)) (4, 7) (mkPiece Black King) && piece_at (abs_placement (board s)) (7, 7) (mkPiece Black Rook)) = true ->
  implb (bqs s) (piece_at (abs_placement (board s)) (4, 7) (mkPiece Black King) && piece_at (abs_placement (board s)) (0, 7) (mkPiece Black Rook)) = true ->
  rights_home s.
Proof.
  intros Rwk Rwq Rbk Rbq.
  assert (R : forall (r : bool) q1 p1 q2 p2 a1 a2,
             implb r (piece_at (abs_placement (board s)) q1 p1 && piece_at (abs_placement (board s)) q2 p2) = true ->
             on8 q1 = true -> on8 q2 = true -> pt_of_sq q1 = a1 -> pt_of_sq q2 = a2 -> r = true ->
             get (board s) a1 = Full p1 /\ get (board s) a2 = Full p2).
  { intros r q1 p1 q2 p2 a1 a2 H On1 On2 <- <- ->. cbn [implb] in H. apply andb_true_iff in H. destruct H as [H1 H2].
    split; apply piece_at_get; assumption. }
  unfold rights_home. split; [|split; [|split]]; intros Hr.
  - exact (R _ _ _ _ _ _ _ Rwk eq_refl eq_refl eq_refl eq_refl Hr).
  - exact (R _ _ _ _ _ _ _ Rwq eq_refl eq_refl eq_refl eq_refl Hr).
  - exact (R _ _ _ _ _ _ _ Rbk eq_refl eq_refl eq_refl eq_refl Hr).
  - exact (R _ _ _ _ _ _ _ Rbq eq_refl eq_refl eq_refl eq_refl Hr).
Qed.

Lemma ep_of_legal s t :
  cells_ok (board s) -> ep_ok (abs s) = true -> pawn_double_move s = Some t ->
  is_inner t = true /\ get (board s) t = Empty /\
  fst t = (match to_move s with White => 4 | Black => 7 end) /\
  let v := match to_move s with White => (fst t + 1, snd t) | Black => (fst t - 1, snd t) end in
  is_inner v = true /\ get (board s) v = Full (mkPiece (opposite (to_move s)) Pawn).
Proof.
  intros OK EPs D. unfold ep_ok in EPs.
  assert (Eep : pos_ep (abs s) = Some (sq_of_pt t)) by (cbn [abs pos_ep]; now rewrite D). rewrite Eep in EPs.
  change (pos_pl (abs s)) with (abs_placement (board s)) in EPs. change (pos_stm (abs s)) with (to_move s) in EPs.
  destruct (sq_of_pt t) as [f r] eqn:Et.
  apply andb_true_iff in EPs. destruct EPs as [EPs On].
  assert (Ht : is_inner t = true) by (apply inner_on8; now rewrite Et).
  assert (Ft : f = snd t - BOARD_START /\ r = BOARD_END - 1 - fst t) by (unfold sq_of_pt in Et; split; congruence).
  destruct Ft as [Ff Rt].
  assert (Pt : forall r', pt_of_sq (f, r') = (BOARD_END - 1 - r', snd t)).
  { intros r'. unfold pt_of_sq. cbn [fst snd]. f_equal. unfold BOARD_START in *. lia. }
  destruct (to_move s); apply andb_true_iff in EPs; destruct EPs as [EPs PA]; apply andb_true_iff in EPs; destruct EPs as [EPs O2];
    apply andb_true_iff in EPs; destruct EPs as [Er O1]; apply Z.eqb_eq in Er; apply negb_true_iff in O1.
  - pose proof (piece_at_on8 _ _ _ PA) as OnV. apply piece_at_get in PA; [|exact OnV]. rewrite Pt in PA.
    rewrite <- Er in O1. apply (occupied_abs (board s) OK _ On) in O1. rewrite <- Et, pt_sq in O1.
    unfold BOARD_END in *. assert (F : fst t = 4) by lia.
    split; [exact Ht|]. split; [exact O1|]. split; [exact F|]. cbv zeta. rewrite F.
    change (10 - 1 - 4) with (4 + 1) in PA. split; [|exact PA].
    apply inner_on8. replace (sq_of_pt (4 + 1, snd t)) with (f, 4); [exact OnV|].
    unfold sq_of_pt, BOARD_END. cbn [fst snd]. f_equal. exact Ff.
  - pose proof (piece_at_on8 _ _ _ PA) as OnV. apply piece_at_get in PA; [|exact OnV]. rewrite Pt in PA.
    rewrite <- Er in O1. apply (occupied_abs (board s) OK _ On) in O1. rewrite <- Et, pt_sq in O1.
    unfold BOARD_END in *. assert (F : fst t = 7) by lia.
    split; [exact Ht|]. split; [exact O1|]. split; [exact F|]. cbv zeta. rewrite F.
    change (10 - 1 - 3) with (7 - 1) in PA. split; [|exact PA].
    apply inner_on8. replace (sq_of_pt (7 - 1, snd t)) with (f, 3); [exact OnV|].
    unfold sq_of_pt, BOARD_END. cbn [fst snd]. f_equal. exact Ff.
Qed.

(* C01's "legal position", for a coherent representation, gives the hypothesis of the theorems *)
Theorem legal_position_pos_ok1 s :
  cells_ok (board s) -> kings_ok s -> legal_position (abs s) = true -> pos_ok1 s.
Proof.
  intros OK KO LP. apply legal_position_parts in LP. destruct LP as (NC & Rwk & Rwq & Rbk & Rbq & EPs).
  pose proof (rights_home_of_legal s Rwk Rwq Rbk Rbq) as RH.
  split; [|intros t D; apply (ep_of_legal s t OK EPs D)].
  split; [exact OK|]. split; [exact KO|]. split; [exact RH|]. split.
  - intros t D. destruct (ep_of_legal s t OK EPs D) as (A & B0 & _ & C). auto.
  - apply no_king_target; auto.
Qed.
