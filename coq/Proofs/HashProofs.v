(* The incremental key against the from-scratch hash: XOR algebra, for any table. *)
From Walleye Require Import Model.Zobrist Spec.Abs.
Open Scope N_scope.

(* decide equalities of XOR expressions bit by bit *)
Ltac xor_solve :=
  apply N.bits_inj; intros ?n; rewrite ?N.lxor_spec, ?N.bits_0;
  repeat match goal with |- context [N.testbit ?x ?n] => generalize (N.testbit x n); intro end;
  repeat match goal with b : bool |- _ => destruct b end; reflexivity.

Lemma xor_cancel a b : N.lxor (N.lxor a b) b = a.
Proof. xor_solve. Qed.
Lemma xor_move a b c : N.lxor a b = c <-> a = N.lxor c b.
Proof. split; intros H; subst; xor_solve. Qed.

Section H.
Variable zt : ztable.

Definition key_ok (s : BoardState) : Prop := zobrist_key s = hash zt (abs s).

(* the hash as a flat XOR of its seven components *)
Definition stm_term (c : color) : N := match c with Black => z_black zt | White => 0 end.
Definition right_term (b : bool) (c : castling) : N := if b then z_castle zt c else 0.
Definition ep_term (e : option sq) : N := match e with Some q => z_ep zt (fst q + BOARD_START)%Z | None => 0 end.

Lemma hash_flat p :
  hash zt p = N.lxor (N.lxor (N.lxor (N.lxor (N.lxor (N.lxor (hash_placement zt (pos_pl p)) (stm_term (pos_stm p)))
                (right_term (pos_wk p) WKS)) (right_term (pos_wq p) WQS)) (right_term (pos_bk p) BKS))
                (right_term (pos_bq p) BQS)) (ep_term (pos_ep p)).
Proof.
  unfold hash, stm_term, right_term, ep_term.
  destruct (pos_stm p), (pos_wk p), (pos_wq p), (pos_bk p), (pos_bq p), (pos_ep p); rewrite ?N.lxor_0_r; reflexivity.
Qed.

(* ---- the helpers that do not touch the squares *)
Lemma swap_color_key_ok s : key_ok s -> key_ok (swap_color zt s).
Proof.
  unfold key_ok. intros H. rewrite !hash_flat in *.
  unfold swap_color, kx. cbn [zobrist_key with_key with_to_move abs pos_pl pos_stm pos_wk pos_wq pos_bk pos_bq pos_ep
                              board to_move wks wqs bks bqs pawn_double_move] in *.
  rewrite H. unfold stm_term. destruct (to_move s); cbn [opposite]; xor_solve.
Qed.

Lemma take_away_key_ok s c : key_ok s -> key_ok (take_away_castling_rights zt s c).
Proof.
  unfold key_ok, take_away_castling_rights. intros H.
  destruct (right s c) eqn:R; [|exact H].
  rewrite !hash_flat in *.
  unfold kx. cbn [zobrist_key with_key with_right abs pos_pl pos_stm pos_wk pos_wq pos_bk pos_bq pos_ep
                  board to_move wks wqs bks bqs pawn_double_move] in *.
  rewrite H. unfold right_term.
  destruct c; cbn [right] in R; rewrite R; destruct (wks s), (wqs s), (bks s), (bqs s); try discriminate; xor_solve.
Qed.

Lemma unset_pdm_key_ok s : key_ok s -> key_ok (unset_pawn_double_move zt s).
Proof.
  unfold key_ok, unset_pawn_double_move. intros H.
  destruct (pawn_double_move s) as [t|] eqn:P; [|exact H].
  rewrite !hash_flat in *.
  unfold kx. cbn [zobrist_key with_key with_pdm abs pos_pl pos_stm pos_wk pos_wq pos_bk pos_bq pos_ep
                  board to_move wks wqs bks bqs pawn_double_move] in *.
  rewrite H, P. unfold ep_term. cbn [sq_of_pt fst snd].
  replace (snd t - BOARD_START + BOARD_START)%Z with (snd t) by (unfold BOARD_START; lia).
  xor_solve.
Qed.

(* setting a new en-passant target on a state that has none *)
Lemma set_pdm_key_ok s t :
  key_ok s -> pawn_double_move s = None -> key_ok (kx (with_pdm s (Some t)) (z_ep zt (snd t))).
Proof.
  unfold key_ok. intros H P. rewrite !hash_flat in *.
  unfold kx. cbn [zobrist_key with_key with_pdm abs pos_pl pos_stm pos_wk pos_wq pos_bk pos_bq pos_ep
                  board to_move wks wqs bks bqs pawn_double_move] in *.
  rewrite H, P. unfold ep_term. cbn [sq_of_pt fst snd].
  replace (snd t - BOARD_START + BOARD_START)%Z with (snd t) by (unfold BOARD_START; lia).
  xor_solve.
Qed.

Lemma unset_pdm_none s : pawn_double_move (unset_pawn_double_move zt s) = None.
Proof. unfold unset_pawn_double_move. destruct (pawn_double_move s) eqn:P; [reflexivity|exact P]. Qed.

(* fields that the key does not depend on *)
Lemma key_ok_irrelevant s oh lm pp :
  key_ok s -> key_ok (with_promo (with_last (with_oh s oh) lm) pp).
Proof. unfold key_ok. intros H. exact H. Qed.

End H.

(* ---- the squares: the placement hash is a XOR-sum over the 64 squares, one term per square *)
From Walleye Require Import Proofs.Cells.
Open Scope N_scope.

Section P.
Variable zt : ztable.

Fixpoint xsum (g : sq -> N) (l : list sq) : N :=
  match l with [] => 0 | q :: t => N.lxor (g q) (xsum g t) end.

Definition zterm (s : square) (p : point) : N := match s with Full pc => z_piece zt pc p | _ => 0 end.

Lemma fold_xor_xsum (pl : placement) l : forall acc,
  fold_left (fun k q => match pget pl q with Some pc => N.lxor k (z_piece zt pc (pt_of_sq q)) | None => k end) l acc
  = N.lxor acc (xsum (fun q => match pget pl q with Some pc => z_piece zt pc (pt_of_sq q) | None => 0 end) l).
Proof.
  induction l as [|q t IH]; intros acc; cbn [fold_left xsum]; [now rewrite N.lxor_0_r|].
  rewrite IH. destruct (pget pl q); [|rewrite N.lxor_0_l; reflexivity]. xor_solve.
Qed.

Lemma xsum_ext g g' l : (forall q, In q l -> g q = g' q) -> xsum g l = xsum g' l.
Proof.
  induction l as [|q t IH]; intros H; cbn [xsum]; [reflexivity|].
  rewrite (H q (or_introl eq_refl)), IH; [reflexivity|]. intros x Hx; apply H; now right.
Qed.

(* changing the function at one point of a duplicate-free list changes the sum by the two terms *)
Lemma xsum_change g g' l q0 :
  NoDup l -> In q0 l -> (forall q, In q l -> q <> q0 -> g' q = g q) ->
  xsum g' l = N.lxor (N.lxor (xsum g l) (g q0)) (g' q0).
Proof.
  induction l as [|q t IH]; intros ND Hin Hsame; [contradiction|].
  inversion ND as [|? ? Hnotin ND']; subst. cbn [xsum].
  destruct Hin as [->|Hin].
  - rewrite (xsum_ext g' g t).
    + xor_solve.
    + intros x Hx. apply Hsame; [now right|]. intros ->. contradiction.
  - rewrite (IH ND' Hin) by (intros x Hx Hne; apply Hsame; [now right|exact Hne]).
    rewrite (Hsame q (or_introl eq_refl)) by (intros ->; contradiction). xor_solve.
Qed.

Lemma all_sq_nodup : NoDup all_sq.
Proof.
  assert (H : forall (l : list sq), (forallb (fun i => forallb (fun j => (Nat.eqb i j) || negb (sq_eqb (nth i l (0,0)%Z) (nth j l (0,0)%Z)))
                                      (seq 0 (length l))) (seq 0 (length l))) = true -> NoDup l).
  { intros l H. apply (NoDup_nth l (0,0)%Z). intros i j Hi Hj E.
    rewrite forallb_forall in H. specialize (H i ltac:(apply in_seq; lia)).
    rewrite forallb_forall in H. specialize (H j ltac:(apply in_seq; lia)).
    apply orb_true_iff in H. destruct H as [H|H]; [now apply Nat.eqb_eq|].
    rewrite E in H. unfold sq_eqb in H. rewrite !Z.eqb_refl in H. discriminate. }
  apply H. vm_compute. reflexivity.
Qed.

Lemma all_sq_index_ok :
  forallb (fun q => on8 q && match nth_error all_sq (pidx q) with Some q' => sq_eqb q q' | None => false end) all_sq = true.
Proof. vm_compute. reflexivity. Qed.

Lemma sq_eqb_eq a b : sq_eqb a b = true -> a = b.
Proof.
  unfold sq_eqb. destruct a, b; cbn [fst snd]. rewrite andb_true_iff, !Z.eqb_eq. intros [-> ->]. reflexivity.
Qed.

(* reading the abstraction: the 8x8 square q shows the cell pt_of_sq q *)
Lemma pget_abs b q : In q all_sq -> pget (abs_placement b) q = opt_of_square (get b (pt_of_sq q)).
Proof.
  intros Hq. pose proof all_sq_index_ok as H. rewrite forallb_forall in H. specialize (H q Hq).
  apply andb_true_iff in H. destruct H as [Hon H].
  destruct (nth_error all_sq (pidx q)) as [q'|] eqn:E; [|discriminate].
  apply sq_eqb_eq in H. subst q'.
  unfold pget. rewrite Hon. unfold abs_placement.
  apply nth_error_nth. rewrite nth_error_map, E. reflexivity.
Qed.

Lemma hash_placement_xsum b :
  hash_placement zt (abs_placement b) = xsum (fun q => zterm (get b (pt_of_sq q)) (pt_of_sq q)) all_sq.
Proof.
  unfold hash_placement. rewrite fold_xor_xsum, N.lxor_0_l.
  apply xsum_ext. intros q Hq. rewrite (pget_abs b q Hq). unfold zterm.
  destruct (get b (pt_of_sq q)); reflexivity.
Qed.

Lemma inner_sq_in_all_sq p : is_inner p = true -> In (sq_of_pt p) all_sq /\ pt_of_sq (sq_of_pt p) = p.
Proof.
  rewrite is_inner_spec. destruct p as [r c]. cbn [fst snd]. intros [Hr Hc].
  unfold sq_of_pt, pt_of_sq, BOARD_START, BOARD_END. cbn [fst snd].
  split; [|f_equal; lia].
  assert (Er : In r [2;3;4;5;6;7;8;9]%Z) by (cbn; lia).
  assert (Ec : In c [2;3;4;5;6;7;8;9]%Z) by (cbn; lia).
  cbn in Er, Ec.
  repeat (destruct Er as [<-|Er]; [repeat (destruct Ec as [<-|Ec]; [vm_compute; tauto|]); contradiction|]).
  contradiction.
Qed.

Lemma pt_of_sq_inj q q' : pt_of_sq q = pt_of_sq q' -> q = q'.
Proof.
  unfold pt_of_sq, BOARD_START, BOARD_END. destruct q as [f r], q' as [f' r']; cbn [fst snd]. intros H.
  assert (H1 : (10 - 1 - r = 10 - 1 - r')%Z) by congruence. assert (H2 : (f + 2 = f' + 2)%Z) by congruence.
  f_equal; lia.
Qed.

(* writing one inner cell changes the placement hash by the old and the new term of that cell *)
Lemma hash_placement_set b p v :
  is_inner p = true -> length b = 144%nat ->
  hash_placement zt (abs_placement (set b p v))
  = N.lxor (N.lxor (hash_placement zt (abs_placement b)) (zterm (get b p) p)) (zterm v p).
Proof.
  intros Hin L. rewrite !hash_placement_xsum.
  destruct (inner_sq_in_all_sq p Hin) as [Hq0 Hpt].
  rewrite (xsum_change (fun q => zterm (get b (pt_of_sq q)) (pt_of_sq q))
                       (fun q => zterm (get (set b p v) (pt_of_sq q)) (pt_of_sq q)) all_sq (sq_of_pt p)
                       all_sq_nodup Hq0).
  - rewrite Hpt. rewrite get_set_same by (auto using is_inner_in_grid). reflexivity.
  - intros q _ Hne. rewrite get_set_other; [reflexivity|].
    intros E. apply Hne. apply pt_of_sq_inj. now rewrite Hpt.
Qed.

End P.
