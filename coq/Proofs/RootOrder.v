(* C18: the reports of one search are ordered - depths never decrease, and within a depth each report
   carries a strictly larger score than the one before - for every position, ordering oracle and expiry index. *)
From Walleye Require Import Model.Search Proofs.ClockSim Proofs.RootSim.
Open Scope Z_scope.

(* every report in evs lies below (d, e): an earlier depth, or the same depth with a smaller-or-equal score *)
Definition below_or_at (d e : Z) (evs : list event) : Prop :=
  Forall (fun ev => match ev with Info d' e' _ => d' < d \/ (d' = d /\ e' <= e) | Send _ => True end) evs.
Definition strictly_below (d e : Z) (evs : list event) : Prop :=
  Forall (fun ev => match ev with Info d' e' _ => d' < d \/ (d' = d /\ e' < e) | Send _ => True end) evs.

(* newest first: each report dominates everything before it *)
Fixpoint well_ordered (evs : list event) : Prop :=
  match evs with
  | [] => True
  | Info d e _ :: t => strictly_below d e t /\ well_ordered t
  | Send _ :: t => well_ordered t
  end.

Lemma below_weaken d e d2 e2 evs : (d < d2 \/ (d = d2 /\ e <= e2)) -> below_or_at d e evs -> below_or_at d2 e2 evs.
Proof.
  intros H B. eapply Forall_impl; [|exact B]. intros [b|d' e' l]; [auto|]. intros [L|[-> L]]; destruct H as [H|[-> H]]; lia.
Qed.

Section S.
Variable zt : ztable.
Variable osort : N -> list BoardState -> list BoardState.
Variable k : option N.
Variable fuel : nat.

Lemma root_moves_order first : forall ms d alpha r o r',
  well_ordered (r_events r) -> below_or_at d alpha (r_events r) ->
  root_moves zt osort k fuel first ms d alpha r = Ok (o, r') ->
  well_ordered (r_events r') /\ exists a', below_or_at d a' (r_events r').
Proof.
  induction ms as [|mov rest IH]; intros d alpha r o r' W B H; cbn [root_moves] in H.
  - inversion H; subst. eauto.
  - destruct (out_of_time k (r_s r)) as [expired s] eqn:E.
    destruct expired.
    + inversion H; subst. cbn [r_events]. destruct (r_best r); [eauto|].
      split; [exact W|]. exists alpha. constructor; [exact I|exact B].
    + destruct (alpha_beta zt osort k fuel mov (d - 1) 1 (- POS_INF) (- alpha) true s) as [[v s1]| |]; try discriminate.
      destruct (insert_into_cur_line s1 0 mov) as [s2| |]; try discriminate.
      destruct (alpha <? - v) eqn:Lt.
      * apply Z.ltb_lt in Lt. destruct (out_of_time k s2) as [expired2 s3].
        destruct expired2; cbn [negb] in H.
        -- eapply IH; [| |exact H]; assumption.
        -- eapply IH; [| |exact H]; cbn [r_events].
           ++ split; [|exact W]. constructor; [exact I|].
              eapply Forall_impl; [|exact B]. intros [b0|d' e' l]; [auto|]. intros [L|[-> L]]; [left; exact L|right; split; [reflexivity|lia]].
           ++ constructor; [right; split; [reflexivity|lia]|]. constructor; [exact I|].
              apply (below_weaken d alpha d (- v)); [right; split; [reflexivity|lia]|exact B].
      * eapply IH; [| |exact H]; assumption.
Qed.

Lemma root_depths_order b : forall iters moves d r r',
  well_ordered (r_events r) -> (exists a, below_or_at (d - 1) a (r_events r)) ->
  root_depths zt osort k iters fuel b moves d r = Ok r' -> well_ordered (r_events r').
Proof.
  induction iters as [|it IH]; intros moves d r r' W [a B] H; cbn [root_depths] in H.
  - inversion H; subst; exact W.
  - destruct (MAX_DEPTH <=? d); [inversion H; subst; exact W|].
    destruct (do_sort osort moves (reset_search (r_s r))) as [sorted s].
    assert (B' : forall x, below_or_at d x (r_events r)).
    { intros x. eapply Forall_impl; [|exact B]. intros [b0|d' e' l]; [auto|]. intros [L|[-> L]]; left; lia. }
    destruct sorted as [|first rest].
    + apply (fun X => IH _ _ (mkR s (r_best r) (r_events r)) _ W X H). exists 0. cbn [r_events].
      replace (d + 1 - 1) with d by ring. apply B'.
    + destruct (root_moves zt osort k fuel first (first :: rest) d NEG_INF (mkR s (r_best r) (r_events r))) as [[o r3]| |] eqn:RM; try discriminate.
      destruct (root_moves_order first _ _ _ (mkR s (r_best r) (r_events r)) _ _ W (B' NEG_INF) RM) as [W3 [a3 B3]].
      destruct (root_moves_grow zt osort _ _ _ _ _ _ _ _ _ RM) as [_ Ho].
      destruct o as [r''|].
      * rewrite (Ho r'' eq_refl) in H. apply (fun X => IH _ _ _ _ W3 X H). exists a3. replace (d + 1 - 1) with d by ring. exact B3.
      * inversion H; subst. exact W3.
Qed.

Theorem reports_well_ordered b t ev s :
  get_best_move zt osort k fuel b t = Ok (ev, s) -> well_ordered (rev ev).
Proof.
  unfold get_best_move. intros H.
  destruct (root_depths zt osort k (Z.to_nat MAX_DEPTH) fuel b (generate_moves zt b AllMoves) 1 (mkR (new_search t) None [])) as [r| |] eqn:RD; try discriminate.
  inversion H; subst. rewrite rev_involutive.
  eapply root_depths_order; [| |exact RD]; [exact I|]. exists 0. constructor.
Qed.

End S.
