(* C13: capture-only generation yields exactly the legal captures (en passant included), each once. *)
From Walleye Require Import Model.Successor Spec.Abs Proofs.Cells Proofs.Ray Proofs.HashProofs Proofs.AttackGeom Proofs.AbsSet
  Proofs.KeyInvariant Proofs.CheckProofs Proofs.MoveGenProofs Proofs.GenShape Proofs.SuccessorAbs Proofs.GenerateAbs
  Proofs.SuccessorWf Proofs.PseudoLegal Proofs.LegalMoves Proofs.NoDupMoves Proofs.LegalPosition Proofs.Preservation.
Open Scope Z_scope.

Lemma filter_flat_map {A B} (f : B -> bool) (g : A -> list B) l :
  filter f (flat_map g l) = flat_map (fun a => filter f (g a)) l.
Proof. induction l as [|a l IH]; cbn [flat_map filter]; [reflexivity|]. now rewrite filter_app, IH. Qed.

Definition occupied_sq (b : cells) (x : point) : bool := negb (is_empty (get b x)).

(* ---- the capture-only targets are the occupied ones among all targets, in the same order *)
Section T.
Variable b : cells.

Lemma step_target_captures c q : step_target b c CapturesOnly q = filter (occupied_sq b) (step_target b c AllMoves q).
Proof.
  unfold step_target, occupied_sq. cbn [mode_all]. destruct (is_empty_or_color (get b q) (opposite c)); [|reflexivity].
  cbn [filter]. destruct (negb (is_empty (get b q))); reflexivity.
Qed.

Lemma steps_captures (L : list point) c p :
  flat_map (fun d => step_target b c CapturesOnly (padd p d)) L =
  filter (occupied_sq b) (flat_map (fun d => step_target b c AllMoves (padd p d)) L).
Proof. rewrite filter_flat_map. apply flat_map_ext. intros d. apply step_target_captures. Qed.

Lemma ray_captures fuel d enemy : forall p,
  ray fuel b p d CapturesOnly enemy = filter (occupied_sq b) (ray fuel b p d AllMoves enemy).
Proof.
  induction fuel as [|f IH]; intros p; cbn [ray]; [reflexivity|]. cbn [mode_all].
  destruct (is_empty (get b p)) eqn:E.
  - cbn [app filter]. unfold occupied_sq at 1. rewrite E. cbn [negb]. apply IH.
  - destruct (is_color (get b p) enemy); [|reflexivity]. cbn [filter]. unfold occupied_sq. rewrite E. reflexivity.
Qed.

Lemma slide_captures dirs pc p : slide dirs pc p b CapturesOnly = filter (occupied_sq b) (slide dirs pc p b AllMoves).
Proof. unfold slide. rewrite filter_flat_map. apply flat_map_ext. intros d. apply ray_captures. Qed.

Lemma pawn_captures pc p : pawn_moves pc p b CapturesOnly = filter (occupied_sq b) (pawn_moves pc p b AllMoves).
Proof.
  assert (K : forall x c, filter (occupied_sq b) (if is_color (get b x) c then [x] else []) = if is_color (get b x) c then [x] else []).
  { intros x c. destruct (is_color (get b x) c) eqn:E; [|reflexivity]. cbn [filter]. unfold occupied_sq.
    destruct (get b x); cbn in *; try discriminate. reflexivity. }
  assert (P : forall x y (c2 : bool), filter (occupied_sq b) (if true && is_empty (get b x) then x :: (if c2 && is_empty (get b y) then [y] else []) else []) = []).
  { intros x y c2. cbn [andb]. destruct (is_empty (get b x)) eqn:E; [|reflexivity]. cbn [filter]. unfold occupied_sq at 1. rewrite E. cbn [negb].
    destruct c2; cbn [andb]; [|reflexivity]. destruct (is_empty (get b y)) eqn:E2; [|reflexivity]. cbn [filter]. unfold occupied_sq. now rewrite E2. }
  unfold pawn_moves. destruct p as [row col]. destruct (pcolor pc); cbn [mode_all]; rewrite !filter_app, !K, P; cbn [andb]; reflexivity.
Qed.

Lemma get_moves_captures pc p : get_moves pc p b CapturesOnly = filter (occupied_sq b) (get_moves pc p b AllMoves).
Proof.
  unfold get_moves. destruct (pkind pc).
  - apply pawn_captures.
  - apply steps_captures.
  - apply slide_captures.
  - apply slide_captures.
  - unfold queen_moves, rook_moves, bishop_moves. now rewrite filter_app, !slide_captures.
  - apply steps_captures.
Qed.

End T.

Section C.
Variable zt : ztable.

(* a capture-only successor is a successor of full generation *)
Lemma captures_in_all s x : In x (generate_moves zt s CapturesOnly) -> In x (generate_moves zt s AllMoves).
Proof.
  intros H. unfold generate_moves in *. cbn [mode_all] in H. rewrite app_nil_r in H. apply in_or_app. left.
  apply in_flat_map in H. destruct H as [p [Hp H]]. apply in_flat_map. exists p. split; [exact Hp|].
  destruct (get (board s) p) as [|pc|]; try contradiction. destruct (color_eqb (pcolor pc) (to_move s)); [|contradiction].
  unfold generate_moves_for_piece in *. apply in_app_or in H. apply in_or_app. destruct H as [H|H]; [left|right; exact H].
  apply in_flat_map in H. destruct H as [mov [Hm H]]. apply in_flat_map. exists mov. split; [|exact H].
  rewrite get_moves_captures in Hm. apply filter_In in Hm. tauto.
Qed.

(* which of the full generation's successors the capture-only mode keeps *)
Lemma captures_view s x :
  In x (generate_moves zt s CapturesOnly) <->
  exists p pc, is_inner p = true /\ get (board s) p = Full pc /\ pcolor pc = to_move s /\
    ((exists mov, In mov (get_moves pc p (board s) AllMoves) /\ get (board s) mov <> Empty /\ In x (successors_of_move zt s pc p mov))
     \/ In x (en_passant_successor zt s pc p)).
Proof.
  unfold generate_moves. cbn [mode_all]. rewrite app_nil_r. rewrite in_flat_map. split.
  - intros [p [Hp H]]. apply in_inner_points in Hp.
    destruct (get (board s) p) as [|pc|] eqn:G; try contradiction.
    destruct (color_eqb_spec (pcolor pc) (to_move s)) as [PC|]; [|contradiction].
    exists p, pc. repeat (split; [assumption|]).
    unfold generate_moves_for_piece in H. apply in_app_or in H. destruct H as [H|H]; [left|right; exact H].
    apply in_flat_map in H. destruct H as [mov [Hm H]]. rewrite get_moves_captures in Hm. apply filter_In in Hm.
    destruct Hm as [Hm Oc]. exists mov. split; [exact Hm|]. split; [|exact H].
    unfold occupied_sq in Oc. intros E. rewrite E in Oc. discriminate.
  - intros (p & pc & Hp & G & PC & H). exists p. split; [now apply inner_in_points|]. rewrite G, PC, color_eqb_refl.
    unfold generate_moves_for_piece. apply in_or_app. destruct H as [(mov & Hm & Ne & H)|H]; [left|right; exact H].
    apply in_flat_map. exists mov. split; [|exact H]. rewrite get_moves_captures. apply filter_In. split; [exact Hm|].
    unfold occupied_sq. destruct (get (board s) mov); [contradiction|reflexivity|reflexivity].
Qed.

Lemma legal_captures_in p m : In m (legal_captures p) <-> In m (legal_moves p) /\ is_capture p m = true.
Proof. unfold legal_captures. rewrite filter_In. tauto. Qed.

(* a castling successor: the king's two-step from its home square onto an empty square *)
Lemma castle_desc_empty s x :
  rights_home s -> In x (generate_castling_moves zt s) ->
  exists r0 kc c, desc x = Some (mkMove (sq_of_pt (r0, 6)) (sq_of_pt (r0, kc)) None) /\ (r0 = 9 \/ r0 = 2) /\ (kc = 8 \/ kc = 4) /\
                  get (board s) (r0, 6) = Full (mkPiece c King) /\ get (board s) (r0, kc) = Empty.
Proof.
  intros RH H. unfold generate_castling_moves in H.
  repeat (apply in_app_or in H; destruct H as [H|H]);
    match type of H with In x (if ?c then _ else _) => destruct c eqn:Cond; [|contradiction] end;
    destruct H as [<-|[]]; apply andb_true_iff in Cond; destruct Cond as [_ CC];
    unfold can_castle, can_castle_white_king_side, can_castle_white_queen_side, can_castle_black_king_side, can_castle_black_queen_side, e in CC;
    unfold BOARD_START, BOARD_END in *;
    change (10 - 1) with 9 in *; change (10 - 2) with 8 in *; change (10 - 3) with 7 in *;
    change (2 + 1) with 3 in *; change (2 + 2) with 4 in *; change (2 + 3) with 5 in *.
  - destruct (wks s) eqn:R; cbn [negb] in CC; cbv iota in CC; [|discriminate].
    destruct (get (board s) (9, 7)) eqn:E1; cbn [is_empty negb orb] in CC; cbv iota in CC; try discriminate.
    destruct (get (board s) (9, 8)) eqn:E2; cbn [is_empty negb orb] in CC; cbv iota in CC; try discriminate.
    destruct (rights_home_r s WKS RH R) as [GK _]. cbn [king_home right_color] in GK.
    exists 9, 8, White. split; [apply castle_desc_val|auto 10].
  - destruct (wqs s) eqn:R; cbn [negb] in CC; cbv iota in CC; [|discriminate].
    destruct (get (board s) (9, 3)) eqn:E3; cbn [is_empty negb orb] in CC; cbv iota in CC; try discriminate.
    destruct (get (board s) (9, 4)) eqn:E1; cbn [is_empty negb orb] in CC; cbv iota in CC; try discriminate.
    destruct (rights_home_r s WQS RH R) as [GK _]. cbn [king_home right_color] in GK.
    exists 9, 4, White. split; [apply castle_desc_val|auto 10].
  - destruct (bks s) eqn:R; cbn [negb] in CC; cbv iota in CC; [|discriminate].
    destruct (get (board s) (2, 7)) eqn:E1; cbn [is_empty negb orb] in CC; cbv iota in CC; try discriminate.
    destruct (get (board s) (2, 8)) eqn:E2; cbn [is_empty negb orb] in CC; cbv iota in CC; try discriminate.
    destruct (rights_home_r s BKS RH R) as [GK _]. cbn [king_home right_color] in GK.
    exists 2, 8, Black. split; [apply castle_desc_val|auto 10].
  - destruct (bqs s) eqn:R; cbn [negb] in CC; cbv iota in CC; [|discriminate].
    destruct (get (board s) (2, 3)) eqn:E3; cbn [is_empty negb orb] in CC; cbv iota in CC; try discriminate.
    destruct (get (board s) (2, 4)) eqn:E1; cbn [is_empty negb orb] in CC; cbv iota in CC; try discriminate.
    destruct (rights_home_r s BQS RH R) as [GK _]. cbn [king_home right_color] in GK.
    exists 2, 4, Black. split; [apply castle_desc_val|auto 10].
Qed.

(* no duplicates in capture-only mode *)
Lemma NoDup_desc_piece_captures s pc p :
  ep_ok_model s -> get (board s) p = Full pc ->
  NoDup (map desc (generate_moves_for_piece zt pc s p CapturesOnly)).
Proof.
  intros EP G. unfold generate_moves_for_piece. rewrite map_app, map_flat_map. apply NoDup_app_intro.
  - apply NoDup_flat_map_disjoint; [rewrite get_moves_captures; apply NoDup_filter, get_moves_NoDup|intros; apply NoDup_desc_successors|].
    intros mov mov' y _ _ Hne H1 H2. apply in_map_iff in H1, H2.
    destruct H1 as [x [<- Hx]]. destruct H2 as [x' [E Hx']].
    destruct (desc_successors zt s pc p mov x Hx) as [pr Hd]. destruct (desc_successors zt s pc p mov' x' Hx') as [pr' Hd'].
    rewrite Hd, Hd' in E. apply Hne. apply sq_of_pt_inj. congruence.
  - apply NoDup_desc_ep.
  - intros y H1 H2. apply in_flat_map in H1. destruct H1 as [mov [Hmov H1]]. apply in_map_iff in H1, H2.
    destruct H1 as [x [<- Hx]]. destruct H2 as [x' [E Hx']].
    destruct (desc_successors zt s pc p mov x Hx) as [pr Hd].
    destruct (desc_ep zt s pc p x' Hx') as (dm & D & PK & Eg & Hd').
    rewrite Hd, Hd' in E. assert (mov = dm) by (apply sq_of_pt_inj; congruence). subst mov.
    destruct (EP dm D) as (_ & Gt & _).
    rewrite get_moves_captures in Hmov. apply filter_In in Hmov. destruct Hmov as [_ Oc]. unfold occupied_sq in Oc. rewrite Gt in Oc. discriminate.
Qed.

Lemma NoDup_captures s : pos_ok s AllMoves -> NoDup (map desc (generate_moves zt s CapturesOnly)).
Proof.
  intros (OK & KO & RH & EP & NK). unfold generate_moves. cbn [mode_all]. rewrite app_nil_r, map_flat_map.
  apply NoDup_flat_map_disjoint; [apply inner_points_NoDup| |].
  - intros p _. destruct (get (board s) p) as [|pc|] eqn:G; try constructor.
    destruct (color_eqb (pcolor pc) (to_move s)); [|constructor]. now apply NoDup_desc_piece_captures.
  - intros p p' y _ _ Hne H1 H2. apply in_map_iff in H1, H2. destruct H1 as [x [<- Hx]]. destruct H2 as [x' [E Hx']].
    destruct (get (board s) p) as [|pc|]; try contradiction. destruct (color_eqb (pcolor pc) (to_move s)); [|contradiction].
    destruct (get (board s) p') as [|pc'|]; try contradiction. destruct (color_eqb (pcolor pc') (to_move s)); [|contradiction].
    assert (F : forall q pcq z, In z (generate_moves_for_piece zt pcq s q CapturesOnly) -> exists mv, desc z = Some mv /\ mfrom mv = sq_of_pt q).
    { intros q pcq z H. unfold generate_moves_for_piece in H. apply in_app_or in H. destruct H as [H|H].
      - apply in_flat_map in H. destruct H as [mov [_ H]]. destruct (desc_successors zt s pcq q mov z H) as [pr Hd]. eexists. split; [exact Hd|reflexivity].
      - destruct (desc_ep zt s pcq q z H) as (dm & _ & _ & _ & Hd). eexists. split; [exact Hd|reflexivity]. }
    destruct (F p pc x Hx) as (mv & Hd & Hf). destruct (F p' pc' x' Hx') as (mv' & Hd' & Hf').
    apply Hne. apply sq_of_pt_inj. rewrite <- Hf, <- Hf'. congruence.
Qed.

Theorem capture_moves_exact s :
  pos_ok1 s ->
  (forall mv, In (Some mv) (map desc (generate_moves zt s CapturesOnly)) <-> In mv (legal_captures (abs s))) /\
  NoDup (map desc (generate_moves zt s CapturesOnly)).
Proof.
  intros PO1. assert (PO := proj1 PO1). assert (PO' := PO). destruct PO' as (OK & KO & RH & EP & NK). split.
  - intros mv. rewrite legal_captures_in. split.
    + (* sound: a legal move onto an occupied square, or an en-passant capture *)
      intros H. apply in_map_iff in H. destruct H as [x [Hd Hx]].
      destruct (generated_moves_are_legal zt s x PO (captures_in_all s x Hx)) as (mv' & Hd' & Hl).
      assert (mv' = mv) by congruence. subst mv'. split; [exact Hl|].
      apply captures_view in Hx. destruct Hx as (p & pc & Hp & G & PC & [(mov & Hm & Ne & Hx)|Hx]).
      * destruct (desc_successors zt s pc p mov x Hx) as [pr Hds]. assert (Emv : mv = mkMove (sq_of_pt p) (sq_of_pt mov) pr) by congruence.
        subst mv. unfold is_capture. cbn [mto abs pos_pl].
        assert (Hin : is_inner mov = true).
        { destruct OK as (_ & Ring & _). apply (not_boundary_inner _ _ Ring). exact (get_moves_not_boundary pc p (board s) AllMoves mov Hm). }
        unfold occupied. rewrite pget_abs_on, pt_sq by (now apply inner_on8).
        destruct (get (board s) mov) as [|q|] eqn:Gm; [contradiction|reflexivity|].
        exfalso. destruct OK as (_ & _ & I). now apply (I mov Hin).
      * destruct (desc_ep zt s pc p x Hx) as (dm & D & PK & Eg & Hds). assert (Emv : mv = mkMove (sq_of_pt p) (sq_of_pt dm) None) by congruence.
        subst mv. unfold is_capture. apply orb_true_iff. right.
        destruct (EP dm D) as (Hm & Gt & _).
        unfold is_ep_capture. cbn [mfrom mto abs pos_pl pos_ep]. rewrite D.
        rewrite pget_abs_on, pt_sq, G by (now apply inner_on8). cbn [opt_of_square is_pawn]. rewrite PK. cbn [kind_eqb andb].
        destruct (sq_eqb_spec (sq_of_pt dm) (sq_of_pt dm)); [|contradiction].
        unfold occupied. rewrite pget_abs_on, pt_sq, Gt by (now apply inner_on8). cbn [opt_of_square negb]. rewrite !andb_true_r.
        destruct p as [row col]. apply ep_geometry in Eg. destruct Eg as (_ & _ & Tg).
        unfold sq_of_pt. cbn [fst snd]. apply negb_true_iff. apply Z.eqb_neq. destruct Tg as [-> | ->]; cbn [snd]; lia.
    + (* complete *)
      intros [Hl Hc]. destruct (legal_moves_are_generated zt s mv PO1 Hl) as (x & Hx & Hd).
      apply in_map_iff. exists x. split; [exact Hd|]. apply captures_view.
      unfold generate_moves in Hx. apply in_app_or in Hx. destruct Hx as [Hx|Hx].
      * apply in_flat_map in Hx. destruct Hx as [p [Hp Hx]]. apply in_inner_points in Hp.
        destruct (get (board s) p) as [|pc|] eqn:G; try contradiction.
        destruct (color_eqb_spec (pcolor pc) (to_move s)) as [PC|]; [|contradiction].
        exists p, pc. repeat (split; [assumption|]).
        unfold generate_moves_for_piece in Hx. apply in_app_or in Hx. destruct Hx as [Hx|Hx]; [left|right; exact Hx].
        apply in_flat_map in Hx. destruct Hx as [mov [Hmov Hxs]]. exists mov. split; [exact Hmov|]. split; [|exact Hxs].
        destruct (ordinary_hyps_of_pos_ok s AllMoves pc p mov PO Hp G PC Hmov) as [OH _].
        destruct OH as (_ & _ & _ & _ & _ & Hm & _ & _ & _ & PCap & _).
        destruct (desc_successors zt s pc p mov x Hxs) as [pr Hds]. assert (Emv : mv = mkMove (sq_of_pt p) (sq_of_pt mov) pr) by congruence.
        subst mv. unfold is_capture in Hc. apply orb_true_iff in Hc. destruct Hc as [Oc|IsEp].
        -- cbn [mto abs pos_pl] in Oc. unfold occupied in Oc. rewrite pget_abs_on, pt_sq in Oc by (now apply inner_on8).
           intros E. rewrite E in Oc. discriminate.
        -- exfalso. unfold is_ep_capture in IsEp. cbn [mfrom mto abs pos_pl] in IsEp.
           rewrite pget_abs_on, pt_sq, G in IsEp by (now apply inner_on8). cbn [opt_of_square is_pawn] in IsEp.
           destruct (kind_eqb_spec (pkind pc) Pawn) as [PK|]; [|discriminate]. cbn [andb] in IsEp.
           apply andb_true_iff in IsEp. destruct IsEp as [IsEp NO]. apply andb_true_iff in IsEp. destruct IsEp as [NF _].
           apply negb_true_iff in NO. unfold occupied in NO. rewrite pget_abs_on, pt_sq in NO by (now apply inner_on8).
           apply negb_true_iff, Z.eqb_neq in NF. unfold sq_of_pt in NF. cbn [fst snd] in NF.
           assert (Ne : get (board s) mov <> Empty) by (apply PCap; [exact PK|lia]).
           destruct OK as (_ & _ & I). specialize (I mov Hm).
           destruct (get (board s) mov); cbn in NO; try discriminate; contradiction.
      * (* castling captures nothing *)
        exfalso. cbn [mode_all] in Hx.
        destruct (castle_desc_empty s x RH Hx) as (r0 & kc & c & Hdc & Ir & Hkc & GK & EK).
        assert (Emv : mv = mkMove (sq_of_pt (r0, 6)) (sq_of_pt (r0, kc)) None) by congruence. subst mv.
        assert (I1 : is_inner (r0, 6) = true) by (apply is_inner_spec; cbn [fst snd]; lia).
        assert (I2 : is_inner (r0, kc) = true) by (apply is_inner_spec; cbn [fst snd]; lia).
        unfold is_capture in Hc. apply orb_true_iff in Hc. destruct Hc as [Oc|IsEp].
        -- cbn [mto abs pos_pl] in Oc. unfold occupied in Oc. rewrite pget_abs_on, pt_sq, EK in Oc by (now apply inner_on8). discriminate.
        -- unfold is_ep_capture in IsEp. cbn [mfrom mto abs pos_pl] in IsEp.
           rewrite pget_abs_on, pt_sq, GK in IsEp by (now apply inner_on8). discriminate.
  - (* no duplicates: a sub-list of the full generation's list *)
    apply (NoDup_captures s PO).
Qed.

End C.
