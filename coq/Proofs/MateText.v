(* The score part of an info line: mate numbers are never 0 and have the sign of the evaluation,
   a centipawn score is printed only strictly inside the mate window. *)
From Walleye Require Import Model.Search.
Open Scope Z_scope.

(* the three branches of mate_number as inequalities *)
Lemma mate_number_cases e :
  (MATE_SCORE - MATE_WINDOW <= e /\ mate_number e = Some (Z.quot (MATE_SCORE - e + 1) 2))
  \/ (e < MATE_SCORE - MATE_WINDOW /\ e <= - MATE_SCORE + MATE_WINDOW /\ mate_number e = Some (Z.quot (MATE_SCORE + e) (-2)))
  \/ (e < MATE_SCORE - MATE_WINDOW /\ - MATE_SCORE + MATE_WINDOW < e /\ mate_number e = None).
Proof.
  unfold mate_number.
  destruct (Z.leb_spec (MATE_SCORE - MATE_WINDOW) e) as [A|A]; [left; split; [exact A|reflexivity]|].
  destruct (Z.leb_spec e (- MATE_SCORE + MATE_WINDOW)) as [B|B]; [right; left|right; right]; repeat split; auto.
Qed.

Lemma consts : MATE_SCORE = 100000 /\ MATE_WINDOW = 15 /\ POS_INF = 9999999 /\ NEG_INF = -9999999.
Proof. repeat split; reflexivity. Qed.

Lemma mate_number_positive e n :
  e <= MATE_SCORE - 1 -> mate_number e = Some n -> 0 < e -> 0 < n /\ n = (MATE_SCORE - e + 1) / 2.
Proof.
  intros Hle H Hpos. destruct consts as (C1 & C2 & _).
  destruct (mate_number_cases e) as [[A E]|[(A & B & E)|(A & B & E)]]; rewrite E in H; try discriminate.
  - assert (Hn : n = Z.quot (MATE_SCORE - e + 1) 2) by congruence. subst n.
    rewrite Z.quot_div_nonneg by lia. split; [|reflexivity]. apply Z.div_str_pos. lia.
  - lia.
Qed.

Lemma mate_number_negative e n :
  - (MATE_SCORE - 2) <= e -> mate_number e = Some n -> e < 0 -> n < 0 /\ n = - ((MATE_SCORE + e) / 2).
Proof.
  intros Hge H Hneg. destruct consts as (C1 & C2 & _).
  destruct (mate_number_cases e) as [[A E]|[(A & B & E)|(A & B & E)]]; rewrite E in H; try discriminate.
  - lia.
  - assert (Hn : n = Z.quot (MATE_SCORE + e) (-2)) by congruence. subst n.
    assert (Q : Z.quot (MATE_SCORE + e) (-2) = - ((MATE_SCORE + e) / 2)).
    { change (-2) with (- (2)). rewrite Z.quot_opp_r by lia. rewrite Z.quot_div_nonneg by lia. reflexivity. }
    rewrite Q. split; [|reflexivity].
    assert (0 < (MATE_SCORE + e) / 2) by (apply Z.div_str_pos; lia). lia.
Qed.

(* never "mate 0" for a value a completed root evaluation can take *)
Lemma mate_number_nonzero e n :
  - (MATE_SCORE - 2) <= e <= MATE_SCORE - 1 -> mate_number e = Some n -> n <> 0.
Proof.
  intros [H1 H2] H.
  destruct (Z_lt_le_dec 0 e) as [P|P].
  - destruct (mate_number_positive e n H2 H P). lia.
  - destruct (Z.eq_dec e 0) as [->|Ne]; [vm_compute in H; discriminate|].
    destruct (mate_number_negative e n H1 H ltac:(lia)). lia.
Qed.

(* a centipawn score is strictly inside the mate window, far from the infinity sentinel *)
Lemma cp_inside_window e : mate_number e = None -> Z.abs e < MATE_SCORE - MATE_WINDOW /\ MATE_SCORE < POS_INF.
Proof.
  intros H. destruct consts as (C1 & C2 & C3 & _).
  destruct (mate_number_cases e) as [[A E]|[(A & B & E)|(A & B & E)]]; rewrite E in H; try discriminate. lia.
Qed.

(* the abort value is never printed as a centipawn score *)
Lemma abort_value_not_cp : mate_number NEG_INF <> None /\ mate_number POS_INF <> None.
Proof. vm_compute. split; discriminate. Qed.

(* the mate number is the number of moves: ply p (we mate) gives (p+1)/2; ply p (we are mated) gives -(p/2) *)
Lemma mate_number_of_ply_win p : 1 <= p <= MATE_WINDOW -> mate_number (MATE_SCORE - p) = Some ((p + 1) / 2).
Proof.
  change MATE_WINDOW with 15. intros H.
  assert (E : In p [1;2;3;4;5;6;7;8;9;10;11;12;13;14;15]) by (cbn; lia).
  cbn in E. repeat (destruct E as [<-|E]; [vm_compute; reflexivity|]). contradiction.
Qed.
Lemma mate_number_of_ply_loss p : 2 <= p <= MATE_WINDOW -> mate_number (- (MATE_SCORE - p)) = Some (- (p / 2)).
Proof.
  change MATE_WINDOW with 15. intros H.
  assert (E : In p [2;3;4;5;6;7;8;9;10;11;12;13;14;15]) by (cbn; lia).
  cbn in E. repeat (destruct E as [<-|E]; [vm_compute; reflexivity|]). contradiction.
Qed.
