(* C01, first layer: the model's pseudo-legal targets of a piece are exactly the rules' pseudo-legal moves
   of that piece (en passant apart, which the engine generates separately). *)
From Walleye Require Import Model.Successor Spec.Abs Proofs.Cells Proofs.Ray Proofs.HashProofs Proofs.AttackGeom
  Proofs.CheckProofs.
Open Scope Z_scope.

(* model direction -> rules direction, and back *)
Definition dinv (d' : sq) : point := (- snd d', fst d').
Lemma dsp_dinv d' : dsp (dinv d') = d'.
Proof. unfold dsp, dinv. destruct d'; cbn [fst snd]. f_equal; lia. Qed.
Lemma dinv_dsp d : dinv (dsp d) = d.
Proof. unfold dsp, dinv. destruct d; cbn [fst snd]. f_equal; lia. Qed.

Lemma sq_of_pt_padd p d : sq_of_pt (padd p d) = sadd (sq_of_pt p) (dsp d).
Proof. unfold sq_of_pt, padd, sadd, dsp. destruct p, d; cbn [fst snd]. f_equal; lia. Qed.
Lemma pt_of_sq_sadd q d' : pt_of_sq (sadd q d') = padd (pt_of_sq q) (dinv d').
Proof. unfold pt_of_sq, padd, sadd, dinv, BOARD_START, BOARD_END. destruct q, d'; cbn [fst snd]. f_equal; lia. Qed.

Lemma dirs_gen_spec :
  (forall d, In d ROOK_DIRS_GEN <-> In (dsp d) rook_dirs) /\ (forall d, In d BISHOP_DIRS_GEN <-> In (dsp d) bishop_dirs) /\
  (forall d, In d KNIGHT_CORDS <-> In (dsp d) knight_offsets).
Proof.
  assert (A : forall (L : list point) (L' : list sq),
             forallb (fun d => existsb (sq_eqb (dsp d)) L') L = true ->
             forallb (fun d' => existsb (point_eqb (dinv d')) L) L' = true ->
             forall d, In d L <-> In (dsp d) L').
  { intros L L' H1 H2 d. rewrite forallb_forall in H1, H2. split; intros H.
    - apply existsb_In_sq. now apply H1.
    - rewrite <- (dinv_dsp d). apply existsb_In_pt. now apply H2. }
  repeat split; apply A; vm_compute; reflexivity.
Qed.

Section B.
Variable b : cells.
Hypothesis OK : cells_ok b.
Notation pl := (abs_placement b).

Lemma has_color_abs q c : on8 q = true -> has_color pl q c = is_color (get b (pt_of_sq q)) c.
Proof.
  intros H. unfold has_color. rewrite (pget_abs_on b q H).
  destruct (get b (pt_of_sq q)) as [|pc|]; cbn; try reflexivity.
  destruct c, (pcolor pc); reflexivity.
Qed.

(* "empty or an enemy piece" = an inner square not holding a piece of the mover's colour *)
Lemma eoc_iff x c :
  is_empty_or_color (get b x) (opposite c) = true <-> is_inner x = true /\ has_color pl (sq_of_pt x) c = false.
Proof.
  split.
  - intros H. assert (Hin : is_inner x = true).
    { destruct (get b x) as [|pc|] eqn:G; [eapply empty_inner|eapply full_inner|discriminate]; eauto. }
    split; [exact Hin|]. rewrite has_color_abs by (now apply inner_on8). rewrite pt_sq.
    destruct (get b x) as [|pc|]; cbn in *; try reflexivity. destruct c, (pcolor pc); cbn in *; congruence.
  - intros [Hin H]. rewrite has_color_abs in H by (now apply inner_on8). rewrite pt_sq in H.
    destruct OK as [_ [_ I]]. specialize (I _ Hin).
    destruct (get b x) as [|pc|]; cbn in *; try reflexivity; [|congruence]. destruct c, (pcolor pc); cbn in *; congruence.
Qed.

(* ---- knights and kings *)
Lemma step_target_in c q x : In x (step_target b c AllMoves q) <-> x = q /\ is_empty_or_color (get b q) (opposite c) = true.
Proof.
  unfold step_target. cbn [mode_all]. destruct (is_empty_or_color (get b q) (opposite c)).
  - split; [intros [<-|[]]; auto|intros [-> _]; left; reflexivity].
  - split; [intros []|intros [_ H]; discriminate].
Qed.

Lemma steps_model_in (L : list point) c p x :
  In x (flat_map (fun d => step_target b c AllMoves (padd p d)) L) <->
  exists d, In d L /\ x = padd p d /\ is_inner x = true /\ has_color pl (sq_of_pt x) c = false.
Proof.
  rewrite in_flat_map. split.
  - intros [d [Hd Hx]]. apply step_target_in in Hx. destruct Hx as [-> E]. apply eoc_iff in E. exists d. tauto.
  - intros [d [Hd [-> E]]]. exists d. split; [exact Hd|]. apply step_target_in. split; [reflexivity|]. now apply eoc_iff.
Qed.

Lemma steps_spec_in (L' : list sq) q c m :
  In m (step_moves_spec pl q c L') <->
  exists d', In d' L' /\ m = mkMove q (sadd q d') None /\ on8 (sadd q d') = true /\ has_color pl (sadd q d') c = false.
Proof.
  unfold step_moves_spec. rewrite in_flat_map. split.
  - intros [d' [Hd Hm]]. cbv zeta in Hm. destruct (on8 (sadd q d')) eqn:On; [|destruct Hm].
    destruct (has_color pl (sadd q d') c) eqn:Hc; cbn in Hm; [destruct Hm|]. destruct Hm as [<-|[]]. exists d'. tauto.
  - intros [d' [Hd [-> [On Hc]]]]. exists d'. split; [exact Hd|]. cbv zeta. rewrite On, Hc. left. reflexivity.
Qed.

Lemma steps_agree (L : list point) (L' : list sq) c p x :
  (forall d, In d L -> d = (0, 0) \/ In (dsp d) L') -> (forall d', In d' L' -> In (dinv d') L) ->
  is_inner p = true -> has_color pl (sq_of_pt p) c = true ->
  (In x (flat_map (fun d => step_target b c AllMoves (padd p d)) L) <->
   In (mkMove (sq_of_pt p) (sq_of_pt x) None) (step_moves_spec pl (sq_of_pt p) c L')).
Proof.
  intros H1 H2 Hp Hown. rewrite steps_model_in, steps_spec_in. split.
  - intros [d [Hd [-> [Hin Hc]]]]. destruct (H1 d Hd) as [->|Hd'].
    + exfalso. replace (padd p (0, 0)) with p in Hc by (unfold padd; destruct p; cbn [fst snd]; f_equal; lia). congruence.
    + exists (dsp d). split; [exact Hd'|].
      rewrite <- sq_of_pt_padd. split; [reflexivity|]. split; [now apply inner_on8|exact Hc].
  - intros [d' [Hd [E [On Hc]]]]. exists (dinv d'). split; [now apply H2|].
    assert (Ex : sq_of_pt x = sadd (sq_of_pt p) d') by congruence.
    assert (x = padd p (dinv d')).
    { rewrite <- (pt_sq x), Ex, pt_of_sq_sadd, pt_sq. reflexivity. }
    subst x. split; [reflexivity|]. rewrite Ex. split; [|exact Hc]. apply inner_on8. now rewrite Ex.
Qed.

(* ---- sliders *)
Lemma ray_in fuel d enemy : forall p x,
  In x (ray fuel b p d AllMoves enemy) <->
  exists k, 0 <= k < Z.of_nat fuel /\ x = at_dist p d k /\ (forall j, 0 <= j < k -> get b (at_dist p d j) = Empty) /\
            (get b x = Empty \/ is_color (get b x) enemy = true).
Proof.
  induction fuel as [|f IH]; intros p x; cbn [ray].
  - split; [intros []|intros [k [Hk _]]; lia].
  - cbn [mode_all]. destruct (is_empty (get b p)) eqn:E.
    + assert (Ep : get b p = Empty) by (destruct (get b p); try discriminate; reflexivity).
      cbn [app In]. rewrite IH. split.
      * intros [<-|[k [Hk [-> [Hall Hx]]]]].
        -- exists 0. rewrite at_dist_0. split; [lia|]. split; [reflexivity|]. split; [intros; lia|left; exact Ep].
        -- exists (k + 1). rewrite <- at_dist_S. split; [lia|]. split; [reflexivity|]. split; [|exact Hx].
           intros j Hj. destruct (Z.eq_dec j 0) as [->|Hn]; [now rewrite at_dist_0|].
           replace j with (j - 1 + 1) by ring. rewrite <- at_dist_S. apply Hall. lia.
      * intros [k [Hk [-> [Hall Hx]]]]. destruct (Z.eq_dec k 0) as [->|Hn]; [left; now rewrite at_dist_0|].
        right. exists (k - 1). split; [lia|]. rewrite at_dist_S. replace (k - 1 + 1) with k by ring.
        split; [reflexivity|]. split; [|exact Hx]. intros j Hj. rewrite at_dist_S. apply Hall. lia.
    + destruct (is_color (get b p) enemy) eqn:C.
      * split.
        -- intros [<-|[]]. exists 0. rewrite at_dist_0. split; [lia|]. split; [reflexivity|]. split; [intros; lia|right; exact C].
        -- intros [k [Hk [-> [Hall Hx]]]]. destruct (Z.eq_dec k 0) as [->|Hn]; [left; now rewrite at_dist_0|].
           specialize (Hall 0 ltac:(lia)). rewrite at_dist_0 in Hall. rewrite Hall in E. discriminate.
      * split; [intros []|]. intros [k [Hk [-> [Hall Hx]]]]. destruct (Z.eq_dec k 0) as [->|Hn].
        -- rewrite at_dist_0 in Hx. destruct Hx as [Hx|Hx]; [rewrite Hx in E; discriminate|congruence].
        -- specialize (Hall 0 ltac:(lia)). rewrite at_dist_0 in Hall. rewrite Hall in E. discriminate.
Qed.

Lemma slide_spec_in fuel q d c : forall cur m,
  In m (slide_spec fuel pl q cur d c) <->
  exists k, 0 <= k < Z.of_nat fuel /\ m = mkMove q (sadd cur (smul k d)) None /\
            (forall j, 0 <= j < k -> on8 (sadd cur (smul j d)) = true /\ pget pl (sadd cur (smul j d)) = None) /\
            on8 (sadd cur (smul k d)) = true /\ has_color pl (sadd cur (smul k d)) c = false.
Proof.
  induction fuel as [|f IH]; intros cur m; cbn [slide_spec].
  - split; [intros []|intros [k [Hk _]]; lia].
  - destruct (on8 cur) eqn:On; cbn [negb].
    + destruct (pget pl cur) as [pc|] eqn:G.
      * destruct (color_eqb (pcolor pc) c) eqn:C.
        -- split; [intros []|]. intros [k [Hk [-> [Hall [On' Hc]]]]]. destruct (Z.eq_dec k 0) as [->|Hn].
           ++ rewrite sadd_smul_0 in Hc. unfold has_color in Hc. rewrite G in Hc. congruence.
           ++ destruct (Hall 0 ltac:(lia)) as [_ N]. rewrite sadd_smul_0 in N. congruence.
        -- split.
           ++ intros [<-|[]]. exists 0. rewrite sadd_smul_0. split; [lia|]. split; [reflexivity|]. split; [intros; lia|].
              split; [exact On|]. unfold has_color. now rewrite G.
           ++ intros [k [Hk [-> [Hall _]]]]. destruct (Z.eq_dec k 0) as [->|Hn]; [left; now rewrite sadd_smul_0|].
              destruct (Hall 0 ltac:(lia)) as [_ N]. rewrite sadd_smul_0 in N. congruence.
      * cbn [In]. rewrite IH. split.
        -- intros [<-|[k [Hk [-> [Hall [On' Hc]]]]]].
           ++ exists 0. rewrite sadd_smul_0. split; [lia|]. split; [reflexivity|]. split; [intros; lia|].
              split; [exact On|]. unfold has_color. now rewrite G.
           ++ exists (k + 1). rewrite <- sadd_smul_S. split; [lia|]. split; [reflexivity|]. split; [|split; assumption].
              intros j Hj. destruct (Z.eq_dec j 0) as [->|Hn]; [rewrite sadd_smul_0; split; assumption|].
              replace j with (j - 1 + 1) by ring. rewrite <- sadd_smul_S. apply Hall. lia.
        -- intros [k [Hk [-> [Hall [On' Hc]]]]]. destruct (Z.eq_dec k 0) as [->|Hn]; [left; now rewrite sadd_smul_0|].
           right. exists (k - 1). split; [lia|]. rewrite sadd_smul_S. replace (k - 1 + 1) with k by ring.
           split; [reflexivity|]. split; [|split; assumption]. intros j Hj. rewrite sadd_smul_S. apply Hall. lia.
    + split; [intros []|]. intros [k [Hk [-> [Hall [On' _]]]]]. destruct (Z.eq_dec k 0) as [->|Hn].
      * rewrite sadd_smul_0 in On'. congruence.
      * destruct (Hall 0 ltac:(lia)) as [N _]. rewrite sadd_smul_0 in N. congruence.
Qed.

Lemma eoc_cases sq0 c : is_empty_or_color sq0 c = true <-> sq0 = Empty \/ is_color sq0 c = true.
Proof. destruct sq0 as [|pc|]; cbn; split; intros H; auto; try discriminate; destruct H; congruence. Qed.

Lemma pget_none_empty q : on8 q = true -> pget pl q = None <-> get b (pt_of_sq q) = Empty.
Proof.
  intros On. rewrite <- (occupied_abs b OK q On). unfold occupied. destruct (pget pl q); split; congruence.
Qed.

Lemma slide_agree (dirs : list point) (dirs' : list sq) pc p x :
  (forall d, In d dirs <-> In (dsp d) dirs') -> Forall unit_dir dirs -> is_inner p = true ->
  (In x (slide dirs pc p b AllMoves) <->
   In (mkMove (sq_of_pt p) (sq_of_pt x) None)
      (flat_map (fun d' => slide_spec 8 pl (sq_of_pt p) (sadd (sq_of_pt p) d') d' (pcolor pc)) dirs')).
Proof.
  intros HL HU Hp. unfold slide. rewrite !in_flat_map. split.
  - intros [d [Hd Hx]]. apply ray_in in Hx. destruct Hx as [k [Hk [-> [Hall Hx]]]].
    rewrite at_dist_padd in *.
    assert (E : is_empty_or_color (get b (padd p (pmul (k + 1) d))) (opposite (pcolor pc)) = true) by (now apply eoc_cases).
    apply eoc_iff in E. destruct E as [Hin Hc].
    assert (Hk7 : k + 1 <= 7).
    { rewrite Forall_forall in HU. apply (inner_line_short p d (k + 1) (HU d Hd) Hp Hin). lia. }
    exists (dsp d). split; [now apply HL|]. apply slide_spec_in. exists k. change (Z.of_nat 8) with 8.
    split; [lia|]. rewrite sadd_smul_S, <- !sq_of_pt_move. split; [reflexivity|]. split; [|split; [now apply inner_on8|exact Hc]].
    intros j Hj. rewrite sadd_smul_S, <- sq_of_pt_move. specialize (Hall j Hj). rewrite at_dist_padd in Hall.
    assert (On : on8 (sq_of_pt (padd p (pmul (j + 1) d))) = true) by (apply inner_on8; eapply empty_inner; eauto).
    split; [exact On|]. apply pget_none_empty; [exact On|]. now rewrite pt_sq.
  - intros [d' [Hd Hm]]. apply slide_spec_in in Hm. destruct Hm as [k [Hk [E [Hall [On Hc]]]]].
    change (Z.of_nat 8) with 8 in Hk. rewrite sadd_smul_S in E, On, Hc.
    assert (Ex : sq_of_pt x = sadd (sq_of_pt p) (smul (k + 1) d')) by congruence.
    assert (Hx : x = padd p (pmul (k + 1) (dinv d'))).
    { rewrite <- (pt_sq x), Ex. rewrite <- (dsp_dinv d') at 1. rewrite pt_of_sq_move, pt_sq. reflexivity. }
    exists (dinv d'). split; [apply HL; now rewrite dsp_dinv|]. apply ray_in. exists k. split; [change (Z.of_nat 12) with 12; lia|].
    rewrite at_dist_padd. split; [exact Hx|]. split.
    + intros j Hj. rewrite at_dist_padd. destruct (Hall j Hj) as [Onj Nj]. rewrite sadd_smul_S in Onj, Nj.
      apply pget_none_empty in Nj; [|exact Onj]. rewrite <- (dsp_dinv d') in Nj at 1. rewrite pt_of_sq_move, pt_sq in Nj. exact Nj.
    + apply eoc_cases. apply eoc_iff. rewrite Ex. split; [|exact Hc]. apply inner_on8. now rewrite Ex.
Qed.

(* ---- every piece but the pawn *)
Lemma king_offsets_spec :
  (forall d, In d king_offsets -> d = (0, 0) \/ In (dsp d) king_step_offsets) /\
  (forall d', In d' king_step_offsets -> In (dinv d') king_offsets).
Proof.
  split.
  - assert (C : forallb (fun d => point_eqb d (0, 0) || existsb (sq_eqb (dsp d)) king_step_offsets) king_offsets = true)
      by (vm_compute; reflexivity).
    intros d Hd. rewrite forallb_forall in C. specialize (C d Hd). apply orb_true_iff in C. destruct C as [C|C].
    + left. now destruct (point_eqb_spec d (0, 0)).
    + right. now apply existsb_In_sq.
  - assert (C : forallb (fun d' => existsb (point_eqb (dinv d')) king_offsets) king_step_offsets = true) by (vm_compute; reflexivity).
    intros d' Hd. rewrite forallb_forall in C. apply existsb_In_pt. now apply C.
Qed.

Lemma nonpawn_agree (P : position) pc p x :
  pos_pl P = pl -> pos_stm P = pcolor pc -> pkind pc <> Pawn -> is_inner p = true -> get b p = Full pc ->
  (In x (get_moves pc p b AllMoves) <-> In (mkMove (sq_of_pt p) (sq_of_pt x) None) (piece_moves_spec P (sq_of_pt p))).
Proof.
  intros HP HS HK Hp G.
  assert (On : on8 (sq_of_pt p) = true) by (now apply inner_on8).
  assert (Hown : has_color pl (sq_of_pt p) (pcolor pc) = true).
  { rewrite has_color_abs by exact On. rewrite pt_sq, G. cbn. apply color_eqb_refl. }
  unfold piece_moves_spec. rewrite HP, (pget_abs_on b _ On), pt_sq, G. cbn [opt_of_square]. rewrite HS, color_eqb_refl. cbn [negb].
  destruct dirs_gen_spec as (DR & DB & DN). destruct dirs_are_unit as (_ & _ & UR & UB).
  unfold get_moves. destruct (pkind pc) eqn:K; try congruence.
  - apply steps_agree; auto. intros d Hd. right. now apply DN. intros d' Hd. apply DN. now rewrite dsp_dinv.
  - apply (slide_agree BISHOP_DIRS_GEN bishop_dirs); auto.
  - apply (slide_agree ROOK_DIRS_GEN rook_dirs); auto.
  - unfold queen_moves. cbn [slider_dirs]. rewrite flat_map_app, !in_app_iff.
    rewrite (slide_agree ROOK_DIRS_GEN rook_dirs pc p x DR UR Hp), (slide_agree BISHOP_DIRS_GEN bishop_dirs pc p x DB UB Hp). reflexivity.
  - destruct king_offsets_spec as [K1 K2]. apply steps_agree; auto.
Qed.

Lemma nonpawn_spec_shape (P : position) q pc m :
  pget (pos_pl P) q = Some pc -> pos_pl P = pl -> pkind pc <> Pawn -> In m (piece_moves_spec P q) ->
  mfrom m = q /\ mpromo m = None /\ on8 (mto m) = true.
Proof.
  intros G HP HK Hm. unfold piece_moves_spec in Hm. rewrite G in Hm.
  destruct (negb (color_eqb (pcolor pc) (pos_stm P))); [destruct Hm|]. rewrite HP in Hm.
  assert (S1 : forall L, In m (step_moves_spec pl q (pcolor pc) L) -> mfrom m = q /\ mpromo m = None /\ on8 (mto m) = true).
  { intros L H. apply steps_spec_in in H. destruct H as [d' [_ [-> [On _]]]]. auto. }
  assert (S2 : forall L, In m (flat_map (fun d => slide_spec 8 pl q (sadd q d) d (pcolor pc)) L) -> mfrom m = q /\ mpromo m = None /\ on8 (mto m) = true).
  { intros L H. apply in_flat_map in H. destruct H as [d [_ H]]. apply slide_spec_in in H. destruct H as [k [_ [-> [_ [On _]]]]]. auto. }
  destruct (pkind pc); try congruence; eauto.
Qed.

(* ---- pawns *)
Definition mfw (c : color) : Z := match c with White => -1 | Black => 1 end.      (* forward, in board rows *)
Definition double_row (c : color) : Z := match c with White => DOUBLE_ROW_WHITE | Black => DOUBLE_ROW_BLACK end.

Lemma pawn_moves_in pc row col x :
  In x (pawn_moves pc (row, col) b AllMoves) <->
  let c := pcolor pc in
  (x = (row + mfw c, col - 1) /\ is_color (get b x) (opposite c) = true) \/
  (x = (row + mfw c, col + 1) /\ is_color (get b x) (opposite c) = true) \/
  (x = (row + mfw c, col) /\ get b x = Empty) \/
  (x = (row + 2 * mfw c, col) /\ row = double_row c /\ get b (row + mfw c, col) = Empty /\ get b x = Empty).
Proof.
  assert (IE : forall sq0, is_empty sq0 = true <-> sq0 = Empty) by (intros [| |]; cbn; split; congruence).
  unfold pawn_moves. cbv zeta. destruct (pcolor pc); cbn [mfw double_row opposite mode_all andb];
    rewrite !in_app_iff;
    replace (row + -1) with (row - 1) by ring; replace (row + 2 * -1) with (row - 2) by ring;
    replace (row + 2 * 1) with (row + 2) by ring.
  - destruct (is_color (get b (row - 1, col - 1)) Black) eqn:A, (is_color (get b (row - 1, col + 1)) Black) eqn:B,
      (is_empty (get b (row - 1, col))) eqn:C; try apply IE in C;
      try destruct (Z.eqb_spec row DOUBLE_ROW_WHITE); try destruct (is_empty (get b (row - 2, col))) eqn:D; try apply IE in D;
      cbn [In andb app]; split; intros H;
      repeat match goal with
             | H : _ \/ _ |- _ => destruct H
             | H : _ /\ _ |- _ => destruct H
             | H : False |- _ => destruct H
             end; subst; auto 10; try congruence;
      try (match goal with H : (_, _) = (_, _) |- _ => inversion H; exfalso; lia end);
      try (match goal with H : is_empty ?s = false, E : ?s = Empty |- _ => rewrite E in H; discriminate end).
  - destruct (is_color (get b (row + 1, col + 1)) White) eqn:A, (is_color (get b (row + 1, col - 1)) White) eqn:B,
      (is_empty (get b (row + 1, col))) eqn:C; try apply IE in C;
      try destruct (Z.eqb_spec row DOUBLE_ROW_BLACK); try destruct (is_empty (get b (row + 2, col))) eqn:D; try apply IE in D;
      cbn [In andb app]; split; intros H;
      repeat match goal with
             | H : _ \/ _ |- _ => destruct H
             | H : _ /\ _ |- _ => destruct H
             | H : False |- _ => destruct H
             end; subst; auto 10; try congruence;
      try (match goal with H : (_, _) = (_, _) |- _ => inversion H; exfalso; lia end);
      try (match goal with H : is_empty ?s = false, E : ?s = Empty |- _ => rewrite E in H; discriminate end).
Qed.

Definition promo_ok (c : color) (t : sq) (pr : option kind) : Prop :=
  if snd t =? last_rank c then exists k, pr = Some k /\ In k [Queen; Rook; Bishop; Knight] else pr = None.

Lemma promo_fanout_in c q t m : In m (promo_fanout c q t) <-> exists pr, m = mkMove q t pr /\ promo_ok c t pr.
Proof.
  unfold promo_fanout, promo_ok. destruct (snd t =? last_rank c).
  - rewrite in_map_iff. split.
    + intros [k [<- Hk]]. exists (Some k). split; [reflexivity|]. exists k. auto.
    + intros [pr [-> [k [-> Hk]]]]. exists k. auto.
  - split.
    + intros [<-|[]]. exists None. auto.
    + intros [pr [-> ->]]. left. reflexivity.
Qed.

Lemma pawn_spec_in (P : position) q c m :
  pos_pl P = pl ->
  (In m (pawn_moves_spec P q c) <->
   let f := fst q in let r := snd q in let fw := forward c in
   (on8 (f, r + fw) = true /\ occupied pl (f, r + fw) = false /\ exists pr, m = mkMove q (f, r + fw) pr /\ promo_ok c (f, r + fw) pr) \/
   (on8 (f, r + fw) = true /\ occupied pl (f, r + fw) = false /\ r = pawn_start_rank c /\ on8 (f, r + 2 * fw) = true /\
    occupied pl (f, r + 2 * fw) = false /\ m = mkMove q (f, r + 2 * fw) None) \/
   (exists df, (df = -1 \/ df = 1) /\ on8 (f + df, r + fw) = true /\ has_color pl (f + df, r + fw) (opposite c) = true /\
               exists pr, m = mkMove q (f + df, r + fw) pr /\ promo_ok c (f + df, r + fw) pr) \/
   (exists df, (df = -1 \/ df = 1) /\ on8 (f + df, r + fw) = true /\ has_color pl (f + df, r + fw) (opposite c) = false /\
               pos_ep P = Some (f + df, r + fw) /\ occupied pl (f + df, r + fw) = false /\ m = mkMove q (f + df, r + fw) None)).
Proof.
  intros HP. unfold pawn_moves_spec. rewrite HP. cbv zeta. rewrite in_app_iff. split.
  - intros [H|H].
    + destruct (on8 (fst q, snd q + forward c)) eqn:On1; [|destruct H].
      destruct (occupied pl (fst q, snd q + forward c)) eqn:Oc1; cbn [negb andb] in H; [destruct H|].
      apply in_app_iff in H. destruct H as [H|H].
      * left. apply promo_fanout_in in H. auto.
      * right. left. destruct (Z.eqb_spec (snd q) (pawn_start_rank c)); cbn [andb] in H; [|destruct H].
        destruct (on8 (fst q, snd q + 2 * forward c)) eqn:On2; cbn [andb] in H; [|destruct H].
        destruct (occupied pl (fst q, snd q + 2 * forward c)) eqn:Oc2; cbn [negb] in H; [destruct H|].
        destruct H as [<-|[]]. auto 10.
    + right. right. apply in_flat_map in H. destruct H as [df [Hdf H]].
      assert (Hdf' : df = -1 \/ df = 1) by (destruct Hdf as [<-|[<-|[]]]; auto).
      destruct (on8 (fst q + df, snd q + forward c)) eqn:On; [|destruct H].
      destruct (has_color pl (fst q + df, snd q + forward c) (opposite c)) eqn:Hc.
      * left. apply promo_fanout_in in H. exists df. auto.
      * right. destruct (pos_ep P) as [e|] eqn:Ep; [|destruct H].
        destruct (sq_eqb_spec e (fst q + df, snd q + forward c)) as [->|]; cbn [andb] in H; [|destruct H].
        destruct (occupied pl (fst q + df, snd q + forward c)) eqn:Oc; cbn [negb] in H; [destruct H|].
        destruct H as [<-|[]]. exists df. auto 10.
  - intros [H|[H|[H|H]]].
    + destruct H as (On1 & Oc1 & H). left. rewrite On1, Oc1. cbn [negb andb]. apply in_app_iff. left. now apply promo_fanout_in.
    + destruct H as (On1 & Oc1 & R & On2 & Oc2 & ->). left. rewrite On1, Oc1. cbn [negb andb]. apply in_app_iff. right.
      rewrite R, Z.eqb_refl. rewrite R in On2, Oc2. rewrite On2, Oc2. left. reflexivity.
    + destruct H as (df & Hdf & On & Hc & H). right. apply in_flat_map. exists df.
      split; [destruct Hdf as [->| ->]; cbn; auto|]. rewrite On, Hc. now apply promo_fanout_in.
    + destruct H as (df & Hdf & On & Hc & Ep & Oc & ->). right. apply in_flat_map. exists df.
      split; [destruct Hdf as [->| ->]; cbn; auto|]. rewrite On, Hc, Ep. 
      destruct (sq_eqb_spec (fst q + df, snd q + forward c) (fst q + df, snd q + forward c)); [|congruence].
      rewrite Oc. left. reflexivity.
Qed.

Lemma forward_mfw c : forward c = - mfw c. Proof. destruct c; reflexivity. Qed.

Lemma sq_of_pt_pawn row col c k dc : sq_of_pt (row + k * mfw c, col + dc) = (fst (sq_of_pt (row, col)) + dc, snd (sq_of_pt (row, col)) + k * forward c).
Proof. rewrite forward_mfw. unfold sq_of_pt, BOARD_START, BOARD_END. cbn [fst snd]. f_equal; lia. Qed.

Lemma not_occupied_no_color q c : occupied pl q = false -> has_color pl q c = false.
Proof. unfold occupied, has_color. destruct (pget pl q); congruence. Qed.
Lemma has_color_occupied q c : has_color pl q c = true -> occupied pl q = true.
Proof. unfold occupied, has_color. destruct (pget pl q); congruence. Qed.

Section Pawn.
Variable P : position.
Variable pc : piece.
Variables row col : Z.
Hypothesis HP : pos_pl P = pl.
Hypothesis HK : pkind pc = Pawn.
Hypothesis Hp : is_inner (row, col) = true.
Hypothesis G : get b (row, col) = Full pc.
Notation c := (pcolor pc).
Notation q := (sq_of_pt (row, col)).

Lemma sq_pawn_target k dc : sq_of_pt (row + k * mfw c, col + dc) = (fst q + dc, snd q + k * forward c).
Proof. apply sq_of_pt_pawn. Qed.

Lemma pawn_sound x pr :
  In x (pawn_moves pc (row, col) b AllMoves) -> promo_ok c (sq_of_pt x) pr ->
  In (mkMove q (sq_of_pt x) pr) (pawn_moves_spec P q c).
Proof.
  intros Hx Hpr. apply pawn_moves_in in Hx. cbv zeta in Hx. apply (pawn_spec_in P q c _ HP). cbv zeta.
  assert (S1 : forall dc, sq_of_pt (row + mfw c, col + dc) = (fst q + dc, snd q + forward c)).
  { intros dc. replace (row + mfw c) with (row + 1 * mfw c) by ring. rewrite sq_pawn_target. f_equal. ring. }
  assert (S0 : sq_of_pt (row + mfw c, col) = (fst q, snd q + forward c)).
  { replace col with (col + 0) at 1 by ring. rewrite S1. f_equal. ring. }
  assert (S2 : sq_of_pt (row + 2 * mfw c, col) = (fst q, snd q + 2 * forward c)).
  { replace col with (col + 0) at 1 by ring. rewrite sq_pawn_target. f_equal. ring. }
  destruct Hx as [[-> Hc]|[[-> Hc]|[[-> E]|[-> [R [E1 E2]]]]]].
  - right. right. left. exists (-1).
    assert (Hin : is_inner (row + mfw c, col - 1) = true).
    { destruct (get b (row + mfw c, col - 1)) eqn:Gx; try discriminate. eapply full_inner; eauto. }
    assert (Hcc : has_color pl (sq_of_pt (row + mfw c, col - 1)) (opposite c) = true).
    { rewrite has_color_abs by (now apply inner_on8). now rewrite pt_sq. }
    apply inner_on8 in Hin. replace (col - 1) with (col + -1) in * by ring. rewrite S1 in *. eauto 10.
  - right. right. left. exists 1.
    assert (Hin : is_inner (row + mfw c, col + 1) = true).
    { destruct (get b (row + mfw c, col + 1)) eqn:Gx; try discriminate. eapply full_inner; eauto. }
    assert (Hcc : has_color pl (sq_of_pt (row + mfw c, col + 1)) (opposite c) = true).
    { rewrite has_color_abs by (now apply inner_on8). now rewrite pt_sq. }
    apply inner_on8 in Hin. rewrite S1 in *. eauto 10.
  - left. assert (Hin : is_inner (row + mfw c, col) = true) by (eapply empty_inner; eauto).
    apply inner_on8 in Hin.
    assert (Oc : occupied pl (sq_of_pt (row + mfw c, col)) = false) by (apply (occupied_abs b OK _ Hin); now rewrite pt_sq).
    rewrite S0 in *. eauto 10.
  - right. left.
    assert (Hin1 : is_inner (row + mfw c, col) = true) by (eapply empty_inner; eauto).
    assert (Hin2 : is_inner (row + 2 * mfw c, col) = true) by (eapply empty_inner; eauto).
    apply inner_on8 in Hin1, Hin2.
    assert (Oc1 : occupied pl (sq_of_pt (row + mfw c, col)) = false) by (apply (occupied_abs b OK _ Hin1); now rewrite pt_sq).
    assert (Oc2 : occupied pl (sq_of_pt (row + 2 * mfw c, col)) = false) by (apply (occupied_abs b OK _ Hin2); now rewrite pt_sq).
    rewrite S0 in *. rewrite S2 in *.
    assert (Rk : snd q = pawn_start_rank c).
    { destruct (pcolor pc); cbn [double_row pawn_start_rank] in *; unfold sq_of_pt, DOUBLE_ROW_WHITE, DOUBLE_ROW_BLACK, BOARD_END in *; cbn [fst snd]; lia. }
    assert (pr = None).
    { unfold promo_ok in Hpr. destruct (Z.eqb_spec (snd (fst q, snd q + 2 * forward c)) (last_rank c)) as [Hl|Hl]; [|exact Hpr].
      exfalso. cbn [snd] in Hl. rewrite Rk in Hl. destruct (pcolor pc); cbn in Hl; lia. }
    subst pr. auto 10.
Qed.

Lemma pt_pawn_target k dc : pt_of_sq (fst q + dc, snd q + k * forward c) = (row + k * mfw c, col + dc).
Proof. rewrite <- sq_pawn_target. apply pt_sq. Qed.

Lemma pget_pawn : pget (pos_pl P) q = Some pc.
Proof. rewrite HP, pget_abs_on by (now apply inner_on8). now rewrite pt_sq, G. Qed.

Lemma pawn_complete m :
  In m (pawn_moves_spec P q c) -> is_ep_capture P m = false ->
  mfrom m = q /\ on8 (mto m) = true /\ In (pt_of_sq (mto m)) (pawn_moves pc (row, col) b AllMoves) /\ promo_ok c (mto m) (mpromo m).
Proof.
  intros Hm Hep. apply (pawn_spec_in P q c _ HP) in Hm. cbv zeta in Hm.
  assert (T1 : forall dc, pt_of_sq (fst q + dc, snd q + forward c) = (row + mfw c, col + dc)).
  { intros dc. replace (forward c) with (1 * forward c) by ring. rewrite pt_pawn_target. f_equal. ring. }
  assert (T0 : pt_of_sq (fst q, snd q + forward c) = (row + mfw c, col)).
  { replace (fst q) with (fst q + 0) by ring. rewrite T1. f_equal. ring. }
  assert (T2 : pt_of_sq (fst q, snd q + 2 * forward c) = (row + 2 * mfw c, col)).
  { replace (fst q) with (fst q + 0) by ring. rewrite pt_pawn_target. f_equal. ring. }
  destruct Hm as [(On1 & Oc1 & pr & -> & Hpr)|[(On1 & Oc1 & R & On2 & Oc2 & ->)|[(df & Hdf & On & Hc & pr & -> & Hpr)|(df & Hdf & On & Hc & Ep & Oc & ->)]]];
    cbn [mfrom mto mpromo].
  - split; [reflexivity|]. split; [exact On1|]. split; [|exact Hpr]. apply pawn_moves_in. cbv zeta. right. right. left.
    rewrite T0. split; [reflexivity|]. rewrite <- T0. now apply (occupied_abs b OK _ On1).
  - split; [reflexivity|]. split; [exact On2|]. split.
    + apply pawn_moves_in. cbv zeta. right. right. right. rewrite T2. split; [reflexivity|]. split.
      * destruct (pcolor pc); cbn [double_row pawn_start_rank] in *; unfold sq_of_pt, DOUBLE_ROW_WHITE, DOUBLE_ROW_BLACK, BOARD_END in *; cbn [fst snd] in *; lia.
      * split; [rewrite <- T0; now apply (occupied_abs b OK _ On1)|rewrite <- T2; now apply (occupied_abs b OK _ On2)].
    + unfold promo_ok. destruct (Z.eqb_spec (snd (fst q, snd q + 2 * forward c)) (last_rank c)) as [Hl|Hl]; [|reflexivity].
      exfalso. cbn [snd] in Hl. rewrite R in Hl. destruct (pcolor pc); cbn in Hl; lia.
  - split; [reflexivity|]. split; [exact On|]. split; [|exact Hpr]. apply pawn_moves_in. cbv zeta.
    rewrite has_color_abs in Hc by exact On. rewrite T1 in *.
    destruct Hdf as [-> | ->]; [left|right; left]; (split; [f_equal; ring|exact Hc]).
  - exfalso. unfold is_ep_capture in Hep. cbn [mfrom mto] in Hep. rewrite pget_pawn, Ep, HP, Oc in Hep.
    unfold is_pawn in Hep. rewrite HK in Hep. cbn [kind_eqb andb negb] in Hep.
    destruct (sq_eqb_spec (fst q + df, snd q + forward c) (fst q + df, snd q + forward c)); [|congruence].
    destruct (Z.eqb_spec (fst q) (fst (fst q + df, snd q + forward c))) as [E|E]; [cbn [fst] in E; lia|discriminate].
Qed.

(* the en-passant clause *)
Lemma pawn_ep_shape m :
  In m (pawn_moves_spec P q c) -> is_ep_capture P m = true ->
  exists df, (df = -1 \/ df = 1) /\ m = mkMove q (fst q + df, snd q + forward c) None /\ pos_ep P = Some (fst q + df, snd q + forward c).
Proof.
  intros Hm Hep. apply (pawn_spec_in P q c _ HP) in Hm. cbv zeta in Hm.
  unfold is_ep_capture in Hep. rewrite HP in Hep.
  destruct Hm as [(On1 & Oc1 & pr & -> & Hpr)|[(On1 & Oc1 & R & On2 & Oc2 & ->)|[(df & Hdf & On & Hc & pr & -> & Hpr)|(df & Hdf & On & Hc & Ep & Oc & ->)]]];
    cbn [mfrom mto mpromo] in Hep.
  - cbn [fst] in Hep. rewrite Z.eqb_refl in Hep. cbn in Hep. rewrite andb_false_r in Hep. discriminate.
  - cbn [fst] in Hep. rewrite Z.eqb_refl in Hep. cbn in Hep. rewrite andb_false_r in Hep. discriminate.
  - apply has_color_occupied in Hc. rewrite Hc in Hep. cbn in Hep. rewrite andb_false_r in Hep. discriminate.
  - exists df. auto.
Qed.

Lemma pawn_ep_sound df :
  (df = -1 \/ df = 1) -> pos_ep P = Some (fst q + df, snd q + forward c) -> on8 (fst q + df, snd q + forward c) = true ->
  occupied pl (fst q + df, snd q + forward c) = false ->
  In (mkMove q (fst q + df, snd q + forward c) None) (pawn_moves_spec P q c).
Proof.
  intros Hdf Ep On Oc. apply (pawn_spec_in P q c _ HP). cbv zeta. right. right. right. exists df.
  split; [exact Hdf|]. split; [exact On|]. split; [now apply not_occupied_no_color|]. auto.
Qed.

End Pawn.

End B.
