(* the board a `position` command leaves behind carries the ordering value 0: the loader writes 0 and the text-move
   applier never touches the field.  So the hypothesis `order_heuristic b < POS_INF` of the C11 theorem holds for
   every `position ...` followed by `go`. *)
From Walleye Require Import Model.Search Model.TextMove Proofs.OhBound Proofs.FenAccept Proofs.PositionGo.
From Coq Require Import Lia.
Open Scope Z_scope.

Section S.
Variable zt : ztable.
Lemma ok_inj' {A} (a b : A) : Ok a = Ok b -> a = b. Proof. congruence. Qed.

Lemma oh_with_wk s p : order_heuristic (with_wk s p) = order_heuristic s. Proof. destruct s; reflexivity. Qed.
Lemma oh_with_bk s p : order_heuristic (with_bk s p) = order_heuristic s. Proof. destruct s; reflexivity. Qed.

Notation take_away := (take_away_castling_rights zt).

(* the stages of make_move, named so that each is looked at on its own *)
Definition t_piece (s : BoardState) (pc : piece) (sp ep : point) : BoardState :=
  match pkind pc with
  | King =>
      match pcolor pc with
      | White => take_away (take_away (with_wk s ep) WQS) WKS
      | Black => take_away (take_away (with_bk s ep) BQS) BKS
      end
  | Pawn =>
      let s :=
        if Z.abs (fst sp - fst ep) =? 2 then
          let target := match pcolor pc with White => (fst sp - 1, snd sp) | Black => (fst sp + 1, snd sp) end in
          with_pdm (kx s (z_ep zt (snd target))) (Some target)
        else s in
      if negb (snd sp =? snd ep) && square_eqb (get (board s) ep) Empty then
        kx (with_board s (set (board s) (fst sp, snd ep) Empty))
           (z_piece zt (mkPiece (opposite (to_move s)) Pawn) (fst sp, snd ep))
      else s
  | _ => s
  end.
Definition t_corners (s : BoardState) (mv : str) : BoardState :=
  let s := if contains mv str_a8 then take_away s BQS else s in
  let s := if contains mv str_h8 then take_away s BKS else s in
  let s := if contains mv str_a1 then take_away s WQS else s in
  if contains mv str_h1 then take_away s WKS else s.
Definition t_promo (s : BoardState) (mv : str) (ep : point) : BoardState :=
  if Nat.eqb (length mv) 5 then
    let k := promo_kind_of_char (nth 4 mv 0%N) in
    let pp := mkPiece (to_move s) k in
    with_board (kx s (N.lxor (z_piece zt (mkPiece (to_move s) Pawn) ep) (z_piece zt pp ep))) (set (board s) ep (Full pp))
  else s.
Definition t_castle (s : BoardState) (mv : str) (ep : point) : BoardState :=
  match castle_rook_step zt s mv WHITE_KING_SIDE_CASTLE_STRING ep (mkPiece White King) (BOARD_END - 1, BOARD_END - 1) (BOARD_END - 1, BOARD_END - 3) with
  | Some s' => s'
  | None =>
  match castle_rook_step zt s mv WHITE_QUEEN_SIDE_CASTLE_STRING ep (mkPiece White King) (BOARD_END - 1, BOARD_START) (BOARD_END - 1, BOARD_START + 3) with
  | Some s' => s'
  | None =>
  match castle_rook_step zt s mv BLACK_KING_SIDE_CASTLE_STRING ep (mkPiece Black King) (BOARD_START, BOARD_END - 1) (BOARD_START, BOARD_END - 3) with
  | Some s' => s'
  | None =>
  match castle_rook_step zt s mv BLACK_QUEEN_SIDE_CASTLE_STRING ep (mkPiece Black King) (BOARD_START, BOARD_START) (BOARD_START, BOARD_START + 3) with
  | Some s' => s'
  | None => s
  end end end end.

Lemma make_move_stages s mv sp ep pc :
  point_from_str (firstn 2 mv) = Some sp -> point_from_str (firstn 2 (skipn 2 mv)) = Some ep ->
  get (board (unset_pawn_double_move zt s)) sp = Full pc -> (negb (is_ascii mv) || (Z.of_nat (length mv) <? 4)) = false ->
  make_move zt s mv = Ok (swap_color zt (t_castle (t_promo (move_piece zt (t_corners (t_piece (unset_pawn_double_move zt s) pc sp ep) mv) sp ep) mv ep) mv ep)).
Proof. intros P1 P2 G A. unfold make_move. rewrite A, P1, P2. cbv zeta. rewrite G. reflexivity. Qed.

Lemma oh_if_take (c : bool) s r : order_heuristic (if c then take_away s r else s) = order_heuristic s.
Proof. destruct c; [apply oh_take_away|reflexivity]. Qed.

Lemma oh_t_piece s pc sp ep : order_heuristic (t_piece s pc sp ep) = order_heuristic s.
Proof.
  unfold t_piece. destruct (pkind pc); try reflexivity.
  - cbv zeta. destruct (Z.abs _ =? 2); destruct (_ && _); rewrite ?oh_kx, ?oh_with_board, ?oh_with_pdm, ?oh_kx; reflexivity.
  - destruct (pcolor pc); rewrite !oh_take_away; [apply oh_with_wk|apply oh_with_bk].
Qed.
Lemma oh_t_corners s mv : order_heuristic (t_corners s mv) = order_heuristic s.
Proof. unfold t_corners. cbv zeta. rewrite !oh_if_take. reflexivity. Qed.
Lemma oh_t_promo s mv ep : order_heuristic (t_promo s mv ep) = order_heuristic s.
Proof. unfold t_promo. destruct (Nat.eqb _ 5); [|reflexivity]. cbv zeta. rewrite oh_with_board, oh_kx. reflexivity. Qed.
Lemma oh_t_castle s mv ep : order_heuristic (t_castle s mv ep) = order_heuristic s.
Proof. unfold t_castle, castle_rook_step. repeat (destruct (_ && _); [apply oh_move_piece|]). reflexivity. Qed.

Lemma oh_make_move s mv s' : make_move zt s mv = Ok s' -> order_heuristic s' = order_heuristic s.
Proof.
  destruct (negb (is_ascii mv) || (Z.of_nat (length mv) <? 4)) eqn:A; [unfold make_move; rewrite A; discriminate|].
  destruct (point_from_str (firstn 2 mv)) as [sp|] eqn:P1; [|unfold make_move; rewrite A, P1; discriminate].
  destruct (point_from_str (firstn 2 (skipn 2 mv))) as [ep|] eqn:P2; [|unfold make_move; rewrite A, P1, P2; discriminate].
  destruct (get (board (unset_pawn_double_move zt s)) sp) as [|pc|] eqn:G;
    [unfold make_move; rewrite A, P1, P2; cbv zeta; rewrite G; discriminate| |unfold make_move; rewrite A, P1, P2; cbv zeta; rewrite G; discriminate].
  rewrite (make_move_stages s mv sp ep pc P1 P2 G A). intros H. apply ok_inj' in H. rewrite <- H.
  rewrite oh_swap_color, oh_t_castle, oh_t_promo, oh_move_piece, oh_t_corners, oh_t_piece, oh_unset_pdm. reflexivity.
Qed.

Lemma oh_play_moves : forall mvs s t s' t', play_moves zt s t mvs = Ok (s', t') -> order_heuristic s' = order_heuristic s.
Proof.
  induction mvs as [|mv r IH]; intros s t s' t' H; cbn [play_moves] in H.
  - assert (s' = s) by congruence. subst. reflexivity.
  - destruct (make_move zt s mv) as [s1| |] eqn:MM; try discriminate H. cbn [res_bind] in H.
    rewrite (IH _ _ _ _ H). exact (oh_make_move _ _ _ MM).
Qed.

Theorem position_command_leaves_ordering_value_zero cmds b t :
  play_out_position zt cmds = Ok (b, t) -> order_heuristic b = 0.
Proof.
  unfold play_out_position, nth_res. destruct (nth_error cmds 1) as [c1|]; [|discriminate]. cbn [res_bind].
  assert (L : forall f b0, from_fen zt f = Ok b0 -> forall b' t', (match after_moves cmds with Some mvs => play_moves zt b0 [(zobrist_key b0, 1)] mvs | None => Ok (b0, [(zobrist_key b0, 1)]) end) = Ok (b', t') -> order_heuristic b' = 0).
  { intros f b0 F b' t' H. destruct (accepted_fresh zt f b0 F) as [Z0 _]. destruct (after_moves cmds).
    - rewrite (oh_play_moves _ _ _ _ _ H). exact Z0.
    - assert (b' = b0) by congruence. subst. exact Z0. }
  destruct (str_eqb c1 str_fen).
  - destruct (nth_error cmds 7) as [c7|]; [|discriminate]. cbn [res_bind].
    destruct (from_fen zt _) as [b0| |] eqn:F; try discriminate. cbn [res_bind]. intros H. exact (L _ b0 F b t H).
  - destruct (default_fen_loaded zt) as (b0 & F & _). rewrite F. cbn [res_bind]. intros H. exact (L _ b0 F b t H).
Qed.

End S.
