(* C12 at the root: in an iteration of depth 1 to 3 of a search that is not interrupted, the evaluation on the
   newest info line is the exact plain negamax value of the position (the maximum over its moves), and the move
   sent with it attains that value. *)
From Walleye Require Import Model.Search Spec.Minimax Proofs.DrawTableProofs Proofs.TableRestored Proofs.AlphaBeta
  Proofs.RootProofs Proofs.PVS Proofs.OhCongruence.
From Coq Require Import Lia Permutation.
Open Scope Z_scope.

Local Notation M := MATE_SCORE.

Section R.
Variable zt : ztable.
Variable osort : N -> list BoardState -> list BoardState.
Hypothesis osort_perm : forall i l, Permutation l (osort i l).

(* the node contract, with the congruence discharged *)
Theorem search_exact f F : ab_exact zt F (alpha_beta zt osort None f).
Proof. apply alpha_beta_exact; [exact osort_perm|]. intros. now apply negamax_same. Qed.

Definition rval (F : nat) (d : Z) (t : dtable) (m : BoardState) (x : Z) : Prop := negamax zt F m (d - 1) 1 t = Some x.

Lemma root_moves_exact fuel F first t d : 1 <= d <= 3 -> 1 + Z.of_nat F <= 100 -> dt_nonneg t ->
  forall ms xs alpha r o r2,
    Forall2 (rval F d t) ms xs -> dt_equiv (table (r_s r)) t -> NEG_INF <= alpha <= M ->
    root_moves zt osort None fuel first ms d alpha r = Ok (o, r2) ->
    exists r', o = Some r' /\ dt_equiv (table (r_s r')) t /\
      let A := fold_left Z.max (map Z.opp xs) alpha in
      (A = alpha /\ r_events r' = r_events r /\ r_best r' = r_best r) \/
      (alpha < A /\ exists mov line evs x, r_events r' = Info d A line :: Send mov :: evs /\ r_best r' = Some mov /\
                                      In (mov, x) (combine ms xs) /\ - x = A).
Proof.
  intros Hd HF N0. induction ms as [|mov rest IH]; intros xs alpha r o r2 HFv E Ha H;
    inversion HFv as [|m' x ms' xs' Hx HF']; subst; cbn [root_moves] in H.
  - assert (o = Some r) by congruence. subst o. exists r. split; [reflexivity|]. split; [exact E|]. left. cbn. auto.
  - unfold out_of_time in H. cbn match in H.
    set (s1 := with_clock (r_s r) (clock (r_s r) + 1)%N) in *.
    assert (E1 : dt_equiv (table s1) t) by exact E.
    destruct (alpha_beta zt osort None fuel mov (d - 1) 1 (- POS_INF) (- alpha) true s1) as [[v s2]| |] eqn:AB; try discriminate H.
    assert (NN1 : dt_nonneg (table s1)) by (eapply dt_nonneg_equiv; eauto).
    pose proof (alpha_beta_restores zt osort None fuel mov (d - 1) 1 (- POS_INF) (- alpha) true s1 v s2 NN1 AB) as T2.
    assert (E2 : dt_equiv (table s2) t) by (eapply dt_equiv_trans; eauto).
    assert (K : ab_ok v x (- POS_INF) (- alpha)).
    { apply (search_exact fuel F mov (d - 1) 1 (- POS_INF) (- alpha) true s1 v s2 x t); try assumption; try lia.
      unfold NEG_INF, POS_INF, MATE_SCORE in *. lia. }
    pose proof (negamax_range zt F mov (d - 1) 1 t x ltac:(lia) HF Hx) as Rx.
    unfold ab_ok in K. unfold NEG_INF, POS_INF, MATE_SCORE in *.
    destruct (insert_into_cur_line s2 0 mov) as [s3| |] eqn:IC; try discriminate H.
    assert (E3 : dt_equiv (table s3) t) by (rewrite (insert_cur_table _ _ _ _ IC); exact E2).
    cbn [map fold_left]. destruct (Z.ltb_spec alpha (- v)) as [L|L].
    + cbn [negb] in H.
      set (s4 := set_principle_variation (with_clock s3 (clock s3 + 1)%N)) in *.
      assert (Ev : x = v) by lia.
      apply (IH xs' (- v)) in H; [|exact HF'|exact E3|lia].
      destruct H as (r' & Ho & Er & Hc). exists r'. split; [exact Ho|]. split; [exact Er|].
      replace (Z.max alpha (- x)) with (- v) by lia. right. cbn zeta in Hc. destruct Hc as [(A1 & A2 & A3)|(A1 & mv & line & evs & y & B1 & B2 & B3 & B4)].
      * split; [rewrite A1; lia|]. exists mov, (info_line s4 d (- v)), (r_events r), x. cbn [r_events r_best] in A2, A3.
        rewrite A1. split; [exact A2|]. split; [exact A3|]. split; [left; reflexivity|lia].
      * split; [lia|]. exists mv, line, evs, y. split; [exact B1|]. split; [exact B2|]. split; [right; exact B3|exact B4].
    + apply (IH xs' alpha) in H; [|exact HF'|exact E3|lia].
      destruct H as (r' & Ho & Er & Hc). exists r'. split; [exact Ho|]. split; [exact Er|].
      replace (Z.max alpha (- x)) with alpha by lia. cbn zeta in Hc. cbn [r_events r_best] in Hc.
      destruct Hc as [Hc|(A1 & mv & line & evs & y & B1 & B2 & B3 & B4)]; [left; exact Hc|].
      right. split; [exact A1|]. exists mv, line, evs, y. split; [exact B1|]. split; [exact B2|]. split; [right; exact B3|exact B4].
Qed.

(* one whole iteration from the initial window: the newest events are the exact value and a move attaining it *)
Theorem root_iteration_exact fuel F first t d ms xs r o r2 :
  1 <= d <= 3 -> 1 + Z.of_nat F <= 100 -> dt_nonneg t -> ms <> [] ->
  Forall2 (rval F d t) ms xs -> dt_equiv (table (r_s r)) t ->
  root_moves zt osort None fuel first ms d NEG_INF r = Ok (o, r2) ->
  exists r' mov line evs x A,
    o = Some r' /\ r_events r' = Info d A line :: Send mov :: evs /\ r_best r' = Some mov /\
    In (mov, x) (combine ms xs) /\ - x = A /\ is_max A (map Z.opp xs).
Proof.
  intros Hd HF N0 NE HFv E H.
  destruct (root_moves_exact fuel F first t d Hd HF N0 ms xs NEG_INF r o r2 HFv E ltac:(unfold NEG_INF, POS_INF, MATE_SCORE; lia) H)
    as (r' & Ho & _ & Hc). cbn zeta in Hc.
  assert (Rng : forall x, In x xs -> - (M - 1) <= x <= M - 1).
  { intros x Hx. clear - HFv Hx HF. induction HFv as [|m y ms' ys Hmy _ IH']; [contradiction|]. destruct Hx as [<-|Hx]; [|auto].
    exact (negamax_range zt F m (d - 1) 1 t y ltac:(lia) HF Hmy). }
  assert (Hmax : forall l a, (forall x, In x l -> a < - x) -> l <> [] -> is_max (fold_left Z.max (map Z.opp l) a) (map Z.opp l)).
  { intros l a Hl Hne. split.
    - intros y Hy. now apply fold_max_in.
    - destruct (fold_max_cases (map Z.opp l) a) as [Eq|Hin]; [|exact Hin]. exfalso. destruct l as [|x l']; [contradiction|].
      assert (- x <= fold_left Z.max (map Z.opp (x :: l')) a) by (apply fold_max_in; now left). specialize (Hl x (or_introl eq_refl)). lia. }
  assert (NEx : xs <> []) by (destruct HFv; [contradiction|discriminate]).
  assert (Low : forall x, In x xs -> NEG_INF < - x) by (intros x Hx; specialize (Rng x Hx); unfold NEG_INF, POS_INF, MATE_SCORE in *; lia).
  pose proof (Hmax xs NEG_INF Low NEx) as IM.
  destruct Hc as [(A1 & _)|(A1 & mv & line & evs & y & B1 & B2 & B3 & B4)].
  - exfalso. destruct xs as [|x xs']; [contradiction|]. destruct IM as [_ Hin]. rewrite A1 in Hin.
    apply in_map_iff in Hin. destruct Hin as (z & Ez & Hz). specialize (Low z Hz). lia.
  - exists r', mv, line, evs, y, (fold_left Z.max (map Z.opp xs) NEG_INF). repeat split; try assumption; apply IM.
Qed.

End R.

(* ---- in terms of the position: the list an iteration runs over is a permutation of the generated moves
   with some ordering fields changed (PV mark), and that changes nothing *)
Section V.
Variable zt : ztable.
Variable osort : N -> list BoardState -> list BoardState.
Hypothesis osort_perm : forall i l, Permutation l (osort i l).

Lemma mark_pv_same best l : Forall2 same_move (mark_pv best l) l.
Proof.
  unfold mark_pv. destruct best as [bb|]; [|apply Forall2_same_refl].
  induction l as [|m l IH]; [constructor|]. destruct (is_pv_of bb m).
  - constructor; [apply same_move_with_oh|apply Forall2_same_refl].
  - constructor; [apply same_move_refl|exact IH].
Qed.

Lemma is_max_unique a a' l l' : is_max a l -> is_max a' l' -> Permutation l l' -> a = a'.
Proof.
  intros [H1 I1] [H2 I2] P. assert (a <= a') by (apply H2; apply (Permutation_in _ P I1)).
  assert (a' <= a) by (apply H1; apply (Permutation_in _ (Permutation_sym P) I2)). lia.
Qed.

Lemma in_combine_F2 {A B} (R : A -> B -> Prop) l l' a b : Forall2 R l l' -> In (a, b) (combine l l') -> In a l /\ R a b.
Proof.
  induction 1 as [|x y l l' Hxy _ IH]; cbn [combine]; [contradiction|]. intros [E|H].
  - injection E as -> ->. split; [now left|exact Hxy].
  - destruct (IH H). split; [now right|assumption].
Qed.

Theorem root_iteration_value fuel F first t d b ms0 ms ws A r o r2 :
  1 <= d <= 3 -> 1 + Z.of_nat F <= 100 -> dt_nonneg t ->
  generate_moves zt b AllMoves <> [] ->
  Forall2 same_move ms0 (generate_moves zt b AllMoves) -> Permutation ms0 ms ->
  Forall2 (rval zt F d t) (generate_moves zt b AllMoves) ws -> is_max A (map Z.opp ws) ->
  dt_equiv (table (r_s r)) t ->
  root_moves zt osort None fuel first ms d NEG_INF r = Ok (o, r2) ->
  exists r' mov line evs x,
    o = Some r' /\ r_events r' = Info d A line :: Send mov :: evs /\ r_best r' = Some mov /\
    In mov ms /\ rval zt F d t mov x /\ - x = A.
Proof.
  intros Hd HF N0 NE SM P HFv IM E H.
  assert (HF0 : Forall2 (rval zt F d t) ms0 ws).
  { clear - SM HFv. revert ws HFv. induction SM as [|m g ms' gs S _ IH]; intros ws HFv; inversion HFv; subst; constructor; [|auto].
    unfold rval in *. now rewrite (negamax_same zt F m g _ _ _ S). }
  destruct (Forall2_perm_values _ _ _ _ P HF0) as (ws' & Pw & HFs).
  assert (NEm : ms <> []).
  { intros ->. apply Permutation_sym, Permutation_nil in P. subst ms0. inversion SM. congruence. }
  destruct (root_iteration_exact zt osort osort_perm fuel F first t d ms ws' r o r2 Hd HF N0 NEm HFs E H)
    as (r' & mov & line & evs & x & A' & Ho & Ev & Bs & Hin & Ex & IM').
  assert (A = A') by (apply (is_max_unique A A' (map Z.opp ws) (map Z.opp ws') IM IM'); now apply Permutation_map). subst A'.
  destruct (in_combine_F2 _ _ _ _ _ HFs Hin) as [Hm Hr].
  exists r', mov, line, evs, x. rewrite H0. split; [exact Ho|]. split; [exact Ev|]. split; [exact Bs|]. split; [exact Hm|]. split; [exact Hr|reflexivity].
Qed.

End V.

(* ---- the whole unlimited search: the last score reported for each of the depths 1..3 is the exact value *)
From Walleye Require Import Proofs.RootDraw.

Section W.
Variable zt : ztable.
Variable osort : N -> list BoardState -> list BoardState.
Hypothesis osort_perm : forall i l, Permutation l (osort i l).

Definition root_value (b : BoardState) (t : dtable) (d A : Z) : Prop :=
  exists F ws, 1 + Z.of_nat F <= 100 /\
    Forall2 (rval zt F d t) (generate_moves zt b AllMoves) ws /\ is_max A (map Z.opp ws).

Definition exact_upto (b : BoardState) (t : dtable) (cur : Z) (evs : list event) : Prop :=
  forall d e A, d < cur -> 1 <= d <= 3 -> newest_info d evs = Some e -> root_value b t d A -> e = A.

Lemma root_depths_exact fuel b t : forall iters moves cur r r',
  root_depths zt osort None iters fuel b moves cur r = Ok r' ->
  dt_nonneg t -> dt_equiv (table (r_s r)) t -> 1 <= cur ->
  Forall2 same_move moves (generate_moves zt b AllMoves) ->
  exact_upto b t cur (r_events r) -> below cur (r_events r) ->
  exists cur', exact_upto b t cur' (r_events r') /\ below cur' (r_events r').
Proof.
  induction iters as [|it IH]; intros moves cur r r' H NN ET Hc SM G B0; cbn [root_depths] in H.
  - apply ok_inj in H. subst r'. eauto.
  - destruct (MAX_DEPTH <=? cur); [apply ok_inj in H; subst r'; eauto|].
    set (s0 := reset_search (r_s r)) in *.
    assert (T0 : table s0 = table (r_s r)) by reflexivity.
    pose proof (do_sort_perm osort osort_perm moves s0) as P.
    destruct (do_sort osort moves s0) as [sorted s1] eqn:DS. cbn [fst] in P.
    assert (T1 : table s1 = table s0) by (change s1 with (snd (sorted, s1)); rewrite <- DS; reflexivity).
    assert (G' : exact_upto b t (cur + 1) (r_events r) -> exact_upto b t (cur + 1) (r_events r)) by auto.
    destruct sorted as [|first rest].
    + apply (IH _ _ _ _ H NN); auto.
      * cbn [r_s]. now rewrite T1, T0.
      * lia.
      * apply Forall2_same_refl.
      * intros d e A Hd Hr Hn. cbn [r_events] in Hn. destruct (Z_lt_le_dec d cur) as [L|L]; [now apply (G d e A)|].
        rewrite (newest_none cur _ d B0 L) in Hn. discriminate.
      * cbn [r_events]. eapply Forall_impl; [|exact B0]. intros [b1|d1 e1 l1]; [auto|lia].
    + destruct (root_moves zt osort None fuel first (first :: rest) cur NEG_INF (mkR s1 (r_best r) (r_events r))) as [[[r1|] rl]| |] eqn:RM; try discriminate H.
      * destruct (root_moves_events zt osort fuel first cur _ _ _ _ _ RM) as [_ (new & En & Fn)]. cbn [r_events] in En.
        assert (ET1 : dt_equiv (table (r_s (mkR s1 (r_best r) (r_events r)))) t) by (cbn [r_s]; rewrite T1, T0; exact ET).
        assert (E1 : dt_equiv (table (r_s r1)) t).
        { destruct (root_moves_restores zt osort None fuel first _ _ _ _ _ _ t NN ET1 RM) as [_ X]. exact X. }
        apply (IH _ _ _ _ H NN); auto.
        -- lia.
        -- apply mark_pv_same.
        -- intros d e A Hd Hr Hn RV. destruct (Z.eq_dec d cur) as [->|Hne].
           ++ destruct RV as (F & ws & HF & HFv & IM).
              assert (NEg : generate_moves zt b AllMoves <> []).
              { intros Eg. rewrite Eg in SM. inversion SM; subst. apply Permutation_nil in P. discriminate P. }
              destruct (root_iteration_value zt osort osort_perm fuel F first t cur b moves (first :: rest) ws A
                          (mkR s1 (r_best r) (r_events r)) (Some r1) rl Hr HF NN NEg SM P HFv IM ET1 RM)
                as (r1' & mov & line & evs & x & Ho & Ev & _). apply some_inj in Ho. subst r1'.
              rewrite Ev in Hn. cbn [newest_info] in Hn. rewrite Z.eqb_refl in Hn. now apply some_inj in Hn.
           ++ rewrite En, (newest_info_skip d cur new (r_events r) Hne Fn) in Hn. apply (G d e A); [lia|exact Hr|exact Hn|exact RV].
        -- rewrite En. apply Forall_app. split.
           ++ eapply Forall_impl; [|exact Fn]. intros [b1|d1 e1 l1]; cbn; [auto|intros ->; lia].
           ++ eapply Forall_impl; [|exact B0]. intros [b1|d1 e1 l1]; [auto|lia].
      * destruct (root_moves_events zt osort fuel first cur _ _ _ _ _ RM) as [N _]. now contradiction N.
Qed.

Theorem unlimited_scores_exact fuel b t evs s :
  dt_nonneg t -> get_best_move zt osort None fuel b t = Ok (evs, s) ->
  forall d e A, 1 <= d <= 3 -> newest_info d (rev evs) = Some e -> root_value b t d A -> e = A.
Proof.
  intros NN H d e A Hd Hn RV. unfold get_best_move in H.
  destruct (root_depths zt osort None (Z.to_nat MAX_DEPTH) fuel b (generate_moves zt b AllMoves) 1 (mkR (new_search t) None [])) as [r| |] eqn:RD; try discriminate H.
  assert (evs = rev (r_events r)) by congruence. subst evs. rewrite rev_involutive in Hn.
  destruct (root_depths_exact fuel b t _ _ _ _ _ RD NN) as (cur' & G & B0).
  - apply dt_equiv_refl.
  - lia.
  - apply Forall2_same_refl.
  - intros d0 e0 A0 _ _ X. discriminate X.
  - constructor.
  - destruct (Z_lt_le_dec d cur') as [L|L]; [exact (G d e A L Hd Hn RV)|].
    rewrite (newest_none cur' _ d B0 L) in Hn. discriminate Hn.
Qed.

End W.

(* ---- timed searches: an iteration at whose end the clock has not expired is an iteration of the unlimited search *)
From Walleye Require Import Proofs.ClockSim Proofs.RootSim.

Section T.
Variable zt : ztable.
Variable osort : N -> list BoardState -> list BoardState.
Variable kk : N.
Notation k1 := (Some kk).

Lemma root_moves_clock fuel first : forall ms d alpha r o r2,
  root_moves zt osort k1 fuel first ms d alpha r = Ok (o, r2) -> (clock (r_s r) <= clock (r_s r2))%N.
Proof.
  induction ms as [|mov rest IH]; intros d alpha r o r2 H; cbn [root_moves] in H.
  - assert (r2 = r) by congruence. subst. lia.
  - destruct (out_of_time k1 (r_s r)) as [e s] eqn:OT.
    assert (Cs : clock s = (clock (r_s r) + 1)%N) by (change s with (snd (e, s)); rewrite <- OT; reflexivity).
    destruct e.
    + assert (r2 = mkR s (r_best r) (match r_best r with None => Send first :: r_events r | Some _ => r_events r end)) by congruence. subst r2. cbn [r_s]. lia.
    + destruct (alpha_beta zt osort k1 fuel mov (d - 1) 1 (- POS_INF) (- alpha) true s) as [[v s1]| |] eqn:AB; try discriminate H.
      destruct (alpha_beta_sim zt osort k1 None Logic.I fuel _ _ _ _ _ _ _ _ _ AB) as [M1 _].
      destruct (insert_into_cur_line s1 0 mov) as [s2| |] eqn:I2; try discriminate H.
      pose proof (insert_cur_clock _ _ _ _ I2) as C2.
      destruct (alpha <? - v).
      * destruct (out_of_time k1 s2) as [e2 s3] eqn:OT2.
        assert (C3 : clock s3 = (clock s2 + 1)%N) by (change s3 with (snd (e2, s3)); rewrite <- OT2; reflexivity).
        destruct e2; cbn [negb] in H; apply IH in H; cbn [r_s] in H; cbn [clock set_principle_variation with_pv] in H; lia.
      * apply IH in H. cbn [r_s] in H. lia.
Qed.

Lemma root_moves_quiet_unlimited fuel first : forall ms d alpha r o r2,
  root_moves zt osort k1 fuel first ms d alpha r = Ok (o, r2) -> quiet k1 (r_s r2) ->
  root_moves zt osort None fuel first ms d alpha r = Ok (o, r2).
Proof.
  induction ms as [|mov rest IH]; intros d alpha r o r2 H Q; cbn [root_moves] in H |- *; [exact H|].
  pose proof (root_moves_clock fuel first (mov :: rest) d alpha r o r2) as MC. cbn [root_moves] in MC. specialize (MC H).
  unfold out_of_time in H at 1. cbn match in H. unfold out_of_time at 1. cbn match.
  set (s := with_clock (r_s r) (clock (r_s r) + 1)%N) in *.
  destruct (kk <=? clock (r_s r))%N eqn:E.
  { exfalso. apply N.leb_le in E. assert (r2 = mkR s (r_best r) (match r_best r with None => Send first :: r_events r | Some _ => r_events r end)) by congruence.
    subst r2. unfold quiet in Q. cbn [r_s clock with_clock s] in Q. lia. }
  destruct (alpha_beta zt osort k1 fuel mov (d - 1) 1 (- POS_INF) (- alpha) true s) as [[v s1]| |] eqn:AB; try discriminate H.
  destruct (alpha_beta_sim zt osort k1 None Logic.I fuel _ _ _ _ _ _ _ _ _ AB) as [M1 S1].
  destruct (insert_into_cur_line s1 0 mov) as [s2| |] eqn:I2; try discriminate H.
  pose proof (insert_cur_clock _ _ _ _ I2) as C2.
  assert (Rest : forall a3 r3, root_moves zt osort k1 fuel first rest d a3 r3 = Ok (o, r2) -> (clock s1 <= clock (r_s r3))%N ->
                 alpha_beta zt osort None fuel mov (d - 1) 1 (- POS_INF) (- alpha) true s = Ok (v, s1)).
  { intros a3 r3 H3 L3. apply S1. pose proof (root_moves_clock fuel first rest d a3 r3 o r2 H3). unfold quiet in *. lia. }
  destruct (alpha <? - v) eqn:Lt.
  - unfold out_of_time in H at 1. cbn match in H.
    destruct (kk <=? clock s2)%N eqn:E2; cbn [negb] in H.
    + exfalso. apply N.leb_le in E2. pose proof (root_moves_clock fuel first rest d alpha _ o r2 H) as X. cbn [r_s clock with_clock] in X. unfold quiet in Q. lia.
    + rewrite (Rest _ _ H ltac:(cbn [r_s clock set_principle_variation with_pv with_clock]; lia)), I2, Lt.
      unfold out_of_time at 1. cbn match. cbn [negb]. apply IH; [exact H|exact Q].
  - rewrite (Rest _ _ H ltac:(cbn [r_s]; lia)), I2, Lt. apply IH; [exact H|exact Q].
Qed.

End T.

Section TV.
Variable zt : ztable.
Variable osort : N -> list BoardState -> list BoardState.
Hypothesis osort_perm : forall i l, Permutation l (osort i l).

(* C12 for searches under a clock: an iteration of depth 1..3 that ends before the allowance expires reports the
   exact value and sends a move attaining it *)
Theorem timed_iteration_value k fuel F first t d b ms0 ms ws A r o r2 :
  1 <= d <= 3 -> 1 + Z.of_nat F <= 100 -> dt_nonneg t ->
  generate_moves zt b AllMoves <> [] ->
  Forall2 same_move ms0 (generate_moves zt b AllMoves) -> Permutation ms0 ms ->
  Forall2 (rval zt F d t) (generate_moves zt b AllMoves) ws -> is_max A (map Z.opp ws) ->
  dt_equiv (table (r_s r)) t ->
  root_moves zt osort k fuel first ms d NEG_INF r = Ok (o, r2) -> quiet k (r_s r2) ->
  exists r' mov line evs x,
    o = Some r' /\ r_events r' = Info d A line :: Send mov :: evs /\ r_best r' = Some mov /\
    In mov ms /\ rval zt F d t mov x /\ - x = A.
Proof.
  intros Hd HF NN NE SM P HFv IM E H Q.
  assert (H' : root_moves zt osort None fuel first ms d NEG_INF r = Ok (o, r2)).
  { destruct k as [kk|]; [|exact H]. now apply (root_moves_quiet_unlimited zt osort kk fuel first). }
  exact (root_iteration_value zt osort osort_perm fuel F first t d b ms0 ms ws A r o r2 Hd HF NN NE SM P HFv IM E H').
Qed.

End TV.
