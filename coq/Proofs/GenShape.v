(* Shape of the pseudo-legal targets the generator produces (what the successor theorems need). *)
From Walleye Require Import Model.Successor Proofs.Cells Proofs.KeyInvariant.
Open Scope Z_scope.

(* a target is empty or holds a piece of the other colour *)
Lemma step_target_kind b c m q x : In x (step_target b c m q) -> x = q /\ is_empty_or_color (get b q) (opposite c) = true.
Proof.
  unfold step_target. destruct (is_empty_or_color (get b q) (opposite c)) eqn:E; [|intros []].
  intros H. split; [|reflexivity].
  destruct (mode_all m); [destruct H as [<-|[]]; reflexivity|].
  destruct (negb (is_empty (get b q))); [destruct H as [<-|[]]; reflexivity|destruct H].
Qed.

Lemma ray_kind fuel b d m enemy : forall p x, In x (ray fuel b p d m enemy) -> is_empty (get b x) = true \/ is_color (get b x) enemy = true.
Proof.
  induction fuel as [|f IH]; intros p x H; cbn [ray] in H; [contradiction|].
  destruct (is_empty (get b p)) eqn:Em.
  - apply in_app_or in H. destruct H as [H|H]; [|eapply IH; eauto].
    destruct (mode_all m); [|contradiction]. destruct H as [<-|[]]. left; exact Em.
  - destruct (is_color (get b p) enemy) eqn:C; [|contradiction]. destruct H as [<-|[]]. right; exact C.
Qed.

(* pawn targets: straight onto empty squares (one or two rows forward), or diagonally onto an enemy piece *)
Lemma pawn_moves_shape pc row col b m x :
  In x (pawn_moves pc (row, col) b m) ->
  let fw := match pcolor pc with White => -1 | Black => 1 end in
  (snd x = col /\ is_empty (get b x) = true /\
   (fst x = row + fw \/ (fst x = row + 2 * fw /\ row = match pcolor pc with White => DOUBLE_ROW_WHITE | Black => DOUBLE_ROW_BLACK end))) \/
  ((snd x = col + 1 \/ snd x = col - 1) /\ fst x = row + fw /\ is_color (get b x) (opposite (pcolor pc)) = true).
Proof.
  unfold pawn_moves.
  destruct (pcolor pc); cbn zeta; intros H;
  (apply in_app_or in H; destruct H as [H|H];
   [apply in_single_if in H; destruct H as [E ->]; right; cbn [fst snd opposite]; repeat split; auto; lia|]);
  (apply in_app_or in H; destruct H as [H|H];
   [apply in_single_if in H; destruct H as [E ->]; right; cbn [fst snd opposite]; repeat split; auto; lia|]);
  match type of H with In x (if ?c then _ else _) => destruct c eqn:E3; [|contradiction] end;
  apply andb_true_iff in E3; destruct E3 as [_ E3];
  (destruct H as [<-|H]; [left; cbn [fst snd]; repeat split; auto; lia|]);
  apply in_single_if in H; destruct H as [E4 ->];
  apply andb_true_iff in E4; destruct E4 as [E5 E4]; apply Z.eqb_eq in E5; left; cbn [fst snd]; repeat split; auto; lia.
Qed.

Lemma king_moves_shape pc p b m x : In x (king_moves pc p b m) -> Z.abs (fst x - fst p) <= 1 /\ Z.abs (snd x - snd p) <= 1.
Proof.
  unfold king_moves. intros H. apply in_flat_map in H. destruct H as [d [Hd H]].
  apply step_target_kind in H. destruct H as [-> _].
  unfold king_offsets in Hd. apply in_flat_map in Hd. destruct Hd as [i [Hi Hd]]. apply in_map_iff in Hd. destruct Hd as [j [<- Hj]].
  unfold padd. cbn [fst snd]. cbn in Hi, Hj. lia.
Qed.

(* every target is empty or enemy-occupied, so it differs from the origin of an own piece *)
Lemma get_moves_target_kind pc p b m x :
  In x (get_moves pc p b m) -> is_empty (get b x) = true \/ is_color (get b x) (opposite (pcolor pc)) = true.
Proof.
  unfold get_moves. destruct (pkind pc).
  - destruct p as [row col]. intros H. apply pawn_moves_shape in H. cbn zeta in H. tauto.
  - unfold knight_moves. intros H. apply in_flat_map in H. destruct H as [d [_ H]]. apply step_target_kind in H. destruct H as [-> E].
    destruct (get b (padd p d)) as [|q|]; cbn in *; try discriminate; auto.
  - unfold bishop_moves, slide. intros H. apply in_flat_map in H. destruct H as [d [_ H]]. eapply ray_kind; eauto.
  - unfold rook_moves, slide. intros H. apply in_flat_map in H. destruct H as [d [_ H]]. eapply ray_kind; eauto.
  - unfold queen_moves, rook_moves, bishop_moves, slide. intros H. apply in_app_or in H.
    destruct H as [H|H]; apply in_flat_map in H; destruct H as [d [_ H]]; eapply ray_kind; eauto.
  - unfold king_moves. intros H. apply in_flat_map in H. destruct H as [d [_ H]]. apply step_target_kind in H. destruct H as [-> E].
    destruct (get b (padd p d)) as [|q|]; cbn in *; try discriminate; auto.
Qed.

Lemma target_not_origin pc p b m x :
  get b p = Full pc -> In x (get_moves pc p b m) -> p <> x.
Proof.
  intros G H E. subst x. apply get_moves_target_kind in H. rewrite G in H. cbn in H.
  destruct H as [H|H]; [discriminate|]. destruct (pcolor pc); discriminate.
Qed.
