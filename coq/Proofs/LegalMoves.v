(* C01, assembled: the moves the generator produces are exactly the legal moves of the rules
   (soundness, completeness, no duplicates), for every well-formed position. *)
From Walleye Require Import Model.Successor Spec.Abs Proofs.Cells Proofs.Ray Proofs.HashProofs Proofs.AttackGeom Proofs.AbsSet
  Proofs.KeyInvariant Proofs.CheckProofs Proofs.MoveGenProofs Proofs.GenShape Proofs.SuccessorAbs Proofs.GenerateAbs
  Proofs.SuccessorWf Proofs.AttackExt Proofs.Legality Proofs.PseudoLegal.
Open Scope Z_scope.

(* the en-passant target, when there is one, lies on the rank behind a pawn that has just double-stepped *)
Definition ep_row_ok (s : BoardState) : Prop :=
  forall t, pawn_double_move s = Some t -> fst t = match to_move s with White => 4 | Black => 7 end.

Definition pos_ok1 (s : BoardState) : Prop := pos_ok s AllMoves /\ ep_row_ok s.

Lemma legal_moves_in p m : In m (legal_moves p) <-> In m (pseudo_moves p) /\ in_check (pos_pl (apply p m)) (pos_stm p) = false.
Proof. unfold legal_moves. rewrite filter_In, negb_true_iff. reflexivity. Qed.

Lemma pseudo_piece p q m : on8 q = true -> In m (piece_moves_spec p q) -> In m (pseudo_moves p).
Proof. intros On H. unfold pseudo_moves. apply in_or_app. left. apply in_flat_map. exists q. split; [now apply on8_in_all_sq|exact H]. Qed.

Lemma piece_moves_spec_pawn P q pc :
  pget (pos_pl P) q = Some pc -> pcolor pc = pos_stm P -> pkind pc = Pawn -> piece_moves_spec P q = pawn_moves_spec P q (pcolor pc).
Proof. intros G C K. unfold piece_moves_spec. rewrite G, C, color_eqb_refl, K. reflexivity. Qed.

Lemma promotion_kinds_spec k : In k PROMOTION_KINDS <-> In k [Queen; Rook; Bishop; Knight].
Proof. unfold PROMOTION_KINDS. cbn. intuition. Qed.

Section S.
Variable zt : ztable.

(* the facts about a pseudo-legal target that the successor theorems need *)
Lemma ordinary_hyps_of_pos_ok s m pc sq mov :
  pos_ok s m -> is_inner sq = true -> get (board s) sq = Full pc -> pcolor pc = to_move s ->
  In mov (get_moves pc sq (board s) m) ->
  ordinary_hyps s pc sq mov /\
  (pkind pc = Pawn -> (fst mov = BOARD_START \/ fst mov = BOARD_END - 1) -> Z.abs (fst sq - fst mov) <> 2).
Proof.
  intros (OK & KO & RH & EP & NK) Hs G PC Hmov.
  assert (OK' := OK). destruct OK' as [L [Ring Inner]].
  assert (Hm : is_inner mov = true).
  { apply (not_boundary_inner _ _ Ring). exact (get_moves_not_boundary pc sq (board s) m mov Hmov). }
  assert (Hne : sq <> mov) by exact (target_not_origin pc sq (board s) m mov G Hmov).
  assert (NKm : forall col, get (board s) mov <> Full (mkPiece col King)) by exact (NK sq pc mov Hs G PC Hmov).
  assert (PD : pkind pc = Pawn -> Z.abs (fst sq - fst mov) = 2 ->
               snd sq = snd mov /\ (pcolor pc = White -> fst sq = fst mov + 2) /\ (pcolor pc = Black -> fst mov = fst sq + 2)).
  { intros PK D. unfold get_moves in Hmov. rewrite PK in Hmov. destruct sq as [row col].
    apply pawn_moves_shape in Hmov. cbn zeta in Hmov. cbn [fst snd] in *.
    destruct (pcolor pc); destruct Hmov as [(A & _ & [B|[B _]])|(_ & B & _)]; repeat split; intros; try discriminate; lia. }
  assert (PCap : pkind pc = Pawn -> snd sq <> snd mov -> get (board s) mov <> Empty).
  { intros PK D. unfold get_moves in Hmov. rewrite PK in Hmov. destruct sq as [row col].
    apply pawn_moves_shape in Hmov. cbn zeta in Hmov. cbn [fst snd] in *.
    destruct Hmov as [(A & _ & _)|(_ & _ & C)]; [lia|]. intros E. rewrite E in C. discriminate. }
  assert (KS : pkind pc = King -> Z.abs (snd sq - snd mov) <= 1).
  { intros PK. unfold get_moves in Hmov. rewrite PK in Hmov. apply king_moves_shape in Hmov. lia. }
  assert (Prow : pkind pc = Pawn -> (fst mov = BOARD_START \/ fst mov = BOARD_END - 1) -> Z.abs (fst sq - fst mov) <> 2).
  { intros PK Last. unfold get_moves in Hmov. rewrite PK in Hmov. destruct sq as [row col].
    apply pawn_moves_shape in Hmov. cbn zeta in Hmov. cbn [fst snd] in *.
    unfold BOARD_START, BOARD_END, DOUBLE_ROW_WHITE, DOUBLE_ROW_BLACK in *.
    destruct (pcolor pc); destruct Hmov as [(A & _ & [B|[B R]])|(_ & B & _)]; lia. }
  split; [|exact Prow]. unfold ordinary_hyps.
  split; [exact OK|]. split; [exact KO|]. split; [exact RH|]. split; [exact G|]. split; [exact Hs|]. split; [exact Hm|].
  split; [exact Hne|]. split; [exact NKm|]. split; [exact PD|]. split; [exact PCap|exact KS].
Qed.

Lemma stm_abs s : pos_stm (abs s) = to_move s. Proof. reflexivity. Qed.
Lemma pl_abs s : pos_pl (abs s) = abs_placement (board s). Proof. reflexivity. Qed.

Lemma successors_sound s pc sq mov x :
  pos_ok s AllMoves -> is_inner sq = true -> get (board s) sq = Full pc -> pcolor pc = to_move s ->
  In mov (get_moves pc sq (board s) AllMoves) -> In x (successors_of_move zt s pc sq mov) ->
  exists mv, desc x = Some mv /\ In mv (legal_moves (abs s)).
Proof.
  intros PO Hs G PC Hmov Hx.
  destruct (ordinary_hyps_of_pos_ok s AllMoves pc sq mov PO Hs G PC Hmov) as [OH Prow].
  assert (OH' := OH). destruct OH' as (OK & KO & RH & _ & _ & Hm & Hne & NKm & PD & PCap & KS).
  pose proof (proj1 (inner_on8 sq) Hs) as OnS.
  assert (Mover : pget (pos_pl (abs s)) (sq_of_pt sq) = Some pc) by (rewrite pl_abs, pget_abs_on, pt_sq, G; auto).
  assert (Stm : pcolor pc = pos_stm (abs s)) by (now rewrite stm_abs).
  unfold successors_of_move in Hx.
  destruct (moved_board zt s pc sq mov) as [nb|] eqn:MB; [|contradiction].
  destruct (moved_board_fields zt _ _ _ _ _ MB) as [ML MP].
  destruct (finalise_fields zt nb pc sq mov) as [FL FP]. rewrite ML in FL. rewrite MP in FP.
  apply moved_board_some in MB. destruct MB as [-> Chk].
  (* a pawn reaching the last row *)
  assert (Promo : forall k, pkind pc = Pawn -> (fst mov = BOARD_START \/ fst mov = BOARD_END - 1) ->
                            snd (sq_of_pt mov) = last_rank (pcolor pc) -> In k PROMOTION_KINDS ->
                            In (mkMove (sq_of_pt sq) (sq_of_pt mov) (Some k)) (legal_moves (abs s))).
  { intros k PK Last LR Hk. apply legal_moves_in. split.
    - apply (pseudo_piece _ (sq_of_pt sq)); [exact OnS|]. rewrite (piece_moves_spec_pawn _ _ pc Mover Stm PK).
      destruct sq as [row col]. apply (pawn_sound (board s) OK (abs s) pc row col eq_refl).
      + unfold get_moves in Hmov. now rewrite PK in Hmov.
      + unfold promo_ok. rewrite LR, Z.eqb_refl. exists k. split; [reflexivity|now apply promotion_kinds_spec].
    - rewrite stm_abs, <- PC. rewrite (promotion_check_agrees zt s pc sq mov k OH PK (Prow PK Last) Hk). exact Chk. }
  destruct ((fst mov =? BOARD_START) && color_eqb (pcolor pc) White && is_pawn_kind (pkind pc)) eqn:P1.
  - apply andb_true_iff in P1. destruct P1 as [P1 PKb]. apply andb_true_iff in P1. destruct P1 as [R1 C1].
    apply Z.eqb_eq in R1. destruct (color_eqb_spec (pcolor pc) White) as [CW|]; [|discriminate].
    assert (PK : pkind pc = Pawn) by (destruct (pkind pc); try discriminate; reflexivity).
    rewrite <- CW in Hx.
    destruct (promotion_pre_abs zt s pc sq mov x OK KO RH G Hs Hm Hne NKm PK (Prow PK (or_introl R1)) (PCap PK) Hx) as [k [Hk [HP HA]]].
    exists (mkMove (sq_of_pt sq) (sq_of_pt mov) (Some k)). split.
    + destruct (promote_pawn_desc zt _ _ _ _ _ Hx) as [HL _]. unfold desc. rewrite HL, HP. reflexivity.
    + apply Promo; auto. rewrite CW. unfold sq_of_pt, BOARD_START, BOARD_END in *. cbn [fst snd last_rank]. lia.
  - destruct ((fst mov =? BOARD_END - 1) && color_eqb (pcolor pc) Black && is_pawn_kind (pkind pc)) eqn:P2.
    + apply andb_true_iff in P2. destruct P2 as [P2 PKb]. apply andb_true_iff in P2. destruct P2 as [R1 C1].
      apply Z.eqb_eq in R1. destruct (color_eqb_spec (pcolor pc) Black) as [CB|]; [|discriminate].
      assert (PK : pkind pc = Pawn) by (destruct (pkind pc); try discriminate; reflexivity).
      rewrite <- CB in Hx.
      destruct (promotion_pre_abs zt s pc sq mov x OK KO RH G Hs Hm Hne NKm PK (Prow PK (or_intror R1)) (PCap PK) Hx) as [k [Hk [HP HA]]].
      exists (mkMove (sq_of_pt sq) (sq_of_pt mov) (Some k)). split.
      * destruct (promote_pawn_desc zt _ _ _ _ _ Hx) as [HL _]. unfold desc. rewrite HL, HP. reflexivity.
      * apply Promo; auto. rewrite CB. unfold sq_of_pt, BOARD_START, BOARD_END in *. cbn [fst snd last_rank]. lia.
    + destruct Hx as [<-|[]].
      exists (mkMove (sq_of_pt sq) (sq_of_pt mov) None). split; [now apply desc_of|].
      apply legal_moves_in. split.
      * apply (pseudo_piece _ (sq_of_pt sq)); [exact OnS|].
        destruct (kind_eqb_spec (pkind pc) Pawn) as [PK|NPK].
        -- rewrite (piece_moves_spec_pawn _ _ pc Mover Stm PK).
           destruct sq as [row col]. apply (pawn_sound (board s) OK (abs s) pc row col eq_refl).
           ++ unfold get_moves in Hmov. now rewrite PK in Hmov.
           ++ unfold promo_ok. destruct (Z.eqb_spec (snd (sq_of_pt mov)) (last_rank (pcolor pc))) as [LR|]; [|reflexivity].
              exfalso. rewrite PK in P1, P2. cbn [is_pawn_kind] in P1, P2. rewrite andb_true_r in P1, P2.
              unfold sq_of_pt, BOARD_START, BOARD_END in *. cbn [fst snd] in LR.
              destruct (pcolor pc); cbn [last_rank color_eqb] in *; rewrite andb_true_r in *;
                [apply Z.eqb_neq in P1|apply Z.eqb_neq in P2]; lia.
        -- apply (nonpawn_agree (board s) OK (abs s) pc sq mov eq_refl); auto.
      * rewrite stm_abs, <- PC. rewrite (ordinary_check_agrees zt s pc sq mov OH). exact Chk.
Qed.

(* ---- en passant *)
Definition ep_row (c : color) : Z := match c with White => EP_ROW_WHITE | Black => EP_ROW_BLACK end.

Lemma ep_geometry pc row col s mov :
  pawn_moves_en_passant pc (row, col) s = Some mov <->
  pawn_double_move s = Some mov /\ row = ep_row (pcolor pc) /\
  (mov = (row + mfw (pcolor pc), col - 1) \/ mov = (row + mfw (pcolor pc), col + 1)).
Proof.
  unfold pawn_moves_en_passant. destruct (pawn_double_move s) as [dm|]; [|split; [discriminate|intros [H _]; discriminate]].
  destruct (pcolor pc); cbn [ep_row mfw].
  - destruct (Z.eqb_spec row EP_ROW_WHITE) as [R|R].
    + replace (row + -1) with (row - 1) by ring.
      destruct (point_eqb_spec (row - 1, col - 1) dm) as [E1|E1]; [|destruct (point_eqb_spec (row - 1, col + 1) dm) as [E2|E2]].
      * split; [intros H; injection H as <-; rewrite <- E1; auto|]. intros (H & _ & _). now rewrite E1.
      * split; [intros H; injection H as <-; rewrite <- E2; auto|]. intros (H & _ & _). now rewrite E2.
      * split; [discriminate|]. intros (H & _ & [E|E]); injection H as ->; congruence.
    + split; [discriminate|]. intros (_ & H & _). contradiction.
  - destruct (Z.eqb_spec row EP_ROW_BLACK) as [R|R].
    + destruct (point_eqb_spec (row + 1, col + 1) dm) as [E1|E1]; [|destruct (point_eqb_spec (row + 1, col - 1) dm) as [E2|E2]].
      * split; [intros H; injection H as <-; rewrite <- E1; auto|]. intros (H & _ & _). now rewrite E1.
      * split; [intros H; injection H as <-; rewrite <- E2; auto|]. intros (H & _ & _). now rewrite E2.
      * split; [discriminate|]. intros (H & _ & [E|E]); injection H as ->; congruence.
    + split; [discriminate|]. intros (_ & H & _). contradiction.
Qed.

Lemma ep_sound s pc sq x :
  pos_ok s AllMoves -> is_inner sq = true -> get (board s) sq = Full pc -> pcolor pc = to_move s ->
  In x (en_passant_successor zt s pc sq) ->
  exists mv, desc x = Some mv /\ In mv (legal_moves (abs s)).
Proof.
  intros (OK & KO & RH & EP & NK) Hs G PC Hx. rewrite en_passant_successor_pre in Hx.
  destruct (pawn_double_move s) as [dm|] eqn:D; [|contradiction].
  destruct (pkind pc) eqn:PK; try contradiction.
  destruct (pawn_moves_en_passant pc sq s) as [mov|] eqn:E; [|contradiction].
  destruct (is_check (ep_pre zt s pc sq mov) (to_move s)) eqn:Chk; cbn [negb] in Hx; [contradiction|].
  destruct Hx as [<-|[]].
  destruct (ep_pre_abs zt s pc sq dm mov OK EP G Hs PC D PK E) as (Emov & HL & HP & HA).
  exists (mkMove (sq_of_pt sq) (sq_of_pt mov) None). split; [now apply desc_of|].
  pose proof (proj1 (inner_on8 sq) Hs) as OnS.
  assert (Mover : pget (pos_pl (abs s)) (sq_of_pt sq) = Some pc) by (rewrite pl_abs, pget_abs_on, pt_sq, G; auto).
  assert (Stm : pcolor pc = pos_stm (abs s)) by (now rewrite stm_abs).
  apply legal_moves_in. split.
  - apply (pseudo_piece _ (sq_of_pt sq)); [exact OnS|]. rewrite (piece_moves_spec_pawn _ _ pc Mover Stm PK).
    destruct sq as [row col]. apply ep_geometry in E. destruct E as (_ & Rw & Tg). subst mov.
    destruct (EP dm D) as (Hm & Gt & _).
    assert (T : exists df, (df = -1 \/ df = 1) /\ sq_of_pt dm = (fst (sq_of_pt (row, col)) + df, snd (sq_of_pt (row, col)) + forward (pcolor pc))).
    { destruct Tg as [-> | ->]; [exists (-1)|exists 1]; (split; [auto|]).
      - replace (row + mfw (pcolor pc)) with (row + 1 * mfw (pcolor pc)) by ring. replace (col - 1) with (col + -1) by ring.
        rewrite sq_of_pt_pawn. f_equal. ring.
      - replace (row + mfw (pcolor pc)) with (row + 1 * mfw (pcolor pc)) by ring. rewrite sq_of_pt_pawn. f_equal. ring. }
    destruct T as (df & Hdf & T). rewrite T.
    apply (pawn_ep_sound (board s) (abs s) pc row col eq_refl df Hdf).
    + cbn [abs pos_ep]. rewrite D, T. reflexivity.
    + rewrite <- T. now apply inner_on8.
    + rewrite <- T. apply (occupied_abs (board s) OK); [now apply inner_on8|now rewrite pt_sq].
  - rewrite stm_abs. rewrite (ep_check_agrees zt s pc sq dm mov OK KO EP G Hs PC D PK E). exact Chk.
Qed.

(* ---- castling *)
Lemma spec_get s f r pc : on8 (f, r) = true -> get (board s) (pt_of_sq (f, r)) = Full pc -> pget (abs_placement (board s)) (f, r) = Some pc.
Proof. intros On G. now rewrite pget_abs_on, G. Qed.
Lemma spec_empty s f r : cells_ok (board s) -> on8 (f, r) = true -> get (board s) (pt_of_sq (f, r)) = Empty -> occupied (abs_placement (board s)) (f, r) = false.
Proof. intros OK On G. now apply (occupied_abs (board s) OK). Qed.
Lemma spec_safe s c f r :
  cells_ok (board s) -> kings_ok s -> on8 (f, r) = true -> get (board s) (pt_of_sq (f, r)) <> Full (mkPiece (opposite c) King) ->
  is_check_cords s c (pt_of_sq (f, r)) = false -> attacked (abs_placement (board s)) (opposite c) (f, r) = false.
Proof.
  intros OK KO On NK H. destruct (KO (opposite c)) as [GK UK]. rewrite <- H, <- (sq_pt (f, r)) at 1. symmetry.
  apply is_check_cords_correct; auto; [now apply on8_inner|]. intros E. apply NK. now rewrite <- E.
Qed.

Lemma castle_sound s x :
  pos_ok s AllMoves -> In x (generate_castling_moves zt s) -> exists mv, desc x = Some mv /\ In mv (legal_moves (abs s)).
Proof.
  intros (OK & KO & RH & EP & NK) Hx. unfold generate_castling_moves in Hx.
  repeat (apply in_app_or in Hx; destruct Hx as [Hx|Hx]);
    match type of Hx with In x (if ?c then _ else _) => destruct c eqn:Cond; [|contradiction] end;
    destruct Hx as [<-|[]]; apply andb_true_iff in Cond; destruct Cond as [TM CC];
    assert (TM' := proj2 (reflect_iff _ _ (color_eqb_spec _ _)) TM);
    unfold can_castle, can_castle_white_king_side, can_castle_white_queen_side, can_castle_black_king_side, can_castle_black_queen_side, e in CC;
    unfold BOARD_START, BOARD_END in *;
    change (10 - 1) with 9 in *; change (10 - 2) with 8 in *; change (10 - 3) with 7 in *;
    change (2 + 1) with 3 in *; change (2 + 2) with 4 in *; change (2 + 3) with 5 in *.
  - destruct (wks s) eqn:R; cbn [negb] in CC; cbv iota in CC; [|discriminate].
    destruct (get (board s) (9, 7)) eqn:E7; cbn [is_empty negb orb] in CC; cbv iota in CC; try discriminate.
    destruct (get (board s) (9, 8)) eqn:E8; cbn [is_empty negb orb] in CC; cbv iota in CC; try discriminate.
    destruct (is_check s White) eqn:C0; cbv iota in CC; [discriminate|].
    destruct (is_check_cords s White (9, 7)) eqn:C7; cbn [orb] in CC; cbv iota in CC; [discriminate|].
    destruct (is_check_cords s White (9, 8)) eqn:C8; cbn [orb] in CC; cbv iota in CC; [discriminate|].
    destruct (rights_home_r s WKS RH R) as [GK GR]. pose proof (king_at_home s WKS KO RH R) as KL. cbn [right_color king_home rook_home] in *.
    exists (mkMove (sq_of_pt (9, 6)) (sq_of_pt (9, 8)) None). split; [apply desc_of; apply (castle_successor_desc zt)|].
    apply legal_moves_in. split.
    + unfold pseudo_moves. apply in_or_app. right. unfold castle_moves_spec. rewrite stm_abs, TM'. cbn [abs has_right home_rank pos_pl pos_wk pos_wq pos_bk pos_bq].
      apply in_or_app. left. rewrite R.
      rewrite (spec_get s 4 0 _ eq_refl GK), (spec_get s 7 0 _ eq_refl GR).
      rewrite (spec_empty s 5 0 OK eq_refl E7), (spec_empty s 6 0 OK eq_refl E8).
      unfold is_check in C0. rewrite KL in C0.
      rewrite (spec_safe s White 4 0 OK KO eq_refl ltac:(change (pt_of_sq (4, 0)) with (9, 6); rewrite GK; discriminate) C0).
      rewrite (spec_safe s White 5 0 OK KO eq_refl ltac:(change (pt_of_sq (5, 0)) with (9, 7); rewrite E7; discriminate) C7).
      rewrite (spec_safe s White 6 0 OK KO eq_refl ltac:(change (pt_of_sq (6, 0)) with (9, 8); rewrite E8; discriminate) C8).
      cbn [andb negb is_king_of pcolor pkind color_eqb kind_eqb]. left. reflexivity.
    + rewrite stm_abs, TM'.
      apply (castle_after_safe zt s White WKS WQS 8 9 7 WHITE_KING_SIDE_CASTLE_ALG OK KO KL GK GR E8 E7); [intros; discriminate|left; auto|split; reflexivity|exact C8].
  - destruct (wqs s) eqn:R; cbn [negb] in CC; cbv iota in CC; [|discriminate].
    destruct (get (board s) (9, 3)) eqn:E3; cbn [is_empty negb orb] in CC; cbv iota in CC; try discriminate.
    destruct (get (board s) (9, 4)) eqn:E4; cbn [is_empty negb orb] in CC; cbv iota in CC; try discriminate.
    destruct (get (board s) (9, 5)) eqn:E5; cbn [is_empty negb orb] in CC; cbv iota in CC; try discriminate.
    destruct (is_check s White) eqn:C0; cbv iota in CC; [discriminate|].
    destruct (is_check_cords s White (9, 5)) eqn:C5; cbn [orb] in CC; cbv iota in CC; [discriminate|].
    destruct (is_check_cords s White (9, 4)) eqn:C4; cbn [orb] in CC; cbv iota in CC; [discriminate|].
    destruct (rights_home_r s WQS RH R) as [GK GR]. pose proof (king_at_home s WQS KO RH R) as KL. cbn [right_color king_home rook_home] in *.
    exists (mkMove (sq_of_pt (9, 6)) (sq_of_pt (9, 4)) None). split; [apply desc_of; apply (castle_successor_desc zt)|].
    apply legal_moves_in. split.
    + unfold pseudo_moves. apply in_or_app. right. unfold castle_moves_spec. rewrite stm_abs, TM'. cbn [abs has_right home_rank pos_pl pos_wk pos_wq pos_bk pos_bq].
      apply in_or_app. right. rewrite R.
      rewrite (spec_get s 4 0 _ eq_refl GK), (spec_get s 0 0 _ eq_refl GR).
      rewrite (spec_empty s 1 0 OK eq_refl E3), (spec_empty s 2 0 OK eq_refl E4), (spec_empty s 3 0 OK eq_refl E5).
      unfold is_check in C0. rewrite KL in C0.
      rewrite (spec_safe s White 4 0 OK KO eq_refl ltac:(change (pt_of_sq (4, 0)) with (9, 6); rewrite GK; discriminate) C0).
      rewrite (spec_safe s White 3 0 OK KO eq_refl ltac:(change (pt_of_sq (3, 0)) with (9, 5); rewrite E5; discriminate) C5).
      rewrite (spec_safe s White 2 0 OK KO eq_refl ltac:(change (pt_of_sq (2, 0)) with (9, 4); rewrite E4; discriminate) C4).
      cbn [andb negb is_king_of pcolor pkind color_eqb kind_eqb]. left. reflexivity.
    + rewrite stm_abs, TM'.
      apply (castle_after_safe zt s White WKS WQS 4 2 5 WHITE_QUEEN_SIDE_CASTLE_ALG OK KO KL GK GR E4 E5); [intros _; exact E3|right; auto|split; reflexivity|exact C4].
  - destruct (bks s) eqn:R; cbn [negb] in CC; cbv iota in CC; [|discriminate].
    destruct (get (board s) (2, 7)) eqn:E7; cbn [is_empty negb orb] in CC; cbv iota in CC; try discriminate.
    destruct (get (board s) (2, 8)) eqn:E8; cbn [is_empty negb orb] in CC; cbv iota in CC; try discriminate.
    destruct (is_check s Black) eqn:C0; cbv iota in CC; [discriminate|].
    destruct (is_check_cords s Black (2, 7)) eqn:C7; cbn [orb] in CC; cbv iota in CC; [discriminate|].
    destruct (is_check_cords s Black (2, 8)) eqn:C8; cbn [orb] in CC; cbv iota in CC; [discriminate|].
    destruct (rights_home_r s BKS RH R) as [GK GR]. pose proof (king_at_home s BKS KO RH R) as KL. cbn [right_color king_home rook_home] in *.
    exists (mkMove (sq_of_pt (2, 6)) (sq_of_pt (2, 8)) None). split; [apply desc_of; apply (castle_successor_desc zt)|].
    apply legal_moves_in. split.
    + unfold pseudo_moves. apply in_or_app. right. unfold castle_moves_spec. rewrite stm_abs, TM'. cbn [abs has_right home_rank pos_pl pos_wk pos_wq pos_bk pos_bq].
      apply in_or_app. left. rewrite R.
      rewrite (spec_get s 4 7 _ eq_refl GK), (spec_get s 7 7 _ eq_refl GR).
      rewrite (spec_empty s 5 7 OK eq_refl E7), (spec_empty s 6 7 OK eq_refl E8).
      unfold is_check in C0. rewrite KL in C0.
      rewrite (spec_safe s Black 4 7 OK KO eq_refl ltac:(change (pt_of_sq (4, 7)) with (2, 6); rewrite GK; discriminate) C0).
      rewrite (spec_safe s Black 5 7 OK KO eq_refl ltac:(change (pt_of_sq (5, 7)) with (2, 7); rewrite E7; discriminate) C7).
      rewrite (spec_safe s Black 6 7 OK KO eq_refl ltac:(change (pt_of_sq (6, 7)) with (2, 8); rewrite E8; discriminate) C8).
      cbn [andb negb is_king_of pcolor pkind color_eqb kind_eqb]. left. reflexivity.
    + rewrite stm_abs, TM'.
      apply (castle_after_safe zt s Black BKS BQS 8 9 7 BLACK_KING_SIDE_CASTLE_ALG OK KO KL GK GR E8 E7); [intros; discriminate|left; auto|split; reflexivity|exact C8].
  - destruct (bqs s) eqn:R; cbn [negb] in CC; cbv iota in CC; [|discriminate].
    destruct (get (board s) (2, 3)) eqn:E3; cbn [is_empty negb orb] in CC; cbv iota in CC; try discriminate.
    destruct (get (board s) (2, 4)) eqn:E4; cbn [is_empty negb orb] in CC; cbv iota in CC; try discriminate.
    destruct (get (board s) (2, 5)) eqn:E5; cbn [is_empty negb orb] in CC; cbv iota in CC; try discriminate.
    destruct (is_check s Black) eqn:C0; cbv iota in CC; [discriminate|].
    destruct (is_check_cords s Black (2, 4)) eqn:C4; cbn [orb] in CC; cbv iota in CC; [discriminate|].
    destruct (is_check_cords s Black (2, 5)) eqn:C5; cbn [orb] in CC; cbv iota in CC; [discriminate|].
    destruct (rights_home_r s BQS RH R) as [GK GR]. pose proof (king_at_home s BQS KO RH R) as KL. cbn [right_color king_home rook_home] in *.
    exists (mkMove (sq_of_pt (2, 6)) (sq_of_pt (2, 4)) None). split; [apply desc_of; apply (castle_successor_desc zt)|].
    apply legal_moves_in. split.
    + unfold pseudo_moves. apply in_or_app. right. unfold castle_moves_spec. rewrite stm_abs, TM'. cbn [abs has_right home_rank pos_pl pos_wk pos_wq pos_bk pos_bq].
      apply in_or_app. right. rewrite R.
      rewrite (spec_get s 4 7 _ eq_refl GK), (spec_get s 0 7 _ eq_refl GR).
      rewrite (spec_empty s 1 7 OK eq_refl E3), (spec_empty s 2 7 OK eq_refl E4), (spec_empty s 3 7 OK eq_refl E5).
      unfold is_check in C0. rewrite KL in C0.
      rewrite (spec_safe s Black 4 7 OK KO eq_refl ltac:(change (pt_of_sq (4, 7)) with (2, 6); rewrite GK; discriminate) C0).
      rewrite (spec_safe s Black 3 7 OK KO eq_refl ltac:(change (pt_of_sq (3, 7)) with (2, 5); rewrite E5; discriminate) C5).
      rewrite (spec_safe s Black 2 7 OK KO eq_refl ltac:(change (pt_of_sq (2, 7)) with (2, 4); rewrite E4; discriminate) C4).
      cbn [andb negb is_king_of pcolor pkind color_eqb kind_eqb]. left. reflexivity.
    + rewrite stm_abs, TM'.
      apply (castle_after_safe zt s Black BKS BQS 4 2 5 BLACK_QUEEN_SIDE_CASTLE_ALG OK KO KL GK GR E4 E5); [intros _; exact E3|right; auto|split; reflexivity|exact C4].
Qed.

Lemma in_inner_points p : In p inner_points -> is_inner p = true.
Proof.
  intros Hp. unfold inner_points in Hp. apply in_flat_map in Hp. destruct Hp as [r [Hr Hp]].
  apply in_map_iff in Hp. destruct Hp as [c [<- Hc]]. apply is_inner_spec. cbn [fst snd].
  unfold inner_range in *. cbn in Hr, Hc. lia.
Qed.

(* soundness: no illegal move appears *)
Theorem generated_moves_are_legal s x :
  pos_ok s AllMoves -> In x (generate_moves zt s AllMoves) -> exists mv, desc x = Some mv /\ In mv (legal_moves (abs s)).
Proof.
  intros PO Hx. unfold generate_moves in Hx. apply in_app_or in Hx. destruct Hx as [Hx|Hx].
  - apply in_flat_map in Hx. destruct Hx as [p [Hp Hx]]. apply in_inner_points in Hp.
    destruct (get (board s) p) as [|pc|] eqn:G; try contradiction.
    destruct (color_eqb_spec (pcolor pc) (to_move s)) as [PC|]; [|contradiction].
    unfold generate_moves_for_piece in Hx. apply in_app_or in Hx. destruct Hx as [Hx|Hx].
    + apply in_flat_map in Hx. destruct Hx as [mov [Hmov Hx]]. eapply successors_sound; eauto.
    + eapply ep_sound; eauto.
  - cbn [mode_all] in Hx. now apply castle_sound.
Qed.

End S.
