(* C01, assembled: the moves the generator produces are exactly the legal moves of the rules
   (soundness, completeness, no duplicates), for every well-formed position. *)
From Walleye Require Import Model.Successor Spec.Abs Proofs.Cells Proofs.Ray Proofs.HashProofs Proofs.AttackGeom Proofs.AbsSet
  Proofs.KeyInvariant Proofs.CheckProofs Proofs.MoveGenProofs Proofs.GenShape Proofs.SuccessorAbs Proofs.GenerateAbs
  Proofs.SuccessorWf Proofs.AttackExt Proofs.Legality Proofs.PseudoLegal.
Open Scope Z_scope.

(* the en-passant target, when there is one, lies on the rank behind a pawn that has just double-stepped *)
Definition ep_row_ok (s : BoardState) : Prop :=
  forall t, pawn_double_move s = Some t -> fst t = match to_move s with White => 4 | Black => 7 end.

Definition pos_ok1 (s : BoardState) : Prop := pos_ok s AllMoves /\ ep_row_ok s.

Lemma legal_moves_in p m : In m (legal_moves p) <-> In m (pseudo_moves p) /\ in_check (pos_pl (apply p m)) (pos_stm p) = false.
Proof. unfold legal_moves. rewrite filter_In, negb_true_iff. reflexivity. Qed.

Lemma pseudo_piece p q m : on8 q = true -> In m (piece_moves_spec p q) -> In m (pseudo_moves p).
Proof. intros On H. unfold pseudo_moves. apply in_or_app. left. apply in_flat_map. exists q. split; [now apply on8_in_all_sq|exact H]. Qed.

Lemma piece_moves_spec_pawn P q pc :
  pget (pos_pl P) q = Some pc -> pcolor pc = pos_stm P -> pkind pc = Pawn -> piece_moves_spec P q = pawn_moves_spec P q (pcolor pc).
Proof. intros G C K. unfold piece_moves_spec. rewrite G, C, color_eqb_refl, K. reflexivity. Qed.

Lemma promotion_kinds_spec k : In k PROMOTION_KINDS <-> In k [Queen; Rook; Bishop; Knight].
Proof. unfold PROMOTION_KINDS. cbn. intuition. Qed.

Section S.
Variable zt : ztable.

(* the facts about a pseudo-legal target that the successor theorems need *)
Lemma ordinary_hyps_of_pos_ok s m pc sq mov :
  pos_ok s m -> is_inner sq = true -> get (board s) sq = Full pc -> pcolor pc = to_move s ->
  In mov (get_moves pc sq (board s) m) ->
  ordinary_hyps s pc sq mov /\
  (pkind pc = Pawn -> (fst mov = BOARD_START \/ fst mov = BOARD_END - 1) -> Z.abs (fst sq - fst mov) <> 2).
Proof.
  intros (OK & KO & RH & EP & NK) Hs G PC Hmov.
  assert (OK' := OK). destruct OK' as [L [Ring Inner]].
  assert (Hm : is_inner mov = true).
  { apply (not_boundary_inner _ _ Ring). exact (get_moves_not_boundary pc sq (board s) m mov Hmov). }
  assert (Hne : sq <> mov) by exact (target_not_origin pc sq (board s) m mov G Hmov).
  assert (NKm : forall col, get (board s) mov <> Full (mkPiece col King)) by exact (NK sq pc mov Hs G PC Hmov).
  assert (PD : pkind pc = Pawn -> Z.abs (fst sq - fst mov) = 2 ->
               snd sq = snd mov /\ (pcolor pc = White -> fst sq = fst mov + 2) /\ (pcolor pc = Black -> fst mov = fst sq + 2)).
  { intros PK D. unfold get_moves in Hmov. rewrite PK in Hmov. destruct sq as [row col].
    apply pawn_moves_shape in Hmov. cbn zeta in Hmov. cbn [fst snd] in *.
    destruct (pcolor pc); destruct Hmov as [(A & _ & [B|[B _]])|(_ & B & _)]; repeat split; intros; try discriminate; lia. }
  assert (PCap : pkind pc = Pawn -> snd sq <> snd mov -> get (board s) mov <> Empty).
  { intros PK D. unfold get_moves in Hmov. rewrite PK in Hmov. destruct sq as [row col].
    apply pawn_moves_shape in Hmov. cbn zeta in Hmov. cbn [fst snd] in *.
    destruct Hmov as [(A & _ & _)|(_ & _ & C)]; [lia|]. intros E. rewrite E in C. discriminate. }
  assert (KS : pkind pc = King -> Z.abs (snd sq - snd mov) <= 1).
  { intros PK. unfold get_moves in Hmov. rewrite PK in Hmov. apply king_moves_shape in Hmov. lia. }
  assert (Prow : pkind pc = Pawn -> (fst mov = BOARD_START \/ fst mov = BOARD_END - 1) -> Z.abs (fst sq - fst mov) <> 2).
  { intros PK Last. unfold get_moves in Hmov. rewrite PK in Hmov. destruct sq as [row col].
    apply pawn_moves_shape in Hmov. cbn zeta in Hmov. cbn [fst snd] in *.
    unfold BOARD_START, BOARD_END, DOUBLE_ROW_WHITE, DOUBLE_ROW_BLACK in *.
    destruct (pcolor pc); destruct Hmov as [(A & _ & [B|[B R]])|(_ & B & _)]; lia. }
  split; [|exact Prow]. unfold ordinary_hyps.
  split; [exact OK|]. split; [exact KO|]. split; [exact RH|]. split; [exact G|]. split; [exact Hs|]. split; [exact Hm|].
  split; [exact Hne|]. split; [exact NKm|]. split; [exact PD|]. split; [exact PCap|exact KS].
Qed.

Lemma stm_abs s : pos_stm (abs s) = to_move s. Proof. reflexivity. Qed.
Lemma pl_abs s : pos_pl (abs s) = abs_placement (board s). Proof. reflexivity. Qed.

Lemma successors_sound s pc sq mov x :
  pos_ok s AllMoves -> is_inner sq = true -> get (board s) sq = Full pc -> pcolor pc = to_move s ->
  In mov (get_moves pc sq (board s) AllMoves) -> In x (successors_of_move zt s pc sq mov) ->
  exists mv, desc x = Some mv /\ In mv (legal_moves (abs s)).
Proof.
  intros PO Hs G PC Hmov Hx.
  destruct (ordinary_hyps_of_pos_ok s AllMoves pc sq mov PO Hs G PC Hmov) as [OH Prow].
  assert (OH' := OH). destruct OH' as (OK & KO & RH & _ & _ & Hm & Hne & NKm & PD & PCap & KS).
  pose proof (proj1 (inner_on8 sq) Hs) as OnS.
  assert (Mover : pget (pos_pl (abs s)) (sq_of_pt sq) = Some pc) by (rewrite pl_abs, pget_abs_on, pt_sq, G; auto).
  assert (Stm : pcolor pc = pos_stm (abs s)) by (now rewrite stm_abs).
  unfold successors_of_move in Hx.
  destruct (moved_board zt s pc sq mov) as [nb|] eqn:MB; [|contradiction].
  destruct (moved_board_fields zt _ _ _ _ _ MB) as [ML MP].
  destruct (finalise_fields zt nb pc sq mov) as [FL FP]. rewrite ML in FL. rewrite MP in FP.
  apply moved_board_some in MB. destruct MB as [-> Chk].
  (* a pawn reaching the last row *)
  assert (Promo : forall k, pkind pc = Pawn -> (fst mov = BOARD_START \/ fst mov = BOARD_END - 1) ->
                            snd (sq_of_pt mov) = last_rank (pcolor pc) -> In k PROMOTION_KINDS ->
                            In (mkMove (sq_of_pt sq) (sq_of_pt mov) (Some k)) (legal_moves (abs s))).
  { intros k PK Last LR Hk. apply legal_moves_in. split.
    - apply (pseudo_piece _ (sq_of_pt sq)); [exact OnS|]. rewrite (piece_moves_spec_pawn _ _ pc Mover Stm PK).
      destruct sq as [row col]. apply (pawn_sound (board s) OK (abs s) pc row col eq_refl).
      + unfold get_moves in Hmov. now rewrite PK in Hmov.
      + unfold promo_ok. rewrite LR, Z.eqb_refl. exists k. split; [reflexivity|now apply promotion_kinds_spec].
    - rewrite stm_abs, <- PC. rewrite (promotion_check_agrees zt s pc sq mov k OH PK (Prow PK Last) Hk). exact Chk. }
  destruct ((fst mov =? BOARD_START) && color_eqb (pcolor pc) White && is_pawn_kind (pkind pc)) eqn:P1.
  - apply andb_true_iff in P1. destruct P1 as [P1 PKb]. apply andb_true_iff in P1. destruct P1 as [R1 C1].
    apply Z.eqb_eq in R1. destruct (color_eqb_spec (pcolor pc) White) as [CW|]; [|discriminate].
    assert (PK : pkind pc = Pawn) by (destruct (pkind pc); try discriminate; reflexivity).
    rewrite <- CW in Hx.
    destruct (promotion_pre_abs zt s pc sq mov x OK KO RH G Hs Hm Hne NKm PK (Prow PK (or_introl R1)) (PCap PK) Hx) as [k [Hk [HP HA]]].
    exists (mkMove (sq_of_pt sq) (sq_of_pt mov) (Some k)). split.
    + destruct (promote_pawn_desc zt _ _ _ _ _ Hx) as [HL _]. unfold desc. rewrite HL, HP. reflexivity.
    + apply Promo; auto. rewrite CW. unfold sq_of_pt, BOARD_START, BOARD_END in *. cbn [fst snd last_rank]. lia.
  - destruct ((fst mov =? BOARD_END - 1) && color_eqb (pcolor pc) Black && is_pawn_kind (pkind pc)) eqn:P2.
    + apply andb_true_iff in P2. destruct P2 as [P2 PKb]. apply andb_true_iff in P2. destruct P2 as [R1 C1].
      apply Z.eqb_eq in R1. destruct (color_eqb_spec (pcolor pc) Black) as [CB|]; [|discriminate].
      assert (PK : pkind pc = Pawn) by (destruct (pkind pc); try discriminate; reflexivity).
      rewrite <- CB in Hx.
      destruct (promotion_pre_abs zt s pc sq mov x OK KO RH G Hs Hm Hne NKm PK (Prow PK (or_intror R1)) (PCap PK) Hx) as [k [Hk [HP HA]]].
      exists (mkMove (sq_of_pt sq) (sq_of_pt mov) (Some k)). split.
      * destruct (promote_pawn_desc zt _ _ _ _ _ Hx) as [HL _]. unfold desc. rewrite HL, HP. reflexivity.
      * apply Promo; auto. rewrite CB. unfold sq_of_pt, BOARD_START, BOARD_END in *. cbn [fst snd last_rank]. lia.
    + destruct Hx as [<-|[]].
      exists (mkMove (sq_of_pt sq) (sq_of_pt mov) None). split; [now apply desc_of|].
      apply legal_moves_in. split.
      * apply (pseudo_piece _ (sq_of_pt sq)); [exact OnS|].
        destruct (kind_eqb_spec (pkind pc) Pawn) as [PK|NPK].
        -- rewrite (piece_moves_spec_pawn _ _ pc Mover Stm PK).
           destruct sq as [row col]. apply (pawn_sound (board s) OK (abs s) pc row col eq_refl).
           ++ unfold get_moves in Hmov. now rewrite PK in Hmov.
           ++ unfold promo_ok. destruct (Z.eqb_spec (snd (sq_of_pt mov)) (last_rank (pcolor pc))) as [LR|]; [|reflexivity].
              exfalso. rewrite PK in P1, P2. cbn [is_pawn_kind] in P1, P2. rewrite andb_true_r in P1, P2.
              unfold sq_of_pt, BOARD_START, BOARD_END in *. cbn [fst snd] in LR.
              destruct (pcolor pc); cbn [last_rank color_eqb] in *; rewrite andb_true_r in *;
                [apply Z.eqb_neq in P1|apply Z.eqb_neq in P2]; lia.
        -- apply (nonpawn_agree (board s) OK (abs s) pc sq mov eq_refl); auto.
      * rewrite stm_abs, <- PC. rewrite (ordinary_check_agrees zt s pc sq mov OH). exact Chk.
Qed.

(* ---- en passant *)
Definition ep_row (c : color) : Z := match c with White => EP_ROW_WHITE | Black => EP_ROW_BLACK end.

Lemma ep_geometry pc row col s mov :
  pawn_moves_en_passant pc (row, col) s = Some mov <->
  pawn_double_move s = Some mov /\ row = ep_row (pcolor pc) /\
  (mov = (row + mfw (pcolor pc), col - 1) \/ mov = (row + mfw (pcolor pc), col + 1)).
Proof.
  unfold pawn_moves_en_passant. destruct (pawn_double_move s) as [dm|]; [|split; [discriminate|intros [H _]; discriminate]].
  destruct (pcolor pc); cbn [ep_row mfw].
  - destruct (Z.eqb_spec row EP_ROW_WHITE) as [R|R].
    + replace (row + -1) with (row - 1) by ring.
      destruct (point_eqb_spec (row - 1, col - 1) dm) as [E1|E1]; [|destruct (point_eqb_spec (row - 1, col + 1) dm) as [E2|E2]].
      * split; [intros H; injection H as <-; rewrite <- E1; auto|]. intros (H & _ & _). now rewrite E1.
      * split; [intros H; injection H as <-; rewrite <- E2; auto|]. intros (H & _ & _). now rewrite E2.
      * split; [discriminate|]. intros (H & _ & [E|E]); injection H as ->; congruence.
    + split; [discriminate|]. intros (_ & H & _). contradiction.
  - destruct (Z.eqb_spec row EP_ROW_BLACK) as [R|R].
    + destruct (point_eqb_spec (row + 1, col + 1) dm) as [E1|E1]; [|destruct (point_eqb_spec (row + 1, col - 1) dm) as [E2|E2]].
      * split; [intros H; injection H as <-; rewrite <- E1; auto|]. intros (H & _ & _). now rewrite E1.
      * split; [intros H; injection H as <-; rewrite <- E2; auto|]. intros (H & _ & _). now rewrite E2.
      * split; [discriminate|]. intros (H & _ & [E|E]); injection H as ->; congruence.
    + split; [discriminate|]. intros (_ & H & _). contradiction.
Qed.

Lemma ep_sound s pc sq x :
  pos_ok s AllMoves -> is_inner sq = true -> get (board s) sq = Full pc -> pcolor pc = to_move s ->
  In x (en_passant_successor zt s pc sq) ->
  exists mv, desc x = Some mv /\ In mv (legal_moves (abs s)).
Proof.
  intros (OK & KO & RH & EP & NK) Hs G PC Hx. rewrite en_passant_successor_pre in Hx.
  destruct (pawn_double_move s) as [dm|] eqn:D; [|contradiction].
  destruct (pkind pc) eqn:PK; try contradiction.
  destruct (pawn_moves_en_passant pc sq s) as [mov|] eqn:E; [|contradiction].
  destruct (is_check (ep_pre zt s pc sq mov) (to_move s)) eqn:Chk; cbn [negb] in Hx; [contradiction|].
  destruct Hx as [<-|[]].
  destruct (ep_pre_abs zt s pc sq dm mov OK EP G Hs PC D PK E) as (Emov & HL & HP & HA).
  exists (mkMove (sq_of_pt sq) (sq_of_pt mov) None). split; [now apply desc_of|].
  pose proof (proj1 (inner_on8 sq) Hs) as OnS.
  assert (Mover : pget (pos_pl (abs s)) (sq_of_pt sq) = Some pc) by (rewrite pl_abs, pget_abs_on, pt_sq, G; auto).
  assert (Stm : pcolor pc = pos_stm (abs s)) by (now rewrite stm_abs).
  apply legal_moves_in. split.
  - apply (pseudo_piece _ (sq_of_pt sq)); [exact OnS|]. rewrite (piece_moves_spec_pawn _ _ pc Mover Stm PK).
    destruct sq as [row col]. apply ep_geometry in E. destruct E as (_ & Rw & Tg). subst mov.
    destruct (EP dm D) as (Hm & Gt & _).
    assert (T : exists df, (df = -1 \/ df = 1) /\ sq_of_pt dm = (fst (sq_of_pt (row, col)) + df, snd (sq_of_pt (row, col)) + forward (pcolor pc))).
    { destruct Tg as [-> | ->]; [exists (-1)|exists 1]; (split; [auto|]).
      - replace (row + mfw (pcolor pc)) with (row + 1 * mfw (pcolor pc)) by ring. replace (col - 1) with (col + -1) by ring.
        rewrite sq_of_pt_pawn. f_equal. ring.
      - replace (row + mfw (pcolor pc)) with (row + 1 * mfw (pcolor pc)) by ring. rewrite sq_of_pt_pawn. f_equal. ring. }
    destruct T as (df & Hdf & T). rewrite T.
    apply (pawn_ep_sound (board s) (abs s) pc row col eq_refl df Hdf).
    + cbn [abs pos_ep]. rewrite D, T. reflexivity.
    + rewrite <- T. now apply inner_on8.
    + rewrite <- T. apply (occupied_abs (board s) OK); [now apply inner_on8|now rewrite pt_sq].
  - rewrite stm_abs. rewrite (ep_check_agrees zt s pc sq dm mov OK KO EP G Hs PC D PK E). exact Chk.
Qed.

(* ---- castling *)
Lemma spec_get s f r pc : on8 (f, r) = true -> get (board s) (pt_of_sq (f, r)) = Full pc -> pget (abs_placement (board s)) (f, r) = Some pc.
Proof. intros On G. now rewrite pget_abs_on, G. Qed.
Lemma spec_empty s f r : cells_ok (board s) -> on8 (f, r) = true -> get (board s) (pt_of_sq (f, r)) = Empty -> occupied (abs_placement (board s)) (f, r) = false.
Proof. intros OK On G. now apply (occupied_abs (board s) OK). Qed.
Lemma spec_safe s c f r :
  cells_ok (board s) -> kings_ok s -> on8 (f, r) = true -> get (board s) (pt_of_sq (f, r)) <> Full (mkPiece (opposite c) King) ->
  is_check_cords s c (pt_of_sq (f, r)) = false -> attacked (abs_placement (board s)) (opposite c) (f, r) = false.
Proof.
  intros OK KO On NK H. destruct (KO (opposite c)) as [GK UK]. rewrite <- H, <- (sq_pt (f, r)) at 1. symmetry.
  apply is_check_cords_correct; auto; [now apply on8_inner|]. intros E. apply NK. now rewrite <- E.
Qed.

Lemma castle_sound s x :
  pos_ok s AllMoves -> In x (generate_castling_moves zt s) -> exists mv, desc x = Some mv /\ In mv (legal_moves (abs s)).
Proof.
  intros (OK & KO & RH & EP & NK) Hx. unfold generate_castling_moves in Hx.
  repeat (apply in_app_or in Hx; destruct Hx as [Hx|Hx]);
    match type of Hx with In x (if ?c then _ else _) => destruct c eqn:Cond; [|contradiction] end;
    destruct Hx as [<-|[]]; apply andb_true_iff in Cond; destruct Cond as [TM CC];
    assert (TM' := proj2 (reflect_iff _ _ (color_eqb_spec _ _)) TM);
    unfold can_castle, can_castle_white_king_side, can_castle_white_queen_side, can_castle_black_king_side, can_castle_black_queen_side, e in CC;
    unfold BOARD_START, BOARD_END in *;
    change (10 - 1) with 9 in *; change (10 - 2) with 8 in *; change (10 - 3) with 7 in *;
    change (2 + 1) with 3 in *; change (2 + 2) with 4 in *; change (2 + 3) with 5 in *.
  - destruct (wks s) eqn:R; cbn [negb] in CC; cbv iota in CC; [|discriminate].
    destruct (get (board s) (9, 7)) eqn:E7; cbn [is_empty negb orb] in CC; cbv iota in CC; try discriminate.
    destruct (get (board s) (9, 8)) eqn:E8; cbn [is_empty negb orb] in CC; cbv iota in CC; try discriminate.
    destruct (is_check s White) eqn:C0; cbv iota in CC; [discriminate|].
    destruct (is_check_cords s White (9, 7)) eqn:C7; cbn [orb] in CC; cbv iota in CC; [discriminate|].
    destruct (is_check_cords s White (9, 8)) eqn:C8; cbn [orb] in CC; cbv iota in CC; [discriminate|].
    destruct (rights_home_r s WKS RH R) as [GK GR]. pose proof (king_at_home s WKS KO RH R) as KL. cbn [right_color king_home rook_home] in *.
    exists (mkMove (sq_of_pt (9, 6)) (sq_of_pt (9, 8)) None). split; [apply desc_of; apply (castle_successor_desc zt)|].
    apply legal_moves_in. split.
    + unfold pseudo_moves. apply in_or_app. right. unfold castle_moves_spec. rewrite stm_abs, TM'. cbn [abs has_right home_rank pos_pl pos_wk pos_wq pos_bk pos_bq].
      apply in_or_app. left. rewrite R.
      rewrite (spec_get s 4 0 _ eq_refl GK), (spec_get s 7 0 _ eq_refl GR).
      rewrite (spec_empty s 5 0 OK eq_refl E7), (spec_empty s 6 0 OK eq_refl E8).
      unfold is_check in C0. rewrite KL in C0.
      rewrite (spec_safe s White 4 0 OK KO eq_refl ltac:(change (pt_of_sq (4, 0)) with (9, 6); rewrite GK; discriminate) C0).
      rewrite (spec_safe s White 5 0 OK KO eq_refl ltac:(change (pt_of_sq (5, 0)) with (9, 7); rewrite E7; discriminate) C7).
      rewrite (spec_safe s White 6 0 OK KO eq_refl ltac:(change (pt_of_sq (6, 0)) with (9, 8); rewrite E8; discriminate) C8).
      cbn [andb negb is_king_of pcolor pkind color_eqb kind_eqb]. left. reflexivity.
    + rewrite stm_abs, TM'.
      apply (castle_after_safe zt s White WKS WQS 8 9 7 WHITE_KING_SIDE_CASTLE_ALG OK KO KL GK GR E8 E7); [intros; discriminate|left; auto|split; reflexivity|exact C8].
  - destruct (wqs s) eqn:R; cbn [negb] in CC; cbv iota in CC; [|discriminate].
    destruct (get (board s) (9, 3)) eqn:E3; cbn [is_empty negb orb] in CC; cbv iota in CC; try discriminate.
    destruct (get (board s) (9, 4)) eqn:E4; cbn [is_empty negb orb] in CC; cbv iota in CC; try discriminate.
    destruct (get (board s) (9, 5)) eqn:E5; cbn [is_empty negb orb] in CC; cbv iota in CC; try discriminate.
    destruct (is_check s White) eqn:C0; cbv iota in CC; [discriminate|].
    destruct (is_check_cords s White (9, 5)) eqn:C5; cbn [orb] in CC; cbv iota in CC; [discriminate|].
    destruct (is_check_cords s White (9, 4)) eqn:C4; cbn [orb] in CC; cbv iota in CC; [discriminate|].
    destruct (rights_home_r s WQS RH R) as [GK GR]. pose proof (king_at_home s WQS KO RH R) as KL. cbn [right_color king_home rook_home] in *.
    exists (mkMove (sq_of_pt (9, 6)) (sq_of_pt (9, 4)) None). split; [apply desc_of; apply (castle_successor_desc zt)|].
    apply legal_moves_in. split.
    + unfold pseudo_moves. apply in_or_app. right. unfold castle_moves_spec. rewrite stm_abs, TM'. cbn [abs has_right home_rank pos_pl pos_wk pos_wq pos_bk pos_bq].
      apply in_or_app. right. rewrite R.
      rewrite (spec_get s 4 0 _ eq_refl GK), (spec_get s 0 0 _ eq_refl GR).
      rewrite (spec_empty s 1 0 OK eq_refl E3), (spec_empty s 2 0 OK eq_refl E4), (spec_empty s 3 0 OK eq_refl E5).
      unfold is_check in C0. rewrite KL in C0.
      rewrite (spec_safe s White 4 0 OK KO eq_refl ltac:(change (pt_of_sq (4, 0)) with (9, 6); rewrite GK; discriminate) C0).
      rewrite (spec_safe s White 3 0 OK KO eq_refl ltac:(change (pt_of_sq (3, 0)) with (9, 5); rewrite E5; discriminate) C5).
      rewrite (spec_safe s White 2 0 OK KO eq_refl ltac:(change (pt_of_sq (2, 0)) with (9, 4); rewrite E4; discriminate) C4).
      cbn [andb negb is_king_of pcolor pkind color_eqb kind_eqb]. left. reflexivity.
    + rewrite stm_abs, TM'.
      apply (castle_after_safe zt s White WKS WQS 4 2 5 WHITE_QUEEN_SIDE_CASTLE_ALG OK KO KL GK GR E4 E5); [intros _; exact E3|right; auto|split; reflexivity|exact C4].
  - destruct (bks s) eqn:R; cbn [negb] in CC; cbv iota in CC; [|discriminate].
    destruct (get (board s) (2, 7)) eqn:E7; cbn [is_empty negb orb] in CC; cbv iota in CC; try discriminate.
    destruct (get (board s) (2, 8)) eqn:E8; cbn [is_empty negb orb] in CC; cbv iota in CC; try discriminate.
    destruct (is_check s Black) eqn:C0; cbv iota in CC; [discriminate|].
    destruct (is_check_cords s Black (2, 7)) eqn:C7; cbn [orb] in CC; cbv iota in CC; [discriminate|].
    destruct (is_check_cords s Black (2, 8)) eqn:C8; cbn [orb] in CC; cbv iota in CC; [discriminate|].
    destruct (rights_home_r s BKS RH R) as [GK GR]. pose proof (king_at_home s BKS KO RH R) as KL. cbn [right_color king_home rook_home] in *.
    exists (mkMove (sq_of_pt (2, 6)) (sq_of_pt (2, 8)) None). split; [apply desc_of; apply (castle_successor_desc zt)|].
    apply legal_moves_in. split.
    + unfold pseudo_moves. apply in_or_app. right. unfold castle_moves_spec. rewrite stm_abs, TM'. cbn [abs has_right home_rank pos_pl pos_wk pos_wq pos_bk pos_bq].
      apply in_or_app. left. rewrite R.
      rewrite (spec_get s 4 7 _ eq_refl GK), (spec_get s 7 7 _ eq_refl GR).
      rewrite (spec_empty s 5 7 OK eq_refl E7), (spec_empty s 6 7 OK eq_refl E8).
      unfold is_check in C0. rewrite KL in C0.
      rewrite (spec_safe s Black 4 7 OK KO eq_refl ltac:(change (pt_of_sq (4, 7)) with (2, 6); rewrite GK; discriminate) C0).
      rewrite (spec_safe s Black 5 7 OK KO eq_refl ltac:(change (pt_of_sq (5, 7)) with (2, 7); rewrite E7; discriminate) C7).
      rewrite (spec_safe s Black 6 7 OK KO eq_refl ltac:(change (pt_of_sq (6, 7)) with (2, 8); rewrite E8; discriminate) C8).
      cbn [andb negb is_king_of pcolor pkind color_eqb kind_eqb]. left. reflexivity.
    + rewrite stm_abs, TM'.
      apply (castle_after_safe zt s Black BKS BQS 8 9 7 BLACK_KING_SIDE_CASTLE_ALG OK KO KL GK GR E8 E7); [intros; discriminate|left; auto|split; reflexivity|exact C8].
  - destruct (bqs s) eqn:R; cbn [negb] in CC; cbv iota in CC; [|discriminate].
    destruct (get (board s) (2, 3)) eqn:E3; cbn [is_empty negb orb] in CC; cbv iota in CC; try discriminate.
    destruct (get (board s) (2, 4)) eqn:E4; cbn [is_empty negb orb] in CC; cbv iota in CC; try discriminate.
    destruct (get (board s) (2, 5)) eqn:E5; cbn [is_empty negb orb] in CC; cbv iota in CC; try discriminate.
    destruct (is_check s Black) eqn:C0; cbv iota in CC; [discriminate|].
    destruct (is_check_cords s Black (2, 4)) eqn:C4; cbn [orb] in CC; cbv iota in CC; [discriminate|].
    destruct (is_check_cords s Black (2, 5)) eqn:C5; cbn [orb] in CC; cbv iota in CC; [discriminate|].
    destruct (rights_home_r s BQS RH R) as [GK GR]. pose proof (king_at_home s BQS KO RH R) as KL. cbn [right_color king_home rook_home] in *.
    exists (mkMove (sq_of_pt (2, 6)) (sq_of_pt (2, 4)) None). split; [apply desc_of; apply (castle_successor_desc zt)|].
    apply legal_moves_in. split.
    + unfold pseudo_moves. apply in_or_app. right. unfold castle_moves_spec. rewrite stm_abs, TM'. cbn [abs has_right home_rank pos_pl pos_wk pos_wq pos_bk pos_bq].
      apply in_or_app. right. rewrite R.
      rewrite (spec_get s 4 7 _ eq_refl GK), (spec_get s 0 7 _ eq_refl GR).
      rewrite (spec_empty s 1 7 OK eq_refl E3), (spec_empty s 2 7 OK eq_refl E4), (spec_empty s 3 7 OK eq_refl E5).
      unfold is_check in C0. rewrite KL in C0.
      rewrite (spec_safe s Black 4 7 OK KO eq_refl ltac:(change (pt_of_sq (4, 7)) with (2, 6); rewrite GK; discriminate) C0).
      rewrite (spec_safe s Black 3 7 OK KO eq_refl ltac:(change (pt_of_sq (3, 7)) with (2, 5); rewrite E5; discriminate) C5).
      rewrite (spec_safe s Black 2 7 OK KO eq_refl ltac:(change (pt_of_sq (2, 7)) with (2, 4); rewrite E4; discriminate) C4).
      cbn [andb negb is_king_of pcolor pkind color_eqb kind_eqb]. left. reflexivity.
    + rewrite stm_abs, TM'.
      apply (castle_after_safe zt s Black BKS BQS 4 2 5 BLACK_QUEEN_SIDE_CASTLE_ALG OK KO KL GK GR E4 E5); [intros _; exact E3|right; auto|split; reflexivity|exact C4].
Qed.

Lemma in_inner_points p : In p inner_points -> is_inner p = true.
Proof.
  intros Hp. unfold inner_points in Hp. apply in_flat_map in Hp. destruct Hp as [r [Hr Hp]].
  apply in_map_iff in Hp. destruct Hp as [c [<- Hc]]. apply is_inner_spec. cbn [fst snd].
  unfold inner_range in *. cbn in Hr, Hc. lia.
Qed.

(* soundness: no illegal move appears *)
Theorem generated_moves_are_legal s x :
  pos_ok s AllMoves -> In x (generate_moves zt s AllMoves) -> exists mv, desc x = Some mv /\ In mv (legal_moves (abs s)).
Proof.
  intros PO Hx. unfold generate_moves in Hx. apply in_app_or in Hx. destruct Hx as [Hx|Hx].
  - apply in_flat_map in Hx. destruct Hx as [p [Hp Hx]]. apply in_inner_points in Hp.
    destruct (get (board s) p) as [|pc|] eqn:G; try contradiction.
    destruct (color_eqb_spec (pcolor pc) (to_move s)) as [PC|]; [|contradiction].
    unfold generate_moves_for_piece in Hx. apply in_app_or in Hx. destruct Hx as [Hx|Hx].
    + apply in_flat_map in Hx. destruct Hx as [mov [Hmov Hx]]. eapply successors_sound; eauto.
    + eapply ep_sound; eauto.
  - cbn [mode_all] in Hx. now apply castle_sound.
Qed.

(* ---- completeness: no legal move is missing *)
Lemma piece_in_generate s p pc x :
  is_inner p = true -> get (board s) p = Full pc -> pcolor pc = to_move s ->
  In x (generate_moves_for_piece zt pc s p AllMoves) -> In x (generate_moves zt s AllMoves).
Proof.
  intros Hp G PC Hx. unfold generate_moves. apply in_or_app. left. apply in_flat_map. exists p.
  split; [now apply inner_in_points|]. rewrite G, PC, color_eqb_refl. exact Hx.
Qed.

Lemma get_of_pget_abs s q pc : on8 q = true -> pget (abs_placement (board s)) q = Some pc -> get (board s) (pt_of_sq q) = Full pc.
Proof.
  intros On P. rewrite (pget_abs_on _ _ On) in P. destruct (get (board s) (pt_of_sq q)) as [|x|]; cbn in P; try discriminate. congruence.
Qed.

(* an ordinary (non-promoting) target that passes the legality test yields its successor *)
Lemma ordinary_generated s pc sq mov :
  pos_ok s AllMoves -> is_inner sq = true -> get (board s) sq = Full pc -> pcolor pc = to_move s ->
  In mov (get_moves pc sq (board s) AllMoves) ->
  in_check (pos_pl (apply (abs s) (mkMove (sq_of_pt sq) (sq_of_pt mov) None))) (pcolor pc) = false ->
  (pkind pc = Pawn -> snd (sq_of_pt mov) <> last_rank (pcolor pc)) ->
  exists x, In x (successors_of_move zt s pc sq mov) /\ desc x = Some (mkMove (sq_of_pt sq) (sq_of_pt mov) None).
Proof.
  intros PO Hs G PC Hmov Chk NoPromo.
  destruct (ordinary_hyps_of_pos_ok s AllMoves pc sq mov PO Hs G PC Hmov) as [OH Prow].
  rewrite (ordinary_check_agrees zt s pc sq mov OH) in Chk.
  assert (MB : moved_board zt s pc sq mov = Some (moved_pre zt s pc sq mov)) by (apply moved_board_some; auto).
  destruct (moved_board_fields zt _ _ _ _ _ MB) as [ML MP].
  destruct (finalise_fields zt (moved_pre zt s pc sq mov) pc sq mov) as [FL FP]. rewrite ML in FL. rewrite MP in FP.
  exists (finalise zt (moved_pre zt s pc sq mov) pc sq mov). split; [|now apply desc_of].
  unfold successors_of_move. rewrite MB.
  assert (P1 : (fst mov =? BOARD_START) && color_eqb (pcolor pc) White && is_pawn_kind (pkind pc) = false).
  { destruct (pkind pc) eqn:PK; cbn [is_pawn_kind]; rewrite ?andb_false_r; try reflexivity. rewrite andb_true_r.
    specialize (NoPromo eq_refl). destruct (pcolor pc); cbn [color_eqb last_rank] in *; rewrite ?andb_false_r, ?andb_true_r; try reflexivity.
    apply Z.eqb_neq. unfold sq_of_pt, BOARD_START, BOARD_END in *. cbn [fst snd] in *. lia. }
  assert (P2 : (fst mov =? BOARD_END - 1) && color_eqb (pcolor pc) Black && is_pawn_kind (pkind pc) = false).
  { destruct (pkind pc) eqn:PK; cbn [is_pawn_kind]; rewrite ?andb_false_r; try reflexivity. rewrite andb_true_r.
    specialize (NoPromo eq_refl). destruct (pcolor pc); cbn [color_eqb last_rank] in *; rewrite ?andb_false_r, ?andb_true_r; try reflexivity.
    apply Z.eqb_neq. unfold sq_of_pt, BOARD_START, BOARD_END in *. cbn [fst snd] in *. lia. }
  rewrite P1, P2. left. reflexivity.
Qed.

(* a promoting target that passes the legality test yields the successor for every promotion piece *)
Lemma promotion_generated s pc sq mov k :
  pos_ok s AllMoves -> is_inner sq = true -> get (board s) sq = Full pc -> pcolor pc = to_move s ->
  In mov (get_moves pc sq (board s) AllMoves) -> pkind pc = Pawn ->
  snd (sq_of_pt mov) = last_rank (pcolor pc) -> In k PROMOTION_KINDS ->
  in_check (pos_pl (apply (abs s) (mkMove (sq_of_pt sq) (sq_of_pt mov) (Some k)))) (pcolor pc) = false ->
  exists x, In x (successors_of_move zt s pc sq mov) /\ desc x = Some (mkMove (sq_of_pt sq) (sq_of_pt mov) (Some k)).
Proof.
  intros PO Hs G PC Hmov PK LR Hk Chk.
  destruct (ordinary_hyps_of_pos_ok s AllMoves pc sq mov PO Hs G PC Hmov) as [OH Prow].
  assert (Last : fst mov = BOARD_START \/ fst mov = BOARD_END - 1).
  { unfold sq_of_pt, BOARD_START, BOARD_END in *. cbn [fst snd] in LR. destruct (pcolor pc); cbn [last_rank] in LR; lia. }
  rewrite (promotion_check_agrees zt s pc sq mov k OH PK (Prow PK Last) Hk) in Chk.
  assert (MB : moved_board zt s pc sq mov = Some (moved_pre zt s pc sq mov)) by (apply moved_board_some; auto).
  set (fin := finalise zt (moved_pre zt s pc sq mov) pc sq mov).
  assert (Hx : exists x, In x (promote_pawn zt fin (pcolor pc) sq mov) /\ last_move x = Some (sq, mov) /\
                         pawn_promotion x = Some (mkPiece (pcolor pc) k)).
  { eexists. split; [unfold promote_pawn; apply in_map; exact Hk|]. split; reflexivity. }
  destruct Hx as (x & Hin & HL & HP). exists x. split; [|unfold desc; now rewrite HL, HP].
  unfold successors_of_move. rewrite MB. fold fin. rewrite PK. cbn [is_pawn_kind]. rewrite !andb_true_r.
  unfold sq_of_pt, BOARD_START, BOARD_END in *. cbn [fst snd] in LR.
  destruct (pcolor pc) eqn:Col; cbn [last_rank color_eqb] in *; rewrite ?andb_true_r, ?andb_false_r.
  - assert (E : fst mov = 2) by lia. rewrite E. cbn. exact Hin.
  - assert (E : fst mov = 9) by lia. rewrite E. cbn. exact Hin.
Qed.

Lemma piece_complete s q mv :
  pos_ok1 s -> on8 q = true -> In mv (piece_moves_spec (abs s) q) ->
  in_check (pos_pl (apply (abs s) mv)) (pos_stm (abs s)) = false ->
  exists x, In x (generate_moves zt s AllMoves) /\ desc x = Some mv.
Proof.
  intros [PO ER] On Hmv Chk. assert (PO' := PO). destruct PO' as (OK & KO & RH & EP & NK).
  assert (Hm0 := Hmv). unfold piece_moves_spec in Hm0. rewrite pl_abs in Hm0.
  destruct (pget (abs_placement (board s)) q) as [pc|] eqn:Pg; [|destruct Hm0].
  rewrite stm_abs in Hm0. destruct (color_eqb_spec (pcolor pc) (to_move s)) as [PC|]; [|destruct Hm0]. clear Hm0.
  pose proof (get_of_pget_abs s q pc On Pg) as G.
  pose proof (proj1 (on8_inner q) On) as Hp.
  rewrite stm_abs, <- PC in Chk.
  destruct (kind_eqb_spec (pkind pc) Pawn) as [PK|NPK].
  - (* pawns *)
    assert (Mover : pget (pos_pl (abs s)) q = Some pc) by exact Pg.
    assert (Stm : pcolor pc = pos_stm (abs s)) by (now rewrite stm_abs).
    rewrite (piece_moves_spec_pawn _ _ pc Mover Stm PK) in Hmv.
    destruct (pt_of_sq q) as [row col] eqn:Ep.
    assert (Eq : q = sq_of_pt (row, col)) by (rewrite <- Ep; symmetry; apply sq_pt). rewrite Eq in Hmv.
    destruct (is_ep_capture (abs s) mv) eqn:IsEp.
    + (* en passant *)
      destruct (pawn_ep_shape (board s) (abs s) pc row col eq_refl mv Hmv IsEp) as (df & Hdf & -> & Epos).
      cbn [abs pos_ep] in Epos. destruct (pawn_double_move s) as [dm|] eqn:D; [|discriminate].
      assert (Edm : sq_of_pt dm = (fst (sq_of_pt (row, col)) + df, snd (sq_of_pt (row, col)) + forward (pcolor pc))) by congruence.
      assert (Tdm : dm = (row + mfw (pcolor pc), col + df)).
      { rewrite <- (pt_sq dm), Edm. replace (row + mfw (pcolor pc)) with (row + 1 * mfw (pcolor pc)) by ring.
        rewrite <- (pt_sq (row + 1 * mfw (pcolor pc), col + df)). f_equal. rewrite sq_of_pt_pawn. f_equal. ring. }
      assert (E : pawn_moves_en_passant pc (row, col) s = Some dm).
      { apply ep_geometry. split; [exact D|]. split.
        - specialize (ER dm D). rewrite Tdm in ER. cbn [fst] in ER. rewrite <- PC in ER.
          destruct (pcolor pc); cbn [mfw ep_row] in *; unfold EP_ROW_WHITE, EP_ROW_BLACK; lia.
        - rewrite Tdm. destruct Hdf as [-> | ->]; [left|right]; f_equal; ring. }
      rewrite <- Edm in Chk. rewrite PC in Chk.
      rewrite (ep_check_agrees zt s pc (row, col) dm dm OK KO EP G Hp PC D PK E) in Chk.
      destruct (ep_pre_abs zt s pc (row, col) dm dm OK EP G Hp PC D PK E) as (_ & HL & HP & _).
      exists (ep_pre zt s pc (row, col) dm). split.
      * apply (piece_in_generate s (row, col) pc); auto. unfold generate_moves_for_piece. apply in_or_app. right.
        rewrite en_passant_successor_pre, D, PK, E, Chk. left. reflexivity.
      * rewrite <- Edm. now apply desc_of.
    + (* pushes, captures, promotions *)
      destruct (pawn_complete (board s) OK (abs s) pc row col eq_refl PK Hp G mv Hmv IsEp) as (Hfrom & Ont & Hmov & Hpr).
      destruct mv as [from to pr]. cbn [mfrom mto mpromo] in *. subst from.
      set (mov := pt_of_sq to) in *. assert (Eto : to = sq_of_pt mov) by (unfold mov; symmetry; apply sq_pt).
      assert (Hmov' : In mov (get_moves pc (row, col) (board s) AllMoves)) by (unfold get_moves; now rewrite PK).
      rewrite Eto in Chk, Hpr |- *. unfold promo_ok in Hpr.
      destruct (Z.eqb_spec (snd (sq_of_pt mov)) (last_rank (pcolor pc))) as [LR|NLR].
      * destruct Hpr as (k & -> & Hk). apply promotion_kinds_spec in Hk.
        destruct (promotion_generated s pc (row, col) mov k PO Hp G PC Hmov' PK LR Hk Chk) as (x & Hx & Hd).
        exists x. split; [|exact Hd]. apply (piece_in_generate s (row, col) pc); auto.
        unfold generate_moves_for_piece. apply in_or_app. left. apply in_flat_map. exists mov. auto.
      * subst pr.
        destruct (ordinary_generated s pc (row, col) mov PO Hp G PC Hmov' Chk (fun _ => NLR)) as (x & Hx & Hd).
        exists x. split; [|exact Hd]. apply (piece_in_generate s (row, col) pc); auto.
        unfold generate_moves_for_piece. apply in_or_app. left. apply in_flat_map. exists mov. auto.
  - (* every other piece *)
    destruct (nonpawn_spec_shape (board s) (abs s) q pc mv Pg eq_refl NPK Hmv) as (Hfrom & Hpr & Ont).
    destruct mv as [from to pr]. cbn [mfrom mto mpromo] in *. subst from pr.
    set (p := pt_of_sq q) in *. set (mov := pt_of_sq to).
    assert (Eq : q = sq_of_pt p) by (unfold p; symmetry; apply sq_pt).
    assert (Eto : to = sq_of_pt mov) by (unfold mov; symmetry; apply sq_pt).
    rewrite Eq, Eto in Hmv, Chk |- *.
    assert (Hmov : In mov (get_moves pc p (board s) AllMoves)).
    { apply (nonpawn_agree (board s) OK (abs s) pc p mov eq_refl); auto. }
    destruct (ordinary_generated s pc p mov PO Hp G PC Hmov Chk ltac:(intros; contradiction)) as (x & Hx & Hd).
    exists x. split; [|exact Hd]. apply (piece_in_generate s p pc); auto.
    unfold generate_moves_for_piece. apply in_or_app. left. apply in_flat_map. exists mov. auto.
Qed.

Lemma spec_safe_rev s c f r :
  cells_ok (board s) -> kings_ok s -> on8 (f, r) = true -> get (board s) (pt_of_sq (f, r)) <> Full (mkPiece (opposite c) King) ->
  attacked (abs_placement (board s)) (opposite c) (f, r) = false -> is_check_cords s c (pt_of_sq (f, r)) = false.
Proof.
  intros OK KO On NK H. destruct (KO (opposite c)) as [GK UK].
  transitivity (attacked (abs_placement (board s)) (opposite c) (sq_of_pt (pt_of_sq (f, r)))); [|now rewrite sq_pt].
  apply is_check_cords_correct; auto; [now apply on8_inner|]. intros E. apply NK. now rewrite <- E.
Qed.

Lemma castle_complete s mv :
  pos_ok s AllMoves -> In mv (castle_moves_spec (abs s)) -> exists x, In x (generate_moves zt s AllMoves) /\ desc x = Some mv.
Proof.
  intros (OK & KO & RH & EP & NK) H. unfold castle_moves_spec in H. rewrite stm_abs in H.
  destruct (to_move s) eqn:TM; cbn [abs has_right home_rank pos_pl pos_wk pos_wq pos_bk pos_bq] in H; apply in_app_or in H; destruct H as [H|H].
    + (* WKS *)
      match type of H with In mv (if ?c then _ else _) => destruct c eqn:Cond; [|destruct H] end. destruct H as [<-|[]].
      apply andb_true_iff in Cond; destruct Cond as [Cond A6]. apply andb_true_iff in Cond; destruct Cond as [Cond A5]. apply andb_true_iff in Cond; destruct Cond as [Cond A4]. apply andb_true_iff in Cond; destruct Cond as [Cond O8]. apply andb_true_iff in Cond; destruct Cond as [Cond O7]. apply andb_true_iff in Cond; destruct Cond as [Cond RK]. apply andb_true_iff in Cond; destruct Cond as [Cond KH]. rename Cond into R.
      apply negb_true_iff in O7. apply (occupied_abs (board s) OK (5, 0) eq_refl) in O7. change (pt_of_sq (5, 0)) with (9, 7) in O7.
      apply negb_true_iff in O8. apply (occupied_abs (board s) OK (6, 0) eq_refl) in O8. change (pt_of_sq (6, 0)) with (9, 8) in O8.
      apply negb_true_iff in A4.
      apply negb_true_iff in A5.
      apply negb_true_iff in A6.
      destruct (rights_home_r s WKS RH R) as [GK GR]. pose proof (king_at_home s WKS KO RH R) as KL. cbn [right_color king_home rook_home] in *.
      assert (C0 : is_check s White = false).
      { unfold is_check. rewrite KL. apply (spec_safe_rev s White 4 0 OK KO eq_refl); [change (pt_of_sq (4, 0)) with (9, 6); rewrite GK; discriminate|exact A4]. }
      assert (C7 : is_check_cords s White (9, 7) = false).
      { apply (spec_safe_rev s White 5 0 OK KO eq_refl); [change (pt_of_sq (5, 0)) with (9, 7); rewrite O7; discriminate|exact A5]. }
      assert (C8 : is_check_cords s White (9, 8) = false).
      { apply (spec_safe_rev s White 6 0 OK KO eq_refl); [change (pt_of_sq (6, 0)) with (9, 8); rewrite O8; discriminate|exact A6]. }
      assert (CC : can_castle_white_king_side s = true).
      { unfold can_castle_white_king_side, e, BOARD_START, BOARD_END.
        change (10 - 1) with 9; change (10 - 2) with 8; change (10 - 3) with 7; change (2 + 1) with 3; change (2 + 2) with 4; change (2 + 3) with 5.
        rewrite R, C0, O7, O8, C7, C8. reflexivity. }
      eexists. split.
      * unfold generate_moves. apply in_or_app. right. cbn [mode_all]. unfold generate_castling_moves. rewrite TM. cbn [color_eqb andb can_castle]. rewrite CC.
        apply in_or_app; left. left. reflexivity.
      * apply (desc_of _ (9, 6) (9, 8)); apply (castle_successor_desc zt).
    + (* WQS *)
      match type of H with In mv (if ?c then _ else _) => destruct c eqn:Cond; [|destruct H] end. destruct H as [<-|[]].
      apply andb_true_iff in Cond; destruct Cond as [Cond A2]. apply andb_true_iff in Cond; destruct Cond as [Cond A3]. apply andb_true_iff in Cond; destruct Cond as [Cond A4]. apply andb_true_iff in Cond; destruct Cond as [Cond O5]. apply andb_true_iff in Cond; destruct Cond as [Cond O4]. apply andb_true_iff in Cond; destruct Cond as [Cond O3]. apply andb_true_iff in Cond; destruct Cond as [Cond RK]. apply andb_true_iff in Cond; destruct Cond as [Cond KH]. rename Cond into R.
      apply negb_true_iff in O3. apply (occupied_abs (board s) OK (1, 0) eq_refl) in O3. change (pt_of_sq (1, 0)) with (9, 3) in O3.
      apply negb_true_iff in O4. apply (occupied_abs (board s) OK (2, 0) eq_refl) in O4. change (pt_of_sq (2, 0)) with (9, 4) in O4.
      apply negb_true_iff in O5. apply (occupied_abs (board s) OK (3, 0) eq_refl) in O5. change (pt_of_sq (3, 0)) with (9, 5) in O5.
      apply negb_true_iff in A4.
      apply negb_true_iff in A3.
      apply negb_true_iff in A2.
      destruct (rights_home_r s WQS RH R) as [GK GR]. pose proof (king_at_home s WQS KO RH R) as KL. cbn [right_color king_home rook_home] in *.
      assert (C0 : is_check s White = false).
      { unfold is_check. rewrite KL. apply (spec_safe_rev s White 4 0 OK KO eq_refl); [change (pt_of_sq (4, 0)) with (9, 6); rewrite GK; discriminate|exact A4]. }
      assert (C5 : is_check_cords s White (9, 5) = false).
      { apply (spec_safe_rev s White 3 0 OK KO eq_refl); [change (pt_of_sq (3, 0)) with (9, 5); rewrite O5; discriminate|exact A3]. }
      assert (C4 : is_check_cords s White (9, 4) = false).
      { apply (spec_safe_rev s White 2 0 OK KO eq_refl); [change (pt_of_sq (2, 0)) with (9, 4); rewrite O4; discriminate|exact A2]. }
      assert (CC : can_castle_white_queen_side s = true).
      { unfold can_castle_white_queen_side, e, BOARD_START, BOARD_END.
        change (10 - 1) with 9; change (10 - 2) with 8; change (10 - 3) with 7; change (2 + 1) with 3; change (2 + 2) with 4; change (2 + 3) with 5.
        rewrite R, C0, O3, O4, O5, C5, C4. reflexivity. }
      eexists. split.
      * unfold generate_moves. apply in_or_app. right. cbn [mode_all]. unfold generate_castling_moves. rewrite TM. cbn [color_eqb andb can_castle]. rewrite CC.
        apply in_or_app; right. apply in_or_app; left. left. reflexivity.
      * apply (desc_of _ (9, 6) (9, 4)); apply (castle_successor_desc zt).
    + (* BKS *)
      match type of H with In mv (if ?c then _ else _) => destruct c eqn:Cond; [|destruct H] end. destruct H as [<-|[]].
      apply andb_true_iff in Cond; destruct Cond as [Cond A6]. apply andb_true_iff in Cond; destruct Cond as [Cond A5]. apply andb_true_iff in Cond; destruct Cond as [Cond A4]. apply andb_true_iff in Cond; destruct Cond as [Cond O8]. apply andb_true_iff in Cond; destruct Cond as [Cond O7]. apply andb_true_iff in Cond; destruct Cond as [Cond RK]. apply andb_true_iff in Cond; destruct Cond as [Cond KH]. rename Cond into R.
      apply negb_true_iff in O7. apply (occupied_abs (board s) OK (5, 7) eq_refl) in O7. change (pt_of_sq (5, 7)) with (2, 7) in O7.
      apply negb_true_iff in O8. apply (occupied_abs (board s) OK (6, 7) eq_refl) in O8. change (pt_of_sq (6, 7)) with (2, 8) in O8.
      apply negb_true_iff in A4.
      apply negb_true_iff in A5.
      apply negb_true_iff in A6.
      destruct (rights_home_r s BKS RH R) as [GK GR]. pose proof (king_at_home s BKS KO RH R) as KL. cbn [right_color king_home rook_home] in *.
      assert (C0 : is_check s Black = false).
      { unfold is_check. rewrite KL. apply (spec_safe_rev s Black 4 7 OK KO eq_refl); [change (pt_of_sq (4, 7)) with (2, 6); rewrite GK; discriminate|exact A4]. }
      assert (C7 : is_check_cords s Black (2, 7) = false).
      { apply (spec_safe_rev s Black 5 7 OK KO eq_refl); [change (pt_of_sq (5, 7)) with (2, 7); rewrite O7; discriminate|exact A5]. }
      assert (C8 : is_check_cords s Black (2, 8) = false).
      { apply (spec_safe_rev s Black 6 7 OK KO eq_refl); [change (pt_of_sq (6, 7)) with (2, 8); rewrite O8; discriminate|exact A6]. }
      assert (CC : can_castle_black_king_side s = true).
      { unfold can_castle_black_king_side, e, BOARD_START, BOARD_END.
        change (10 - 1) with 9; change (10 - 2) with 8; change (10 - 3) with 7; change (2 + 1) with 3; change (2 + 2) with 4; change (2 + 3) with 5.
        rewrite R, C0, O7, O8, C7, C8. reflexivity. }
      eexists. split.
      * unfold generate_moves. apply in_or_app. right. cbn [mode_all]. unfold generate_castling_moves. rewrite TM. cbn [color_eqb andb can_castle]. rewrite CC.
        apply in_or_app; right. apply in_or_app; right. apply in_or_app; left. left. reflexivity.
      * apply (desc_of _ (2, 6) (2, 8)); apply (castle_successor_desc zt).
    + (* BQS *)
      match type of H with In mv (if ?c then _ else _) => destruct c eqn:Cond; [|destruct H] end. destruct H as [<-|[]].
      apply andb_true_iff in Cond; destruct Cond as [Cond A2]. apply andb_true_iff in Cond; destruct Cond as [Cond A3]. apply andb_true_iff in Cond; destruct Cond as [Cond A4]. apply andb_true_iff in Cond; destruct Cond as [Cond O5]. apply andb_true_iff in Cond; destruct Cond as [Cond O4]. apply andb_true_iff in Cond; destruct Cond as [Cond O3]. apply andb_true_iff in Cond; destruct Cond as [Cond RK]. apply andb_true_iff in Cond; destruct Cond as [Cond KH]. rename Cond into R.
      apply negb_true_iff in O3. apply (occupied_abs (board s) OK (1, 7) eq_refl) in O3. change (pt_of_sq (1, 7)) with (2, 3) in O3.
      apply negb_true_iff in O4. apply (occupied_abs (board s) OK (2, 7) eq_refl) in O4. change (pt_of_sq (2, 7)) with (2, 4) in O4.
      apply negb_true_iff in O5. apply (occupied_abs (board s) OK (3, 7) eq_refl) in O5. change (pt_of_sq (3, 7)) with (2, 5) in O5.
      apply negb_true_iff in A4.
      apply negb_true_iff in A3.
      apply negb_true_iff in A2.
      destruct (rights_home_r s BQS RH R) as [GK GR]. pose proof (king_at_home s BQS KO RH R) as KL. cbn [right_color king_home rook_home] in *.
      assert (C0 : is_check s Black = false).
      { unfold is_check. rewrite KL. apply (spec_safe_rev s Black 4 7 OK KO eq_refl); [change (pt_of_sq (4, 7)) with (2, 6); rewrite GK; discriminate|exact A4]. }
      assert (C5 : is_check_cords s Black (2, 5) = false).
      { apply (spec_safe_rev s Black 3 7 OK KO eq_refl); [change (pt_of_sq (3, 7)) with (2, 5); rewrite O5; discriminate|exact A3]. }
      assert (C4 : is_check_cords s Black (2, 4) = false).
      { apply (spec_safe_rev s Black 2 7 OK KO eq_refl); [change (pt_of_sq (2, 7)) with (2, 4); rewrite O4; discriminate|exact A2]. }
      assert (CC : can_castle_black_queen_side s = true).
      { unfold can_castle_black_queen_side, e, BOARD_START, BOARD_END.
        change (10 - 1) with 9; change (10 - 2) with 8; change (10 - 3) with 7; change (2 + 1) with 3; change (2 + 2) with 4; change (2 + 3) with 5.
        rewrite R, C0, O3, O4, O5, C5, C4. reflexivity. }
      eexists. split.
      * unfold generate_moves. apply in_or_app. right. cbn [mode_all]. unfold generate_castling_moves. rewrite TM. cbn [color_eqb andb can_castle]. rewrite CC.
        apply in_or_app; right. apply in_or_app; right. apply in_or_app; right. left. reflexivity.
      * apply (desc_of _ (2, 6) (2, 4)); apply (castle_successor_desc zt).
Qed.

Theorem legal_moves_are_generated s mv :
  pos_ok1 s -> In mv (legal_moves (abs s)) -> exists x, In x (generate_moves zt s AllMoves) /\ desc x = Some mv.
Proof.
  intros PO H. apply legal_moves_in in H. destruct H as [Hps Chk].
  unfold pseudo_moves in Hps. apply in_app_or in Hps. destruct Hps as [Hps|Hps].
  - apply in_flat_map in Hps. destruct Hps as [q [Hq Hmv]]. apply in_all_sq_on8 in Hq.
    now apply (piece_complete s q mv).
  - destruct PO as [PO _]. now apply castle_complete.
Qed.

End S.
