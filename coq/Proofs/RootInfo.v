(* What the root reports: every info event carries an evaluation within the mate magnitude (never the
   infinity sentinel of an aborted search), for every position, ordering oracle and expiry index. *)
From Walleye Require Import Model.Search Proofs.ClockSim Proofs.RootSim Proofs.ValueRange.
Open Scope Z_scope.

Local Notation M := MATE_SCORE.

Definition info_ok (e : event) : Prop :=
  match e with
  | Info d ev line => 1 <= d /\ - M <= ev <= M
  | Send _ => True
  end.

Section S.
Variable zt : ztable.
Variable osort : N -> list BoardState -> list BoardState.
Variable k : option N.
Variable fuel : nat.
Hypothesis Hfuel : NULL_PLY_OFFSET * Z.of_nat fuel + 1 <= 2 * M.

Lemma root_moves_infos first : forall ms d alpha r o r',
  1 <= d -> alpha <= M -> Forall info_ok (r_events r) ->
  root_moves zt osort k fuel first ms d alpha r = Ok (o, r') -> Forall info_ok (r_events r').
Proof.
  induction ms as [|mov rest IH]; intros d alpha r o r' Hd Ha Hr H; cbn [root_moves] in H.
  - inversion H; subst. exact Hr.
  - destruct (out_of_time k (r_s r)) as [expired s] eqn:E.
    destruct expired.
    + inversion H; subst. cbn [r_events]. destruct (r_best r); [exact Hr|]. constructor; [exact I|exact Hr].
    + destruct (alpha_beta zt osort k fuel mov (d - 1) 1 (- POS_INF) (- alpha) true s) as [[v s1]| |] eqn:AB; try discriminate.
      destruct (insert_into_cur_line s1 0 mov) as [s2| |] eqn:I2; try discriminate.
      pose proof (insert_cur_clock _ _ _ _ I2) as C2.
      destruct (alpha <? - v) eqn:Lt.
      * destruct (out_of_time k s2) as [expired2 s3] eqn:E2.
        destruct expired2; cbn [negb] in H.
        -- eapply IH; [exact Hd|exact Ha| |exact H]. exact Hr.
        -- (* accepted: the value is that of the unlimited search, hence within range *)
           assert (F : fst (out_of_time k s2) = false) by (rewrite E2; reflexivity).
           pose proof (accepted_value_is_untainted zt osort k fuel mov (d - 1) 1 (- POS_INF) (- alpha) true s v s1 s2 AB C2 F) as U.
           assert (R : - M <= v <= M).
           { eapply (alpha_beta_range zt osort fuel); [| | |exact U]. 
             - unfold NULL_PLY_OFFSET, MATE_SCORE in *. lia.
             - unfold POS_INF, MATE_SCORE. lia.
             - lia. }
           eapply IH; [exact Hd| | |exact H].
           ++ lia.
           ++ cbn [r_events]. constructor; [unfold info_ok; split; [exact Hd|lia]|]. constructor; [exact I|exact Hr].
      * eapply IH; [exact Hd|exact Ha| |exact H]. exact Hr.
Qed.

Lemma root_depths_infos b : forall iters moves d r r',
  1 <= d -> Forall info_ok (r_events r) ->
  root_depths zt osort k iters fuel b moves d r = Ok r' -> Forall info_ok (r_events r').
Proof.
  induction iters as [|it IH]; intros moves d r r' Hd Hr H; cbn [root_depths] in H.
  - inversion H; subst; exact Hr.
  - destruct (MAX_DEPTH <=? d); [inversion H; subst; exact Hr|].
    destruct (do_sort osort moves (reset_search (r_s r))) as [sorted s].
    destruct sorted as [|first rest].
    + assert (Hd' : 1 <= d + 1) by lia. exact (IH _ _ (mkR s (r_best r) (r_events r)) _ Hd' Hr H).
    + destruct (root_moves zt osort k fuel first (first :: rest) d NEG_INF (mkR s (r_best r) (r_events r))) as [[o r3]| |] eqn:RM; try discriminate.
      assert (H3 : Forall info_ok (r_events r3)).
      { eapply root_moves_infos; [exact Hd| | |exact RM]; [unfold NEG_INF, POS_INF, MATE_SCORE; lia|exact Hr]. }
      destruct (root_moves_grow zt osort _ _ _ _ _ _ _ _ _ RM) as [_ Ho].
      destruct o as [r''|].
      * rewrite (Ho r'' eq_refl) in H. assert (Hd' : 1 <= d + 1) by lia. exact (IH _ _ _ _ Hd' H3 H).
      * inversion H; subst. exact H3.
Qed.

Theorem reported_scores_in_range b t ev s :
  get_best_move zt osort k fuel b t = Ok (ev, s) -> Forall info_ok ev.
Proof.
  unfold get_best_move. intros H.
  destruct (root_depths zt osort k (Z.to_nat MAX_DEPTH) fuel b (generate_moves zt b AllMoves) 1 (mkR (new_search t) None [])) as [r| |] eqn:RD; try discriminate.
  inversion H; subst. apply Forall_rev.
  eapply root_depths_infos; [| |exact RD]; [lia|constructor].
Qed.

End S.
