(* make_move recognises corner squares by a substring test on the move text.  For every UCI move
   text (4 squares characters plus an optional promotion letter) the substring test means exactly
   "the from-square or the to-square is that corner": it cannot match across the two squares. *)
From Walleye Require Import Model.TextMove.
Open Scope N_scope.

Definition files : list N := [97; 98; 99; 100; 101; 102; 103; 104].
Definition ranks : list N := [49; 50; 51; 52; 53; 54; 55; 56].
Definition promo_suffixes : list str := [[]; [113]; [114]; [98]; [110]].
Definition corners : list str := [str_a8; str_h8; str_a1; str_h1].

Definition uci_texts : list str :=
  flat_map (fun f1 => flat_map (fun r1 => flat_map (fun f2 => flat_map (fun r2 =>
    map (fun p => f1 :: r1 :: f2 :: r2 :: p) promo_suffixes) ranks) files) ranks) files.

Definition corner_test_ok (mv corner : str) : bool :=
  Bool.eqb (contains mv corner) (str_eqb (firstn 2 mv) corner || str_eqb (firstn 2 (skipn 2 mv)) corner).

Lemma contains_corner_sweep :
  forallb (fun mv => forallb (corner_test_ok mv) corners) uci_texts = true.
Proof. vm_compute. reflexivity. Qed.

Lemma contains_corner mv corner :
  In mv uci_texts -> In corner corners ->
  contains mv corner = str_eqb (firstn 2 mv) corner || str_eqb (firstn 2 (skipn 2 mv)) corner.
Proof.
  intros Hm Hc. pose proof contains_corner_sweep as H.
  rewrite forallb_forall in H. specialize (H mv Hm). rewrite forallb_forall in H. specialize (H corner Hc).
  unfold corner_test_ok in H. now apply Bool.eqb_prop in H.
Qed.

(* the castling strings are UCI texts of king moves from e1/e8, as the generator's descriptors say *)
Lemma castle_strings_match_alg :
  WHITE_KING_SIDE_CASTLE_STRING = show_point (fst WHITE_KING_SIDE_CASTLE_ALG) ++ show_point (snd WHITE_KING_SIDE_CASTLE_ALG) /\
  WHITE_QUEEN_SIDE_CASTLE_STRING = show_point (fst WHITE_QUEEN_SIDE_CASTLE_ALG) ++ show_point (snd WHITE_QUEEN_SIDE_CASTLE_ALG) /\
  BLACK_KING_SIDE_CASTLE_STRING = show_point (fst BLACK_KING_SIDE_CASTLE_ALG) ++ show_point (snd BLACK_KING_SIDE_CASTLE_ALG) /\
  BLACK_QUEEN_SIDE_CASTLE_STRING = show_point (fst BLACK_QUEEN_SIDE_CASTLE_ALG) ++ show_point (snd BLACK_QUEEN_SIDE_CASTLE_ALG).
Proof. vm_compute. repeat split; reflexivity. Qed.

(* printing a board square and parsing it back is the identity on the 64 inner squares *)
Lemma point_text_roundtrip :
  forallb (fun p => match point_from_str (show_point p) with Some q => point_eqb p q | None => false end) inner_points = true.
Proof. vm_compute. reflexivity. Qed.
