(* Rules-level facts about `attacked` needed by C01: it depends on the placement only through the enemy
   pieces and the occupancy; promoting keeps the mover's king as safe as the pawn move did; castling
   onto a square that was not attacked does not leave the king attacked. *)
From Walleye Require Import Spec.Chess Spec.Abs Proofs.Cells Proofs.HashProofs Proofs.AttackGeom Proofs.AbsSet.
Open Scope Z_scope.

Lemma existsb_ext_in {A} (f g : A -> bool) l : (forall x, In x l -> f x = g x) -> existsb f l = existsb g l.
Proof.
  induction l as [|a l IH]; intros H; cbn [existsb]; [reflexivity|].
  rewrite (H a (or_introl eq_refl)), IH; [reflexivity|]. intros x Hx. apply H. right. exact Hx.
Qed.

Lemma reaches_ext pl pl' d t : (forall q, occupied pl q = occupied pl' q) ->
  forall fuel cur, reaches fuel pl cur d t = reaches fuel pl' cur d t.
Proof.
  intros H. induction fuel as [|f IH]; intros cur; cbn [reaches]; [reflexivity|].
  rewrite H, IH. reflexivity.
Qed.

Lemma attacks_ext pl pl' q t : pget pl q = pget pl' q -> (forall x, occupied pl x = occupied pl' x) ->
  attacks pl q t = attacks pl' q t.
Proof.
  intros G H. unfold attacks. rewrite <- G. destruct (pget pl q) as [pc|]; [|reflexivity].
  destruct (pkind pc).
  - reflexivity.
  - reflexivity.
  - apply existsb_ext_in. intros d _. apply reaches_ext. exact H.
  - apply existsb_ext_in. intros d _. apply reaches_ext. exact H.
  - apply existsb_ext_in. intros d _. apply reaches_ext. exact H.
  - reflexivity.
Qed.

(* the attackers of colour [by] and the occupancy are all that matters *)
Lemma attacked_ext pl pl' by_ t :
  (forall q, has_color pl q by_ = has_color pl' q by_) ->
  (forall q, has_color pl q by_ = true -> pget pl q = pget pl' q) ->
  (forall q, occupied pl q = occupied pl' q) ->
  attacked pl by_ t = attacked pl' by_ t.
Proof.
  intros HC HG HO. unfold attacked. apply existsb_ext_in. intros q _. rewrite <- HC.
  destruct (has_color pl q by_) eqn:C; cbn [andb]; [|reflexivity]. apply attacks_ext; auto.
Qed.

Lemma king_sq_ext pl pl' c : (forall q, is_king_of c (pget pl q) = is_king_of c (pget pl' q)) -> king_sq pl c = king_sq pl' c.
Proof.
  intros H. unfold king_sq, king_squares. rewrite (filter_ext _ _ H). reflexivity.
Qed.

(* replacing a piece of colour c (not a king) by another such piece changes nothing for c's king *)
Lemma in_check_own_piece_kind pl t c k k' :
  length pl = 64%nat -> on8 t = true -> pget pl t = Some (mkPiece c k) -> k <> King -> k' <> King ->
  in_check (pset pl t (Some (mkPiece c k'))) c = in_check pl c.
Proof.
  intros L On G NK NK'. unfold in_check.
  set (pl' := pset pl t (Some (mkPiece c k'))).
  assert (Gt : pget pl' t = Some (mkPiece c k')) by (apply pget_pset_same; assumption).
  assert (Go : forall q, q <> t -> pget pl' q = pget pl q) by (intros q Hq; apply pget_pset_other; congruence).
  assert (K : king_sq pl' c = king_sq pl c).
  { apply king_sq_ext. intros q. destruct (sq_eqb_spec q t) as [->|Hq]; [|now rewrite Go].
    rewrite Gt, G. cbn [is_king_of pcolor pkind]. destruct k, k'; try reflexivity; congruence. }
  rewrite K. apply attacked_ext.
  - intros q. unfold has_color. destruct (sq_eqb_spec q t) as [->|Hq]; [|now rewrite Go].
    rewrite Gt, G. reflexivity.
  - intros q Hc. destruct (sq_eqb_spec q t) as [->|Hq]; [|now apply Go].
    unfold has_color in Hc. rewrite Gt in Hc. cbn [pcolor] in Hc. destruct c; discriminate.
  - intros q. unfold occupied. destruct (sq_eqb_spec q t) as [->|Hq]; [|now rewrite Go].
    rewrite Gt, G. reflexivity.
Qed.

(* ---- castling: the king's destination, not attacked before, is not attacked after *)
Lemma slider_dir_shape k d : In d (slider_dirs k) ->
  (fst d = 1 \/ fst d = -1 \/ fst d = 0) /\ (snd d = 1 \/ snd d = -1 \/ snd d = 0) /\ (snd d = 0 -> fst d = 1 \/ fst d = -1).
Proof.
  assert (C : forallb (fun d => ((fst d =? 1) || (fst d =? -1) || (fst d =? 0)) && ((snd d =? 1) || (snd d =? -1) || (snd d =? 0))
                                && (negb (snd d =? 0) || (fst d =? 1) || (fst d =? -1))) (rook_dirs ++ bishop_dirs) = true)
    by (vm_compute; reflexivity).
  intros H. assert (Hin : In d (rook_dirs ++ bishop_dirs)).
  { destruct k; cbn [slider_dirs] in H; try contradiction; [apply in_or_app; right; exact H|apply in_or_app; left; exact H|exact H]. }
  rewrite forallb_forall in C. specialize (C d Hin). destruct d as [a b0]. cbn [fst snd] in *.
  destruct (Z.eqb_spec a 1), (Z.eqb_spec a (-1)), (Z.eqb_spec a 0), (Z.eqb_spec b0 1), (Z.eqb_spec b0 (-1)), (Z.eqb_spec b0 0);
    cbn in C; try discriminate; repeat split; auto; intros; lia.
Qed.

Lemma attacked_after_castle pl pl' c r tf :
  (forall q, has_color pl' q (opposite c) = true -> pget pl q = pget pl' q) ->
  (forall q, snd q <> r -> pget pl q = pget pl' q) ->
  (forall f, has_color pl' (f, r) (opposite c) = true -> exists g, (f < g < tf \/ tf < g < f) /\ occupied pl' (g, r) = true) ->
  attacked pl' (opposite c) (tf, r) = true -> attacked pl (opposite c) (tf, r) = true.
Proof.
  intros HE HR HB H. unfold attacked in *. apply existsb_exists in H. destruct H as [q [Hq H]].
  apply andb_true_iff in H. destruct H as [Hc Ha]. apply existsb_exists. exists q. split; [exact Hq|].
  pose proof (HE q Hc) as G. apply andb_true_iff. split; [unfold has_color in *; now rewrite G|].
  unfold attacks in *. rewrite G. destruct (pget pl' q) as [pc|] eqn:Gq; [|discriminate].
  assert (SL : forall k, existsb (fun d => reaches 8 pl' (sadd q d) d (tf, r)) (slider_dirs k) = true ->
                         existsb (fun d => reaches 8 pl (sadd q d) d (tf, r)) (slider_dirs k) = true).
  { intros k E. apply existsb_exists in E. destruct E as [d [Hd E]]. apply existsb_exists. exists d. split; [exact Hd|].
    destruct (slider_dir_shape k d Hd) as (Fd & Sd & Hz).
    apply reaches_iff in E. destruct E as [m [Hm [Et [Hon Hun]]]].
    assert (Etf : fst q + fst d + m * fst d = tf) by (apply (f_equal fst) in Et; unfold sadd, smul in Et; cbn [fst snd] in Et; lia).
    assert (Etr : snd q + snd d + m * snd d = r) by (apply (f_equal snd) in Et; unfold sadd, smul in Et; cbn [fst snd] in Et; lia).
    destruct (Z.eq_dec (snd d) 0) as [Z0|NZ].
    - (* along the rank: a blocker stands between *)
      exfalso. assert (Sq : snd q = r) by (rewrite Z0 in Etr; lia).
      destruct q as [f r0]. cbn [fst snd] in *. subst r0.
      destruct (HB f Hc) as [g [Hg Og]].
      destruct (Hz Z0) as [F1|F1]; rewrite F1 in Etf.
      + assert (f < g < tf) by lia. specialize (Hun (g - f - 1) ltac:(lia)).
        replace (sadd (sadd (f, r) d) (smul (g - f - 1) d)) with (g, r) in Hun; [congruence|].
        unfold sadd, smul. destruct d as [d1 d2]. cbn [fst snd] in *. subst. f_equal; lia.
      + assert (tf < g < f) by lia. specialize (Hun (f - g - 1) ltac:(lia)).
        replace (sadd (sadd (f, r) d) (smul (f - g - 1) d)) with (g, r) in Hun; [congruence|].
        unfold sadd, smul. destruct d as [d1 d2]. cbn [fst snd] in *. subst. f_equal; lia.
    - (* off the rank: every square on the way is unchanged *)
      apply reaches_iff. exists m. split; [exact Hm|]. split; [exact Et|]. split; [exact Hon|].
      intros j Hj. rewrite <- (Hun j Hj). unfold occupied. rewrite HR; [reflexivity|].
      unfold sadd, smul. cbn [fst snd]. intros E. assert (snd d * (m - j) = 0) by lia. 
      apply Z.mul_eq_0 in H. lia. }
  destruct (pkind pc); [exact Ha|exact Ha|apply SL; exact Ha|apply SL; exact Ha|apply SL; exact Ha|exact Ha].
Qed.
