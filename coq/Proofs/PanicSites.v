(* C07 (e), made precise: the only way the search can panic is one of the three array accesses indexed by the ply
   (current line, killer table, PV table: sites 60, 61, 62) - i.e. a ply of MAX_DEPTH or more; the capture search
   cannot panic at all, and `moves[0]` (site 63) is never reached on an empty list. For every expiry index. *)
From Walleye Require Import Model.Search.
From Coq Require Import Lia.
Open Scope Z_scope.

Definition ply_site (p : N) : Prop := p = 60%N \/ p = 61%N \/ p = 62%N.

Section S.
Variable zt : ztable.
Variable osort : N -> list BoardState -> list BoardState.
Hypothesis osort_nonempty : forall i l, l <> [] -> osort i l <> [].
Variable k : option N.

Definition q_safe (qrec : q_fn) : Prop := forall b a be s p, qrec b a be s <> Panic p.
Definition ab_safe (rec : search_fn) : Prop := forall b d ply a be n s p, rec b d ply a be n s = Panic p -> ply_site p.

Lemma q_loop_safe qrec : q_safe qrec -> forall ms a be s p, q_loop qrec ms a be s <> Panic p.
Proof.
  intros Hq. induction ms as [|m rest IH]; intros a be s p H; cbn [q_loop] in H; [discriminate H|].
  destruct (qrec m (- be) (- a) s) as [[v s1]| |] eqn:E; try discriminate H.
  - destruct (be <=? - v); [discriminate H|]. exact (IH _ _ _ _ H).
  - exact (Hq _ _ _ _ _ E).
Qed.

Lemma quiesce_safe fuel : q_safe (quiesce zt osort k fuel).
Proof.
  induction fuel as [|f IH]; intros b a be s p H; cbn [quiesce] in H; [discriminate H|].
  destruct (out_of_time k s) as [e s0]. destruct e; [discriminate H|].
  destruct (be <=? get_evaluation b); [discriminate H|].
  destruct (do_sort osort (generate_moves zt b CapturesOnly) (node_searched s0)) as [moves s1].
  exact (q_loop_safe _ IH _ _ _ _ _ H).
Qed.

Lemma insert_cur_site s ply m p : insert_into_cur_line s ply m = Panic p -> ply_site p.
Proof. unfold insert_into_cur_line. destruct (arr_set (cur_line s) ply (last_move m)); intros H; [discriminate H|]. left. congruence. Qed.
Lemma insert_killer_site s ply m p : insert_killer_move s ply m = Panic p -> ply_site p.
Proof.
  unfold insert_killer_move. destruct (arr_get (killers s) ply) as [kk|]; [|intros H; right; left; congruence].
  destruct (existsb _ kk); [discriminate|]. destruct (arr_set (killers s) ply _); intros H; [discriminate H|]. right; left. congruence.
Qed.
Lemma rank_moves_site s ply l p : rank_moves s ply l = Panic p -> ply_site p.
Proof. unfold rank_moves. destruct (arr_get (pv_moves s) ply); [destruct (arr_get (killers s) ply); [discriminate|]|]; intros H; right; right; congruence. Qed.
Lemma rank_moves_nonempty s ply l r : rank_moves s ply l = Ok r -> l <> [] -> r <> [].
Proof.
  unfold rank_moves. destruct (arr_get (pv_moves s) ply); [|discriminate]. destruct (arr_get (killers s) ply); [|discriminate].
  intros H NE. assert (r = map (fun mov => if opt_mv2_eqb (last_move mov) o then with_oh mov POS_INF else if existsb (fun x => opt_mv2_eqb (last_move mov) x) m then with_oh mov KILLER_MOVE_SCORE else mov) l) by congruence.
  subst r. destruct l; [contradiction|discriminate].
Qed.

Section Node.
Variable rec : search_fn.
Variable qrec : q_fn.
Hypothesis Hrec : ab_safe rec.
Hypothesis Hq : q_safe qrec.
Variable b : BoardState.

Lemma leave_safe v s p : leave b v s <> Panic p. Proof. unfold leave. discriminate. Qed.

Lemma ab_loop_safe depth ply beta : forall ms alpha best s p,
  ab_loop rec b depth ply beta ms alpha best s = Panic p -> ply_site p.
Proof.
  induction ms as [|m rest IH]; intros alpha best s p H; cbn [ab_loop] in H; [now apply leave_safe in H|].
  destruct (insert_into_cur_line s ply m) as [s1|e1|p0] eqn:E1; try discriminate H.
  2:{ assert (p = p0) by congruence. subst. exact (insert_cur_site _ _ _ _ E1). }
  destruct (rec m (depth - 1) (ply + 1) (- alpha - 1) (- alpha) true s1) as [[v1 s2]|e2|p0] eqn:E2; try discriminate H.
  2:{ assert (p = p0) by congruence. subst. exact (Hrec _ _ _ _ _ _ _ _ E2). }
  destruct ((alpha <? - v1) && (- v1 <? beta)).
  - destruct (rec m (depth - 1) (ply + 1) (- beta) (- alpha) true s2) as [[v2 s3]|e3|p0] eqn:E3; try discriminate H.
    2:{ assert (p = p0) by congruence. subst. exact (Hrec _ _ _ _ _ _ _ _ E3). }
    destruct (best <? - v2); [|exact (IH _ _ _ _ H)].
    destruct (beta <=? - v2); [|exact (IH _ _ _ _ H)].
    destruct (order_heuristic m =? 0); [|now apply leave_safe in H].
    destruct (insert_killer_move s3 ply m) as [s4|e4|p0] eqn:E4; [now apply leave_safe in H|discriminate H|].
    assert (p = p0) by congruence. subst. exact (insert_killer_site _ _ _ _ E4).
  - destruct (best <? - v1); [|exact (IH _ _ _ _ H)].
    destruct (beta <=? - v1); [|exact (IH _ _ _ _ H)].
    destruct (order_heuristic m =? 0); [|now apply leave_safe in H].
    destruct (insert_killer_move s2 ply m) as [s4|e4|p0] eqn:E4; [now apply leave_safe in H|discriminate H|].
    assert (p = p0) by congruence. subst. exact (insert_killer_site _ _ _ _ E4).
Qed.

Lemma ab_moves_safe depth ply alpha beta s p :
  ab_moves zt osort rec b depth ply alpha beta s = Panic p -> ply_site p.
Proof.
  intros H. unfold ab_moves in H.
  destruct (generate_moves zt b AllMoves) as [|g0 gs] eqn:G.
  { destruct (is_check b (to_move b)); now apply leave_safe in H. }
  destruct (rank_moves s ply (g0 :: gs)) as [ranked|e0|p0] eqn:RK; try discriminate H.
  2:{ assert (p = p0) by congruence. subst. exact (rank_moves_site _ _ _ _ RK). }
  pose proof (rank_moves_nonempty _ _ _ _ RK ltac:(discriminate)) as NR.
  pose proof (osort_nonempty (sorts s) ranked NR) as NS.
  unfold do_sort in H. destruct (osort (sorts s) ranked) as [|m0 rest]; [contradiction|].
  destruct (insert_into_cur_line _ ply m0) as [s2|e2|p0] eqn:E2; try discriminate H.
  2:{ assert (p = p0) by congruence. subst. exact (insert_cur_site _ _ _ _ E2). }
  match type of H with context [rec m0 (depth - 1) (ply + 1) (- beta) (- alpha) true ?st] =>
    destruct (rec m0 (depth - 1) (ply + 1) (- beta) (- alpha) true st) as [[v0 s4]|e4|p0] eqn:E4 end; try discriminate H.
  2:{ assert (p = p0) by congruence. subst. exact (Hrec _ _ _ _ _ _ _ _ E4). }
  destruct ((alpha <? - v0) && (beta <=? - v0)); [now apply leave_safe in H|].
  destruct (alpha <? - v0); exact (ab_loop_safe _ _ _ _ _ _ _ _ H).
Qed.

Lemma ab_body_safe depth ply alpha beta allow_null s p :
  ab_body zt osort rec qrec b depth ply alpha beta allow_null s = Panic p -> ply_site p.
Proof.
  intros H. unfold ab_body in H.
  destruct ((depth =? 0) && negb (is_check b (to_move b))); [exfalso; exact (Hq _ _ _ _ _ H)|].
  match type of H with context [if ?c then leave b ?x s else _] => destruct c end; [now apply leave_safe in H|].
  match type of H with (if ?c then _ else _) = _ => destruct c end; [|exact (ab_moves_safe _ _ _ _ _ _ H)].
  match type of H with context [rec ?bb ?dd ?pp ?aa ?be' false s] => destruct (rec bb dd pp aa be' false s) as [[vn sn]|en|p0] eqn:EN end; try discriminate H.
  - match type of H with (if ?c then _ else _) = _ => destruct c end; [now apply leave_safe in H|exact (ab_moves_safe _ _ _ _ _ _ H)].
  - assert (p = p0) by congruence. subst. exact (Hrec _ _ _ _ _ _ _ _ EN).
Qed.

End Node.

Theorem alpha_beta_safe fuel : ab_safe (alpha_beta zt osort k fuel).
Proof.
  induction fuel as [|f IH]; intros b d ply a be n s p H; cbn [alpha_beta] in H; [discriminate H|].
  destruct (out_of_time k s) as [e s1]. destruct e; [discriminate H|].
  match type of H with (if ?c then _ else _) = _ => destruct c end; [discriminate H|].
  exact (ab_body_safe (alpha_beta zt osort k f) (quiesce zt osort k f) IH (quiesce_safe f) b d ply a be n _ p H).
Qed.

(* the root *)
Lemma root_moves_safe fuel first : forall ms d alpha r p,
  root_moves zt osort k fuel first ms d alpha r = Panic p -> ply_site p.
Proof.
  induction ms as [|mov rest IH]; intros d alpha r p H; cbn [root_moves] in H; [discriminate H|].
  destruct (out_of_time k (r_s r)) as [e s]. destruct e; [discriminate H|].
  destruct (alpha_beta zt osort k fuel mov (d - 1) 1 (- POS_INF) (- alpha) true s) as [[v s1]|e1|p0] eqn:AB; try discriminate H.
  2:{ assert (p = p0) by congruence. subst. exact (alpha_beta_safe fuel _ _ _ _ _ _ _ _ AB). }
  destruct (insert_into_cur_line s1 0 mov) as [s2|e2|p0] eqn:I2; try discriminate H.
  2:{ assert (p = p0) by congruence. subst. exact (insert_cur_site _ _ _ _ I2). }
  destruct (alpha <? - v).
  - destruct (out_of_time k s2) as [e2 s3]. destruct e2; cbn [negb] in H; exact (IH _ _ _ _ H).
  - exact (IH _ _ _ _ H).
Qed.

Lemma root_depths_safe fuel b : forall iters moves d r p,
  root_depths zt osort k iters fuel b moves d r = Panic p -> ply_site p.
Proof.
  induction iters as [|it IH]; intros moves d r p H; cbn [root_depths] in H; [discriminate H|].
  destruct (MAX_DEPTH <=? d); [discriminate H|].
  destruct (do_sort osort moves (reset_search (r_s r))) as [sorted s].
  destruct sorted as [|first rest]; [exact (IH _ _ _ _ H)|].
  destruct (root_moves zt osort k fuel first (first :: rest) d NEG_INF (mkR s (r_best r) (r_events r))) as [[[r1|] rl]|e1|p0] eqn:RM; try discriminate H.
  - exact (IH _ _ _ _ H).
  - assert (p = p0) by congruence. subst. exact (root_moves_safe _ _ _ _ _ _ _ RM).
Qed.

Theorem search_panics_only_at_ply_arrays fuel b t p :
  get_best_move zt osort k fuel b t = Panic p -> ply_site p.
Proof.
  unfold get_best_move. intros H.
  destruct (root_depths zt osort k (Z.to_nat MAX_DEPTH) fuel b (generate_moves zt b AllMoves) 1 (mkR (new_search t) None [])) as [r|e|p0] eqn:RD; try discriminate H.
  assert (p = p0) by congruence. subst. exact (root_depths_safe _ _ _ _ _ _ _ RD).
Qed.

(* and those three sites need a ply outside the tables *)
Lemma arr_set_in_range {A} (l : list A) i v : 0 <= i < Z.of_nat (length l) -> arr_set l i v <> None.
Proof. intros H. unfold arr_set. destruct (Z.ltb_spec i 0); [lia|]. destruct (Z.leb_spec (Z.of_nat (length l)) i); [lia|]. discriminate. Qed.
Lemma arr_get_in_range {A} (l : list A) i : 0 <= i < Z.of_nat (length l) -> arr_get l i <> None.
Proof. intros H. unfold arr_get. destruct (Z.ltb_spec i 0); [lia|]. apply nth_error_Some. lia. Qed.

Lemma cur_line_site_needs_overflow s ply m p : insert_into_cur_line s ply m = Panic p -> ~ (0 <= ply < Z.of_nat (length (cur_line s))).
Proof. unfold insert_into_cur_line. intros H R. pose proof (arr_set_in_range (cur_line s) ply (last_move m) R). destruct (arr_set (cur_line s) ply (last_move m)); [discriminate H|contradiction]. Qed.
Lemma rank_site_needs_overflow s ply l p : rank_moves s ply l = Panic p ->
  ~ (0 <= ply < Z.of_nat (length (pv_moves s)) /\ 0 <= ply < Z.of_nat (length (killers s))).
Proof.
  unfold rank_moves. intros H [R1 R2]. pose proof (arr_get_in_range (pv_moves s) ply R1). pose proof (arr_get_in_range (killers s) ply R2).
  destruct (arr_get (pv_moves s) ply); [|contradiction]. destruct (arr_get (killers s) ply); [discriminate H|contradiction].
Qed.

End S.
