(* C03/C04, end to end on the session model: a `position` line that names a legal position (by any FEN string
   the loader accepts, or startpos) and a chain of legal moves sets the board to the position the rules give,
   and the `go` that follows is answered with the text of a legal move of that position. *)
From Walleye Require Import Model.Uci Spec.Abs Spec.FenPrint Proofs.SessionProofs Proofs.GenerateAbs Proofs.LegalMoves Proofs.NoDupMoves
  Proofs.MakeMoveSame Proofs.FenRoundTrip Proofs.FenAccept Proofs.FenLegal Proofs.GoAnswer Proofs.HashProofs Proofs.InitialPosition
  Proofs.LegalPosition.
From Coq Require Import Lia.
Open Scope Z_scope.

(* the initial position, for every table: DEFAULT_FEN_STRING is what the printer prints for it *)
Definition start_position : position := abs initial_state.

Lemma default_fen_is_printed : DEFAULT_FEN_STRING = print_fen start_position 0 1.
Proof. vm_compute. reflexivity. Qed.

Lemma start_position_legal : legal_position start_position = true.
Proof. vm_compute. reflexivity. Qed.

Section S.
Variable zt : ztable.
Variable osort : N -> list BoardState -> list BoardState.
Hypothesis osort_sub : forall i l x, In x (osort i l) -> In x l.

Lemma default_fen_loaded : exists b0, from_fen zt DEFAULT_FEN_STRING = Ok b0 /\ abs b0 = start_position.
Proof.
  rewrite default_fen_is_printed.
  destruct (legal_fen_is_loaded zt start_position 0 1 start_position_legal ltac:(split; [lia|reflexivity]) ltac:(split; [lia|reflexivity]))
    as (b0 & H & A & _). exists b0. auto.
Qed.

(* what the moves part of the command is *)
Definition moves_part (cmds : list str) (mvs : list move) : Prop :=
  after_moves cmds = Some (map text_of_move mvs) \/ (after_moves cmds = None /\ mvs = []).

Lemma play_from b0 cmds mvs :
  pos_ok1 b0 -> key_ok zt b0 -> moves_part cmds mvs -> legal_chain (abs b0) mvs ->
  exists b t, match after_moves cmds with Some ms => play_moves zt b0 [(zobrist_key b0, 1)] ms | None => Ok (b0, [(zobrist_key b0, 1)]) end = Ok (b, t) /\
              abs b = fold_left apply mvs (abs b0) /\ pos_ok1 b /\ key_ok zt b.
Proof.
  intros PO K [AM|[AM ->]] LC; rewrite AM.
  - destruct (position_moves_chain zt mvs b0 [(zobrist_key b0, 1)] PO LC) as (s' & t' & H & A & P & K'). exists s', t'. auto.
  - exists b0, [(zobrist_key b0, 1)]. auto.
Qed.

(* position fen <six fields> [moves ...] *)
Theorem position_fen_command cmds c7 b0 mvs :
  nth_error cmds 1 = Some str_fen -> nth_error cmds 7 = Some c7 ->
  from_fen zt (flat_map (fun c => c ++ [32%N]) (firstn 5 (skipn 2 cmds)) ++ c7) = Ok b0 ->
  legal_position (abs b0) = true -> moves_part cmds mvs -> legal_chain (abs b0) mvs ->
  exists b t, play_out_position zt cmds = Ok (b, t) /\ abs b = fold_left apply mvs (abs b0) /\ pos_ok1 b /\ key_ok zt b.
Proof.
  intros N1 N7 F LP MP LC. unfold play_out_position, nth_res. rewrite N1. cbn [res_bind].
  change (str_eqb str_fen str_fen) with true. cbv iota. rewrite N7. cbn [res_bind]. rewrite F. cbn [res_bind].
  destruct (accepted_legal_is_covered zt _ b0 F LP) as (PO & K & _). exact (play_from b0 cmds mvs PO K MP LC).
Qed.

(* position startpos [moves ...] (any second word other than fen) *)
Theorem position_startpos_command cmds c1 mvs :
  nth_error cmds 1 = Some c1 -> str_eqb c1 str_fen = false ->
  moves_part cmds mvs -> legal_chain start_position mvs ->
  exists b t, play_out_position zt cmds = Ok (b, t) /\ abs b = fold_left apply mvs start_position /\ pos_ok1 b /\ key_ok zt b.
Proof.
  intros N1 NF MP LC. unfold play_out_position, nth_res. rewrite N1. cbn [res_bind]. rewrite NF.
  destruct default_fen_loaded as (b0 & F & A). rewrite F. cbn [res_bind].
  assert (LP : legal_position (abs b0) = true) by (rewrite A; exact start_position_legal).
  destruct (accepted_legal_is_covered zt _ b0 F LP) as (PO & K & _). rewrite <- A in LC |- *. exact (play_from b0 cmds mvs PO K MP LC).
Qed.

(* ---- the two lines, through the command loop *)
Lemma position_line st raw sc cmds b t :
  ss_phase st = Running -> split_on 32 (clean_input raw) = cmds -> nth_error cmds 0 = Some s_position ->
  play_out_position zt cmds = Ok (b, t) -> step zt osort st (Line raw) sc = (mkSess b t Running, []).
Proof.
  intros R E N0 P. unfold step. rewrite R, E. destruct cmds as [|c0 rest]; [discriminate N0|]. injection N0 as ->.
  change (str_eqb s_position s_isready) with false. change (str_eqb s_position s_ucinewgame) with false.
  change (str_eqb s_position s_position) with true. cbv iota. now rewrite P.
Qed.

Lemma go_line st raw sc cmds :
  ss_phase st = Running -> split_on 32 (clean_input raw) = cmds -> nth_error cmds 0 = Some s_go ->
  step zt osort st (Line raw) sc = go_step zt osort st cmds sc.
Proof.
  intros R E N0. unfold step. rewrite R, E. destruct cmds as [|c0 rest]; [discriminate N0|]. injection N0 as ->. reflexivity.
Qed.

Lemma no_moves_iff s : pos_ok1 s -> (generate_moves zt s AllMoves = [] <-> legal_moves (abs s) = []).
Proof.
  intros PO. split; intros H.
  - destruct (legal_moves (abs s)) as [|mv r] eqn:E; [reflexivity|]. exfalso.
    destruct (legal_moves_are_generated zt s mv PO ltac:(rewrite E; now left)) as (x & Hx & _). rewrite H in Hx. contradiction.
  - destruct (generate_moves zt s AllMoves) as [|x r] eqn:E; [reflexivity|]. exfalso.
    destruct (generated_moves_are_legal zt s x (proj1 PO) ltac:(rewrite E; now left)) as (mv & _ & Hl). rewrite H in Hl. contradiction.
Qed.

(* after `position`, the board denotes P and is well-formed; then `go`:
   no legal move -> the null-move answer; otherwise either the search sent nothing (state unchanged, only info
   lines) or what follows "bestmove" is the text of a legal move of P and the session goes on from the
   position the rules give *)
Theorem position_then_go st raw1 sc1 cmds1 b t P raw2 sc2 cmds2 gt st' outs :
  ss_phase st = Running ->
  split_on 32 (clean_input raw1) = cmds1 -> nth_error cmds1 0 = Some s_position ->
  play_out_position zt cmds1 = Ok (b, t) -> abs b = P -> pos_ok1 b ->
  split_on 32 (clean_input raw2) = cmds2 -> nth_error cmds2 0 = Some s_go -> parse_go_command cmds2 = Ok gt ->
  run zt osort st [(Line raw1, sc1); (Line raw2, sc2)] = (st', outs) -> ss_phase st' = Running ->
  (legal_moves P = [] /\ outs = [s_bestmove ++ NULL_MOVE_TEXT] /\ ss_board st' = b) \/
  (legal_moves P <> [] /\ st' = mkSess b t Running /\
     exists ev s, get_best_move zt osort (sc_k sc2) (sc_fuel sc2) b t = Ok (ev, s) /\ sends_of ev = [] /\ outs = infos_of ev) \/
  (exists mv infos, In mv (legal_moves P) /\ outs = infos ++ [s_bestmove ++ text_of_move mv] /\
                    abs (ss_board st') = apply P mv /\ pos_ok1 (ss_board st')).
Proof.
  intros R E1 N1 PL A PO E2 N2 PG RUN R'. cbn [run] in RUN.
  rewrite (position_line st raw1 sc1 cmds1 b t R E1 N1 PL) in RUN.
  rewrite (go_line (mkSess b t Running) raw2 sc2 cmds2 eq_refl E2 N2) in RUN.
  destruct (go_step zt osort (mkSess b t Running) cmds2 sc2) as [st2 o2] eqn:GS.
  cbn [app] in RUN. rewrite app_nil_r in RUN. injection RUN as <- <-.
  destruct (generate_moves zt b AllMoves) as [|x r] eqn:G.
  - left. rewrite (go_terminal zt osort (mkSess b t Running) cmds2 sc2 gt PG G) in GS. injection GS as <- <-.
    split; [subst P; now apply no_moves_iff|]. split; reflexivity.
  - right. assert (NE : generate_moves zt (ss_board (mkSess b t Running)) AllMoves <> []) by (cbn [ss_board]; rewrite G; discriminate).
    assert (NL : legal_moves P <> []).
    { intros H. subst P. apply (no_moves_iff b PO) in H. rewrite H in G. discriminate. }
    destruct (go_answer_cases zt osort osort_sub (mkSess b t Running) cmds2 sc2 gt st2 o2 PO PG NE GS R') as [(-> & ev & s & GB & SE & EO)|H].
    + left. split; [exact NL|]. split; [reflexivity|]. exists ev, s. auto.
    + right. subst P. exact H.
Qed.

(* C16: the whole reply - output lines and the state the session is left in - to `position X` then `go ...` is the
   same whatever state the session was in before (it is computed from the two lines and the schedule alone) *)
Theorem request_is_a_function st st' raw1 sc1 cmds1 b t raw2 sc2 cmds2 :
  ss_phase st = Running -> ss_phase st' = Running ->
  split_on 32 (clean_input raw1) = cmds1 -> nth_error cmds1 0 = Some s_position ->
  play_out_position zt cmds1 = Ok (b, t) ->
  split_on 32 (clean_input raw2) = cmds2 -> nth_error cmds2 0 = Some s_go ->
  run zt osort st [(Line raw1, sc1); (Line raw2, sc2)] = run zt osort st' [(Line raw1, sc1); (Line raw2, sc2)].
Proof.
  intros R R' E1 N1 PL E2 N2. cbn [run].
  rewrite (position_line st raw1 sc1 cmds1 b t R E1 N1 PL), (position_line st' raw1 sc1 cmds1 b t R' E1 N1 PL).
  reflexivity.
Qed.

End S.
