(* The ordering used by the oracle and by the model when no order log is supplied:
   a permutation of its input, sorted by decreasing ordering hint. *)
From Coq Require Import Permutation.
From Walleye Require Import Model.Search.
Open Scope Z_scope.

Lemma insert_desc_perm x l : Permutation (x :: l) (insert_desc x l).
Proof.
  induction l as [|y t IH]; cbn [insert_desc]; [reflexivity|].
  destruct (order_heuristic y <? order_heuristic x); [reflexivity|].
  rewrite perm_swap. now apply perm_skip.
Qed.

Lemma stable_sort_desc_perm l : Permutation l (stable_sort_desc l).
Proof.
  unfold stable_sort_desc. induction l as [|x t IH]; cbn [fold_right]; [reflexivity|].
  rewrite <- insert_desc_perm. now apply perm_skip.
Qed.

Lemma sorted_desc_cons2 a b t : sorted_desc (a :: b :: t) = (order_heuristic b <=? order_heuristic a) && sorted_desc (b :: t).
Proof. reflexivity. Qed.

Lemma insert_desc_head x l : exists h r, insert_desc x l = h :: r /\ (h = x \/ (exists t, l = h :: t)).
Proof.
  destruct l as [|y t]; cbn [insert_desc]; [eauto|].
  destruct (order_heuristic y <? order_heuristic x); eauto 6.
Qed.

Lemma insert_desc_sorted x l : sorted_desc l = true -> sorted_desc (insert_desc x l) = true.
Proof.
  induction l as [|y t IH]; intros H; cbn [insert_desc]; [reflexivity|].
  destruct (order_heuristic y <? order_heuristic x) eqn:E.
  - rewrite sorted_desc_cons2, H, andb_true_r. apply Z.ltb_lt in E. apply Z.leb_le. lia.
  - apply Z.ltb_ge in E.
    assert (Ht : sorted_desc t = true).
    { destruct t as [|z t']; [reflexivity|]. rewrite sorted_desc_cons2 in H. now apply andb_true_iff in H. }
    specialize (IH Ht).
    destruct (insert_desc_head x t) as [h [r [Eq Hh]]]. rewrite Eq in *.
    rewrite sorted_desc_cons2, IH, andb_true_r. apply Z.leb_le.
    destruct Hh as [->|[t' ->]]; [exact E|].
    rewrite sorted_desc_cons2 in H. apply andb_true_iff in H. destruct H as [H _]. now apply Z.leb_le in H.
Qed.

Lemma stable_sort_desc_sorted l : sorted_desc (stable_sort_desc l) = true.
Proof.
  unfold stable_sort_desc. induction l as [|x t IH]; cbn [fold_right]; [reflexivity|].
  now apply insert_desc_sorted.
Qed.

Lemma stable_sort_desc_incl l x : In x (stable_sort_desc l) -> In x l.
Proof. intros H. eapply Permutation_in; [symmetry; apply stable_sort_desc_perm|exact H]. Qed.
