(* C14: the static evaluation is colour-symmetric, side-relative, bounded and depends only on
   the 64 inner cells and the side to move.  No hypothesis on the placement. *)
From Walleye Require Import Model.Eval.
Open Scope Z_scope.

(* ---- per-cell contributions *)
Definition c_wmg (b : cells) (p : point) : Z :=
  match get b p with
  | Full (mkPiece White k) => tbl (mg_table k) (fst p - BOARD_START) (snd p - BOARD_START) + mg_piece_val k
  | _ => 0 end.
Definition c_bmg (b : cells) (p : point) : Z :=
  match get b p with
  | Full (mkPiece Black k) => tbl (mg_table k) (BLACK_ROW_MIRROR_MG - fst p) (snd p - BOARD_START) + mg_piece_val k
  | _ => 0 end.
Definition c_weg (b : cells) (p : point) : Z :=
  match get b p with
  | Full (mkPiece White k) => tbl (eg_table k) (fst p - BOARD_START) (snd p - BOARD_START) + eg_piece_val k
  | _ => 0 end.
Definition c_beg (b : cells) (p : point) : Z :=
  match get b p with
  | Full (mkPiece Black k) => tbl (eg_table k) (BLACK_ROW_MIRROR_EG - fst p) (snd p - BOARD_START) + eg_piece_val k
  | _ => 0 end.
Definition c_ph (b : cells) (p : point) : Z :=
  match get b p with Full pc => game_phase_val (pkind pc) | _ => 0 end.

Fixpoint zsum (f : point -> Z) (l : list point) : Z :=
  match l with [] => 0 | p :: t => f p + zsum f t end.

Lemma fold_eval_cell b l : forall a,
  fold_left (eval_cell b) l a =
  mkAcc (wmg a + zsum (c_wmg b) l) (bmg a + zsum (c_bmg b) l)
        (weg a + zsum (c_weg b) l) (beg a + zsum (c_beg b) l) (phase a + zsum (c_ph b) l).
Proof.
  induction l as [|p l IH]; intros a; cbn [fold_left zsum].
  - destruct a; cbn; f_equal; lia.
  - rewrite IH. unfold eval_cell, c_wmg, c_bmg, c_weg, c_beg, c_ph.
    destruct (get b p) as [|[[|] k]|]; cbn [pcolor pkind wmg bmg weg beg phase]; f_equal; lia.
Qed.

Definition acc_of (b : cells) : eacc :=
  mkAcc (zsum (c_wmg b) inner_points) (zsum (c_bmg b) inner_points)
        (zsum (c_weg b) inner_points) (zsum (c_beg b) inner_points) (zsum (c_ph b) inner_points).

Lemma eval_cells_acc b stm : eval_cells b stm = eval_of_acc (acc_of b) stm.
Proof. unfold eval_cells. rewrite fold_eval_cell. reflexivity. Qed.

(* ---- depends only on the inner cells and the side to move *)
Lemma zsum_ext f g l : (forall p, In p l -> f p = g p) -> zsum f l = zsum g l.
Proof.
  induction l as [|p l IH]; intros H; cbn [zsum]; [reflexivity|].
  rewrite (H p (or_introl eq_refl)), IH; [reflexivity|]. intros q Hq; apply H; now right.
Qed.

Lemma eval_depends_only_on b b' stm :
  (forall p, In p inner_points -> get b p = get b' p) -> eval_cells b stm = eval_cells b' stm.
Proof.
  intros H. rewrite !eval_cells_acc. unfold acc_of.
  rewrite (zsum_ext (c_wmg b) (c_wmg b')), (zsum_ext (c_bmg b) (c_bmg b')),
          (zsum_ext (c_weg b) (c_weg b')), (zsum_ext (c_beg b) (c_beg b')),
          (zsum_ext (c_ph b) (c_ph b')); [reflexivity|..];
    intros p Hp; unfold c_wmg, c_bmg, c_weg, c_beg, c_ph; now rewrite (H p Hp).
Qed.

(* ---- side-relative *)
Lemma eval_side b stm : eval_cells b (opposite stm) = - eval_cells b stm.
Proof.
  rewrite !eval_cells_acc. unfold eval_of_acc.
  set (a := acc_of b). set (ph := if phase a >? PHASE_CAP_TEST then PHASE_CAP_VALUE else phase a).
  rewrite <- Z.quot_opp_l by (unfold PHASE_DIV; lia).
  f_equal. destruct stm; cbn [opposite]; ring.
Qed.

(* ---- colour mirror *)
Definition mirror_pt (p : point) : point := (BOARD_START + BOARD_END - 1 - fst p, snd p).
Definition swap_sq (s : square) : square :=
  match s with Full pc => Full (mkPiece (opposite (pcolor pc)) (pkind pc)) | s => s end.

(* b' is the colour-mirrored twin of b on the 64 inner squares *)
Definition mirrored (b b' : cells) : Prop :=
  forall p, In p inner_points -> get b' p = swap_sq (get b (mirror_pt p)).

Lemma zsum_mirror f : zsum (fun p => f (mirror_pt p)) inner_points = zsum f inner_points.
Proof.
  let l := eval vm_compute in inner_points in change inner_points with l.
  cbn [zsum]. unfold mirror_pt. cbn [fst snd].
  change (BOARD_START + BOARD_END - 1) with 11.
  repeat match goal with |- context [11 - ?x] => let v := eval vm_compute in (11 - x) in change (11 - x) with v end.
  lia.
Qed.

Lemma mirror_cells_identities b b' p :
  In p inner_points -> get b' p = swap_sq (get b (mirror_pt p)) ->
  c_wmg b' p = c_bmg b (mirror_pt p) /\ c_bmg b' p = c_wmg b (mirror_pt p) /\
  c_weg b' p = c_beg b (mirror_pt p) /\ c_beg b' p = c_weg b (mirror_pt p) /\
  c_ph b' p = c_ph b (mirror_pt p).
Proof.
  intros Hin H. unfold c_wmg, c_bmg, c_weg, c_beg, c_ph. rewrite H.
  assert (R1 : BLACK_ROW_MIRROR_MG - fst (mirror_pt p) = fst p - BOARD_START) by (unfold mirror_pt, BLACK_ROW_MIRROR_MG, BLACK_ROW_MIRROR_EG, BOARD_START, BOARD_END; cbn [fst snd]; lia).
  assert (R2 : BLACK_ROW_MIRROR_EG - fst (mirror_pt p) = fst p - BOARD_START) by (unfold mirror_pt, BLACK_ROW_MIRROR_MG, BLACK_ROW_MIRROR_EG, BOARD_START, BOARD_END; cbn [fst snd]; lia).
  assert (R3 : fst (mirror_pt p) - BOARD_START = BLACK_ROW_MIRROR_MG - fst p) by (unfold mirror_pt, BLACK_ROW_MIRROR_MG, BLACK_ROW_MIRROR_EG, BOARD_START, BOARD_END; cbn [fst snd]; lia).
  assert (R4 : fst (mirror_pt p) - BOARD_START = BLACK_ROW_MIRROR_EG - fst p) by (unfold mirror_pt, BLACK_ROW_MIRROR_MG, BLACK_ROW_MIRROR_EG, BOARD_START, BOARD_END; cbn [fst snd]; lia).
  destruct (get b (mirror_pt p)) as [|[[|] k]|]; cbn [swap_sq pcolor pkind opposite];
    rewrite ?R1, ?R2, ?R3, ?R4; cbn [snd mirror_pt]; repeat split; reflexivity.
Qed.

Lemma acc_mirror b b' : mirrored b b' ->
  wmg (acc_of b') = bmg (acc_of b) /\ bmg (acc_of b') = wmg (acc_of b) /\
  weg (acc_of b') = beg (acc_of b) /\ beg (acc_of b') = weg (acc_of b) /\
  phase (acc_of b') = phase (acc_of b).
Proof.
  intros M. unfold acc_of; cbn [wmg bmg weg beg phase].
  rewrite <- (zsum_mirror (c_bmg b)), <- (zsum_mirror (c_wmg b)),
          <- (zsum_mirror (c_beg b)), <- (zsum_mirror (c_weg b)), <- (zsum_mirror (c_ph b)).
  repeat split; apply zsum_ext; intros p Hp;
    destruct (mirror_cells_identities b b' p Hp (M p Hp)) as (?&?&?&?&?); assumption.
Qed.

Lemma eval_mirror b b' stm : mirrored b b' -> eval_cells b' (opposite stm) = eval_cells b stm.
Proof.
  intros M. rewrite !eval_cells_acc. destruct (acc_mirror b b' M) as (E1&E2&E3&E4&E5).
  unfold eval_of_acc. rewrite E1, E2, E3, E4, E5. destruct stm; reflexivity.
Qed.

(* ---- bounded *)
(* the largest magnitude a single cell can contribute, computed from the regenerated tables *)
Definition cell_vals (k : kind) (p : point) : list Z :=
  [ tbl (mg_table k) (fst p - BOARD_START) (snd p - BOARD_START) + mg_piece_val k;
    tbl (mg_table k) (BLACK_ROW_MIRROR_MG - fst p) (snd p - BOARD_START) + mg_piece_val k;
    tbl (eg_table k) (fst p - BOARD_START) (snd p - BOARD_START) + eg_piece_val k;
    tbl (eg_table k) (BLACK_ROW_MIRROR_EG - fst p) (snd p - BOARD_START) + eg_piece_val k ].
Definition max_cell : Z :=
  fold_left Z.max (flat_map (fun k => flat_map (fun p => map Z.abs (cell_vals k p)) inner_points) all_kinds) 0.
Definition max_phase_cell : Z := fold_left Z.max (map game_phase_val all_kinds) 0.

Definition cells_ok : bool :=
  forallb (fun k => forallb (fun p => forallb (fun v => Z.abs v <=? max_cell) (cell_vals k p)) inner_points) all_kinds
  && forallb (fun k => (0 <=? game_phase_val k) && (game_phase_val k <=? max_phase_cell)) all_kinds.

Lemma cells_ok_true : cells_ok = true.
Proof. vm_compute. reflexivity. Qed.

Lemma cell_bound k p v : In p inner_points -> In v (cell_vals k p) -> Z.abs v <= max_cell.
Proof.
  intros Hp Hv. pose proof cells_ok_true as H. unfold cells_ok in H.
  apply andb_true_iff in H; destruct H as [H _].
  rewrite forallb_forall in H. specialize (H k).
  assert (Hk : In k all_kinds) by (destruct k; cbn; tauto).
  specialize (H Hk). rewrite forallb_forall in H. specialize (H p Hp).
  rewrite forallb_forall in H. specialize (H v Hv). now apply Z.leb_le.
Qed.

Lemma phase_cell_bound k : 0 <= game_phase_val k <= max_phase_cell.
Proof.
  pose proof cells_ok_true as H. unfold cells_ok in H.
  apply andb_true_iff in H; destruct H as [_ H].
  rewrite forallb_forall in H. specialize (H k).
  assert (Hk : In k all_kinds) by (destruct k; cbn; tauto).
  specialize (H Hk). apply andb_true_iff in H. destruct H as [H1 H2].
  apply Z.leb_le in H1, H2. lia.
Qed.

Definition c_mgd b p := c_wmg b p - c_bmg b p.
Definition c_egd b p := c_weg b p - c_beg b p.

Lemma max_cell_nonneg : 0 <= max_cell.
Proof. vm_compute. discriminate. Qed.

Lemma c_mgd_bound b p : In p inner_points -> Z.abs (c_mgd b p) <= max_cell.
Proof.
  intros Hp. unfold c_mgd, c_wmg, c_bmg. pose proof max_cell_nonneg.
  destruct (get b p) as [|[[|] k]|]; rewrite ?Z.sub_0_r, ?Z.sub_0_l, ?Z.abs_opp;
    try (change (Z.abs 0) with 0; assumption); apply (cell_bound k p); auto; cbn [cell_vals In]; tauto.
Qed.
Lemma c_egd_bound b p : In p inner_points -> Z.abs (c_egd b p) <= max_cell.
Proof.
  intros Hp. unfold c_egd, c_weg, c_beg. pose proof max_cell_nonneg.
  destruct (get b p) as [|[[|] k]|]; rewrite ?Z.sub_0_r, ?Z.sub_0_l, ?Z.abs_opp;
    try (change (Z.abs 0) with 0; assumption); apply (cell_bound k p); auto; cbn [cell_vals In]; tauto.
Qed.

Lemma zsum_sub f g l : zsum f l - zsum g l = zsum (fun p => f p - g p) l.
Proof. induction l as [|p l IH]; cbn [zsum]; lia. Qed.

Lemma zsum_abs_bound f l m : (forall p, In p l -> Z.abs (f p) <= m) -> Z.abs (zsum f l) <= Z.of_nat (length l) * m.
Proof.
  induction l as [|p l IH]; intros H; cbn [zsum length]; [lia|].
  pose proof (H p (or_introl eq_refl)).
  assert (Z.abs (zsum f l) <= Z.of_nat (length l) * m) by (apply IH; intros q Hq; apply H; now right).
  lia.
Qed.
Lemma zsum_range f l m : (forall p, In p l -> 0 <= f p <= m) -> 0 <= zsum f l <= Z.of_nat (length l) * m.
Proof.
  induction l as [|p l IH]; intros H; cbn [zsum length]; [lia|].
  pose proof (H p (or_introl eq_refl)).
  assert (0 <= zsum f l <= Z.of_nat (length l) * m) by (apply IH; intros q Hq; apply H; now right).
  lia.
Qed.

Definition eval_bound : Z := 64 * max_cell.

Lemma blend_bound mg eg ph B :
  Z.abs mg <= B -> Z.abs eg <= B -> 0 <= ph <= 24 ->
  Z.abs (Z.quot (mg * ph + eg * (24 - ph)) 24) <= B.
Proof.
  intros Hm He Hp.
  assert (Z.abs (mg * ph + eg * (24 - ph)) <= 24 * B).
  { eapply Z.le_trans; [apply Z.abs_triangle|]. rewrite !Z.abs_mul.
    rewrite (Z.abs_eq ph), (Z.abs_eq (24 - ph)) by lia. nia. }
  set (x := mg * ph + eg * (24 - ph)) in *. clearbody x.
  Z.quot_rem_to_equations. lia.
Qed.

Lemma eval_bounded b stm : Z.abs (eval_cells b stm) <= eval_bound.
Proof.
  rewrite eval_cells_acc. unfold eval_of_acc, acc_of; cbn [wmg bmg weg beg phase].
  set (ph := zsum (c_ph b) inner_points).
  assert (Hph : 0 <= ph).
  { unfold ph. apply (zsum_range _ _ max_phase_cell). intros p _. unfold c_ph.
    destruct (get b p) as [|pc|]; try (vm_compute; split; discriminate). apply phase_cell_bound. }
  assert (Hmg : Z.abs (zsum (c_wmg b) inner_points - zsum (c_bmg b) inner_points) <= eval_bound).
  { rewrite zsum_sub. apply (zsum_abs_bound _ inner_points max_cell). intros p Hp. apply (c_mgd_bound b p Hp). }
  assert (Heg : Z.abs (zsum (c_weg b) inner_points - zsum (c_beg b) inner_points) <= eval_bound).
  { rewrite zsum_sub. apply (zsum_abs_bound _ inner_points max_cell). intros p Hp. apply (c_egd_bound b p Hp). }
  change PHASE_DIV with 24. change PHASE_TOTAL with 24. change PHASE_CAP_TEST with 24. change PHASE_CAP_VALUE with 24.
  destruct (ph >? 24) eqn:Hc.
  - apply blend_bound; try lia; destruct stm; lia.
  - rewrite Z.gtb_ltb in Hc. apply Z.ltb_ge in Hc.
    apply blend_bound; try lia; destruct stm; lia.
Qed.

Lemma eval_bound_below_mate : eval_bound < MATE_SCORE - 100 /\ eval_bound < MATE_SCORE - MATE_WINDOW - MAX_DEPTH.
Proof. vm_compute. split; reflexivity. Qed.
