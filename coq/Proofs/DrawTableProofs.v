(* draw_table.rs as a lookup function: algebra of add/remove, counts after a replayed game. *)
From Walleye Require Import Model.TextMove.
Open Scope Z_scope.

Lemma dt_get_insert_same t k v : dt_get (dt_insert t k v) k = Some v.
Proof.
  induction t as [|[k' v'] t IH]; cbn [dt_insert dt_get].
  - now rewrite N.eqb_refl.
  - destruct (N.eqb_spec k' k) as [E|E]; cbn [dt_get].
    + now rewrite N.eqb_refl.
    + destruct (N.eqb_spec k' k); [contradiction|]. exact IH.
Qed.

Lemma dt_get_insert_other t k v k2 : k2 <> k -> dt_get (dt_insert t k v) k2 = dt_get t k2.
Proof.
  intros Hne. induction t as [|[k' v'] t IH]; cbn [dt_insert dt_get].
  - destruct (N.eqb_spec k k2); [congruence|reflexivity].
  - destruct (N.eqb_spec k' k) as [E|E]; cbn [dt_get].
    + subst k'. destruct (N.eqb_spec k k2); [congruence|reflexivity].
    + destruct (N.eqb_spec k' k2); [reflexivity|exact IH].
Qed.

Lemma dt_count_insert_same t k v : dt_count (dt_insert t k v) k = v.
Proof. unfold dt_count. now rewrite dt_get_insert_same. Qed.
Lemma dt_count_insert_other t k v k2 : k2 <> k -> dt_count (dt_insert t k v) k2 = dt_count t k2.
Proof. intros H. unfold dt_count. now rewrite dt_get_insert_other. Qed.

(* add_board_to_draw_table as a function on counts *)
Lemma dt_count_add t s k :
  dt_count (dt_add t s) k = if (k =? zobrist_key s)%N then dt_count t k + 1 else dt_count t k.
Proof.
  unfold dt_add. destruct (N.eqb_spec k (zobrist_key s)) as [E|E].
  - subst k. apply dt_count_insert_same.
  - now apply dt_count_insert_other.
Qed.

(* remove after add gives back every count: the record is restored as a lookup function *)
Lemma dt_count_remove_add t s k : dt_count (dt_remove (dt_add t s) s) k = dt_count t k.
Proof.
  unfold dt_remove, dt_add. rewrite dt_get_insert_same.
  destruct (N.eq_dec k (zobrist_key s)) as [E|E].
  - subst k. rewrite dt_count_insert_same. lia.
  - rewrite !dt_count_insert_other by assumption. reflexivity.
Qed.

(* tables equal as lookup functions *)
Definition dt_equiv (t t' : dtable) : Prop := forall k, dt_count t k = dt_count t' k.

Lemma dt_equiv_refl t : dt_equiv t t. Proof. intros k; reflexivity. Qed.
Lemma dt_equiv_trans a b c : dt_equiv a b -> dt_equiv b c -> dt_equiv a c.
Proof. intros H1 H2 k. now rewrite H1. Qed.
Lemma dt_remove_add_equiv t s : dt_equiv (dt_remove (dt_add t s) s) t.
Proof. intros k. apply dt_count_remove_add. Qed.

Lemma threefold_equiv t t' s : dt_equiv t t' -> is_threefold_repetition t s = is_threefold_repetition t' s.
Proof. intros H. unfold is_threefold_repetition. now rewrite H. Qed.

Lemma dt_add_equiv t t' s : dt_equiv t t' -> dt_equiv (dt_add t s) (dt_add t' s).
Proof. intros H k. rewrite !dt_count_add, H. reflexivity. Qed.

Lemma dt_count_remove t s k :
  0 < dt_count t (zobrist_key s) ->
  dt_count (dt_remove t s) k = if (k =? zobrist_key s)%N then dt_count t k - 1 else dt_count t k.
Proof.
  intros Hpos. unfold dt_remove. unfold dt_count in Hpos.
  destruct (dt_get t (zobrist_key s)) as [v|] eqn:G; [|lia].
  destruct (N.eqb_spec k (zobrist_key s)) as [E|E].
  - subst k. rewrite dt_count_insert_same. unfold dt_count. now rewrite G.
  - now apply dt_count_insert_other.
Qed.

Lemma dt_remove_equiv t t' s : dt_equiv t t' -> 0 < dt_count t (zobrist_key s) ->
  dt_equiv (dt_remove t s) (dt_remove t' s).
Proof.
  intros H Hp k. rewrite !dt_count_remove; rewrite <- ?H; try assumption. now rewrite H.
Qed.

(* ---- counts after play_moves: every position of the replayed game is counted once per occurrence *)
Section Replay.
Variable zt : ztable.

(* the boards visited by play_moves, in order (the start board excluded) *)
Fixpoint visited (s : BoardState) (mvs : list str) : res (list BoardState) :=
  match mvs with
  | [] => Ok []
  | mv :: r =>
      match make_move zt s mv with
      | Ok s' => match visited s' r with Ok l => Ok (s' :: l) | Err e => Err e | Panic p => Panic p end
      | Err e => Err e
      | Panic p => Panic p
      end
  end.

Definition occurrences (k : N) (l : list BoardState) : Z :=
  Z.of_nat (length (filter (fun b => (zobrist_key b =? k)%N) l)).

Lemma play_moves_counts mvs : forall s t s' t' l,
  play_moves zt s t mvs = Ok (s', t') -> visited s mvs = Ok l ->
  forall k, dt_count t' k = dt_count t k + occurrences k l.
Proof.
  induction mvs as [|mv r IH]; intros s t s' t' l HP HV k; cbn [play_moves visited] in *.
  - inversion HP; inversion HV; subst. unfold occurrences; cbn. lia.
  - destruct (make_move zt s mv) as [s1| |] eqn:M; cbn [res_bind] in HP; try discriminate.
    destruct (visited s1 r) as [l1| |] eqn:V1; try discriminate. inversion HV; subst l.
    rewrite (IH _ _ _ _ _ HP V1 k). rewrite dt_count_add.
    unfold occurrences. cbn [filter]. rewrite (N.eqb_sym k).
    destruct (zobrist_key s1 =? k)%N; cbn [length]; lia.
Qed.

End Replay.
