(* C11, first sentence, for the whole search and every deadline: once an iteration has ended holding a mating move,
   every later iteration searches that move first, reports MATE - 1 for it and accepts nothing else, so the newest move
   handed over - the one that is played - mates, wherever the clock expires.
   (This is what the repair of F14 establishes: the root recognises last iteration's best move by its squares and its
   promotion piece.) *)
From Walleye Require Import Model.Search Spec.Abs Spec.Minimax Proofs.DrawTableProofs Proofs.TableRestored Proofs.AlphaBeta
  Proofs.EvalProofs Proofs.RootProofs Proofs.RootSim Proofs.PVS Proofs.OhCongruence Proofs.PVSRoot Proofs.ClockSim
  Proofs.MateInOne Proofs.TightRange Proofs.AlwaysAnswered Proofs.OhBound Proofs.NoDupMoves Proofs.GenerateAbs.
From Walleye Require Import Model.Uci.
From Coq Require Import Lia Permutation.
Open Scope Z_scope.

Local Notation M := MATE_SCORE.

(* the newest move handed over (events are kept newest first) *)
Fixpoint newest_send (evs : list event) : option BoardState :=
  match evs with
  | [] => None
  | Send b :: _ => Some b
  | Info _ _ _ :: t => newest_send t
  end.

Section S.
Variable zt : ztable.
Variable osort : N -> list BoardState -> list BoardState.
Variable k : option N.
Variable fuel : nat.
Hypothesis Hfuel : 1 <= PLYMAX - NULL_PLY_OFFSET * Z.of_nat fuel.

Local Notation mated := (mated zt).

Lemma mated_same a b : same_move a b -> mated a -> mated b.
Proof.
  intros S [G C]. split.
  - pose proof (generate_moves_same zt a b AllMoves S) as F. rewrite G in F. inversion F. reflexivity.
  - rewrite <- (same_check a b S). exact C.
Qed.

(* a node in which the side to move is mated (and which is no repetition) is worth -(MATE - 1) at ply 1, at every depth *)
Lemma mated_node mov d be n s v s1 :
  mated mov -> is_threefold_repetition (table s) mov = false -> - (M - 1) < be ->
  alpha_beta zt osort None fuel mov d 1 (- POS_INF) be n s = Ok (v, s1) -> v = - (M - 1).
Proof.
  intros [G C] R Hbe H. destruct fuel as [|f]; [discriminate H|]. cbn [alpha_beta] in H.
  unfold out_of_time in H. cbn match in H.
  set (s2 := with_maxply _ _) in H.
  assert (T : table s2 = table s) by reflexivity. rewrite T, R in H.
  unfold ab_body in H. rewrite C in H. cbn [negb] in H. rewrite !andb_false_r in H.
  destruct (Z.min be (M - 1) <=? Z.max (- POS_INF) (- M + 1)) eqn:W.
  { apply Z.leb_le in W. unfold POS_INF, MATE_SCORE in *. lia. }
  unfold ab_moves in H. rewrite G, C in H. unfold leave in H. assert (v = - (M - 1)) by congruence. exact H0.
Qed.

(* with the bound at MATE - 1 nothing more is accepted *)
Lemma root_moves_capped first : forall ms d r o r2,
  r_best r <> None -> root_moves zt osort k fuel first ms d (M - 1) r = Ok (o, r2) ->
  r_events r2 = r_events r /\ r_best r2 = r_best r.
Proof.
  induction ms as [|mov rest IH]; intros d r o r2 B H; cbn [root_moves] in H.
  - assert (r2 = r) by congruence. subst. split; reflexivity.
  - destruct (out_of_time k (r_s r)) as [expired s] eqn:E. destruct expired.
    + assert (r2 = mkR s (r_best r) (match r_best r with None => Send first :: r_events r | Some _ => r_events r end)) by congruence. subst r2.
      cbn [r_events r_best]. destruct (r_best r); [split; reflexivity|contradiction].
    + destruct (alpha_beta zt osort k fuel mov (d - 1) 1 (- POS_INF) (- (M - 1)) true s) as [[v s1]| |] eqn:AB; try discriminate H.
      destruct (insert_into_cur_line s1 0 mov) as [s2| |] eqn:I2; try discriminate H.
      pose proof (insert_cur_clock _ _ _ _ I2) as C2.
      destruct (M - 1 <? - v) eqn:Lt.
      * destruct (out_of_time k s2) as [expired2 s3] eqn:E2. destruct expired2; cbn [negb] in H.
        -- apply (IH d (mkR s3 (r_best r) (r_events r)) o r2 B H).
        -- exfalso. assert (F : fst (out_of_time k s2) = false) by (rewrite E2; reflexivity).
           pose proof (accepted_value_is_untainted zt osort k fuel mov (d - 1) 1 (- POS_INF) (- (M - 1)) true s v s1 s2 AB C2 F) as U.
           assert (W : - POS_INF < - (M - 1)) by (unfold POS_INF, MATE_SCORE; lia).
           pose proof (alpha_beta_tight zt osort eval_bound eval_abs0 eval_room fuel mov (d - 1) 1 (- POS_INF) (- (M - 1)) true s v s1 ltac:(lia) W U) as T.
           unfold tight in T. apply Z.ltb_lt in Lt. unfold POS_INF, MATE_SCORE in *. lia.
      * apply (IH d (mkR s2 (r_best r) (r_events r)) o r2 B H).
Qed.

(* once the clock has expired nothing more is accepted either *)
Lemma root_moves_expired_keeps first : forall ms d alpha r o r2,
  expd k (r_s r) -> r_best r <> None -> root_moves zt osort k fuel first ms d alpha r = Ok (o, r2) ->
  r_events r2 = r_events r /\ r_best r2 = r_best r.
Proof.
  intros ms d alpha r o r2 Ex B H. destruct ms as [|mov rest]; cbn [root_moves] in H.
  - assert (r2 = r) by congruence. subst. split; reflexivity.
  - destruct (out_of_time k (r_s r)) as [e s] eqn:OT. unfold expd in Ex. rewrite OT in Ex. cbn [fst] in Ex. subst e.
    assert (r2 = mkR s (r_best r) (match r_best r with None => Send first :: r_events r | Some _ => r_events r end)) by congruence. subst r2.
    cbn [r_events r_best]. destruct (r_best r); [split; reflexivity|contradiction].
Qed.

Variable b : BoardState.
Local Notation gen := (generate_moves zt b AllMoves).

(* the search holds a mating root move, and the newest move it has handed over mates *)
Definition holds (r : root_state) : Prop :=
  (exists m y, r_best r = Some m /\ In y gen /\ same_move m y /\ mated m)
  /\ (exists m, newest_send (r_events r) = Some m /\ mated m).

Lemma holds_same r r' : r_events r' = r_events r -> r_best r' = r_best r -> holds r -> holds r'.
Proof. unfold holds. intros -> ->. auto. Qed.

(* an iteration whose first move is a mating move keeps the invariant, wherever the clock expires *)
Lemma root_moves_mate_first first mov rest d r o r2 :
  mated mov -> (exists y, In y gen /\ same_move mov y) ->
  is_threefold_repetition (table (r_s r)) mov = false -> holds r ->
  root_moves zt osort k fuel first (mov :: rest) d NEG_INF r = Ok (o, r2) -> holds r2.
Proof.
  intros Mm (y & Hy & Sy) R Hh H. cbn [root_moves] in H.
  assert (B : r_best r <> None) by (destruct Hh as [(m & y' & Bm & _) _]; rewrite Bm; discriminate).
  destruct (out_of_time k (r_s r)) as [expired s] eqn:E.
  assert (Ts : table s = table (r_s r)) by (change s with (snd (expired, s)); rewrite <- E; apply out_of_time_table).
  destruct expired.
  - assert (r2 = mkR s (r_best r) (match r_best r with None => Send first :: r_events r | Some _ => r_events r end)) by congruence. subst r2.
    apply (holds_same r); [|reflexivity|exact Hh]. cbn [r_events]. destruct (r_best r); [reflexivity|contradiction].
  - destruct (alpha_beta zt osort k fuel mov (d - 1) 1 (- POS_INF) (- NEG_INF) true s) as [[v s1]| |] eqn:AB; try discriminate H.
    destruct (insert_into_cur_line s1 0 mov) as [s2| |] eqn:I2; try discriminate H.
    pose proof (insert_cur_clock _ _ _ _ I2) as C2.
    destruct (out_of_time k s2) as [e2 s3] eqn:E2. destruct e2.
    + (* the clock has expired: nothing is accepted any more *)
      assert (X2 : expd k s2) by (unfold expd; rewrite E2; reflexivity).
      assert (X3 : expd k s3).
      { apply (expd_mono k fuel s2); [exact X2|]. change s3 with (snd (true, s3)). rewrite <- E2. cbn [out_of_time snd clock with_clock]. lia. }
      destruct (NEG_INF <? - v); cbn [negb] in H.
      * destruct (root_moves_expired_keeps first rest d NEG_INF (mkR s3 (r_best r) (r_events r)) o r2 X3 B H) as [Ev Bs].
        apply (holds_same r); assumption.
      * destruct (root_moves_expired_keeps first rest d NEG_INF (mkR s2 (r_best r) (r_events r)) o r2 X2 B H) as [Ev Bs].
        apply (holds_same r); assumption.
    + assert (F : fst (out_of_time k s2) = false) by (rewrite E2; reflexivity).
      pose proof (accepted_value_is_untainted zt osort k fuel mov (d - 1) 1 (- POS_INF) (- NEG_INF) true s v s1 s2 AB C2 F) as U.
      assert (V : v = - (M - 1)).
      { apply (mated_node mov (d - 1) (- NEG_INF) true s v s1 Mm); [rewrite Ts; exact R| |exact U]. unfold NEG_INF, POS_INF, MATE_SCORE. lia. }
      subst v. replace (- - (M - 1)) with (M - 1) in H by lia.
      assert (Lt : (NEG_INF <? M - 1) = true) by reflexivity. rewrite Lt in H. cbn [negb] in H.
      apply root_moves_capped in H; [|cbn [r_best]; discriminate]. destruct H as [Ev Bs]. cbn [r_events r_best] in Ev, Bs.
      split.
      * exists mov, y. rewrite Bs. auto.
      * exists mov. rewrite Ev. cbn [newest_send]. auto.
Qed.

(* ---- the first move of the next iteration is the marked one *)
Hypothesis osort_perm : forall i l, Permutation l (osort i l).
Hypothesis osort_sorted : forall i l, sorted_desc (osort i l) = true.
Hypothesis root_oh : order_heuristic b < POS_INF.
Hypothesis gen_nodup : NoDup (map desc gen).

Lemma opt_mv2_eqb_eq x y : opt_mv2_eqb x y = true -> x = y.
Proof.
  destruct x as [[a1 a2]|], y as [[b1 b2]|]; cbn; try discriminate; [|reflexivity]. unfold mv2_eqb. cbn [fst snd].
  destruct (point_eqb_spec a1 b1); [|discriminate]. destruct (point_eqb_spec a2 b2); [|discriminate]. intros _. congruence.
Qed.
Lemma opt_mv2_eqb_refl x : opt_mv2_eqb x x = true.
Proof. destruct x as [[a1 a2]|]; [|reflexivity]. cbn. unfold mv2_eqb. cbn [fst snd]. now rewrite !point_eqb_refl. Qed.
Lemma opt_piece_eqb_eq x y : opt_piece_eqb x y = true -> x = y.
Proof. destruct x as [p|], y as [q|]; cbn; try discriminate; [|reflexivity]. destruct (piece_eqb_spec p q); [congruence|discriminate]. Qed.
Lemma opt_piece_eqb_refl x : opt_piece_eqb x x = true.
Proof. destruct x as [p|]; [|reflexivity]. cbn. apply piece_eqb_refl. Qed.

Lemma is_pv_of_desc m x : is_pv_of m x = true -> desc x = desc m.
Proof.
  unfold is_pv_of. intros H. apply andb_prop in H. destruct H as [H1 H2].
  apply opt_mv2_eqb_eq in H1. apply opt_piece_eqb_eq in H2. unfold desc. rewrite H1, H2. reflexivity.
Qed.
Lemma is_pv_of_same m y : same_move m y -> is_pv_of m y = true.
Proof.
  intros S. destruct (same_move_fields m y S) as (_ & _ & L & P & _). unfold is_pv_of. rewrite L, P, opt_mv2_eqb_refl, opt_piece_eqb_refl. reflexivity.
Qed.
Lemma same_desc m y : same_move m y -> desc m = desc y.
Proof. intros S. destruct (same_move_fields m y S) as (_ & _ & L & P & _). unfold desc. rewrite L, P. reflexivity. Qed.

Lemma NoDup_map_inj {A B} (f : A -> B) (l : list A) x y : NoDup (map f l) -> In x l -> In y l -> f x = f y -> x = y.
Proof.
  induction l as [|a t IH]; intros ND Hx Hy E; [contradiction|]. cbn [map] in ND. inversion ND as [|? ? Na Nt]; subst.
  destruct Hx as [<-|Hx], Hy as [<-|Hy]; [reflexivity| | |now apply IH].
  - exfalso. apply Na. rewrite E. now apply in_map.
  - exfalso. apply Na. rewrite <- E. now apply in_map.
Qed.

Lemma mark_pv_spec m : forall l, (exists y, In y l /\ is_pv_of m y = true) -> (forall z, In z l -> order_heuristic z < POS_INF) ->
  exists x, In x l /\ is_pv_of m x = true /\ In (with_oh x POS_INF) (mark_pv (Some m) l)
            /\ forall z, In z (mark_pv (Some m) l) -> z = with_oh x POS_INF \/ order_heuristic z < POS_INF.
Proof.
  unfold mark_pv. induction l as [|a t IH]; intros (y & Hy & Py) Hb; [contradiction|].
  destruct (is_pv_of m a) eqn:Pa.
  - exists a. split; [now left|]. split; [exact Pa|]. split; [now left|]. intros z [<-|Hz]; [now left|]. right. apply Hb. now right.
  - destruct Hy as [<-|Hy]; [congruence|]. destruct (IH (ex_intro _ y (conj Hy Py)) (fun z Hz => Hb z (or_intror Hz))) as (x & Hx & Px & Ix & All).
    exists x. split; [now right|]. split; [exact Px|]. split; [now right|]. intros z [<-|Hz]; [right; apply Hb; now left|]. now apply All.
Qed.

Lemma sorted_desc_head a l : sorted_desc (a :: l) = true -> forall z, In z (a :: l) -> order_heuristic z <= order_heuristic a.
Proof.
  revert a. induction l as [|c t IH]; intros a H z [<-|Hz]; try lia; [contradiction|].
  cbn [sorted_desc] in H. apply andb_prop in H. destruct H as [H1 H2]. apply Z.leb_le in H1.
  pose proof (IH c H2 z Hz). lia.
Qed.

Lemma threefold_same t x y : same_move x y -> is_threefold_repetition t x = is_threefold_repetition t y.
Proof. intros S. unfold is_threefold_repetition. rewrite (same_key x y S). reflexivity. Qed.

(* the head of the next iteration's list *)
Lemma marked_head m i first tl :
  (exists y, In y gen /\ same_move m y) -> mated m ->
  osort i (mark_pv (Some m) gen) = first :: tl ->
  mated first /\ exists x, In x gen /\ same_move first x.
Proof.
  intros (y & Hy & Sy) Mm E.
  destruct (mark_pv_spec m gen (ex_intro _ y (conj Hy (is_pv_of_same m y Sy))) (fun z Hz => generated_oh_below_mark zt b AllMoves z root_oh Hz))
    as (x & Hx & Px & Ix & All).
  assert (x = y).
  { apply (NoDup_map_inj desc gen x y gen_nodup Hx Hy). rewrite (is_pv_of_desc m x Px). apply same_desc. exact Sy. }
  subst x.
  assert (first = with_oh y POS_INF).
  { pose proof (osort_perm i (mark_pv (Some m) gen)) as P. rewrite E in P.
    assert (In (with_oh y POS_INF) (first :: tl)) as Hin by (eapply Permutation_in; [exact P|exact Ix]).
    pose proof (sorted_desc_head first tl ltac:(rewrite <- E; apply osort_sorted) _ Hin) as Le. rewrite oh_with_oh in Le.
    assert (In first (mark_pv (Some m) gen)) as Hf by (eapply Permutation_in; [apply Permutation_sym; exact P|now left]).
    destruct (All first Hf) as [->|Lt]; [reflexivity|lia]. }
  subst first. split.
  - apply (mated_same y); [apply same_move_sym, same_move_with_oh|]. apply (mated_same m); assumption.
  - exists y. split; [exact Hy|apply same_move_with_oh].
Qed.

(* ---- every later iteration keeps the invariant *)
Variable t : dtable.
Hypothesis t_nonneg : dt_nonneg t.
Hypothesis mates_are_new : forall y, In y gen -> mated y -> is_threefold_repetition t y = false.

Lemma root_depths_hold : forall iters d r r',
  holds r -> dt_equiv (table (r_s r)) t ->
  root_depths zt osort k iters fuel b (mark_pv (r_best r) gen) d r = Ok r' -> holds r'.
Proof.
  induction iters as [|it IH]; intros d r r' Hh Tr H; cbn [root_depths] in H.
  - assert (r' = r) by congruence. subst. exact Hh.
  - destruct (MAX_DEPTH <=? d); [assert (r' = r) by congruence; subst; exact Hh|].
    destruct Hh as [(m & y & Bm & Hy & Sy & Mm) NS]. rewrite Bm in H.
    destruct (do_sort osort (mark_pv (Some m) gen) (reset_search (r_s r))) as [sorted s] eqn:DS.
    assert (Es : sorted = osort (sorts (reset_search (r_s r))) (mark_pv (Some m) gen)) by (unfold do_sort in DS; congruence).
    assert (Ts : table s = table (r_s r)).
    { change s with (snd (sorted, s)). rewrite <- DS. rewrite do_sort_table. reflexivity. }
    assert (Hr : holds (mkR s (Some m) (r_events r))).
    { split; [exists m, y; auto|exact NS]. }
    destruct sorted as [|first rest].
    + exfalso. pose proof (osort_perm (sorts (reset_search (r_s r))) (mark_pv (Some m) gen)) as P. rewrite <- Es in P.
      apply Permutation_sym, Permutation_nil in P.
      destruct (mark_pv_spec m gen (ex_intro _ y (conj Hy (is_pv_of_same m y Sy))) (fun z Hz => generated_oh_below_mark zt b AllMoves z root_oh Hz))
        as (x & _ & _ & Ix & _). rewrite P in Ix. contradiction.
    + destruct (marked_head m _ first rest (ex_intro _ y (conj Hy Sy)) Mm (eq_sym Es)) as [Mf (x & Hx & Sx)].
      destruct (root_moves zt osort k fuel first (first :: rest) d NEG_INF (mkR s (Some m) (r_events r))) as [[o r3]| |] eqn:RM; try discriminate H.
      assert (H3 : holds r3).
      { eapply (root_moves_mate_first first first rest d (mkR s (Some m) (r_events r)) o r3 Mf); [exists x; auto| |exact Hr|exact RM].
        cbn [r_s]. rewrite Ts, (threefold_equiv _ t first Tr), (threefold_same t first x Sx). apply mates_are_new; [exact Hx|]. now apply (mated_same first). }
      destruct (root_moves_restores zt osort k fuel first (first :: rest) d NEG_INF (mkR s (Some m) (r_events r)) o r3 t t_nonneg
                  ltac:(cbn [r_s]; rewrite Ts; exact Tr) RM) as [T3 _].
      destruct (root_moves_grow zt osort _ _ _ _ _ _ _ _ _ RM) as [_ Ho].
      destruct o as [r''|].
      * rewrite (Ho r'' eq_refl) in H. eapply IH; [exact H3|exact T3|exact H].
      * assert (r' = r3) by congruence. subst. exact H3.
Qed.

(* ---- the whole search: the first iteration, then the rest *)
Definition first_iteration : res (option root_state * root_state) :=
  let '(l, s1) := do_sort osort gen (reset_search (new_search t)) in
  match l with
  | [] => Ok (None, mkR s1 None [])
  | first :: _ => root_moves zt osort k fuel first l 1 NEG_INF (mkR s1 None [])
  end.

Theorem mate_in_one_is_played_at_every_deadline F ws m1 r1 ev s :
  1 + Z.of_nat F <= 100 -> Forall2 (rval zt F 1 t) gen ws ->
  In m1 gen -> mated m1 ->
  first_iteration = Ok (Some r1, r1) -> quiet k (r_s r1) ->
  get_best_move zt osort k fuel b t = Ok (ev, s) ->
  exists m, newest_send (rev ev) = Some m /\ mated m.
Proof.
  intros HF HFv Hm1 Mm1 FI Q H. unfold get_best_move in H.
  destruct (root_depths zt osort k (Z.to_nat MAX_DEPTH) fuel b gen 1 (mkR (new_search t) None [])) as [r| |] eqn:RD; try discriminate H.
  assert (ev = rev (r_events r)) by congruence. subst ev. rewrite rev_involutive.
  assert (exists n, Z.to_nat MAX_DEPTH = S n) as [it Eit] by (exists 99%nat; vm_compute; reflexivity).
  rewrite Eit in RD. clear Eit. cbn [root_depths] in RD.
  change (MAX_DEPTH <=? 1) with false in RD. cbn [r_s r_best r_events] in RD.
  unfold first_iteration in FI.
  destruct (do_sort osort gen (reset_search (new_search t))) as [sorted s1] eqn:DS.
  assert (Es : sorted = osort (sorts (reset_search (new_search t))) gen) by (unfold do_sort in DS; congruence).
  assert (Ts : table s1 = t).
  { change s1 with (snd (sorted, s1)). rewrite <- DS. rewrite do_sort_table. reflexivity. }
  destruct sorted as [|first rest]; [discriminate FI|]. rewrite FI in RD.
  assert (P : Permutation gen (first :: rest)) by (rewrite Es; apply osort_perm).
  destruct (mate_in_one_is_played zt osort osort_perm k fuel F first t 1 b gen (first :: rest) ws (mkR s1 None []) (Some r1) r1 m1
              ltac:(lia) HF t_nonneg (Forall2_same_refl gen) P HFv Hm1 Mm1 (mates_are_new m1 Hm1 Mm1)
              ltac:(cbn [r_s]; rewrite Ts; apply dt_equiv_refl) FI Q)
    as (r' & mov & line & evs & Ho & Ev & Bs & Hin & Mmov).
  assert (r' = r1) by congruence. subst r'.
  assert (H1 : holds r1).
  { split.
    - exists mov, mov. split; [exact Bs|]. split; [eapply Permutation_in; [apply Permutation_sym; exact P|exact Hin]|]. split; [apply same_move_refl|exact Mmov].
    - exists mov. rewrite Ev. cbn [newest_send]. auto. }
  destruct (root_moves_restores zt osort k fuel first (first :: rest) 1 NEG_INF (mkR s1 None []) (Some r1) r1 t t_nonneg
              ltac:(cbn [r_s]; rewrite Ts; apply dt_equiv_refl) FI) as [T1 _].
  destruct (root_depths_hold it (1 + 1) r1 r H1 T1 RD) as [_ NS]. exact NS.
Qed.

End S.

(* the newest send is the last of the moves handed over, which is the move the session plays (go_plays_the_newest_send) *)
Lemma newest_send_last : forall l m, newest_send l = Some m -> exists more, sends_of (rev l) = more ++ [m].
Proof.
  induction l as [|e l IH]; intros m H; [discriminate H|]. cbn [rev]. unfold sends_of in *. rewrite flat_map_app. cbn [flat_map].
  destruct e as [b0|d ev line].
  - cbn [newest_send] in H. assert (b0 = m) by congruence. subst. eexists. rewrite app_nil_r. reflexivity.
  - cbn [newest_send] in H. destruct (IH m H) as [more E]. exists more. rewrite E, !app_nil_r. reflexivity.
Qed.

Theorem mate_in_one_is_played_whatever_the_deadline zt osort :
  (forall i l, Permutation l (osort i l)) -> (forall i l, sorted_desc (osort i l) = true) ->
  forall k fuel b t F ws m1 r1 ev s,
  1 <= PLYMAX - NULL_PLY_OFFSET * Z.of_nat fuel ->
  pos_ok b AllMoves -> order_heuristic b < POS_INF -> dt_nonneg t ->
  (forall y, In y (generate_moves zt b AllMoves) -> mated zt y -> is_threefold_repetition t y = false) ->
  1 + Z.of_nat F <= 100 -> Forall2 (fun m x => negamax zt F m (1 - 1) 1 t = Some x) (generate_moves zt b AllMoves) ws ->
  In m1 (generate_moves zt b AllMoves) -> mated zt m1 ->
  first_iteration zt osort k fuel b t = Ok (Some r1, r1) -> quiet k (r_s r1) ->
  get_best_move zt osort k fuel b t = Ok (ev, s) ->
  exists more m, sends_of ev = more ++ [m] /\ mated zt m.
Proof.
  intros Pm Sm k fuel b t F ws m1 r1 ev s Hfuel PO Oh NN New HF HFv Hm1 Mm1 FI Q H.
  destruct (mate_in_one_is_played_at_every_deadline zt osort k fuel Hfuel b Pm Sm Oh (generated_moves_NoDup zt b PO) t NN New
              F ws m1 r1 ev s HF HFv Hm1 Mm1 FI Q H) as (m & Hn & Mm).
  destruct (newest_send_last (rev ev) m Hn) as [more E]. rewrite rev_involutive in E. exists more, m. split; assumption.
Qed.

(* ---- through the session: after `go` the engine's board is the position after a mating move, and that move is printed *)
Theorem go_plays_the_mate zt osort :
  (forall i l, Permutation l (osort i l)) -> (forall i l, sorted_desc (osort i l) = true) ->
  forall st cmds sc gt st' outs F ws m1 r1,
  1 <= PLYMAX - NULL_PLY_OFFSET * Z.of_nat (sc_fuel sc) ->
  parse_go_command cmds = Ok gt -> go_step zt osort st cmds sc = (st', outs) -> ss_phase st' = Running ->
  pos_ok (ss_board st) AllMoves -> order_heuristic (ss_board st) < POS_INF -> dt_nonneg (ss_table st) ->
  (forall y, In y (generate_moves zt (ss_board st) AllMoves) -> mated zt y -> is_threefold_repetition (ss_table st) y = false) ->
  1 + Z.of_nat F <= 100 ->
  Forall2 (fun m x => negamax zt F m (1 - 1) 1 (ss_table st) = Some x) (generate_moves zt (ss_board st) AllMoves) ws ->
  In m1 (generate_moves zt (ss_board st) AllMoves) -> mated zt m1 ->
  first_iteration zt osort (sc_k sc) (sc_fuel sc) (ss_board st) (ss_table st) = Ok (Some r1, r1) -> quiet (sc_k sc) (r_s r1) ->
  mated zt (ss_board st') /\ exists t infos, best_move_text (ss_board st') = Ok t /\ outs = infos ++ [s_bestmove ++ t].
Proof.
  intros Pm Sm st cmds sc gt st' outs F ws m1 r1 Hfuel PG GS RU PO Oh NN New HF HFv Hm1 Mm1 FI Q.
  assert (NE : forall i l, l <> [] -> osort i l <> []).
  { intros i l Hl E. pose proof (Pm i l) as P. rewrite E in P. apply Permutation_sym, Permutation_nil in P. contradiction. }
  assert (NG : generate_moves zt (ss_board st) AllMoves <> []) by (intros E; rewrite E in Hm1; contradiction).
  assert (HF2 : NULL_PLY_OFFSET * Z.of_nat (sc_fuel sc) + 1 <= 2 * M) by (unfold PLYMAX, NULL_PLY_OFFSET, MATE_SCORE in *; lia).
  destruct (go_plays_the_newest_send zt osort NE st cmds sc gt st' outs HF2 PG NG GS RU) as (ev & s & b & t & more & GB & SE & BT & SB & OU).
  destruct (mate_in_one_is_played_whatever_the_deadline zt osort Pm Sm (sc_k sc) (sc_fuel sc) (ss_board st) (ss_table st) F ws m1 r1 ev s
              Hfuel PO Oh NN New HF HFv Hm1 Mm1 FI Q GB) as (more' & m & SE' & Mm).
  rewrite SE in SE'. apply app_inj_tail in SE'. destruct SE' as [_ <-].
  rewrite SB. split; [exact Mm|]. exists t, (infos_of ev). split; assumption.
Qed.
