(* C01/C05/C15: a legal position, handed to the engine as its FEN, is loaded into a state that
   denotes it and satisfies every hypothesis of the move-generation, replay and key theorems. *)
From Walleye Require Import Model.Fen Spec.FenPrint Spec.Abs Proofs.FenRoundTrip Proofs.FenAccept Proofs.HashProofs Proofs.CheckProofs
  Proofs.LegalMoves Proofs.LegalPosition.
From Coq Require Import Lia.
Open Scope Z_scope.

Lemma legal_position_counts p : legal_position p = true ->
  length (pos_pl p) = 64%nat /\ count_piece (pos_pl p) (mkPiece White King) = 1%nat /\
  count_piece (pos_pl p) (mkPiece Black King) = 1%nat /\ ep_wf (pos_ep p).
Proof.
  unfold legal_position. intros LP.
  apply andb_true_iff in LP. destruct LP as [LP EPs]. apply andb_true_iff in LP. destruct LP as [LP _].
  apply andb_true_iff in LP. destruct LP as [LP _]. apply andb_true_iff in LP. destruct LP as [LP _].
  apply andb_true_iff in LP. destruct LP as [LP _]. apply andb_true_iff in LP. destruct LP as [LP _].
  apply andb_true_iff in LP. destruct LP as [LP _]. apply andb_true_iff in LP. destruct LP as [LP CB].
  apply andb_true_iff in LP. destruct LP as [L CW]. apply Nat.eqb_eq in L, CW, CB.
  split; [exact L|]. split; [exact CW|]. split; [exact CB|].
  unfold ep_ok in EPs. unfold ep_wf. destruct (pos_ep p) as [[f r]|]; [|exact I].
  apply andb_true_iff in EPs. destruct EPs as [_ On]. unfold on8 in On. cbn [fst snd] in On.
  rewrite !andb_true_iff, !Z.leb_le, !Z.ltb_lt in On. lia.
Qed.

Theorem legal_fen_is_loaded zt p h f :
  legal_position p = true -> 0 <= h < 2 ^ FEN_HALFMOVE_BITS -> 0 <= f < 2 ^ FEN_FULLMOVE_BITS ->
  exists s, from_fen zt (print_fen p h f) = Ok s /\ abs s = p /\ pos_ok1 s /\ key_ok zt s /\
            order_heuristic s = 0 /\ last_move s = None /\ pawn_promotion s = None.
Proof.
  intros LP Hh Hf. destruct (legal_position_counts p LP) as (L & CW & CB & He).
  exists (loaded_state zt p). split; [now apply from_fen_print|].
  pose proof (loaded_state_abs zt p L He) as A. split; [exact A|]. split.
  - apply legal_position_pos_ok1; [apply loaded_state_cells|now apply loaded_state_kings|now rewrite A].
  - split; [now apply loaded_state_key|]. repeat split; reflexivity.
Qed.

(* the same for every string the loader accepts, printed by the specification or not *)
Theorem accepted_legal_is_covered zt s st :
  from_fen zt s = Ok st -> legal_position (abs st) = true ->
  pos_ok1 st /\ key_ok zt st /\ order_heuristic st = 0 /\ last_move st = None /\ pawn_promotion st = None.
Proof.
  intros H LP. destruct (accepted_is_loaded zt s st H) as (p & -> & L & E).
  pose proof (loaded_state_abs zt p L E) as A. rewrite A in LP.
  destruct (legal_position_counts p LP) as (_ & CW & CB & _). split.
  - apply legal_position_pos_ok1; [apply loaded_state_cells|now apply loaded_state_kings|now rewrite A].
  - split; [now apply loaded_state_key|]. repeat split; reflexivity.
Qed.

(* the accepted state is a function of the position it denotes: two accepted strings that denote
   the same position give the same state, key included *)
Theorem accepted_state_determined zt s st s' st' :
  from_fen zt s = Ok st -> from_fen zt s' = Ok st' -> abs st = abs st' -> st = st'.
Proof.
  intros H H' A. destruct (accepted_is_loaded zt s st H) as (p & -> & L & E).
  destruct (accepted_is_loaded zt s' st' H') as (p' & -> & L' & E').
  rewrite (loaded_state_abs zt p L E), (loaded_state_abs zt p' L' E') in A. now subst p'.
Qed.
