(* Unconditional corollaries: every game from the initial position. *)
From Walleye Require Import Model.Successor Model.TextMove Model.Fen Spec.Abs Proofs.HashProofs Proofs.GenerateAbs Proofs.LegalMoves
  Proofs.NoDupMoves Proofs.Preservation Proofs.CaptureMode Proofs.MakeMove Proofs.MakeMoveSame Gen.ZobristTable.
Open Scope Z_scope.

(* the initial position as the engine's own loader builds it (with the running engine's table) *)
Definition initial_state : BoardState :=
  match from_fen zt_concrete DEFAULT_FEN_STRING with Ok s => s | _ => mkBoard [] White None (0, 0) (0, 0) false false false false 0 None None 0 end.

Lemma initial_state_loaded : from_fen zt_concrete DEFAULT_FEN_STRING = Ok initial_state.
Proof. vm_compute. reflexivity. Qed.

Lemma initial_state_ok : pos_ok1 initial_state /\ key_ok zt_concrete initial_state.
Proof.
  split.
  - apply pos_ok1b_ok. vm_compute. reflexivity.
  - unfold key_ok. vm_compute. reflexivity.
Qed.

(* C01 / C13 / C02 for every position of every game: any chain of generated moves from the initial position *)
Theorem every_game_position_is_covered zt x :
  reachable zt initial_state x ->
  (forall mv, In (Some mv) (map desc (generate_moves zt x AllMoves)) <-> In mv (legal_moves (abs x))) /\
  NoDup (map desc (generate_moves zt x AllMoves)) /\
  (forall mv, In (Some mv) (map desc (generate_moves zt x CapturesOnly)) <-> In mv (legal_captures (abs x))) /\
  (forall y, In y (generate_moves zt x AllMoves) -> exists mv, desc y = Some mv /\ abs y = apply (abs x) mv).
Proof.
  intros R. pose proof (reachable_pos_ok1 zt initial_state x (proj1 initial_state_ok) R) as PO.
  destruct (capture_moves_exact zt x PO) as [C _].
  split; [|split; [|split]].
  - intros mv. split.
    + intros H. apply in_map_iff in H. destruct H as [y [Hd Hy]].
      destruct (generated_moves_are_legal zt x y (proj1 PO) Hy) as [mv' [Hd' Hl]]. congruence.
    + intros H. destruct (legal_moves_are_generated zt x mv PO H) as [y [Hy Hd]]. apply in_map_iff. exists y. auto.
  - apply generated_moves_NoDup. exact (proj1 PO).
  - exact C.
  - intros y Hy. exact (generate_moves_abs zt x AllMoves y (proj1 PO) Hy).
Qed.

(* C04 / C05 for `position startpos moves ...`: any list of moves, each legal where it is played *)
Theorem startpos_moves_are_replayed mvs t :
  legal_chain (abs initial_state) mvs ->
  exists s' t', play_moves zt_concrete initial_state t (map text_of_move mvs) = Ok (s', t') /\
                abs s' = fold_left apply mvs (abs initial_state) /\ pos_ok1 s' /\ key_ok zt_concrete s'.
Proof.
  intros LC. destruct (position_moves_chain zt_concrete mvs initial_state t (proj1 initial_state_ok) LC) as (s' & t' & H & A & P & K).
  exists s', t'. split; [exact H|]. split; [exact A|]. split; [exact P|]. apply K. exact (proj2 initial_state_ok).
Qed.
