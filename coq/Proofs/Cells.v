(* Reading and writing the 144-cell mailbox. *)
From Walleye Require Import Model.Board.
Open Scope Z_scope.

Lemma set_nth_length {A} (l : list A) n v : length (set_nth n v l) = length l.
Proof. revert n; induction l as [|x t IH]; intros [|n]; cbn; auto. Qed.

Lemma nth_set_nth_same {A} (l : list A) n v d : (n < length l)%nat -> nth n (set_nth n v l) d = v.
Proof. revert n; induction l as [|x t IH]; intros [|n] H; cbn in *; try lia; auto. apply IH. lia. Qed.

Lemma nth_set_nth_other {A} (l : list A) n m v d : n <> m -> nth m (set_nth n v l) d = nth m l d.
Proof.
  revert n m; induction l as [|x t IH]; intros [|n] [|m] H; cbn; auto; try congruence.
Qed.

Lemma in_grid_spec p : in_grid p = true <-> 0 <= fst p < 12 /\ 0 <= snd p < 12.
Proof.
  unfold in_grid. rewrite !andb_true_iff, !Z.leb_le, !Z.ltb_lt. tauto.
Qed.

Lemma is_inner_spec p : is_inner p = true <-> 2 <= fst p < 10 /\ 2 <= snd p < 10.
Proof.
  unfold is_inner, BOARD_START, BOARD_END. rewrite !andb_true_iff, !Z.leb_le, !Z.ltb_lt. tauto.
Qed.

Lemma is_inner_in_grid p : is_inner p = true -> in_grid p = true.
Proof. rewrite is_inner_spec, in_grid_spec. lia. Qed.

Lemma idx_lt p : in_grid p = true -> (idx p < 144)%nat.
Proof. rewrite in_grid_spec. unfold idx. lia. Qed.

Lemma idx_inj p q : in_grid p = true -> in_grid q = true -> idx p = idx q -> p = q.
Proof.
  rewrite !in_grid_spec. unfold idx. destruct p as [r c], q as [r' c']; cbn [fst snd]. intros H1 H2 H.
  assert (12 * r + c = 12 * r' + c') by lia. f_equal; lia.
Qed.

Lemma set_length b p v : length (set b p v) = length b.
Proof. unfold set. destruct (in_grid p); [apply set_nth_length|reflexivity]. Qed.

Lemma get_set_same b p v : in_grid p = true -> length b = 144%nat -> get (set b p v) p = v.
Proof.
  intros G L. unfold get, set. rewrite G. apply nth_set_nth_same. rewrite L. now apply idx_lt.
Qed.

Lemma get_set_other b p q v : p <> q -> get (set b p v) q = get b q.
Proof.
  intros Hne. unfold get, set. destruct (in_grid q) eqn:Gq; [|reflexivity].
  destruct (in_grid p) eqn:Gp; [|reflexivity].
  apply nth_set_nth_other. intros E. apply Hne. now apply idx_inj.
Qed.

Lemma get_set b p q v : in_grid p = true -> length b = 144%nat ->
  get (set b p v) q = if point_eqb p q then v else get b q.
Proof.
  intros G L. destruct (point_eqb_spec p q) as [<-|Hne]; [now apply get_set_same | now apply get_set_other].
Qed.

Lemma get_out_of_grid b p : in_grid p = false -> get b p = Boundary.
Proof. intros H. unfold get. now rewrite H. Qed.
