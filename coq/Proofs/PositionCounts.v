(* C10, first sentence, for the whole `position` command: the record it builds holds, for every key, the number of
   positions of the described game (start included) with that key, and depends on nothing but the command. *)
From Walleye Require Import Model.TextMove Proofs.DrawTableProofs.
Open Scope Z_scope.

Section S.
Variable zt : ztable.

Lemma last_default {A} (l : list A) : forall a d d', last (a :: l) d = last (a :: l) d'.
Proof. induction l as [|x l IH]; intros a d d'; [reflexivity|]. change (last (a :: x :: l) d) with (last (x :: l) d). change (last (a :: x :: l) d') with (last (x :: l) d'). apply IH. Qed.

Lemma play_moves_visited mvs : forall s t s' t', play_moves zt s t mvs = Ok (s', t') ->
  exists l, visited zt s mvs = Ok l /\ last (s :: l) s = s'.
Proof.
  induction mvs as [|mv r IH]; intros s t s' t' H; cbn [play_moves visited] in *.
  - assert (s' = s) by congruence. subst. exists []. split; reflexivity.
  - destruct (make_move zt s mv) as [s1| |] eqn:Mm; cbn [res_bind] in H; try discriminate H.
    destruct (IH _ _ _ _ H) as (l & V & L). rewrite V. exists (s1 :: l). split; [reflexivity|].
    change (last (s :: s1 :: l) s) with (last (s1 :: l) s). rewrite <- L. apply last_default.
Qed.

(* the board the command starts from: the FEN made of words 2..7, or the default FEN *)
Definition command_start (cmds : list str) : res BoardState :=
  res_bind (nth_res cmds 1 40) (fun c1 =>
    if str_eqb c1 str_fen then
      res_bind (nth_res cmds 7 41) (fun c7 =>
        match from_fen zt (flat_map (fun c => c ++ [32%N]) (firstn 5 (skipn 2 cmds)) ++ c7) with Ok b => Ok b | _ => Panic 42 end)
    else match from_fen zt DEFAULT_FEN_STRING with Ok b => Ok b | _ => Panic 43 end).

Theorem position_command_counts cmds b' t' :
  play_out_position zt cmds = Ok (b', t') ->
  exists b0 l,
    command_start cmds = Ok b0 /\
    visited zt b0 (match after_moves cmds with Some mvs => mvs | None => [] end) = Ok l /\
    last (b0 :: l) b0 = b' /\
    forall k, dt_count t' k = occurrences k (b0 :: l).
Proof.
  unfold play_out_position, command_start. intros H.
  destruct (nth_res cmds 1 40) as [c1| |]; cbn [res_bind] in *; try discriminate H.
  match type of H with res_bind ?X _ = _ => destruct X as [b0| |] eqn:E0 end; cbn [res_bind] in H; try discriminate H.
  exists b0.
  assert (HP : play_moves zt b0 [(zobrist_key b0, 1)] (match after_moves cmds with Some mvs => mvs | None => [] end) = Ok (b', t')).
  { destruct (after_moves cmds); [exact H|]. cbn [play_moves]. exact H. }
  destruct (play_moves_visited _ _ _ _ _ HP) as (l & V & L). exists l.
  split; [reflexivity|]. split; [exact V|]. split; [exact L|].
  intros k. rewrite (play_moves_counts zt _ _ _ _ _ _ HP V k).
  unfold occurrences, dt_count. cbn [filter dt_get]. destruct (zobrist_key b0 =? k)%N; cbn [length]; lia.
Qed.

End S.
