(* C11 end to end on the session model: `position ...` then `go`.  The hypotheses the every-deadline theorem makes about
   the board and the repetition record are established by the position command itself. *)
From Walleye Require Import Model.Search Model.TextMove Model.Uci Spec.Abs Spec.Minimax Proofs.DrawTableProofs Proofs.TableRestored
  Proofs.GenerateAbs Proofs.LegalMoves Proofs.ClockSim Proofs.MateInOne Proofs.TightRange Proofs.PositionGo Proofs.OhPosition Proofs.MateHeld.
From Coq Require Import Lia Permutation.
Open Scope Z_scope.

(* ---- `position ...` then `go`: the hypotheses on the board and on the record are what the position command establishes *)
Lemma play_moves_nonneg zt : forall mvs s t s' t', dt_nonneg t -> play_moves zt s t mvs = Ok (s', t') -> dt_nonneg t'.
Proof.
  induction mvs as [|mv r IH]; intros s t s' t' N H; cbn [play_moves] in H.
  - assert (t' = t) by congruence. subst. exact N.
  - destruct (make_move zt s mv) as [s1| |]; try discriminate H. cbn [res_bind] in H.
    eapply IH; [|exact H]. apply dt_nonneg_add. exact N.
Qed.

Lemma position_command_record_nonneg zt cmds b t : play_out_position zt cmds = Ok (b, t) -> dt_nonneg t.
Proof.
  unfold play_out_position, nth_res. destruct (nth_error cmds 1) as [c1|]; [|discriminate]. cbn [res_bind].
  assert (L : forall b0 b' t', (match after_moves cmds with Some mvs => play_moves zt b0 [(zobrist_key b0, 1)] mvs | None => Ok (b0, [(zobrist_key b0, 1)]) end) = Ok (b', t') -> dt_nonneg t').
  { intros b0 b' t' H.
    assert (N0 : dt_nonneg [(zobrist_key b0, 1)]).
    { intros k. unfold dt_count. cbn. destruct (N.eqb _ _); lia. }
    destruct (after_moves cmds).
    - eapply play_moves_nonneg; [exact N0|exact H].
    - assert (t' = [(zobrist_key b0, 1)]) by congruence. subst. exact N0. }
  destruct (str_eqb c1 str_fen).
  - destruct (nth_error cmds 7) as [c7|]; [|discriminate]. cbn [res_bind].
    destruct (from_fen zt _) as [b0| |]; try discriminate. cbn [res_bind]. intros H. exact (L b0 b t H).
  - destruct (default_fen_loaded zt) as (b0 & F & _). rewrite F. cbn [res_bind]. intros H. exact (L b0 b t H).
Qed.

Theorem position_then_go_plays_the_mate zt osort :
  (forall i l, Permutation l (osort i l)) -> (forall i l, sorted_desc (osort i l) = true) ->
  forall cmds1 b t cmds sc gt st' outs F ws m1 r1,
  play_out_position zt cmds1 = Ok (b, t) -> pos_ok1 b ->
  1 <= PLYMAX - NULL_PLY_OFFSET * Z.of_nat (sc_fuel sc) ->
  parse_go_command cmds = Ok gt -> go_step zt osort (mkSess b t Running) cmds sc = (st', outs) -> ss_phase st' = Running ->
  (forall y, In y (generate_moves zt b AllMoves) -> mated zt y -> is_threefold_repetition t y = false) ->
  1 + Z.of_nat F <= 100 ->
  Forall2 (fun m x => negamax zt F m (1 - 1) 1 t = Some x) (generate_moves zt b AllMoves) ws ->
  In m1 (generate_moves zt b AllMoves) -> mated zt m1 ->
  first_iteration zt osort (sc_k sc) (sc_fuel sc) b t = Ok (Some r1, r1) -> quiet (sc_k sc) (r_s r1) ->
  mated zt (ss_board st') /\ exists tx infos, best_move_text (ss_board st') = Ok tx /\ outs = infos ++ [s_bestmove ++ tx].
Proof.
  intros Pm Sm cmds1 b t cmds sc gt st' outs F ws m1 r1 PL PO Hfuel PG GS RU New HF HFv Hm1 Mm1 FI Q.
  assert (Oh : order_heuristic b < POS_INF) by (rewrite (position_command_leaves_ordering_value_zero zt cmds1 b t PL); reflexivity).
  exact (go_plays_the_mate zt osort Pm Sm (mkSess b t Running) cmds sc gt st' outs F ws m1 r1 Hfuel PG GS RU (proj1 PO) Oh
           (position_command_record_nonneg zt cmds1 b t PL) New HF HFv Hm1 Mm1 FI Q).
Qed.
