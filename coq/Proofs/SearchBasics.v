(* First facts about the search model: the draw rule at node entry, the clock. *)
From Walleye Require Import Model.Search Proofs.DrawTableProofs.
Open Scope Z_scope.

Lemma threefold_iff t s : is_threefold_repetition t s = true <-> 2 <= dt_count t (zobrist_key s).
Proof.
  unfold is_threefold_repetition.
  change REPETITION_OP with 0%N. change REPETITION_THRESHOLD with 2. cbn match.
  rewrite Z.leb_le. reflexivity.
Qed.

Section S.
Variable zt : ztable.
Variable osort : N -> list BoardState -> list BoardState.
Variable k : option N.

(* a node whose position already occurred at least twice (game + current line) is valued as a draw *)
Lemma draw_at_node_entry f b d ply a be n s :
  fst (out_of_time k s) = false ->
  2 <= dt_count (table s) (zobrist_key b) ->
  exists s', alpha_beta zt osort k (S f) b d ply a be n s = Ok (0, s') /\ table s' = table s.
Proof.
  intros Ht Hc. cbn [alpha_beta].
  destruct (out_of_time k s) as [e s1] eqn:E. cbn [fst] in Ht. subst e.
  assert (T1 : table s1 = table s) by (unfold out_of_time in E; inversion E; reflexivity).
  assert (R : is_threefold_repetition (table (with_maxply (node_searched s1) (Z.max (max_ply (node_searched s1)) ply))) b = true).
  { cbn [table with_maxply node_searched with_nodes]. rewrite T1. now apply threefold_iff. }
  rewrite R. eexists; split; [reflexivity|]. cbn [table with_maxply node_searched with_nodes]. exact T1.
Qed.

(* an expired clock makes a node return the abort value at once, leaving the record alone *)
Lemma abort_at_node_entry f b d ply a be n s :
  fst (out_of_time k s) = true ->
  exists s', alpha_beta zt osort k (S f) b d ply a be n s = Ok (NEG_INF, s') /\ table s' = table s.
Proof.
  intros Ht. cbn [alpha_beta].
  destruct (out_of_time k s) as [e s1] eqn:E. cbn [fst] in Ht. subst e.
  eexists; split; [reflexivity|]. unfold out_of_time in E; inversion E; reflexivity.
Qed.

(* the virtual clock is monotone: once expired, always expired *)
Lemma clock_monotone s : fst (out_of_time k s) = true -> fst (out_of_time k (snd (out_of_time k s))) = true.
Proof.
  unfold out_of_time; cbn [fst snd clock with_clock]. destruct k as [kk|]; [|discriminate].
  rewrite !N.leb_le. lia.
Qed.

End S.
