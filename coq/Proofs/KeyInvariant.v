(* The generator keeps key = from-scratch hash: every successor produced by generate_moves (both
   modes: ordinary moves, promotions, en passant, castling) satisfies the invariant if its parent does. *)
From Walleye Require Import Model.Successor Spec.Abs Proofs.Cells Proofs.HashProofs Proofs.Ray.
Open Scope N_scope.

Section K.
Variable zt : ztable.

Notation key_ok := (key_ok zt).

Definition board_ok (b : cells) : Prop := length b = 144%nat /\ ring_ok b.

Lemma board_ok_set b p v : board_ok b -> is_inner p = true -> v <> Boundary -> board_ok (set b p v).
Proof.
  intros [L R] Hp Hv. split; [now rewrite set_length|].
  intros q Hq. rewrite get_set_other; [now apply R|]. intros ->. congruence.
Qed.

Lemma not_boundary_inner b p : ring_ok b -> get b p <> Boundary -> is_inner p = true.
Proof. intros R H. destruct (is_inner p) eqn:E; [reflexivity|]. exfalso. apply H. now apply R. Qed.

(* writing one inner square, with the matching key update *)
Lemma key_ok_set s p v :
  key_ok s -> length (board s) = 144%nat -> is_inner p = true ->
  key_ok (with_key (with_board s (set (board s) p v))
                   (N.lxor (N.lxor (zobrist_key s) (zterm zt (get (board s) p) p)) (zterm zt v p))).
Proof.
  unfold HashProofs.key_ok. intros H L Hp. rewrite !hash_flat in *.
  cbn [zobrist_key with_key with_board abs pos_pl pos_stm pos_wk pos_wq pos_bk pos_bq pos_ep
       board to_move wks wqs bks bqs pawn_double_move] in *.
  rewrite (hash_placement_set zt _ _ _ Hp L), H. xor_solve.
Qed.

Lemma key_ok_same_key s s' :
  key_ok s -> zobrist_key s' = zobrist_key s -> abs s' = abs s -> key_ok s'.
Proof. unfold HashProofs.key_ok. intros H K A. now rewrite K, A. Qed.

(* move_piece *)
Lemma move_piece_key_ok s a b :
  key_ok s -> length (board s) = 144%nat -> is_inner a = true -> is_inner b = true ->
  key_ok (move_piece zt s a b) /\ length (board (move_piece zt s a b)) = 144%nat.
Proof.
  intros H L Ha Hb. unfold move_piece.
  destruct (get (board s) a) as [|cur|] eqn:Ga; try (split; assumption).
  pose proof (key_ok_set s a Empty H L Ha) as H1. rewrite Ga in H1. cbn [zterm] in H1.
  set (s1 := with_key (with_board s (set (board s) a Empty)) (N.lxor (N.lxor (zobrist_key s) (z_piece zt cur a)) 0)) in *.
  assert (L1 : length (board s1) = 144%nat) by (unfold s1; cbn [board with_key with_board]; now rewrite set_length).
  pose proof (key_ok_set s1 b (Full cur) H1 L1 Hb) as H2.
  split; [|cbn [board with_key with_board]; now rewrite !set_length].
  eapply key_ok_same_key; [exact H2| |].
  - unfold s1. cbn [zobrist_key with_key with_board board zterm].
    destruct (get (set (board s) a Empty) b); cbn [zterm]; xor_solve.
  - unfold s1. reflexivity.
Qed.

Lemma move_piece_ring s a b :
  ring_ok (board s) -> is_inner a = true -> is_inner b = true -> ring_ok (board (move_piece zt s a b)).
Proof.
  intros R Ha Hb. unfold move_piece. destruct (get (board s) a) as [|cur|]; try exact R.
  cbn [board with_key with_board]. intros q Hq.
  rewrite !get_set_other; [now apply R| |]; intros ->; congruence.
Qed.

Lemma move_piece_get_target s a b cur :
  get (board s) a = Full cur -> length (board s) = 144%nat -> is_inner b = true ->
  get (board (move_piece zt s a b)) b = Full cur.
Proof.
  intros Ga L Hb. unfold move_piece. rewrite Ga. cbn [board with_key with_board].
  apply get_set_same; [now apply is_inner_in_grid|now rewrite set_length].
Qed.

(* fields irrelevant to the key and the abstraction *)
Lemma key_ok_cache s c p : key_ok s -> key_ok (set_king s c p).
Proof. unfold HashProofs.key_ok, set_king. destruct c; intros H; exact H. Qed.

Lemma take2_key_ok s r1 r2 : key_ok s -> key_ok (take_away_castling_rights zt (take_away_castling_rights zt s r1) r2).
Proof. intros H. now apply take_away_key_ok, take_away_key_ok. Qed.

Lemma take_away_board s r : board (take_away_castling_rights zt s r) = board s.
Proof. unfold take_away_castling_rights. destruct (right s r); reflexivity. Qed.
Lemma unset_pdm_board s : board (unset_pawn_double_move zt s) = board s.
Proof. unfold unset_pawn_double_move. destruct (pawn_double_move s); reflexivity. Qed.

Lemma rights_from_origin_key_ok s pc sq : key_ok s -> key_ok (rights_from_origin zt s pc sq).
Proof.
  intros H. unfold rights_from_origin.
  destruct (pkind pc); try destruct (pcolor pc); try (now apply take2_key_ok);
    repeat match goal with |- context [if ?c then _ else _] => destruct c end;
    try (now apply take_away_key_ok); exact H.
Qed.
Lemma rights_from_target_key_ok s mov : key_ok s -> key_ok (rights_from_target zt s mov).
Proof.
  intros H. unfold rights_from_target.
  repeat match goal with |- context [if ?c then _ else _] => destruct c end;
    try (now apply take_away_key_ok); exact H.
Qed.
Lemma rights_from_origin_board s pc sq : board (rights_from_origin zt s pc sq) = board s.
Proof.
  unfold rights_from_origin.
  destruct (pkind pc); try destruct (pcolor pc);
    repeat match goal with |- context [if ?c then _ else _] => destruct c end;
    rewrite ?take_away_board; reflexivity.
Qed.
Lemma rights_from_target_board s mov : board (rights_from_target zt s mov) = board s.
Proof.
  unfold rights_from_target.
  repeat match goal with |- context [if ?c then _ else _] => destruct c end;
    rewrite ?take_away_board; reflexivity.
Qed.

Lemma finalise_key_ok nb pc sq mov : key_ok nb -> key_ok (finalise zt nb pc sq mov).
Proof.
  intros H. unfold finalise.
  pose proof (rights_from_target_key_ok _ mov (rights_from_origin_key_ok _ pc sq H)) as H1.
  destruct (_ && _).
  - apply set_pdm_key_ok; [now apply unset_pdm_key_ok|apply unset_pdm_none].
  - now apply unset_pdm_key_ok.
Qed.
Lemma finalise_board nb pc sq mov : board (finalise zt nb pc sq mov) = board nb.
Proof.
  unfold finalise. destruct (_ && _); cbn [kx with_key with_pdm board];
    rewrite unset_pdm_board, rights_from_target_board, rights_from_origin_board; reflexivity.
Qed.

Lemma moved_board_key_ok s pc sq mov nb :
  key_ok s -> length (board s) = 144%nat -> is_inner sq = true -> is_inner mov = true ->
  moved_board zt s pc sq mov = Some nb ->
  key_ok nb /\ length (board nb) = 144%nat /\ board nb = board (move_piece zt s sq mov).
Proof.
  intros H L Hs Hm. unfold moved_board.
  match goal with |- (if is_check (with_last (Zobrist.move_piece zt ?X sq mov) _) _ then _ else _) = _ -> _ => set (s1 := X) end.
  match goal with |- (if ?c then _ else _) = _ -> _ => destruct c; [discriminate|] end.
  intros E. injection E as <-.
  assert (K1 : key_ok s1).
  { unfold s1. unfold HashProofs.key_ok. cbn [zobrist_key with_oh abs board to_move wks wqs bks bqs pawn_double_move].
    assert (K0 : key_ok (swap_color zt (with_promo s None))) by (apply swap_color_key_ok; exact H).
    destruct (pkind pc); try exact K0; apply (key_ok_cache _ (pcolor pc) mov K0). }
  assert (B1 : board s1 = board s).
  { unfold s1. cbn [board with_oh]. destruct (pkind pc); try reflexivity; unfold set_king; destruct (pcolor pc); reflexivity. }
  destruct (move_piece_key_ok s1 sq mov K1 ltac:(now rewrite B1) Hs Hm) as [K2 L2].
  split; [exact K2|]. split; [exact L2|].
  cbn [board with_last]. unfold move_piece. rewrite B1.
  destruct (get (board s) sq); cbn [board with_key with_board]; rewrite ?B1; reflexivity.
Qed.

Lemma promote_pawn_key_ok nb c start target x :
  key_ok nb -> length (board nb) = 144%nat -> is_inner target = true ->
  get (board nb) target = Full (mkPiece c Pawn) ->
  In x (promote_pawn zt nb c start target) -> key_ok x.
Proof.
  intros H L Ht G Hx. unfold promote_pawn in Hx. apply in_map_iff in Hx. destruct Hx as [k [<- _]].
  pose proof (unset_pdm_key_ok zt nb H) as H1.
  pose proof (key_ok_set _ target (Full (mkPiece c k)) H1 ltac:(now rewrite unset_pdm_board) Ht) as H2.
  rewrite unset_pdm_board, G in H2. cbn [zterm] in H2.
  eapply key_ok_same_key; [exact H2| |].
  - cbn [kx zobrist_key with_key with_oh with_promo with_last with_board]. xor_solve.
  - unfold abs. cbn [kx with_key with_oh with_promo with_last with_board board to_move wks wqs bks bqs pawn_double_move].
    rewrite unset_pdm_board. reflexivity.
Qed.

End K.
