(* The generator keeps key = from-scratch hash: every successor produced by generate_moves (both
   modes: ordinary moves, promotions, en passant, castling) satisfies the invariant if its parent does. *)
From Walleye Require Import Model.Successor Spec.Abs Proofs.Cells Proofs.HashProofs Proofs.Ray.
Open Scope N_scope.

Section K.
Variable zt : ztable.

Notation key_ok := (key_ok zt).

Definition board_ok (b : cells) : Prop := length b = 144%nat /\ ring_ok b.

Lemma board_ok_set b p v : board_ok b -> is_inner p = true -> v <> Boundary -> board_ok (set b p v).
Proof.
  intros [L R] Hp Hv. split; [now rewrite set_length|].
  intros q Hq. rewrite get_set_other; [now apply R|]. intros ->. congruence.
Qed.

Lemma not_boundary_inner b p : ring_ok b -> get b p <> Boundary -> is_inner p = true.
Proof. intros R H. destruct (is_inner p) eqn:E; [reflexivity|]. exfalso. apply H. now apply R. Qed.

(* writing one inner square, with the matching key update *)
Lemma key_ok_set s p v :
  key_ok s -> length (board s) = 144%nat -> is_inner p = true ->
  key_ok (with_key (with_board s (set (board s) p v))
                   (N.lxor (N.lxor (zobrist_key s) (zterm zt (get (board s) p) p)) (zterm zt v p))).
Proof.
  unfold HashProofs.key_ok. intros H L Hp. rewrite !hash_flat in *.
  cbn [zobrist_key with_key with_board abs pos_pl pos_stm pos_wk pos_wq pos_bk pos_bq pos_ep
       board to_move wks wqs bks bqs pawn_double_move] in *.
  rewrite (hash_placement_set zt _ _ _ Hp L), H. xor_solve.
Qed.

Lemma key_ok_same_key s s' :
  key_ok s -> zobrist_key s' = zobrist_key s -> abs s' = abs s -> key_ok s'.
Proof. unfold HashProofs.key_ok. intros H K A. now rewrite K, A. Qed.

(* move_piece *)
Lemma move_piece_key_ok s a b :
  key_ok s -> length (board s) = 144%nat -> is_inner a = true -> is_inner b = true ->
  key_ok (move_piece zt s a b) /\ length (board (move_piece zt s a b)) = 144%nat.
Proof.
  intros H L Ha Hb. unfold move_piece.
  destruct (get (board s) a) as [|cur|] eqn:Ga; try (split; assumption).
  pose proof (key_ok_set s a Empty H L Ha) as H1. rewrite Ga in H1. cbn [zterm] in H1.
  set (s1 := with_key (with_board s (set (board s) a Empty)) (N.lxor (N.lxor (zobrist_key s) (z_piece zt cur a)) 0)) in *.
  assert (L1 : length (board s1) = 144%nat) by (unfold s1; cbn [board with_key with_board]; now rewrite set_length).
  pose proof (key_ok_set s1 b (Full cur) H1 L1 Hb) as H2.
  split; [|cbn [board with_key with_board]; now rewrite !set_length].
  eapply key_ok_same_key; [exact H2| |].
  - unfold s1. cbn [zobrist_key with_key with_board board zterm].
    destruct (get (set (board s) a Empty) b); cbn [zterm]; xor_solve.
  - unfold s1. reflexivity.
Qed.

Lemma move_piece_ring s a b :
  ring_ok (board s) -> is_inner a = true -> is_inner b = true -> ring_ok (board (move_piece zt s a b)).
Proof.
  intros R Ha Hb. unfold move_piece. destruct (get (board s) a) as [|cur|]; try exact R.
  cbn [board with_key with_board]. intros q Hq.
  rewrite !get_set_other; [now apply R| |]; intros ->; congruence.
Qed.

Lemma move_piece_get_target s a b cur :
  get (board s) a = Full cur -> length (board s) = 144%nat -> is_inner b = true ->
  get (board (move_piece zt s a b)) b = Full cur.
Proof.
  intros Ga L Hb. unfold move_piece. rewrite Ga. cbn [board with_key with_board].
  apply get_set_same; [now apply is_inner_in_grid|now rewrite set_length].
Qed.

(* fields irrelevant to the key and the abstraction *)
Lemma key_ok_cache s c p : key_ok s -> key_ok (set_king s c p).
Proof. unfold HashProofs.key_ok, set_king. destruct c; intros H; exact H. Qed.

Lemma take2_key_ok s r1 r2 : key_ok s -> key_ok (take_away_castling_rights zt (take_away_castling_rights zt s r1) r2).
Proof. intros H. now apply take_away_key_ok, take_away_key_ok. Qed.

Lemma take_away_board s r : board (take_away_castling_rights zt s r) = board s.
Proof. unfold take_away_castling_rights. destruct (right s r); reflexivity. Qed.
Lemma unset_pdm_board s : board (unset_pawn_double_move zt s) = board s.
Proof. unfold unset_pawn_double_move. destruct (pawn_double_move s); reflexivity. Qed.

Lemma rights_from_origin_key_ok s pc sq : key_ok s -> key_ok (rights_from_origin zt s pc sq).
Proof.
  intros H. unfold rights_from_origin.
  destruct (pkind pc); try destruct (pcolor pc); try (now apply take2_key_ok);
    repeat match goal with |- context [if ?c then _ else _] => destruct c end;
    try (now apply take_away_key_ok); exact H.
Qed.
Lemma rights_from_target_key_ok s mov : key_ok s -> key_ok (rights_from_target zt s mov).
Proof.
  intros H. unfold rights_from_target.
  repeat match goal with |- context [if ?c then _ else _] => destruct c end;
    try (now apply take_away_key_ok); exact H.
Qed.
Lemma rights_from_origin_board s pc sq : board (rights_from_origin zt s pc sq) = board s.
Proof.
  unfold rights_from_origin.
  destruct (pkind pc); try destruct (pcolor pc);
    repeat match goal with |- context [if ?c then _ else _] => destruct c end;
    rewrite ?take_away_board; reflexivity.
Qed.
Lemma rights_from_target_board s mov : board (rights_from_target zt s mov) = board s.
Proof.
  unfold rights_from_target.
  repeat match goal with |- context [if ?c then _ else _] => destruct c end;
    rewrite ?take_away_board; reflexivity.
Qed.

Lemma finalise_key_ok nb pc sq mov : key_ok nb -> key_ok (finalise zt nb pc sq mov).
Proof.
  intros H. unfold finalise.
  pose proof (rights_from_target_key_ok _ mov (rights_from_origin_key_ok _ pc sq H)) as H1.
  destruct (_ && _).
  - apply set_pdm_key_ok; [now apply unset_pdm_key_ok|apply unset_pdm_none].
  - now apply unset_pdm_key_ok.
Qed.
Lemma finalise_board nb pc sq mov : board (finalise zt nb pc sq mov) = board nb.
Proof.
  unfold finalise. destruct (_ && _); cbn [kx with_key with_pdm board];
    rewrite unset_pdm_board, rights_from_target_board, rights_from_origin_board; reflexivity.
Qed.

Lemma moved_board_key_ok s pc sq mov nb :
  key_ok s -> length (board s) = 144%nat -> is_inner sq = true -> is_inner mov = true ->
  moved_board zt s pc sq mov = Some nb ->
  key_ok nb /\ length (board nb) = 144%nat /\ board nb = board (move_piece zt s sq mov).
Proof.
  intros H L Hs Hm. unfold moved_board.
  match goal with |- (if is_check (with_last (Zobrist.move_piece zt ?X sq mov) _) _ then _ else _) = _ -> _ => set (s1 := X) end.
  match goal with |- (if ?c then _ else _) = _ -> _ => destruct c; [discriminate|] end.
  intros E. injection E as <-.
  assert (K1 : key_ok s1).
  { unfold s1. unfold HashProofs.key_ok. cbn [zobrist_key with_oh abs board to_move wks wqs bks bqs pawn_double_move].
    assert (K0 : key_ok (swap_color zt (with_promo s None))) by (apply swap_color_key_ok; exact H).
    destruct (pkind pc); try exact K0; apply (key_ok_cache _ (pcolor pc) mov K0). }
  assert (B1 : board s1 = board s).
  { unfold s1. cbn [board with_oh]. destruct (pkind pc); try reflexivity; unfold set_king; destruct (pcolor pc); reflexivity. }
  destruct (move_piece_key_ok s1 sq mov K1 ltac:(now rewrite B1) Hs Hm) as [K2 L2].
  split; [exact K2|]. split; [exact L2|].
  cbn [board with_last]. unfold move_piece. rewrite B1.
  destruct (get (board s) sq); cbn [board with_key with_board]; rewrite ?B1; reflexivity.
Qed.

Lemma promote_pawn_key_ok nb c start target x :
  key_ok nb -> length (board nb) = 144%nat -> is_inner target = true ->
  get (board nb) target = Full (mkPiece c Pawn) ->
  In x (promote_pawn zt nb c start target) -> key_ok x.
Proof.
  intros H L Ht G Hx. unfold promote_pawn in Hx. apply in_map_iff in Hx. destruct Hx as [k [<- _]].
  pose proof (unset_pdm_key_ok zt nb H) as H1.
  pose proof (key_ok_set _ target (Full (mkPiece c k)) H1 ltac:(now rewrite unset_pdm_board) Ht) as H2.
  rewrite unset_pdm_board, G in H2. cbn [zterm] in H2.
  eapply key_ok_same_key; [exact H2| |].
  - cbn [kx zobrist_key with_key with_oh with_promo with_last with_board]. xor_solve.
  - unfold abs. cbn [kx with_key with_oh with_promo with_last with_board board to_move wks wqs bks bqs pawn_double_move].
    rewrite unset_pdm_board. reflexivity.
Qed.


(* every pseudo-legal target is a real board square: it holds no Boundary *)
Lemma step_target_not_boundary b c m q x : In x (step_target b c m q) -> get b x <> Boundary.
Proof.
  unfold step_target. destruct (is_empty_or_color (get b q) (opposite c)) eqn:E; [|intros []].
  intros H. assert (x = q).
  { destruct (mode_all m); [destruct H as [<-|[]]; reflexivity|].
    destruct (negb (is_empty (get b q))); [destruct H as [<-|[]]; reflexivity|destruct H]. }
  subst x. intros B. rewrite B in E. discriminate.
Qed.

Lemma ray_not_boundary fuel b d m enemy : forall p x, In x (ray fuel b p d m enemy) -> get b x <> Boundary.
Proof.
  induction fuel as [|f IH]; intros p x H; cbn [ray] in H; [contradiction|].
  destruct (is_empty (get b p)) eqn:Em.
  - apply in_app_or in H. destruct H as [H|H]; [|eapply IH; eauto].
    destruct (mode_all m); [|contradiction]. destruct H as [<-|[]]. intros B. rewrite B in Em. discriminate.
  - destruct (is_color (get b p) enemy) eqn:C; [|contradiction].
    destruct H as [<-|[]]. intros B. rewrite B in C. discriminate.
Qed.

Lemma is_color_nb sq c : is_color sq c = true -> sq <> Boundary.
Proof. intros H B. subst sq. discriminate. Qed.
Lemma is_empty_nb sq : is_empty sq = true -> sq <> Boundary.
Proof. intros H B. subst sq. discriminate. Qed.

Lemma in_single_if (c : bool) (q x : point) : In x (if c then [q] else []) -> c = true /\ x = q.
Proof. destruct c; [intros [<-|[]]; auto|intros []]. Qed.

Lemma pawn_not_boundary pc p b m x : In x (pawn_moves pc p b m) -> get b x <> Boundary.
Proof.
  unfold pawn_moves. destruct p as [row col].
  destruct (pcolor pc); intros H;
  (apply in_app_or in H; destruct H as [H|H];
   [apply in_single_if in H; destruct H as [E ->]; eapply is_color_nb; exact E|]);
  (apply in_app_or in H; destruct H as [H|H];
   [apply in_single_if in H; destruct H as [E ->]; eapply is_color_nb; exact E|]);
  match type of H with In x (if ?c then _ else _) => destruct c eqn:E3; [|contradiction] end;
  apply andb_true_iff in E3; destruct E3 as [_ E3];
  (destruct H as [<-|H]; [apply is_empty_nb; exact E3|]);
  apply in_single_if in H; destruct H as [E4 ->];
  apply andb_true_iff in E4; destruct E4 as [_ E4]; apply is_empty_nb; exact E4.
Qed.

Lemma get_moves_not_boundary pc p b m x : In x (get_moves pc p b m) -> get b x <> Boundary.
Proof.
  unfold get_moves. destruct (pkind pc).
  - apply pawn_not_boundary.
  - unfold knight_moves. intros H. apply in_flat_map in H. destruct H as [d [_ H]]. eapply step_target_not_boundary; eauto.
  - unfold bishop_moves, slide. intros H. apply in_flat_map in H. destruct H as [d [_ H]]. eapply ray_not_boundary; eauto.
  - unfold rook_moves, slide. intros H. apply in_flat_map in H. destruct H as [d [_ H]]. eapply ray_not_boundary; eauto.
  - unfold queen_moves, rook_moves, bishop_moves, slide. intros H. apply in_app_or in H.
    destruct H as [H|H]; apply in_flat_map in H; destruct H as [d [_ H]]; eapply ray_not_boundary; eauto.
  - unfold king_moves. intros H. apply in_flat_map in H. destruct H as [d [_ H]]. eapply step_target_not_boundary; eauto.
Qed.

(* ---- ordinary moves and promotions *)
Lemma successors_of_move_key_ok s pc sq mov x :
  key_ok s -> board_ok (board s) -> is_inner sq = true -> get (board s) sq = Full pc ->
  get (board s) mov <> Boundary ->
  In x (successors_of_move zt s pc sq mov) -> key_ok x.
Proof.
  intros H [L R] Hs Gs Gm Hx.
  pose proof (not_boundary_inner _ _ R Gm) as Hm.
  unfold successors_of_move in Hx.
  destruct (moved_board zt s pc sq mov) as [nb|] eqn:MB; [|contradiction].
  destruct (moved_board_key_ok s pc sq mov nb H L Hs Hm MB) as [K [Ln Bn]].
  pose proof (finalise_key_ok nb pc sq mov K) as KF.
  assert (GT : get (board (finalise zt nb pc sq mov)) mov = Full pc).
  { rewrite finalise_board, Bn.
    (* the board of moved_board is that of move_piece on a state with the same squares as s *)
    unfold move_piece. rewrite Gs. cbn [board with_key with_board].
    apply get_set_same; [now apply is_inner_in_grid|now rewrite set_length]. }
  assert (LF : length (board (finalise zt nb pc sq mov)) = 144%nat) by (now rewrite finalise_board).
  destruct ((fst mov =? BOARD_START)%Z && color_eqb (pcolor pc) White && is_pawn_kind (pkind pc)) eqn:P1.
  - apply andb_true_iff in P1. destruct P1 as [P1 PK]. apply andb_true_iff in P1. destruct P1 as [_ PC].
    eapply promote_pawn_key_ok; [exact KF|exact LF|exact Hm| |exact Hx].
    rewrite GT. destruct pc as [c k]. cbn [pcolor pkind] in *. destruct c; [|discriminate]. destruct k; try discriminate. reflexivity.
  - destruct ((fst mov =? BOARD_END - 1)%Z && color_eqb (pcolor pc) Black && is_pawn_kind (pkind pc)) eqn:P2.
    + apply andb_true_iff in P2. destruct P2 as [P2 PK]. apply andb_true_iff in P2. destruct P2 as [_ PC].
      eapply promote_pawn_key_ok; [exact KF|exact LF|exact Hm| |exact Hx].
      rewrite GT. destruct pc as [c k]. cbn [pcolor pkind] in *. destruct c; [discriminate|]. destruct k; try discriminate. reflexivity.
    + destruct Hx as [<-|[]]. exact KF.
Qed.

(* ---- en passant: the recorded target is consistent with the pawn that just double-stepped *)
Definition ep_sane (s : BoardState) : Prop :=
  forall t, pawn_double_move s = Some t ->
    is_inner t = true /\
    let v := match to_move s with White => (fst t + 1, snd t)%Z | Black => (fst t - 1, snd t)%Z end in
    is_inner v = true /\ get (board s) v = Full (mkPiece (opposite (to_move s)) Pawn).

Lemma en_passant_successor_key_ok s pc sq x :
  key_ok s -> board_ok (board s) -> ep_sane s -> is_inner sq = true -> get (board s) sq = Full pc ->
  pcolor pc = to_move s ->
  In x (en_passant_successor zt s pc sq) -> key_ok x.
Proof.
  intros H [L R] EP Hs Gs PC Hx. unfold en_passant_successor in Hx.
  destruct (pawn_double_move s) as [dm|] eqn:D; [|contradiction].
  destruct (pkind pc) eqn:PK; try contradiction.
  destruct (pawn_moves_en_passant pc sq s) as [mov|] eqn:E; [|contradiction].
  assert (mov = dm).
  { unfold pawn_moves_en_passant in E. rewrite D in E. destruct sq as [row col].
    destruct (pcolor pc); match type of E with context [if ?c then _ else _] => destruct c end; try discriminate;
    repeat match type of E with context [if point_eqb ?a ?b then _ else _] => destruct (point_eqb_spec a b) end;
    try discriminate; inversion E; subst; reflexivity. }
  subst mov. destruct (EP dm D) as [Hm [Hv Gv]].
  match type of Hx with In x (if ?c then _ else _) => destruct c; [|contradiction] end.
  destruct Hx as [<-|[]].
  set (s1 := unset_pawn_double_move zt (swap_color zt (with_last (with_promo s None) (Some (sq, dm))))).
  assert (K1 : key_ok s1) by (unfold s1; apply unset_pdm_key_ok, swap_color_key_ok; exact H).
  assert (B1 : board s1 = board s) by (unfold s1; rewrite unset_pdm_board; reflexivity).
  destruct (move_piece_key_ok s1 sq dm K1 ltac:(now rewrite B1) Hs Hm) as [K2 L2].
  set (v := match pcolor pc with White => (fst dm + 1, snd dm)%Z | Black => (fst dm - 1, snd dm)%Z end).
  assert (Ev : v = match to_move s with White => (fst dm + 1, snd dm)%Z | Black => (fst dm - 1, snd dm)%Z end) by (unfold v; now rewrite PC).
  rewrite <- Ev in Hv, Gv.
  assert (G2 : get (board (move_piece zt s1 sq dm)) v = Full (mkPiece (opposite (pcolor pc)) Pawn)).
  { unfold move_piece. rewrite B1, Gs. cbn [board with_key with_board].
    rewrite !get_set_other; [rewrite PC; exact Gv| |].
    - intros Eq. rewrite Eq in Gs. rewrite Gs in Gv. inversion Gv as [Hp]. rewrite <- PC in Hp.
      destruct pc as [c k]; cbn [pcolor] in Hp. inversion Hp as [Hc]. destruct c; discriminate.
    - intros Eq. unfold v in Eq. destruct dm as [r c]. destruct (pcolor pc); cbn [fst snd] in Eq; inversion Eq; lia. }
  pose proof (key_ok_set _ v Empty K2 L2 Hv) as K3. rewrite G2 in K3. cbn [zterm] in K3.
  eapply key_ok_same_key; [exact K3| |].
  - cbn [kx zobrist_key with_key with_board]. fold s1. fold v. xor_solve.
  - unfold abs. cbn [kx with_key with_board board to_move wks wqs bks bqs pawn_double_move]. fold s1. fold v. reflexivity.
Qed.

(* ---- castling *)
Lemma castle_successor_key_ok s c r1 r2 kt alg rf rt :
  key_ok s -> length (board s) = 144%nat -> is_inner (king_location s c) = true ->
  is_inner kt = true -> is_inner rf = true -> is_inner rt = true ->
  key_ok (castle_successor zt s c r1 r2 kt alg rf rt).
Proof.
  intros H L Hk Hkt Hrf Hrt. unfold castle_successor.
  set (s1 := with_last (set_king (take_away_castling_rights zt (take_away_castling_rights zt
               (unset_pawn_double_move zt (swap_color zt (with_promo s None))) r1) r2) c kt) (Some alg)).
  assert (K1 : key_ok s1).
  { unfold s1. unfold HashProofs.key_ok. cbn [zobrist_key with_last abs board to_move wks wqs bks bqs pawn_double_move].
    apply (key_ok_cache _ c kt). apply take2_key_ok, unset_pdm_key_ok, swap_color_key_ok. exact H. }
  assert (B1 : board s1 = board s).
  { unfold s1. cbn [board with_last]. unfold set_king. destruct c; cbn [board with_wk with_bk];
    rewrite !take_away_board, unset_pdm_board; reflexivity. }
  destruct (move_piece_key_ok s1 (king_location s c) kt K1 ltac:(now rewrite B1) Hk Hkt) as [K2 L2].
  destruct (move_piece_key_ok _ rf rt K2 L2 Hrf Hrt) as [K3 _]. exact K3.
Qed.

Definition gen_ok (s : BoardState) : Prop :=
  key_ok s /\ board_ok (board s) /\ ep_sane s /\
  is_inner (white_king_location s) = true /\ is_inner (black_king_location s) = true.

(* the theorem: every successor the generator produces, in both modes, satisfies key = from-scratch hash *)
Theorem generate_moves_key_ok s m x : gen_ok s -> In x (generate_moves zt s m) -> key_ok x.
Proof.
  intros (H & BO & EP & WK & BK) Hx. unfold generate_moves in Hx. apply in_app_or in Hx. destruct Hx as [Hx|Hx].
  - apply in_flat_map in Hx. destruct Hx as [p [Hp Hx]].
    assert (Hin : is_inner p = true).
    { clear - Hp. unfold inner_points in Hp. apply in_flat_map in Hp. destruct Hp as [r [Hr Hp]].
      apply in_map_iff in Hp. destruct Hp as [c [<- Hc]]. apply is_inner_spec. cbn [fst snd].
      unfold inner_range in *. cbn in Hr, Hc. lia. }
    destruct (get (board s) p) as [|pc|] eqn:G; try contradiction.
    destruct (color_eqb_spec (pcolor pc) (to_move s)) as [PC|]; [|contradiction].
    unfold generate_moves_for_piece in Hx. apply in_app_or in Hx. destruct Hx as [Hx|Hx].
    + apply in_flat_map in Hx. destruct Hx as [mov [Hmov Hx]].
      eapply successors_of_move_key_ok; eauto. eapply get_moves_not_boundary; eauto.
    + eapply en_passant_successor_key_ok; eauto.
  - destruct (mode_all m); [|contradiction]. unfold generate_castling_moves in Hx. destruct BO as [L R].
    repeat (apply in_app_or in Hx; destruct Hx as [Hx|Hx]);
      match type of Hx with In x (if ?c then _ else _) => destruct c; [|contradiction] end;
      destruct Hx as [<-|[]]; apply castle_successor_key_ok; auto; reflexivity.
Qed.

End K.

(* the executable well-formedness test implies the ring property used above *)
Lemma wf_cells_board_ok b : wf_cells b = true -> board_ok b.
Proof.
  unfold wf_cells. intros H. apply andb_true_iff in H. destruct H as [HL HF].
  apply Nat.eqb_eq in HL. split; [exact HL|].
  intros p Hp. destruct (in_grid p) eqn:G; [|now apply get_out_of_grid].
  apply in_grid_spec in G. destruct p as [r c]. cbn [fst snd] in G.
  rewrite forallb_forall in HF.
  assert (Hr : In r [0; 1; 2; 3; 4; 5; 6; 7; 8; 9; 10; 11]%Z) by (cbn; lia).
  assert (Hc : In c [0; 1; 2; 3; 4; 5; 6; 7; 8; 9; 10; 11]%Z) by (cbn; lia).
  specialize (HF r Hr). rewrite forallb_forall in HF. specialize (HF c Hc).
  rewrite Hp in HF. destruct (square_eqb_spec (get b (r, c)) Boundary); [assumption|discriminate].
Qed.
