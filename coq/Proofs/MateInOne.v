(* C11, first sentence, at the depths where the search is exact (iterations 1..3, uninterrupted):
   a mate in one is played, and a move that lets the opponent mate at once is not played if it can be avoided. *)
From Walleye Require Import Model.Search Spec.Minimax Proofs.DrawTableProofs Proofs.TableRestored Proofs.AlphaBeta
  Proofs.EvalProofs Proofs.RootProofs Proofs.PVS Proofs.OhCongruence Proofs.PVSRoot Proofs.ClockSim.
From Coq Require Import Lia Permutation.
Open Scope Z_scope.

Local Notation M := MATE_SCORE.

Section S.
Variable zt : ztable.

(* the side to move in m has no move and is in check *)
Definition mated (m : BoardState) : Prop := generate_moves zt m AllMoves = [] /\ is_check m (to_move m) = true.

Lemma in_F2 {A B} (R : A -> B -> Prop) l l' y : Forall2 R l l' -> In y l' -> exists x, In x l /\ R x y.
Proof. induction 1 as [|a b l l' Hab _ IH]; [contradiction|]. intros [<-|H]; [exists a; split; [now left|exact Hab]|]. destruct (IH H) as (x & Hx & Rx). exists x. split; [now right|exact Rx]. Qed.

(* at ply p a value of -(M - p) means: mated here, now (and the position is not a repetition) *)
Lemma mated_value F : forall m dd p t x, 0 <= p -> p + Z.of_nat F <= 100 -> negamax zt F m dd p t = Some x ->
  (x = - (M - p) <-> is_threefold_repetition t m = false /\ mated m).
Proof.
  destruct eval_bound_below_mate as [EB _].
  intros m dd p t x Hp HF H. destruct F as [|F]; [discriminate H|]. cbn [negamax] in H.
  destruct (is_threefold_repetition t m) eqn:R.
  { apply some_inj in H. subst x. unfold MATE_SCORE. split; [lia|intros [X _]; discriminate X]. }
  cbv zeta in H. unfold mated.
  destruct (is_check m (to_move m)) eqn:C; cbn [negb] in H.
  - rewrite andb_false_r in H. destruct (generate_moves zt m AllMoves) as [|m0 rest] eqn:G.
    + apply some_inj in H. subst x. tauto.
    + split; [|intros (_ & X & _); discriminate X]. intros Ex. exfalso.
      apply max_children_spec in H. destruct H as (i & ws & Hi & HF2 & [_ Hin]).
      destruct (negamax zt F m0 _ (p + 1) (dt_add t m)) as [w0|] eqn:E0; [|discriminate Hi]. apply some_inj in Hi. subst i.
      assert (P1 : 0 <= p + 1) by lia. assert (P2 : p + 1 + Z.of_nat F <= 100) by lia.
      destruct Hin as [Ei|Hin].
      * pose proof (negamax_range zt F m0 _ (p + 1) _ w0 P1 P2 E0). lia.
      * apply in_map_iff in Hin. destruct Hin as (y & Ey & Hy). destruct (in_F2 _ _ _ _ HF2 Hy) as (c & _ & Hc).
        pose proof (negamax_range zt F c _ (p + 1) _ y P1 P2 Hc). lia.
  - split; [|intros (_ & _ & X); discriminate X]. intros Ex. exfalso. rewrite andb_true_r in H.
    destruct (dd =? 0).
    + apply qvalue_range in H. revert H EB. generalize eval_bound. unfold MATE_SCORE in *. intros E H EB. lia.
    + destruct (generate_moves zt m AllMoves) as [|m0 rest] eqn:G.
      * apply some_inj in H. unfold MATE_SCORE in *. lia.
      * apply max_children_spec in H. destruct H as (i & ws & Hi & HF2 & [_ Hin]).
        destruct (negamax zt F m0 _ (p + 1) (dt_add t m)) as [w0|] eqn:E0; [|discriminate Hi]. apply some_inj in Hi. subst i.
        assert (P1 : 0 <= p + 1) by lia. assert (P2 : p + 1 + Z.of_nat F <= 100) by lia.
        destruct Hin as [Ei|Hin].
        -- pose proof (negamax_range zt F m0 _ (p + 1) _ w0 P1 P2 E0). lia.
        -- apply in_map_iff in Hin. destruct Hin as (y & Ey & Hy). destruct (in_F2 _ _ _ _ HF2 Hy) as (c & _ & Hc).
           pose proof (negamax_range zt F c _ (p + 1) _ y P1 P2 Hc). lia.
Qed.

Variable osort : N -> list BoardState -> list BoardState.
Hypothesis osort_perm : forall i l, Permutation l (osort i l).

(* a mate in one is found: the iteration reports MATE - 1 ("mate 1") and sends a mating move *)
Theorem mate_in_one_is_played k fuel F first t d b ms0 ms ws r o r2 m1 :
  1 <= d <= 3 -> 1 + Z.of_nat F <= 100 -> dt_nonneg t ->
  Forall2 same_move ms0 (generate_moves zt b AllMoves) -> Permutation ms0 ms ->
  Forall2 (rval zt F d t) (generate_moves zt b AllMoves) ws ->
  In m1 (generate_moves zt b AllMoves) -> mated m1 -> is_threefold_repetition t m1 = false ->
  dt_equiv (table (r_s r)) t ->
  root_moves zt osort k fuel first ms d NEG_INF r = Ok (o, r2) -> quiet k (r_s r2) ->
  exists r' mov line evs,
    o = Some r' /\ r_events r' = Info d (M - 1) line :: Send mov :: evs /\ r_best r' = Some mov /\ In mov ms /\ mated mov.
Proof.
  intros Hd HF NN SM P HFv Hm1 MT NR E H Q.
  assert (IM : is_max (M - 1) (map Z.opp ws)).
  { split.
    - intros y Hy. apply in_map_iff in Hy. destruct Hy as (x & <- & Hx). destruct (in_F2 _ _ _ _ HFv Hx) as (c & _ & Hc).
      pose proof (negamax_range zt F c (d - 1) 1 t x ltac:(lia) HF Hc). lia.
    - assert (exists x, In x ws /\ rval zt F d t m1 x) as (x & Hx & Hr).
      { clear - HFv Hm1. induction HFv as [|a y l l' Hay _ IH]; [contradiction|]. destruct Hm1 as [<-|Hm]; [exists y; split; [now left|exact Hay]|].
        destruct (IH Hm) as (x & Hx & Hr). exists x. split; [now right|exact Hr]. }
      assert (x = - (M - 1)) by (apply (mated_value F m1 (d - 1) 1 t x ltac:(lia) HF Hr); auto). subst x.
      apply in_map_iff. exists (- (M - 1)). split; [lia|exact Hx]. }
  assert (NE : generate_moves zt b AllMoves <> []) by (intros X; rewrite X in Hm1; contradiction).
  destruct (timed_iteration_value zt osort osort_perm k fuel F first t d b ms0 ms ws (M - 1) r o r2 Hd HF NN NE SM P HFv IM E H Q)
    as (r' & mov & line & evs & x & Ho & Ev & Bs & Hin & Hr & Ex).
  exists r', mov, line, evs. split; [exact Ho|]. split; [exact Ev|]. split; [exact Bs|]. split; [exact Hin|].
  assert (x = - (M - 1)) by lia. apply (mated_value F mov (d - 1) 1 t x ltac:(lia) HF Hr). exact H0.
Qed.

(* the opponent, to move in m, has a move that mates at once *)
Definition allows_mate (t : dtable) (m : BoardState) : Prop :=
  exists rr, In rr (generate_moves zt m AllMoves) /\ mated rr /\ is_threefold_repetition (dt_add t m) rr = false.

(* at iteration 2 or 3: the value of a root move is M - 2 (for the opponent) exactly when it lets the opponent mate
   at once, and never more; so if some move avoids that, the move sent avoids it *)
Lemma allows_mate_value F m dd t x : 1 <= dd -> 1 + Z.of_nat F <= 100 -> negamax zt F m dd 1 t = Some x ->
  x <= M - 2 /\ (x = M - 2 <-> is_threefold_repetition t m = false /\ allows_mate t m).
Proof.
  intros Hdd HF H. destruct F as [|F]; [discriminate H|]. cbn [negamax] in H.
  destruct (is_threefold_repetition t m) eqn:R.
  { apply some_inj in H. subst x. unfold MATE_SCORE. split; [lia|]. split; [lia|intros [X _]; discriminate X]. }
  cbv zeta in H.
  assert (E0 : (dd =? 0) = false) by (apply Z.eqb_neq; lia). rewrite E0 in H. cbn [andb] in H.
  unfold allows_mate.
  destruct (generate_moves zt m AllMoves) as [|m0 rest] eqn:G.
  { destruct (is_check m (to_move m)); apply some_inj in H; subst x; unfold MATE_SCORE; (split; [lia|]); (split; [lia|intros (_ & rr & [] & _)]). }
  apply max_children_spec in H. destruct H as (i & ws & Hi & HF2 & [Hle Hin]).
  destruct (negamax zt F m0 _ _ (dt_add t m)) as [w0|] eqn:E1; [|discriminate Hi]. apply some_inj in Hi. subst i.
  change (negamax zt F m0 (dd - 1) 2 (dt_add t m) = Some w0) in E1.
  assert (P2 : 2 + Z.of_nat F <= 100) by lia.
  assert (HFall : Forall2 (fun c y => negamax zt F c (dd - 1) 2 (dt_add t m) = Some y) (m0 :: rest) (w0 :: ws)) by (constructor; [exact E1|exact HF2]).
  change (- w0 :: map Z.opp ws) with (map Z.opp (w0 :: ws)) in Hin, Hle.
  assert (UB : x <= M - 2).
  { apply in_map_iff in Hin. destruct Hin as (y & <- & Hy).
    destruct (in_F2 _ _ _ _ HFall Hy) as (c & _ & Hc). pose proof (negamax_range zt F c (dd - 1) 2 _ y ltac:(lia) P2 Hc). lia. }
  split; [exact UB|]. split.
  - intros Ex. split; [reflexivity|]. apply in_map_iff in Hin. destruct Hin as (y & Ey & Hy).
    destruct (in_F2 _ _ _ _ HFall Hy) as (c & Hc & Hv). exists c. split; [exact Hc|].
    assert (Ey' : y = - (M - 2)) by lia. apply (mated_value F c (dd - 1) 2 _ y ltac:(lia) P2 Hv) in Ey'. tauto.
  - intros (_ & rr & Hrr & MT & NR).
    assert (exists y, In y (w0 :: ws) /\ negamax zt F rr (dd - 1) 2 (dt_add t m) = Some y) as (y & Hy & Hr).
    { clear - HFall Hrr. induction HFall as [|a y l l' Hay _ IH]; [contradiction|]. destruct Hrr as [<-|Hm]; [exists y; split; [now left|exact Hay]|].
      destruct (IH Hm) as (z & Hz & Hr). exists z. split; [now right|exact Hr]. }
    assert (y = - (M - 2)) by (apply (mated_value F rr (dd - 1) 2 _ y ltac:(lia) P2 Hr); auto). subst y.
    assert (LB : - - (M - 2) <= x) by (apply Hle; apply in_map; exact Hy). lia.
Qed.

Theorem avoidable_mate_is_avoided k fuel F first t d b ms0 ms ws r o r2 m1 :
  2 <= d <= 3 -> 1 + Z.of_nat F <= 100 -> dt_nonneg t ->
  Forall2 same_move ms0 (generate_moves zt b AllMoves) -> Permutation ms0 ms ->
  Forall2 (rval zt F d t) (generate_moves zt b AllMoves) ws ->
  In m1 (generate_moves zt b AllMoves) -> ~ (is_threefold_repetition t m1 = false /\ allows_mate t m1) ->
  dt_equiv (table (r_s r)) t ->
  root_moves zt osort k fuel first ms d NEG_INF r = Ok (o, r2) -> quiet k (r_s r2) ->
  exists r' mov line evs e,
    o = Some r' /\ r_events r' = Info d e line :: Send mov :: evs /\ r_best r' = Some mov /\ In mov ms /\
    ~ (is_threefold_repetition t mov = false /\ allows_mate t mov).
Proof.
  intros Hd HF NN SM P HFv Hm1 Av E H Q.
  assert (NE : generate_moves zt b AllMoves <> []) by (intros X; rewrite X in Hm1; contradiction).
  assert (NEw : ws <> []) by (destruct HFv; [contradiction|discriminate]).
  (* the maximum exists *)
  set (A := fold_left Z.max (map Z.opp (tl ws)) (- hd 0 ws)).
  assert (IM : is_max A (map Z.opp ws)).
  { destruct ws as [|w0 ws']; [contradiction|]. cbn [hd tl] in A. split.
    - intros y [<-|Hy]; [apply fold_max_ge|now apply fold_max_in].
    - destruct (fold_max_cases (map Z.opp ws') (- w0)) as [Eq|Hin]; [left; symmetry; exact Eq|right; exact Hin]. }
  destruct (timed_iteration_value zt osort osort_perm k fuel F first t d b ms0 ms ws A r o r2 ltac:(lia) HF NN NE SM P HFv IM E H Q)
    as (r' & mov & line & evs & x & Ho & Ev & Bs & Hin & Hr & Ex).
  exists r', mov, line, evs, A. split; [exact Ho|]. split; [exact Ev|]. split; [exact Bs|]. split; [exact Hin|].
  assert (exists x1, In x1 ws /\ rval zt F d t m1 x1) as (x1 & Hx1 & Hr1).
  { clear - HFv Hm1. induction HFv as [|a y l l' Hay _ IH]; [contradiction|]. destruct Hm1 as [<-|Hm]; [exists y; split; [now left|exact Hay]|].
    destruct (IH Hm) as (z & Hz & Hr). exists z. split; [now right|exact Hr]. }
  destruct (allows_mate_value F m1 (d - 1) t x1 ltac:(lia) HF Hr1) as [U1 I1].
  destruct (allows_mate_value F mov (d - 1) t x ltac:(lia) HF Hr) as [U I0].
  assert (x1 <> M - 2) by (intros X; apply Av; now apply I1).
  assert (- x1 <= A) by (apply (proj1 IM); now apply in_map).
  intros B. apply I0 in B. lia.
Qed.

End S.
