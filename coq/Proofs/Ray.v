(* The sentinel ray walk: on a board whose ring is Boundary, walking from an inner square along any
   of the eight directions finds the first non-empty square within 9 steps and never leaves the array. *)
From Walleye Require Import Model.Check Proofs.Cells.
Open Scope Z_scope.

Definition pmul (k : Z) (d : point) : point := (k * fst d, k * snd d).
Definition at_dist (p d : point) (k : Z) : point := padd p (pmul k d).

Lemma at_dist_0 p d : at_dist p d 0 = p.
Proof. unfold at_dist, padd, pmul. destruct p, d; cbn [fst snd]. f_equal; ring. Qed.
Lemma at_dist_S p d k : at_dist (padd p d) d k = at_dist p d (k + 1).
Proof. unfold at_dist, padd, pmul. destruct p, d; cbn [fst snd]. f_equal; ring. Qed.

(* soundness: what walk returns is the first non-empty square along the ray *)
Lemma walk_sound fuel b d : forall p s,
  walk fuel b p d = Some s ->
  exists k, 0 <= k < Z.of_nat fuel /\ s = get b (at_dist p d k) /\ is_empty s = false /\
            forall j, 0 <= j < k -> is_empty (get b (at_dist p d j)) = true.
Proof.
  induction fuel as [|f IH]; intros p s H; cbn [walk] in H; [discriminate|].
  destruct (is_empty (get b p)) eqn:E.
  - destruct (IH _ _ H) as [k [Hk [Hs [Hne Hall]]]].
    exists (k + 1). rewrite <- at_dist_S. repeat split; try lia; auto.
    intros j Hj. destruct (Z.eq_dec j 0) as [->|Hj0]; [rewrite at_dist_0; exact E|].
    replace j with ((j - 1) + 1) by ring. rewrite <- at_dist_S. apply Hall. lia.
  - inversion H; subst. exists 0. rewrite at_dist_0. repeat split; try lia; auto.
Qed.

(* completeness: if the first non-empty square is at distance k < fuel, walk returns it *)
Lemma walk_complete fuel b d : forall p k,
  0 <= k < Z.of_nat fuel ->
  is_empty (get b (at_dist p d k)) = false ->
  (forall j, 0 <= j < k -> is_empty (get b (at_dist p d j)) = true) ->
  walk fuel b p d = Some (get b (at_dist p d k)).
Proof.
  induction fuel as [|f IH]; intros p k Hk Hne Hall; [lia|]. cbn [walk].
  destruct (Z.eq_dec k 0) as [->|Hk0].
  - rewrite at_dist_0 in *. rewrite Hne. reflexivity.
  - pose proof (Hall 0 ltac:(lia)) as H0. rewrite at_dist_0 in H0. rewrite H0.
    replace k with ((k - 1) + 1) by ring. rewrite <- at_dist_S. apply IH.
    + lia.
    + rewrite at_dist_S. replace (k - 1 + 1) with k by ring. exact Hne.
    + intros j Hj. rewrite at_dist_S. apply Hall. lia.
Qed.

(* the ring: every cell outside the inner 8x8 reads Boundary *)
Definition ring_ok (b : cells) : Prop := forall p, is_inner p = false -> get b p = Boundary.

Definition unit_dir (d : point) : Prop := (fst d = 0 \/ fst d = 1 \/ fst d = -1) /\ (snd d = 0 \/ snd d = 1 \/ snd d = -1) /\ d <> (0, 0).

(* from an inner square, some square within 8 further steps is outside the inner board *)
Lemma leaves_inner p d : is_inner p = true -> unit_dir d ->
  exists k, 1 <= k <= 8 /\ is_inner (at_dist p d k) = false.
Proof.
  intros Hp [Hf [Hs Hd]]. apply is_inner_spec in Hp. destruct p as [r c], d as [dr dc]; cbn [fst snd] in *.
  assert (Hcase : dr = 1 \/ dr = -1 \/ (dr = 0 /\ (dc = 1 \/ dc = -1))).
  { destruct Hf as [-> | [-> | ->]]; auto. right; right; split; auto. destruct Hs as [-> | [-> | ->]]; auto. exfalso; apply Hd; reflexivity. }
  assert (Hout : forall k, (r + k * dr < 2 \/ 10 <= r + k * dr \/ c + k * dc < 2 \/ 10 <= c + k * dc) ->
                           is_inner (at_dist (r, c) (dr, dc) k) = false).
  { intros k Hk. destruct (is_inner (at_dist (r, c) (dr, dc) k)) eqn:E; [|reflexivity].
    apply is_inner_spec in E. unfold at_dist, padd, pmul in E; cbn [fst snd] in E. lia. }
  destruct Hcase as [-> | [-> | [-> [-> | ->]]]].
  - exists (10 - r). split; [lia|]. apply Hout. lia.
  - exists (r - 1). split; [lia|]. apply Hout. lia.
  - exists (10 - c). split; [lia|]. apply Hout. lia.
  - exists (c - 1). split; [lia|]. apply Hout. lia.
Qed.

(* termination: with the ring in place the walk from a neighbour of an inner square never runs out of fuel *)
Lemma walk_terminates b p d :
  ring_ok b -> is_inner p = true -> unit_dir d -> walk 12 b (padd p d) d <> None.
Proof.
  intros R Hp Hd. destruct (leaves_inner p d Hp Hd) as [k [Hk Hout]].
  (* the least j in 1..k whose square is non-empty exists because square k is Boundary *)
  assert (Hex : exists j, 0 <= j < 9 /\ is_empty (get b (at_dist (padd p d) d j)) = false /\
                          forall i, 0 <= i < j -> is_empty (get b (at_dist (padd p d) d i)) = true).
  { assert (Hk' : is_empty (get b (at_dist (padd p d) d (k - 1))) = false).
    { rewrite at_dist_S. replace (k - 1 + 1) with k by ring. rewrite (R _ Hout). reflexivity. }
    clear Hout.
    assert (G : forall n : nat, (forall i, 0 <= i < Z.of_nat n -> is_empty (get b (at_dist (padd p d) d i)) = true) \/
                                 exists j, 0 <= j < Z.of_nat n /\ is_empty (get b (at_dist (padd p d) d j)) = false /\
                                           forall i, 0 <= i < j -> is_empty (get b (at_dist (padd p d) d i)) = true).
    { induction n as [|n IHn]; [left; intros i Hi; lia|].
      destruct IHn as [Hall|[j [Hj [Hne Hbefore]]]].
      - destruct (is_empty (get b (at_dist (padd p d) d (Z.of_nat n)))) eqn:E.
        + left. intros i Hi. destruct (Z.eq_dec i (Z.of_nat n)) as [->|]; [exact E|apply Hall; lia].
        + right. exists (Z.of_nat n). repeat split; try lia; auto.
      - right. exists j. repeat split; try lia; auto. }
    destruct (G (Z.to_nat k)) as [Hall|[j [Hj [Hne Hb]]]].
    - rewrite Hall in Hk' by lia. discriminate.
    - exists j. repeat split; try lia; auto. }
  destruct Hex as [j [Hj [Hne Hall]]].
  rewrite (walk_complete 12 b d (padd p d) j); [discriminate| |exact Hne|exact Hall].
  change (Z.of_nat 12) with 12. lia.
Qed.

(* all the directions the code uses are unit directions *)
Definition unit_dirb (d : point) : bool :=
  ((fst d =? 0) || (fst d =? 1) || (fst d =? -1)) && ((snd d =? 0) || (snd d =? 1) || (snd d =? -1))
  && negb (point_eqb d (0, 0)).

Lemma unit_dirb_sound d : unit_dirb d = true -> unit_dir d.
Proof.
  unfold unit_dirb, unit_dir. rewrite !andb_true_iff, !orb_true_iff, !Z.eqb_eq, negb_true_iff.
  intros [[H1 H2] H3]. repeat split; try tauto.
  intros E. subst d. cbn in H3. discriminate.
Qed.

Lemma forallb_unit_dirs l : forallb unit_dirb l = true -> Forall unit_dir l.
Proof.
  intros H. apply Forall_forall. intros d Hd. apply unit_dirb_sound.
  rewrite forallb_forall in H. now apply H.
Qed.

Lemma dirs_are_unit :
  Forall unit_dir ROOK_DIRS_CHK /\ Forall unit_dir BISHOP_DIRS_CHK /\ Forall unit_dir ROOK_DIRS_GEN /\ Forall unit_dir BISHOP_DIRS_GEN.
Proof. repeat split; apply forallb_unit_dirs; vm_compute; reflexivity. Qed.
