(* The single extraction file.  Directives used: ExtrOcamlBasic only
   (bool, option, list, prod, unit, sumbool mapped to the OCaml types).
   Z, N, positive and nat stay the extracted inductive datatypes. No Extract Constant. *)
From Coq Require Extraction.
From Coq Require Import ExtrOcamlBasic.
From Walleye Require Import Model.TextMove Model.Eval Model.Search Model.TimeControl Model.Uci Spec.Minimax Spec.Chess Spec.Abs Spec.FenPrint
  Proofs.Preservation.


Extraction "walleye_model.ml"
  from_fen point_from_str show_point generate_moves is_check is_check_cords get_evaluation
  make_move play_out_position best_move_text dt_add dt_remove dt_count is_threefold_repetition
  abs desc hash rep_ok wf_cells kings_cached
  legal_moves legal_captures pseudo_moves apply attacked in_check king_sq legal_position is_capture promotes
  is_checkmate is_stalemate mate_in mated_in pt_of_sq sq_of_pt all_sq pget
  root_values negamax negamax_ab get_best_move stable_sort_desc quiesce alpha_beta new_search calculate_time_slice parse_go_command clean_input step run
  pos_ok1b rep_legalb
  print_fen parse_signed parse_unsigned is_whitespace utf8_len trim_newline split_on.
