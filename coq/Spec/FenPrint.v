(* Printing a rules-level position as a FEN string (the inverse direction of the loader). *)
From Walleye Require Export Spec.Chess Model.Str.
Open Scope Z_scope.

Definition piece_letter (pc : piece) : N :=
  let base := match pkind pc with
              | Pawn => 112 | Knight => 110 | Bishop => 98 | Rook => 114 | Queen => 113 | King => 107 end%N in
  match pcolor pc with White => (base - 32)%N | Black => base end.

(* one rank, files a..h, runs of empty squares as a digit *)
Fixpoint fen_rank (cells : list (option piece)) (run : N) : str :=
  match cells with
  | [] => if (run =? 0)%N then [] else [(48 + run)%N]
  | None :: t => fen_rank t (run + 1)%N
  | Some pc :: t => (if (run =? 0)%N then [] else [(48 + run)%N]) ++ piece_letter pc :: fen_rank t 0%N
  end.

Definition rank_cells (pl : placement) (r : Z) : list (option piece) := map (fun f => pget pl (f, r)) range8.

Fixpoint join_with (sep : N) (l : list str) : str :=
  match l with [] => [] | [x] => x | x :: t => x ++ sep :: join_with sep t end.

(* decimal digits of a non-negative number, with fuel *)
Fixpoint dec_digits (fuel : nat) (n : Z) (acc : str) : str :=
  match fuel with
  | O => acc
  | S f => let acc' := (48 + Z.to_N (n mod 10))%N :: acc in
           if n / 10 =? 0 then acc' else dec_digits f (n / 10) acc'
  end.
Definition show_nat (n : Z) : str := dec_digits 40 n [].

Definition print_fen (p : position) (half full : Z) : str :=
  let rows := map (fun r => fen_rank (rank_cells (pos_pl p) r) 0%N) [7; 6; 5; 4; 3; 2; 1; 0] in
  let rights := (if pos_wk p then [75%N] else []) ++ (if pos_wq p then [81%N] else [])
                ++ (if pos_bk p then [107%N] else []) ++ (if pos_bq p then [113%N] else []) in
  join_with 47%N rows ++ [32%N]
  ++ [match pos_stm p with White => 119%N | Black => 98%N end] ++ [32%N]
  ++ (match rights with [] => [45%N] | _ => rights end) ++ [32%N]
  ++ (match pos_ep p with
      | Some (f, r) => [(97 + Z.to_N f)%N; (49 + Z.to_N r)%N]
      | None => [45%N] end) ++ [32%N]
  ++ show_nat half ++ [32%N] ++ show_nat full.
