(* Abstraction from the engine's BoardState to a rules-level position, the from-scratch hash,
   and the representation invariant. *)
From Walleye Require Export Model.Zobrist Spec.Chess.
Open Scope Z_scope.

(* board point of an 8x8 square and back *)
Definition pt_of_sq (q : sq) : point := (BOARD_END - 1 - snd q, fst q + BOARD_START).
Definition sq_of_pt (p : point) : sq := (snd p - BOARD_START, BOARD_END - 1 - fst p).

Definition opt_of_square (s : square) : option piece := match s with Full pc => Some pc | _ => None end.

Definition abs_placement (b : cells) : placement := map (fun q => opt_of_square (get b (pt_of_sq q))) all_sq.

Definition abs (s : BoardState) : position :=
  mkPos (abs_placement (board s)) (to_move s) (wks s) (wqs s) (bks s) (bqs s)
        (match pawn_double_move s with Some p => Some (sq_of_pt p) | None => None end).

(* the move descriptor a successor carries *)
Definition desc (s : BoardState) : option move :=
  match last_move s with
  | Some (a, b) => Some (mkMove (sq_of_pt a) (sq_of_pt b)
                               (match pawn_promotion s with Some pp => Some (pkind pp) | None => None end))
  | None => None
  end.

Section Hash.
Variable zt : ztable.

(* the key computed from scratch for a position: placement, side to move, rights, ep file *)
Definition hash_placement (pl : placement) : N :=
  fold_left (fun k q => match pget pl q with Some pc => N.lxor k (z_piece zt pc (pt_of_sq q)) | None => k end) all_sq 0%N.

Definition hash (p : position) : N :=
  let k := hash_placement (pos_pl p) in
  let k := match pos_stm p with Black => N.lxor k (z_black zt) | White => k end in
  let k := if pos_wk p then N.lxor k (z_castle zt WKS) else k in
  let k := if pos_wq p then N.lxor k (z_castle zt WQS) else k in
  let k := if pos_bk p then N.lxor k (z_castle zt BKS) else k in
  let k := if pos_bq p then N.lxor k (z_castle zt BQS) else k in
  match pos_ep p with Some e => N.lxor k (z_ep zt (fst e + BOARD_START)) | None => k end.

(* ring cells are Boundary, inner cells are not *)
Definition wf_cells (b : cells) : bool :=
  Nat.eqb (length b) 144
  && forallb (fun r => forallb (fun c =>
       let s := get b (r, c) in
       if is_inner (r, c) then negb (square_eqb s Boundary) else square_eqb s Boundary)
     [0; 1; 2; 3; 4; 5; 6; 7; 8; 9; 10; 11]) [0; 1; 2; 3; 4; 5; 6; 7; 8; 9; 10; 11].

Definition kings_cached (s : BoardState) : bool :=
  let pl := abs_placement (board s) in
  match king_squares pl White, king_squares pl Black with
  | [w], [k] => point_eqb (white_king_location s) (pt_of_sq w) && point_eqb (black_king_location s) (pt_of_sq k)
  | _, _ => false
  end.

Definition pdm_inner (s : BoardState) : bool :=
  match pawn_double_move s with Some p => is_inner p | None => true end.

(* the representation is coherent: sentinel ring, king caches, key *)
Definition rep_ok (s : BoardState) : bool :=
  wf_cells (board s) && kings_cached s && pdm_inner s && (zobrist_key s =? hash (abs s))%N.

End Hash.
