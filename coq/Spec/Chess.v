(* The rules of chess on a plain 8x8 board, written independently of the engine's data layout:
   no sentinel ring, no cached king squares, no incremental state.  Squares are (file, rank),
   both 0..7 (a1 = (0,0), h8 = (7,7)).  Everything is executable: this file is the oracle the
   implementation is hunted against, and the specification the model is proved against. *)
From Walleye Require Export Model.Prim.
Open Scope Z_scope.

Definition sq := (Z * Z)%type.

Definition on8 (q : sq) : bool := (0 <=? fst q) && (fst q <? 8) && (0 <=? snd q) && (snd q <? 8).
Definition sq_eqb (a b : sq) : bool := (fst a =? fst b) && (snd a =? snd b).
Definition sadd (a d : sq) : sq := (fst a + fst d, snd a + snd d).

Definition placement := list (option piece).          (* 64 entries, index 8*rank + file *)

Definition pidx (q : sq) : nat := Z.to_nat (8 * snd q + fst q).
Definition pget (pl : placement) (q : sq) : option piece :=
  if on8 q then nth (pidx q) pl None else None.
Fixpoint upd_nth {A} (n : nat) (v : A) (l : list A) : list A :=
  match l with
  | [] => []
  | x :: t => match n with O => v :: t | S n' => x :: upd_nth n' v t end
  end.
Definition pset (pl : placement) (q : sq) (v : option piece) : placement :=
  if on8 q then upd_nth (pidx q) v pl else pl.

Record position := mkPos {
  pos_pl : placement;
  pos_stm : color;
  pos_wk : bool; pos_wq : bool; pos_bk : bool; pos_bq : bool;   (* castling rights K Q k q *)
  pos_ep : option sq
}.

Record move := mkMove { mfrom : sq; mto : sq; mpromo : option kind }.

Definition range8 : list Z := [0; 1; 2; 3; 4; 5; 6; 7].
Definition all_sq : list sq := flat_map (fun r => map (fun f => (f, r)) range8) range8.

Definition forward (c : color) : Z := match c with White => 1 | Black => -1 end.
Definition last_rank (c : color) : Z := match c with White => 7 | Black => 0 end.
Definition pawn_start_rank (c : color) : Z := match c with White => 1 | Black => 6 end.
Definition home_rank (c : color) : Z := match c with White => 0 | Black => 7 end.

Definition knight_offsets : list sq :=
  [(1, 2); (2, 1); (2, -1); (1, -2); (-1, -2); (-2, -1); (-2, 1); (-1, 2)].
Definition king_step_offsets : list sq :=
  [(1, 0); (1, 1); (0, 1); (-1, 1); (-1, 0); (-1, -1); (0, -1); (1, -1)].
Definition rook_dirs : list sq := [(1, 0); (-1, 0); (0, 1); (0, -1)].
Definition bishop_dirs : list sq := [(1, 1); (1, -1); (-1, 1); (-1, -1)].
Definition slider_dirs (k : kind) : list sq :=
  match k with
  | Rook => rook_dirs
  | Bishop => bishop_dirs
  | Queen => rook_dirs ++ bishop_dirs
  | _ => []
  end.

Definition occupied (pl : placement) (q : sq) : bool :=
  match pget pl q with Some _ => true | None => false end.
Definition has_color (pl : placement) (q : sq) (c : color) : bool :=
  match pget pl q with Some pc => color_eqb (pcolor pc) c | None => false end.

(* a slider standing on the square before [cur] and moving along d reaches t
   iff every square strictly before t is empty *)
Fixpoint reaches (fuel : nat) (pl : placement) (cur d t : sq) : bool :=
  match fuel with
  | O => false
  | S f =>
      if negb (on8 cur) then false
      else if sq_eqb cur t then true
      else if occupied pl cur then false
      else reaches f pl (sadd cur d) d t
  end.

(* the piece standing on q attacks the square t (movement rules only; q <> t) *)
Definition attacks (pl : placement) (q t : sq) : bool :=
  match pget pl q with
  | None => false
  | Some pc =>
      match pkind pc with
      | Pawn => (snd t =? snd q + forward (pcolor pc)) && ((fst t =? fst q + 1) || (fst t =? fst q - 1))
      | Knight => existsb (fun d => sq_eqb (sadd q d) t) knight_offsets
      | King => existsb (fun d => sq_eqb (sadd q d) t) king_step_offsets
      | k => existsb (fun d => reaches 8 pl (sadd q d) d t) (slider_dirs k)
      end
  end.

(* t is attacked by some piece of colour [by] *)
Definition attacked (pl : placement) (by_ : color) (t : sq) : bool :=
  existsb (fun q => has_color pl q by_ && attacks pl q t) all_sq.

Definition is_king_of (c : color) (o : option piece) : bool :=
  match o with Some pc => color_eqb (pcolor pc) c && kind_eqb (pkind pc) King | None => false end.
Definition king_squares (pl : placement) (c : color) : list sq :=
  filter (fun q => is_king_of c (pget pl q)) all_sq.
Definition king_sq (pl : placement) (c : color) : sq :=
  match king_squares pl c with q :: _ => q | [] => (-1, -1) end.
Definition in_check (pl : placement) (c : color) : bool :=
  attacked pl (opposite c) (king_sq pl c).

(* ---- playing a move *)
Definition is_pawn (o : option piece) : bool :=
  match o with Some pc => kind_eqb (pkind pc) Pawn | None => false end.
Definition is_king (o : option piece) : bool :=
  match o with Some pc => kind_eqb (pkind pc) King | None => false end.

Definition is_ep_capture (p : position) (m : move) : bool :=
  is_pawn (pget (pos_pl p) (mfrom m)) && negb (fst (mfrom m) =? fst (mto m))
  && match pos_ep p with Some t => sq_eqb t (mto m) | None => false end
  && negb (occupied (pos_pl p) (mto m)).

Definition is_castle_move (p : position) (m : move) : bool :=
  is_king (pget (pos_pl p) (mfrom m)) && (Z.abs (fst (mto m) - fst (mfrom m)) =? 2).

Definition is_capture (p : position) (m : move) : bool :=
  occupied (pos_pl p) (mto m) || is_ep_capture p m.

Definition touches (m : move) (q : sq) : bool := sq_eqb (mfrom m) q || sq_eqb (mto m) q.

Definition apply (p : position) (m : move) : position :=
  let pl := pos_pl p in
  let mover := pget pl (mfrom m) in
  let placed := match mpromo m, mover with
                | Some k, Some pc => Some (mkPiece (pcolor pc) k)
                | _, _ => mover
                end in
  let pl1 := pset (pset pl (mfrom m) None) (mto m) placed in
  let pl2 := if is_ep_capture p m then pset pl1 (fst (mto m), snd (mfrom m)) None else pl1 in
  let pl3 :=
    if is_castle_move p m then
      let r := snd (mfrom m) in
      if fst (mto m) >? fst (mfrom m)
      then pset (pset pl2 (7, r) None) (5, r) (pget pl2 (7, r))
      else pset (pset pl2 (0, r) None) (3, r) (pget pl2 (0, r))
    else pl2 in
  let ep' :=
    if is_pawn mover && (Z.abs (snd (mto m) - snd (mfrom m)) =? 2)
    then Some (fst (mfrom m), (snd (mfrom m) + snd (mto m)) / 2) else None in
  mkPos pl3 (opposite (pos_stm p))
        (pos_wk p && negb (touches m (4, 0)) && negb (touches m (7, 0)))
        (pos_wq p && negb (touches m (4, 0)) && negb (touches m (0, 0)))
        (pos_bk p && negb (touches m (4, 7)) && negb (touches m (7, 7)))
        (pos_bq p && negb (touches m (4, 7)) && negb (touches m (0, 7)))
        ep'.

(* ---- pseudo-legal moves, by the movement rules *)
Definition promo_fanout (c : color) (from to : sq) : list move :=
  if snd to =? last_rank c
  then map (fun k => mkMove from to (Some k)) [Queen; Rook; Bishop; Knight]
  else [mkMove from to None].

Definition pawn_moves_spec (p : position) (q : sq) (c : color) : list move :=
  let pl := pos_pl p in
  let f := fst q in let r := snd q in let fw := forward c in
  let one := (f, r + fw) in
  let two := (f, r + 2 * fw) in
  (if on8 one && negb (occupied pl one) then
     promo_fanout c q one ++
     (if (r =? pawn_start_rank c) && on8 two && negb (occupied pl two) then [mkMove q two None] else [])
   else [])
  ++ flat_map (fun df =>
       let t := (f + df, r + fw) in
       if on8 t then
         if has_color pl t (opposite c) then promo_fanout c q t
         else match pos_ep p with
              | Some e => if sq_eqb e t && negb (occupied pl t) then [mkMove q t None] else []
              | None => []
              end
       else []) [-1; 1].

Definition step_moves_spec (pl : placement) (q : sq) (c : color) (offs : list sq) : list move :=
  flat_map (fun d => let t := sadd q d in
                     if on8 t && negb (has_color pl t c) then [mkMove q t None] else []) offs.

Fixpoint slide_spec (fuel : nat) (pl : placement) (q cur d : sq) (c : color) : list move :=
  match fuel with
  | O => []
  | S f =>
      if negb (on8 cur) then []
      else match pget pl cur with
           | None => mkMove q cur None :: slide_spec f pl q (sadd cur d) d c
           | Some pc => if color_eqb (pcolor pc) c then [] else [mkMove q cur None]
           end
  end.

Definition has_right (p : position) (c : color) (king_side : bool) : bool :=
  match c, king_side with
  | White, true => pos_wk p | White, false => pos_wq p
  | Black, true => pos_bk p | Black, false => pos_bq p
  end.

(* castling: right held, king and rook at home, squares between empty,
   king's start, transit and destination squares not attacked by any enemy piece *)
Definition castle_moves_spec (p : position) : list move :=
  let pl := pos_pl p in
  let c := pos_stm p in
  let r := home_rank c in
  let enemy := opposite c in
  let king_home := is_king_of c (pget pl (4, r)) in
  let rook_at (f : Z) := match pget pl (f, r) with
                         | Some pc => color_eqb (pcolor pc) c && kind_eqb (pkind pc) Rook
                         | None => false end in
  (if has_right p c true && king_home && rook_at 7
      && negb (occupied pl (5, r)) && negb (occupied pl (6, r))
      && negb (attacked pl enemy (4, r)) && negb (attacked pl enemy (5, r)) && negb (attacked pl enemy (6, r))
   then [mkMove (4, r) (6, r) None] else [])
  ++ (if has_right p c false && king_home && rook_at 0
      && negb (occupied pl (1, r)) && negb (occupied pl (2, r)) && negb (occupied pl (3, r))
      && negb (attacked pl enemy (4, r)) && negb (attacked pl enemy (3, r)) && negb (attacked pl enemy (2, r))
   then [mkMove (4, r) (2, r) None] else []).

Definition piece_moves_spec (p : position) (q : sq) : list move :=
  match pget (pos_pl p) q with
  | None => []
  | Some pc =>
      let c := pcolor pc in
      if negb (color_eqb c (pos_stm p)) then []
      else match pkind pc with
           | Pawn => pawn_moves_spec p q c
           | Knight => step_moves_spec (pos_pl p) q c knight_offsets
           | King => step_moves_spec (pos_pl p) q c king_step_offsets
           | k => flat_map (fun d => slide_spec 8 (pos_pl p) q (sadd q d) d c) (slider_dirs k)
           end
  end.

Definition pseudo_moves (p : position) : list move :=
  flat_map (piece_moves_spec p) all_sq ++ castle_moves_spec p.

(* a move is legal iff it follows the movement rules and does not leave the mover's king attacked *)
Definition legal_moves (p : position) : list move :=
  filter (fun m => negb (in_check (pos_pl (apply p m)) (pos_stm p))) (pseudo_moves p).

Definition legal_captures (p : position) : list move := filter (is_capture p) (legal_moves p).

Definition promotes (p : position) (m : move) : bool :=
  is_pawn (pget (pos_pl p) (mfrom m)) && (snd (mto m) =? last_rank (pos_stm p)).

(* ---- legal positions, as stated in C01 *)
Definition count_piece (pl : placement) (pc : piece) : nat :=
  length (filter (fun q => match pget pl q with Some x => piece_eqb x pc | None => false end) all_sq).
Definition piece_at (pl : placement) (q : sq) (pc : piece) : bool :=
  match pget pl q with Some x => piece_eqb x pc | None => false end.

Definition ep_ok (p : position) : bool :=
  match pos_ep p with
  | None => true
  | Some (f, r) =>
      let pl := pos_pl p in
      match pos_stm p with
      | White => (r =? 5) && negb (occupied pl (f, 5)) && negb (occupied pl (f, 6)) && piece_at pl (f, 4) (mkPiece Black Pawn)
      | Black => (r =? 2) && negb (occupied pl (f, 2)) && negb (occupied pl (f, 1)) && piece_at pl (f, 3) (mkPiece White Pawn)
      end && on8 (f, r)
  end.

Definition legal_position (p : position) : bool :=
  let pl := pos_pl p in
  Nat.eqb (length pl) 64
  && Nat.eqb (count_piece pl (mkPiece White King)) 1 && Nat.eqb (count_piece pl (mkPiece Black King)) 1
  && negb (in_check pl (opposite (pos_stm p)))
  && forallb (fun f => negb (is_pawn (pget pl (f, 0))) && negb (is_pawn (pget pl (f, 7)))) range8
  && (implb (pos_wk p) (piece_at pl (4, 0) (mkPiece White King) && piece_at pl (7, 0) (mkPiece White Rook)))
  && (implb (pos_wq p) (piece_at pl (4, 0) (mkPiece White King) && piece_at pl (0, 0) (mkPiece White Rook)))
  && (implb (pos_bk p) (piece_at pl (4, 7) (mkPiece Black King) && piece_at pl (7, 7) (mkPiece Black Rook)))
  && (implb (pos_bq p) (piece_at pl (4, 7) (mkPiece Black King) && piece_at pl (0, 7) (mkPiece Black Rook)))
  && ep_ok p.

(* ---- mate and stalemate *)
Definition is_checkmate (p : position) : bool :=
  match legal_moves p with [] => in_check (pos_pl p) (pos_stm p) | _ => false end.
Definition is_stalemate (p : position) : bool :=
  match legal_moves p with [] => negb (in_check (pos_pl p) (pos_stm p)) | _ => false end.

(* the side to move can force mate in at most n of its own moves *)
Fixpoint mate_in (n : nat) (p : position) : bool :=
  match n with
  | O => false
  | S n' =>
      existsb (fun m =>
                 let p1 := apply p m in
                 is_checkmate p1 ||
                 (match legal_moves p1 with
                  | [] => false
                  | ms => forallb (fun m1 => mate_in n' (apply p1 m1)) ms
                  end)) (legal_moves p)
  end.
(* the side to move is mated within n moves of the opponent whatever it plays *)
Definition mated_in (n : nat) (p : position) : bool :=
  match n with
  | O => is_checkmate p
  | S _ =>
      is_checkmate p ||
      match legal_moves p with
      | [] => false
      | ms => forallb (fun m => mate_in n (apply p m)) ms
      end
  end.
