(* The value the search is specified to return at shallow depth: plain negamax of the engine's own
   static evaluation over its own move generation, with the engine's leaf rules (repetition = 0,
   check extension at depth 0, capture quiescence, mate = -(MATE - ply), stalemate = 0).
   [negamax] is the readable definition (max over all lines, no window); [negamax_ab] is a plain
   fail-soft alpha-beta used as the executable oracle (proved to compute [negamax] in
   Proofs/AlphaBeta.v). No PVS, no killers, no null move. *)
From Walleye Require Export Model.Search.
Open Scope Z_scope.

Section Minimax.
Variable zt : ztable.

(* maximum of the negated child values, threaded through option *)
Definition max_children (rec : BoardState -> option Z) (ms : list BoardState) (init : option Z) : option Z :=
  fold_left (fun acc mov =>
               match acc, rec mov with
               | Some a, Some v => Some (Z.max a (- v))
               | _, _ => None
               end) ms init.

Fixpoint qvalue (fuel : nat) (b : BoardState) : option Z :=
  match fuel with
  | O => None
  | S f => max_children (qvalue f) (generate_moves zt b CapturesOnly) (Some (get_evaluation b))
  end.

Fixpoint negamax (fuel : nat) (b : BoardState) (depth ply : Z) (t : dtable) : option Z :=
  match fuel with
  | O => None
  | S f =>
      if is_threefold_repetition t b then Some 0
      else
        let t' := dt_add t b in
        let chk := is_check b (to_move b) in
        if (depth =? 0) && negb chk then qvalue f b
        else
          let depth := if depth =? 0 then 1 else depth in
          match generate_moves zt b AllMoves with
          | [] => if chk then Some (- (MATE_SCORE - ply)) else Some 0
          | m0 :: rest =>
              max_children (fun mov => negamax f mov (depth - 1) (ply + 1) t') rest
                           (match negamax f m0 (depth - 1) (ply + 1) t' with Some v => Some (- v) | None => None end)
          end
  end.

(* the alpha-beta move loop: [rec mov a b] is the child's value in the window (a, b) *)
Fixpoint ab_children (rec : BoardState -> Z -> Z -> option Z) (beta : Z)
         (ms : list BoardState) (alpha : Z) (best : option Z) : option Z :=
  match ms with
  | [] => best
  | mov :: rest =>
      match rec mov (- beta) (- alpha) with
      | None => None
      | Some v =>
          let score := - v in
          let best' := match best with Some x => Z.max x score | None => score end in
          if beta <=? score then Some best' else ab_children rec beta rest (Z.max alpha score) (Some best')
      end
  end.

Fixpoint qvalue_ab (fuel : nat) (b : BoardState) (alpha beta : Z) : option Z :=
  match fuel with
  | O => None
  | S f =>
      let sp := get_evaluation b in
      if beta <=? sp then Some sp
      else ab_children (qvalue_ab f) beta (stable_sort_desc (generate_moves zt b CapturesOnly)) (Z.max alpha sp) (Some sp)
  end.

Fixpoint negamax_ab (fuel : nat) (b : BoardState) (depth ply alpha beta : Z) (t : dtable) : option Z :=
  match fuel with
  | O => None
  | S f =>
      if is_threefold_repetition t b then Some 0
      else
        let t' := dt_add t b in
        let chk := is_check b (to_move b) in
        if (depth =? 0) && negb chk then qvalue_ab f b alpha beta
        else
          let depth := if depth =? 0 then 1 else depth in
          match generate_moves zt b AllMoves with
          | [] => if chk then Some (- (MATE_SCORE - ply)) else Some 0
          | moves =>
              ab_children (fun mov a b => negamax_ab f mov (depth - 1) (ply + 1) a b t') beta
                          (stable_sort_desc moves) alpha None
          end
  end.

Definition root_values (fuel : nat) (b : BoardState) (d : Z) (t : dtable) : list (BoardState * option Z) :=
  map (fun mov => (mov, match negamax_ab fuel mov (d - 1) 1 (- POS_INF) POS_INF t with
                        | Some v => Some (- v) | None => None end))
      (generate_moves zt b AllMoves).

End Minimax.
