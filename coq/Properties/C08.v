(* C08 - The engine always answers go and stays responsive (protocol logic; timing is measured). *)
From Walleye Require Import Model.Uci Proofs.SessionProofs Proofs.AlwaysAnswered.
Open Scope Z_scope.

(* checkmate / stalemate: one null-move answer, the session state is unchanged *)
Theorem C08_terminal_is_answered : forall zt osort st cmds sc gt,
  parse_go_command cmds = Ok gt -> generate_moves zt (ss_board st) AllMoves = [] ->
  go_step zt osort st cmds sc = (st, [s_bestmove ++ NULL_MOVE_TEXT]).
Proof. exact go_terminal. Qed.

(* the polling loop leaves iff the search sent something: with a send the go ends with a bestmove line *)
Theorem C08_answered_iff_sent : forall zt osort st cmds sc gt st' outs,
  parse_go_command cmds = Ok gt -> generate_moves zt (ss_board st) AllMoves <> [] ->
  go_step zt osort st cmds sc = (st', outs) -> ss_phase st' = Running ->
  (exists ev s b t,
      get_best_move zt osort (sc_k sc) (sc_fuel sc) (ss_board st) (ss_table st) = Ok (ev, s) /\
      In b (sends_of ev) /\ best_move_text b = Ok t /\
      ss_board st' = b /\ outs = infos_of ev ++ [s_bestmove ++ t])
  \/ (st' = st /\ exists ev s, get_best_move zt osort (sc_k sc) (sc_fuel sc) (ss_board st) (ss_table st) = Ok (ev, s)
                               /\ sends_of ev = [] /\ outs = infos_of ev).
Proof. exact go_answer_is_a_send. Qed.

(* afterwards isready is answered, in whatever running state the go left the session *)
Theorem C08_isready_after : forall zt osort st raw sc,
  ss_phase st = Running -> str_eqb (first_token raw) s_isready = true ->
  step zt osort st (Line raw) sc = (st, [s_readyok]).
Proof. exact isready_answered. Qed.

(* "a go is answered with a bestmove line ... however the search and I/O threads are scheduled": on the session model
   a schedule is the expiry index of the clock (the move played is the newest one handed over, F13); for
   every such schedule, in a position with at least one move, the go step prints one bestmove line (after its info
   lines) and the session keeps running from the move printed - the search never hands nothing back *)
Theorem C08_go_is_answered_under_every_schedule : forall zt osort,
  (forall i l, l <> [] -> osort i l <> []) ->
  forall st cmds sc gt st' outs,
  NULL_PLY_OFFSET * Z.of_nat (sc_fuel sc) + 1 <= 2 * MATE_SCORE ->
  parse_go_command cmds = Ok gt -> generate_moves zt (ss_board st) AllMoves <> [] ->
  go_step zt osort st cmds sc = (st', outs) -> ss_phase st' = Running ->
  exists ev s b t,
    get_best_move zt osort (sc_k sc) (sc_fuel sc) (ss_board st) (ss_table st) = Ok (ev, s) /\
    In b (sends_of ev) /\ best_move_text b = Ok t /\ ss_board st' = b /\ outs = infos_of ev ++ [s_bestmove ++ t].
Proof. exact go_is_answered. Qed.

Print Assumptions C08_terminal_is_answered.
Print Assumptions C08_go_is_answered_under_every_schedule.
Print Assumptions C08_answered_iff_sent.
Print Assumptions C08_isready_after.
