(* C15 - FEN input is parsed totally (and faithfully: decided by the correspondence on the
   specification's printer output and on a malformed stream). *)
From Walleye Require Import Model.Fen Spec.FenPrint Spec.Abs Proofs.FenProofs Proofs.CheckProofs Proofs.HashProofs Proofs.FenRoundTrip Proofs.FenAccept Proofs.FenLegal Gen.ZobristTable.
Open Scope Z_scope.

(* for every string (any sequence of Unicode scalar values) and every table: a board or an error,
   never a panic -- every slice index, array write and unwrap of the loader is guarded *)
Theorem C15_total : forall zt (s : str) n, from_fen zt s <> Panic n.
Proof. intros zt s. exact (from_fen_total zt s). Qed.

(* the counters are parsed in 32 bits: every value below 2^32 is accepted *)
Theorem C15_counters_32_bits : FEN_HALFMOVE_BITS = 32 /\ FEN_FULLMOVE_BITS = 32.
Proof. split; reflexivity. Qed.

(* faithful on what the specification prints: for every placement of 64 squares (any pieces, any number of
   kings), side to move, castling rights, en-passant square on the board and counters below 2^32, the
   printed FEN is accepted and the loaded state denotes exactly that position; nothing else of the state
   is left undetermined (heuristic 0, no last move, no promotion mark, key = hash) *)
Theorem C15_printed_position_is_read_back : forall zt p h f,
  length (pos_pl p) = 64%nat -> ep_wf (pos_ep p) -> 0 <= h < 2 ^ 32 -> 0 <= f < 2 ^ 32 ->
  exists st, from_fen zt (print_fen p h f) = Ok st /\ abs st = p /\ cells_ok (board st) /\ key_ok zt st /\
             order_heuristic st = 0 /\ last_move st = None /\ pawn_promotion st = None.
Proof.
  intros zt p h f L E Hh Hf. exists (loaded_state zt p). split; [now apply from_fen_print|].
  split; [now apply loaded_state_abs|]. split; [apply loaded_state_cells|]. split; [now apply loaded_state_key|]. repeat split.
Qed.

(* and on every accepted string, printed by the specification or not: the result is the state of some
   position with 64 squares and an en-passant square on the board (so: coherent board, key = hash) *)
Theorem C15_accepted_string_denotes_a_position : forall zt fen st, from_fen zt fen = Ok st ->
  exists p, st = loaded_state zt p /\ abs st = p /\ length (pos_pl p) = 64%nat /\ cells_ok (board st).
Proof.
  intros zt fen st H. destruct (accepted_is_loaded zt fen st H) as (p & -> & L & E). exists p.
  split; [reflexivity|]. split; [now apply loaded_state_abs|]. split; [exact L|apply loaded_state_cells].
Qed.

(* non-vacuity, and a tie of the printer to the engine's constant: the printed initial position is the
   engine's DEFAULT_FEN_STRING *)
Example C15_printer_prints_the_start_position : forall st,
  from_fen zt_concrete DEFAULT_FEN_STRING = Ok st -> print_fen (abs st) 0 1 = DEFAULT_FEN_STRING.
Proof. intros st H. vm_compute in H. injection H as <-. vm_compute. reflexivity. Qed.

Print Assumptions C15_total.
Print Assumptions C15_printed_position_is_read_back.
Print Assumptions C15_accepted_string_denotes_a_position.
Print Assumptions C15_counters_32_bits.
