(* C15 - FEN input is parsed totally (and faithfully: decided by the correspondence on the
   specification's printer output and on a malformed stream). *)
From Walleye Require Import Model.Fen Proofs.FenProofs.
Open Scope Z_scope.

(* for every string (any sequence of Unicode scalar values) and every table: a board or an error,
   never a panic -- every slice index, array write and unwrap of the loader is guarded *)
Theorem C15_total : forall zt (s : str) n, from_fen zt s <> Panic n.
Proof. intros zt s. exact (from_fen_total zt s). Qed.

(* the counters are parsed in 32 bits: every value below 2^32 is accepted *)
Theorem C15_counters_32_bits : FEN_HALFMOVE_BITS = 32 /\ FEN_FULLMOVE_BITS = 32.
Proof. split; reflexivity. Qed.

Print Assumptions C15_total.
Print Assumptions C15_counters_32_bits.
