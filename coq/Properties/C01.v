(* C01 - Generated moves are exactly the legal moves.
   Proved here, for every Zobrist table and every well-formed position (pos_ok: sentinel ring, king
   caches, castling rights only with king and rook at home, en-passant target behind a pawn that has just
   double-stepped, the side not to move not in check): every move the generator produces is a legal move
   of the rules, every legal move of the rules is produced, and none is produced twice (Spec.legal_moves: pseudo-legal by the movement rules - pawn pushes, captures, en passant,
   promotions, knight and king steps, slider rays, castling with right/empty squares/unattacked start,
   transit and destination - and not leaving the mover's king attacked).
   The model is tied to the code by the correspondence with the implementation on every run. *)
From Walleye Require Import Model.Successor Spec.Abs Proofs.CheckProofs Proofs.MoveGenProofs Proofs.GenerateAbs Proofs.LegalMoves Proofs.NoDupMoves
     Proofs.LegalPosition Proofs.Preservation Proofs.InitialPosition Proofs.FenLegal.
From Walleye Require Import Model.Fen Spec.FenPrint Gen.ZobristTable.
Open Scope Z_scope.

(* soundness: no illegal move appears *)
Theorem C01_generated_moves_are_legal : forall zt s x,
  pos_ok s AllMoves -> In x (generate_moves zt s AllMoves) ->
  exists mv, desc x = Some mv /\ In mv (legal_moves (abs s)).
Proof. exact generated_moves_are_legal. Qed.

(* completeness: no legal move is missing (pos_ok1 adds that the en-passant target lies on the sixth rank
   of the side to move, which every position reached by a double step satisfies) *)
Theorem C01_legal_moves_are_generated : forall zt s mv,
  pos_ok1 s -> In mv (legal_moves (abs s)) ->
  exists x, In x (generate_moves zt s AllMoves) /\ desc x = Some mv.
Proof. exact legal_moves_are_generated. Qed.

(* no move appears twice *)
Theorem C01_no_move_twice : forall zt s,
  pos_ok s AllMoves -> NoDup (map desc (generate_moves zt s AllMoves)).
Proof. exact generated_moves_NoDup. Qed.

(* the property as stated: the generated moves, identified by from-square, to-square and promotion piece,
   are exactly the legal moves, each once *)
Theorem C01_generated_moves_exactly_legal : forall zt s,
  pos_ok1 s ->
  (forall mv, In (Some mv) (map desc (generate_moves zt s AllMoves)) <-> In mv (legal_moves (abs s))) /\
  (forall x, In x (generate_moves zt s AllMoves) -> desc x <> None) /\
  NoDup (map desc (generate_moves zt s AllMoves)).
Proof.
  intros zt s PO. assert (PO' := PO). destruct PO' as [P _]. split; [|split].
  - intros mv. split.
    + intros H. apply in_map_iff in H. destruct H as [x [Hd Hx]].
      destruct (generated_moves_are_legal zt s x P Hx) as [mv' [Hd' Hl]]. congruence.
    + intros H. destruct (legal_moves_are_generated zt s mv PO H) as [x [Hx Hd]]. apply in_map_iff. exists x. auto.
  - intros x Hx. destruct (generated_moves_are_legal zt s x P Hx) as [mv [Hd _]]. congruence.
  - now apply generated_moves_NoDup.
Qed.

(* the hypothesis, read off the property: a coherent representation (sentinel ring, king caches) of a legal
   position in the sense of C01 (Spec.legal_position: one king a side, the side not to move not in check, no pawn
   on the first or last rank, castling rights only with king and rook at home, en-passant target directly behind
   a pawn that could just have double-stepped) satisfies pos_ok1 *)
Theorem C01_legal_positions_are_covered : forall s,
  cells_ok (board s) -> kings_ok s -> legal_position (abs s) = true -> pos_ok1 s.
Proof. exact legal_position_pos_ok1. Qed.

(* "positions reachable from any legal start by any legal move sequence": the hypothesis is an invariant of the
   generator, so it holds of every position reached through any chain of generated moves *)
Theorem C01_invariant_of_the_generator : forall zt s x,
  pos_ok1 s -> In x (generate_moves zt s AllMoves) -> pos_ok1 x.
Proof. exact generator_preserves_pos_ok1. Qed.

Theorem C01_holds_along_every_chain : forall zt s x,
  pos_ok1 s -> reachable zt s x ->
  (forall mv, In (Some mv) (map desc (generate_moves zt x AllMoves)) <-> In mv (legal_moves (abs x))) /\
  NoDup (map desc (generate_moves zt x AllMoves)).
Proof.
  intros zt s x PO R. pose proof (reachable_pos_ok1 zt s x PO R) as POx.
  destruct (C01_generated_moves_exactly_legal zt x POx) as (A & _ & C). split; assumption.
Qed.

(* no hypothesis left: every position of every game - any chain of generated (= legal) moves from the initial
   position as the engine's own loader builds it - has exactly the legal moves generated, each once *)
Theorem C01_every_game_from_the_initial_position : forall zt x,
  reachable zt initial_state x ->
  (forall mv, In (Some mv) (map desc (generate_moves zt x AllMoves)) <-> In mv (legal_moves (abs x))) /\
  NoDup (map desc (generate_moves zt x AllMoves)).
Proof. intros zt x R. destruct (every_game_position_is_covered zt x R) as (A & B0 & _). split; assumption. Qed.

(* the hypothesis is established by the engine's own loader: whatever string it accepts, if the position the
   loaded state denotes is legal in the sense of C01, then along every chain of generated moves from it the
   generated moves are exactly the legal ones, each once -- no representation hypothesis is left *)
Theorem C01_every_game_from_an_accepted_legal_position : forall zt fen st x,
  from_fen zt fen = Ok st -> legal_position (abs st) = true -> reachable zt st x ->
  (forall mv, In (Some mv) (map desc (generate_moves zt x AllMoves)) <-> In mv (legal_moves (abs x))) /\
  NoDup (map desc (generate_moves zt x AllMoves)).
Proof.
  intros zt fen st x H LP R. destruct (accepted_legal_is_covered zt fen st H LP) as (PO & _).
  exact (C01_holds_along_every_chain zt st x PO R).
Qed.

(* and every legal position can be handed over: its printed FEN is accepted and denotes it *)
Theorem C01_every_legal_position_can_be_loaded : forall zt p h f,
  legal_position p = true -> 0 <= h < 2 ^ 32 -> 0 <= f < 2 ^ 32 ->
  exists st, from_fen zt (print_fen p h f) = Ok st /\ abs st = p /\ pos_ok1 st.
Proof.
  intros zt p h f LP Hh Hf. destruct (legal_fen_is_loaded zt p h f LP Hh Hf) as (st & A & B0 & C & _). exists st. auto.
Qed.

(* a probed square that passes is_check_cords is not next to the enemy king:
   the king test looks at the probed square, not at the own king's square *)
Theorem C01_probe_sees_enemy_king : forall s c sq,
  is_check_cords s c sq = false ->
  let ak := king_location s (opposite c) in
  ~ (Z.abs (fst ak - fst sq) <= 1 /\ Z.abs (snd ak - snd sq) <= 1).
Proof. exact is_check_cords_false_not_adjacent. Qed.

(* castling is generated only with the right, empty squares between, and start, transit and
   destination squares all passing is_check_cords *)
Theorem C01_castle_conditions : forall s,
  can_castle_white_king_side s = true ->
  wks s = true /\ is_check s White = false /\
  is_check_cords s White (BOARD_END - 1, BOARD_END - 3) = false /\
  is_check_cords s White (BOARD_END - 1, BOARD_END - 2) = false /\
  is_empty (get (board s) (BOARD_END - 1, BOARD_END - 3)) = true /\
  is_empty (get (board s) (BOARD_END - 1, BOARD_END - 2)) = true.
Proof. exact can_castle_wks_safe. Qed.

(* the rules-level specification itself, against the published move-count (perft) numbers of the standard test
   positions: an independent check that Spec.legal_moves / Spec.apply are the rules of chess *)
Fixpoint spec_perft (n : nat) (p : position) : N :=
  match n with O => 1%N | S n' => fold_left (fun acc m => (acc + spec_perft n' (apply p m))%N) (legal_moves p) 0%N end.
Definition pos_of_fen (s : list N) : position :=
  match from_fen zt_concrete s with Ok st => abs st | _ => abs initial_state end.
Definition fen_kiwipete : list N := [114; 51; 107; 50; 114; 47; 112; 49; 112; 112; 113; 112; 98; 49; 47; 98; 110; 50; 112; 110; 112; 49; 47; 51; 80; 78; 51; 47; 49; 112; 50; 80; 51; 47; 50; 78; 50; 81; 49; 112; 47; 80; 80; 80; 66; 66; 80; 80; 80; 47; 82; 51; 75; 50; 82; 32; 119; 32; 75; 81; 107; 113; 32; 45; 32; 48; 32; 49]%N.   (* r3k2r/p1ppqpb1/bn2pnp1/3PN3/1p2P3/2N2Q1p/PPPBBPPP/R3K2R w KQkq - 0 1 *)
Definition fen_pos3 : list N := [56; 47; 50; 112; 53; 47; 51; 112; 52; 47; 75; 80; 53; 114; 47; 49; 82; 51; 112; 49; 107; 47; 56; 47; 52; 80; 49; 80; 49; 47; 56; 32; 119; 32; 45; 32; 45; 32; 48; 32; 49]%N.   (* 8/2p5/3p4/KP5r/1R3p1k/8/4P1P1/8 w - - 0 1 *)
Definition fen_pos4 : list N := [114; 51; 107; 50; 114; 47; 80; 112; 112; 112; 49; 112; 112; 112; 47; 49; 98; 51; 110; 98; 78; 47; 110; 80; 54; 47; 66; 66; 80; 49; 80; 51; 47; 113; 52; 78; 50; 47; 80; 112; 49; 80; 50; 80; 80; 47; 82; 50; 81; 49; 82; 75; 49; 32; 119; 32; 107; 113; 32; 45; 32; 48; 32; 49]%N.   (* r3k2r/Pppp1ppp/1b3nbN/nP6/BBP1P3/q4N2/Pp1P2PP/R2Q1RK1 w kq - 0 1 *)
Definition fen_pos5 : list N := [114; 110; 98; 113; 49; 107; 49; 114; 47; 112; 112; 49; 80; 98; 112; 112; 112; 47; 50; 112; 53; 47; 56; 47; 50; 66; 53; 47; 56; 47; 80; 80; 80; 49; 78; 110; 80; 80; 47; 82; 78; 66; 81; 75; 50; 82; 32; 119; 32; 75; 81; 32; 45; 32; 49; 32; 56]%N.   (* rnbq1k1r/pp1Pbppp/2p5/8/2B5/8/PPP1NnPP/RNBQK2R w KQ - 1 8 *)
Definition fen_pos6 : list N := [114; 52; 114; 107; 49; 47; 49; 112; 112; 49; 113; 112; 112; 112; 47; 112; 49; 110; 112; 49; 110; 50; 47; 50; 98; 49; 112; 49; 66; 49; 47; 50; 66; 49; 80; 49; 98; 49; 47; 80; 49; 78; 80; 49; 78; 50; 47; 49; 80; 80; 49; 81; 80; 80; 80; 47; 82; 52; 82; 75; 49; 32; 119; 32; 45; 32; 45; 32; 48; 32; 49; 48]%N.   (* r4rk1/1pp1qppp/p1np1n2/2b1p1B1/2B1P1b1/P1NP1N2/1PP1QPPP/R4RK1 w - - 0 10 *)
Example C01_specification_counts_the_published_perft_numbers :
  spec_perft 1 (abs initial_state) = 20%N /\
  spec_perft 2 (abs initial_state) = 400%N /\
  spec_perft 3 (abs initial_state) = 8902%N /\
  spec_perft 1 (pos_of_fen fen_kiwipete) = 48%N /\
  spec_perft 2 (pos_of_fen fen_kiwipete) = 2039%N /\
  spec_perft 1 (pos_of_fen fen_pos3) = 14%N /\
  spec_perft 2 (pos_of_fen fen_pos3) = 191%N /\
  spec_perft 3 (pos_of_fen fen_pos3) = 2812%N /\
  spec_perft 1 (pos_of_fen fen_pos4) = 6%N /\
  spec_perft 2 (pos_of_fen fen_pos4) = 264%N /\
  spec_perft 1 (pos_of_fen fen_pos5) = 44%N /\
  spec_perft 2 (pos_of_fen fen_pos5) = 1486%N /\
  spec_perft 1 (pos_of_fen fen_pos6) = 46%N /\
  spec_perft 2 (pos_of_fen fen_pos6) = 2079%N.
Proof. vm_compute. repeat split; reflexivity. Qed.

Print Assumptions C01_generated_moves_are_legal.
Print Assumptions C01_legal_moves_are_generated.
Print Assumptions C01_no_move_twice.
Print Assumptions C01_generated_moves_exactly_legal.
Print Assumptions C01_legal_positions_are_covered.
Print Assumptions C01_invariant_of_the_generator.
Print Assumptions C01_holds_along_every_chain.
Print Assumptions C01_every_game_from_the_initial_position.
Print Assumptions C01_every_game_from_an_accepted_legal_position.
Print Assumptions C01_every_legal_position_can_be_loaded.
Print Assumptions C01_probe_sees_enemy_king.
Print Assumptions C01_castle_conditions.
