(* C01 - Generated moves are exactly the legal moves (model-level part).
   Exactness against the rules is decided by the correspondence with the specification oracle
   (Spec.legal_moves) on enumerated geometry families and specification-generated games.  The theorems
   below are the facts about the model that the castling rules rest on, for every board. *)
From Walleye Require Import Model.Successor Proofs.MoveGenProofs.
Open Scope Z_scope.

(* a probed square that passes is_check_cords is not next to the enemy king:
   the king test looks at the probed square, not at the own king's square *)
Theorem C01_probe_sees_enemy_king : forall s c sq,
  is_check_cords s c sq = false ->
  let ak := king_location s (opposite c) in
  ~ (Z.abs (fst ak - fst sq) <= 1 /\ Z.abs (snd ak - snd sq) <= 1).
Proof. exact is_check_cords_false_not_adjacent. Qed.

(* castling is generated only with the right, empty squares between, and start, transit and
   destination squares all passing is_check_cords *)
Theorem C01_castle_conditions : forall s,
  can_castle_white_king_side s = true ->
  wks s = true /\ is_check s White = false /\
  is_check_cords s White (BOARD_END - 1, BOARD_END - 3) = false /\
  is_check_cords s White (BOARD_END - 1, BOARD_END - 2) = false /\
  is_empty (get (board s) (BOARD_END - 1, BOARD_END - 3)) = true /\
  is_empty (get (board s) (BOARD_END - 1, BOARD_END - 2)) = true.
Proof. exact can_castle_wks_safe. Qed.

Print Assumptions C01_probe_sees_enemy_king.
Print Assumptions C01_castle_conditions.
