(* C13 - Capture-only generation yields only real captures (model-level part).
   Exactness against the rules (legal captures, en passant included, along capture chains) is
   decided by the correspondence with the specification oracle; the theorems below hold for
   every board content. *)
From Walleye Require Import Model.Successor Proofs.MoveGenProofs.
Open Scope Z_scope.

(* every target square produced in capture-only mode holds a piece of the other colour *)
Theorem C13_capture_targets_are_enemy : forall pc p b x,
  In x (get_moves pc p b CapturesOnly) -> is_color (get b x) (opposite (pcolor pc)) = true.
Proof. exact capture_targets_are_enemy. Qed.

(* the only other capture-mode successor is the en-passant capture onto the recorded target,
   and it never carries a promotion piece *)
Theorem C13_en_passant_targets_recorded_square : forall zt s pc sq x,
  In x (en_passant_successor zt s pc sq) ->
  pawn_promotion x = None /\ exists mov, last_move x = Some (sq, mov) /\ Some mov = pawn_double_move s.
Proof. exact en_passant_successor_desc. Qed.

(* capture-only generation finalises successors exactly like full generation: both modes go through
   the same function of the target square (the mode only selects the targets) *)
Theorem C13_same_successor_function : forall zt pc s sq x,
  In x (generate_moves_for_piece zt pc s sq CapturesOnly) ->
  (exists mov, In mov (get_moves pc sq (board s) CapturesOnly) /\ In x (successors_of_move zt s pc sq mov))
  \/ In x (en_passant_successor zt s pc sq).
Proof.
  intros zt pc s sq x H. unfold generate_moves_for_piece in H. apply in_app_or in H. destruct H as [H|H].
  - left. apply in_flat_map in H. destruct H as [mov [H1 H2]]. exists mov. split; assumption.
  - right. exact H.
Qed.

Print Assumptions C13_capture_targets_are_enemy.
Print Assumptions C13_en_passant_targets_recorded_square.
Print Assumptions C13_same_successor_function.
