(* C13 - Capture-only generation yields exactly the legal captures.
   Proved for every Zobrist table and every well-formed position (pos_ok1, see C01): the moves generated in
   capture-only mode are exactly the legal moves of the rules that capture something (a move onto an occupied
   square, or an en-passant capture), each exactly once; castling and quiet moves never appear.  The remaining
   theorems hold for every board content. *)
From Walleye Require Import Model.Successor Spec.Abs Proofs.MoveGenProofs Proofs.GenerateAbs Proofs.LegalMoves Proofs.CaptureMode Proofs.MakeMoveSame Proofs.PositionGo.
From Walleye Require Import Model.TextMove Spec.Chess.
Open Scope Z_scope.

Theorem C13_captures_exactly_legal_captures : forall zt s,
  pos_ok1 s ->
  (forall mv, In (Some mv) (map desc (generate_moves zt s CapturesOnly)) <-> In mv (legal_captures (abs s))) /\
  NoDup (map desc (generate_moves zt s CapturesOnly)).
Proof. exact capture_moves_exact. Qed.

(* the capture-only targets of a piece are the occupied ones among all its targets, in the same order *)
Theorem C13_capture_targets_are_the_occupied_targets : forall b pc p,
  get_moves pc p b CapturesOnly = filter (fun x => negb (is_empty (get b x))) (get_moves pc p b AllMoves).
Proof. exact get_moves_captures. Qed.

(* every target square produced in capture-only mode holds a piece of the other colour *)
Theorem C13_capture_targets_are_enemy : forall pc p b x,
  In x (get_moves pc p b CapturesOnly) -> is_color (get b x) (opposite (pcolor pc)) = true.
Proof. exact capture_targets_are_enemy. Qed.

(* the only other capture-mode successor is the en-passant capture onto the recorded target,
   and it never carries a promotion piece *)
Theorem C13_en_passant_targets_recorded_square : forall zt s pc sq x,
  In x (en_passant_successor zt s pc sq) ->
  pawn_promotion x = None /\ exists mov, last_move x = Some (sq, mov) /\ Some mov = pawn_double_move s.
Proof. exact en_passant_successor_desc. Qed.

(* capture-only generation finalises successors exactly like full generation: both modes go through
   the same function of the target square (the mode only selects the targets) *)
Theorem C13_same_successor_function : forall zt pc s sq x,
  In x (generate_moves_for_piece zt pc s sq CapturesOnly) ->
  (exists mov, In mov (get_moves pc sq (board s) CapturesOnly) /\ In x (successors_of_move zt s pc sq mov))
  \/ In x (en_passant_successor zt s pc sq).
Proof.
  intros zt pc s sq x H. unfold generate_moves_for_piece in H. apply in_app_or in H. destruct H as [H|H].
  - left. apply in_flat_map in H. destruct H as [mov [H1 H2]]. exists mov. split; assumption.
  - right. exact H.
Qed.

(* ... and so on the boards the text-move applier builds: after `position fen F moves m1 .. mn` (F accepted and denoting a
   legal position, the moves legal in turn) or `position startpos moves ...`, capture-only generation at the board the
   command leaves behind yields exactly the legal captures of the position the command describes *)
Theorem C13_after_a_position_fen_command : forall zt cmds c7 b0 mvs,
  nth_error cmds 1 = Some str_fen -> nth_error cmds 7 = Some c7 ->
  from_fen zt (flat_map (fun c => c ++ [32%N]) (firstn 5 (skipn 2 cmds)) ++ c7) = Ok b0 ->
  legal_position (abs b0) = true -> moves_part cmds mvs -> legal_chain (abs b0) mvs ->
  exists b t, play_out_position zt cmds = Ok (b, t) /\
    (forall mv, In (Some mv) (map desc (generate_moves zt b CapturesOnly)) <-> In mv (legal_captures (fold_left apply mvs (abs b0)))) /\
    NoDup (map desc (generate_moves zt b CapturesOnly)).
Proof.
  intros zt cmds c7 b0 mvs N1 N7 F LP MP LC.
  destruct (position_fen_command zt cmds c7 b0 mvs N1 N7 F LP MP LC) as (b & t & PL & A & PO & _).
  exists b, t. split; [exact PL|]. rewrite <- A. exact (capture_moves_exact zt b PO).
Qed.
Theorem C13_after_a_position_startpos_command : forall zt cmds c1 mvs,
  nth_error cmds 1 = Some c1 -> str_eqb c1 str_fen = false ->
  moves_part cmds mvs -> legal_chain start_position mvs ->
  exists b t, play_out_position zt cmds = Ok (b, t) /\
    (forall mv, In (Some mv) (map desc (generate_moves zt b CapturesOnly)) <-> In mv (legal_captures (fold_left apply mvs start_position))) /\
    NoDup (map desc (generate_moves zt b CapturesOnly)).
Proof.
  intros zt cmds c1 mvs N1 NF MP LC.
  destruct (position_startpos_command zt cmds c1 mvs N1 NF MP LC) as (b & t & PL & A & PO & _).
  exists b, t. split; [exact PL|]. rewrite <- A. exact (capture_moves_exact zt b PO).
Qed.

Print Assumptions C13_after_a_position_fen_command.
Print Assumptions C13_after_a_position_startpos_command.
Print Assumptions C13_captures_exactly_legal_captures.
Print Assumptions C13_capture_targets_are_the_occupied_targets.
Print Assumptions C13_capture_targets_are_enemy.
Print Assumptions C13_en_passant_targets_recorded_square.
Print Assumptions C13_same_successor_function.
