(* C07 - Running out of time at any point in the search is safe (model-level part).
   The full statements (a)-(e) for every expiry index are decided on the real search by enumerating
   every k through the virtual clock and replaying each run node for node on the model. *)
From Walleye Require Import Model.Search Proofs.DrawTableProofs Proofs.SearchBasics Proofs.RootProofs Proofs.MateText.
Open Scope Z_scope.

(* (a) whatever is handed back, at whichever consultation the clock expires, is a generated root move *)
Theorem C07_handed_back_is_root_move : forall zt osort k,
  (forall i l x, In x (osort i l) -> In x l) ->
  forall root fuel t ev s, get_best_move zt osort k fuel root t = Ok (ev, s) ->
  forall b0, In (Send b0) ev ->
  exists m, In m (generate_moves zt root AllMoves) /\ same_move b0 m.
Proof. exact get_best_move_sends. Qed.

(* the abort value of an expired node, and the record untouched by it *)
Theorem C07_expired_node_aborts : forall zt osort k f b d ply a be n s,
  fst (out_of_time k s) = true ->
  exists s', alpha_beta zt osort k (S f) b d ply a be n s = Ok (NEG_INF, s') /\ table s' = table s.
Proof. exact abort_at_node_entry. Qed.

(* the clock is monotone: once expired it stays expired, so an aborted value can never be followed
   by a successful `!out_of_time` test at the root *)
Theorem C07_clock_monotone : forall k s,
  fst (out_of_time k s) = true -> fst (out_of_time k (snd (out_of_time k s))) = true.
Proof. exact clock_monotone. Qed.

(* the abort value can never be printed as a centipawn score *)
Theorem C07_abort_value_not_a_cp_score : mate_number NEG_INF <> None /\ mate_number POS_INF <> None.
Proof. exact abort_value_not_cp. Qed.

(* (d) add followed by remove leaves every count of the record as it was *)
Theorem C07_table_add_remove : forall t s k, dt_count (dt_remove (dt_add t s) s) k = dt_count t k.
Proof. exact dt_count_remove_add. Qed.

Print Assumptions C07_handed_back_is_root_move.
Print Assumptions C07_expired_node_aborts.
Print Assumptions C07_clock_monotone.
Print Assumptions C07_abort_value_not_a_cp_score.
Print Assumptions C07_table_add_remove.
