(* C07 - Running out of time at any point in the search is safe (model-level part).
   The full statements (a)-(e) for every expiry index are decided on the real search by enumerating
   every k through the virtual clock and replaying each run node for node on the model. *)
From Walleye Require Import Model.Search Proofs.DrawTableProofs Proofs.SearchBasics Proofs.RootProofs Proofs.MateText Proofs.TableRestored Proofs.ClockSim Proofs.RootSim.
From Walleye Require Import Proofs.PanicSites.
Open Scope Z_scope.

(* (a) whatever is handed back, at whichever consultation the clock expires, is a generated root move *)
Theorem C07_handed_back_is_root_move : forall zt osort k,
  (forall i l x, In x (osort i l) -> In x l) ->
  forall root fuel t ev s, get_best_move zt osort k fuel root t = Ok (ev, s) ->
  forall b0, In (Send b0) ev ->
  exists m, In m (generate_moves zt root AllMoves) /\ same_move b0 m.
Proof. exact get_best_move_sends. Qed.

(* the abort value of an expired node, and the record untouched by it *)
Theorem C07_expired_node_aborts : forall zt osort k f b d ply a be n s,
  fst (out_of_time k s) = true ->
  exists s', alpha_beta zt osort k (S f) b d ply a be n s = Ok (NEG_INF, s') /\ table s' = table s.
Proof. exact abort_at_node_entry. Qed.

(* the same in the capture search: every quiescence node consults the clock and an expired one returns at once
   (the repair of F11: before it the capture search never looked at the clock) *)
Theorem C07_expired_quiescence_aborts : forall zt osort k f b a be s,
  fst (out_of_time k s) = true ->
  quiesce zt osort k (S f) b a be s = Ok (NEG_INF, snd (out_of_time k s)).
Proof.
  intros zt osort k f b a be s H. cbn [quiesce]. destruct (out_of_time k s) as [e s1]. cbn [fst snd] in *. subst e. reflexivity.
Qed.

(* the clock is monotone: once expired it stays expired, so an aborted value can never be followed
   by a successful `!out_of_time` test at the root *)
Theorem C07_clock_monotone : forall k s,
  fst (out_of_time k s) = true -> fst (out_of_time k (snd (out_of_time k s))) = true.
Proof. exact clock_monotone. Qed.

(* the abort value can never be printed as a centipawn score *)
Theorem C07_abort_value_not_a_cp_score : mate_number NEG_INF <> None /\ mate_number POS_INF <> None.
Proof. exact abort_value_not_cp. Qed.

(* (b) no taint: the root accepts an evaluation only after a clock test that comes after every
   consultation of the sub-search; if that test does not report expiry, no consultation inside the
   sub-search did, and the value (and the whole resulting state) is the one an unlimited search computes
   from the same state -- never the abort value or anything derived from it *)
Theorem C07_no_taint : forall zt osort k fuel mov d ply a be n s v s1 s2,
  alpha_beta zt osort k fuel mov d ply a be n s = Ok (v, s1) ->
  clock s2 = clock s1 ->
  fst (out_of_time k s2) = false ->
  alpha_beta zt osort None fuel mov d ply a be n s = Ok (v, s1).
Proof. exact accepted_value_is_untainted. Qed.

(* a sub-search that ends before the clock expires is reproduced under every later expiry *)
Theorem C07_subsearch_simulation : forall zt osort k1 k2, le_k k1 k2 ->
  forall fuel b d ply a be n s v s', alpha_beta zt osort k1 fuel b d ply a be n s = Ok (v, s') ->
    (clock s <= clock s')%N /\ (quiet k1 s' -> alpha_beta zt osort k2 fuel b d ply a be n s = Ok (v, s')).
Proof. intros zt osort k1 k2 Hk fuel. exact (alpha_beta_sim zt osort k1 k2 Hk fuel). Qed.

(* (c) prefix: the improvements reported under a smaller allowance are a prefix of those reported under
   a larger one (or under none), for every position, record, ordering oracle and pair of expiry indices *)
Theorem C07_prefix : forall zt osort k1 k2 fuel b t ev1 s1 ev2 s2,
  le_k k1 k2 ->
  get_best_move zt osort k1 fuel b t = Ok (ev1, s1) ->
  get_best_move zt osort k2 fuel b t = Ok (ev2, s2) ->
  exists more, ev_infos ev2 = ev_infos ev1 ++ more.
Proof. exact reports_prefix. Qed.

(* (d) the whole search: whatever the position, the ordering, the window and the consultation at which
   the clock expires, the repetition record handed to get_best_move is, as a lookup function, what
   comes back -- every exit path of every node passes exactly one remove after its add *)
Theorem C07_table_restored : forall zt osort k fuel b t ev s,
  dt_nonneg t -> get_best_move zt osort k fuel b t = Ok (ev, s) -> dt_equiv (table s) t.
Proof. exact get_best_move_restores. Qed.

Theorem C07_node_restores_table : forall zt osort k fuel b d ply a be n s v s',
  dt_nonneg (table s) -> alpha_beta zt osort k fuel b d ply a be n s = Ok (v, s') -> dt_equiv (table s') (table s).
Proof. intros zt osort k fuel. exact (alpha_beta_restores zt osort k fuel). Qed.

(* quiescence never touches the record *)
Theorem C07_quiescence_leaves_table : forall zt osort k fuel b a be s v s',
  quiesce zt osort k fuel b a be s = Ok (v, s') -> table s' = table s.
Proof. intros zt osort k fuel. exact (quiesce_pres zt osort k fuel). Qed.

(* (d) add followed by remove leaves every count of the record as it was *)
Theorem C07_table_add_remove : forall t s k, dt_count (dt_remove (dt_add t s) s) k = dt_count t k.
Proof. exact dt_count_remove_add. Qed.

(* (e) "nothing panics", made precise: for every expiry index and every ordering oracle that keeps non-empty lists
   non-empty, the only panics the search can raise are the three array accesses indexed by the ply (current line 60,
   killer table 61, PV/killer lookup 62), and those need a ply outside the tables (MAX_DEPTH = 100 entries); the
   capture search cannot panic at all and `moves[0]` is never taken of an empty list.  That the ply stays below 100
   is not proved (check extensions have no bound in the rules); no witness exists, and the sweep over expiry indices
   watches for it *)
Theorem C07_only_the_ply_tables_can_panic : forall zt osort k,
  (forall i l, l <> [] -> osort i l <> []) ->
  forall fuel b t p, get_best_move zt osort k fuel b t = Panic p -> p = 60%N \/ p = 61%N \/ p = 62%N.
Proof. intros zt osort k H fuel b t p. exact (search_panics_only_at_ply_arrays zt osort H k fuel b t p). Qed.

Theorem C07_capture_search_never_panics : forall zt osort k fuel b a be s p, quiesce zt osort k fuel b a be s <> Panic p.
Proof. intros zt osort k fuel. exact (quiesce_safe zt osort k fuel). Qed.

Theorem C07_ply_sites_need_a_ply_outside_the_tables : forall s ply m l p,
  (insert_into_cur_line s ply m = Panic p -> ~ (0 <= ply < Z.of_nat (length (cur_line s)))) /\
  (rank_moves s ply l = Panic p -> ~ (0 <= ply < Z.of_nat (length (pv_moves s)) /\ 0 <= ply < Z.of_nat (length (killers s)))).
Proof. intros. split; [apply cur_line_site_needs_overflow|apply rank_site_needs_overflow]. Qed.

Print Assumptions C07_only_the_ply_tables_can_panic.
Print Assumptions C07_capture_search_never_panics.
Print Assumptions C07_ply_sites_need_a_ply_outside_the_tables.
Print Assumptions C07_handed_back_is_root_move.
Print Assumptions C07_expired_node_aborts.
Print Assumptions C07_expired_quiescence_aborts.
Print Assumptions C07_clock_monotone.
Print Assumptions C07_abort_value_not_a_cp_score.
Print Assumptions C07_table_add_remove.
Print Assumptions C07_no_taint.
Print Assumptions C07_subsearch_simulation.
Print Assumptions C07_prefix.
Print Assumptions C07_table_restored.
Print Assumptions C07_node_restores_table.
Print Assumptions C07_quiescence_leaves_table.
