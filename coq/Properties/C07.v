(* C07 - Running out of time at any point in the search is safe (model-level part).
   The full statements (a)-(e) for every expiry index are decided on the real search by enumerating
   every k through the virtual clock and replaying each run node for node on the model. *)
From Walleye Require Import Model.Search Proofs.DrawTableProofs Proofs.SearchBasics Proofs.RootProofs Proofs.MateText Proofs.TableRestored.
Open Scope Z_scope.

(* (a) whatever is handed back, at whichever consultation the clock expires, is a generated root move *)
Theorem C07_handed_back_is_root_move : forall zt osort k,
  (forall i l x, In x (osort i l) -> In x l) ->
  forall root fuel t ev s, get_best_move zt osort k fuel root t = Ok (ev, s) ->
  forall b0, In (Send b0) ev ->
  exists m, In m (generate_moves zt root AllMoves) /\ same_move b0 m.
Proof. exact get_best_move_sends. Qed.

(* the abort value of an expired node, and the record untouched by it *)
Theorem C07_expired_node_aborts : forall zt osort k f b d ply a be n s,
  fst (out_of_time k s) = true ->
  exists s', alpha_beta zt osort k (S f) b d ply a be n s = Ok (NEG_INF, s') /\ table s' = table s.
Proof. exact abort_at_node_entry. Qed.

(* the clock is monotone: once expired it stays expired, so an aborted value can never be followed
   by a successful `!out_of_time` test at the root *)
Theorem C07_clock_monotone : forall k s,
  fst (out_of_time k s) = true -> fst (out_of_time k (snd (out_of_time k s))) = true.
Proof. exact clock_monotone. Qed.

(* the abort value can never be printed as a centipawn score *)
Theorem C07_abort_value_not_a_cp_score : mate_number NEG_INF <> None /\ mate_number POS_INF <> None.
Proof. exact abort_value_not_cp. Qed.

(* (d) the whole search: whatever the position, the ordering, the window and the consultation at which
   the clock expires, the repetition record handed to get_best_move is, as a lookup function, what
   comes back -- every exit path of every node passes exactly one remove after its add *)
Theorem C07_table_restored : forall zt osort k fuel b t ev s,
  dt_nonneg t -> get_best_move zt osort k fuel b t = Ok (ev, s) -> dt_equiv (table s) t.
Proof. exact get_best_move_restores. Qed.

Theorem C07_node_restores_table : forall zt osort k fuel b d ply a be n s v s',
  dt_nonneg (table s) -> alpha_beta zt osort k fuel b d ply a be n s = Ok (v, s') -> dt_equiv (table s') (table s).
Proof. intros zt osort k fuel. exact (alpha_beta_restores zt osort k fuel). Qed.

(* quiescence never touches the record *)
Theorem C07_quiescence_leaves_table : forall zt osort fuel b a be s v s',
  quiesce zt osort fuel b a be s = Ok (v, s') -> table s' = table s.
Proof. intros zt osort fuel. exact (quiesce_pres zt osort fuel). Qed.

(* (d) add followed by remove leaves every count of the record as it was *)
Theorem C07_table_add_remove : forall t s k, dt_count (dt_remove (dt_add t s) s) k = dt_count t k.
Proof. exact dt_count_remove_add. Qed.

Print Assumptions C07_handed_back_is_root_move.
Print Assumptions C07_expired_node_aborts.
Print Assumptions C07_clock_monotone.
Print Assumptions C07_abort_value_not_a_cp_score.
Print Assumptions C07_table_add_remove.
Print Assumptions C07_table_restored.
Print Assumptions C07_node_restores_table.
Print Assumptions C07_quiescence_leaves_table.
