(* C02 - Each generated successor is the position the rules give for its move, and carries its descriptor.
   Proved for every table, both modes and every well-formed parent; the well-formedness is an invariant of the
   generator (Preservation.v), so the statement holds along every chain of generated successors; the descriptor
   facts further below hold for every parent, whatever fields it inherited from earlier moves. *)
From Walleye Require Import Model.Successor Model.Fen Spec.Abs Proofs.MoveGenProofs Proofs.GenerateAbs Proofs.LegalMoves Proofs.Preservation Gen.ZobristTable.
From Walleye Require Import Model.TextMove Spec.Chess Proofs.MakeMoveSame Proofs.PositionGo.
Open Scope Z_scope.

(* the main theorem: every successor the generator produces, in both modes -- ordinary move, promotion,
   en passant, castling -- carries a descriptor, and its position (placement, side to move, the four castling
   rights, en-passant target) is exactly the position the rules give for that move, whatever fields the parent
   inherited.  pos_ok: sentinel ring, king caches on the unique kings, castling rights only with king and rook
   at home, en-passant target behind the pawn that just double-stepped, and no pseudo-legal target holding a
   king (the side not to move is not in check).  pos_okb is an executable test of it. *)
Theorem C02_successor_is_rules_position : forall zt s m x,
  pos_ok s m -> In x (generate_moves zt s m) ->
  exists mv, desc x = Some mv /\ abs x = apply (abs s) mv.
Proof. exact generate_moves_abs. Qed.

(* along chains: every successor of every position reached through generated moves from a well-formed root *)
Theorem C02_holds_along_every_chain : forall zt s y x,
  pos_ok1 s -> reachable zt s y -> In x (generate_moves zt y AllMoves) ->
  exists mv, desc x = Some mv /\ abs x = apply (abs y) mv.
Proof.
  intros zt s y x PO R Hx. apply (generate_moves_abs zt y AllMoves x); [|exact Hx].
  exact (proj1 (reachable_pos_ok1 zt s y PO R)).
Qed.

(* non-vacuity: the start position and "kiwipete" (castling both sides, promotions and en passant nearby) meet pos_ok *)
Example C02_hypotheses_hold_of_loaded_positions :
  match from_fen zt_concrete DEFAULT_FEN_STRING with
  | Ok s => pos_ok s AllMoves /\ pos_ok s CapturesOnly
  | _ => False
  end.
Proof.
  destruct (from_fen zt_concrete DEFAULT_FEN_STRING) as [s| |] eqn:E; [|vm_compute in E; discriminate|vm_compute in E; discriminate].
  assert (Es : Ok s = from_fen zt_concrete DEFAULT_FEN_STRING) by (symmetry; exact E).
  vm_compute in Es. injection Es as ->.
  split; apply pos_okb_ok; vm_compute; reflexivity.
Qed.

(* ordinary moves: (from, to) of the move, promotion piece iff a pawn reaches the last row *)
Theorem C02_ordinary_descriptor : forall zt s pc sq mov x,
  In x (successors_of_move zt s pc sq mov) ->
  last_move x = Some (sq, mov) /\
  (pawn_promotion x <> None <->
   pkind pc = Pawn /\ ((fst mov = BOARD_START /\ pcolor pc = White) \/ (fst mov = BOARD_END - 1 /\ pcolor pc = Black))).
Proof. exact successors_of_move_desc. Qed.

(* castling: the king's two-square move, never a promotion piece, whatever the parent carried *)
Theorem C02_castle_descriptor : forall zt s c r1 r2 kt alg rf rt,
  last_move (castle_successor zt s c r1 r2 kt alg rf rt) = Some alg /\
  pawn_promotion (castle_successor zt s c r1 r2 kt alg rf rt) = None.
Proof. exact castle_successor_desc. Qed.

Theorem C02_en_passant_descriptor : forall zt s pc sq x,
  In x (en_passant_successor zt s pc sq) ->
  pawn_promotion x = None /\ exists mov, last_move x = Some (sq, mov) /\ Some mov = pawn_double_move s.
Proof. exact en_passant_successor_desc. Qed.

Theorem C02_promotion_descriptor : forall zt s c a b x,
  In x (promote_pawn zt s c a b) ->
  last_move x = Some (a, b) /\ exists k, In k PROMOTION_KINDS /\ pawn_promotion x = Some (mkPiece c k).
Proof. exact promote_pawn_desc. Qed.

(* ... and at the board a position command leaves behind (built by the text-move applier, not by the generator): every
   successor generated there is the rules' position after its move, played in the position the command describes *)
Theorem C02_after_a_position_fen_command : forall zt cmds c7 b0 mvs,
  nth_error cmds 1 = Some str_fen -> nth_error cmds 7 = Some c7 ->
  from_fen zt (flat_map (fun c => c ++ [32%N]) (firstn 5 (skipn 2 cmds)) ++ c7) = Ok b0 ->
  legal_position (abs b0) = true -> moves_part cmds mvs -> legal_chain (abs b0) mvs ->
  exists b t, play_out_position zt cmds = Ok (b, t) /\
    forall x, In x (generate_moves zt b AllMoves) -> exists mv, desc x = Some mv /\ abs x = apply (fold_left apply mvs (abs b0)) mv.
Proof.
  intros zt cmds c7 b0 mvs N1 N7 F LP MP LC.
  destruct (position_fen_command zt cmds c7 b0 mvs N1 N7 F LP MP LC) as (b & t & PL & A & PO & _).
  exists b, t. split; [exact PL|]. intros x Hx. rewrite <- A. exact (generate_moves_abs zt b AllMoves x (proj1 PO) Hx).
Qed.
Theorem C02_after_a_position_startpos_command : forall zt cmds c1 mvs,
  nth_error cmds 1 = Some c1 -> str_eqb c1 str_fen = false ->
  moves_part cmds mvs -> legal_chain start_position mvs ->
  exists b t, play_out_position zt cmds = Ok (b, t) /\
    forall x, In x (generate_moves zt b AllMoves) -> exists mv, desc x = Some mv /\ abs x = apply (fold_left apply mvs start_position) mv.
Proof.
  intros zt cmds c1 mvs N1 NF MP LC.
  destruct (position_startpos_command zt cmds c1 mvs N1 NF MP LC) as (b & t & PL & A & PO & _).
  exists b, t. split; [exact PL|]. intros x Hx. rewrite <- A. exact (generate_moves_abs zt b AllMoves x (proj1 PO) Hx).
Qed.

Print Assumptions C02_after_a_position_fen_command.
Print Assumptions C02_after_a_position_startpos_command.
Print Assumptions C02_successor_is_rules_position.
Print Assumptions C02_holds_along_every_chain.
Print Assumptions C02_ordinary_descriptor.
Print Assumptions C02_castle_descriptor.
Print Assumptions C02_en_passant_descriptor.
Print Assumptions C02_promotion_descriptor.
