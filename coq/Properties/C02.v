(* C02 - Each generated successor carries the descriptor of its move (model-level part).
   That the successor *position* is the one the rules give is decided by the correspondence with
   Spec.apply on chains of generated successors; the descriptor facts below hold for every parent,
   whatever fields it inherited from earlier moves. *)
From Walleye Require Import Model.Successor Proofs.MoveGenProofs.
Open Scope Z_scope.

(* ordinary moves: (from, to) of the move, promotion piece iff a pawn reaches the last row *)
Theorem C02_ordinary_descriptor : forall zt s pc sq mov x,
  In x (successors_of_move zt s pc sq mov) ->
  last_move x = Some (sq, mov) /\
  (pawn_promotion x <> None <->
   pkind pc = Pawn /\ ((fst mov = BOARD_START /\ pcolor pc = White) \/ (fst mov = BOARD_END - 1 /\ pcolor pc = Black))).
Proof. exact successors_of_move_desc. Qed.

(* castling: the king's two-square move, never a promotion piece, whatever the parent carried *)
Theorem C02_castle_descriptor : forall zt s c r1 r2 kt alg rf rt,
  last_move (castle_successor zt s c r1 r2 kt alg rf rt) = Some alg /\
  pawn_promotion (castle_successor zt s c r1 r2 kt alg rf rt) = None.
Proof. exact castle_successor_desc. Qed.

Theorem C02_en_passant_descriptor : forall zt s pc sq x,
  In x (en_passant_successor zt s pc sq) ->
  pawn_promotion x = None /\ exists mov, last_move x = Some (sq, mov) /\ Some mov = pawn_double_move s.
Proof. exact en_passant_successor_desc. Qed.

Theorem C02_promotion_descriptor : forall zt s c a b x,
  In x (promote_pawn zt s c a b) ->
  last_move x = Some (a, b) /\ exists k, In k PROMOTION_KINDS /\ pawn_promotion x = Some (mkPiece c k).
Proof. exact promote_pawn_desc. Qed.

Print Assumptions C02_ordinary_descriptor.
Print Assumptions C02_castle_descriptor.
Print Assumptions C02_en_passant_descriptor.
Print Assumptions C02_promotion_descriptor.
