(* C10 - Repetition counts are exact and a third occurrence is scored as a draw. *)
From Walleye Require Import Model.Uci.
From Walleye Require Import Model.Search Proofs.DrawTableProofs Proofs.SearchBasics Proofs.TableRestored Proofs.RootDraw Proofs.PositionCounts.
Open Scope Z_scope.

(* after `position ... moves ...` the record holds, for every key, the number of positions of the
   described game (start included) with that key -- for histories of any length *)
Theorem C10_counts_exact : forall zt b mvs s' t' l,
  play_moves zt b [(zobrist_key b, 1)] mvs = Ok (s', t') -> visited zt b mvs = Ok l ->
  forall k, dt_count t' k = occurrences k (b :: l).
Proof.
  intros zt b mvs s' t' l HP HV k.
  rewrite (play_moves_counts zt mvs _ _ _ _ _ HP HV k).
  unfold occurrences, dt_count. cbn [filter dt_get].
  destruct (zobrist_key b =? k)%N; cbn [length]; lia.
Qed.

(* the same for the whole `position` command (word positions, FEN reassembly or startpos, `moves` keyword): the
   record it returns counts exactly the positions of the described game, start position included, and - being the
   result of a function of the command alone - holds nothing from earlier position commands *)
Theorem C10_position_command_counts : forall zt cmds b' t',
  play_out_position zt cmds = Ok (b', t') ->
  exists b0 l,
    command_start zt cmds = Ok b0 /\
    visited zt b0 (match after_moves cmds with Some mvs => mvs | None => [] end) = Ok l /\
    last (b0 :: l) b0 = b' /\
    forall k, dt_count t' k = occurrences k (b0 :: l).
Proof. exact position_command_counts. Qed.

(* a go does not touch the record: the search works on its own copy (and restores even that, C07), so a second go
   without a new position still sees every repetition of the game *)
Theorem C10_go_keeps_the_record : forall zt osort st cmds sc,
  ss_table (fst (go_step zt osort st cmds sc)) = ss_table st.
Proof.
  intros zt osort st cmds sc. unfold go_step. destruct (parse_go_command cmds); try reflexivity.
  destruct (generate_moves zt (ss_board st) AllMoves); try reflexivity.
  destruct (get_best_move zt osort (sc_k sc) (sc_fuel sc) (ss_board st) (ss_table st)) as [[ev s]| |]; try reflexivity.
  destruct (nth_error (sends_of ev) (length (sends_of ev) - 1)) as [bb|]; try reflexivity.
  destruct (best_move_text bb); reflexivity.
Qed.

(* the draw test is "seen at least twice", whatever larger count has accumulated *)
Theorem C10_threefold_iff : forall t s,
  is_threefold_repetition t s = true <-> 2 <= dt_count t (zobrist_key s).
Proof. exact threefold_iff. Qed.

(* such a node is valued 0 at entry, for every ordering, window, depth and clock not yet expired *)
Theorem C10_draw_value : forall zt osort k f b d ply a be n s,
  fst (out_of_time k s) = false -> 2 <= dt_count (table s) (zobrist_key b) ->
  exists s', alpha_beta zt osort k (S f) b d ply a be n s = Ok (0, s') /\ table s' = table s.
Proof. exact draw_at_node_entry. Qed.

(* whenever the side to move has a move into a position that already occurred at least twice, the last score the
   unlimited search reports for each depth is not below zero (under an allowance the reports are a prefix of
   these, C07_prefix) -- for every ordering oracle that returns the elements it was given *)
Theorem C10_final_score_not_below_zero : forall zt osort fuel b t evs s,
  (forall n l x, In x l -> In x (osort n l)) ->
  dt_nonneg t -> (exists m, In m (generate_moves zt b AllMoves) /\ 2 <= dt_count t (zobrist_key m)) ->
  get_best_move zt osort None (S fuel) b t = Ok (evs, s) ->
  forall d e, newest_info d (rev evs) = Some e -> 0 <= e.
Proof. intros zt osort fuel b t evs s HO. exact (root_scores_nonneg zt osort HO fuel b t evs s). Qed.

(* add then remove leaves every count as it was *)
Theorem C10_add_remove_restores : forall t s k, dt_count (dt_remove (dt_add t s) s) k = dt_count t k.
Proof. exact dt_count_remove_add. Qed.

Check C10_counts_exact : forall zt b mvs s' t' l,
  play_moves zt b [(zobrist_key b, 1)] mvs = Ok (s', t') -> visited zt b mvs = Ok l ->
  forall k, dt_count t' k = occurrences k (b :: l).
Check C10_threefold_iff : forall t s, is_threefold_repetition t s = true <-> 2 <= dt_count t (zobrist_key s).

Print Assumptions C10_counts_exact.
Print Assumptions C10_position_command_counts.
Print Assumptions C10_go_keeps_the_record.
Print Assumptions C10_threefold_iff.
Print Assumptions C10_draw_value.
Print Assumptions C10_final_score_not_below_zero.
Print Assumptions C10_add_remove_restores.
