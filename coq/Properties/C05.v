(* C05 - The position key depends only on the position (XOR algebra for any table; sensitivity for
   the concrete table of the running engine).  That the three producers (FEN loader, text-move applier,
   generator) actually establish and keep key = from-scratch hash on whole games is, beyond the lemmas
   below, decided by the correspondence check against Spec.hash on every prefix of generated games. *)
From Walleye Require Import Model.Successor Model.TextMove Model.Fen Spec.Abs Proofs.Cells Proofs.HashProofs Proofs.KeyInvariant Proofs.ZobristConcrete
     Proofs.GenerateAbs Proofs.LegalMoves Proofs.MakeMoveSame Proofs.FenAccept Proofs.FenLegal Gen.ZobristTable.
Open Scope N_scope.

(* the helpers that do not touch the squares keep key = hash (abs board), for every table *)
Theorem C05_swap_color_keeps_invariant : forall zt s, key_ok zt s -> key_ok zt (swap_color zt s).
Proof. exact swap_color_key_ok. Qed.
Theorem C05_castling_rights_keep_invariant : forall zt s c, key_ok zt s -> key_ok zt (take_away_castling_rights zt s c).
Proof. exact take_away_key_ok. Qed.
Theorem C05_unset_en_passant_keeps_invariant : forall zt s, key_ok zt s -> key_ok zt (unset_pawn_double_move zt s).
Proof. exact unset_pdm_key_ok. Qed.
Theorem C05_set_en_passant_keeps_invariant : forall zt s t,
  key_ok zt s -> pawn_double_move s = None -> key_ok zt (kx (with_pdm s (Some t)) (z_ep zt (snd t))).
Proof. exact set_pdm_key_ok. Qed.

(* writing one square changes the from-scratch placement hash by exactly the old and the new word *)
Theorem C05_hash_of_written_square : forall zt b p v,
  is_inner p = true -> length b = 144%nat ->
  hash_placement zt (abs_placement (set b p v))
  = N.lxor (N.lxor (hash_placement zt (abs_placement b)) (zterm zt (get b p) p)) (zterm zt v p).
Proof. exact hash_placement_set. Qed.

(* the generator: every successor it produces, in both modes (ordinary moves, promotions, en passant,
   castling), has key = from-scratch hash if its parent has -- for every table.  gen_ok asks for the
   invariant itself, the sentinel ring, king caches on the board and an en-passant target that sits
   behind a pawn of the side that just moved (all true of every position reached from a FEN of a legal
   position; checked below on the start position with the concrete table). *)
Theorem C05_generator_keeps_invariant : forall zt s m x,
  gen_ok zt s -> In x (generate_moves zt s m) -> key_ok zt x.
Proof. exact generate_moves_key_ok. Qed.

(* the FEN loader: for every table and every string it accepts, the key it computes is the from-scratch hash of
   the position the loaded state denotes *)
Theorem C05_loader_establishes_invariant : forall zt fen st, from_fen zt fen = Ok st -> key_ok zt st.
Proof. exact accepted_key_ok. Qed.

(* and the loaded state - key included - is a function of that position alone: two accepted strings that
   denote the same position (same placement, side to move, rights, en-passant square) give the same state *)
Theorem C05_loader_depends_on_position_only : forall zt fen st fen' st',
  from_fen zt fen = Ok st -> from_fen zt fen' = Ok st' -> abs st = abs st' -> zobrist_key st = zobrist_key st'.
Proof. intros zt fen st fen' st' H H' A. now rewrite (accepted_state_determined zt fen st fen' st' H H' A). Qed.

(* the text-move applier keeps the invariant too, on every move the generator can produce (by C01: every legal move) *)
Theorem C05_replay_keeps_invariant : forall zt s x txt y,
  pos_ok1 s -> key_ok zt s -> In x (generate_moves zt s AllMoves) ->
  best_move_text x = Ok txt -> make_move zt s txt = Ok y -> key_ok zt y.
Proof. exact replay_key_ok. Qed.

(* so the generator and the applier agree on the key of the position they both reach *)
Theorem C05_generator_and_replay_agree : forall zt s x txt y,
  pos_ok1 s -> gen_ok zt s -> In x (generate_moves zt s AllMoves) ->
  best_move_text x = Ok txt -> make_move zt s txt = Ok y -> same_pos y x -> zobrist_key y = zobrist_key x.
Proof.
  intros zt s x txt y PO GO Hx Ht Hy SP.
  pose proof (generate_moves_key_ok zt s AllMoves x GO Hx) as Kx.
  pose proof (replay_key_ok zt s x txt y PO (proj1 GO) Hx Ht Hy) as Ky.
  unfold key_ok in *. rewrite Kx, Ky. now rewrite (same_pos_abs y x SP).
Qed.

(* non-vacuity: the start position loaded by the model's FEN loader with the engine's table meets gen_ok,
   so all its 20 successors carry the from-scratch key *)
Example C05_start_position_meets_hypotheses :
  match from_fen zt_concrete DEFAULT_FEN_STRING with
  | Ok s => gen_ok zt_concrete s /\ length (generate_moves zt_concrete s AllMoves) = 20%nat
  | _ => False
  end.
Proof.
  destruct (from_fen zt_concrete DEFAULT_FEN_STRING) as [s| |] eqn:E; [|vm_compute in E; discriminate|vm_compute in E; discriminate].
  assert (Es : Ok s = from_fen zt_concrete DEFAULT_FEN_STRING) by (symmetry; exact E).
  vm_compute in Es. injection Es as ->.
  split; [|vm_compute; reflexivity].
  split; [vm_compute; reflexivity|].
  split; [apply wf_cells_board_ok; vm_compute; reflexivity|].
  split; [intros t Ht; discriminate|].
  split; vm_compute; reflexivity.
Qed.

(* the concrete table: every single-component change of a position changes the key *)
Theorem C05_concrete_piece_words : forall pc p,
  In p inner_points ->
  z_piece zt_concrete pc p <> 0 /\
  (forall pc', pc' <> pc -> z_piece zt_concrete pc p <> z_piece zt_concrete pc' p) /\
  (forall p', In p' inner_points -> p' <> p -> z_piece zt_concrete pc p <> z_piece zt_concrete pc p').
Proof. exact piece_word_facts. Qed.

Theorem C05_concrete_other_words :
  z_black zt_concrete <> 0 /\
  (forall c, z_castle zt_concrete c <> 0) /\
  (forall f, In f ep_files -> z_ep zt_concrete f <> 0) /\
  (forall f f', In f ep_files -> In f' ep_files -> f <> f' -> z_ep zt_concrete f <> z_ep zt_concrete f').
Proof. exact other_word_facts. Qed.

(* XOR-ing a non-zero word into a key changes it *)
Theorem C05_nonzero_word_changes_key : forall k w : N, w <> 0 -> N.lxor k w <> k.
Proof.
  intros k w Hw E. apply Hw.
  assert (H : N.lxor (N.lxor k w) k = w) by xor_solve.
  rewrite E in H. rewrite <- H. xor_solve.
Qed.

Print Assumptions C05_swap_color_keeps_invariant.
Print Assumptions C05_castling_rights_keep_invariant.
Print Assumptions C05_unset_en_passant_keeps_invariant.
Print Assumptions C05_set_en_passant_keeps_invariant.
Print Assumptions C05_hash_of_written_square.
Print Assumptions C05_generator_keeps_invariant.
Print Assumptions C05_loader_establishes_invariant.
Print Assumptions C05_loader_depends_on_position_only.
Print Assumptions C05_replay_keeps_invariant.
Print Assumptions C05_generator_and_replay_agree.
Print Assumptions C05_concrete_piece_words.
Print Assumptions C05_concrete_other_words.
Print Assumptions C05_nonzero_word_changes_key.
