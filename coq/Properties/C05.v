(* C05 - The position key depends only on the position (XOR algebra for any table; sensitivity for
   the concrete table of the running engine).  That the three producers (FEN loader, text-move applier,
   generator) actually establish and keep key = from-scratch hash on whole games is, beyond the lemmas
   below, decided by the correspondence check against Spec.hash on every prefix of generated games. *)
From Walleye Require Import Model.Zobrist Spec.Abs Proofs.Cells Proofs.HashProofs Proofs.ZobristConcrete Gen.ZobristTable.
Open Scope N_scope.

(* the helpers that do not touch the squares keep key = hash (abs board), for every table *)
Theorem C05_swap_color_keeps_invariant : forall zt s, key_ok zt s -> key_ok zt (swap_color zt s).
Proof. exact swap_color_key_ok. Qed.
Theorem C05_castling_rights_keep_invariant : forall zt s c, key_ok zt s -> key_ok zt (take_away_castling_rights zt s c).
Proof. exact take_away_key_ok. Qed.
Theorem C05_unset_en_passant_keeps_invariant : forall zt s, key_ok zt s -> key_ok zt (unset_pawn_double_move zt s).
Proof. exact unset_pdm_key_ok. Qed.
Theorem C05_set_en_passant_keeps_invariant : forall zt s t,
  key_ok zt s -> pawn_double_move s = None -> key_ok zt (kx (with_pdm s (Some t)) (z_ep zt (snd t))).
Proof. exact set_pdm_key_ok. Qed.

(* writing one square changes the from-scratch placement hash by exactly the old and the new word *)
Theorem C05_hash_of_written_square : forall zt b p v,
  is_inner p = true -> length b = 144%nat ->
  hash_placement zt (abs_placement (set b p v))
  = N.lxor (N.lxor (hash_placement zt (abs_placement b)) (zterm zt (get b p) p)) (zterm zt v p).
Proof. exact hash_placement_set. Qed.

(* the concrete table: every single-component change of a position changes the key *)
Theorem C05_concrete_piece_words : forall pc p,
  In p inner_points ->
  z_piece zt_concrete pc p <> 0 /\
  (forall pc', pc' <> pc -> z_piece zt_concrete pc p <> z_piece zt_concrete pc' p) /\
  (forall p', In p' inner_points -> p' <> p -> z_piece zt_concrete pc p <> z_piece zt_concrete pc p').
Proof. exact piece_word_facts. Qed.

Theorem C05_concrete_other_words :
  z_black zt_concrete <> 0 /\
  (forall c, z_castle zt_concrete c <> 0) /\
  (forall f, In f ep_files -> z_ep zt_concrete f <> 0) /\
  (forall f f', In f ep_files -> In f' ep_files -> f <> f' -> z_ep zt_concrete f <> z_ep zt_concrete f').
Proof. exact other_word_facts. Qed.

(* XOR-ing a non-zero word into a key changes it *)
Theorem C05_nonzero_word_changes_key : forall k w : N, w <> 0 -> N.lxor k w <> k.
Proof.
  intros k w Hw E. apply Hw.
  assert (H : N.lxor (N.lxor k w) k = w) by xor_solve.
  rewrite E in H. rewrite <- H. xor_solve.
Qed.

Print Assumptions C05_swap_color_keeps_invariant.
Print Assumptions C05_castling_rights_keep_invariant.
Print Assumptions C05_unset_en_passant_keeps_invariant.
Print Assumptions C05_set_en_passant_keeps_invariant.
Print Assumptions C05_hash_of_written_square.
Print Assumptions C05_concrete_piece_words.
Print Assumptions C05_concrete_other_words.
Print Assumptions C05_nonzero_word_changes_key.
