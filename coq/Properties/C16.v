(* C16 - Replies depend only on the current position command (state-machine part). *)
From Walleye Require Import Model.Uci Proofs.SessionProofs Proofs.PositionGo.
Open Scope Z_scope.

(* whatever came before, `position X` leaves the same board and the same repetition record *)
Theorem C16_position_resets : forall zt osort st st' raw sc sc',
  ss_phase st = Running -> ss_phase st' = Running ->
  str_eqb (first_token raw) s_position = true ->
  let r := fst (step zt osort st (Line raw) sc) in
  let r' := fst (step zt osort st' (Line raw) sc') in
  ss_phase r = Running ->
  ss_board r = ss_board r' /\ ss_table r = ss_table r' /\ ss_phase r' = Running.
Proof. exact position_resets. Qed.

(* ucinewgame and setoption change nothing and print nothing *)
Theorem C16_other_commands_stateless : forall zt osort st raw sc,
  ss_phase st = Running ->
  (str_eqb (first_token raw) s_ucinewgame = true \/ str_eqb (first_token raw) s_setoption = true) ->
  str_eqb (first_token raw) s_isready = false -> str_eqb (first_token raw) s_position = false ->
  str_eqb (first_token raw) s_go = false ->
  step zt osort st (Line raw) sc = (st, []).
Proof. exact ucinewgame_and_setoption_ignored. Qed.

(* the reply to go is a function of board, record, parameters and schedule: the step has no other input *)
Theorem C16_go_function : forall zt osort st st' cmds sc,
  ss_board st = ss_board st' -> ss_table st = ss_table st' ->
  snd (go_step zt osort st cmds sc) = snd (go_step zt osort st' cmds sc).
Proof.
  intros zt osort st st' cmds sc Hb Ht. unfold go_step. rewrite <- Hb, <- Ht.
  destruct (parse_go_command cmds); try reflexivity.
  destruct (generate_moves zt (ss_board st) AllMoves); try reflexivity.
  destruct (get_best_move zt osort (sc_k sc) (sc_fuel sc) (ss_board st) (ss_table st)) as [[ev s]| |]; try reflexivity.
  destruct (nth_error (sends_of ev) (length (sends_of ev) - 1)) as [bb|]; try reflexivity.
Qed.

(* the property as stated, on the session model: the reply to `position X` followed by `go ...` - every output line
   and the state the session is left in - is the same from any two running sessions, whatever games, searches,
   ucinewgames, option settings or ignored commands brought them there (given the same schedule of the clock) *)
Theorem C16_reply_is_a_function_of_the_request : forall zt osort st st' raw1 sc1 cmds1 b t raw2 sc2 cmds2,
  ss_phase st = Running -> ss_phase st' = Running ->
  split_on 32 (clean_input raw1) = cmds1 -> nth_error cmds1 0 = Some s_position ->
  play_out_position zt cmds1 = Ok (b, t) ->
  split_on 32 (clean_input raw2) = cmds2 -> nth_error cmds2 0 = Some s_go ->
  run zt osort st [(Line raw1, sc1); (Line raw2, sc2)] = run zt osort st' [(Line raw1, sc1); (Line raw2, sc2)].
Proof. exact request_is_a_function. Qed.

Print Assumptions C16_position_resets.
Print Assumptions C16_reply_is_a_function_of_the_request.
Print Assumptions C16_other_commands_stateless.
Print Assumptions C16_go_function.
