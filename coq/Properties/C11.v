(* C11 - Mate announcements (model-level part: what `score mate N` means).
   Truth of the announcements against the rules is decided by the rules-level AND/OR solver
   (Spec.mate_in / mated_in) on searches of the real engine. *)
From Walleye Require Import Model.Search Proofs.MateText.
Open Scope Z_scope.

(* N is never 0 for any value a completed root evaluation can take, and has the sign of the score *)
Theorem C11_mate_number_nonzero : forall e n,
  - (MATE_SCORE - 2) <= e <= MATE_SCORE - 1 -> mate_number e = Some n -> n <> 0.
Proof. exact mate_number_nonzero. Qed.

(* a mate delivered at ply p is announced as mate in (p+1)/2 moves; being mated at ply p as -(p/2) *)
Theorem C11_mate_number_of_ply_win : forall p,
  1 <= p <= MATE_WINDOW -> mate_number (MATE_SCORE - p) = Some ((p + 1) / 2).
Proof. exact mate_number_of_ply_win. Qed.
Theorem C11_mate_number_of_ply_loss : forall p,
  2 <= p <= MATE_WINDOW -> mate_number (- (MATE_SCORE - p)) = Some (- (p / 2)).
Proof. exact mate_number_of_ply_loss. Qed.

(* a static evaluation can never be printed as a mate (the evaluation bound of C14 is below the window) *)
Theorem C11_static_value_is_not_a_mate : forall e,
  Z.abs e < MATE_SCORE - MATE_WINDOW -> mate_number e = None.
Proof.
  intros e H. destruct (mate_number_cases e) as [[A E]|[(A & B & E)|(A & B & E)]]; try exact E; lia.
Qed.

Print Assumptions C11_mate_number_nonzero.
Print Assumptions C11_mate_number_of_ply_win.
Print Assumptions C11_mate_number_of_ply_loss.
Print Assumptions C11_static_value_is_not_a_mate.
