(* C11 - Mate announcements.  Proved here: what `score mate N` means; and, at the iterations where the search is
   exact (1..3, uninterrupted; C12), the first sentence of the property: a mate in one is played (and announced as
   mate 1), and a move that lets the opponent mate at once is not played when it can be avoided.
   Truth of the announcements at deeper iterations (null move active) is decided by the rules-level AND/OR solver
   (Spec.mate_in / mated_in) on searches of the real engine. *)
From Coq Require Import Permutation.
From Walleye Require Import Model.Search Spec.Minimax Spec.Abs Proofs.MateText Proofs.DrawTableProofs Proofs.TableRestored Proofs.RootProofs
  Proofs.CheckProofs Proofs.GenerateAbs Proofs.LegalMoves Proofs.PVSRoot Proofs.MateInOne Proofs.PositionGo Proofs.ClockSim Proofs.AlwaysAnswered Proofs.TightRange Proofs.OhBound Proofs.MateHeld Proofs.OhPosition Proofs.PositionMate.
From Walleye Require Import Model.Uci Gen.Handover Gen.ZobristTable.
Open Scope Z_scope.

(* N is never 0 for any value a completed root evaluation can take, and has the sign of the score *)
Theorem C11_mate_number_nonzero : forall e n,
  - (MATE_SCORE - 2) <= e <= MATE_SCORE - 1 -> mate_number e = Some n -> n <> 0.
Proof. exact mate_number_nonzero. Qed.

(* a mate delivered at ply p is announced as mate in (p+1)/2 moves; being mated at ply p as -(p/2) *)
Theorem C11_mate_number_of_ply_win : forall p,
  1 <= p <= MATE_WINDOW -> mate_number (MATE_SCORE - p) = Some ((p + 1) / 2).
Proof. exact mate_number_of_ply_win. Qed.
Theorem C11_mate_number_of_ply_loss : forall p,
  2 <= p <= MATE_WINDOW -> mate_number (- (MATE_SCORE - p)) = Some (- (p / 2)).
Proof. exact mate_number_of_ply_loss. Qed.

(* a static evaluation can never be printed as a mate (the evaluation bound of C14 is below the window) *)
Theorem C11_static_value_is_not_a_mate : forall e,
  Z.abs e < MATE_SCORE - MATE_WINDOW -> mate_number e = None.
Proof.
  intros e H. destruct (mate_number_cases e) as [[A E]|[(A & B & E)|(A & B & E)]]; try exact E; lia.
Qed.

(* "mated" in the model's terms (no generated move, in check) is the rules' checkmate, on every well-formed board *)
Theorem C11_mated_is_checkmate : forall zt m, pos_ok1 m -> (mated zt m <-> is_checkmate (abs m) = true).
Proof.
  intros zt m PO. destruct PO as [P E]. assert (PO : pos_ok1 m) by (split; assumption). destruct P as (CO & KO & _).
  unfold mated, is_checkmate. rewrite (no_moves_iff zt m PO), (is_check_correct m (to_move m) CO KO).
  change (pos_pl (abs m)) with (abs_placement (board m)). change (pos_stm (abs m)) with (to_move m).
  destruct (legal_moves (abs m)); [tauto|]. split; [intros [X _]; discriminate X|discriminate].
Qed.

(* a mate in one is played: in an iteration of depth 1..3 at whose end the clock (any expiry index k) has not expired over the generated moves (in any order, with
   any ranking), if some move mates (and the mated position has not already occurred twice - it cannot have occurred
   at all in a legal game), the iteration ends by reporting MATE_SCORE - 1, which is printed `score mate 1`, and by
   sending a move after which the opponent is mated *)
Theorem C11_mate_in_one_is_played : forall zt osort,
  (forall i l, Permutation l (osort i l)) ->
  forall k fuel F first t d b ms0 ms ws r o r2 m1,
  1 <= d <= 3 -> 1 + Z.of_nat F <= 100 -> dt_nonneg t ->
  Forall2 same_move ms0 (generate_moves zt b AllMoves) -> Permutation ms0 ms ->
  Forall2 (fun m x => negamax zt F m (d - 1) 1 t = Some x) (generate_moves zt b AllMoves) ws ->
  In m1 (generate_moves zt b AllMoves) -> mated zt m1 -> is_threefold_repetition t m1 = false ->
  dt_equiv (table (r_s r)) t ->
  root_moves zt osort k fuel first ms d NEG_INF r = Ok (o, r2) -> quiet k (r_s r2) ->
  exists r' mov line evs,
    o = Some r' /\ r_events r' = Info d (MATE_SCORE - 1) line :: Send mov :: evs /\ r_best r' = Some mov /\
    In mov ms /\ mated zt mov /\ mate_number (MATE_SCORE - 1) = Some 1.
Proof.
  intros zt osort P k fuel F first t d b ms0 ms ws r o r2 m1 Hd HF NN SM Pm HFv Hm MT NR E H Q.
  destruct (mate_in_one_is_played zt osort P k fuel F first t d b ms0 ms ws r o r2 m1 Hd HF NN SM Pm HFv Hm MT NR E H Q)
    as (r' & mov & line & evs & A1 & A2 & A3 & A4 & A5).
  exists r', mov, line, evs. split; [exact A1|]. split; [exact A2|]. split; [exact A3|]. split; [exact A4|]. split; [exact A5|reflexivity].
Qed.

(* not walking into a mate in one: in an iteration of depth 2 or 3 that ends before the clock expires, if some move does not let the
   opponent mate at once, the move sent does not either *)
Theorem C11_avoidable_mate_is_avoided : forall zt osort,
  (forall i l, Permutation l (osort i l)) ->
  forall k fuel F first t d b ms0 ms ws r o r2 m1,
  2 <= d <= 3 -> 1 + Z.of_nat F <= 100 -> dt_nonneg t ->
  Forall2 same_move ms0 (generate_moves zt b AllMoves) -> Permutation ms0 ms ->
  Forall2 (fun m x => negamax zt F m (d - 1) 1 t = Some x) (generate_moves zt b AllMoves) ws ->
  In m1 (generate_moves zt b AllMoves) -> ~ (is_threefold_repetition t m1 = false /\ allows_mate zt t m1) ->
  dt_equiv (table (r_s r)) t ->
  root_moves zt osort k fuel first ms d NEG_INF r = Ok (o, r2) -> quiet k (r_s r2) ->
  exists r' mov line evs e,
    o = Some r' /\ r_events r' = Info d e line :: Send mov :: evs /\ r_best r' = Some mov /\ In mov ms /\
    ~ (is_threefold_repetition t mov = false /\ allows_mate zt t mov).
Proof. exact avoidable_mate_is_avoided. Qed.

(* "the move played": what is printed after bestmove, and played on the engine's board, is the NEWEST move the search
   handed over - not an earlier, superseded candidate (the repaired defect F13: the polling loop could leave holding
   an older send; now the channel is drained after the search thread is joined).  With C11_mate_in_one_is_played: when
   the search stops within its first three iterations after proving a mate in one, the move played mates *)
Theorem C11_the_move_played_is_the_newest_one_handed_over : forall zt osort,
  (forall i l, l <> [] -> osort i l <> []) ->
  forall st cmds sc gt st' outs,
  NULL_PLY_OFFSET * Z.of_nat (sc_fuel sc) + 1 <= 2 * MATE_SCORE ->
  parse_go_command cmds = Ok gt -> generate_moves zt (ss_board st) AllMoves <> [] ->
  go_step zt osort st cmds sc = (st', outs) -> ss_phase st' = Running ->
  exists ev s b t more,
    get_best_move zt osort (sc_k sc) (sc_fuel sc) (ss_board st) (ss_table st) = Ok (ev, s) /\
    sends_of ev = more ++ [b] /\ best_move_text b = Ok t /\ ss_board st' = b /\ outs = infos_of ev ++ [s_bestmove ++ t].
Proof. exact go_plays_the_newest_send. Qed.

(* the first sentence of the property for the WHOLE search and EVERY deadline (expiry index k of the clock): if some move
   mates, and the first iteration ends before the clock expires, then - however many further iterations are run, at
   whatever depth (null move, zero-window re-searches and all), and wherever the clock expires afterwards - the last
   move the search hands over mates; by C11_the_move_played_is_the_newest_one_handed_over that is the move played.
   The hypotheses: a well-formed board whose own ordering value is below the PV mark (true of every board a `position`
   command produces: C11_generated_moves_rank_below_the_pv_mark), an ordering oracle that returns sorted permutations
   (checked on every logged sort by the correspondence), a mating position that has not occurred twice before, and
   the existence of the specification's values for the first iteration (fuel F).
   This is what the repair of F14 establishes: before it the root recognised last iteration's best move by its squares
   only, and the theorem is false of that code (k7/8/8/8/8/7P/5pPK/6BR b, expiry 2500). *)
Theorem C11_mate_in_one_is_played_whatever_the_deadline : forall zt osort,
  (forall i l, Permutation l (osort i l)) -> (forall i l, sorted_desc (osort i l) = true) ->
  forall k fuel b t F ws m1 r1 ev s,
  1 <= PLYMAX - NULL_PLY_OFFSET * Z.of_nat fuel ->
  pos_ok b AllMoves -> order_heuristic b < POS_INF -> dt_nonneg t ->
  (forall y, In y (generate_moves zt b AllMoves) -> mated zt y -> is_threefold_repetition t y = false) ->
  1 + Z.of_nat F <= 100 -> Forall2 (fun m x => negamax zt F m (1 - 1) 1 t = Some x) (generate_moves zt b AllMoves) ws ->
  In m1 (generate_moves zt b AllMoves) -> mated zt m1 ->
  first_iteration zt osort k fuel b t = Ok (Some r1, r1) -> quiet k (r_s r1) ->
  get_best_move zt osort k fuel b t = Ok (ev, s) ->
  exists more m, sends_of ev = more ++ [m] /\ mated zt m.
Proof. exact mate_in_one_is_played_whatever_the_deadline. Qed.

(* every generated move ranks below the PV mark when the position it was generated from does (captures: an MVV_LVA
   entry; quiet moves 0; promotions their two constants; castling and en passant inherit the parent's value) *)
Theorem C11_generated_moves_rank_below_the_pv_mark : forall zt s m x,
  order_heuristic s < POS_INF -> In x (generate_moves zt s m) -> order_heuristic x < POS_INF.
Proof. exact generated_oh_below_mark. Qed.

(* the tie of that model to uci.rs, regenerated from the source on every run: after `search_thread.join()` the channel is
   drained into `best_move`, and that is what is unwrapped and played (Gen/Consts.v, extract_consts.py) *)
Theorem C11_source_drains_the_channel_after_the_join : HANDOVER_DRAINS_AFTER_JOIN = true.
Proof. reflexivity. Qed.

(* the same through the session model's `go`: the engine's board after the `go` is the position after a mating move, and
   that move's text is what is printed after `bestmove` (the hypotheses on the board are what a `position` command
   establishes: pos_ok1 by C04_position_fen_command / C04_position_startpos_command, ordering value 0 below) *)
Theorem C11_go_plays_the_mate : forall zt osort,
  (forall i l, Permutation l (osort i l)) -> (forall i l, sorted_desc (osort i l) = true) ->
  forall st cmds sc gt st' outs F ws m1 r1,
  1 <= PLYMAX - NULL_PLY_OFFSET * Z.of_nat (sc_fuel sc) ->
  parse_go_command cmds = Ok gt -> go_step zt osort st cmds sc = (st', outs) -> ss_phase st' = Running ->
  pos_ok (ss_board st) AllMoves -> order_heuristic (ss_board st) < POS_INF -> dt_nonneg (ss_table st) ->
  (forall y, In y (generate_moves zt (ss_board st) AllMoves) -> mated zt y -> is_threefold_repetition (ss_table st) y = false) ->
  1 + Z.of_nat F <= 100 ->
  Forall2 (fun m x => negamax zt F m (1 - 1) 1 (ss_table st) = Some x) (generate_moves zt (ss_board st) AllMoves) ws ->
  In m1 (generate_moves zt (ss_board st) AllMoves) -> mated zt m1 ->
  first_iteration zt osort (sc_k sc) (sc_fuel sc) (ss_board st) (ss_table st) = Ok (Some r1, r1) -> quiet (sc_k sc) (r_s r1) ->
  mated zt (ss_board st') /\ exists t infos, best_move_text (ss_board st') = Ok t /\ outs = infos ++ [s_bestmove ++ t].
Proof. exact go_plays_the_mate. Qed.
Print Assumptions C11_go_plays_the_mate.

(* end to end: `position ...` (any command the loader and the applier accept, leaving a well-formed board: C04), then `go`.
   The ordering value of the board and the non-negativity of the repetition record are no longer hypotheses: the
   position command establishes them *)
Theorem C11_position_then_go_plays_the_mate : forall zt osort,
  (forall i l, Permutation l (osort i l)) -> (forall i l, sorted_desc (osort i l) = true) ->
  forall cmds1 b t cmds sc gt st' outs F ws m1 r1,
  play_out_position zt cmds1 = Ok (b, t) -> pos_ok1 b ->
  1 <= PLYMAX - NULL_PLY_OFFSET * Z.of_nat (sc_fuel sc) ->
  parse_go_command cmds = Ok gt -> go_step zt osort (mkSess b t Running) cmds sc = (st', outs) -> ss_phase st' = Running ->
  (forall y, In y (generate_moves zt b AllMoves) -> mated zt y -> is_threefold_repetition t y = false) ->
  1 + Z.of_nat F <= 100 ->
  Forall2 (fun m x => negamax zt F m (1 - 1) 1 t = Some x) (generate_moves zt b AllMoves) ws ->
  In m1 (generate_moves zt b AllMoves) -> mated zt m1 ->
  first_iteration zt osort (sc_k sc) (sc_fuel sc) b t = Ok (Some r1, r1) -> quiet (sc_k sc) (r_s r1) ->
  mated zt (ss_board st') /\ exists tx infos, best_move_text (ss_board st') = Ok tx /\ outs = infos ++ [s_bestmove ++ tx].
Proof. exact position_then_go_plays_the_mate. Qed.
Print Assumptions C11_position_then_go_plays_the_mate.

(* the premises are satisfiable and the conclusion is what was false before F14: the witness position of that defect
   (k7/8/8/8/8/7P/5pPK/6BR b: f2f1n mates, f2f1q shares its squares), the engine's own hash table, insertion sort as
   the ordering, the deadline at clock reading 300: the first iteration ends at a reading <= 300, the search is cut
   off later (its last reading is beyond 300), and the last move it handed over is f2f1n, after which White has no
   move and is in check *)
Definition c11_fen : str := [107; 55; 47; 56; 47; 56; 47; 56; 47; 56; 47; 55; 80; 47; 53; 112; 80; 75; 47; 54; 66; 82; 32; 98; 32; 45; 32; 45; 32; 48; 32; 49]%N.
Definition c11_b := match from_fen zt_concrete c11_fen with Ok s => s | _ => mkBoard [] White None (0,0) (0,0) false false false false 0 None None 0 end.
Definition c11_t : dtable := [(zobrist_key c11_b, 1)].
Definition c11_sort := fun (_ : N) l => stable_sort_desc l.
Example C11_underpromotion_mate_is_played_at_deadline_300 :
  let zt := zt_concrete in
  order_heuristic c11_b = 0 /\
  match first_iteration zt c11_sort (Some 300%N) 60 c11_b c11_t with
  | Ok (Some r1, _) => (clock (r_s r1) <=? 300)%N = true
  | _ => False
  end /\
  match get_best_move zt c11_sort (Some 300%N) 60 c11_b c11_t with
  | Ok (ev, s) =>
      (300 <? clock s)%N = true /\
      match rev (sends_of ev) with
      | m :: _ => best_move_text m = Ok [102; 50; 102; 49; 110]%N /\ generate_moves zt m AllMoves = [] /\ is_check m (to_move m) = true
      | [] => False
      end
  | _ => False
  end.
Proof. vm_compute. repeat split; reflexivity. Qed.

(* ... and the board a `position` command leaves behind carries the ordering value 0 (the loader writes 0, the text-move
   applier never touches the field): the hypothesis `order_heuristic b < POS_INF` above holds for every `position ...`, `go` *)
Theorem C11_position_command_leaves_ordering_value_zero : forall zt cmds b t,
  play_out_position zt cmds = Ok (b, t) -> order_heuristic b = 0.
Proof. exact position_command_leaves_ordering_value_zero. Qed.

Print Assumptions C11_position_command_leaves_ordering_value_zero.
Print Assumptions C11_mate_in_one_is_played_whatever_the_deadline.
Print Assumptions C11_source_drains_the_channel_after_the_join.
Print Assumptions C11_generated_moves_rank_below_the_pv_mark.
Print Assumptions C11_mate_number_nonzero.
Print Assumptions C11_the_move_played_is_the_newest_one_handed_over.
Print Assumptions C11_mated_is_checkmate.
Print Assumptions C11_mate_in_one_is_played.
Print Assumptions C11_avoidable_mate_is_avoided.
Print Assumptions C11_mate_number_of_ply_win.
Print Assumptions C11_mate_number_of_ply_loss.
Print Assumptions C11_static_value_is_not_a_mate.
