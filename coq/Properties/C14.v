(* C14 - Static evaluation is colour-symmetric, side-relative and bounded.
   Only theorem statements, each closed by [exact]; the proofs are in Proofs/EvalProofs.v.
   The statements quantify over every content of the 144 cells (any placement, legal or not). *)
From Walleye Require Import Model.Eval Proofs.EvalProofs.
Open Scope Z_scope.

(* evaluating a placement and its colour-mirrored twin (ranks flipped, colours and side swapped) *)
Theorem C14_mirror : forall (b b' : cells) (stm : color),
  (forall p, In p inner_points -> get b' p = swap_sq (get b (mirror_pt p))) ->
  eval_cells b' (opposite stm) = eval_cells b stm.
Proof. exact eval_mirror. Qed.

(* the same placement with the other side to move gives the negated number *)
Theorem C14_side : forall (b : cells) (stm : color),
  eval_cells b (opposite stm) = - eval_cells b stm.
Proof. exact eval_side. Qed.

(* nothing but the 64 squares and the side to move matters *)
Theorem C14_depends_only_on : forall (s s' : BoardState),
  (forall p, In p inner_points -> get (board s) p = get (board s') p) ->
  to_move s = to_move s' ->
  get_evaluation s = get_evaluation s'.
Proof.
  intros s s' H E. unfold get_evaluation. rewrite E. exact (eval_depends_only_on _ _ _ H).
Qed.

(* far below the mate range, for every placement *)
Theorem C14_bounded : forall (s : BoardState),
  Z.abs (get_evaluation s) <= eval_bound /\
  eval_bound < MATE_SCORE - 100 /\ eval_bound < MATE_SCORE - MATE_WINDOW - MAX_DEPTH.
Proof.
  intros s. split; [exact (eval_bounded _ _) | exact eval_bound_below_mate].
Qed.

Check C14_mirror : forall (b b' : cells) (stm : color),
  (forall p, In p inner_points -> get b' p = swap_sq (get b (mirror_pt p))) ->
  eval_cells b' (opposite stm) = eval_cells b stm.
Check C14_side : forall (b : cells) (stm : color), eval_cells b (opposite stm) = - eval_cells b stm.
Check C14_bounded : forall (s : BoardState),
  Z.abs (get_evaluation s) <= eval_bound /\
  eval_bound < MATE_SCORE - 100 /\ eval_bound < MATE_SCORE - MATE_WINDOW - MAX_DEPTH.

Print Assumptions C14_mirror.
Print Assumptions C14_side.
Print Assumptions C14_depends_only_on.
Print Assumptions C14_bounded.
