(* C18 - Search info lines are well-formed and within score bounds (model-level part). *)
From Walleye Require Import Model.Search Proofs.MateText.
Open Scope Z_scope.

(* the shape of the line: fixed keywords in fixed order around the numbers *)
Theorem C18_info_line_shape : forall s d e,
  info_line s d e = s_info_pv ++ ponder_text (pv_moves s) ++ s_depth ++ show_Z d ++ s_nodes ++ show_Z (nodes s) ++ score_text e.
Proof. reflexivity. Qed.

(* a centipawn score is strictly inside the mate window, hence below the mate magnitude and the sentinel *)
Theorem C18_cp_inside_window : forall e,
  mate_number e = None -> Z.abs e < MATE_SCORE - MATE_WINDOW /\ MATE_SCORE < POS_INF.
Proof. exact cp_inside_window. Qed.

Theorem C18_mate_number_nonzero : forall e n,
  - (MATE_SCORE - 2) <= e <= MATE_SCORE - 1 -> mate_number e = Some n -> n <> 0.
Proof. exact mate_number_nonzero. Qed.

Theorem C18_abort_value_never_cp : mate_number NEG_INF <> None /\ mate_number POS_INF <> None.
Proof. exact abort_value_not_cp. Qed.

Print Assumptions C18_info_line_shape.
Print Assumptions C18_cp_inside_window.
Print Assumptions C18_mate_number_nonzero.
Print Assumptions C18_abort_value_never_cp.
