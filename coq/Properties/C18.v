(* C18 - Search info lines are well-formed and within score bounds (model-level part). *)
From Walleye Require Import Model.Search Proofs.MateText Proofs.RootInfo Proofs.RootOrder.
From Walleye Require Import Spec.Abs Proofs.LegalMoves Proofs.RootPv Proofs.TightRange.
Open Scope Z_scope.

(* the shape of the line: fixed keywords in fixed order around the numbers *)
Theorem C18_info_line_shape : forall s d e,
  info_line s d e = s_info_pv ++ ponder_text (pv_moves s) ++ s_depth ++ show_Z d ++ s_nodes ++ show_Z (nodes s) ++ score_text e.
Proof. reflexivity. Qed.

(* a centipawn score is strictly inside the mate window, hence below the mate magnitude and the sentinel *)
Theorem C18_cp_inside_window : forall e,
  mate_number e = None -> Z.abs e < MATE_SCORE - MATE_WINDOW /\ MATE_SCORE < POS_INF.
Proof. exact cp_inside_window. Qed.

Theorem C18_mate_number_nonzero : forall e n,
  - (MATE_SCORE - 2) <= e <= MATE_SCORE - 1 -> mate_number e = Some n -> n <> 0.
Proof. exact mate_number_nonzero. Qed.

Theorem C18_abort_value_never_cp : mate_number NEG_INF <> None /\ mate_number POS_INF <> None.
Proof. exact abort_value_not_cp. Qed.

(* every improvement the search reports -- for every position, record, ordering oracle, expiry index,
   and any fuel below 20000 -- has depth >= 1 and an evaluation within the mate magnitude: never the
   infinity sentinel of an aborted sub-search (MATE_SCORE < POS_INF) *)
Theorem C18_reported_scores_in_range : forall zt osort k fuel,
  NULL_PLY_OFFSET * Z.of_nat fuel + 1 <= 2 * MATE_SCORE ->
  forall b t ev s, get_best_move zt osort k fuel b t = Ok (ev, s) ->
  Forall (fun e => match e with
                   | Info d x line => 1 <= d /\ - MATE_SCORE <= x <= MATE_SCORE
                   | Send _ => True end) ev.
Proof. exact reported_scores_in_range. Qed.

(* the first PV move of every info line, for every expiry index and ordering oracle that returns elements of its
   input, in every well-formed position: it is the move sent with that line - the from/to squares of a generated
   move of the searched position whose descriptor is a legal move of the rules (C01) *)
Theorem C18_first_pv_move_is_legal : forall zt osort k,
  (forall i l x, In x (osort i l) -> In x l) ->
  forall fuel b t ev s d e line,
  pos_ok1 b -> get_best_move zt osort k fuel b t = Ok (ev, s) -> In (Info d e line) ev ->
  exists m a c mv tl rest,
    In m (generate_moves zt b AllMoves) /\ last_move m = Some (a, c) /\ desc m = Some mv /\ In mv (legal_moves (abs b)) /\
    line = s_info_pv ++ (32%N :: show_point a ++ show_point c ++ ponder_text tl) ++ rest.
Proof. intros zt osort k HI fuel b t ev s d e line. exact (first_pv_move_is_legal zt osort k HI fuel b t ev s d e line). Qed.

(* Y is never 0: every evaluation a search reports - any depth, any expiry index, any ordering oracle - lies in
   [-(MATE_SCORE - 2), MATE_SCORE - 1] (the values of a node are bounded relative to its window and its ply:
   Proofs/TightRange.v), and on that range the number printed after `score mate` is non-zero.  The fuel bound only
   says the search tree is at most 2999 plies high *)
Theorem C18_mate_number_is_never_zero : forall zt osort k fuel,
  1 <= 30000 - 10 * Z.of_nat fuel ->
  forall b t ev s d e line n,
  get_best_move zt osort k fuel b t = Ok (ev, s) -> In (Info d e line) ev ->
  - (MATE_SCORE - 2) <= e <= MATE_SCORE - 1 /\ (mate_number e = Some n -> n <> 0).
Proof.
  intros zt osort k fuel HF b t ev s d e line n H Hin. split.
  - pose proof (reported_scores_tight zt osort k fuel HF b t ev s H) as F. rewrite Forall_forall in F. exact (F _ Hin).
  - exact (reported_mate_number_nonzero zt osort k fuel HF b t ev s d e line n H Hin).
Qed.

Print Assumptions C18_mate_number_is_never_zero.
Print Assumptions C18_first_pv_move_is_legal.
Print Assumptions C18_reported_scores_in_range.
(* the reports of one search, newest first: every report lies strictly above all earlier ones - a later depth, or the
   same depth with a strictly larger score; so D never decreases and scores strictly increase within a depth,
   for every position, record, ordering oracle and expiry index *)
Theorem C18_reports_are_ordered : forall zt osort k fuel b t ev s,
  get_best_move zt osort k fuel b t = Ok (ev, s) -> well_ordered (rev ev).
Proof. exact reports_well_ordered. Qed.

Print Assumptions C18_info_line_shape.
Print Assumptions C18_reports_are_ordered.
Print Assumptions C18_cp_inside_window.
Print Assumptions C18_mate_number_nonzero.
Print Assumptions C18_abort_value_never_cp.
