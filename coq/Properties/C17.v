(* C17 - Unknown input is ignored and the process lifecycle is clean (state-machine part). *)
From Walleye Require Import Model.Uci Proofs.SessionProofs.
Open Scope Z_scope.

Theorem C17_unknown_ignored : forall zt osort st raw sc,
  ss_phase st = Running -> known_command (first_token raw) = false ->
  step zt osort st (Line raw) sc = (st, []).
Proof. exact unknown_ignored. Qed.

Theorem C17_isready : forall zt osort st raw sc,
  ss_phase st = Running -> str_eqb (first_token raw) s_isready = true ->
  step zt osort st (Line raw) sc = (st, [s_readyok]).
Proof. exact isready_answered. Qed.

Theorem C17_eof_exits : forall zt osort st sc,
  ss_phase st = Running ->
  ss_phase (fst (step zt osort st Eof sc)) = Exited 0 /\ snd (step zt osort st Eof sc) = [].
Proof. exact eof_exits. Qed.

Theorem C17_quit_exits : forall zt osort st raw sc,
  ss_phase st = Running -> first_token raw = s_quit ->
  exists n, ss_phase (fst (step zt osort st (Line raw) sc)) = Exited n.
Proof. exact quit_exits. Qed.

Theorem C17_exited_is_final : forall zt osort st i sc,
  ss_phase st <> Running -> step zt osort st i sc = (st, []).
Proof. exact exited_is_final. Qed.

Print Assumptions C17_unknown_ignored.
Print Assumptions C17_isready.
Print Assumptions C17_eof_exits.
Print Assumptions C17_quit_exits.
Print Assumptions C17_exited_is_final.
