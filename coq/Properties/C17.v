(* C17 - Unknown input is ignored and the process lifecycle is clean (state-machine part). *)
From Walleye Require Import Model.Uci Proofs.SessionProofs Proofs.CleanInput.
Open Scope Z_scope.

Theorem C17_unknown_ignored : forall zt osort st raw sc,
  ss_phase st = Running -> known_command (first_token raw) = false ->
  step zt osort st (Line raw) sc = (st, []).
Proof. exact unknown_ignored. Qed.

Theorem C17_isready : forall zt osort st raw sc,
  ss_phase st = Running -> str_eqb (first_token raw) s_isready = true ->
  step zt osort st (Line raw) sc = (st, [s_readyok]).
Proof. exact isready_answered. Qed.

Theorem C17_eof_exits : forall zt osort st sc,
  ss_phase st = Running ->
  ss_phase (fst (step zt osort st Eof sc)) = Exited 0 /\ snd (step zt osort st Eof sc) = [].
Proof. exact eof_exits. Qed.

Theorem C17_quit_exits : forall zt osort st raw sc,
  ss_phase st = Running -> first_token raw = s_quit ->
  exists n, ss_phase (fst (step zt osort st (Line raw) sc)) = Exited n.
Proof. exact quit_exits. Qed.

Theorem C17_exited_is_final : forall zt osort st i sc,
  ss_phase st <> Running -> step zt osort st i sc = (st, []).
Proof. exact exited_is_final. Qed.

(* surplus or odd white space: every line reads as leading blanks followed by words, each followed by blanks (any of
   the Unicode white-space characters, in any number), and what the dispatcher works on is exactly the list of words *)
Theorem C17_line_is_its_words : forall s,
  exists b0 l, all_ws b0 /\ well_formed l /\ s = assemble b0 l /\
               split_on 32 (clean_input s) = match l with [] => [[]] | _ => map fst l end.
Proof. exact line_is_its_words. Qed.

(* so two lines with the same words are the same command: the blanks never matter, whatever the state and schedule *)
Theorem C17_blanks_do_not_matter : forall zt osort st sc b0 l b0' l',
  all_ws b0 -> well_formed l -> all_ws b0' -> well_formed l' -> map fst l = map fst l' ->
  step zt osort st (Line (assemble b0 l)) sc = step zt osort st (Line (assemble b0' l')) sc.
Proof.
  intros zt osort st sc b0 l b0' l' H1 W1 H2 W2 E.
  assert (S : split_on 32 (clean_input (assemble b0 l)) = split_on 32 (clean_input (assemble b0' l'))).
  { rewrite (clean_input_words b0 l H1 W1), (clean_input_words b0' l' H2 W2), E.
    destruct l, l'; try reflexivity; discriminate. }
  unfold step. cbv zeta. rewrite S. reflexivity.
Qed.

Print Assumptions C17_unknown_ignored.
Print Assumptions C17_line_is_its_words.
Print Assumptions C17_blanks_do_not_matter.
Print Assumptions C17_isready.
Print Assumptions C17_eof_exits.
Print Assumptions C17_quit_exits.
Print Assumptions C17_exited_is_final.
